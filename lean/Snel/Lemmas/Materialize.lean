import Snel.Model.Materialize
/-!
# Lemmas about the REMEMBER / SHOW model (C14)

The central invariant of a catalog entry against a store (`EntryInv`):

    stored frames  ~  { r ∈ visible | q r ∧ ¬ (r.ts, r.id) > mark }      (as multisets)

and the mark in the catalog is the sink's mark. A SHOW then returns the stored frames plus
the rows above the mark: together the whole selection.
-/
namespace Snel.Materialize
open List

/-! ## Order facts -/

theorem lexGt_iff {a b : Nat × Nat} :
    lexGt a b = true ↔ (b.1 < a.1 ∨ (a.1 = b.1 ∧ b.2 < a.2)) := by
  simp [lexGt]

theorem lexGt_false_iff {a b : Nat × Nat} :
    lexGt a b = false ↔ (a.1 < b.1 ∨ (a.1 = b.1 ∧ a.2 ≤ b.2)) := by
  rw [← Bool.not_eq_true, lexGt_iff]
  omega

theorem lexGt_ts {a b : Nat × Nat} (h : lexGt a b = true) : b.1 ≤ a.1 := by
  rw [lexGt_iff] at h; omega

theorem le_maxOf {l : List Nat} {x : Nat} (h : x ∈ l) : x ≤ maxOf l := by
  induction l with
  | nil => cases h
  | cons a l ih =>
    simp only [maxOf, foldr_cons]
    rcases mem_cons.mp h with rfl | h
    · exact Nat.le_max_left _ _
    · exact Nat.le_trans (ih h) (Nat.le_max_right _ _)

theorem maxOf_le {l : List Nat} {b : Nat} (h : ∀ x ∈ l, x ≤ b) : maxOf l ≤ b := by
  induction l with
  | nil => simp [maxOf]
  | cons a l ih =>
    simp only [maxOf, foldr_cons]
    exact Nat.max_le.mpr ⟨h a (mem_cons_self), ih (fun x hx => h x (mem_cons_of_mem _ hx))⟩

theorem maxOf_lt {l : List Nat} {b : Nat} (hb : 0 < b) (h : ∀ x ∈ l, x < b) : maxOf l < b := by
  induction l with
  | nil => simpa [maxOf] using hb
  | cons a l ih =>
    simp only [maxOf, foldr_cons]
    have h1 := h a (mem_cons_self)
    have h2 := ih (fun x hx => h x (mem_cons_of_mem _ hx))
    exact Nat.max_lt.mpr ⟨h1, h2⟩

theorem frameHw_ge {f : List Ev} {r : Ev} (h : r ∈ f) :
    r.ts ≤ (frameHw f).1 ∧ r.id ≤ (frameHw f).2 :=
  ⟨le_maxOf (mem_map.mpr ⟨r, h, rfl⟩), le_maxOf (mem_map.mpr ⟨r, h, rfl⟩)⟩

/-- No row of a frame is above that frame's mark. -/
theorem not_above_frameHw {f : List Ev} {r : Ev} (h : r ∈ f) : lexGt r.pos (frameHw f) = false := by
  have := frameHw_ge h
  rw [lexGt_false_iff]; simp only [Ev.pos]; omega

/-! ## Lists -/

theorem flatten_nonEmpty (L : List (List Ev)) : (nonEmpty L).flatten = L.flatten := by
  induction L with
  | nil => rfl
  | cons b L ih =>
    cases b with
    | nil => simpa [nonEmpty] using ih
    | cons x xs => simp [nonEmpty, ih]

theorem mem_nonEmpty {L : List (List Ev)} {b : List Ev} (h : b ∈ nonEmpty L) : b ∈ L ∧ b ≠ [] := by
  induction L with
  | nil => simp [nonEmpty] at h
  | cons c L ih =>
    cases c with
    | nil =>
      simp only [nonEmpty] at h
      exact ⟨mem_cons_of_mem _ (ih h).1, (ih h).2⟩
    | cons x xs =>
      simp only [nonEmpty, mem_cons] at h
      rcases h with rfl | h
      · exact ⟨mem_cons_self, by simp⟩
      · exact ⟨mem_cons_of_mem _ (ih h).1, (ih h).2⟩

/-- The delta filter compares against the manifest's mark (the branch of `filterMark` the source
takes, `Snel.Gen.C14.deltaFilterFromSink`). -/
@[simp] theorem filterMark_eq (e : Entry) : filterMark e = sinkMark e.frames := by
  simp [filterMark, Snel.Gen.C14.deltaFilterFromSink]

@[simp] theorem afterShow_frames (e : Entry) (sched : List (List Ev)) :
    (e.afterShow sched).frames = e.frames ++ keptBatches (sinkMark e.frames) sched := by
  simp [Entry.afterShow]
@[simp] theorem afterCut_frames (e : Entry) (sched : List (List Ev)) :
    (e.afterCut sched).frames = e.frames ++ keptBatches (sinkMark e.frames) sched := by
  simp [Entry.afterCut]
@[simp] theorem afterCut_q (e : Entry) (sched : List (List Ev)) : (e.afterCut sched).q = e.q := rfl
@[simp] theorem afterCut_mark (e : Entry) (sched : List (List Ev)) : (e.afterCut sched).mark = e.mark := rfl
@[simp] theorem afterShow_q (e : Entry) (sched : List (List Ev)) : (e.afterShow sched).q = e.q := rfl
@[simp] theorem afterShow_mark (e : Entry) (sched : List (List Ev)) :
    (e.afterShow sched).mark = nextMark e.mark (sinkMark e.frames)
      (sinkMark (e.frames ++ keptBatches (sinkMark e.frames) sched)) := by
  simp [Entry.afterShow]
@[simp] theorem initial_frames (q : Spec) (now : Nat) (sched : List (List Ev)) :
    (Entry.initial q now sched).frames = nonEmpty sched := rfl
@[simp] theorem initial_q (q : Spec) (now : Nat) (sched : List (List Ev)) :
    (Entry.initial q now sched).q = q := rfl
@[simp] theorem initial_mark (q : Spec) (now : Nat) (sched : List (List Ev)) :
    (Entry.initial q now sched).mark =
      (if isZero (sinkMark (nonEmpty sched)) then none else some (sinkMark (nonEmpty sched))) := rfl

theorem kept_flatten (w0 : Nat × Nat) (sched : List (List Ev)) :
    (keptBatches w0 sched).flatten = sched.flatten.filter (fun r => lexGt r.pos w0) := by
  rw [keptBatches, flatten_nonEmpty, filter_flatten]

/-- Splitting a selection at a mark. -/
theorem filter_split (p g : Ev → Bool) (l : List Ev) :
    (l.filter (fun r => p r && !g r) ++ l.filter (fun r => p r && g r)).Perm (l.filter p) := by
  have h := filter_append_perm g (l.filter p)
  rw [filter_filter, filter_filter] at h
  have e1 : (fun r => g r && p r) = (fun r => p r && g r) := by funext r; exact Bool.and_comm _ _
  have e2 : (fun r => (!g r) && p r) = (fun r => p r && !g r) := by funext r; exact Bool.and_comm _ _
  rw [e1, e2] at h
  exact (perm_append_comm).trans h

/-! ## Truthful zone metadata and the soundness of dropping -/

/-- What the pruner relies on: a zone's `timestamp_max` bounds its rows' timestamps, and the
`.zones` file is not older than one second before its newest row's stamp. -/
def Zone.Truthful (z : Zone) : Prop := ∀ r ∈ z.rows, r.ts ≤ z.tsMax ∧ r.ts ≤ z.mtime + 1

def Store.Truthful (s : Store) : Prop := ∀ z ∈ s.zones, z.Truthful

instance (z : Zone) : Decidable z.Truthful := by unfold Zone.Truthful; infer_instance
instance (s : Store) : Decidable s.Truthful := by unfold Store.Truthful; infer_instance

/-- A zone skipped by a SHOW delta query (high-water second `h`) holds no row with `ts ≥ h`. -/
theorem dropped_rows_below {z : Zone} (hz : z.Truthful) {c h : Nat}
    (hk : zoneKept (some (c, some h)) z = false) : ∀ r ∈ z.rows, r.ts < h := by
  intro r hr
  obtain ⟨h1, h2⟩ := hz r hr
  simp only [zoneKept, fileStale, dropZone, Option.getD_some, Bool.and_eq_false_iff,
    Bool.not_eq_false', decide_eq_true_eq, Snel.Gen.C14.staleSlack] at hk
  rcases hk with hk | hk
  · have := of_decide_eq_true hk; omega
  · omega

/-- **The segment-level early exit never drops more than the per-zone pruner**: when every zone
of a segment satisfies the drop rule, each of them is dropped by the pruner anyway. Hence the
zones read are exactly those the per-zone test keeps. -/
theorem zoneRead_eq (guard : Option (Nat × Option Nat)) {all : List Zone} {z : Zone} (hz : z ∈ all) :
    zoneRead guard all z = zoneKept guard z := by
  cases guard with
  | none => rfl
  | some g =>
    obtain ⟨c, h⟩ := g
    simp only [zoneRead, zoneKept]
    cases hd : dropZone c h z with
    | true => simp
    | false =>
      have : segFullyMaterialized c h (all.filter (·.seg == z.seg)) = false := by
        cases hs : segFullyMaterialized c h (all.filter (·.seg == z.seg)) with
        | false => rfl
        | true =>
          simp only [segFullyMaterialized, Snel.Gen.C14.segmentGuardAllZones, if_true,
            Bool.and_eq_true, all_eq_true] at hs
          have := hs.2 z (mem_filter.mpr ⟨hz, by simp⟩)
          rw [hd] at this; cases this
      simp [this]

theorem filter_zoneRead (guard : Option (Nat × Option Nat)) (zs : List Zone) :
    zs.filter (zoneRead guard zs) = zs.filter (zoneKept guard) :=
  filter_congr (fun _ hz => zoneRead_eq guard hz)

theorem scan_none (s : Store) : scanRows s none = s.vis := by
  have : zoneKept none = fun _ => true := by funext z; rfl
  have h2 : s.zones.filter (fun _ => true) = s.zones := filter_eq_self.mpr (fun _ _ => rfl)
  simp only [scanRows, Store.vis, filter_zoneRead, this, h2]

theorem runQuery_none (s : Store) (q : Spec) : runQuery s q none = s.vis.filter q.matches := by
  simp [runQuery, scan_none]

/-- Filtering the rows of the kept zones = filtering the rows of all zones, when the filter
only passes rows with `ts ≥ h`. -/
theorem filter_kept_zones {zs : List Zone} (hz : ∀ z ∈ zs, z.Truthful) {c h : Nat} (P : Ev → Bool)
    (hP : ∀ r, P r = true → h ≤ r.ts) :
    ((zs.filter (zoneKept (some (c, some h)))).flatMap (·.rows)).filter P
      = (zs.flatMap (·.rows)).filter P := by
  induction zs with
  | nil => rfl
  | cons z zs ih =>
    have ih' := ih (fun z' hz' => hz z' (mem_cons_of_mem _ hz'))
    cases hk : zoneKept (some (c, some h)) z with
    | true => simp [hk, ih']
    | false =>
      have hlow := dropped_rows_below (hz z (mem_cons_self)) hk
      have : z.rows.filter P = [] := by
        rw [filter_eq_nil_iff]
        intro r hr hPr
        have := hP r hPr; have := hlow r hr; omega
      simp [hk, ih', this]

/-- The mark the catalog records is never above the manifest's (it equals it after REMEMBER and
after every completed SHOW, and lags behind after an interrupted one). -/
def MarkOk (e : Entry) : Prop :=
  ∀ m, e.mark = some m → lexGt m (sinkMark e.frames) = false

theorem delta_pred_eq (q : Spec) (mark : Option (Nat × Nat)) (w0 : Nat × Nat)
    (hm : ∀ m, mark = some m → lexGt m w0 = false) (r : Ev) :
    (({ q with since := deltaSince q.since mark } : Spec).matches r && lexGt r.pos w0)
      = (q.matches r && lexGt r.pos w0) := by
  cases hg : lexGt r.pos w0 with
  | false => simp
  | true =>
    have hts := lexGt_ts hg
    simp only [Ev.pos] at hts
    simp only [Bool.and_true, Spec.matches]
    congr 1
    cases mark with
    | none => simp [deltaSince]
    | some m =>
      have hle : m.1 ≤ w0.1 := by
        have := hm m rfl
        rw [lexGt_false_iff] at this; omega
      cases hz : isZero m with
      | true => simp [deltaSince, hz]
      | false =>
        simp only [deltaSince, hz, Bool.false_eq_true, if_false]
        cases q.since with
        | none =>
          have : m.1 ≤ r.ts := by omega
          simp [this]
        | some t =>
          by_cases h : t < m.1
          · simp only [h, if_true]
            have h1 : t ≤ r.ts := by omega
            have h2 : m.1 ≤ r.ts := by omega
            simp [h1, h2]
          · simp [h]

/-- **Dropping zones and tightening SINCE never changes what passes the watermark filter**:
the rows SHOW keeps from its delta query are exactly the visible rows of the remembered
selection that lie above the mark. -/
theorem delta_filter_eq {s : Store} (hs : s.Truthful) {e : Entry} (hm : MarkOk e) :
    (deltaQuery s e).filter (fun r => lexGt r.pos (sinkMark e.frames))
      = s.vis.filter (fun r => e.q.matches r && lexGt r.pos (sinkMark e.frames)) := by
  unfold deltaQuery runQuery scanRows Store.vis
  rw [filter_zoneRead, filter_filter]
  have hpred : (fun r => lexGt r.pos (sinkMark e.frames) &&
        ({ e.q with since := deltaSince e.q.since e.mark } : Spec).matches r)
      = (fun r => e.q.matches r && lexGt r.pos (sinkMark e.frames)) := by
    funext r
    rw [Bool.and_comm]
    exact delta_pred_eq e.q e.mark (sinkMark e.frames) hm r
  rw [hpred]
  simp only [filter_append]
  congr 1
  apply filter_kept_zones hs
  intro r hr
  simp only [Bool.and_eq_true] at hr
  have := lexGt_ts hr.2
  simpa [Ev.pos] using this

/-! ## The sink's mark: a running lexicographic maximum -/

theorem lexLe_trans {a b c : Nat × Nat} (h1 : lexGt a b = false) (h2 : lexGt b c = false) :
    lexGt a c = false := by
  rw [lexGt_false_iff] at *; omega

theorem lexGt_of_gt_le {a b c : Nat × Nat} (h1 : lexGt a b = true) (h2 : lexGt a c = false) :
    lexGt c b = true := by
  rw [lexGt_false_iff] at h2; rw [lexGt_iff] at *; omega

theorem lexLe_refl (a : Nat × Nat) : lexGt a a = false := by
  rw [lexGt_false_iff]; omega

theorem advance_ge (m w : Nat × Nat) :
    lexGt m (advance m w) = false ∧ lexGt w (advance m w) = false := by
  unfold advance
  cases h : lexGt w m with
  | true =>
    simp only [if_true]
    refine ⟨?_, lexLe_refl w⟩
    rw [lexGt_iff] at h; rw [lexGt_false_iff]; omega
  | false => simp only [Bool.false_eq_true, if_false]; exact ⟨lexLe_refl m, h⟩

theorem foldl_advance_ge : ∀ (l : List (Nat × Nat)) (init : Nat × Nat),
    lexGt init (l.foldl advance init) = false ∧ ∀ w ∈ l, lexGt w (l.foldl advance init) = false
  | [], init => ⟨lexLe_refl init, fun _ h => by cases h⟩
  | x :: l, init => by
    obtain ⟨h1, h2⟩ := foldl_advance_ge l (advance init x)
    obtain ⟨g1, g2⟩ := advance_ge init x
    simp only [foldl_cons]
    refine ⟨lexLe_trans g1 h1, ?_⟩
    intro w hw
    rcases mem_cons.mp hw with rfl | hw
    · exact lexLe_trans g2 h1
    · exact h2 w hw

theorem foldl_advance_mem : ∀ (l : List (Nat × Nat)) (init : Nat × Nat),
    l.foldl advance init = init ∨ l.foldl advance init ∈ l
  | [], _ => Or.inl rfl
  | x :: l, init => by
    simp only [foldl_cons]
    rcases foldl_advance_mem l (advance init x) with h | h
    · rw [h]; unfold advance; split
      · exact Or.inr mem_cons_self
      · exact Or.inl rfl
    · exact Or.inr (mem_cons_of_mem _ h)

theorem sinkMark_append (frames kept : List (List Ev)) :
    sinkMark (frames ++ kept) = (kept.map frameHw).foldl advance (sinkMark frames) := by
  simp [sinkMark, map_append, foldl_append]

theorem sinkMark_append_nil (frames : List (List Ev)) : sinkMark (frames ++ []) = sinkMark frames := by
  simp

/-- The sink's mark is not below the mark of any stored frame. -/
theorem sinkMark_dominates {frames : List (List Ev)} {f : List Ev} (hf : f ∈ frames) :
    lexGt (frameHw f) (sinkMark frames) = false :=
  (foldl_advance_ge (frames.map frameHw) (0, 0)).2 _ (mem_map.mpr ⟨f, hf, rfl⟩)

theorem sinkMark_cases (frames : List (List Ev)) :
    sinkMark frames = (0, 0) ∨ ∃ f ∈ frames, sinkMark frames = frameHw f := by
  rcases foldl_advance_mem (frames.map frameHw) (0, 0) with h | h
  · exact Or.inl h
  · obtain ⟨f, hf, hfe⟩ := mem_map.mp h
    exact Or.inr ⟨f, hf, hfe.symm⟩

theorem sinkMark_mono (frames kept : List (List Ev)) :
    lexGt (sinkMark frames) (sinkMark (frames ++ kept)) = false := by
  rw [sinkMark_append]; exact (foldl_advance_ge _ _).1

/-- The mark left by the stored frames covers every stored row. -/
def Covers (frames : List (List Ev)) : Prop :=
  ∀ r ∈ frames.flatten, lexGt r.pos (sinkMark frames) = false

/-- **The mark is never below a stored row** (since the sink keeps the running maximum). -/
theorem covers_always (frames : List (List Ev)) : Covers frames := by
  intro r hr
  obtain ⟨f, hf, hrf⟩ := mem_flatten.mp hr
  exact lexLe_trans (not_above_frameHw hrf) (sinkMark_dominates hf)

/-! ## The entry invariant -/

def EntryInv (st : Store) (e : Entry) : Prop :=
  e.frames.flatten.Perm
    (st.vis.filter (fun r => e.q.matches r && !lexGt r.pos (sinkMark e.frames))) ∧ MarkOk e

/-- Reachable states: truthful zone metadata, no flush window open (windows are modelled by the
explicit `flushBegin` / `flushEnd` pair, which is not a legitimate re-layout), every entry
consistent with the store. -/
def Inv (s : St) : Prop :=
  s.store.Truthful ∧ s.store.passive = [] ∧ ∀ n e, s.cat n = some e → EntryInv s.store e

/-- Every visible row of the selection is at or below the entry's mark. -/
def Settled (st : Store) (e : Entry) : Prop :=
  ∀ r ∈ st.vis, e.q.matches r = true → lexGt r.pos (sinkMark e.frames) = false

theorem flushEnd_eq {s : Store} (h : s.passive = []) : s.flushEnd = s := by
  cases s; simp_all [Store.flushEnd]

theorem inv_init : Inv St.init := by
  refine ⟨?_, rfl, ?_⟩
  · intro z hz; simp [St.init] at hz
  · intro n e h; simp [St.init] at h

theorem LegitShow.apply {s : St} {n : Nat} {sched : List (List Ev)} (h : LegitShow s n sched)
    (e : Entry) (he : s.cat n = some e) : sched.flatten.Perm (deltaQuery s.store.flushEnd e) := by
  unfold LegitShow at h; rw [he] at h; exact h

theorem kept_rows_above {w0 : Nat × Nat} {sched : List (List Ev)} {b : List Ev}
    (hb : b ∈ keptBatches w0 sched) : b ≠ [] ∧ ∀ r ∈ b, lexGt r.pos w0 = true := by
  obtain ⟨h1, h2⟩ := mem_nonEmpty hb
  refine ⟨h2, ?_⟩
  obtain ⟨b0, _, rfl⟩ := mem_map.mp h1
  intro r hr
  exact (mem_filter.mp hr).2

/-- What SHOW keeps of its delta: the visible rows of the selection above the mark (no
hypothesis on how the stored frames relate to the store). -/
theorem kept_perm {s : St} (ht : s.store.Truthful) (hp : s.store.passive = []) {n : Nat} {e : Entry}
    (he : s.cat n = some e) (hm : MarkOk e) {sched : List (List Ev)} (hl : LegitShow s n sched) :
    (keptBatches (sinkMark e.frames) sched).flatten.Perm
      (s.store.vis.filter (fun r => e.q.matches r && lexGt r.pos (sinkMark e.frames))) := by
  rw [kept_flatten]
  have h1 := (hl.apply e he).filter (fun r => lexGt r.pos (sinkMark e.frames))
  rw [flushEnd_eq hp, delta_filter_eq ht hm] at h1
  exact h1

/-- Rows a SHOW returns: the stored frames plus the kept delta. -/
theorem show_rows_perm {s : St} (hi : Inv s) {n : Nat} {e : Entry} (he : s.cat n = some e)
    {sched : List (List Ev)} (hl : LegitShow s n sched) :
    (e.frames.flatten ++ (keptBatches (sinkMark e.frames) sched).flatten).Perm
      (s.store.vis.filter e.q.matches) := by
  obtain ⟨ht, hp, hcat⟩ := hi
  obtain ⟨hperm, hm⟩ := hcat n e he
  exact (Perm.append hperm (kept_perm ht hp he hm hl)).trans (filter_split _ _ _)

theorem showM_rows {s : St} {n : Nat} {e : Entry} (he : s.cat n = some e) (sched : List (List Ev)) :
    (showM s n sched).2 = some (e.frames.flatten ++ (keptBatches (sinkMark e.frames) sched).flatten) := by
  simp [showM, he]

theorem showM_cat {s : St} {n : Nat} {e : Entry} (he : s.cat n = some e) (sched : List (List Ev)) :
    (showM s n sched).1 = { s with cat := setCat s.cat n (e.afterShow sched) } := by
  simp [showM, he]

/-- The mark of a kept batch is above the mark the SHOW started with. -/
theorem kept_frameHw_above {w0 : Nat × Nat} {sched : List (List Ev)} {b : List Ev}
    (hb : b ∈ keptBatches w0 sched) : lexGt (frameHw b) w0 = true := by
  obtain ⟨hne, habove⟩ := kept_rows_above hb
  obtain ⟨r, hr⟩ := exists_mem_of_ne_nil b hne
  exact lexGt_of_gt_le (habove r hr) (not_above_frameHw hr)

/-- A non-empty kept delta moves the mark strictly up. -/
theorem kept_mark_above {frames : List (List Ev)} {sched : List (List Ev)}
    (h : keptBatches (sinkMark frames) sched ≠ []) :
    lexGt (sinkMark (frames ++ keptBatches (sinkMark frames) sched)) (sinkMark frames) = true := by
  obtain ⟨b, hb⟩ := exists_mem_of_ne_nil _ h
  have h1 := kept_frameHw_above hb
  have h2 : lexGt (frameHw b) (sinkMark (frames ++ keptBatches (sinkMark frames) sched)) = false :=
    sinkMark_dominates (mem_append_right _ hb)
  exact lexGt_of_gt_le h1 h2

theorem markOk_after_show {e : Entry} (hm : MarkOk e) (sched : List (List Ev)) :
    MarkOk (e.afterShow sched) := by
  unfold MarkOk at *
  rw [afterShow_frames, afterShow_mark]
  intro m hmk
  have hmono := sinkMark_mono e.frames (keptBatches (sinkMark e.frames) sched)
  simp only [nextMark] at hmk
  split at hmk
  · exact lexLe_trans (hm m hmk) hmono
  · split at hmk
    · exact lexLe_trans (hm m hmk) hmono
    · cases hmk; exact lexLe_refl _

/-- An interrupted SHOW leaves the catalog mark where it was: at or below the manifest's. -/
theorem markOk_after_cut {e : Entry} (hm : MarkOk e) (sched : List (List Ev)) :
    MarkOk (e.afterCut sched) := by
  unfold MarkOk at *
  rw [afterCut_frames, afterCut_mark]
  intro m hmk
  exact lexLe_trans (hm m hmk) (sinkMark_mono e.frames _)

theorem markOk_initial (q : Spec) (now : Nat) (sched : List (List Ev)) :
    MarkOk (Entry.initial q now sched) := by
  unfold MarkOk
  rw [initial_frames, initial_mark]
  intro m hmk
  split at hmk
  · cases hmk
  · cases hmk; exact lexLe_refl _

/-- The frames after a (completed or interrupted) SHOW are the visible rows of the selection at or
below the new manifest mark. -/
theorem frames_after_show_perm {s : St} (hi : Inv s) {n : Nat} {e : Entry} (he : s.cat n = some e)
    {sched : List (List Ev)} (hl : LegitShow s n sched) :
    (e.frames ++ keptBatches (sinkMark e.frames) sched).flatten.Perm
      (s.store.vis.filter (fun r => e.q.matches r &&
        !lexGt r.pos (sinkMark (e.frames ++ keptBatches (sinkMark e.frames) sched)))) := by
  have hrows := show_rows_perm hi he hl
  have hcov := covers_always (e.frames ++ keptBatches (sinkMark e.frames) sched)
  rw [flatten_append]
  refine hrows.trans ?_
  apply Perm.of_eq
  apply filter_congr
  intro r hr
  cases hq : e.q.matches r with
  | false => simp
  | true =>
    have hin : r ∈ e.frames.flatten ++ (keptBatches (sinkMark e.frames) sched).flatten :=
      hrows.mem_iff.mpr (mem_filter.mpr ⟨hr, hq⟩)
    rw [← flatten_append] at hin
    simp [hcov r hin]

/-- SHOW preserves the invariant. -/
theorem show_inv {s : St} (hi : Inv s) {n : Nat} {sched : List (List Ev)}
    (hl : LegitShow s n sched) : Inv (showM s n sched).1 := by
  cases he : s.cat n with
  | none => simpa [showM, he] using hi
  | some e =>
    have hperm := frames_after_show_perm hi he hl
    obtain ⟨ht, hp, hcat⟩ := hi
    rw [showM_cat he]
    refine ⟨ht, hp, ?_⟩
    intro k e' hk
    simp only [setCat] at hk
    by_cases hkn : k = n
    · simp only [hkn, if_true, Option.some.injEq] at hk
      subst hk
      refine ⟨?_, markOk_after_show (hcat n e he).2 sched⟩
      rw [afterShow_frames, afterShow_q]
      exact hperm
    · simp only [hkn, if_false] at hk
      exact hcat k e' hk

theorem showCut_cat {s : St} {n : Nat} {e : Entry} (he : s.cat n = some e) (sched : List (List Ev)) :
    showCut s n sched = { s with cat := setCat s.cat n (e.afterCut sched) } := by
  simp [showCut, he]

/-- … and so does an interrupted SHOW. -/
theorem cut_inv {s : St} (hi : Inv s) {n : Nat} {sched : List (List Ev)}
    (hl : LegitShow s n sched) : Inv (showCut s n sched) := by
  cases he : s.cat n with
  | none => simpa [showCut, he] using hi
  | some e =>
    have hperm := frames_after_show_perm hi he hl
    obtain ⟨ht, hp, hcat⟩ := hi
    rw [showCut_cat he]
    refine ⟨ht, hp, ?_⟩
    intro k e' hk
    simp only [setCat] at hk
    by_cases hkn : k = n
    · simp only [hkn, if_true, Option.some.injEq] at hk
      subst hk
      refine ⟨?_, markOk_after_cut (hcat n e he).2 sched⟩
      rw [afterCut_frames, afterCut_q]
      exact hperm
    · simp only [hkn, if_false] at hk
      exact hcat k e' hk

theorem remember_dup {s : St} {n : Nat} {e : Entry} (he : s.cat n = some e) (q : Spec) (now : Nat)
    (sched : List (List Ev)) : remember s n q now sched = (s, false) := by
  simp [remember, he]

theorem remember_new {s : St} {n : Nat} (he : s.cat n = none) (q : Spec) (now : Nat)
    (sched : List (List Ev)) :
    remember s n q now sched =
      ({ s with cat := setCat s.cat n (Entry.initial q now sched) }, true) := by
  simp [remember, he]

theorem remember_inv {s : St} (hi : Inv s) {n : Nat} {q : Spec} {now : Nat} {sched : List (List Ev)}
    (hl : LegitRemember s q sched) : Inv (remember s n q now sched).1 := by
  cases he : s.cat n with
  | some e => rw [remember_dup he]; exact hi
  | none =>
    rw [remember_new he]
    obtain ⟨ht, hp, hcat⟩ := hi
    refine ⟨ht, hp, ?_⟩
    intro k e' hk
    simp only [setCat] at hk
    by_cases hkn : k = n
    · simp only [hkn, if_true, Option.some.injEq] at hk
      subst hk
      refine ⟨?_, markOk_initial q now sched⟩
      rw [initial_frames, initial_q, flatten_nonEmpty]
      unfold LegitRemember at hl
      rw [flushEnd_eq hp, runQuery_none] at hl
      refine hl.trans (Perm.of_eq ?_)
      apply filter_congr
      intro r hr
      cases hq : q.matches r with
      | false => simp
      | true =>
        have hin : r ∈ sched.flatten := hl.mem_iff.mpr (mem_filter.mpr ⟨hr, hq⟩)
        rw [← flatten_nonEmpty] at hin
        simp [covers_always (nonEmpty sched) r hin]
    · simp only [hkn, if_false] at hk
      exact hcat k e' hk

/-- A newly applied event is above the mark of every materialisation whose selection it
belongs to. -/
def EvAbove (s : St) (e : Ev) : Prop :=
  ∀ n ent, s.cat n = some ent → ent.q.matches e = true →
    lexGt e.pos (sinkMark ent.frames) = true

theorem store_inv {s : St} (hi : Inv s) {e : Ev} (ha : EvAbove s e) : Inv (step s (.store e)) := by
  obtain ⟨ht, hp, hcat⟩ := hi
  refine ⟨ht, hp, ?_⟩
  intro n ent hn
  obtain ⟨hperm, hm⟩ := hcat n ent hn
  refine ⟨?_, hm⟩
  have : (step s (.store e)).store.vis.filter
        (fun r => ent.q.matches r && !lexGt r.pos (sinkMark ent.frames))
      = s.store.vis.filter (fun r => ent.q.matches r && !lexGt r.pos (sinkMark ent.frames)) := by
    simp only [step, Store.vis, filter_append, append_assoc]
    have : [e].filter (fun r => ent.q.matches r && !lexGt r.pos (sinkMark ent.frames)) = [] := by
      cases hq : ent.q.matches e with
      | false => simp [hq]
      | true => simp [hq, ha n ent hn hq]
    rw [this]; simp
  rw [this]; exact hperm

/-- A change of placement: the same rows, truthful metadata, no flush window left open. -/
def RelayoutOk (old new : Store) : Prop := new.vis.Perm old.vis ∧ new.Truthful ∧ new.passive = []

instance (a b : Store) : Decidable (RelayoutOk a b) := by unfold RelayoutOk; infer_instance

theorem relayout_inv {s : St} (hi : Inv s) {st : Store} (hr : RelayoutOk s.store st) :
    Inv (step s (.relayout st)) := by
  obtain ⟨_, _, hcat⟩ := hi
  refine ⟨hr.2.1, hr.2.2, ?_⟩
  intro n ent hn
  obtain ⟨hp, hm⟩ := hcat n ent hn
  exact ⟨hp.trans (hr.1.filter _).symm, hm⟩

/-! ## Histories -/

/-- The hypothesis of the partial theorem, per step: schedules are legitimate and an applied
event is above the marks (`EvAbove`). -/
def StepOk (s : St) : Op → Prop
  | .store e => EvAbove s e
  | .relayout st => RelayoutOk s.store st
  | .remember _ q _ sched => LegitRemember s q sched
  | .showM n sched => LegitShow s n sched
  | .showCut n sched => LegitShow s n sched

inductive Reach : St → Prop
  | init : Reach St.init
  | step {s : St} {op : Op} : Reach s → StepOk s op → Reach (step s op)

theorem reach_inv {s : St} (h : Reach s) : Inv s := by
  induction h with
  | init => exact inv_init
  | @step s op _ hok ih =>
    cases op with
    | store e => exact store_inv ih hok
    | relayout st => exact relayout_inv ih hok
    | remember n q now sched => exact remember_inv ih hok
    | showM n sched => exact show_inv ih hok
    | showCut n sched => exact cut_inv ih hok

/-! ## Instances of the hypothesis -/

theorem mem_vis_of_frames {st : Store} {e : Entry} (hi : EntryInv st e) {r : Ev}
    (hr : r ∈ e.frames.flatten) : r ∈ st.vis :=
  (mem_filter.mp (hi.1.mem_iff.mp hr)).1

/-- Monotone arrival (the new event's second is not earlier and its id is larger than those
of every applied event — one shard, monotone clocks) puts the event above every mark. -/
theorem monotone_above {s : St} (hi : Inv s) {e : Ev} (hid : 0 < e.id)
    (hmono : ∀ r ∈ s.store.vis, r.ts ≤ e.ts ∧ r.id < e.id) : EvAbove s e := by
  intro n ent hn _
  have hinv := hi.2.2 n ent hn
  rw [lexGt_iff]
  simp only [Ev.pos]
  rcases sinkMark_cases ent.frames with h0 | ⟨f, hf, hfe⟩
  · rw [h0]; simp only; omega
  · rw [hfe]
    have hrows : ∀ r ∈ f, r.ts ≤ e.ts ∧ r.id < e.id := fun r hr =>
      hmono r (mem_vis_of_frames hinv (mem_flatten.mpr ⟨f, hf, hr⟩))
    have h1 : (frameHw f).1 ≤ e.ts := maxOf_le (by
      intro x hx; obtain ⟨r, hr, rfl⟩ := mem_map.mp hx; exact (hrows r hr).1)
    have h2 : (frameHw f).2 < e.id := maxOf_lt hid (by
      intro x hx; obtain ⟨r, hr, rfl⟩ := mem_map.mp hx; exact (hrows r hr).2)
    omega

/-! ## Idempotence -/

/-- The part of the invariant that every legitimate history keeps, with or without `EvAbove`. -/
def Inv0 (s : St) : Prop :=
  s.store.Truthful ∧ s.store.passive = [] ∧ ∀ n e, s.cat n = some e → MarkOk e

/-- SHOW twice on an unchanged store: the second SHOW keeps no delta batch. Needs nothing about
how the frames relate to the store — only truthful zones and a consistent mark. -/
theorem second_show_keeps_nothing {s : St} (ht : s.store.Truthful) (hp : s.store.passive = [])
    {n : Nat} {e : Entry} (he : s.cat n = some e) (hm : MarkOk e)
    {sched₁ sched₂ : List (List Ev)} (hl₁ : LegitShow s n sched₁)
    (hl₂ : LegitShow (showM s n sched₁).1 n sched₂) :
    keptBatches (sinkMark (e.afterShow sched₁).frames) sched₂ = [] := by
  have he' : (showM s n sched₁).1.cat n = some (e.afterShow sched₁) := by
    rw [showM_cat he]; simp [setCat]
  have hst : (showM s n sched₁).1.store = s.store := by rw [showM_cat he]
  have hk2 := kept_perm (s := (showM s n sched₁).1) (by rw [hst]; exact ht) (by rw [hst]; exact hp)
    he' (markOk_after_show hm sched₁) hl₂
  rw [hst] at hk2
  have hk1 := kept_perm ht hp he hm hl₁
  have hempty : s.store.vis.filter (fun r => (e.afterShow sched₁).q.matches r &&
      lexGt r.pos (sinkMark (e.afterShow sched₁).frames)) = [] := by
    rw [filter_eq_nil_iff]
    intro r hr
    rw [afterShow_q, afterShow_frames]
    cases hq : e.q.matches r with
    | false => simp
    | true =>
      cases hg : lexGt r.pos (sinkMark (e.frames ++ keptBatches (sinkMark e.frames) sched₁)) with
      | false => simp
      | true =>
        -- above the new mark ⇒ above the old one ⇒ kept by the first SHOW ⇒ stored ⇒ covered
        have hg0 : lexGt r.pos (sinkMark e.frames) = true := by
          have hmono := sinkMark_mono e.frames (keptBatches (sinkMark e.frames) sched₁)
          rw [lexGt_iff] at hg ⊢; rw [lexGt_false_iff] at hmono; omega
        have hin : r ∈ (keptBatches (sinkMark e.frames) sched₁).flatten :=
          hk1.mem_iff.mpr (mem_filter.mpr ⟨hr, by simp [hq, hg0]⟩)
        have hcov := covers_always (e.frames ++ keptBatches (sinkMark e.frames) sched₁) r
          (by rw [flatten_append]; exact mem_append_right _ hin)
        rw [hcov] at hg; cases hg
  rw [hempty] at hk2
  have hflat := hk2.eq_nil
  cases hk : keptBatches (sinkMark (e.afterShow sched₁).frames) sched₂ with
  | nil => rfl
  | cons b L =>
    have hb : b ∈ keptBatches (sinkMark (e.afterShow sched₁).frames) sched₂ := by
      rw [hk]; exact mem_cons_self
    obtain ⟨hne, _⟩ := kept_rows_above hb
    rw [hk] at hflat
    simp only [flatten_cons, append_eq_nil_iff] at hflat
    exact absurd hflat.1 hne

/-! ## The concrete placement changes of the model are legitimate re-layouts -/

theorem insertByCtx_perm (e : Ev) (l : List Ev) : (insertByCtx e l).Perm (e :: l) := by
  induction l with
  | nil => exact Perm.refl _
  | cons x l ih =>
    simp only [insertByCtx]
    split
    · exact Perm.refl _
    · exact (Perm.cons x ih).trans (Perm.swap e x l)

theorem sortByCtx_perm (l : List Ev) : (sortByCtx l).Perm l := by
  induction l with
  | nil => exact Perm.refl _
  | cons e l ih => exact (insertByCtx_perm e _).trans (Perm.cons e ih)

theorem zonesOf_rows (now c seg : Nat) (rows : List Ev) :
    (zonesOf now c seg rows).flatMap (·.rows) = sortByCtx rows := by
  unfold zonesOf
  induction sortByCtx rows with
  | nil => rfl
  | cons r l ih => simp [ih]

theorem zonesOf_truthful {now c seg : Nat} {rows : List Ev} (h : ∀ r ∈ rows, r.ts ≤ now + 1) :
    ∀ z ∈ zonesOf now c seg rows, z.Truthful := by
  intro z hz
  simp only [zonesOf, mem_map] at hz
  obtain ⟨r, hr, rfl⟩ := hz
  intro r' hr'
  simp only [mem_singleton] at hr'
  subst hr'
  exact ⟨Nat.le_refl _, h _ ((sortByCtx_perm rows).mem_iff.mp hr)⟩

theorem vis_flush_perm (s : Store) (shard now : Nat) : (s.flush shard now).vis.Perm s.vis := by
  unfold Store.flush
  simp only
  split
  · exact Perm.refl _
  · simp only [Store.vis, flatMap_append, zonesOf_rows]
    have h := filter_append_perm (fun e : Ev => e.shard == shard) s.mem
    -- (kept ++ P) ++ (Z ++ moved)  ~  (moved ++ (kept ++ P)) ++ Z  ~  (mem ++ P) ++ Z
    refine (Perm.append_left _ (Perm.append_left _ (sortByCtx_perm _))).trans ?_
    refine (perm_append_comm).trans ?_
    rw [append_assoc]
    refine (perm_append_comm).trans ?_
    refine Perm.append_right _ ?_
    rw [← append_assoc]
    exact Perm.append_right _ h

theorem flush_ok {s : Store} (hs : s.Truthful) (hp : s.passive = []) {shard now : Nat}
    (hclock : ∀ r ∈ s.mem, r.ts ≤ now + 1) : RelayoutOk s (s.flush shard now) := by
  refine ⟨vis_flush_perm s shard now, ?_, by unfold Store.flush; simp only; split <;> exact hp⟩
  unfold Store.flush
  simp only
  split
  · exact hs
  · intro z hz
    rcases mem_append.mp hz with hz | hz
    · exact hs z hz
    · exact zonesOf_truthful (fun r hr => hclock r (mem_filter.mp hr).1) z hz

theorem vis_compact_perm (s : Store) (shard now : Nat) : (s.compact shard now).vis.Perm s.vis := by
  unfold Store.compact
  simp only
  split
  · exact Perm.refl _
  · simp only [Store.vis, flatMap_append, zonesOf_rows]
    refine Perm.append_left _ ?_
    have h := filter_append_perm (fun z : Zone => z.ofShard shard) s.zones
    refine Perm.trans ?_ (h.flatMap_right (·.rows))
    rw [flatMap_append]
    exact (Perm.append_left _ (sortByCtx_perm _)).trans perm_append_comm

theorem compact_ok {s : Store} (hs : s.Truthful) (hp : s.passive = []) {shard now : Nat}
    (hclock : ∀ z ∈ s.zones, z.mtime ≤ now) : RelayoutOk s (s.compact shard now) := by
  refine ⟨vis_compact_perm s shard now, ?_, by unfold Store.compact; simp only; split <;> exact hp⟩
  unfold Store.compact
  simp only
  split
  · exact hs
  · intro z hz
    rcases mem_append.mp hz with hz | hz
    · exact hs z (mem_filter.mp hz).1
    · refine zonesOf_truthful ?_ z hz
      intro r hr
      obtain ⟨z0, hz0, hr0⟩ := mem_flatMap.mp hr
      have hz0' := (mem_filter.mp hz0).1
      have := (hs z0 hz0' r hr0).2
      have := hclock z0 hz0'
      omega

theorem backdate_ok {s : Store} (hs : s.Truthful) (hp : s.passive = []) :
    RelayoutOk s s.backdate := by
  refine ⟨?_, ?_, hp⟩
  · apply Perm.of_eq
    simp only [Store.vis, Store.backdate, flatMap_map]
  · intro z hz
    simp only [Store.backdate, mem_map] at hz
    obtain ⟨z0, hz0, rfl⟩ := hz
    intro r hr
    have h1 := (hs z0 hz0 r hr).1
    have h2 : z0.tsMax ≤ maxOf ((s.zones.filter (·.seg == z0.seg)).map (·.tsMax)) :=
      le_maxOf (mem_map.mpr ⟨z0, mem_filter.mpr ⟨hz0, by simp⟩, rfl⟩)
    exact ⟨h1, by simp only; omega⟩

/-! ## The AwaitFlush barrier -/

/-- Tickets pending are above `completed`, at most `submitted`, and increasing. -/
def Progress.Ordered (p : Progress) : Prop :=
  p.completed ≤ p.submitted ∧ p.pending.Pairwise (· < ·) ∧
    ∀ t ∈ p.pending, p.completed < t ∧ t ≤ p.submitted

theorem progress_init_ordered : Progress.init.Ordered := by
  simp [Progress.Ordered, Progress.init]

theorem progress_next_ordered {p : Progress} (h : p.Ordered) : p.nextId.1.Ordered := by
  obtain ⟨h0, h1, h2⟩ := h
  refine ⟨by simp only [Progress.nextId]; omega, ?_, ?_⟩
  · simp only [Progress.nextId, pairwise_append, pairwise_cons, mem_singleton]
    refine ⟨h1, ⟨by simp, Pairwise.nil⟩, ?_⟩
    intro a ha b hb; subst hb; have := (h2 a ha).2; omega
  · intro t ht
    simp only [Progress.nextId, mem_append, mem_singleton] at ht ⊢
    rcases ht with ht | rfl
    · have := h2 t ht; omega
    · omega

/-- The flush worker completes jobs one at a time in ticket order: the ticket completed is the
oldest pending one. -/
theorem progress_complete_head_ordered {p : Progress} (h : p.Ordered) {t : Nat} {rest : List Nat}
    (hp : p.pending = t :: rest) : (p.markCompleted t).Ordered := by
  obtain ⟨h0, h1, h2⟩ := h
  rw [hp] at h1 h2
  have hrest : ∀ u ∈ rest, t < u := (pairwise_cons.mp h1).1
  have hfil : (t :: rest).filter (fun u => !(u == t)) = rest := by
    rw [filter_cons]
    simp only [beq_self_eq_true, Bool.not_true, Bool.false_eq_true, if_false]
    apply filter_eq_self.mpr
    intro u hu
    have := hrest u hu
    simp; omega
  have ht := h2 t mem_cons_self
  refine ⟨?_, ?_, ?_⟩
  · simp only [Progress.markCompleted]; omega
  · simp only [Progress.markCompleted, hp, hfil]; exact (pairwise_cons.mp h1).2
  · intro u hu
    simp only [Progress.markCompleted, hp, hfil] at hu ⊢
    have := hrest u hu
    have := (h2 u (mem_cons_of_mem _ hu)).2
    omega

/-- With in-order completion, once the barrier for `target` opens no ticket up to `target` is
still pending. -/
theorem barrier_sound {p : Progress} (h : p.Ordered) {target : Nat}
    (ho : p.barrierOpen target = true) : ∀ t ∈ p.pending, target < t := by
  intro t ht
  have := (h.2.2 t ht).1
  simp only [Progress.barrierOpen, decide_eq_true_eq] at ho
  omega

end Snel.Materialize
