import Snel.Lemmas.ReplayOrder
/-!
The chunk invariant of crash-free histories: with `cs` the list of buffers rotated so far
(`cs[i]` is the buffer that became level-0 segment `i`), the append log is
`cs.flatten ++ mem`, every passive buffer, queued job and written segment entry holds exactly
its chunk, and labels are used once.
-/
namespace Snel.Replay
open Snel.Shard

structure CInv (cs : List (List Ev)) (log : List Ev) (s : Shard) : Prop where
  len : cs.length = s.nextL0
  log_eq : log = cs.flatten ++ s.mem
  segsC : ∀ p ∈ s.segs, cs[p.1]? = some p.2
  passC : ∀ p ∈ s.passives, cs[p.1]? = some p.2 ∨ p.2 = []
  jobsC : ∀ j ∈ s.jobs, cs[j.seg]? = some j.evs
  segsN : (s.segs.map (·.1)).Nodup
  jobsN : (s.jobs.map (·.seg)).Nodup
  fresh : ∀ j ∈ s.jobs, j.step = 0 → ∀ p ∈ s.segs, p.1 ≠ j.seg

theorem init_cinv (cap k : Nat) : CInv [] [] (Shard.init cap k) := by
  constructor <;> simp [Shard.init]

theorem getElem?_append_some {cs t : List (List Ev)} {i : Nat} {x : List Ev} (h : cs[i]? = some x) :
    (cs ++ t)[i]? = some x := by
  obtain ⟨hi, rfl⟩ := List.getElem?_eq_some_iff.mp h
  rw [List.getElem?_append_left hi]
  simp

theorem lt_of_getElem?_some {cs : List (List Ev)} {i : Nat} {x : List Ev} (h : cs[i]? = some x) :
    i < cs.length := (List.getElem?_eq_some_iff.mp h).1

theorem rotate_cinv {cs log s} (h : CInv cs log s) : CInv (cs ++ [s.mem]) log (rotate s) := by
  constructor
  · simp [rotate, h.len]
  · simp [rotate, h.log_eq]
  · intro p hp
    exact getElem?_append_some (h.segsC p (by simpa [rotate] using hp))
  · intro p hp
    simp only [rotate, List.mem_append, List.mem_singleton] at hp
    rcases hp with hp | rfl
    · rcases h.passC p hp with h' | h'
      · exact Or.inl (getElem?_append_some h')
      · exact Or.inr h'
    · left
      simp [← h.len]
  · intro j hj
    simp only [rotate, List.mem_append, List.mem_singleton] at hj
    rcases hj with hj | rfl
    · exact getElem?_append_some (h.jobsC j hj)
    · simp [← h.len]
  · simpa [rotate] using h.segsN
  · simp only [rotate, List.map_append, List.map_cons, List.map_nil]
    refine List.nodup_append.mpr ⟨h.jobsN, by simp, ?_⟩
    intro a ha b hb
    simp only [List.mem_singleton] at hb
    obtain ⟨j, hj, rfl⟩ := List.mem_map.mp ha
    have := lt_of_getElem?_some (h.jobsC j hj)
    rw [h.len] at this
    omega
  · intro j hj hst p hp
    have hp' : p ∈ s.segs := by simpa [rotate] using hp
    simp only [rotate, List.mem_append, List.mem_singleton] at hj
    rcases hj with hj | rfl
    · exact h.fresh j hj hst p hp'
    · have := lt_of_getElem?_some (h.segsC p hp')
      rw [h.len] at this
      simp only
      omega

theorem store_cinv {cs log s} (e : Ev) (h : CInv cs log s) :
    ∃ cs', CInv cs' (log ++ [e]) (store s e) := by
  obtain ⟨hm, hp, hj, _, hn, hs, _⟩ := walAppend_frame s e
  have h1 : CInv cs (log ++ [e]) { walAppend s e with mem := (walAppend s e).mem ++ [e] } := by
    constructor
    · simpa [hn] using h.len
    · simp [hm, h.log_eq]
    · intro p hp'; exact h.segsC p (by simpa [hs] using hp')
    · intro p hp'; exact h.passC p (by simpa [hp] using hp')
    · intro j hj'; exact h.jobsC j (by simpa [hj] using hj')
    · simpa [hs] using h.segsN
    · simpa [hj] using h.jobsN
    · intro j hj' hst p hp'
      exact h.fresh j (by simpa [hj] using hj') hst p (by simpa [hs] using hp')
  unfold store
  simp only
  split
  · exact ⟨_, rotate_cinv h1⟩
  · exact ⟨_, h1⟩

/-- A state that differs from `s` as one flush-worker interval allows. -/
theorem cinv_frame {cs log} {s t : Shard} (h : CInv cs log s)
    (hn : t.nextL0 = s.nextL0) (hm : t.mem = s.mem)
    (hsegs : t.segs = s.segs ∨ ∃ j ∈ s.jobs, j.step = 0 ∧ t.segs = s.segs ++ [(j.seg, j.evs)])
    (hpass : ∀ p ∈ t.passives, p ∈ s.passives ∨ p.2 = [])
    (hjobs : ∀ j' ∈ t.jobs, ∃ j ∈ s.jobs, j'.seg = j.seg ∧ j'.evs = j.evs)
    (hjn : (t.jobs.map (·.seg)).Nodup)
    (hfresh : ∀ j ∈ t.jobs, j.step = 0 → ∀ p ∈ t.segs, p.1 ≠ j.seg) : CInv cs log t := by
  constructor
  · rw [hn]; exact h.len
  · rw [hm]; exact h.log_eq
  · intro p hp
    rcases hsegs with hs | ⟨j, hj, _, hs⟩
    · exact h.segsC p (hs ▸ hp)
    · rw [hs] at hp
      rcases List.mem_append.mp hp with hp | hp
      · exact h.segsC p hp
      · simp only [List.mem_singleton] at hp
        subst hp
        exact h.jobsC j hj
  · intro p hp
    rcases hpass p hp with h' | h'
    · exact h.passC p h'
    · exact Or.inr h'
  · intro j' hj'
    obtain ⟨j, hj, h1, h2⟩ := hjobs j' hj'
    rw [h1, h2]; exact h.jobsC j hj
  · rcases hsegs with hs | ⟨j, hj, hst, hs⟩
    · rw [hs]; exact h.segsN
    · rw [hs]
      simp only [List.map_append, List.map_cons, List.map_nil]
      refine List.nodup_append.mpr ⟨h.segsN, by simp, ?_⟩
      intro a ha b hb
      simp only [List.mem_singleton] at hb
      obtain ⟨p, hp, rfl⟩ := List.mem_map.mp ha
      rw [hb]
      exact h.fresh j hj hst p hp
  · exact hjn
  · exact hfresh

theorem flushStep_cinv {cs log s} (h : CInv cs log s) : CInv cs log (flushStep s) := by
  unfold flushStep
  cases hjobs : s.jobs with
  | nil => exact h
  | cons j rest =>
    have hjmem : j ∈ s.jobs := by rw [hjobs]; simp
    have hrest : ∀ x ∈ rest, x ∈ s.jobs := fun x hx => by rw [hjobs]; simp [hx]
    have hnod : (j.seg :: rest.map (·.seg)).Nodup := by simpa [hjobs] using h.jobsN
    have hnod' := List.nodup_cons.mp hnod
    -- facts shared by every branch that keeps `rest`
    have jobs_rest : ∀ j' ∈ rest, ∃ j0 ∈ s.jobs, j'.seg = j0.seg ∧ j'.evs = j0.evs :=
      fun j' hj' => ⟨j', hrest j' hj', rfl, rfl⟩
    have jobs_upd : ∀ (n : Nat), ∀ j' ∈ ({ j with step := n } :: rest : List Job),
        ∃ j0 ∈ s.jobs, j'.seg = j0.seg ∧ j'.evs = j0.evs := by
      intro n j' hj'
      rcases List.mem_cons.mp hj' with rfl | hj'
      · exact ⟨j, hjmem, rfl, rfl⟩
      · exact jobs_rest j' hj'
    have nod_upd : ∀ (n : Nat), ((({ j with step := n } :: rest : List Job)).map (·.seg)).Nodup := by
      intro n; simpa using hnod
    have fresh_upd : ∀ (n : Nat), n ≠ 0 → ∀ j' ∈ ({ j with step := n } :: rest : List Job), j'.step = 0 →
        ∀ p ∈ s.segs, p.1 ≠ j'.seg := by
      intro n hn0 j' hj' hst p hp
      rcases List.mem_cons.mp hj' with rfl | hj'
      · exact absurd hst hn0
      · exact h.fresh j' (hrest j' hj') hst p hp
    simp only
    by_cases hemp : j.evs.isEmpty
    · simp only [hemp, if_true]
      exact cinv_frame h rfl rfl (Or.inl rfl) (fun p hp => Or.inl hp) jobs_rest hnod'.2
        (fun j' hj' hst p hp => h.fresh j' (hrest j' hj') hst p hp)
    · simp only [hemp, if_false, Bool.false_eq_true]
      match hst : j.step with
      | 0 =>
        simp only
        refine cinv_frame h rfl rfl (Or.inr ⟨j, hjmem, hst, rfl⟩) (fun p hp => Or.inl hp) (jobs_upd 1) (nod_upd 1) ?_
        intro j' hj' hst' p hp
        rcases List.mem_cons.mp hj' with rfl | hj'
        · simp at hst'
        · rcases List.mem_append.mp hp with hp | hp
          · exact h.fresh j' (hrest j' hj') hst' p hp
          · simp only [List.mem_singleton] at hp
            subst hp
            intro heq
            exact hnod'.1 (List.mem_map.mpr ⟨j', hj', heq.symm⟩)
      | 1 =>
        simp only
        exact cinv_frame h rfl rfl (Or.inl rfl) (fun p hp => Or.inl hp) (jobs_upd 2) (nod_upd 2)
          (fresh_upd 2 (by omega))
      | 2 =>
        simp only
        exact cinv_frame h rfl rfl (Or.inl rfl) (fun p hp => Or.inl hp) (jobs_upd 3) (nod_upd 3)
          (fresh_upd 3 (by omega))
      | 3 =>
        simp only
        refine cinv_frame h rfl rfl (Or.inl rfl) ?_ (jobs_upd 4) (nod_upd 4) (fresh_upd 4 (by omega))
        intro q hq
        obtain ⟨p, hp, rfl⟩ := mem_clearPassive.mp hq
        split
        · exact Or.inr rfl
        · exact Or.inl hp
      | 4 =>
        simp only
        refine cinv_frame h (by simp [walClean]) (by simp [walClean]) (Or.inl (by simp [walClean]))
          (fun p hp => Or.inl (by simpa [walClean] using hp)) (jobs_upd 5) (nod_upd 5) ?_
        intro j' hj' hst' p hp
        exact fresh_upd 5 (by omega) j' hj' hst' p (by simpa [walClean] using hp)
      | n + 5 =>
        simp only
        exact cinv_frame h rfl rfl (Or.inl rfl) (fun p hp => Or.inl hp) jobs_rest hnod'.2
          (fun j' hj' hst p hp => h.fresh j' (hrest j' hj') hst p hp)

theorem drain_cinv {cs log} (n : Nat) : ∀ {s : Shard}, CInv cs log s → CInv cs log (drain n s) := by
  induction n with
  | zero => intro s h; exact h
  | succ n ih =>
    intro s h
    unfold drain
    split
    · exact h
    · exact ih (flushStep_cinv h)

/-- Events an operation appends to the log. -/
def opStores : Op → List Ev
  | .store e => [e]
  | _ => []

theorem step_cinv {cs log s} (o : Op) (ho : o.crashFree = true) (h : CInv cs log s) :
    ∃ cs', CInv cs' (log ++ opStores o) (step s o) := by
  cases o with
  | store e => exact store_cinv e h
  | flushCmd => exact ⟨_, by simpa [opStores, step, drainAll, flushCmd] using drain_cinv _ (rotate_cinv h)⟩
  | flushStep => exact ⟨_, by simpa [opStores, step] using flushStep_cinv h⟩
  | drain => exact ⟨_, by simpa [opStores, step, drainAll] using drain_cinv _ h⟩
  | crash => simp [Op.crashFree] at ho
  | shutdown => simp [Op.crashFree] at ho

theorem storedEvents_cons (o : Op) (ops : List Op) :
    storedEvents (o :: ops) = opStores o ++ storedEvents ops := by
  cases o <;> simp [storedEvents, opStores]

theorem runOps_cinv (ops : List Op) : ∀ {cs log} {s : Shard}, CInv cs log s →
    (∀ o ∈ ops, o.crashFree = true) → ∃ cs', CInv cs' (log ++ storedEvents ops) (runOps s ops) := by
  induction ops with
  | nil => intro cs log s h _; exact ⟨cs, by simpa [storedEvents, runOps] using h⟩
  | cons o ops ih =>
    intro cs log s h hall
    obtain ⟨cs1, h1⟩ := step_cinv o (hall o (by simp)) h
    obtain ⟨cs2, h2⟩ := ih h1 (fun x hx => hall x (by simp [hx]))
    refine ⟨cs2, ?_⟩
    rw [storedEvents_cons, ← List.append_assoc]
    simpa [runOps] using h2

/-! ### Consequences for the two flows -/

theorem chunk_sublist_log {cs log s} (h : CInv cs log s) {i : Nat} {c : List Ev} (hc : cs[i]? = some c) :
    c.Sublist log := by
  rw [h.log_eq]
  exact (List.sublist_flatten_of_mem (List.mem_of_getElem? hc)).trans (List.sublist_append_left _ _)

/-- Rows of directory `id` for one type, selected by `q`: a subsequence of chunk `id`. -/
theorem segRowsOrd_sublist_chunk {cs log s} (h : CInv cs log s) (id ty : Nat) (q : Sel) :
    ((segRowsOrd s id ty).filter q.ok).Sublist ((cs[id]?).getD []) := by
  unfold segRowsOrd
  have hN := h.segsN
  have hC := h.segsC
  generalize s.segs = segs at hN hC
  induction segs with
  | nil => simp
  | cons p ps ih =>
    have hN' := List.nodup_cons.mp (List.map_cons ▸ hN)
    have ihp := ih hN'.2 (fun x hx => hC x (by simp [hx]))
    simp only [List.filter_cons]
    by_cases hp : p.1 = id
    · -- no later entry carries the same label
      have hnone : ps.filter (fun x => x.1 == id) = [] := by
        rw [List.filter_eq_nil_iff]
        intro x hx hxe
        have : x.1 = p.1 := by rw [hp]; simpa using hxe
        exact hN'.1 (List.mem_map.mpr ⟨x, hx, this⟩)
      have hc := hC p (by simp)
      simp only [hp, beq_self_eq_true, if_true, List.flatMap_cons, hnone, List.flatMap_nil, List.append_nil]
      rw [hp] at hc
      rw [hc]
      exact entryRows_filter_sublist p ty q
    · have : (p.1 == id) = false := by simpa using hp
      simp only [this]
      exact ihp

theorem segFlow_single {s : Shard} {q : Sel} {nt t : Nat} (hq : selTypes q nt = [t]) :
    segFlow s q nt = ((sortNat (readSegs s)).flatMap fun id => (segRowsOrd s id t).filter q.ok) := by
  unfold segFlow
  rw [hq, List.filter_flatMap]
  congr 1
  funext id
  simp

theorem nodup_readSegs (s : Shard) : (readSegs s).Nodup := nodup_eraseDups _

/-- The segment flow of a typed (or single-type) selection is a subsequence of the append log:
level-0 segments in label order keep the append order. -/
theorem segFlow_sublist_log {cs log s} (h : CInv cs log s) {q : Sel} {nt t : Nat}
    (hq : selTypes q nt = [t]) : (segFlow s q nt).Sublist log := by
  rw [segFlow_single hq, h.log_eq]
  refine (flatMap_sublist_flatten _ cs 0 _ (sortNat_strict (nodup_readSegs s)) (fun _ _ => Nat.zero_le _) ?_).trans
    (List.sublist_append_left _ _)
  intro i
  simpa using segRowsOrd_sublist_chunk h i t q

theorem mem_sublist_log {cs log s} (h : CInv cs log s) : s.mem.Sublist log := by
  rw [h.log_eq]; exact List.sublist_append_right _ _

theorem passive_sublist_log {cs log s} (h : CInv cs log s) {p : Nat × List Ev} (hp : p ∈ s.passives) :
    p.2.Sublist log := by
  rcases h.passC p hp with h' | h'
  · exact chunk_sublist_log h h'
  · rw [h']; exact List.nil_sublist _

theorem memFlow_subset_log {cs log s} (h : CInv cs log s) (q : Sel) {x : Ev} (hx : x ∈ memFlow s q) :
    x ∈ log ∧ q.ok x = true := by
  unfold memFlow at hx
  obtain ⟨hx, hok⟩ := List.mem_filter.mp hx
  refine ⟨?_, hok⟩
  rcases List.mem_append.mp hx with hx | hx
  · exact (mem_sublist_log h).subset (mem_memOrder.mp hx)
  · obtain ⟨p, hp, hx⟩ := List.mem_flatMap.mp hx
    exact (passive_sublist_log h hp).subset (mem_memOrder.mp hx)

theorem segFlow_subset_log {cs log s} (h : CInv cs log s) (q : Sel) (nt : Nat) {x : Ev}
    (hx : x ∈ segFlow s q nt) : x ∈ log ∧ q.ok x = true := by
  unfold segFlow at hx
  obtain ⟨hx, hok⟩ := List.mem_filter.mp hx
  refine ⟨?_, hok⟩
  obtain ⟨id, _, hx⟩ := List.mem_flatMap.mp hx
  obtain ⟨ty, _, hx⟩ := List.mem_flatMap.mp hx
  unfold segRowsOrd at hx
  obtain ⟨p, hp, hx⟩ := List.mem_flatMap.mp hx
  have hp' := (List.mem_filter.mp hp).1
  exact (chunk_sublist_log h (h.segsC p hp')).subset (entryRows_subset hx)

/-- A covered event (C03) is delivered by one of the two flows. -/
theorem cover_flows {s : Shard} {e : Ev} (q : Sel) (nt : Nat) (hc : Cover s e) (hok : q.ok e = true)
    (hty : e.ty ∈ selTypes q nt) : e ∈ memFlow s q ∨ e ∈ segFlow s q nt := by
  rcases hc with h | ⟨p, hp, he⟩ | ⟨id, hid, he⟩
  · left
    unfold memFlow
    exact List.mem_filter.mpr ⟨List.mem_append.mpr (Or.inl (mem_memOrder.mpr h)), hok⟩
  · left
    unfold memFlow
    exact List.mem_filter.mpr ⟨List.mem_append.mpr (Or.inr (List.mem_flatMap.mpr ⟨p, hp, mem_memOrder.mpr he⟩)), hok⟩
  · right
    unfold segFlow
    refine List.mem_filter.mpr ⟨?_, hok⟩
    refine List.mem_flatMap.mpr ⟨id, mem_sortNat.mpr (mem_readSegs.mpr (Or.inl hid)), ?_⟩
    refine List.mem_flatMap.mpr ⟨e.ty, hty, ?_⟩
    obtain ⟨p, hp, hpid, hep⟩ := mem_segRows.mp he
    unfold segRowsOrd
    exact List.mem_flatMap.mpr ⟨p, List.mem_filter.mpr ⟨hp, by simpa using hpid⟩, mem_entryRows hep⟩

end Snel.Replay
