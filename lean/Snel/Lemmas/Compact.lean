import Snel.Model.Compact
import Snel.Lemmas.ShardCrash
/-! Lemmas about one compaction batch (C05). -/
namespace Snel.Shard

/-- Rows readable from the live list. -/
def liveRows (s : Shard) : List Ev := s.live.flatMap (segRows s)

/-- The state after one batch and the reclaim of the directories it drained. -/
def afterBatch (s : Shard) (b : Batch) : Shard :=
  let (s', drained) := runBatch s b
  { s' with segs := s'.segs.filter (fun p => !drained.contains p.1) }

/-- `e.ty` is listed by the (unique) index entry of directory `id`. -/
def Listed (s : Shard) (id : Nat) (ty : Nat) : Prop :=
  ∀ ent ∈ s.index, ent.1 = id → ty ∈ ent.2

theorem mem_liveRows {s : Shard} {e : Ev} : e ∈ liveRows s ↔ ∃ id ∈ s.live, e ∈ segRows s id := by
  simp [liveRows, List.mem_flatMap]

/-- One batch loses no readable row whose type the index lists for its directory, provided
the output id is not an index label. -/
theorem batch_no_loss (s : Shard) (b : Batch) (e : Ev) (id : Nat)
    (hlive : id ∈ s.live) (he : e ∈ segRows s id)
    (hlisted : Listed s id e.ty)
    (hfreshIdx : ∀ ent ∈ s.index, ent.1 ≠ b.out) :
    e ∈ liveRows (afterBatch s b) := by
  -- name the pieces of `runBatch`
  let outRows := b.tys.flatMap fun ty => b.inputs.flatMap fun i => rowsOf s i ty
  let index1 := s.index.map fun (ent : Nat × List Nat) =>
    if b.inputs.contains ent.1 then (ent.1, ent.2.filter (fun u => !b.tys.contains u)) else (ent.1, ent.2)
  let drained := (index1.filter (fun ent => b.inputs.contains ent.1 && ent.2.isEmpty)).map (·.1)
  have hrun : afterBatch s b =
      { s with segs := (s.segs ++ [(b.out, outRows)]).filter (fun p => !drained.contains p.1),
               tainted := s.tainted || s.everSeg.contains b.out,
               everSeg := s.everSeg ++ [b.out],
               index := index1.filter (fun ent => !(b.inputs.contains ent.1 && ent.2.isEmpty)) ++ [(b.out, b.tys)],
               live := sortNat ((s.live.filter (fun l => !drained.contains l)) ++ [b.out]) } := by
    simp only [afterBatch, runBatch]
    rfl
  rw [hrun, mem_liveRows]
  by_cases hd : id ∈ drained
  · -- the directory is drained: the row was copied into the output
    refine ⟨b.out, ?_, ?_⟩
    · simp only [mem_sortNat, List.mem_append, List.mem_singleton]; simp
    · -- which entry drained it?
      simp only [drained, List.mem_map, List.mem_filter] at hd
      obtain ⟨ent1, ⟨hent1, hcond⟩, hid1⟩ := hd
      simp only [index1, List.mem_map] at hent1
      obtain ⟨ent, hent, hmap⟩ := hent1
      have hin : b.inputs.contains ent.1 = true := by
        by_cases hc : b.inputs.contains ent.1 = true
        · exact hc
        · simp only [hc, if_false, Bool.false_eq_true] at hmap
          rw [← hmap] at hcond
          simp at hcond
          simpa using hcond.1
      simp only [hin, if_true] at hmap
      have hentid : ent.1 = id := by rw [← hid1, ← hmap]
      have hty : e.ty ∈ ent.2 := hlisted ent hent hentid
      have hempty : (ent.2.filter (fun u => !b.tys.contains u)) = [] := by
        rw [← hmap] at hcond
        simp at hcond
        simpa using hcond.2
      have htys : e.ty ∈ b.tys := by
        have := List.filter_eq_nil_iff.mp hempty e.ty hty
        simpa using this
      -- the row is in the output rows
      rw [mem_segRows]
      refine ⟨(b.out, outRows), ?_, rfl, ?_⟩
      · simp only [List.mem_filter, List.mem_append, List.mem_singleton]
        refine ⟨by simp, ?_⟩
        -- the output id is not drained: drained ids are index ids in b.inputs … but more simply
        -- it is fresh, and drained labels are labels of directories? we only need ¬ contains
        simp only [Bool.not_eq_true', List.contains_eq_mem, decide_eq_false_iff_not]
        intro hout
        -- drained ⊆ b.inputs; if b.out ∈ drained then b.out ∈ b.inputs, and id = …; use freshness via e's dir
        simp only [drained, List.mem_map, List.mem_filter] at hout
        obtain ⟨x, ⟨hxmem, _⟩, hxo⟩ := hout
        simp only [index1, List.mem_map] at hxmem
        obtain ⟨ent', hent', hmap'⟩ := hxmem
        have : x.1 = ent'.1 := by rw [← hmap']; split <;> rfl
        exact hfreshIdx ent' hent' (by rw [← this, hxo])
      · simp only [outRows, List.mem_flatMap]
        refine ⟨e.ty, htys, id, ?_, ?_⟩
        · have : b.inputs.contains id = true := hentid ▸ hin
          simpa using this
        · simp [rowsOf, he]
  · -- not drained: still live, rows untouched
    refine ⟨id, ?_, ?_⟩
    · simp only [mem_sortNat, List.mem_append, List.mem_filter, List.mem_singleton]
      exact Or.inl ⟨hlive, by simpa using hd⟩
    · rw [mem_segRows] at he ⊢
      obtain ⟨p, hp, hpid, hpe⟩ := he
      refine ⟨p, ?_, hpid, hpe⟩
      simp only [List.mem_filter, List.mem_append]
      exact ⟨Or.inl hp, by rw [hpid]; simpa using hd⟩

end Snel.Shard

namespace Snel.Shard

/-- Row `e` is readable from a live directory `id ∉ D` whose index entries list its type. -/
def AnchD (s : Shard) (D : List Nat) (e : Ev) : Prop :=
  ∃ id ∈ s.live, id ∉ D ∧ e ∈ segRows s id ∧ Listed s id e.ty

theorem runBatch_anchor (s : Shard) (b : Batch) (D : List Nat) (e : Ev)
    (ha : AnchD s D e)
    (hfresh : ∀ ent ∈ s.index, ent.1 ≠ b.out) (hD : b.out ∉ D) (hnl : b.out ∉ s.live) :
    AnchD (runBatch s b).1 (D ++ (runBatch s b).2) e ∧
    (∀ ent ∈ (runBatch s b).1.index, (∃ ent0 ∈ s.index, ent0.1 = ent.1) ∨ ent.1 = b.out) ∧
    (∀ d ∈ (runBatch s b).2, d ∈ b.inputs ∧ ∃ ent0 ∈ s.index, ent0.1 = d) := by
  obtain ⟨id, hlive, hidD, hrow, hlisted⟩ := ha
  let outRows := b.tys.flatMap fun ty => b.inputs.flatMap fun i => rowsOf s i ty
  let index1 := s.index.map fun (ent : Nat × List Nat) =>
    if b.inputs.contains ent.1 then (ent.1, ent.2.filter (fun u => !b.tys.contains u)) else (ent.1, ent.2)
  let drained := (index1.filter (fun ent => b.inputs.contains ent.1 && ent.2.isEmpty)).map (·.1)
  have hrun : runBatch s b =
      ({ s with segs := s.segs ++ [(b.out, outRows)],
                tainted := s.tainted || s.everSeg.contains b.out,
                everSeg := s.everSeg ++ [b.out],
                index := index1.filter (fun ent => !(b.inputs.contains ent.1 && ent.2.isEmpty)) ++ [(b.out, b.tys)],
                live := sortNat ((s.live.filter (fun l => !drained.contains l)) ++ [b.out]) }, drained) := by
    simp only [runBatch]; rfl
  -- facts about index1
  have hidx1 : ∀ x ∈ index1, ∃ ent0 ∈ s.index, ent0.1 = x.1 ∧
      x.2 = (if b.inputs.contains ent0.1 then ent0.2.filter (fun u => !b.tys.contains u) else ent0.2) := by
    intro x hx
    simp only [index1, List.mem_map] at hx
    obtain ⟨ent0, h0, rfl⟩ := hx
    refine ⟨ent0, h0, ?_, ?_⟩ <;> split <;> rfl
  have hdr : ∀ d ∈ drained, d ∈ b.inputs ∧ ∃ ent0 ∈ s.index, ent0.1 = d := by
    intro d hd
    simp only [drained, List.mem_map, List.mem_filter] at hd
    obtain ⟨x, ⟨hx, hc⟩, rfl⟩ := hd
    obtain ⟨ent0, h0, hid0, _⟩ := hidx1 x hx
    simp only [Bool.and_eq_true] at hc
    exact ⟨by simpa using hc.1, ent0, h0, hid0⟩
  have hout_nd : b.out ∉ drained := by
    intro hd
    obtain ⟨_, ent0, h0, hid0⟩ := hdr b.out hd
    exact hfresh ent0 h0 hid0
  rw [hrun]
  refine ⟨?_, ?_, hdr⟩
  · by_cases hA : b.inputs.contains id = true ∧ e.ty ∈ b.tys
    · -- re-anchored in the output directory
      refine ⟨b.out, ?_, ?_, ?_, ?_⟩
      · simp only [mem_sortNat, List.mem_append, List.mem_singleton]; simp
      · simp only [List.mem_append, not_or]; exact ⟨hD, hout_nd⟩
      · rw [mem_segRows]
        refine ⟨(b.out, outRows), by simp, rfl, ?_⟩
        simp only [outRows, List.mem_flatMap]
        exact ⟨e.ty, hA.2, id, by simpa using hA.1, by simp [rowsOf, hrow]⟩
      · intro ent hent hentid
        simp only [List.mem_append, List.mem_filter, List.mem_singleton] at hent
        rcases hent with ⟨hx, _⟩ | rfl
        · obtain ⟨ent0, h0, hid0, _⟩ := hidx1 ent hx
          exact absurd (hid0.trans hentid) (hfresh ent0 h0)
        · exact hA.2
    · -- stays anchored where it was
      have hkeep : ∀ x ∈ index1, x.1 = id → e.ty ∈ x.2 := by
        intro x hx hxid
        obtain ⟨ent0, h0, hid0, hx2⟩ := hidx1 x hx
        have hty := hlisted ent0 h0 (hid0.trans hxid)
        rw [hx2]
        by_cases hc : b.inputs.contains ent0.1 = true
        · simp only [hc, if_true, List.mem_filter]
          refine ⟨hty, ?_⟩
          have hidin : b.inputs.contains id = true := by rw [← hxid, ← hid0]; exact hc
          have : e.ty ∉ b.tys := fun h => hA ⟨hidin, h⟩
          simpa using this
        · simp only [hc, if_false, Bool.false_eq_true]; exact hty
      have hnd : id ∉ drained := by
        intro hd
        simp only [drained, List.mem_map, List.mem_filter] at hd
        obtain ⟨x, ⟨hx, hc⟩, hxid⟩ := hd
        have := hkeep x hx hxid
        simp only [Bool.and_eq_true] at hc
        have hemp : x.2 = [] := by simpa using hc.2
        rw [hemp] at this; simp at this
      refine ⟨id, ?_, ?_, ?_, ?_⟩
      · simp only [mem_sortNat, List.mem_append, List.mem_filter, List.mem_singleton]
        exact Or.inl ⟨hlive, by simpa using hnd⟩
      · simp only [List.mem_append, not_or]; exact ⟨hidD, hnd⟩
      · rw [mem_segRows] at hrow ⊢
        obtain ⟨p, hp, hpid, hpe⟩ := hrow
        exact ⟨p, by simp [hp], hpid, hpe⟩
      · intro ent hent hentid
        simp only [List.mem_append, List.mem_filter, List.mem_singleton] at hent
        rcases hent with ⟨hx, _⟩ | rfl
        · exact hkeep ent hx hentid
        · have hbo : b.out = id := hentid
          exact absurd (hbo ▸ hlive) hnl
  · intro ent hent
    simp only [List.mem_append, List.mem_filter, List.mem_singleton] at hent
    rcases hent with ⟨hx, _⟩ | rfl
    · obtain ⟨ent0, h0, hid0, _⟩ := hidx1 ent hx
      exact Or.inl ⟨ent0, h0, hid0⟩
    · exact Or.inr rfl

end Snel.Shard

namespace Snel.Shard

def roundFold (s : Shard) (bs : List Batch) (D : List Nat) : Shard × List Nat :=
  bs.foldl (fun (acc : Shard × List Nat) b =>
    let (s', d) := runBatch acc.1 b
    (s', acc.2 ++ d)) (s, D)

theorem runBatch_live (s : Shard) (b : Batch) : ∀ l ∈ (runBatch s b).1.live, l ∈ s.live ∨ l = b.out := by
  intro l hl
  simp only [runBatch, mem_sortNat, List.mem_append, List.mem_filter, List.mem_singleton] at hl
  rcases hl with ⟨h, _⟩ | h
  · exact Or.inl h
  · exact Or.inr h

theorem fold_anchor (e : Ev) (bs : List Batch) : ∀ (s : Shard) (D : List Nat),
    AnchD s D e →
    (∀ b ∈ bs, (∀ ent ∈ s.index, ent.1 ≠ b.out) ∧ b.out ∉ D ∧ b.out ∉ s.live) →
    bs.Pairwise (fun a b => a.out ≠ b.out) →
    AnchD (roundFold s bs D).1 (roundFold s bs D).2 e := by
  induction bs with
  | nil => intro s D ha _ _; simpa [roundFold] using ha
  | cons b bs ih =>
    intro s D ha hall hpw
    obtain ⟨hfresh, hD, hnl⟩ := hall b (by simp)
    obtain ⟨ha', hidx, hdr⟩ := runBatch_anchor s b D e ha hfresh hD hnl
    rw [List.pairwise_cons] at hpw
    have hstep : roundFold s (b :: bs) D = roundFold (runBatch s b).1 bs (D ++ (runBatch s b).2) := by
      simp only [roundFold, List.foldl_cons]
    rw [hstep]
    apply ih _ _ ha' _ hpw.2
    intro b' hb'
    obtain ⟨hf', hD', hnl'⟩ := hall b' (by simp [hb'])
    have hne : b.out ≠ b'.out := hpw.1 b' hb'
    refine ⟨?_, ?_, ?_⟩
    · intro ent hent
      rcases hidx ent hent with ⟨ent0, h0, hid0⟩ | hout
      · rw [← hid0]; exact hf' ent0 h0
      · rw [hout]; exact hne
    · simp only [List.mem_append, not_or]
      refine ⟨hD', ?_⟩
      intro hd
      obtain ⟨_, ent0, h0, hid0⟩ := hdr b'.out hd
      exact hf' ent0 h0 hid0
    · intro hl
      rcases runBatch_live s b b'.out hl with h | h
      · exact hnl' h
      · exact hne h.symm

/-- Decidable side condition on the batches of a round: output ids are pairwise distinct and
name neither an index entry nor a live directory. (True of every plan the policy produced in the
correspondence runs; the allocator hands out `level·span + max offset + 1 + i`.) -/
def GoodBatches (s : Shard) (bs : List Batch) : Prop :=
  (∀ b ∈ bs, (∀ ent ∈ s.index, ent.1 ≠ b.out) ∧ b.out ∉ s.live) ∧
  bs.Pairwise (fun a b => a.out ≠ b.out)

theorem compactRound_eq (s : Shard) :
    compactRound s =
      { (roundFold (loadIndex s) (groupPlans (planAll (loadIndex s).kmerge (loadIndex s).index)) []).1 with
        segs := (roundFold (loadIndex s) (groupPlans (planAll (loadIndex s).kmerge (loadIndex s).index)) []).1.segs.filter
          (fun p => !(roundFold (loadIndex s) (groupPlans (planAll (loadIndex s).kmerge (loadIndex s).index)) []).2.contains p.1) } := by
  simp only [compactRound, roundFold]

/-- A whole compaction round (any number of batches, any levels, any event types) loses no row
that is readable from a live directory whose index entries list the row's type. -/
theorem round_no_loss (s : Shard) (e : Ev)
    (hgood : GoodBatches (loadIndex s) (groupPlans (planAll (loadIndex s).kmerge (loadIndex s).index)))
    (ha : AnchD (loadIndex s) [] e) :
    e ∈ liveRows (compactRound s) := by
  have hf := fold_anchor e _ (loadIndex s) [] ha
    (fun b hb => ⟨(hgood.1 b hb).1, by simp, (hgood.1 b hb).2⟩) hgood.2
  obtain ⟨id, hlive, hnd, hrow, _⟩ := hf
  rw [compactRound_eq, mem_liveRows]
  refine ⟨id, hlive, ?_⟩
  rw [mem_segRows] at hrow ⊢
  obtain ⟨p, hp, hpid, hpe⟩ := hrow
  refine ⟨p, ?_, hpid, hpe⟩
  simp only [List.mem_filter]
  refine ⟨hp, ?_⟩
  rw [hpid]; simpa using hnd

end Snel.Shard
