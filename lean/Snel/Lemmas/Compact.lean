import Snel.Model.Compact
import Snel.Lemmas.ShardCrash
/-! Lemmas about one compaction batch (C05). -/
namespace Snel.Shard

/-- Rows readable from the live list. -/
def liveRows (s : Shard) : List Ev := s.live.flatMap (segRows s)

/-- The state after one batch and the reclaim of the directories it drained. -/
def afterBatch (s : Shard) (b : Batch) : Shard :=
  let (s', drained) := runBatch s b
  { s' with segs := s'.segs.filter (fun p => !drained.contains p.1) }

/-- `e.ty` is listed by the (unique) index entry of directory `id`. -/
def Listed (s : Shard) (id : Nat) (ty : Nat) : Prop :=
  ∀ ent ∈ s.index, ent.1 = id → ty ∈ ent.2

theorem mem_liveRows {s : Shard} {e : Ev} : e ∈ liveRows s ↔ ∃ id ∈ s.live, e ∈ segRows s id := by
  simp [liveRows, List.mem_flatMap]

/-- One batch loses no readable row whose type the index lists for its directory, provided
the output id is not an index label. -/
theorem batch_no_loss (s : Shard) (b : Batch) (e : Ev) (id : Nat)
    (hlive : id ∈ s.live) (he : e ∈ segRows s id)
    (hlisted : Listed s id e.ty)
    (hfreshIdx : ∀ ent ∈ s.index, ent.1 ≠ b.out) :
    e ∈ liveRows (afterBatch s b) := by
  -- name the pieces of `runBatch`
  let outRows := b.tys.flatMap fun ty => b.inputs.flatMap fun i => rowsOf s i ty
  let index1 := s.index.map fun (ent : Nat × List Nat) =>
    if b.inputs.contains ent.1 then (ent.1, ent.2.filter (fun u => !b.tys.contains u)) else (ent.1, ent.2)
  let drained := (index1.filter (fun ent => b.inputs.contains ent.1 && ent.2.isEmpty)).map (·.1)
  have hrun : afterBatch s b =
      { s with segs := (s.segs ++ [(b.out, outRows)]).filter (fun p => !drained.contains p.1),
               tainted := s.tainted || s.everSeg.contains b.out,
               everSeg := s.everSeg ++ [b.out],
               index := index1.filter (fun ent => !(b.inputs.contains ent.1 && ent.2.isEmpty)) ++ [(b.out, b.tys)],
               live := sortNat ((s.live.filter (fun l => !drained.contains l)) ++ [b.out]) } := by
    simp only [afterBatch, runBatch]
    rfl
  rw [hrun, mem_liveRows]
  by_cases hd : id ∈ drained
  · -- the directory is drained: the row was copied into the output
    refine ⟨b.out, ?_, ?_⟩
    · simp only [mem_sortNat, List.mem_append, List.mem_singleton]; simp
    · -- which entry drained it?
      simp only [drained, List.mem_map, List.mem_filter] at hd
      obtain ⟨ent1, ⟨hent1, hcond⟩, hid1⟩ := hd
      simp only [index1, List.mem_map] at hent1
      obtain ⟨ent, hent, hmap⟩ := hent1
      have hin : b.inputs.contains ent.1 = true := by
        by_cases hc : b.inputs.contains ent.1 = true
        · exact hc
        · simp only [hc, if_false, Bool.false_eq_true] at hmap
          rw [← hmap] at hcond
          simp at hcond
          simpa using hcond.1
      simp only [hin, if_true] at hmap
      have hentid : ent.1 = id := by rw [← hid1, ← hmap]
      have hty : e.ty ∈ ent.2 := hlisted ent hent hentid
      have hempty : (ent.2.filter (fun u => !b.tys.contains u)) = [] := by
        rw [← hmap] at hcond
        simp at hcond
        simpa using hcond.2
      have htys : e.ty ∈ b.tys := by
        have := List.filter_eq_nil_iff.mp hempty e.ty hty
        simpa using this
      -- the row is in the output rows
      rw [mem_segRows]
      refine ⟨(b.out, outRows), ?_, rfl, ?_⟩
      · simp only [List.mem_filter, List.mem_append, List.mem_singleton]
        refine ⟨by simp, ?_⟩
        -- the output id is not drained: drained ids are index ids in b.inputs … but more simply
        -- it is fresh, and drained labels are labels of directories? we only need ¬ contains
        simp only [Bool.not_eq_true', List.contains_eq_mem, decide_eq_false_iff_not]
        intro hout
        -- drained ⊆ b.inputs; if b.out ∈ drained then b.out ∈ b.inputs, and id = …; use freshness via e's dir
        simp only [drained, List.mem_map, List.mem_filter] at hout
        obtain ⟨x, ⟨hxmem, _⟩, hxo⟩ := hout
        simp only [index1, List.mem_map] at hxmem
        obtain ⟨ent', hent', hmap'⟩ := hxmem
        have : x.1 = ent'.1 := by rw [← hmap']; split <;> rfl
        exact hfreshIdx ent' hent' (by rw [← this, hxo])
      · simp only [outRows, List.mem_flatMap]
        refine ⟨e.ty, htys, id, ?_, ?_⟩
        · have : b.inputs.contains id = true := hentid ▸ hin
          simpa using this
        · simp [rowsOf, he]
  · -- not drained: still live, rows untouched
    refine ⟨id, ?_, ?_⟩
    · simp only [mem_sortNat, List.mem_append, List.mem_filter, List.mem_singleton]
      exact Or.inl ⟨hlive, by simpa using hd⟩
    · rw [mem_segRows] at he ⊢
      obtain ⟨p, hp, hpid, hpe⟩ := he
      refine ⟨p, ?_, hpid, hpe⟩
      simp only [List.mem_filter, List.mem_append]
      exact ⟨Or.inl hp, by rw [hpid]; simpa using hd⟩

end Snel.Shard
