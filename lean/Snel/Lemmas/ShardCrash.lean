import Snel.Lemmas.ShardVisible
/-! Crash / restart lemmas for the shard machine (C01). -/
namespace Snel.Shard

theorem mem_insertSorted {x y : Nat} {l : List Nat} : y ∈ insertSorted x l ↔ y = x ∨ y ∈ l := by
  induction l with
  | nil => simp [insertSorted]
  | cons a as ih =>
    simp only [insertSorted]
    split
    · simp
    · simp only [List.mem_cons, ih]
      constructor
      · rintro (h | h | h)
        · exact Or.inr (Or.inl h)
        · exact Or.inl h
        · exact Or.inr (Or.inr h)
      · rintro (h | h | h)
        · exact Or.inr (Or.inl h)
        · exact Or.inl h
        · exact Or.inr (Or.inr h)

theorem mem_sortNat {y : Nat} {l : List Nat} : y ∈ sortNat l ↔ y ∈ l := by
  induction l with
  | nil => simp [sortNat]
  | cons a as ih =>
    have : sortNat (a :: as) = insertSorted a (sortNat as) := rfl
    rw [this, mem_insertSorted, ih]; simp

theorem walEnsure_rows (wal : List (Nat × List Ev)) (id i : Nat) :
    ((walEnsure wal id).filter (·.1 == i)).flatMap (·.2) = (wal.filter (·.1 == i)).flatMap (·.2) := by
  unfold walEnsure
  split
  · rfl
  · simp only [List.filter_append, List.flatMap_append]
    by_cases h : (id == i) = true
    · simp [List.filter, h]
    · simp [List.filter, h]

/-- Directory `d` is served after a restart: the index names it, or no index file exists. -/
def Served (s : Shard) (d : Nat) : Prop := s.indexExists = true → ∃ ent ∈ s.index, ent.1 = d

theorem mem_published {s : Shard} {dirs : List Nat} {d : Nat} :
    d ∈ published s dirs ↔ d ∈ dirs ∧ Served s d := by
  unfold published Served
  by_cases h : s.indexExists = true
  · simp only [h, if_true, List.mem_filter, List.any_eq_true, beq_iff_eq, forall_const]
  · simp [h]

theorem published_sub {s : Shard} {dirs : List Nat} {d : Nat} (h : d ∈ published s dirs) : d ∈ dirs :=
  (mem_published.mp h).1

/-- After `crash; restart` a scan produces every row that was in a WAL file, or in a segment
directory that the index names (every directory while no index file exists), at the moment of the
crash. -/
theorem restart_recovers (s : Shard) (e : Ev)
    (h : (∃ p ∈ s.segs, e ∈ p.2 ∧ Served s p.1) ∨ (∃ f ∈ s.wal, e ∈ f.2)) :
    e ∈ scanRows (restart (crash s)) := by
  have hsegs : (restart (crash s)).segs = s.segs := by simp [restart, crash]
  rcases h with ⟨p, hp, he, hserved⟩ | ⟨f, hf, he⟩
  · -- in a served segment directory: the restart puts it in the live list
    apply cover_scan
    refine Or.inr (Or.inr ⟨p.1, ?_, ?_⟩)
    · have : (restart (crash s)).live
          = published (crash s) (sortNat (((crash s).segs.map (·.1)).eraseDups)) := by
        simp [restart]
      rw [this, mem_published]
      refine ⟨?_, ?_⟩
      · simp only [crash]
        rw [mem_sortNat, List.mem_eraseDups, List.mem_map]
        exact ⟨p, hp, rfl⟩
      · simpa [Served, crash] using hserved
    · rw [mem_segRows, hsegs]; exact ⟨p, hp, rfl, he⟩
  · -- in a WAL file: replayed into the memtable
    apply cover_scan
    refine Or.inl ?_
    simp only [restart, crash, List.mem_flatMap, List.mem_filter, beq_iff_eq]
    refine ⟨f.1, ?_, f, ⟨hf, rfl⟩, he⟩
    rw [mem_sortNat, List.mem_map]
    exact ⟨f, hf, rfl⟩

/-- A restart leaves an existing index alone. -/
theorem restart_index_of_exists {s : Shard} (h : s.indexExists = true) :
    (restart (crash s)).index = s.index ∧ (restart (crash s)).indexExists = true := by
  simp [restart, crash, h]

theorem mem_walPut (wal : List (Nat × List Ev)) (id : Nat) (e : Ev) :
    ∃ f ∈ walPut wal id e, e ∈ f.2 := by
  unfold walPut
  split
  · rename_i hany
    rw [List.any_eq_true] at hany
    obtain ⟨f, hf, hid⟩ := hany
    refine ⟨(f.1, f.2 ++ [e]), ?_, by simp⟩
    rw [List.mem_map]
    refine ⟨f, hf, ?_⟩
    obtain ⟨a, b⟩ := f
    simp at hid ⊢
    simp [hid]
  · exact ⟨(id, [e]), by simp, by simp⟩

theorem mem_walEnsure {wal : List (Nat × List Ev)} {id : Nat} {f : Nat × List Ev} (h : f ∈ wal) :
    f ∈ walEnsure wal id := by
  unfold walEnsure; split
  · exact h
  · simp [h]

/-- A STORE whose WAL file is still linked leaves its entry in a WAL file. -/
theorem store_in_wal (s : Shard) (e : Ev) (h : s.walOrphan = false) :
    ∃ f ∈ (store s e).wal, e ∈ f.2 := by
  have hw : ∃ f ∈ (walAppend s e).wal, e ∈ f.2 := by
    unfold walAppend
    simp only [h, Bool.false_eq_true, if_false]
    obtain ⟨f, hf, he⟩ := mem_walPut s.wal s.walOpen e
    split
    · exact ⟨f, mem_walEnsure hf, he⟩
    · exact ⟨f, hf, he⟩
  obtain ⟨f, hf, he⟩ := hw
  refine ⟨f, ?_, he⟩
  unfold store
  simp only
  split <;> simpa [rotate] using hf

end Snel.Shard
