import Snel.Lemmas.ShardCount
/-!
Histories in which a flush may FAIL: the head job cannot create its segment directory
(`Flusher::flush` answers an error), the flush worker drops the job and its in-flight marker and
RETAINS the passive buffer. Reads keep seeing every applied event, and COUNT keeps its accounting,
through any interleaving of stores, flush steps and such failures.
-/
namespace Snel.Shard

/-- An operation of a history with failing flushes. -/
inductive FOp where
  | op (o : Op)
  | fail
  deriving Repr

def fstep (s : Shard) : FOp → Shard
  | .op o => step s o
  | .fail => failHead s

def runF (s : Shard) (ops : List FOp) : Shard := ops.foldl fstep s

def FOp.crashFree : FOp → Bool
  | .op o => o.crashFree
  | .fail => true

def storedF : List FOp → List Ev
  | [] => []
  | .op (.store e) :: ops => e :: storedF ops
  | _ :: ops => storedF ops

/-- Either nothing happens or the head job, parked at its start, is dropped. -/
theorem failHead_cases (s : Shard) :
    failHead s = s ∨ ∃ j rest, s.jobs = j :: rest ∧ j.step = 0 ∧ failHead s = { s with jobs := rest } := by
  unfold failHead
  cases hj : s.jobs with
  | nil => exact Or.inl rfl
  | cons j rest =>
    by_cases hc : (j.step == 0 && !s.segs.any (·.1 == j.seg)) = true
    · right
      refine ⟨j, rest, rfl, ?_, by simp only [hc, if_true]⟩
      simp only [Bool.and_eq_true, beq_iff_eq] at hc
      exact hc.1
    · left; simp only [hc, if_false, Bool.false_eq_true]

theorem failHead_inv {s : Shard} (h : Inv s) : Inv (failHead s) := by
  rcases failHead_cases s with he | ⟨j, rest, hj, _, he⟩
  · rw [he]; exact h
  · rw [he]
    have hsub : ∀ x ∈ rest, x ∈ s.jobs := fun x hx => by rw [hj]; simp [hx]
    exact {
      freshP := h.freshP
      freshJ := fun x hx => h.freshJ x (hsub x hx)
      pj := fun p hp x hx => h.pj p hp x (hsub x hx)
      written := fun x hx => h.written x (hsub x hx)
      published := fun x hx => h.published x (hsub x hx) }

theorem failHead_cover {s : Shard} {e : Ev} (h : Cover s e) : Cover (failHead s) e := by
  rcases failHead_cases s with he | ⟨j, rest, _, _, he⟩
  · rw [he]; exact h
  · rw [he]; exact h

theorem failHead_inv4 {s : Shard} (h4 : Inv4 s) (n : Nat) (hc : Counted s n) :
    Inv4 (failHead s) ∧ Counted (failHead s) n := by
  rcases failHead_cases s with he | ⟨j, rest, hj, h0, he⟩
  · rw [he]; exact ⟨h4, hc⟩
  · rw [he]
    have hsub : ∀ x ∈ rest, x ∈ s.jobs := fun x hx => by rw [hj]; simp [hx]
    have hnw : inWindow j = false := by simp [inWindow, h0]
    refine ⟨{
      segReach := ?_
      passNodup := h4.passNodup
      jobNodup := ?_
      holds := fun x hx => h4.holds x (hsub x hx) }, ?_⟩
    · intro p hp
      rcases h4.segReach p hp with hl | ⟨x, hx, hxs, h1, hne⟩
      · exact Or.inl hl
      · right
        rw [hj, List.mem_cons] at hx
        rcases hx with rfl | hx
        · omega
        · exact ⟨x, hx, hxs, h1, hne⟩
    · have := h4.jobNodup
      rw [hj, List.map_cons, List.nodup_cons] at this
      exact this.2
    · unfold Counted total at hc ⊢
      rw [hj, extra_cons, hnw] at hc
      simpa using hc

theorem fstep_inv_cover {s : Shard} (o : FOp) (ho : o.crashFree = true) (h : Inv s) :
    Inv (fstep s o) ∧ ∀ e, Cover s e → Cover (fstep s o) e := by
  cases o with
  | op o => exact step_inv_cover o ho h
  | fail => exact ⟨failHead_inv h, fun _ he => failHead_cover he⟩

theorem step_counted {s : Shard} (o : Op) (ho : o.crashFree = true) (n : Nat) (h : Inv s) (h4 : Inv4 s)
    (hc : Counted s n) :
    Inv4 (step s o) ∧ Counted (step s o) (n + (storedEvents [o]).length) := by
  have := runOps_counted [o] n h h4 hc (by intro x hx; simp at hx; subst hx; exact ho)
  simpa [runOps] using this

theorem runF_cover (ops : List FOp) : ∀ {s : Shard}, Inv s → (∀ o ∈ ops, o.crashFree = true) →
    Inv (runF s ops) ∧ (∀ e, Cover s e → Cover (runF s ops) e) ∧
    ∀ e ∈ storedF ops, Cover (runF s ops) e := by
  induction ops with
  | nil => intro s h _; exact ⟨h, fun _ he => he, by simp [storedF]⟩
  | cons o ops ih =>
    intro s h hall
    have ho := hall o (by simp)
    obtain ⟨h1, c1⟩ := fstep_inv_cover o ho h
    obtain ⟨h2, c2, c3⟩ := ih h1 (fun x hx => hall x (by simp [hx]))
    have hrun : runF s (o :: ops) = runF (fstep s o) ops := by simp [runF]
    rw [hrun]
    refine ⟨h2, fun e he => c2 e (c1 e he), ?_⟩
    intro e he
    cases o with
    | fail => exact c3 e (by simpa [storedF] using he)
    | op o =>
      cases o with
      | store x =>
        simp only [storedF, List.mem_cons] at he
        rcases he with rfl | he
        · exact c2 _ (by simpa [fstep, step] using store_cover_new s e)
        · exact c3 e he
      | flushCmd => exact c3 e (by simpa [storedF] using he)
      | flushStep => exact c3 e (by simpa [storedF] using he)
      | drain => exact c3 e (by simpa [storedF] using he)
      | crash => simp [FOp.crashFree, Op.crashFree] at ho
      | shutdown => simp [FOp.crashFree, Op.crashFree] at ho

theorem runF_counted (ops : List FOp) : ∀ {s : Shard} (n : Nat), Inv s → Inv4 s → Counted s n →
    (∀ o ∈ ops, o.crashFree = true) →
    Inv4 (runF s ops) ∧ Counted (runF s ops) (n + (storedF ops).length) := by
  induction ops with
  | nil => intro s n _ h4 hc _; exact ⟨h4, by simpa [storedF, runF] using hc⟩
  | cons o ops ih =>
    intro s n h h4 hc hall
    have ho := hall o (by simp)
    have hrun : runF s (o :: ops) = runF (fstep s o) ops := by simp [runF]
    rw [hrun]
    have hall' : ∀ x ∈ ops, x.crashFree = true := fun x hx => hall x (by simp [hx])
    have hinv := (fstep_inv_cover o ho h).1
    cases o with
    | fail =>
      obtain ⟨a, b⟩ := failHead_inv4 h4 n hc
      simpa [storedF] using ih n hinv a b hall'
    | op o =>
      obtain ⟨a, b⟩ := step_counted o ho n h h4 hc
      have := ih _ hinv a b hall'
      cases o with
      | store e =>
        simp only [storedF, List.length_cons]
        simp only [storedEvents, List.length_cons, List.length_nil] at this
        have e2 : n + ((storedF ops).length + 1) = n + (0 + 1) + (storedF ops).length := by omega
        rw [e2]; exact this
      | flushCmd => simpa [storedF, storedEvents] using this
      | flushStep => simpa [storedF, storedEvents] using this
      | drain => simpa [storedF, storedEvents] using this
      | crash => simp [FOp.crashFree, Op.crashFree] at ho
      | shutdown => simp [FOp.crashFree, Op.crashFree] at ho

end Snel.Shard
