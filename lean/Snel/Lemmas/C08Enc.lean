import Snel.Model.C08Enc
/-! Helper lemmas for C08 — order-preserving byte encodings. Arithmetic on `Nat`/`Int` only. -/
namespace Snel.C08

theorem two63_eq : two63 = 9223372036854775808 := by decide
theorem two64_eq : two64 = 18446744073709551616 := by decide
theorem pow256_8 : (256 : Nat) ^ 8 = 18446744073709551616 := by decide

/-- Big-endian bytes order numbers below `256^k` exactly like `<`. -/
theorem be_lt (k : Nat) : ∀ a b, a < 256 ^ k → b < 256 ^ k →
    (lexLt (be k a) (be k b) = true ↔ a < b) := by
  induction k with
  | zero =>
    intro a b ha hb
    simp at ha hb
    subst ha; subst hb
    simp [be, lexLt]
  | succ k ih =>
    intro a b ha hb
    have hP : 0 < 256 ^ k := Nat.pow_pos (by decide)
    generalize hPd : 256 ^ k = P at *
    rw [Nat.pow_succ, hPd] at ha hb
    have hqa : a / P < 256 := (Nat.div_lt_iff_lt_mul hP).2 (by rw [Nat.mul_comm]; exact ha)
    have hqb : b / P < 256 := (Nat.div_lt_iff_lt_mul hP).2 (by rw [Nat.mul_comm]; exact hb)
    have ea := Nat.div_add_mod a P
    have eb := Nat.div_add_mod b P
    have hra : a % P < P := Nat.mod_lt _ hP
    have hrb : b % P < P := Nat.mod_lt _ hP
    simp only [be, lexLt, hPd, Nat.mod_eq_of_lt hqa, Nat.mod_eq_of_lt hqb]
    by_cases h1 : a / P < b / P
    · simp only [h1, if_true, true_iff]
      have : P * (a / P + 1) ≤ P * (b / P) := Nat.mul_le_mul_left P h1
      rw [Nat.mul_add, Nat.mul_one] at this
      omega
    · simp only [h1, if_false]
      by_cases h2 : a / P = b / P
      · simp only [h2, if_true]
        rw [ih _ _ hra hrb]
        rw [h2] at ea
        omega
      · simp only [h2, if_false]
        have h3 : b / P < a / P := by omega
        have : P * (b / P + 1) ≤ P * (a / P) := Nat.mul_le_mul_left P h3
        rw [Nat.mul_add, Nat.mul_one] at this
        constructor
        · intro h; cases h
        · intro h; omega

theorem be8_lt (a b : Nat) (ha : a < two64) (hb : b < two64) :
    (lexLt (be 8 a) (be 8 b) = true ↔ a < b) := by
  apply be_lt 8 <;> (rw [pow256_8]; rw [two64_eq] at *; assumption)

theorem be_length (k n : Nat) : (be k n).length = k := by
  induction k generalizing n with
  | zero => rfl
  | succ k ih => simp [be, ih]

theorem flipSign_lt (x : Nat) (hx : x < two64) : flipSign x < two64 := by
  unfold flipSign; rw [two63_eq, two64_eq] at *; split <;> omega

theorem flipSign_mono (x y : Nat) (hx : x < two64) (hy : y < two64) :
    (flipSign x < flipSign y ↔ i64Val x < i64Val y) := by
  unfold flipSign i64Val; rw [two63_eq, two64_eq] at *
  split <;> split <;> omega

/-- The arithmetic reading of the sign flip is the xor with `1 << 63` the code performs. -/
theorem flipSign_eq_xor (x : Nat) (hx : x < two64) : x ^^^ two63 = flipSign x := by
  unfold flipSign
  have h63 : two63 = 2 ^ 63 := rfl
  have h64 : two64 = 2 ^ 64 := rfl
  rw [h64] at hx
  by_cases h : x < two63
  · rw [if_pos h]
    rw [h63] at h ⊢
    rw [Nat.xor_comm, Nat.add_comm]
    apply Nat.eq_of_testBit_eq
    intro i
    rw [Nat.testBit_xor, Nat.testBit_two_pow]
    by_cases hi : i = 63
    · subst hi
      rw [Nat.testBit_two_pow_add_eq, Nat.testBit_lt_two_pow h]; rfl
    · have : decide (63 = i) = false := by simp; omega
      rw [this, Bool.false_xor]
      by_cases hlt : i < 63
      · rw [Nat.testBit_two_pow_add_gt hlt]
      · have hgt : 63 < i := by omega
        have hx2 : x < 2 ^ i := Nat.lt_of_lt_of_le h (Nat.pow_le_pow_right (by decide) (by omega))
        have hs : 2 ^ 63 + x < 2 ^ i := by
          have : 2 ^ 63 + 2 ^ 63 ≤ 2 ^ i := by
            have := Nat.pow_le_pow_right (n := 2) (by decide) (show 64 ≤ i by omega)
            omega
          omega
        rw [Nat.testBit_lt_two_pow hx2, Nat.testBit_lt_two_pow hs]
  · rw [if_neg h]
    rw [h63] at h ⊢
    have hge : 2 ^ 63 ≤ x := by omega
    obtain ⟨r, hr⟩ : ∃ r, x = 2 ^ 63 + r := ⟨x - 2 ^ 63, by omega⟩
    have hr63 : r < 2 ^ 63 := by omega
    subst hr
    rw [Nat.add_sub_cancel_left]
    apply Nat.eq_of_testBit_eq
    intro i
    rw [Nat.testBit_xor, Nat.testBit_two_pow]
    by_cases hi : i = 63
    · subst hi
      rw [Nat.testBit_two_pow_add_eq, Nat.testBit_lt_two_pow hr63]; rfl
    · have : decide (63 = i) = false := by simp; omega
      rw [this, Bool.xor_false]
      by_cases hlt : i < 63
      · rw [Nat.testBit_two_pow_add_gt hlt]
      · have hgt : 63 < i := by omega
        have hx2 : r < 2 ^ i := Nat.lt_of_lt_of_le hr63 (Nat.pow_le_pow_right (by decide) (by omega))
        have hs : 2 ^ 63 + r < 2 ^ i := by
          have := Nat.pow_le_pow_right (n := 2) (by decide) (show 64 ≤ i by omega)
          omega
        rw [Nat.testBit_lt_two_pow hx2, Nat.testBit_lt_two_pow hs]

theorem encU64_mono (a b : Nat) (ha : a < two64) (hb : b < two64) :
    (lexLt (encU64 a) (encU64 b) = true ↔ a < b) := be8_lt a b ha hb

theorem encI64_mono (x y : Nat) (hx : x < two64) (hy : y < two64) :
    (lexLt (encI64 x) (encI64 y) = true ↔ i64Val x < i64Val y) := by
  unfold encI64
  rw [be8_lt _ _ (flipSign_lt x hx) (flipSign_lt y hy)]
  exact flipSign_mono x y hx hy

/-- The number `encode_f64` writes. -/
def f64Lex (b : Nat) : Nat := if two63 ≤ b then two64 - 1 - b else b + two63

theorem f64Lex_lt (b : Nat) (hb : b < two64) : f64Lex b < two64 := by
  unfold f64Lex; rw [two63_eq, two64_eq] at *; split <;> omega

theorem f64Lex_key (b : Nat) (hb : b < two64) : (f64Lex b : Int) = f64Key b + (two63 : Int) := by
  unfold f64Lex f64Key; rw [two63_eq, two64_eq] at *
  split <;> split <;> omega

theorem f64Key_range (b : Nat) (hb : b < two64) :
    -(two63 : Int) ≤ f64Key b ∧ f64Key b < (two63 : Int) := by
  unfold f64Key; rw [two63_eq, two64_eq] at *
  split <;> omega

theorem encF64_mono (a b : Nat) (ha : a < two64) (hb : b < two64) :
    (lexLt (encF64 a) (encF64 b) = true ↔ f64Lt a b) := by
  show lexLt (be 8 (f64Lex a)) (be 8 (f64Lex b)) = true ↔ _
  rw [be8_lt _ _ (f64Lex_lt a ha) (f64Lex_lt b hb)]
  have h1 := f64Lex_key a ha
  have h2 := f64Lex_key b hb
  unfold f64Lt
  omega

theorem i64Pat_val (x : Nat) (hx : x < two64) : i64Pat (i64Val x) = x := by
  unfold i64Pat i64Val; rw [two63_eq, two64_eq] at *
  split <;> omega

theorem i64Val_pat (v : Int) (h1 : -(two63 : Int) ≤ v) (h2 : v < (two63 : Int)) :
    i64Val (i64Pat v) = v ∧ i64Pat v < two64 := by
  unfold i64Pat i64Val; rw [two63_eq, two64_eq] at *
  constructor
  · split <;> omega
  · omega

theorem i64Val_range (x : Nat) (hx : x < two64) :
    -(two63 : Int) ≤ i64Val x ∧ i64Val x < (two63 : Int) := by
  unfold i64Val; rw [two63_eq, two64_eq] at *
  split <;> omega

/-- What a value with lane `l` and key `k` is encoded as. -/
def encKey : Lane → Int → List Nat
  | .I, k => encI64 (i64Pat k)
  | .U, k => encU64 k.toNat
  | .F, k => be 8 (k + (two63 : Int)).toNat

def keyInRange : Lane → Int → Prop
  | .I, k => -(two63 : Int) ≤ k ∧ k < (two63 : Int)
  | .U, k => 0 ≤ k ∧ k < (two64 : Int)
  | .F, k => -(two63 : Int) ≤ k ∧ k < (two63 : Int)

/-- On each lane the encoding is strictly monotone in the key. -/
theorem encKey_mono (l : Lane) (a b : Int) (ha : keyInRange l a) (hb : keyInRange l b) :
    (lexLt (encKey l a) (encKey l b) = true ↔ a < b) := by
  cases l with
  | I =>
    obtain ⟨a1, a2⟩ := ha; obtain ⟨b1, b2⟩ := hb
    obtain ⟨va, pa⟩ := i64Val_pat a a1 a2
    obtain ⟨vb, pb⟩ := i64Val_pat b b1 b2
    show lexLt (encI64 _) (encI64 _) = true ↔ _
    rw [encI64_mono _ _ pa pb, va, vb]
  | U =>
    obtain ⟨a1, a2⟩ := ha; obtain ⟨b1, b2⟩ := hb
    show lexLt (encU64 _) (encU64 _) = true ↔ _
    rw [encU64_mono _ _ (by rw [two64_eq] at *; omega) (by rw [two64_eq] at *; omega)]
    omega
  | F =>
    obtain ⟨a1, a2⟩ := ha; obtain ⟨b1, b2⟩ := hb
    show lexLt (be 8 _) (be 8 _) = true ↔ _
    rw [be8_lt _ _ (by rw [two63_eq, two64_eq] at *; omega) (by rw [two63_eq, two64_eq] at *; omega)]
    omega

theorem encF64_eq_key (b : Nat) (hb : b < two64) : encF64 b = encKey .F (f64Key b) := by
  show be 8 (f64Lex b) = be 8 _
  have := f64Lex_key b hb
  congr 1
  omega

theorem encKey_length (l : Lane) (k : Int) : (encKey l k).length = 8 := by
  cases l <;> simp [encKey, encI64, encU64, be_length]

/-- Bit patterns inside a value are 64-bit. -/
def SV.wf : SV → Prop
  | .int64 x => x < two64
  | .ts x => x < two64
  | .f64 b => b < two64
  | .utf8 _ (some b) => b < two64
  | _ => True

theorem floatLane_enc (b : Nat) (hb : b < two64) (l : Lane) (k : Int)
    (h : floatLane b = some (l, k)) : encFloatNorm b = encKey l k ∧ keyInRange l k := by
  unfold floatLane at h
  unfold encFloatNorm
  cases hv : f64IntVal b with
  | none =>
    rw [hv] at h
    simp only [Option.some.injEq, Prod.mk.injEq] at h
    obtain ⟨rfl, rfl⟩ := h
    exact ⟨encF64_eq_key b hb, f64Key_range b hb⟩
  | some v =>
    rw [hv] at h
    simp only at h ⊢
    by_cases c1 : -(two63 : Int) ≤ v ∧ v < (two63 : Int)
    · rw [if_pos c1] at h
      simp only [Option.some.injEq, Prod.mk.injEq] at h
      obtain ⟨rfl, rfl⟩ := h
      have c1' : -(two63 : Int) ≤ v ∧ v ≤ (two63 : Int) := ⟨c1.1, by omega⟩
      have c2 : ¬ v = (two63 : Int) := by omega
      rw [if_pos c1', if_neg c2]
      exact ⟨rfl, c1⟩
    · rw [if_neg c1] at h
      by_cases c3 : (two63 : Int) < v ∧ v < (two64 : Int)
      · rw [if_pos c3] at h
        simp only [Option.some.injEq, Prod.mk.injEq] at h
        obtain ⟨rfl, rfl⟩ := h
        have c4 : ¬ (-(two63 : Int) ≤ v ∧ v ≤ (two63 : Int)) := by omega
        have c5 : (0 : Int) ≤ v := by rw [two63_eq] at c3; omega
        have c6 : ¬ (two64 : Int) ≤ v := by omega
        rw [if_neg c4, if_pos c5, if_neg c6]
        exact ⟨rfl, c5, c3.2⟩
      · rw [if_neg c3] at h
        by_cases c7 : v < -(two63 : Int)
        · rw [if_pos c7] at h
          simp only [Option.some.injEq, Prod.mk.injEq] at h
          obtain ⟨rfl, rfl⟩ := h
          have c4 : ¬ (-(two63 : Int) ≤ v ∧ v ≤ (two63 : Int)) := by omega
          have c5 : ¬ (0 : Int) ≤ v := by rw [two63_eq] at c7; omega
          rw [if_neg c4, if_neg c5]
          exact ⟨encF64_eq_key b hb, f64Key_range b hb⟩
        · rw [if_neg c7] at h
          cases h

theorem parseDigits_lt (ds : List Nat) (lim v : Nat) (h : parseDigits ds lim = some v) : v < lim := by
  unfold parseDigits at h
  split at h
  · cases h
  · split at h
    · simp only [Option.some.injEq] at h
      subst h; assumption
    · cases h

theorem parseI64_lt (s : List Nat) (x : Nat) (h : parseI64 s = some x) : x < two64 := by
  unfold parseI64 at h
  split at h
  · rw [Option.map_eq_some_iff] at h
    obtain ⟨v, _, rfl⟩ := h
    unfold i64Pat; rw [two64_eq]; omega
  · have := parseDigits_lt _ _ _ h
    rw [two63_eq] at this; rw [two64_eq]; omega

theorem parseU64_lt (s : List Nat) (u : Nat) (h : parseU64 s = some u) : u < two64 :=
  parseDigits_lt _ _ _ h

/-- A value with a lane is encoded as `encKey lane key`, and its key is in the lane's range. -/
theorem laneOf_enc (x : SV) (hw : x.wf) (l : Lane) (k : Int) (h : laneOf x = some (l, k)) :
    encodeValue x = some (encKey l k) ∧ keyInRange l k := by
  cases x with
  | null => cases h
  | binary => cases h
  | bool b => cases h
  | int64 x =>
    simp only [laneOf, Option.some.injEq, Prod.mk.injEq] at h
    obtain ⟨rfl, rfl⟩ := h
    exact ⟨by simp [encodeValue, encKey, i64Pat_val x hw], i64Val_range x hw⟩
  | ts x =>
    simp only [laneOf, Option.some.injEq, Prod.mk.injEq] at h
    obtain ⟨rfl, rfl⟩ := h
    exact ⟨by simp [encodeValue, encKey, i64Pat_val x hw], i64Val_range x hw⟩
  | f64 b =>
    simp only [laneOf] at h
    obtain ⟨e, r⟩ := floatLane_enc b hw l k h
    exact ⟨by simp [encodeValue, e], r⟩
  | utf8 s pf =>
    simp only [laneOf] at h
    simp only [encodeValue]
    cases hi : parseI64 s with
    | some x =>
      rw [hi] at h
      simp only [Option.some.injEq, Prod.mk.injEq] at h
      obtain ⟨rfl, rfl⟩ := h
      have hx := parseI64_lt s x hi
      exact ⟨by simp [encKey, i64Pat_val x hx], i64Val_range x hx⟩
    | none =>
      rw [hi] at h
      simp only at h ⊢
      cases hu : parseU64 s with
      | some u =>
        rw [hu] at h
        simp only [Option.some.injEq, Prod.mk.injEq] at h
        obtain ⟨rfl, rfl⟩ := h
        have hx := parseU64_lt s u hu
        exact ⟨by simp [encKey], by simp [keyInRange]; exact_mod_cast hx⟩
      | none =>
        rw [hu] at h
        simp only at h ⊢
        cases pf with
        | none => cases h
        | some b =>
          simp only at h ⊢
          obtain ⟨e, r⟩ := floatLane_enc b hw l k h
          exact ⟨by rw [e], r⟩

end Snel.C08
