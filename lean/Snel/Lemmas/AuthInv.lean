import Snel.Lemmas.Auth
/-! Gate soundness, authorisation and revocation lemmas behind `Snel.Props.C13`. -/
set_option linter.unusedSimpArgs false
namespace Snel.Auth
open Snel.Gen.C13

/-! ### the gate -/

theorem authCommand_ne_pass (mac : Str → Str → Str) (cfg : Cfg) (st : State) (t c u : Str) :
    authCommand mac cfg st t ≠ .pass c u := by
  unfold authCommand
  split
  · simp
  · split
    · simp
    · split <;> simp

theorem tokenBranch_spec {st : State} {now : Nat} {t : Str} {r : GateOut}
    (h : tokenBranch st now t = some r) :
    ∃ before after user, r = .pass (trim before) user ∧ t = before ++ tokenMarker ++ after ∧
      validateToken st now (trim after) = some user := by
  unfold tokenBranch at h
  cases hs : splitLast tokenMarker t with
  | none => simp [hs] at h
  | some p =>
    obtain ⟨before, after⟩ := p
    simp only [hs] at h
    split at h
    · cases hv : validateToken st now (trim after) with
      | none => simp [hv] at h
      | some u =>
        simp only [hv, Option.some.injEq] at h
        exact ⟨before, after, u, h.symm, splitLast_spec _ _ _ _ hs, hv⟩
    · simp at h

theorem sigBranch_spec {mac : Str → Str → Str} {st : State} {conn : Option Str} {t cmd user : Str}
    (h : sigBranch mac st conn t = .pass cmd user) :
    ∃ u sig, findUser st user = some u ∧ u.active = true ∧ sig = mac u.key cmd ∧
      ((conn = some user ∧ ∃ rest, t = sig ++ ':' :: rest ∧ cmd = trim rest)
       ∨ (conn = none ∧ t = user ++ ':' :: (sig ++ ':' :: cmd))) := by
  unfold sigBranch at h
  cases conn with
  | some cu =>
    simp only at h
    cases hs : splitFirst ':' t with
    | none => simp [hs] at h
    | some p =>
      obtain ⟨sig, rest⟩ := p
      simp only [hs] at h
      split at h
      · rename_i hv
        simp only [GateOut.pass.injEq] at h
        obtain ⟨hc, hu⟩ := h
        subst hu
        obtain ⟨u, h1, h2, h3⟩ := verify_spec hv
        refine ⟨u, sig, h1, h2, by rw [← hc]; exact h3, Or.inl ⟨rfl, rest, (splitFirst_spec ':' t _ _ hs).1, hc.symm⟩⟩
      · simp at h
  | none =>
    simp only at h
    cases hp : parseAuth t with
    | none => simp [hp] at h
    | some p =>
      obtain ⟨pu, sig, pc⟩ := p
      simp only [hp] at h
      split at h
      · rename_i hv
        simp only [GateOut.pass.injEq] at h
        obtain ⟨hc, hu⟩ := h
        subst hu
        subst hc
        obtain ⟨u, h1, h2, h3⟩ := verify_spec hv
        exact ⟨u, sig, h1, h2, h3, Or.inr ⟨rfl, (parseAuth_spec hp).1⟩⟩
      · simp at h

theorem sigBranch_ne_authOk (mac : Str → Str → Str) (st : State) (conn : Option Str) (t u : Str) :
    sigBranch mac st conn t ≠ .authOk u := by
  unfold sigBranch
  cases conn with
  | some cu =>
    simp only
    split
    · split <;> simp
    · simp
  | none =>
    simp only
    split
    · split <;> simp
    · simp

theorem gate_sound (mac : Str → Str → Str) (cfg : Cfg) (st : State) (conn : Option Str)
    (now : Nat) (line cmd user : Str)
    (h : gate mac cfg st conn now line = .pass cmd user) :
    (cfg.bypass = true ∧ user = bypassUserId ∧ cmd = trim line)
    ∨ (cfg.hasManager = false ∧ user = noAuthUserId ∧ cmd = trim line)
    ∨ (∃ u sig, findUser st user = some u ∧ u.active = true ∧ sig = mac u.key cmd ∧
        ((conn = some user ∧ ∃ rest, trim line = sig ++ ':' :: rest ∧ cmd = trim rest)
         ∨ (conn = none ∧ trim line = user ++ ':' :: (sig ++ ':' :: cmd))))
    ∨ (∃ s u before after, s ∈ st.sessions ∧ s.user = user ∧ ¬ s.expiresAt < now ∧
        findUser st user = some u ∧ u.active = true ∧
        trim line = before ++ tokenMarker ++ after ∧ trim after = s.token ∧ cmd = trim before) := by
  unfold gate at h
  by_cases hb : cfg.bypass = true
  · simp only [hb, if_true, GateOut.pass.injEq] at h
    exact Or.inl ⟨hb, h.2.symm, h.1.symm⟩
  · have hb' : cfg.bypass = false := by simpa using hb
    simp only [hb', Bool.false_eq_true, ↓reduceIte] at h
    by_cases ha : startsWithIgnoreAsciiCase authPrefix (trim line) = true
    · simp only [ha, ↓reduceIte] at h
      exact absurd h (authCommand_ne_pass _ _ _ _ _ _)
    · have ha' : startsWithIgnoreAsciiCase authPrefix (trim line) = false := by simpa using ha
      simp only [ha', Bool.false_eq_true, ↓reduceIte] at h
      by_cases hm : cfg.hasManager = true
      · simp only [hm, Bool.not_true, Bool.false_eq_true, ↓reduceIte] at h
        cases ht : tokenBranch st now (trim line) with
        | some r =>
          simp only [ht] at h
          obtain ⟨before, after, u', hr, htt, hv⟩ := tokenBranch_spec ht
          rw [hr] at h
          simp only [GateOut.pass.injEq] at h
          obtain ⟨hc, hu⟩ := h
          subst hu
          obtain ⟨s, u, hs1, hs2, hs3, hs4, hs5, hs6⟩ := validateToken_spec hv
          exact Or.inr (Or.inr (Or.inr ⟨s, u, before, after, hs1, hs3, hs4, hs5, hs6, htt, hs2.symm, hc.symm⟩))
        | none =>
          simp only [ht] at h
          exact Or.inr (Or.inr (Or.inl (sigBranch_spec h)))
      · have hm' : cfg.hasManager = false := by simpa using hm
        simp only [hm', Bool.not_false, ↓reduceIte, GateOut.pass.injEq] at h
        exact Or.inr (Or.inl ⟨hm', h.2.symm, h.1.symm⟩)

theorem gate_auth_sound (mac : Str → Str → Str) (cfg : Cfg) (st : State) (conn : Option Str)
    (now : Nat) (line user : Str)
    (h : gate mac cfg st conn now line = .authOk user) :
    cfg.bypass = false ∧ cfg.hasManager = true ∧
    ∃ u, findUser st user = some u ∧ u.active = true ∧
      ∃ sig, trim ((trim line).drop authPrefix.length) = user ++ ':' :: sig ∧ sig = mac u.key user := by
  unfold gate at h
  by_cases hb : cfg.bypass = true
  · simp [hb] at h
  · have hb' : cfg.bypass = false := by simpa using hb
    simp only [hb', Bool.false_eq_true, ↓reduceIte] at h
    by_cases ha : startsWithIgnoreAsciiCase authPrefix (trim line) = true
    · simp only [ha, ↓reduceIte] at h
      unfold authCommand at h
      cases hs : splitFirst ':' (trim ((trim line).drop authPrefix.length)) with
      | none => simp [hs] at h
      | some p =>
        obtain ⟨pu, sig⟩ := p
        simp only [hs] at h
        by_cases hm : cfg.hasManager = true
        · simp only [hm, Bool.not_true, Bool.false_eq_true, ↓reduceIte] at h
          split at h
          · rename_i hv
            simp only [GateOut.authOk.injEq] at h
            subst h
            obtain ⟨u, h1, h2, h3⟩ := verify_spec hv
            exact ⟨hb', hm, u, h1, h2, sig, (splitFirst_spec ':' _ _ _ hs).1, h3⟩
          · simp at h
        · have hm' : cfg.hasManager = false := by simpa using hm
          simp [hm'] at h
    · have ha' : startsWithIgnoreAsciiCase authPrefix (trim line) = false := by simpa using ha
      simp only [ha', Bool.false_eq_true, ↓reduceIte] at h
      by_cases hm : cfg.hasManager = true
      · simp only [hm, Bool.not_true, Bool.false_eq_true, ↓reduceIte] at h
        cases ht : tokenBranch st now (trim line) with
        | some r =>
          simp only [ht] at h
          obtain ⟨before, after, u', hr, _, _⟩ := tokenBranch_spec ht
          rw [hr] at h
          simp at h
        | none =>
          simp only [ht] at h
          exact absurd h (sigBranch_ne_authOk _ _ _ _ _)
      · have hm' : cfg.hasManager = false := by simpa using hm
        simp [hm'] at h

/-! ### the dispatch table (facts read off the generated arm lists) -/

theorem pi_store (et ok) : passesIdentity (.store et ok) = true := by
  show identityArms.contains "Store".toList = true; decide
theorem pi_query (h t) : passesIdentity (.query h t) = true := by
  show identityArms.contains "Query".toList = true; decide
theorem pi_define (et) : passesIdentity (.define et) = true := by
  show identityArms.contains "Define".toList = true; decide
theorem pi_createUser (a b c) : passesIdentity (.createUser a b c) = true := by
  show identityArms.contains "CreateUser".toList = true; decide
theorem pi_revokeKey (a) : passesIdentity (.revokeKey a) = true := by
  show identityArms.contains "RevokeKey".toList = true; decide
theorem pi_listUsers : passesIdentity .listUsers = true := by decide
theorem pi_grant (a b c) : passesIdentity (.grant a b c) = true := by
  show identityArms.contains "GrantPermission".toList = true; decide
theorem pi_revoke (a b c) : passesIdentity (.revoke a b c) = true := by
  show identityArms.contains "RevokePermission".toList = true; decide
theorem pi_showPermissions (a) : passesIdentity (.showPermissions a) = true := by
  show identityArms.contains "ShowPermissions".toList = true; decide
theorem pi_compare (a) : passesIdentity (.compare a) = false := by
  show identityArms.contains "Compare".toList = false; decide
theorem pi_replay (a) : passesIdentity (.replay a) = false := by
  show identityArms.contains "Replay".toList = false; decide
theorem pi_remember (a b c) : passesIdentity (.remember a b c) = false := by
  show identityArms.contains "RememberQuery".toList = false; decide
theorem pi_show (a) : passesIdentity (.show a) = false := by
  show identityArms.contains "ShowMaterialized".toList = false; decide
theorem pi_flush : passesIdentity .flush = false := by decide
theorem pi_ping : passesIdentity .ping = false := by decide
theorem pi_batch : passesIdentity .batch = false := by decide

theorem dispatched_of_pi {c : Cmd} (h : passesIdentity c = true) : dispatched c = true := by
  unfold dispatched; unfold passesIdentity at h; rw [h]; rfl

theorem dispatched_all (c : Cmd) : dispatched c = true := by
  cases c with
  | store a b => exact dispatched_of_pi (pi_store a b)
  | query a b => exact dispatched_of_pi (pi_query a b)
  | define a => exact dispatched_of_pi (pi_define a)
  | createUser a b c => exact dispatched_of_pi (pi_createUser a b c)
  | revokeKey a => exact dispatched_of_pi (pi_revokeKey a)
  | listUsers => exact dispatched_of_pi pi_listUsers
  | grant a b c => exact dispatched_of_pi (pi_grant a b c)
  | revoke a b c => exact dispatched_of_pi (pi_revoke a b c)
  | showPermissions a => exact dispatched_of_pi (pi_showPermissions a)
  | compare a =>
    show (identityArms.contains "Compare".toList || anonymousArms.contains "Compare".toList || refusedArms.contains "Compare".toList) = true
    decide
  | replay a =>
    show (identityArms.contains "Replay".toList || anonymousArms.contains "Replay".toList || refusedArms.contains "Replay".toList) = true
    decide
  | remember a b c =>
    show (identityArms.contains "RememberQuery".toList || anonymousArms.contains "RememberQuery".toList || refusedArms.contains "RememberQuery".toList) = true
    decide
  | «show» a =>
    show (identityArms.contains "ShowMaterialized".toList || anonymousArms.contains "ShowMaterialized".toList || refusedArms.contains "ShowMaterialized".toList) = true
    decide
  | flush => decide
  | ping => decide
  | batch => decide

theorem authorize_store (st uid et ok) :
    authorize st true uid (.store et ok) = checkId uid (fun u => canWrite st u et) := by
  unfold authorize
  simp [dispatched_of_pi (pi_store et ok), pi_store]

theorem authorize_query (st uid h t) :
    authorize st true uid (.query h t) =
      checkId uid (fun u => canRead st u h && t.all (fun e => canRead st u e)) := by
  unfold authorize
  simp [dispatched_of_pi (pi_query h t), pi_query]

theorem authorize_define (st uid et) :
    authorize st true uid (.define et) = checkId uid (fun u => isAdmin st u) := by
  unfold authorize
  simp [dispatched_of_pi (pi_define et), pi_define]

theorem authorize_mgmt (st uid) (c : Cmd) (hm : needsAdmin c = true) :
    authorize st true uid c = checkId uid (fun u => isAdmin st u) := by
  cases c <;> simp [needsAdmin] at hm
  · exact authorize_define st uid _
  · unfold authorize; simp [dispatched_of_pi (pi_createUser _ _ _), pi_createUser]
  · unfold authorize; simp [dispatched_of_pi (pi_revokeKey _), pi_revokeKey]
  · unfold authorize; simp [dispatched_of_pi pi_listUsers, pi_listUsers]
  · unfold authorize; simp [dispatched_of_pi (pi_grant _ _ _), pi_grant]
  · unfold authorize; simp [dispatched_of_pi (pi_revoke _ _ _), pi_revoke]
  · unfold authorize; simp [dispatched_of_pi (pi_showPermissions _), pi_showPermissions]

/-! ### authorisation -/

theorem write_needs_permission (st : State) (uid : Option Str) (c : Cmd)
    (h : authorize st true uid c = .proceed) (hby : uid ≠ some bypassUserId) :
    ∀ et ∈ writesOf c, ∃ u, uid = some u ∧ specWrite st u et = true := by
  intro et het
  cases c <;> simp [writesOf] at het
  subst het
  rw [authorize_store] at h
  obtain ⟨u, hu, hr⟩ := checkId_proceed h
  refine ⟨u, hu, ?_⟩
  rcases hr with hb | hr
  · subst hb; exact absurd hu hby
  · exact canWrite_spec hr

theorem read_needs_permission (all : List Str) (st : State) (uid : Option Str) (c : Cmd)
    (h : authorize st true uid c = .proceed) (hid : passesIdentity c = true)
    (hby : uid ≠ some bypassUserId) :
    ∀ et ∈ readsOf all c, ∃ u, uid = some u ∧ specRead st u et = true := by
  intro et het
  cases c with
  | query hd t =>
    simp only [readsOf, List.mem_cons] at het
    rw [authorize_query] at h
    obtain ⟨u, hu, hr⟩ := checkId_proceed h
    refine ⟨u, hu, ?_⟩
    rcases hr with hb | hr
    · subst hb; exact absurd hu hby
    · simp only [Bool.and_eq_true, List.all_eq_true] at hr
      rcases het with rfl | het
      · exact canRead_spec hr.1
      · exact canRead_spec (hr.2 et het)
  | compare a => rw [pi_compare] at hid; cases hid
  | replay a => rw [pi_replay] at hid; cases hid
  | remember a b c => rw [pi_remember] at hid; cases hid
  | _ => simp [readsOf] at het

theorem admin_only (st : State) (uid : Option Str) (c : Cmd)
    (h : authorize st true uid c = .proceed) (hadm : needsAdmin c = true)
    (hby : uid ≠ some bypassUserId) :
    ∃ u, uid = some u ∧ specAdmin st u = true := by
  rw [authorize_mgmt st uid c hadm] at h
  obtain ⟨u, hu, hr⟩ := checkId_proceed h
  refine ⟨u, hu, ?_⟩
  rcases hr with hb | hr
  · subst hb; exact absurd hu hby
  · exact hr

theorem rightless_inert (st : State) (id : Str) (u : User) (c : Cmd)
    (hu : findUser st id = some u) (hr : u.roles = []) (hp : u.perms = [])
    (hid : passesIdentity c = true) (hby : id ≠ bypassUserId) :
    authorize st true (some id) c ≠ .proceed := by
  have hA : isAdmin st id = false := by simp [isAdmin, hu, hasRole, hr]
  have hR : ∀ et, canRead st id et = false := by
    intro et; simp [canRead, hu, hasRole, hr, hp, findPerm]
  have hW : ∀ et, canWrite st id et = false := by
    intro et; simp [canWrite, hu, hasRole, hr, hp, findPerm]
  have key : ∀ right : Str → Bool, right id = false → checkId (some id) right ≠ .proceed := by
    intro right hrt
    simp [checkId, hrt, hby]
  cases c with
  | store et ok => rw [authorize_store]; exact key _ (hW et)
  | query h t => rw [authorize_query]; exact key _ (by simp [hR h])
  | compare a => rw [pi_compare] at hid; cases hid
  | replay a => rw [pi_replay] at hid; cases hid
  | remember a b c => rw [pi_remember] at hid; cases hid
  | «show» a => rw [pi_show] at hid; cases hid
  | flush => rw [pi_flush] at hid; cases hid
  | ping => rw [pi_ping] at hid; cases hid
  | batch => rw [pi_batch] at hid; cases hid
  | define et => rw [authorize_mgmt _ _ _ rfl]; exact key _ hA
  | createUser a b c => rw [authorize_mgmt _ _ _ rfl]; exact key _ hA
  | revokeKey a => rw [authorize_mgmt _ _ _ rfl]; exact key _ hA
  | listUsers => rw [authorize_mgmt _ _ _ rfl]; exact key _ hA
  | grant a b c => rw [authorize_mgmt _ _ _ rfl]; exact key _ hA
  | revoke a b c => rw [authorize_mgmt _ _ _ rfl]; exact key _ hA
  | showPermissions a => rw [authorize_mgmt _ _ _ rfl]; exact key _ hA

/-! ### revocation -/

/-- `id` is a known, deactivated account. -/
def InactiveL (us : List User) (id : Str) : Prop :=
  ∃ u, us.find? (fun x => x.id == id) = some u ∧ u.active = false

def Inactive (st : State) (id : Str) : Prop := InactiveL st.users id

theorem inactiveL_put (us : List User) (v w : User) (id : Str)
    (hw : us.find? (fun x => x.id == v.id) = some w) (hact : w.active = false → v.active = false)
    (h : InactiveL us id) : InactiveL (putUser us v) id := by
  obtain ⟨u, hu, ha⟩ := h
  by_cases hid : id = v.id
  · subst hid
    rw [hu] at hw
    cases hw
    exact ⟨v, find_putUser_same us v, hact ha⟩
  · exact ⟨u, by rw [find_putUser_other us v id hid]; exact hu, ha⟩

theorem inactiveL_put_new (us : List User) (v : User) (id : Str)
    (hnew : us.find? (fun x => x.id == v.id) = none) (h : InactiveL us id) :
    InactiveL (putUser us v) id := by
  obtain ⟨u, hu, ha⟩ := h
  have hid : id ≠ v.id := by
    intro e; subst e; rw [hu] at hnew; cases hnew
  exact ⟨u, by rw [find_putUser_other us v id hid]; exact hu, ha⟩

theorem inactive_createUser (alnum : Char → Bool) (st : State) (id' key : Str) (roles : List Str) (id : Str)
    (h : Inactive st id) : Inactive (createUser alnum st id' key roles).2 id := by
  unfold createUser
  split
  · exact h
  · exact h
  · split
    · exact h
    · cases hf : findUser st id' with
      | some x => simp only [hf]; exact h
      | none =>
        simp only [hf]
        exact inactiveL_put_new st.users _ id (by simpa [findUser] using hf) h

theorem inactive_revokeKey (st : State) (id' id : Str) (h : Inactive st id) :
    Inactive (revokeKey st id').2 id := by
  unfold revokeKey
  cases hf : findUser st id' with
  | none => simp only [hf]; exact h
  | some w =>
    simp only [hf]
    have hwid := (findUser_some hf).2
    refine inactiveL_put st.users _ w id ?_ (fun _ => rfl) h
    show st.users.find? (fun x => x.id == w.id) = some w
    rw [hwid]; exact hf

theorem inactive_setPermission (st : State) (id' et : Str) (p : Perm) (id : Str) (h : Inactive st id) :
    Inactive (setPermission st id' et p).2 id := by
  unfold setPermission
  cases hf : findUser st id' with
  | none => simp only [hf]; exact h
  | some w =>
    simp only [hf]
    have hwid := (findUser_some hf).2
    refine inactiveL_put st.users _ w id ?_ (fun ha => ha) h
    show st.users.find? (fun x => x.id == w.id) = some w
    rw [hwid]; exact hf

theorem inactive_dropPermission (st : State) (id' et : Str) (id : Str) (h : Inactive st id) :
    Inactive (dropPermission st id' et).2 id := by
  unfold dropPermission
  cases hf : findUser st id' with
  | none => simp only [hf]; exact h
  | some w =>
    simp only [hf]
    have hwid := (findUser_some hf).2
    refine inactiveL_put st.users _ w id ?_ (fun ha => ha) h
    show st.users.find? (fun x => x.id == w.id) = some w
    rw [hwid]; exact hf

theorem inactive_grantLoop (want : Perm) (user id : Str) : ∀ (ets : List Str) (st : State),
    Inactive st id → Inactive (grantLoop st want user ets).2 id := by
  intro ets
  induction ets with
  | nil => intro st h; exact h
  | cons et ets ih =>
    intro st h
    have hone : Inactive (grantOne st want user et).2 id := inactive_setPermission st user et _ id h
    unfold grantLoop
    split
    · exact h
    · cases hsp : grantOne st want user et with
      | mk r st' =>
        rw [hsp] at hone
        cases r <;> first | exact ih st' hone | exact hone

theorem inactive_revokeLoop (rr rw : Bool) (user id : Str) : ∀ (ets : List Str) (st : State),
    Inactive st id → Inactive (revokeLoop st rr rw user ets).2 id := by
  intro ets
  induction ets with
  | nil => intro st h; exact h
  | cons et ets ih =>
    intro st h
    have hone : Inactive (revokeOne st rr rw user et).2 id := inactive_setPermission st user et _ id h
    unfold revokeLoop
    cases hsp : revokeOne st rr rw user et with
    | mk r st' =>
      rw [hsp] at hone
      cases r <;> first | exact ih st' hone | exact hone

/-- Commands other than user / permission management leave the user table alone. -/
theorem exec_users_simple (alnum : Char → Bool) (st : State) (c : Cmd)
    (hc : match c with | .createUser .. | .revokeKey _ | .grant .. | .revoke .. => False | _ => True) :
    (exec alnum st c).2.users = st.users ∧ (exec alnum st c).2.sessions = st.sessions := by
  cases c <;> simp only at hc <;> (simp only [exec]; repeat (first | exact ⟨rfl, rfl⟩ | exact ⟨trivial, trivial⟩ | split))

theorem inactive_exec (alnum : Char → Bool) (st : State) (c : Cmd) (id : Str) (h : Inactive st id) :
    Inactive (exec alnum st c).2 id := by
  by_cases hc : (match c with | .createUser .. | .revokeKey _ | .grant .. | .revoke .. => False | _ => True)
  · show InactiveL _ id
    rw [(exec_users_simple alnum st c hc).1]
    exact h
  · cases c <;> simp only [not_true_eq_false, not_false_eq_true] at hc
    · rename_i a b c
      have := inactive_createUser alnum st a b c id h
      simp only [exec]
      cases hsp : createUser alnum st a b c with
      | mk r st' => rw [hsp] at this; cases r <;> exact this
    · rename_i a
      have := inactive_revokeKey st a id h
      simp only [exec]
      cases hsp : revokeKey st a with
      | mk r st' => rw [hsp] at this; cases r <;> exact this
    · rename_i ps ets u
      simp only [exec]
      split
      · exact h
      · exact inactive_grantLoop _ u id ets st h
    · rename_i ps ets u
      exact inactive_revokeLoop _ _ u id ets st h

theorem inactive_applyOne (alnum : Char → Bool) (cfg : Cfg) (st : State) (l : Later) (id : Str)
    (h : Inactive st id) : Inactive (applyOne alnum cfg st l) id := by
  cases l with
  | cmd c => exact inactive_exec alnum st c id h
  | mint now user tok => exact h
  | mk a b c => exact inactive_createUser alnum st a b c id h
  | setPerm a b p => exact inactive_setPermission st a b p id h
  | dropPerm a b => exact inactive_dropPermission st a b id h
  | revKey a => exact inactive_revokeKey st a id h

theorem inactive_applyLater (alnum : Char → Bool) (cfg : Cfg) (id : Str) : ∀ (ls : List Later) (st : State),
    Inactive st id → Inactive (applyLater alnum cfg st ls) id := by
  intro ls
  induction ls with
  | nil => intro st h; exact h
  | cons l ls ih => intro st h; exact ih _ (inactive_applyOne alnum cfg st l id h)

theorem revokeKey_inactive (st st' : State) (id : Str) (h : revokeKey st id = (.ok, st')) :
    Inactive st' id := by
  unfold revokeKey at h
  cases hf : findUser st id with
  | none => simp [hf] at h
  | some w =>
    simp only [hf, Prod.mk.injEq, true_and] at h
    subst h
    have hwid := (findUser_some hf).2
    refine ⟨{ w with active := false }, ?_, rfl⟩
    have := find_putUser_same st.users { w with active := false }
    simpa [hwid] using this

theorem gate_rejects_inactive (mac : Str → Str → Str) (cfg : Cfg) (st : State) (id : Str)
    (hcfg : cfg.bypass = false ∧ cfg.hasManager = true) (hin : Inactive st id) :
    ∀ conn now line cmd,
      gate mac cfg st conn now line ≠ .pass cmd id ∧ gate mac cfg st conn now line ≠ .authOk id := by
  intro conn now line cmd
  obtain ⟨w, hw, hwa⟩ := hin
  have hw' : findUser st id = some w := hw
  constructor
  · intro h
    rcases gate_sound mac cfg st conn now line cmd id h with h1 | h1 | h1 | h1
    · rw [hcfg.1] at h1; exact absurd h1.1 (by simp)
    · rw [hcfg.2] at h1; exact absurd h1.1 (by simp)
    · obtain ⟨u, sig, hu, ha, _⟩ := h1
      rw [hw'] at hu; cases hu; rw [hwa] at ha; cases ha
    · obtain ⟨s, u, b, a, _, _, _, hu, ha, _⟩ := h1
      rw [hw'] at hu; cases hu; rw [hwa] at ha; cases ha
  · intro h
    obtain ⟨_, _, u, hu, ha, _⟩ := gate_auth_sound mac cfg st conn now line id h
    rw [hw'] at hu; cases hu; rw [hwa] at ha; cases ha

theorem revoked_key_never_accepted (mac : Str → Str → Str) (alnum : Char → Bool) (cfg : Cfg)
    (st st' : State) (id : Str) (later : List Later)
    (hcfg : cfg.bypass = false ∧ cfg.hasManager = true)
    (hrev : revokeKey st id = (.ok, st')) :
    ∀ conn now line cmd,
      gate mac cfg (applyLater alnum cfg st' later) conn now line ≠ .pass cmd id ∧
      gate mac cfg (applyLater alnum cfg st' later) conn now line ≠ .authOk id :=
  gate_rejects_inactive mac cfg _ id hcfg
    (inactive_applyLater alnum cfg id later st' (revokeKey_inactive st st' id hrev))

theorem revokeKey_sessions (st st' : State) (id : Str)
    (hrev : revokeKey st id = (.ok, st')) : ∀ s ∈ st'.sessions, s.user ≠ id := by
  unfold revokeKey at hrev
  cases hf : findUser st id with
  | none => simp [hf] at hrev
  | some w =>
    simp only [hf, Prod.mk.injEq, true_and] at hrev
    subst hrev
    intro s hs
    simp only [List.mem_filter] at hs
    simpa using hs.2

/-! ### permission revocation through the REVOKE handler -/

theorem findPerm_putPerm_same (ps : List (Str × Perm)) (et : Str) (p : Perm) :
    findPerm (putPerm ps et p) et = some p := by
  unfold findPerm
  induction ps with
  | nil => simp [putPerm]
  | cons x xs ih =>
    by_cases hx : x.1 = et
    · simp [putPerm, hx]
    · simp only [putPerm, beq_iff_eq, hx, ↓reduceIte]
      rw [List.find?_cons_of_neg (by simpa using hx)]
      exact ih

/-- The user record after one REVOKE iteration. -/
def revokedUser (u : User) (et : Str) (rr rw : Bool) : User :=
  { u with perms := putPerm u.perms et (Perm.mk (((findPerm u.perms et).getD (Perm.mk false false)).read && !rr) (((findPerm u.perms et).getD (Perm.mk false false)).write && !rw)) }

/-- The state after one REVOKE iteration for an existing user. -/
theorem revokeOne_state (st : State) (rr rw : Bool) (id et : Str) (u : User)
    (hu : findUser st id = some u) :
    (revokeLoop st rr rw id [et]).2.users = putUser st.users (revokedUser u et rr rw) := by
  simp [revokeLoop, revokeOne, setPermission, existingPerm, hu, revokedUser]

theorem findUser_after_put (st : State) (id : Str) (u v : User) (hu : findUser st id = some u)
    (hv : v.id = u.id) (st' : State) (hst : st'.users = putUser st.users v) :
    findUser st' id = some v := by
  unfold findUser
  rw [hst]
  have hid := (findUser_some hu).2
  have := find_putUser_same st.users v
  rw [hv, hid] at this
  exact this

theorem checkId_forbidden (id : Str) (right : Str → Bool) (hby : id ≠ bypassUserId)
    (hr : right id = false) : checkId (some id) right = .forbidden := by
  simp [checkId, hby, hr]

theorem revoke_all_forbids (st : State) (id et : Str) (tail : List Str) (ok : Bool)
    (hex : (findUser st id).isSome = true) (hna : isAdmin st id = false) (hby : id ≠ bypassUserId) :
    let st' := (revokeLoop st true true id [et]).2
    authorize st' true (some id) (.query et tail) = .forbidden ∧
    authorize st' true (some id) (.store et ok) = .forbidden := by
  intro st'
  cases hu : findUser st id with
  | none => simp [hu] at hex
  | some u =>
    have hadm : hasRole u adminRoles = false := by simpa [isAdmin, hu] using hna
    have hf : findUser st' id = some (revokedUser u et true true) :=
      findUser_after_put st id u (revokedUser u et true true) hu rfl st' (revokeOne_state st true true id et u hu)
    have hadm' : hasRole (revokedUser u et true true) adminRoles = false := hadm
    have hp : findPerm (revokedUser u et true true).perms et = some ⟨false, false⟩ := by
      simp [revokedUser, findPerm_putPerm_same]
    have hR : canRead st' id et = false := by
      simp [canRead, hf, hadm', hp]
    have hW : canWrite st' id et = false := by
      simp [canWrite, hf, hadm', hp]
    rw [authorize_query, authorize_store]
    exact ⟨checkId_forbidden id _ hby (by simp [hR]), checkId_forbidden id _ hby hW⟩

theorem revoke_single (st : State) (id et : Str) (tail : List Str) (ok : Bool)
    (hex : (findUser st id).isSome = true) (hna : isAdmin st id = false) (hby : id ≠ bypassUserId) :
    authorize (revokeLoop st false true id [et]).2 true (some id) (.store et ok) = .forbidden ∧
    (authorize (revokeLoop st true false id [et]).2 true (some id) (.query et tail) = .proceed →
      ∃ u, findUser st id = some u ∧ (hasRole u readOnlyRoles = true ∨ hasRole u editorRoles = true)) := by
  cases hu : findUser st id with
  | none => simp [hu] at hex
  | some u =>
    have hadm : hasRole u adminRoles = false := by simpa [isAdmin, hu] using hna
    constructor
    · have hf : findUser (revokeLoop st false true id [et]).2 id = some (revokedUser u et false true) :=
        findUser_after_put st id u (revokedUser u et false true) hu rfl _ (revokeOne_state st false true id et u hu)
      have hadm' : hasRole (revokedUser u et false true) adminRoles = false := hadm
      have hp : ∃ r, findPerm (revokedUser u et false true).perms et = some ⟨r, false⟩ :=
        ⟨((findPerm u.perms et).getD (Perm.mk false false)).read, by simp [revokedUser, findPerm_putPerm_same]⟩
      obtain ⟨r, hp⟩ := hp
      have hW : canWrite (revokeLoop st false true id [et]).2 id et = false := by
        simp [canWrite, hf, hadm', hp]
      rw [authorize_store]
      exact checkId_forbidden id _ hby hW
    · intro h
      have hf : findUser (revokeLoop st true false id [et]).2 id = some (revokedUser u et true false) :=
        findUser_after_put st id u (revokedUser u et true false) hu rfl _ (revokeOne_state st true false id et u hu)
      have hadm' : hasRole (revokedUser u et true false) adminRoles = false := hadm
      have hp : ∃ w, findPerm (revokedUser u et true false).perms et = some ⟨false, w⟩ :=
        ⟨((findPerm u.perms et).getD (Perm.mk false false)).write, by simp [revokedUser, findPerm_putPerm_same]⟩
      obtain ⟨w, hp⟩ := hp
      have hro : hasRole (revokedUser u et true false) readOnlyRoles = hasRole u readOnlyRoles := rfl
      have hed : hasRole (revokedUser u et true false) editorRoles = hasRole u editorRoles := rfl
      rw [authorize_query] at h
      obtain ⟨x, hx, hr⟩ := checkId_proceed h
      cases hx
      rcases hr with hb | hr
      · exact absurd hb hby
      · refine ⟨u, rfl, ?_⟩
        simp only [Bool.and_eq_true] at hr
        have hr := hr.1
        simp only [canRead, hf, hadm', hp, hro, hed] at hr
        cases h1 : hasRole u readOnlyRoles <;> cases h2 : hasRole u editorRoles <;> simp_all

/-! ### an explicit denial stays until somebody grants again -/

def DeniedL (us : List User) (id et : Str) : Prop :=
  ∃ u, us.find? (fun x => x.id == id) = some u ∧ hasRole u adminRoles = false ∧
    findPerm u.perms et = some ⟨false, false⟩

def Denied (st : State) (id et : Str) : Prop := DeniedL st.users id et

theorem findPerm_putPerm_other (ps : List (Str × Perm)) (et' et : Str) (p : Perm) (hne : et' ≠ et) :
    findPerm (putPerm ps et' p) et = findPerm ps et := by
  unfold findPerm
  congr 1
  have hne' : (et' == et) = false := by simpa using hne
  induction ps with
  | nil => simp only [putPerm]; rw [List.find?_cons_of_neg (by simpa using hne)]
  | cons x xs ih =>
    by_cases hx : (x.1 == et') = true
    · have hx' : x.1 = et' := by simpa using hx
      have hxe : (x.1 == et) = false := by rw [hx']; exact hne'
      simp only [putPerm, hx, ↓reduceIte]
      rw [List.find?_cons_of_neg (by simpa using hne), List.find?_cons_of_neg (by simp [hxe])]
    · have hx' : (x.1 == et') = false := by simpa using hx
      simp only [putPerm, hx', Bool.false_eq_true, ↓reduceIte]
      by_cases hy : (x.1 == et) = true
      · rw [List.find?_cons_of_pos (by exact hy), List.find?_cons_of_pos (by exact hy)]
      · rw [List.find?_cons_of_neg (by simpa using hy), List.find?_cons_of_neg (by simpa using hy)]
        exact ih

theorem findPerm_filter_other (ps : List (Str × Perm)) (et' et : Str) (hne : et' ≠ et) :
    findPerm (ps.filter (fun p => !(p.1 == et'))) et = findPerm ps et := by
  unfold findPerm
  congr 1
  have hne' : (et' == et) = false := by simpa using hne
  induction ps with
  | nil => rfl
  | cons x xs ih =>
    by_cases hx : (x.1 == et') = true
    · have hx' : x.1 = et' := by simpa using hx
      have hxe : (x.1 == et) = false := by rw [hx']; exact hne'
      rw [List.filter_cons_of_neg (by simp [hx]), List.find?_cons_of_neg (by simp [hxe])]
      exact ih
    · have hx' : (x.1 == et') = false := by simpa using hx
      rw [List.filter_cons_of_pos (by simp [hx'])]
      by_cases hy : (x.1 == et) = true
      · rw [List.find?_cons_of_pos (by exact hy), List.find?_cons_of_pos (by exact hy)]
      · rw [List.find?_cons_of_neg (by simpa using hy), List.find?_cons_of_neg (by simpa using hy)]
        exact ih

theorem deniedL_put (us : List User) (v w : User) (id et : Str)
    (hw : us.find? (fun x => x.id == v.id) = some w)
    (hroles : v.roles = w.roles)
    (hkeep : v.id = id → findPerm w.perms et = some ⟨false, false⟩ → findPerm v.perms et = some ⟨false, false⟩)
    (h : DeniedL us id et) : DeniedL (putUser us v) id et := by
  obtain ⟨u, hu, ha, hp⟩ := h
  by_cases hid : id = v.id
  · subst hid
    rw [hu] at hw
    cases hw
    refine ⟨v, find_putUser_same us v, ?_, hkeep rfl hp⟩
    unfold hasRole at ha ⊢
    rw [hroles]; exact ha
  · exact ⟨u, by rw [find_putUser_other us v id hid]; exact hu, ha, hp⟩

theorem deniedL_put_new (us : List User) (v : User) (id et : Str)
    (hnew : us.find? (fun x => x.id == v.id) = none) (h : DeniedL us id et) :
    DeniedL (putUser us v) id et := by
  obtain ⟨u, hu, ha, hp⟩ := h
  have hid : id ≠ v.id := by
    intro e; subst e; rw [hu] at hnew; cases hnew
  exact ⟨u, by rw [find_putUser_other us v id hid]; exact hu, ha, hp⟩

theorem denied_createUser (alnum : Char → Bool) (st : State) (id' key : Str) (roles : List Str) (id et : Str)
    (h : Denied st id et) : Denied (createUser alnum st id' key roles).2 id et := by
  unfold createUser
  split
  · exact h
  · exact h
  · split
    · exact h
    · cases hf : findUser st id' with
      | some x => simp only [hf]; exact h
      | none =>
        simp only [hf]
        exact deniedL_put_new st.users _ id et (by simpa [findUser] using hf) h

theorem denied_revokeKey (st : State) (id' id et : Str) (h : Denied st id et) :
    Denied (revokeKey st id').2 id et := by
  unfold revokeKey
  cases hf : findUser st id' with
  | none => simp only [hf]; exact h
  | some w =>
    simp only [hf]
    have hwid := (findUser_some hf).2
    refine deniedL_put st.users _ w id et ?_ rfl (fun _ hp => hp) h
    show st.users.find? (fun x => x.id == w.id) = some w
    rw [hwid]; exact hf

theorem denied_setPermission (st : State) (id' et' : Str) (p : Perm) (id et : Str)
    (hok : ¬ (id' = id ∧ et' = et) ∨ p = ⟨false, false⟩) (h : Denied st id et) :
    Denied (setPermission st id' et' p).2 id et := by
  unfold setPermission
  cases hf : findUser st id' with
  | none => simp only [hf]; exact h
  | some w =>
    simp only [hf]
    have hwid := (findUser_some hf).2
    refine deniedL_put st.users _ w id et ?_ rfl ?_ h
    · show st.users.find? (fun x => x.id == w.id) = some w
      rw [hwid]; exact hf
    · intro hvid hp
      have hvid' : id' = id := by rw [← hwid]; exact hvid
      by_cases he : et' = et
      · rcases hok with hno | hpp
        · exact absurd ⟨hvid', he⟩ hno
        · subst he; rw [hpp]; exact findPerm_putPerm_same _ _ _
      · show findPerm (putPerm w.perms et' p) et = _
        rw [findPerm_putPerm_other _ _ _ _ he]; exact hp

theorem denied_dropPermission (st : State) (id' et' : Str) (id et : Str)
    (hok : ¬ (id' = id ∧ et' = et)) (h : Denied st id et) :
    Denied (dropPermission st id' et').2 id et := by
  unfold dropPermission
  cases hf : findUser st id' with
  | none => simp only [hf]; exact h
  | some w =>
    simp only [hf]
    have hwid := (findUser_some hf).2
    refine deniedL_put st.users _ w id et ?_ rfl ?_ h
    · show st.users.find? (fun x => x.id == w.id) = some w
      rw [hwid]; exact hf
    · intro hvid hp
      have hvid' : id' = id := by rw [← hwid]; exact hvid
      have he : et' ≠ et := fun he => hok ⟨hvid', he⟩
      show findPerm (w.perms.filter (fun p => !(p.1 == et'))) et = _
      rw [findPerm_filter_other _ _ _ he]; exact hp

theorem existingPerm_denied (st : State) (id et : Str) (h : Denied st id et) :
    existingPerm st id et = ⟨false, false⟩ := by
  obtain ⟨u, hu, _, hp⟩ := h
  have : findUser st id = some u := hu
  simp [existingPerm, this, hp]

theorem denied_grantLoop (want : Perm) (user id et : Str) : ∀ (ets : List Str) (st : State),
    (user = id → et ∉ ets) → Denied st id et → Denied (grantLoop st want user ets).2 id et := by
  intro ets
  induction ets with
  | nil => intro st _ h; exact h
  | cons e ets ih =>
    intro st hno h
    have hone : Denied (grantOne st want user e).2 id et := by
      refine denied_setPermission st user e _ id et (Or.inl ?_) h
      rintro ⟨hu, he⟩
      exact hno hu (by simp [he])
    have hno' : user = id → et ∉ ets := fun hu hm => hno hu (by simp [hm])
    unfold grantLoop
    split
    · exact h
    · cases hsp : grantOne st want user e with
      | mk r st' =>
        rw [hsp] at hone
        cases r <;> first | exact ih st' hno' hone | exact hone

theorem denied_revokeLoop (rr rw : Bool) (user id et : Str) : ∀ (ets : List Str) (st : State),
    Denied st id et → Denied (revokeLoop st rr rw user ets).2 id et := by
  intro ets
  induction ets with
  | nil => intro st h; exact h
  | cons e ets ih =>
    intro st h
    have hone : Denied (revokeOne st rr rw user e).2 id et := by
      by_cases hue : user = id ∧ e = et
      · obtain ⟨hu, he⟩ := hue
        subst hu; subst he
        refine denied_setPermission st user e _ user e (Or.inr ?_) h
        rw [existingPerm_denied st user e h]
        simp
      · exact denied_setPermission st user e _ id et (Or.inl hue) h
    unfold revokeLoop
    cases hsp : revokeOne st rr rw user e with
    | mk r st' =>
      rw [hsp] at hone
      cases r <;> first | exact ih st' hone | exact hone

theorem denied_exec (alnum : Char → Bool) (st : State) (c : Cmd) (id et : Str)
    (hno : regrants id et (.cmd c) = false) (h : Denied st id et) :
    Denied (exec alnum st c).2 id et := by
  by_cases hc : (match c with | .createUser .. | .revokeKey _ | .grant .. | .revoke .. => False | _ => True)
  · show DeniedL _ id et
    rw [(exec_users_simple alnum st c hc).1]
    exact h
  · cases c <;> simp only [not_true_eq_false, not_false_eq_true] at hc
    · rename_i a b c
      have := denied_createUser alnum st a b c id et h
      simp only [exec]
      cases hsp : createUser alnum st a b c with
      | mk r st' => rw [hsp] at this; cases r <;> exact this
    · rename_i a
      have := denied_revokeKey st a id et h
      simp only [exec]
      cases hsp : revokeKey st a with
      | mk r st' => rw [hsp] at this; cases r <;> exact this
    · rename_i ps ets u
      simp only [exec]
      split
      · exact h
      · refine denied_grantLoop _ u id et ets st ?_ h
        intro hu hm
        subst hu
        simp [regrants, hm] at hno
    · rename_i ps ets u
      exact denied_revokeLoop _ _ u id et ets st h

theorem denied_applyOne (alnum : Char → Bool) (cfg : Cfg) (st : State) (l : Later) (id et : Str)
    (hno : regrants id et l = false) (h : Denied st id et) : Denied (applyOne alnum cfg st l) id et := by
  cases l with
  | cmd c => exact denied_exec alnum st c id et hno h
  | mint now user tok => exact h
  | mk a b c => exact denied_createUser alnum st a b c id et h
  | setPerm a b p =>
    refine denied_setPermission st a b p id et (Or.inl ?_) h
    rintro ⟨h1, h2⟩; subst h1; subst h2; simp [regrants] at hno
  | dropPerm a b =>
    refine denied_dropPermission st a b id et ?_ h
    rintro ⟨h1, h2⟩; subst h1; subst h2; simp [regrants] at hno
  | revKey a => exact denied_revokeKey st a id et h

theorem denied_applyLater (alnum : Char → Bool) (cfg : Cfg) (id et : Str) : ∀ (ls : List Later) (st : State),
    (∀ l ∈ ls, regrants id et l = false) → Denied st id et → Denied (applyLater alnum cfg st ls) id et := by
  intro ls
  induction ls with
  | nil => intro st _ h; exact h
  | cons l ls ih =>
    intro st hno h
    exact ih _ (fun x hx => hno x (by simp [hx])) (denied_applyOne alnum cfg st l id et (hno l (by simp)) h)

theorem denied_forbids (st : State) (id et : Str) (tail : List Str) (ok : Bool)
    (hby : id ≠ bypassUserId) (h : Denied st id et) :
    authorize st true (some id) (.query et tail) = .forbidden ∧
    authorize st true (some id) (.store et ok) = .forbidden := by
  obtain ⟨u, hu, ha, hp⟩ := h
  have hf : findUser st id = some u := hu
  have hR : canRead st id et = false := by simp [canRead, hf, ha, hp]
  have hW : canWrite st id et = false := by simp [canWrite, hf, ha, hp]
  rw [authorize_query, authorize_store]
  exact ⟨checkId_forbidden id _ hby (by simp [hR]), checkId_forbidden id _ hby hW⟩

theorem revoke_all_denied (st : State) (id et : Str)
    (hex : (findUser st id).isSome = true) (hna : isAdmin st id = false) :
    Denied (revokeLoop st true true id [et]).2 id et := by
  cases hu : findUser st id with
  | none => simp [hu] at hex
  | some u =>
    have hadm : hasRole u adminRoles = false := by simpa [isAdmin, hu] using hna
    have hf : findUser (revokeLoop st true true id [et]).2 id = some (revokedUser u et true true) :=
      findUser_after_put st id u (revokedUser u et true true) hu rfl _ (revokeOne_state st true true id et u hu)
    exact ⟨_, hf, hadm, by simp [revokedUser, findPerm_putPerm_same]⟩

theorem revoked_permission_stays (alnum : Char → Bool) (cfg : Cfg) (st : State) (id et : Str)
    (later : List Later) (tail : List Str) (ok : Bool)
    (hex : (findUser st id).isSome = true) (hna : isAdmin st id = false) (hby : id ≠ bypassUserId)
    (hno : ∀ l ∈ later, regrants id et l = false) :
    authorize (applyLater alnum cfg (revokeLoop st true true id [et]).2 later) true (some id) (.query et tail) = .forbidden ∧
    authorize (applyLater alnum cfg (revokeLoop st true true id [et]).2 later) true (some id) (.store et ok) = .forbidden :=
  denied_forbids _ id et tail ok hby
    (denied_applyLater alnum cfg id et later _ hno (revoke_all_denied st id et hex hna))

/-! ### no account named `bypass` is ever created -/

theorem validate_ok_not_bypass (alnum : Char → Bool) (id : Str) (h : validateUserId alnum id = .ok) :
    id ≠ bypassUserId := by
  intro e
  subst e
  have hres : bypassUserId ∈ reservedIds := by decide
  have hne : bypassUserId.isEmpty = false := by decide
  simp [validateUserId, hres, hne] at h

theorem noBypass_put (st : State) (v : User) (hv : v.id ≠ bypassUserId) (st' : State)
    (hst : st'.users = putUser st.users v) (h : NoBypassAccount st) : NoBypassAccount st' := by
  unfold NoBypassAccount findUser at h ⊢
  rw [hst, find_putUser_other st.users v bypassUserId (fun e => hv e.symm)]
  exact h

theorem found_not_bypass {st : State} {id : Str} {w : User} (h : NoBypassAccount st)
    (hf : findUser st id = some w) : w.id ≠ bypassUserId := by
  intro e
  have hid := (findUser_some hf).2
  rw [e] at hid
  rw [← hid] at hf
  unfold NoBypassAccount at h
  rw [h] at hf
  cases hf

theorem noBypass_createUser (alnum : Char → Bool) (st : State) (id key : Str) (roles : List Str)
    (h : NoBypassAccount st) : NoBypassAccount (createUser alnum st id key roles).2 := by
  unfold createUser
  cases hv : validateUserId alnum id with
  | invalid => exact h
  | tooLong => exact h
  | ok =>
    simp only
    split
    · exact h
    · cases hf : findUser st id with
      | some x => exact h
      | none =>
        simp only
        exact noBypass_put st ⟨id, key, true, roles, []⟩ (validate_ok_not_bypass alnum id hv) _ rfl h

theorem noBypass_revokeKey (st : State) (id : Str) (h : NoBypassAccount st) :
    NoBypassAccount (revokeKey st id).2 := by
  unfold revokeKey
  cases hf : findUser st id with
  | none => exact h
  | some w =>
    simp only
    exact noBypass_put st { w with active := false } (show w.id ≠ bypassUserId from found_not_bypass h hf) _ rfl h

theorem noBypass_setPermission (st : State) (id et : Str) (p : Perm) (h : NoBypassAccount st) :
    NoBypassAccount (setPermission st id et p).2 := by
  unfold setPermission
  cases hf : findUser st id with
  | none => exact h
  | some w =>
    simp only
    exact noBypass_put st { w with perms := putPerm w.perms et p } (show w.id ≠ bypassUserId from found_not_bypass h hf) _ rfl h

theorem noBypass_dropPermission (st : State) (id et : Str) (h : NoBypassAccount st) :
    NoBypassAccount (dropPermission st id et).2 := by
  unfold dropPermission
  cases hf : findUser st id with
  | none => exact h
  | some w =>
    simp only
    exact noBypass_put st { w with perms := w.perms.filter (fun p => !(p.1 == et)) } (show w.id ≠ bypassUserId from found_not_bypass h hf) _ rfl h

theorem noBypass_grantLoop (want : Perm) (user : Str) : ∀ (ets : List Str) (st : State),
    NoBypassAccount st → NoBypassAccount (grantLoop st want user ets).2 := by
  intro ets
  induction ets with
  | nil => intro st h; exact h
  | cons e ets ih =>
    intro st h
    have hone : NoBypassAccount (grantOne st want user e).2 := noBypass_setPermission st user e _ h
    unfold grantLoop
    split
    · exact h
    · cases hsp : grantOne st want user e with
      | mk r st' =>
        rw [hsp] at hone
        cases r <;> first | exact ih st' hone | exact hone

theorem noBypass_revokeLoop (rr rw : Bool) (user : Str) : ∀ (ets : List Str) (st : State),
    NoBypassAccount st → NoBypassAccount (revokeLoop st rr rw user ets).2 := by
  intro ets
  induction ets with
  | nil => intro st h; exact h
  | cons e ets ih =>
    intro st h
    have hone : NoBypassAccount (revokeOne st rr rw user e).2 := noBypass_setPermission st user e _ h
    unfold revokeLoop
    cases hsp : revokeOne st rr rw user e with
    | mk r st' =>
      rw [hsp] at hone
      cases r <;> first | exact ih st' hone | exact hone

theorem noBypass_exec (alnum : Char → Bool) (st : State) (c : Cmd) (h : NoBypassAccount st) :
    NoBypassAccount (exec alnum st c).2 := by
  by_cases hc : (match c with | .createUser .. | .revokeKey _ | .grant .. | .revoke .. => False | _ => True)
  · unfold NoBypassAccount findUser at h ⊢
    rw [(exec_users_simple alnum st c hc).1]
    exact h
  · cases c <;> simp only [not_true_eq_false, not_false_eq_true] at hc
    · rename_i a b c
      have := noBypass_createUser alnum st a b c h
      simp only [exec]
      cases hsp : createUser alnum st a b c with
      | mk r st' => rw [hsp] at this; cases r <;> exact this
    · rename_i a
      have := noBypass_revokeKey st a h
      simp only [exec]
      cases hsp : revokeKey st a with
      | mk r st' => rw [hsp] at this; cases r <;> exact this
    · rename_i ps ets u
      simp only [exec]
      split
      · exact h
      · exact noBypass_grantLoop _ u ets st h
    · rename_i ps ets u
      exact noBypass_revokeLoop _ _ u ets st h

theorem noBypass_applyOne (alnum : Char → Bool) (cfg : Cfg) (st : State) (l : Later)
    (h : NoBypassAccount st) : NoBypassAccount (applyOne alnum cfg st l) := by
  cases l with
  | cmd c => exact noBypass_exec alnum st c h
  | mint now user tok => exact h
  | mk a b c => exact noBypass_createUser alnum st a b c h
  | setPerm a b p => exact noBypass_setPermission st a b p h
  | dropPerm a b => exact noBypass_dropPermission st a b h
  | revKey a => exact noBypass_revokeKey st a h

theorem noBypass_applyLater (alnum : Char → Bool) (cfg : Cfg) : ∀ (ls : List Later) (st : State),
    NoBypassAccount st → NoBypassAccount (applyLater alnum cfg st ls) := by
  intro ls
  induction ls with
  | nil => intro st h; exact h
  | cons l ls ih => intro st h; exact ih _ (noBypass_applyOne alnum cfg st l h)

theorem noBypass_empty : NoBypassAccount State.empty := rfl

/-- An identity that names an account of a state without a `bypass` account is not `bypass`. -/
theorem account_not_bypass {st : State} {uid : Option Str} (h : NoBypassAccount st)
    (hacc : ∀ u, uid = some u → (findUser st u).isSome = true) : uid ≠ some bypassUserId := by
  intro e
  have := hacc bypassUserId e
  unfold NoBypassAccount at h
  rw [h] at this
  cases this

/-! ### a reload from the auth WAL reproduces the caches -/

theorem loadUsers_append (wal : List User) (v : User) :
    loadUsers (wal ++ [v]) = putUser (loadUsers wal) v := by
  simp [loadUsers, List.foldl_append]

theorem walSync_put (st st' : State) (v : User) (hu : st'.users = putUser st.users v)
    (hw : st'.wal = st.wal ++ [v]) (h : WalInSync st) : WalInSync st' := by
  unfold WalInSync at h ⊢
  rw [hu, hw, loadUsers_append, h]

theorem walSync_createUser (alnum : Char → Bool) (st : State) (id key : Str) (roles : List Str)
    (h : WalInSync st) : WalInSync (createUser alnum st id key roles).2 := by
  unfold createUser
  cases hv : validateUserId alnum id with
  | invalid => exact h
  | tooLong => exact h
  | ok =>
    simp only
    split
    · exact h
    · cases hf : findUser st id with
      | some x => exact h
      | none => simp only; exact walSync_put st _ ⟨id, key, true, roles, []⟩ rfl rfl h

theorem walSync_revokeKey (st : State) (id : Str) (h : WalInSync st) : WalInSync (revokeKey st id).2 := by
  unfold revokeKey
  cases hf : findUser st id with
  | none => exact h
  | some w => simp only; exact walSync_put st _ { w with active := false } rfl rfl h

theorem walSync_setPermission (st : State) (id et : Str) (p : Perm) (h : WalInSync st) :
    WalInSync (setPermission st id et p).2 := by
  unfold setPermission
  cases hf : findUser st id with
  | none => exact h
  | some w => simp only; exact walSync_put st _ { w with perms := putPerm w.perms et p } rfl rfl h

theorem walSync_dropPermission (st : State) (id et : Str) (h : WalInSync st) :
    WalInSync (dropPermission st id et).2 := by
  unfold dropPermission
  cases hf : findUser st id with
  | none => exact h
  | some w =>
    simp only
    exact walSync_put st _ { w with perms := w.perms.filter (fun p => !(p.1 == et)) } rfl rfl h

theorem walSync_grantLoop (want : Perm) (user : Str) : ∀ (ets : List Str) (st : State),
    WalInSync st → WalInSync (grantLoop st want user ets).2 := by
  intro ets
  induction ets with
  | nil => intro st h; exact h
  | cons e ets ih =>
    intro st h
    have hone : WalInSync (grantOne st want user e).2 := walSync_setPermission st user e _ h
    unfold grantLoop
    split
    · exact h
    · cases hsp : grantOne st want user e with
      | mk r st' =>
        rw [hsp] at hone
        cases r <;> first | exact ih st' hone | exact hone

theorem walSync_revokeLoop (rr rw : Bool) (user : Str) : ∀ (ets : List Str) (st : State),
    WalInSync st → WalInSync (revokeLoop st rr rw user ets).2 := by
  intro ets
  induction ets with
  | nil => intro st h; exact h
  | cons e ets ih =>
    intro st h
    have hone : WalInSync (revokeOne st rr rw user e).2 := walSync_setPermission st user e _ h
    unfold revokeLoop
    cases hsp : revokeOne st rr rw user e with
    | mk r st' =>
      rw [hsp] at hone
      cases r <;> first | exact ih st' hone | exact hone

/-- Commands other than user / permission management write nothing to the auth WAL. -/
theorem exec_wal_simple (alnum : Char → Bool) (st : State) (c : Cmd)
    (hc : match c with | .createUser .. | .revokeKey _ | .grant .. | .revoke .. => False | _ => True) :
    (exec alnum st c).2.wal = st.wal := by
  cases c <;> simp only at hc <;> (simp only [exec]; repeat (first | rfl | trivial | split))

theorem walSync_exec (alnum : Char → Bool) (st : State) (c : Cmd) (h : WalInSync st) :
    WalInSync (exec alnum st c).2 := by
  by_cases hc : (match c with | .createUser .. | .revokeKey _ | .grant .. | .revoke .. => False | _ => True)
  · unfold WalInSync at h ⊢
    rw [(exec_users_simple alnum st c hc).1, exec_wal_simple alnum st c hc]
    exact h
  · cases c <;> simp only [not_true_eq_false, not_false_eq_true] at hc
    · rename_i a b c
      have := walSync_createUser alnum st a b c h
      simp only [exec]
      cases hsp : createUser alnum st a b c with
      | mk r st' => rw [hsp] at this; cases r <;> exact this
    · rename_i a
      have := walSync_revokeKey st a h
      simp only [exec]
      cases hsp : revokeKey st a with
      | mk r st' => rw [hsp] at this; cases r <;> exact this
    · rename_i ps ets u
      simp only [exec]
      split
      · exact h
      · exact walSync_grantLoop _ u ets st h
    · rename_i ps ets u
      exact walSync_revokeLoop _ _ u ets st h

theorem walSync_applyOne (alnum : Char → Bool) (cfg : Cfg) (st : State) (l : Later)
    (h : WalInSync st) : WalInSync (applyOne alnum cfg st l) := by
  cases l with
  | cmd c => exact walSync_exec alnum st c h
  | mint now user tok => exact h
  | mk a b c => exact walSync_createUser alnum st a b c h
  | setPerm a b p => exact walSync_setPermission st a b p h
  | dropPerm a b => exact walSync_dropPermission st a b h
  | revKey a => exact walSync_revokeKey st a h

theorem walSync_applyLater (alnum : Char → Bool) (cfg : Cfg) : ∀ (ls : List Later) (st : State),
    WalInSync st → WalInSync (applyLater alnum cfg st ls) := by
  intro ls
  induction ls with
  | nil => intro st h; exact h
  | cons l ls ih => intro st h; exact ih _ (walSync_applyOne alnum cfg st l h)

theorem walSync_empty : WalInSync State.empty := rfl

theorem applyLater_append (alnum : Char → Bool) (cfg : Cfg) : ∀ (a b : List Later) (st : State),
    applyLater alnum cfg st (a ++ b) = applyLater alnum cfg (applyLater alnum cfg st a) b := by
  intro a
  induction a with
  | nil => intro b st; rfl
  | cons l ls ih => intro b st; simp only [List.cons_append, applyLater]; exact ih b _

/-- With the caches in sync, a reload changes nothing but the session table. -/
theorem reload_eq (st : State) (h : WalInSync st) : reload st = { st with sessions := [] } := by
  unfold reload
  unfold WalInSync at h
  rw [← h]

theorem authorize_sessions (st : State) (ss : List Session) (mgr : Bool) (uid : Option Str) (c : Cmd) :
    authorize { st with sessions := ss } mgr uid c = authorize st mgr uid c := rfl

theorem verify_sessions (mac : Str → Str → Str) (st : State) (ss : List Session) (msg user sig : Str) :
    verify mac { st with sessions := ss } msg user sig = verify mac st msg user sig := rfl

/-! ### hex tokens and payload text -/

theorem isHex_brace : isHex '}' = false := by decide

theorem tokenBranch_none_of_brace (st : State) (now : Nat) (t : Str)
    (hhex : TokensHex st) (hend : t.reverse.head? = some '}') : tokenBranch st now t = none := by
  cases ht : tokenBranch st now t with
  | none => rfl
  | some r =>
    exfalso
    obtain ⟨before, after, user, _, htt, hv⟩ := tokenBranch_spec ht
    obtain ⟨s, u, hs, htok, _⟩ := validateToken_spec hv
    have hafter : after.reverse.head? = some '}' := by
      rw [htt] at hend
      simp only [List.reverse_append] at hend
      cases ha : after.reverse with
      | nil =>
        rw [ha] at hend
        have : tokenMarker.reverse.head? = some ' ' := by decide
        simp only [List.nil_append, List.head?_append, this] at hend
        simp at hend
      | cons x xs =>
        rw [ha] at hend
        simpa using hend
    have hlast := trim_last '}' (by decide) after hafter
    have hmem : '}' ∈ trim after := by
      cases hr : (trim after).reverse with
      | nil => rw [hr] at hlast; simp at hlast
      | cons x xs =>
        rw [hr] at hlast
        simp at hlast
        subst hlast
        have : '}' ∈ (trim after).reverse := by rw [hr]; simp
        simpa using this
    have := hhex s hs '}' (by rw [htok]; exact hmem)
    rw [isHex_brace] at this
    cases this

theorem payload_no_token (mac : Str → Str → Str) (cfg : Cfg) (st : State)
    (conn : Option Str) (now : Nat) (line : Str)
    (hhex : TokensHex st) (hend : (trim line).reverse.head? = some '}') :
    gate mac cfg st conn now line = gateNoToken mac cfg st conn line := by
  unfold gate gateNoToken
  simp only [tokenBranch_none_of_brace st now (trim line) hhex hend]

theorem sessions_setPermission (st : State) (a b : Str) (p : Perm) :
    (setPermission st a b p).2.sessions = st.sessions := by
  unfold setPermission; split <;> rfl

theorem sessions_createUser (alnum : Char → Bool) (st : State) (a b : Str) (c : List Str) :
    (createUser alnum st a b c).2.sessions = st.sessions := by
  unfold createUser
  repeat (first | rfl | split)

theorem sessions_dropPermission (st : State) (a b : Str) :
    (dropPermission st a b).2.sessions = st.sessions := by
  unfold dropPermission; split <;> rfl

theorem sessions_revokeKey_sub (st : State) (a : Str) :
    ∀ s ∈ (revokeKey st a).2.sessions, s ∈ st.sessions := by
  unfold revokeKey
  split
  · intro s hs; exact hs
  · intro s hs
    simp only [List.mem_filter] at hs
    exact hs.1

theorem sessions_grantLoop (want : Perm) (user : Str) : ∀ (ets : List Str) (st : State),
    (grantLoop st want user ets).2.sessions = st.sessions := by
  intro ets
  induction ets with
  | nil => intro st; rfl
  | cons et ets ih =>
    intro st
    have hone : (grantOne st want user et).2.sessions = st.sessions := sessions_setPermission st user et _
    unfold grantLoop
    split
    · rfl
    · cases hsp : grantOne st want user et with
      | mk r st' =>
        rw [hsp] at hone
        cases r <;> first | (simp only []; rw [ih st']; exact hone) | exact hone

theorem sessions_revokeLoop (rr rw : Bool) (user : Str) : ∀ (ets : List Str) (st : State),
    (revokeLoop st rr rw user ets).2.sessions = st.sessions := by
  intro ets
  induction ets with
  | nil => intro st; rfl
  | cons et ets ih =>
    intro st
    have hone : (revokeOne st rr rw user et).2.sessions = st.sessions := sessions_setPermission st user et _
    unfold revokeLoop
    cases hsp : revokeOne st rr rw user et with
    | mk r st' =>
      rw [hsp] at hone
      cases r <;> first | (simp only []; rw [ih st']; exact hone) | exact hone

theorem sessions_exec_sub (alnum : Char → Bool) (st : State) (c : Cmd) :
    ∀ s ∈ (exec alnum st c).2.sessions, s ∈ st.sessions := by
  by_cases hc : (match c with | .createUser .. | .revokeKey _ | .grant .. | .revoke .. => False | _ => True)
  · rw [(exec_users_simple alnum st c hc).2]; exact fun s hs => hs
  · cases c <;> simp only [not_true_eq_false, not_false_eq_true] at hc
    · rename_i a b c
      have := sessions_createUser alnum st a b c
      simp only [exec]
      cases hsp : createUser alnum st a b c with
      | mk r st' => rw [hsp] at this; cases r <;> (intro s hs; rw [← this]; exact hs)
    · rename_i a
      have := sessions_revokeKey_sub st a
      simp only [exec]
      cases hsp : revokeKey st a with
      | mk r st' => rw [hsp] at this; cases r <;> exact this
    · rename_i ps ets u
      simp only [exec]
      split
      · exact fun s hs => hs
      · rw [sessions_grantLoop]; exact fun s hs => hs
    · rename_i ps ets u
      simp only [exec]
      rw [sessions_revokeLoop]; exact fun s hs => hs

theorem tokensHex_applyOne (alnum : Char → Bool) (cfg : Cfg) (st : State) (l : Later)
    (h : TokensHex st) (hl : LaterHex l) : TokensHex (applyOne alnum cfg st l) := by
  cases l with
  | cmd c => intro s hs; exact h s (sessions_exec_sub alnum st c s hs)
  | mint now user tok =>
    intro s hs
    simp only [applyOne, mintToken, List.mem_cons, List.mem_filter] at hs
    rcases hs with rfl | hs
    · exact hl
    · exact h s hs.1
  | mk a b c => intro s hs; exact h s (by simpa [applyOne, sessions_createUser] using hs)
  | setPerm a b p => intro s hs; exact h s (by simpa [applyOne, sessions_setPermission] using hs)
  | dropPerm a b => intro s hs; exact h s (by simpa [applyOne, sessions_dropPermission] using hs)
  | revKey a => intro s hs; exact h s (sessions_revokeKey_sub st a s hs)

theorem tokensHex_applyLater (alnum : Char → Bool) (cfg : Cfg) : ∀ (st : State) (later : List Later),
    TokensHex st → (∀ l ∈ later, LaterHex l) → TokensHex (applyLater alnum cfg st later) := by
  intro st later
  induction later generalizing st with
  | nil => intro h _; exact h
  | cons l ls ih =>
    intro h hl
    exact ih _ (tokensHex_applyOne alnum cfg st l h (hl l (by simp))) (fun x hx => hl x (by simp [hx]))

/-! ### gate + dispatcher -/

theorem dispatch_200 (alnum : Char → Bool) (st st' : State) (mgr : Bool) (uid : Option Str) (c : Cmd)
    (h : dispatch alnum st mgr uid c = (.s200, st')) : authorize st mgr uid c = .proceed := by
  unfold dispatch at h
  cases ha : authorize st mgr uid c with
  | proceed => rfl
  | crash => cases c <;> simp only [ha] at h <;> (try split at h) <;> simp at h
  | refused => cases c <;> simp only [ha] at h <;> (try split at h) <;> simp at h
  | unauthorized => cases c <;> simp only [ha] at h <;> (try split at h) <;> simp at h
  | forbidden => cases c <;> simp only [ha] at h <;> (try split at h) <;> simp at h
  | internal => cases c <;> simp only [ha] at h <;> (try split at h) <;> simp at h

/-! ### the other front ends -/

theorem other_gates_sound (mac : Str → Str → Str) (cfg : Cfg) (st : State) (line cmd user : Str)
    (hcfg : cfg.bypass = false ∧ cfg.hasManager = true) :
    (gateUnix mac cfg st line = .pass cmd user →
      ∃ u, findUser st user = some u ∧ u.active = true ∧
        trim line = user ++ ':' :: (mac u.key cmd ++ ':' :: cmd)) ∧
    (∀ hdr, gateHttp mac cfg st hdr line = .pass cmd user →
      ∃ u, findUser st user = some u ∧ u.active = true ∧
        ((∃ sig, hdr = some (user, sig) ∧ sig = mac u.key (trim line) ∧ cmd = line) ∨
         (hdr = none ∧ trim line = user ++ ':' :: (mac u.key cmd ++ ':' :: cmd)))) ∧
    (∀ conn now, gateWs mac cfg st conn now line = .pass cmd user →
      ∃ u, findUser st user = some u ∧ u.active = true) := by
  obtain ⟨hb, hm⟩ := hcfg
  refine ⟨?_, ?_, ?_⟩
  · intro h
    simp only [gateUnix, hb, hm, Bool.false_eq_true, ↓reduceIte, Bool.not_true] at h
    obtain ⟨u, sig, h1, h2, h3, h4⟩ := sigBranch_spec h
    rcases h4 with ⟨hc, _⟩ | ⟨_, ht⟩
    · cases hc
    · exact ⟨u, h1, h2, by rw [ht, h3]⟩
  · intro hdr h
    simp only [gateHttp, hb, hm, Bool.false_eq_true, ↓reduceIte, Bool.not_true] at h
    cases hdr with
    | some p =>
      obtain ⟨hu, hs⟩ := p
      simp only at h
      split at h
      · rename_i hv
        simp only [GateOut.pass.injEq] at h
        obtain ⟨hc, hx⟩ := h
        subst hx
        obtain ⟨u, h1, h2, h3⟩ := verify_spec hv
        exact ⟨u, h1, h2, Or.inl ⟨hs, rfl, h3, hc.symm⟩⟩
      · simp at h
    | none =>
      simp only at h
      obtain ⟨u, sig, h1, h2, h3, h4⟩ := sigBranch_spec h
      rcases h4 with ⟨hc, _⟩ | ⟨_, ht⟩
      · cases hc
      · exact ⟨u, h1, h2, Or.inr ⟨rfl, by rw [ht, h3]⟩⟩
  · intro conn now h
    simp only [gateWs, hm, ↓reduceIte] at h
    cases ht : tokenBranch st now (trim line) with
    | some r =>
      simp only [ht] at h
      obtain ⟨before, after, u', hr, _, hv⟩ := tokenBranch_spec ht
      rw [hr] at h
      simp only [GateOut.pass.injEq] at h
      obtain ⟨_, hx⟩ := h
      subst hx
      obtain ⟨s, u, _, _, _, _, h5, h6⟩ := validateToken_spec hv
      exact ⟨u, h5, h6⟩
    | none =>
      simp only [ht] at h
      rcases gate_sound mac cfg st conn now (trim line) cmd user h with h1 | h1 | h1 | h1
      · rw [hb] at h1; exact absurd h1.1 (by simp)
      · rw [hm] at h1; exact absurd h1.1 (by simp)
      · obtain ⟨u, _, h5, h6, _⟩ := h1
        exact ⟨u, h5, h6⟩
      · obtain ⟨_, u, _, _, _, _, _, h5, h6, _⟩ := h1
        exact ⟨u, h5, h6⟩

end Snel.Auth
