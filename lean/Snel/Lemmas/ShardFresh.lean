import Snel.Lemmas.ShardWal
/-!
C11: the flush worker never writes into a directory that already exists — in every history of
stores, flushes, single worker steps, crashes and restarts (no more than `levelSpan` rotations per
lifetime, so that level-0 ids stay below the level-1 range).
-/
namespace Snel.Shard

structure Fresh (s : Shard) : Prop where
  /-- every level-0 directory is below the allocator -/
  below : ∀ p ∈ s.segs, p.1 < levelSpan → p.1 < s.nextL0
  /-- a queued job that has not written yet has no directory -/
  unwritten : ∀ j ∈ s.jobs, j.step = 0 → ∀ p ∈ s.segs, p.1 ≠ j.seg
  /-- queued jobs have pairwise distinct ids -/
  distinct : (s.jobs.map (·.seg)).Nodup
  /-- queued job ids are level-0 ids -/
  small : ∀ j ∈ s.jobs, j.seg < levelSpan

def Small (s : Shard) : Prop := s.nextL0 < levelSpan

theorem init_fresh (cap k : Nat) : Fresh (Shard.init cap k) := by
  constructor <;> simp [Shard.init]

theorem rotate_fresh {s : Shard} (h : Inv s) (hf : Fresh s) (hs : Small s) : Fresh (rotate s) := by
  constructor
  · intro p hp hl
    have := hf.below p (by simpa [rotate] using hp) hl
    simp only [rotate]; omega
  · intro j hj hst p hp
    have hp' : p ∈ s.segs := by simpa [rotate] using hp
    simp only [rotate, List.mem_append, List.mem_singleton] at hj
    rcases hj with hj | rfl
    · exact hf.unwritten j hj hst p hp'
    · intro hpe
      simp only at hpe
      have := hf.below p hp' (by rw [hpe]; exact hs)
      omega
  · simp only [rotate, List.map_append, List.map_cons, List.map_nil]
    rw [List.nodup_append]
    refine ⟨hf.distinct, by simp, ?_⟩
    intro a ha b hb
    simp only [List.mem_singleton] at hb
    obtain ⟨j, hj, rfl⟩ := List.mem_map.mp ha
    have := h.freshJ j hj
    omega
  · intro j hj
    simp only [rotate, List.mem_append, List.mem_singleton] at hj
    rcases hj with hj | rfl
    · exact hf.small j hj
    · exact hs

theorem store_fresh {s : Shard} (e : Ev) (h : Inv s) (hf : Fresh s) (hs : Small s) : Fresh (store s e) := by
  obtain ⟨hm, hp, hj, hl, hn, hsg, _⟩ := walAppend_frame s e
  let t : Shard := { walAppend s e with mem := (walAppend s e).mem ++ [e] }
  have hI : Inv t := by
    constructor
    · intro p hp'; simp only [t, hp, hn] at hp' ⊢; exact h.freshP p hp'
    · intro j hj'; simp only [t, hj, hn] at hj' ⊢; exact h.freshJ j hj'
    · intro p hp' j hj'; simp only [t, hp, hj] at hp' hj'; exact h.pj p hp' j hj'
    · intro j hj' hstep x hx
      simp only [t, hj] at hj'
      have : segRows t j.seg = segRows s j.seg := by simp [t, segRows, hsg]
      rw [this]; exact h.written j hj' hstep x hx
    · intro j hj' hstep; simp only [t, hj, hl] at hj' ⊢; exact h.published j hj' hstep
  have hft : Fresh t := by
    constructor
    · intro p hp' hlv; simpa [t, hn] using hf.below p (by simpa [t, hsg] using hp') hlv
    · intro j hj' hst p hp'
      exact hf.unwritten j (by simpa [t, hj] using hj') hst p (by simpa [t, hsg] using hp')
    · simpa [t, hj] using hf.distinct
    · intro j hj'; exact hf.small j (by simpa [t, hj] using hj')
  have hst : Small t := by simpa [Small, t, hn] using hs
  unfold store
  simp only
  split
  · exact rotate_fresh hI hft hst
  · exact hft

/-- The step theorem: when the flush worker creates a directory, no directory of that id exists;
and `Fresh` is preserved. -/
theorem flushStep_fresh {s : Shard} (h : Inv s) (hf : Fresh s) :
    Fresh (flushStep s) ∧
    (∀ j, (flushStep s).segs = s.segs ++ [(j.seg, j.evs)] → j ∈ s.jobs → j.step = 0 →
      ∀ p ∈ s.segs, p.1 ≠ j.seg) := by
  refine ⟨?_, fun j _ hj hst p hp => hf.unwritten j hj hst p hp⟩
  unfold flushStep
  cases hjobs : s.jobs with
  | nil => exact hf
  | cons j rest =>
    have hjmem : j ∈ s.jobs := by rw [hjobs]; simp
    have hrest : ∀ x ∈ rest, x ∈ s.jobs := fun x hx => by rw [hjobs]; simp [hx]
    have hnd := hf.distinct
    rw [hjobs] at hnd
    simp only [List.map_cons, List.nodup_cons] at hnd
    have hdiff : ∀ x ∈ rest, x.seg ≠ j.seg := fun x hx hxe => hnd.1 (List.mem_map.mpr ⟨x, hx, hxe⟩)
    simp only
    -- steps that keep `segs` and the head's id
    have keep : ∀ (t : Shard) (j' : Job), j'.seg = j.seg → j'.step ≠ 0 →
        t.segs = s.segs → t.nextL0 = s.nextL0 → t.jobs = j' :: rest → Fresh t := by
      intro t j' hseg hstep esegs enext ejobs
      constructor
      · intro p hp hl; rw [enext]; exact hf.below p (by rw [← esegs]; exact hp) hl
      · intro x hx hx0 p hp
        rw [ejobs] at hx; rw [esegs] at hp
        rcases List.mem_cons.mp hx with rfl | hx'
        · exact absurd hx0 hstep
        · exact hf.unwritten x (hrest x hx') hx0 p hp
      · rw [ejobs]; simp only [List.map_cons, List.nodup_cons, hseg]; exact hnd
      · intro x hx
        rw [ejobs] at hx
        rcases List.mem_cons.mp hx with rfl | hx'
        · rw [hseg]; exact hf.small j hjmem
        · exact hf.small x (hrest x hx')
    have pop : Fresh { s with jobs := rest } := by
      constructor
      · exact hf.below
      · intro x hx; exact hf.unwritten x (hrest x hx)
      · exact hnd.2
      · intro x hx; exact hf.small x (hrest x hx)
    by_cases hemp : j.evs.isEmpty
    · simp only [hemp, if_true]; exact pop
    · simp only [hemp, if_false, Bool.false_eq_true]
      match hst : j.step with
      | 0 =>
        simp only
        constructor
        · intro p hp hl
          simp only [List.mem_append, List.mem_singleton] at hp
          rcases hp with hp | rfl
          · exact hf.below p hp hl
          · exact h.freshJ j hjmem
        · intro x hx hx0 p hp
          simp only [List.mem_cons] at hx
          simp only [List.mem_append, List.mem_singleton] at hp
          rcases hx with rfl | hx'
          · simp at hx0
          · rcases hp with hp | rfl
            · exact hf.unwritten x (hrest x hx') hx0 p hp
            · exact fun hpe => hdiff x hx' hpe.symm
        · simp only [List.map_cons, List.nodup_cons]; exact hnd
        · intro x hx
          simp only [List.mem_cons] at hx
          rcases hx with rfl | hx'
          · exact hf.small j hjmem
          · exact hf.small x (hrest x hx')
      | 1 => simp only; exact keep _ { j with step := 2 } rfl (by simp) rfl rfl rfl
      | 2 => simp only; exact keep _ { j with step := 3 } rfl (by simp) rfl rfl rfl
      | 3 => simp only; exact keep _ { j with step := 4 } rfl (by simp) rfl rfl rfl
      | 4 => simp only; exact keep _ { j with step := 5 } rfl (by simp) (by simp [walClean]) (by simp [walClean]) rfl
      | k + 5 => simp only; exact pop


theorem drain_fresh (n : Nat) : ∀ {s : Shard}, Inv s → Fresh s → Fresh (drain n s) := by
  induction n with
  | zero => intro s _ hf; exact hf
  | succ n ih =>
    intro s h hf
    unfold drain
    split
    · exact hf
    · exact ih (flushStep_inv_cover h).1 (flushStep_fresh h hf).1

theorem drain_nextL0 (n : Nat) : ∀ (s : Shard), (drain n s).nextL0 = s.nextL0 := by
  induction n with
  | zero => intro s; rfl
  | succ n ih =>
    intro s
    unfold drain
    split
    · rfl
    · rw [ih]
      unfold flushStep
      cases s.jobs with
      | nil => rfl
      | cons j rest =>
        simp only
        split
        · rfl
        · split <;> simp [walClean]

theorem restart_fresh (s : Shard) : Fresh (restart (crash s)) := by
  constructor
  · intro p hp hl
    exact restart_nextL0_fresh s p (by simpa [restart, crash] using hp) hl
  · intro j hj; simp [restart, crash] at hj
  · simp [restart, crash]
  · intro j hj; simp [restart, crash] at hj

end Snel.Shard

namespace Snel.Shard

/-- Fewer than `levelSpan` level-0 ids have been handed out at every state of the history. -/
def AllSmall : Shard → List Op → Prop
  | _, [] => True
  | s, o :: ops => Small s ∧ AllSmall (step s o) ops

theorem step_fresh {s : Shard} (o : Op) (h : Inv s) (hf : Fresh s) (hs : Small s) :
    Inv (step s o) ∧ Fresh (step s o) := by
  cases o with
  | store e => exact ⟨store_inv e h, store_fresh e h hf hs⟩
  | flushCmd =>
    have h1 := rotate_inv h
    exact ⟨(drain_inv_cover _ h1).1, drain_fresh _ h1 (rotate_fresh h hf hs)⟩
  | flushStep => exact ⟨(flushStep_inv_cover h).1, (flushStep_fresh h hf).1⟩
  | drain => exact ⟨(drain_inv_cover _ h).1, drain_fresh _ h hf⟩
  | crash => exact ⟨restart_inv s, restart_fresh s⟩
  | shutdown => exact ⟨restart_inv _, restart_fresh _⟩

theorem runOps_fresh (ops : List Op) : ∀ {s : Shard}, Inv s → Fresh s → AllSmall s ops →
    Inv (runOps s ops) ∧ Fresh (runOps s ops) := by
  induction ops with
  | nil => intro s h hf _; exact ⟨h, hf⟩
  | cons o ops ih =>
    intro s h hf hall
    obtain ⟨hs, hrest⟩ := hall
    obtain ⟨h1, f1⟩ := step_fresh o h hf hs
    simpa [runOps] using ih h1 f1 hrest

end Snel.Shard
