import Snel.Lemmas.Compact
import Snel.Lemmas.ShardDirs
/-!
# The planner's output ids are fresh and pairwise distinct

`GoodBatches` (the side condition of `round_no_loss`) is derived from the planner itself:
every id `KWayCountPolicy::plan` hands out is `level·span + (max offset at level + 1) + i`, where
`i` counts the ids handed out at that level earlier in the same pass. Provided no level's offsets
run past the level span, such ids are pairwise distinct and differ from every index label.
-/
namespace Snel.Shard

def usedAtL (used : List (Nat × Nat)) (level : Nat) : Nat :=
  ((used.filter (·.1 == level)).map (·.2)).foldl (· + ·) 0

theorem usedAt_eq (a : PlanAcc) (lv : Nat) : a.usedAt lv = usedAtL a.used lv := rfl

theorem foldl_add_eq (xs : List Nat) : ∀ n, xs.foldl (· + ·) n = n + xs.foldl (· + ·) 0 := by
  induction xs with
  | nil => intro n; simp
  | cons x xs ih => intro n; simp only [List.foldl_cons]; rw [ih (n + x), ih (0 + x)]; omega

theorem usedAtL_append (xs ys : List (Nat × Nat)) (lv : Nat) :
    usedAtL (xs ++ ys) lv = usedAtL xs lv + usedAtL ys lv := by
  unfold usedAtL
  rw [List.filter_append, List.map_append, List.foldl_append, foldl_add_eq]

theorem usedAtL_single (u : Nat × Nat) (h1 : u.2 = 1) (lv : Nat) :
    usedAtL [u] lv = if u.1 = lv then 1 else 0 := by
  unfold usedAtL
  by_cases h : u.1 = lv
  · simp [h, h1]
  · simp [h]

/-- Ones only: what `alloc` appends. -/
def Ones (used : List (Nat × Nat)) : Prop := ∀ u ∈ used, u.2 = 1

theorem usedAtL_le_length (used : List (Nat × Nat)) (h : Ones used) (lv : Nat) :
    usedAtL used lv ≤ used.length := by
  induction used with
  | nil => simp [usedAtL]
  | cons u us ih =>
    have h1 : u.2 = 1 := h u (by simp)
    have h2 : Ones us := fun v hv => h v (by simp [hv])
    have := ih h2
    have e : u :: us = [u] ++ us := rfl
    rw [e, usedAtL_append]
    rw [usedAtL_single u h1]
    simp only [List.length_append, List.length_cons, List.length_nil]
    split <;> omega

/-- The id handed out for level `lv` after `pre`. -/
def idFor (labels : List Nat) (pre : List (Nat × Nat)) (lv : Nat) : Nat :=
  lv * levelSpan + nextOffset labels lv + usedAtL pre lv

/-- Ids handed out along `used`, given what was handed out before (`pre`). -/
def outsAux (labels : List Nat) : List (Nat × Nat) → List (Nat × Nat) → List Nat
  | _, [] => []
  | pre, u :: rest => idFor labels pre u.1 :: outsAux labels (pre ++ [u]) rest

theorem outsAux_append (labels : List Nat) (xs : List (Nat × Nat)) :
    ∀ (pre : List (Nat × Nat)) (u : Nat × Nat),
      outsAux labels pre (xs ++ [u]) = outsAux labels pre xs ++ [idFor labels (pre ++ xs) u.1] := by
  induction xs with
  | nil => intro pre u; simp [outsAux]
  | cons x xs ih => intro pre u; simp [outsAux, ih, List.append_assoc]

theorem outsAux_length (labels : List Nat) (xs : List (Nat × Nat)) :
    ∀ pre, (outsAux labels pre xs).length = xs.length := by
  induction xs with
  | nil => intro pre; simp [outsAux]
  | cons x xs ih => intro pre; simp [outsAux, ih]

/-- Invariant of a planning pass. -/
structure PlanOK (labels : List Nat) (a : PlanAcc) : Prop where
  ones : Ones a.used
  outs : a.plans.map (·.out) = outsAux labels [] a.used

theorem planOK_init (labels : List Nat) : PlanOK labels ⟨[], []⟩ :=
  ⟨by intro u hu; simp at hu, by simp [outsAux]⟩

theorem planOK_alloc_push {labels : List Nat} {a : PlanAcc} (h : PlanOK labels a)
    (lv level ty : Nat) (inputs : List Nat) :
    PlanOK labels { (a.alloc labels lv).2 with
      plans := (a.alloc labels lv).2.plans ++ [⟨level, ty, inputs, (a.alloc labels lv).1⟩] } := by
  constructor
  · intro u hu
    simp only [PlanAcc.alloc, List.mem_append, List.mem_singleton] at hu
    rcases hu with hu | hu
    · exact h.ones u hu
    · subst hu; rfl
  · simp only [PlanAcc.alloc, List.map_append, List.map_cons, List.map_nil]
    rw [outsAux_append, h.outs]
    simp [idFor, usedAt_eq]

theorem planUid_ok {labels : List Nat} (k thr level ty : Nat) (segsOfUid : List Nat) {a : PlanAcc}
    (h : PlanOK labels a) : PlanOK labels (planUid k thr labels level ty segsOfUid a) := by
  unfold planUid
  simp only
  split
  · exact h
  · split
    · exact planOK_alloc_push h (level + 1) level ty _
    · generalize chunksOf k ((sortNat segsOfUid).length + 1) (sortNat segsOfUid) = cs
      induction cs generalizing a with
      | nil => simpa using h
      | cons c cs ih =>
        simp only [List.foldl_cons]
        apply ih
        split
        · exact h
        · exact planOK_alloc_push h (level + 1) level ty _

/-- The accumulator `planAll` folds. -/
def planAcc (k : Nat) (index : List (Nat × List Nat)) : PlanAcc :=
  let thr := max ((k * Snel.Gen.C05.leftoverNum) / Snel.Gen.C05.leftoverDen) Snel.Gen.C05.leftoverMin
  let labels := index.map (·.1)
  let maxLevel := (maxOpt (labels.map (· / levelSpan))).getD 0
  (List.range (maxLevel + 1)).foldl (fun a level =>
    (allTypes index).foldl (fun a ty =>
      let segsOfUid := (index.filter (fun e => e.1 / levelSpan == level && e.2.contains ty)).map (·.1)
      if segsOfUid.isEmpty then a else planUid k thr labels level ty segsOfUid a) a) ⟨[], []⟩

theorem planAll_eq (k : Nat) (index : List (Nat × List Nat)) : planAll k index = (planAcc k index).plans := rfl

theorem planAcc_ok (k : Nat) (index : List (Nat × List Nat)) :
    PlanOK (index.map (·.1)) (planAcc k index) := by
  unfold planAcc
  simp only
  generalize List.range _ = lvs
  have : ∀ (a : PlanAcc), PlanOK (index.map (·.1)) a →
      PlanOK (index.map (·.1)) (lvs.foldl (fun a level =>
        (allTypes index).foldl (fun a ty =>
          let segsOfUid := (index.filter (fun e => e.1 / levelSpan == level && e.2.contains ty)).map (·.1)
          if segsOfUid.isEmpty then a else planUid k
            (max ((k * Snel.Gen.C05.leftoverNum) / Snel.Gen.C05.leftoverDen) Snel.Gen.C05.leftoverMin)
            (index.map (·.1)) level ty segsOfUid a) a) a) := by
    induction lvs with
    | nil => intro a h; simpa using h
    | cons lv lvs ih =>
      intro a h
      simp only [List.foldl_cons]
      apply ih
      generalize allTypes index = tys
      induction tys generalizing a with
      | nil => simpa using h
      | cons t ts iht =>
        simp only [List.foldl_cons]
        apply iht
        split
        · exact h
        · exact planUid_ok _ _ _ _ _ h
  exact this _ (planOK_init _)

/-! ## Arithmetic of the handed-out ids -/

theorem span_pos : 0 < levelSpan := by decide

/-- Every label of level `lv` has an offset below `nextOffset`. -/
theorem offset_lt_next (labels : List Nat) (l : Nat) (hl : l ∈ labels) :
    l % levelSpan < nextOffset labels (l / levelSpan) := by
  unfold nextOffset
  have hm : l % levelSpan ∈ (labels.filter (fun x => x / levelSpan == l / levelSpan)).map (· % levelSpan) := by
    simp only [List.mem_map, List.mem_filter]
    exact ⟨l, ⟨hl, by simp⟩, rfl⟩
  obtain ⟨z, hz, hle⟩ := maxOpt_ge hm
  rw [hz]; simp only; omega

theorem idFor_div {labels : List Nat} {pre : List (Nat × Nat)} {lv : Nat}
    (hb : nextOffset labels lv + usedAtL pre lv < levelSpan) :
    idFor labels pre lv / levelSpan = lv ∧
      idFor labels pre lv % levelSpan = nextOffset labels lv + usedAtL pre lv := by
  unfold idFor
  have hp := span_pos
  constructor
  · rw [Nat.add_assoc, Nat.mul_comm, Nat.mul_add_div hp, Nat.div_eq_of_lt hb]; omega
  · rw [Nat.add_assoc, Nat.mul_comm, Nat.mul_add_mod, Nat.mod_eq_of_lt hb]

theorem idFor_not_label {labels : List Nat} {pre : List (Nat × Nat)} {lv : Nat}
    (hb : nextOffset labels lv + usedAtL pre lv < levelSpan) :
    idFor labels pre lv ∉ labels := by
  intro hmem
  have h := offset_lt_next labels _ hmem
  obtain ⟨hd, hm⟩ := idFor_div hb
  rw [hd, hm] at h
  omega

/-- Every id in `outsAux pre used` is an `idFor` of a prefix that extends `pre`. -/
theorem outsAux_mem (labels : List Nat) (used : List (Nat × Nat)) :
    ∀ (pre : List (Nat × Nat)) (x : Nat), x ∈ outsAux labels pre used →
      ∃ mid u rest, used = mid ++ u :: rest ∧ x = idFor labels (pre ++ mid) u.1 := by
  induction used with
  | nil => intro pre x hx; simp [outsAux] at hx
  | cons u us ih =>
    intro pre x hx
    simp only [outsAux, List.mem_cons] at hx
    rcases hx with hx | hx
    · exact ⟨[], u, us, by simp, by simpa using hx⟩
    · obtain ⟨mid, v, rest, he, hx⟩ := ih _ _ hx
      exact ⟨u :: mid, v, rest, by simp [he], by simpa [List.append_assoc] using hx⟩

theorem usedAtL_mono_append (xs ys : List (Nat × Nat)) (lv : Nat) :
    usedAtL xs lv ≤ usedAtL (xs ++ ys) lv := by
  rw [usedAtL_append]; omega

/-- Under the bound, the ids handed out are pairwise distinct. -/
theorem outsAux_pairwise (labels : List Nat) (used : List (Nat × Nat)) :
    ∀ (pre : List (Nat × Nat)), Ones (pre ++ used) →
      (∀ lv, nextOffset labels lv + usedAtL (pre ++ used) lv ≤ levelSpan) →
      (outsAux labels pre used).Pairwise (· ≠ ·) := by
  induction used with
  | nil => intro pre _ _; simp [outsAux]
  | cons u us ih =>
    intro pre hones hb
    simp only [outsAux, List.pairwise_cons]
    have hu : u.2 = 1 := hones u (by simp)
    have hstep : ∀ lv, usedAtL (pre ++ [u]) lv = usedAtL pre lv + (if u.1 = lv then 1 else 0) := by
      intro lv; rw [usedAtL_append, usedAtL_single u hu]
    constructor
    · intro x hx
      obtain ⟨mid, v, rest, he, hxe⟩ := outsAux_mem labels us _ _ hx
      -- bounds for both ids
      have hb1 : nextOffset labels u.1 + usedAtL pre u.1 < levelSpan := by
        have := hb u.1
        have e : pre ++ u :: us = (pre ++ [u]) ++ us := by simp
        rw [e, usedAtL_append, hstep] at this
        simp at this; omega
      have hv : v.2 = 1 := hones v (by simp [he])
      have hb2 : nextOffset labels v.1 + usedAtL (pre ++ [u] ++ mid) v.1 < levelSpan := by
        have := hb v.1
        have e : pre ++ u :: us = (pre ++ [u] ++ mid) ++ ([v] ++ rest) := by simp [he]
        rw [e, usedAtL_append, usedAtL_append [v], usedAtL_single v hv] at this
        rw [if_pos rfl] at this; omega
      obtain ⟨d1, m1⟩ := idFor_div hb1
      obtain ⟨d2, m2⟩ := idFor_div hb2
      intro heq
      rw [hxe] at heq
      have hd : u.1 = v.1 := by rw [← d1, ← d2, heq]
      have hm : nextOffset labels u.1 + usedAtL pre u.1
          = nextOffset labels v.1 + usedAtL (pre ++ [u] ++ mid) v.1 := by rw [← m1, ← m2, heq]
      rw [← hd, usedAtL_append, hstep] at hm
      simp at hm
      omega
    · apply ih
      · simpa [List.append_assoc] using hones
      · intro lv; simpa [List.append_assoc] using hb lv

theorem outsAux_fresh (labels : List Nat) (used : List (Nat × Nat)) (hones : Ones used)
    (hb : ∀ lv, nextOffset labels lv + usedAtL used lv ≤ levelSpan) :
    ∀ x ∈ outsAux labels [] used, x ∉ labels := by
  intro x hx
  obtain ⟨mid, v, rest, he, hxe⟩ := outsAux_mem labels used _ _ hx
  have hv : v.2 = 1 := hones v (by simp [he])
  have hb2 : nextOffset labels v.1 + usedAtL ([] ++ mid) v.1 < levelSpan := by
    have := hb v.1
    have e : used = mid ++ ([v] ++ rest) := by simp [he]
    rw [e, usedAtL_append, usedAtL_append [v], usedAtL_single v hv] at this
    rw [if_pos rfl] at this
    rw [List.nil_append]; omega
  rw [hxe]
  exact idFor_not_label hb2

/-! ## Batches take their ids from the plans -/

theorem groupPlans_outs_sublist (plans : List Plan) :
    ((groupPlans plans).map (·.out)).Sublist (plans.map (·.out)) := by
  unfold groupPlans
  have : ∀ (bs : List Batch),
      ∃ extra, ((plans.foldl (fun bs p =>
        if bs.any (·.inputs == p.inputs) then
          bs.map fun b => if b.inputs == p.inputs then { b with tys := b.tys ++ [p.ty] } else b
        else bs ++ [⟨p.inputs, [p.ty], p.out⟩]) bs).map (·.out)) = bs.map (·.out) ++ extra ∧
        extra.Sublist (plans.map (·.out)) := by
    induction plans with
    | nil => intro bs; exact ⟨[], by simp, by simp⟩
    | cons p ps ih =>
      intro bs
      simp only [List.foldl_cons]
      split
      · obtain ⟨extra, he, hs⟩ := ih (bs.map fun b => if b.inputs == p.inputs then { b with tys := b.tys ++ [p.ty] } else b)
        refine ⟨extra, ?_, ?_⟩
        · rw [he]; congr 1
          rw [List.map_map]
          apply List.map_congr_left
          intro b _; simp only [Function.comp]; split <;> rfl
        · exact List.Sublist.cons _ hs
      · obtain ⟨extra, he, hs⟩ := ih (bs ++ [⟨p.inputs, [p.ty], p.out⟩])
        refine ⟨p.out :: extra, ?_, ?_⟩
        · rw [he]; simp
        · simp only [List.map_cons]; exact List.Sublist.cons_cons _ hs
  obtain ⟨extra, he, hs⟩ := this []
  rw [he]; simpa using hs

/-- The decidable bound: at no level do the handed-out offsets reach the level span. -/
def NoOverflow (k : Nat) (index : List (Nat × List Nat)) : Prop :=
  ∀ lv, nextOffset (index.map (·.1)) lv + (planAll k index).length ≤ levelSpan

theorem planner_outputs_good (s : Shard)
    (hlive : ∀ l ∈ s.live, ∃ ent ∈ s.index, ent.1 = l)
    (hb : NoOverflow s.kmerge s.index) :
    GoodBatches s (groupPlans (planAll s.kmerge s.index)) := by
  have hok := planAcc_ok s.kmerge s.index
  have hlen : (planAcc s.kmerge s.index).used.length = (planAll s.kmerge s.index).length := by
    have := congrArg List.length hok.outs
    rw [List.length_map, outsAux_length] at this
    rw [planAll_eq]; exact this.symm
  have hbound : ∀ lv, nextOffset (s.index.map (·.1)) lv + usedAtL (planAcc s.kmerge s.index).used lv ≤ levelSpan := by
    intro lv
    have h1 := usedAtL_le_length _ hok.ones lv
    have h2 := hb lv
    omega
  have hsub := groupPlans_outs_sublist (planAll s.kmerge s.index)
  rw [planAll_eq, hok.outs] at hsub
  have hfresh := outsAux_fresh (s.index.map (·.1)) _ hok.ones hbound
  have hpw := outsAux_pairwise (s.index.map (·.1)) (planAcc s.kmerge s.index).used [] (by simpa using hok.ones)
    (by simpa using hbound)
  rw [← planAll_eq] at hsub
  constructor
  · intro b hb'
    have hmem : b.out ∈ outsAux (s.index.map (·.1)) [] (planAcc s.kmerge s.index).used :=
      hsub.subset (List.mem_map_of_mem hb')
    have hnl := hfresh _ hmem
    constructor
    · intro ent hent heq
      exact hnl (by rw [← heq]; exact List.mem_map_of_mem hent)
    · intro hl
      obtain ⟨ent, hent, heq⟩ := hlive _ hl
      exact hnl (by rw [← heq]; exact List.mem_map_of_mem hent)
  · have := hpw.sublist hsub
    exact List.pairwise_map.mp this

end Snel.Shard

namespace Snel.Shard

/-! ## Plans only merge what the index lists for their level and type -/

theorem mem_chunksOf {k : Nat} : ∀ (fuel : Nat) (xs c : List Nat) (x : Nat),
    c ∈ chunksOf k fuel xs → x ∈ c → x ∈ xs := by
  intro fuel
  induction fuel with
  | zero => intro xs c x hc; simp [chunksOf] at hc
  | succ fuel ih =>
    intro xs c x hc hx
    cases xs with
    | nil => simp [chunksOf] at hc
    | cons a as =>
      unfold chunksOf at hc
      by_cases hk : k = 0
      · simp [hk] at hc
      · simp only [hk, if_false, List.mem_cons] at hc
        rcases hc with rfl | hc
        · exact List.mem_of_mem_take hx
        · exact List.mem_of_mem_drop (ih _ c x hc hx)

/-- Every input of every plan is an index entry of the plan's level that lists the plan's type. -/
def PlanFrom (index : List (Nat × List Nat)) (a : PlanAcc) : Prop :=
  ∀ p ∈ a.plans, ∀ l ∈ p.inputs, ∃ ent ∈ index, ent.1 = l ∧ l / levelSpan = p.level ∧ p.ty ∈ ent.2

theorem planFrom_push {index : List (Nat × List Nat)} {a : PlanAcc} (h : PlanFrom index a)
    (labels : List Nat) (lv level ty : Nat) (inputs : List Nat)
    (hin : ∀ l ∈ inputs, ∃ ent ∈ index, ent.1 = l ∧ l / levelSpan = level ∧ ty ∈ ent.2) :
    PlanFrom index { (a.alloc labels lv).2 with
      plans := (a.alloc labels lv).2.plans ++ [⟨level, ty, inputs, (a.alloc labels lv).1⟩] } := by
  intro p hp
  simp only [PlanAcc.alloc, List.mem_append, List.mem_singleton] at hp
  rcases hp with hp | rfl
  · exact h p hp
  · exact hin

theorem chunks_fold_from {index : List (Nat × List Nat)} (k : Nat) (labels : List Nat) (level ty : Nat)
    (cs : List (List Nat)) :
    (∀ c ∈ cs, ∀ l ∈ c, ∃ ent ∈ index, ent.1 = l ∧ l / levelSpan = level ∧ ty ∈ ent.2) →
    ∀ (a : PlanAcc), PlanFrom index a →
    PlanFrom index (cs.foldl (fun a chunk =>
      if chunk.length < k then a
      else
        let (out, a) := a.alloc labels (level + 1)
        { a with plans := a.plans ++ [⟨level, ty, chunk, out⟩] }) a) := by
  induction cs with
  | nil => intro _ a h; simpa using h
  | cons c cs ih =>
    intro hchunks a h
    simp only [List.foldl_cons]
    apply ih (fun c' hc' => hchunks c' (by simp [hc']))
    split
    · exact h
    · exact planFrom_push h labels (level + 1) level ty c (hchunks c (by simp))

theorem planUid_from {index : List (Nat × List Nat)} (k thr : Nat) (labels : List Nat) (level ty : Nat)
    (segsOfUid : List Nat)
    (hsegs : ∀ l ∈ segsOfUid, ∃ ent ∈ index, ent.1 = l ∧ l / levelSpan = level ∧ ty ∈ ent.2)
    {a : PlanAcc} (h : PlanFrom index a) : PlanFrom index (planUid k thr labels level ty segsOfUid a) := by
  have hsorted : ∀ l ∈ sortNat segsOfUid, ∃ ent ∈ index, ent.1 = l ∧ l / levelSpan = level ∧ ty ∈ ent.2 :=
    fun l hl => hsegs l (mem_sortNat.mp hl)
  unfold planUid
  simp only
  split
  · exact h
  · split
    · exact planFrom_push h labels (level + 1) level ty _ hsorted
    · exact chunks_fold_from k labels level ty _
        (fun c hc l hl => hsorted l (mem_chunksOf _ _ c l hc hl)) a h

theorem planAcc_from (k : Nat) (index : List (Nat × List Nat)) : PlanFrom index (planAcc k index) := by
  unfold planAcc
  simp only
  generalize List.range _ = lvs
  have : ∀ (a : PlanAcc), PlanFrom index a →
      PlanFrom index (lvs.foldl (fun a level =>
        (allTypes index).foldl (fun a ty =>
          let segsOfUid := (index.filter (fun e => e.1 / levelSpan == level && e.2.contains ty)).map (·.1)
          if segsOfUid.isEmpty then a else planUid k
            (max ((k * Snel.Gen.C05.leftoverNum) / Snel.Gen.C05.leftoverDen) Snel.Gen.C05.leftoverMin)
            (index.map (·.1)) level ty segsOfUid a) a) a) := by
    induction lvs with
    | nil => intro a h; simpa using h
    | cons lv lvs ih =>
      intro a h
      simp only [List.foldl_cons]
      apply ih
      generalize allTypes index = tys
      induction tys generalizing a with
      | nil => simpa using h
      | cons t ts iht =>
        simp only [List.foldl_cons]
        apply iht
        split
        · exact h
        · apply planUid_from _ _ _ _ _ _ _ h
          intro l hl
          simp only [List.mem_map, List.mem_filter, Bool.and_eq_true, beq_iff_eq, List.contains_iff_mem] at hl
          obtain ⟨ent, ⟨hent, hlv, hty⟩, rfl⟩ := hl
          exact ⟨ent, hent, rfl, hlv, hty⟩
  exact this _ (by intro p hp; simp at hp)

end Snel.Shard
