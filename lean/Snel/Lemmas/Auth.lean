import Snel.Model.Auth
/-! Helper lemmas about the authentication / authorisation model (`Snel.Model.Auth`). -/
set_option linter.unusedSimpArgs false
namespace Snel.Auth
open Snel.Gen.C13

/-! ### splitting -/

theorem splitFirst_spec (c : Char) : ∀ (s a b : Str), splitFirst c s = some (a, b) →
    s = a ++ c :: b ∧ c ∉ a := by
  intro s
  induction s with
  | nil => intro a b h; simp [splitFirst] at h
  | cons x xs ih =>
    intro a b h
    unfold splitFirst at h
    by_cases hx : (x == c) = true
    · simp only [hx, if_true] at h
      have hx' : x = c := by simpa using hx
      cases h
      simp [hx']
    · simp only [hx] at h
      cases hr : splitFirst c xs with
      | none => simp [hr] at h
      | some p =>
        obtain ⟨a', b'⟩ := p
        rw [hr] at h
        cases h
        obtain ⟨h1, h2⟩ := ih a' b hr
        refine ⟨by simp [h1], ?_⟩
        intro hm
        simp only [List.mem_cons] at hm
        rcases hm with rfl | hm
        · simp at hx
        · exact h2 hm

theorem isPrefix_spec : ∀ (p s : Str), isPrefix p s = true → s = p ++ s.drop p.length := by
  intro p
  induction p with
  | nil => intro s _; simp
  | cons a as ih =>
    intro s h
    cases s with
    | nil => simp [isPrefix] at h
    | cons c cs =>
      simp only [isPrefix, Bool.and_eq_true, beq_iff_eq] at h
      obtain ⟨rfl, h2⟩ := h
      have := ih cs h2
      simp only [List.length_cons, List.drop_succ_cons, List.cons_append]
      rw [← this]

theorem splitLast_spec (pat : Str) : ∀ (s b a : Str), splitLast pat s = some (b, a) →
    s = b ++ pat ++ a := by
  intro s
  induction s with
  | nil =>
    intro b a h
    unfold splitLast at h
    by_cases hp : pat.isEmpty = true
    · simp only [hp, if_true] at h
      cases h
      have : pat = [] := by simpa using hp
      simp [this]
    · simp [hp] at h
  | cons c cs ih =>
    intro b a h
    unfold splitLast at h
    cases hr : splitLast pat cs with
    | some p =>
      obtain ⟨b', a'⟩ := p
      simp only [hr] at h
      cases h
      have := ih b' a hr
      simp [this]
    | none =>
      simp only [hr] at h
      by_cases hp : isPrefix pat (c :: cs) = true
      · simp only [hp, if_true] at h
        cases h
        have := isPrefix_spec pat (c :: cs) hp
        simpa using this
      · simp [hp] at h

/-! ### trimming keeps a non-blank last character -/

theorem dropWhile_last (p : Char → Bool) (c : Char) (hc : p c = false) :
    ∀ s : Str, s.reverse.head? = some c → (s.dropWhile p).reverse.head? = some c := by
  intro s
  induction s with
  | nil => intro h; simp at h
  | cons x xs ih =>
    intro h
    by_cases hx : p x = true
    · rw [List.dropWhile_cons_of_pos hx]
      cases xs with
      | nil =>
        simp at h
        subst h
        simp [hc] at hx
      | cons y ys =>
        apply ih
        simp only [List.reverse_cons, List.append_assoc] at h ⊢
        rw [List.head?_append] at h
        simpa using h
    · have hx' : p x = false := by simpa using hx
      rw [List.dropWhile_cons_of_neg (by simp [hx'])]
      exact h

theorem trimEnd_last (c : Char) (hc : isWs c = false) (s : Str) (h : s.reverse.head? = some c) :
    (trimEnd s).reverse.head? = some c := by
  unfold trimEnd
  rw [List.reverse_reverse]
  cases hs : s.reverse with
  | nil => simp [hs] at h
  | cons x xs =>
    simp [hs] at h
    subst h
    rw [List.dropWhile_cons_of_neg (by simp [hc])]
    simp

theorem trim_last (c : Char) (hc : isWs c = false) (s : Str) (h : s.reverse.head? = some c) :
    (trim s).reverse.head? = some c :=
  trimEnd_last c hc _ (dropWhile_last isWs c hc s h)

/-! ### user table -/

theorem findUser_some {st : State} {id : Str} {u : User} (h : findUser st id = some u) :
    u ∈ st.users ∧ u.id = id := by
  unfold findUser at h
  refine ⟨List.mem_of_find?_eq_some h, ?_⟩
  have := List.find?_some h
  simpa using this

theorem find_putUser_same (us : List User) (u : User) :
    (putUser us u).find? (fun x => x.id == u.id) = some u := by
  induction us with
  | nil => simp [putUser]
  | cons x xs ih =>
    by_cases hx : x.id = u.id
    · simp [putUser, hx]
    · simp [putUser, hx, List.find?_cons, ih]

theorem find_putUser_other (us : List User) (u : User) (id : Str) (hne : id ≠ u.id) :
    (putUser us u).find? (fun x => x.id == id) = us.find? (fun x => x.id == id) := by
  have hne' : ¬ u.id = id := fun h => hne h.symm
  induction us with
  | nil => simp [putUser, List.find?_cons, hne']
  | cons x xs ih =>
    by_cases hx : x.id = u.id
    · have hxi : ¬ x.id = id := by rw [hx]; exact hne'
      simp [putUser, hx, List.find?_cons, hne']
    · by_cases hy : x.id = id
      · have hx2 : ¬ id = u.id := by rw [← hy]; exact hx
        simp [putUser, hx2, hy]
      · simp [putUser, hx, hy, ih]

/-! ### credentials -/

theorem verify_spec {mac : Str → Str → Str} {st : State} {msg user sig : Str}
    (h : verify mac st msg user sig = true) :
    ∃ u, findUser st user = some u ∧ u.active = true ∧ sig = mac u.key msg := by
  unfold verify at h
  split at h
  · simp at h
  · split at h
    · simp at h
    · cases hu : findUser st user with
      | none => simp [hu] at h
      | some u =>
        simp only [hu, Bool.and_eq_true, beq_iff_eq] at h
        exact ⟨u, rfl, h.1, h.2⟩

theorem parseAuth_spec {s user sig cmd : Str} (h : parseAuth s = some (user, sig, cmd)) :
    s = user ++ ':' :: (sig ++ ':' :: cmd) ∧ ':' ∉ user ∧ ':' ∉ sig ∧ user ≠ [] := by
  unfold parseAuth at h
  cases h1 : splitFirst ':' s with
  | none => simp [h1] at h
  | some p =>
    obtain ⟨u, rest⟩ := p
    simp only [h1] at h
    cases h2 : splitFirst ':' rest with
    | none => simp [h2] at h
    | some q =>
      obtain ⟨sg, c⟩ := q
      simp only [h2] at h
      split at h
      · simp at h
      · rename_i hu
        split at h
        · simp at h
        · simp only [Option.some.injEq, Prod.mk.injEq] at h
          obtain ⟨rfl, rfl, rfl⟩ := h
          obtain ⟨e1, n1⟩ := splitFirst_spec ':' s _ _ h1
          obtain ⟨e2, n2⟩ := splitFirst_spec ':' rest _ _ h2
          refine ⟨by rw [e1, e2], n1, n2, ?_⟩
          intro he
          simp [he] at hu

theorem validateToken_spec {st : State} {now : Nat} {tok user : Str}
    (h : validateToken st now tok = some user) :
    ∃ s u, s ∈ st.sessions ∧ s.token = tok ∧ s.user = user ∧ ¬ s.expiresAt < now ∧
      findUser st user = some u ∧ u.active = true := by
  unfold validateToken at h
  cases hs : st.sessions.find? (fun s => s.token == tok) with
  | none => simp [hs] at h
  | some s =>
    simp only [hs] at h
    split at h
    · simp at h
    · rename_i hexp
      cases hu : findUser st s.user with
      | none => simp [hu] at h
      | some u =>
        simp only [hu] at h
        split at h
        · rename_i hact
          simp only [Option.some.injEq] at h
          subst h
          have hm := List.mem_of_find?_eq_some hs
          have ht := List.find?_some hs
          exact ⟨s, u, hm, by simpa using ht, rfl, hexp, hu, hact⟩
        · simp at h

/-! ### the code's rights imply the rights of the property text -/

theorem canRead_spec {st : State} {id et : Str} (h : canRead st id et = true) : specRead st id et = true := by
  unfold canRead at h
  unfold specRead
  cases hu : findUser st id with
  | none => simp [hu] at h
  | some u =>
    simp only [hu] at h ⊢
    cases ha : hasRole u adminRoles <;> cases hr : hasRole u readOnlyRoles <;>
      cases he : hasRole u editorRoles <;> cases hp : findPerm u.perms et <;> simp_all

theorem canWrite_spec {st : State} {id et : Str} (h : canWrite st id et = true) : specWrite st id et = true := by
  unfold canWrite at h
  unfold specWrite
  cases hu : findUser st id with
  | none => simp [hu] at h
  | some u =>
    simp only [hu] at h ⊢
    cases ha : hasRole u adminRoles <;> cases hr : hasRole u writeOnlyRoles <;>
      cases he : hasRole u editorRoles <;> cases hp : findPerm u.perms et <;> simp_all

/-- `checkId … = proceed` means: an identity was given, and it is the reserved id or holds
the right. -/
theorem checkId_proceed {uid : Option Str} {right : Str → Bool} (h : checkId uid right = .proceed) :
    ∃ u, uid = some u ∧ (u = bypassUserId ∨ right u = true) := by
  unfold checkId at h
  cases uid with
  | none => simp at h
  | some u =>
    refine ⟨u, rfl, ?_⟩
    by_cases hb : u = bypassUserId
    · exact Or.inl hb
    · right
      by_cases hr : right u = true
      · exact hr
      · simp [hb, hr] at h

end Snel.Auth
