import Snel.Model.Value
import Snel.Lemmas.ColumnBlock
/-! Helper lemmas for the value path (`Snel.Model.Value`). -/
namespace Snel.Value
open Snel.ColumnBlock

/-! ### decimal digits -/

theorem digitByte_toNat (d : Nat) (h : d < 10) : (digitByte d).toNat = 48 + d := by
  unfold digitByte
  rw [UInt8.toNat_ofNat']
  omega

theorem digitVal_ofNat (d : Nat) (h : d < 10) : digitVal (digitByte d) = some d := by
  unfold digitVal
  rw [digitByte_toNat d h]
  have h1 : 48 ≤ 48 + d ∧ 48 + d ≤ 57 := by omega
  simp only [h1, and_self, if_true]
  congr 1; omega

theorem parseDigits_snoc (xs : Bytes) (b : UInt8) (acc : Nat) :
    parseDigits (xs ++ [b]) acc
      = match parseDigits xs acc with
        | some v => (digitVal b).map (v * 10 + ·)
        | none => none := by
  induction xs generalizing acc with
  | nil => simp [parseDigits]; cases digitVal b <;> simp
  | cons x xs ih =>
    simp only [List.cons_append, parseDigits]
    cases digitVal x with
    | none => simp
    | some d => simp [ih]

def IsDigit (b : UInt8) : Prop := 48 ≤ b.toNat ∧ b.toNat ≤ 57

theorem digitsRev_spec (f n : Nat) (h : n < 10 ^ (f + 1)) :
    parseDigits (digitsRev (f + 1) n).reverse 0 = some n
      ∧ digitsRev (f + 1) n ≠ [] ∧ ∀ b ∈ digitsRev (f + 1) n, IsDigit b := by
  induction f generalizing n with
  | zero =>
    have h10 : n < 10 := by simpa using h
    simp only [digitsRev, h10, if_true, List.reverse_cons, List.reverse_nil, List.nil_append]
    refine ⟨?_, by simp, ?_⟩
    · simp only [parseDigits, digitVal_ofNat n h10]; simp
    · intro b hb
      simp at hb; subst hb
      have := digitByte_toNat n h10
      unfold IsDigit; omega
  | succ f ih =>
    by_cases h10 : n < 10
    · simp only [digitsRev, h10, if_true, List.reverse_cons, List.reverse_nil, List.nil_append]
      refine ⟨?_, by simp, ?_⟩
      · simp only [parseDigits, digitVal_ofNat n h10]; simp
      · intro b hb
        simp at hb; subst hb
        have := digitByte_toNat n h10
        unfold IsDigit; omega
    · have hdiv : n / 10 < 10 ^ (f + 1) := by
        rw [Nat.pow_succ] at h
        exact Nat.div_lt_of_lt_mul (by rw [Nat.mul_comm]; exact h)
      obtain ⟨hp, hne, hd⟩ := ih (n / 10) hdiv
      have hunf : digitsRev (f + 1 + 1) n = digitByte (n % 10) :: digitsRev (f + 1) (n / 10) := by
        rw [digitsRev]; simp [h10]
      rw [hunf]
      refine ⟨?_, by simp, ?_⟩
      · rw [List.reverse_cons, parseDigits_snoc, hp]
        simp only [digitVal_ofNat (n % 10) (Nat.mod_lt _ (by decide)), Option.map_some]
        congr 1; omega
      · intro b hb
        simp only [List.mem_cons] at hb
        rcases hb with rfl | hb
        · have := digitByte_toNat (n % 10) (Nat.mod_lt _ (by decide))
          unfold IsDigit; omega
        · exact hd b hb

theorem natDec_spec (n : Nat) (h : n < 10 ^ 20) :
    parseDigits (natDec n) 0 = some n ∧ ∃ b rest, natDec n = b :: rest ∧ IsDigit b := by
  obtain ⟨hp, hne, hd⟩ := digitsRev_spec 19 n h
  refine ⟨hp, ?_⟩
  unfold natDec
  cases hr : (digitsRev 20 n).reverse with
  | nil => simp at hr; exact absurd hr hne
  | cons b rest =>
    refine ⟨b, rest, rfl, hd b ?_⟩
    have : b ∈ (digitsRev 20 n).reverse := by rw [hr]; simp
    simpa using this

theorem stripPlus_digit (b : UInt8) (rest : Bytes) (h : IsDigit b) : stripPlus (b :: rest) = b :: rest := by
  unfold stripPlus
  split
  · rename_i r heq
    simp at heq
    obtain ⟨rfl, _⟩ := heq
    unfold IsDigit at h; simp at h
  · rfl

theorem parseU64_natDec (u : Nat) (h : u < 18446744073709551616) : parseU64 (natDec u) = some u := by
  obtain ⟨hp, b, rest, hb, hdig⟩ := natDec_spec u (by omega)
  unfold parseU64 parseBody
  rw [hb] at hp ⊢
  rw [stripPlus_digit b rest hdig]
  simp [hp, h]

theorem parseI64_intDec (i : Int) (h1 : -9223372036854775808 ≤ i) (h2 : i < 9223372036854775808) :
    parseI64 (intDec i) = some i := by
  unfold intDec
  by_cases hneg : i < 0
  · simp only [hneg, if_true]
    obtain ⟨hp, b, rest, hb, _⟩ := natDec_spec (-i).toNat (by omega)
    unfold parseI64 parseBody
    simp only
    rw [hb] at hp ⊢
    have : (-i).toNat ≤ 9223372036854775808 := by omega
    simp only [List.isEmpty_cons, Bool.false_eq_true, if_false, hp, this, if_true]
    congr 1; omega
  · simp only [hneg, if_false]
    obtain ⟨hp, b, rest, hb, hdig⟩ := natDec_spec i.toNat (by omega)
    unfold parseI64 parseBody
    rw [hb] at hp ⊢
    have h45 : b ≠ 45 := by
      intro he; subst he; unfold IsDigit at hdig; simp at hdig
    split
    · rename_i r heq; simp at heq; exact absurd heq.1 h45
    · rw [stripPlus_digit b rest hdig]
      have : i.toNat < 9223372036854775808 := by omega
      simp only [List.isEmpty_cons, Bool.false_eq_true, if_false, hp, this, if_true]
      congr 1; omega

end Snel.Value
