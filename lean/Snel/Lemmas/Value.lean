import Snel.Model.Value
import Snel.Lemmas.ColumnBlock
/-! Helper lemmas for the value path (`Snel.Model.Value`). -/
namespace Snel.Value
open Snel.ColumnBlock

/-! ### decimal digits -/

theorem digitByte_toNat (d : Nat) (h : d < 10) : (digitByte d).toNat = 48 + d := by
  unfold digitByte
  rw [UInt8.toNat_ofNat']
  omega

theorem digitVal_ofNat (d : Nat) (h : d < 10) : digitVal (digitByte d) = some d := by
  unfold digitVal
  rw [digitByte_toNat d h]
  have h1 : 48 ≤ 48 + d ∧ 48 + d ≤ 57 := by omega
  simp only [h1, and_self, if_true]
  congr 1; omega

theorem parseDigits_snoc (xs : Bytes) (b : UInt8) (acc : Nat) :
    parseDigits (xs ++ [b]) acc
      = match parseDigits xs acc with
        | some v => (digitVal b).map (v * 10 + ·)
        | none => none := by
  induction xs generalizing acc with
  | nil => simp [parseDigits]; cases digitVal b <;> simp
  | cons x xs ih =>
    simp only [List.cons_append, parseDigits]
    cases digitVal x with
    | none => simp
    | some d => simp [ih]

def IsDigit (b : UInt8) : Prop := 48 ≤ b.toNat ∧ b.toNat ≤ 57

theorem digitsRev_spec (f n : Nat) (h : n < 10 ^ (f + 1)) :
    parseDigits (digitsRev (f + 1) n).reverse 0 = some n
      ∧ digitsRev (f + 1) n ≠ [] ∧ ∀ b ∈ digitsRev (f + 1) n, IsDigit b := by
  induction f generalizing n with
  | zero =>
    have h10 : n < 10 := by simpa using h
    simp only [digitsRev, h10, if_true, List.reverse_cons, List.reverse_nil, List.nil_append]
    refine ⟨?_, by simp, ?_⟩
    · simp only [parseDigits, digitVal_ofNat n h10]; simp
    · intro b hb
      simp at hb; subst hb
      have := digitByte_toNat n h10
      unfold IsDigit; omega
  | succ f ih =>
    by_cases h10 : n < 10
    · simp only [digitsRev, h10, if_true, List.reverse_cons, List.reverse_nil, List.nil_append]
      refine ⟨?_, by simp, ?_⟩
      · simp only [parseDigits, digitVal_ofNat n h10]; simp
      · intro b hb
        simp at hb; subst hb
        have := digitByte_toNat n h10
        unfold IsDigit; omega
    · have hdiv : n / 10 < 10 ^ (f + 1) := by
        rw [Nat.pow_succ] at h
        exact Nat.div_lt_of_lt_mul (by rw [Nat.mul_comm]; exact h)
      obtain ⟨hp, hne, hd⟩ := ih (n / 10) hdiv
      have hunf : digitsRev (f + 1 + 1) n = digitByte (n % 10) :: digitsRev (f + 1) (n / 10) := by
        rw [digitsRev]; simp [h10]
      rw [hunf]
      refine ⟨?_, by simp, ?_⟩
      · rw [List.reverse_cons, parseDigits_snoc, hp]
        simp only [digitVal_ofNat (n % 10) (Nat.mod_lt _ (by decide)), Option.map_some]
        congr 1; omega
      · intro b hb
        simp only [List.mem_cons] at hb
        rcases hb with rfl | hb
        · have := digitByte_toNat (n % 10) (Nat.mod_lt _ (by decide))
          unfold IsDigit; omega
        · exact hd b hb

theorem natDec_spec (n : Nat) (h : n < 10 ^ 20) :
    parseDigits (natDec n) 0 = some n ∧ ∃ b rest, natDec n = b :: rest ∧ IsDigit b := by
  obtain ⟨hp, hne, hd⟩ := digitsRev_spec 19 n h
  refine ⟨hp, ?_⟩
  unfold natDec
  cases hr : (digitsRev 20 n).reverse with
  | nil => simp at hr; exact absurd hr hne
  | cons b rest =>
    refine ⟨b, rest, rfl, hd b ?_⟩
    have : b ∈ (digitsRev 20 n).reverse := by rw [hr]; simp
    simpa using this

theorem stripPlus_digit (b : UInt8) (rest : Bytes) (h : IsDigit b) : stripPlus (b :: rest) = b :: rest := by
  unfold stripPlus
  split
  · rename_i r heq
    simp at heq
    obtain ⟨rfl, _⟩ := heq
    unfold IsDigit at h; simp at h
  · rfl

theorem parseU64_natDec (u : Nat) (h : u < 18446744073709551616) : parseU64 (natDec u) = some u := by
  obtain ⟨hp, b, rest, hb, hdig⟩ := natDec_spec u (by omega)
  unfold parseU64 parseBody
  rw [hb] at hp ⊢
  rw [stripPlus_digit b rest hdig]
  simp [hp, h]

theorem parseI64_intDec (i : Int) (h1 : -9223372036854775808 ≤ i) (h2 : i < 9223372036854775808) :
    parseI64 (intDec i) = some i := by
  unfold intDec
  by_cases hneg : i < 0
  · simp only [hneg, if_true]
    obtain ⟨hp, b, rest, hb, _⟩ := natDec_spec (-i).toNat (by omega)
    unfold parseI64 parseBody
    simp only
    rw [hb] at hp ⊢
    have : (-i).toNat ≤ 9223372036854775808 := by omega
    simp only [List.isEmpty_cons, Bool.false_eq_true, if_false, hp, this, if_true]
    congr 1; omega
  · simp only [hneg, if_false]
    obtain ⟨hp, b, rest, hb, hdig⟩ := natDec_spec i.toNat (by omega)
    unfold parseI64 parseBody
    rw [hb] at hp ⊢
    have h45 : b ≠ 45 := by
      intro he; subst he; unfold IsDigit at hdig; simp at hdig
    split
    · rename_i r heq; simp at heq; exact absurd heq.1 h45
    · rw [stripPlus_digit b rest hdig]
      have : i.toNat < 9223372036854775808 := by omega
      simp only [List.isEmpty_cons, Bool.false_eq_true, if_false, hp, this, if_true]
      congr 1; omega

/-! ### conforming values by kind -/

def InI64 (i : Int) : Prop := -9223372036854775808 ≤ i ∧ i < 9223372036854775808

/-- what `FieldType::from_spec_with_nullable` / DEFINE can produce: `T`, `T | null` for a
primitive `T`, or a (non-optional) enum -/
def FlatType : FieldType → Prop
  | .optional (.optional _) => False
  | .optional (.enum _) => False
  | _ => True

/-- the value kinds the per-kind theorems of C07 cover, with the column type they go to -/
def Kinds (p : Phys) (j : Json) : Prop :=
    (j = .null)
    ∨ (∃ b, j = .bool b ∧ p = .bool)
    ∨ (∃ i, InI64 i ∧ j = intJson i ∧ (p = .i64 ∨ p = .f64))
    ∨ (∃ u, u < 18446744073709551616 ∧ j = .num (.pos u) ∧ (p = .u64 ∨ p = .f64))
    ∨ (∃ b, isFinite b = true ∧ j = .num (.flt b) ∧ p = .f64)
    ∨ (∃ s, j = .str s ∧ p = .varBytes)

theorem intJson_pos (u : Nat) : intJson (u : Int) = .num (.pos u) := by
  unfold intJson
  have : ¬ ((u : Int) < 0) := by omega
  simp [this]

theorem intJson_neg (m : Nat) (h : 1 ≤ m) : intJson (-(m : Int)) = .num (.neg m) := by
  unfold intJson
  have : (-(m : Int)) < 0 := by omega
  simp only [this, if_true]
  congr 2; omega

theorem kinds_pos_int (p : Phys) (u : Nat) (h : u ≤ i64Max) (hp : p = .i64 ∨ p = .f64) :
    Kinds p (.num (.pos u)) :=
  Or.inr (Or.inr (Or.inl ⟨(u : Int), ⟨by omega, by unfold i64Max at h; omega⟩, (intJson_pos u).symm, hp⟩))

theorem kinds_neg_int (p : Phys) (m : Nat) (h1 : 1 ≤ m) (h2 : m ≤ i64Max + 1) (hp : p = .i64 ∨ p = .f64) :
    Kinds p (.num (.neg m)) :=
  Or.inr (Or.inr (Or.inl ⟨-(m : Int), ⟨by unfold i64Max at h2; omega, by omega⟩, (intJson_neg m h1).symm, hp⟩))

theorem conforming_base (bt : FieldType) (hb : ∀ t, bt ≠ .optional t) (j : Json)
    (hc : conforms bt j = true) : Kinds (physOf bt) j := by
  cases bt with
  | optional t => exact absurd rfl (hb t)
  | string =>
    cases j <;> simp [conforms] at hc
    exact Or.inr (Or.inr (Or.inr (Or.inr (Or.inr ⟨_, rfl, rfl⟩))))
  | enum vs =>
    cases j <;> simp [conforms] at hc
    exact Or.inr (Or.inr (Or.inr (Or.inr (Or.inr ⟨_, rfl, rfl⟩))))
  | bool =>
    cases j <;> simp [conforms] at hc
    exact Or.inr (Or.inl ⟨_, rfl, rfl⟩)
  | u64 =>
    cases j with
    | num n =>
      cases n <;> simp [conforms] at hc
      exact Or.inr (Or.inr (Or.inr (Or.inl ⟨_, hc, rfl, Or.inl rfl⟩)))
    | _ => simp [conforms] at hc
  | i64 =>
    cases j with
    | num n =>
      cases n with
      | pos u => simp [conforms] at hc; exact kinds_pos_int _ u hc (Or.inl rfl)
      | neg m => simp [conforms] at hc; exact kinds_neg_int _ m hc.1 hc.2 (Or.inl rfl)
      | flt b => simp [conforms] at hc
    | _ => simp [conforms] at hc
  | timestamp =>
    cases j with
    | num n =>
      cases n with
      | pos u => simp [conforms] at hc; exact kinds_pos_int _ u hc (Or.inl rfl)
      | neg m => simp [conforms] at hc; exact kinds_neg_int _ m hc.1 hc.2 (Or.inl rfl)
      | flt b => simp [conforms] at hc
    | _ => simp [conforms] at hc
  | date =>
    cases j with
    | num n =>
      cases n with
      | pos u => simp [conforms] at hc; exact kinds_pos_int _ u hc (Or.inl rfl)
      | neg m => simp [conforms] at hc; exact kinds_neg_int _ m hc.1 hc.2 (Or.inl rfl)
      | flt b => simp [conforms] at hc
    | _ => simp [conforms] at hc
  | f64 =>
    cases j with
    | num n =>
      cases n with
      | pos u =>
        simp [conforms] at hc
        exact Or.inr (Or.inr (Or.inr (Or.inl ⟨_, hc, rfl, Or.inr rfl⟩)))
      | neg m => simp [conforms] at hc; exact kinds_neg_int _ m hc.1 hc.2 (Or.inr rfl)
      | flt b =>
        simp [conforms] at hc
        exact Or.inr (Or.inr (Or.inr (Or.inr (Or.inl ⟨_, hc.1, rfl, rfl⟩))))
    | _ => simp [conforms] at hc

/-- what the unified round-trip theorem needs, by value kind (everything the code may alter is
excluded here and refuted separately) -/
def Safe (x : Ext) (p : Phys) : Json → Prop
  | .null => p ≠ .varBytes ∧ p ≠ .i32Date ∧ x.parseF64 [] = none
  | .bool _ => True
  | .str s => validUtf8 s = true ∧ toJson x (.utf8 s) = .str s ∧ addPayloadField x s = .utf8 s
  | .num (.flt b) => x.parseF64 (x.fmtF64 b) = some b ∧ x.walFloat b = b
  | .num (.pos u) => (u > i64Max → x.jsonParse (natDec u) = .number (.pos u)) ∧ p ≠ .f64
  | .num (.neg _) => p ≠ .f64
  | .nested _ => False

theorem jsonSame_intJson (i : Int) : jsonSame (intJson i) (intJson i) = true := by
  unfold intJson
  split <;> simp [jsonSame, JNum.int?]

end Snel.Value
