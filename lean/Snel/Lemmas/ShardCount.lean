import Snel.Lemmas.ShardShutdown
/-!
C03, COUNT clause: in crash-free runs `count s = (number of stored events) + (rows of jobs that
are between "files written" and "passive buffer released")`. Outside that window COUNT is exact;
inside it the surplus is exactly the rows of the jobs in the window.
-/
namespace Snel.Shard

def sumLen (l : List (Nat × List Ev)) : Nat := (l.map (·.2.length)).foldl (· + ·) 0

theorem sumLen_cons (p : Nat × List Ev) (l : List (Nat × List Ev)) : sumLen (p :: l) = p.2.length + sumLen l := by
  simp only [sumLen, List.map_cons, List.foldl_cons]; rw [foldl_add_shift]; omega

theorem sumLen_append (a b : List (Nat × List Ev)) : sumLen (a ++ b) = sumLen a + sumLen b := by
  induction a with
  | nil => simp [sumLen]
  | cons p a ih => rw [List.cons_append, sumLen_cons, sumLen_cons, ih]; omega

theorem length_flatMap_snd (l : List (Nat × List Ev)) : (l.flatMap (·.2)).length = sumLen l := by
  induction l with
  | nil => simp [sumLen]
  | cons p l ih => rw [List.flatMap_cons, List.length_append, ih, sumLen_cons]

/-- Rows of jobs inside the double-visibility window. -/
def inWindow (j : Job) : Bool := 1 ≤ j.step && j.step ≤ 3 && !j.evs.isEmpty

def extra (js : List Job) : Nat := ((js.filter inWindow).map (·.evs.length)).foldl (· + ·) 0

theorem extra_cons (j : Job) (js : List Job) :
    extra (j :: js) = (if inWindow j then j.evs.length else 0) + extra js := by
  unfold extra
  by_cases h : inWindow j = true
  · simp only [List.filter_cons, h, if_true, List.map_cons, List.foldl_cons]; rw [foldl_add_shift]; omega
  · simp only [List.filter_cons, h, if_false, Bool.false_eq_true]; omega

theorem extra_append (a b : List Job) : extra (a ++ b) = extra a + extra b := by
  induction a with
  | nil => simp [extra]
  | cons j a ih => rw [List.cons_append, extra_cons, extra_cons, ih]; omega

/-- Double counting: summing the rows of each id of a duplicate-free id list visits every
directory whose id is in the list exactly once. -/
theorem sum_segRows (segs : List (Nat × List Ev)) : ∀ (L : List Nat), L.Nodup →
    (L.flatMap fun id => (segs.filter (·.1 == id)).flatMap (·.2)).length
      = sumLen (segs.filter fun p => L.contains p.1) := by
  intro L
  induction L with
  | nil =>
    intro _
    have hf : segs.filter (fun (_ : Nat × List Ev) => false) = [] := by simp
    simp only [List.flatMap_nil, List.length_nil, List.contains_nil, sumLen, hf, List.map_nil, List.foldl_nil]
  | cons a L ih =>
    intro hnd
    rw [List.nodup_cons] at hnd
    rw [List.flatMap_cons, List.length_append, ih hnd.2, length_flatMap_snd]
    -- split the filter on membership in (a :: L)
    clear ih
    induction segs with
    | nil => simp [sumLen]
    | cons p segs ih2 =>
      by_cases hpa : p.1 = a
      · have hnl : L.contains p.1 = false := by
          rw [hpa]; simpa using hnd.1
        simp only [List.filter_cons, hpa, beq_self_eq_true, if_true, List.contains_cons, Bool.true_or]
        rw [hpa] at hnl
        simp only [hnl, if_false, Bool.false_eq_true]
        rw [sumLen_cons, sumLen_cons]
        have := ih2
        simp only [List.contains_cons] at this
        omega
      · have hb : (p.1 == a) = false := by simpa using hpa
        simp only [List.filter_cons, hb, if_false, Bool.false_eq_true, List.contains_cons, Bool.false_or]
        by_cases hl : L.contains p.1 = true
        · simp only [hl, if_true]
          rw [sumLen_cons, sumLen_cons]
          have := ih2
          simp only [List.contains_cons] at this
          omega
        · simp only [hl, if_false, Bool.false_eq_true]
          have := ih2
          simp only [List.contains_cons] at this
          omega

/-- Invariants needed for exact counting. -/
structure Inv4 (s : Shard) : Prop where
  segReach : ∀ p ∈ s.segs, p.1 ∈ s.live ∨ ∃ j ∈ s.jobs, j.seg = p.1 ∧ 1 ≤ j.step ∧ j.evs.isEmpty = false
  passNodup : (s.passives.map (·.1)).Nodup
  jobNodup : (s.jobs.map (·.seg)).Nodup
  holds : ∀ j ∈ s.jobs, j.step ≤ 3 → (j.seg, j.evs) ∈ s.passives

theorem init_inv4 (cap k : Nat) : Inv4 (Shard.init cap k) := by
  constructor <;> simp [Shard.init]

/-- With every directory reachable, a scan's segment part is the total of all directories. -/
theorem count_eq {s : Shard} (h4 : Inv4 s) :
    count s = s.mem.length + sumLen s.passives + sumLen s.segs := by
  unfold count scanRows
  rw [List.length_append, List.length_append, length_flatMap_snd]
  have hnd : (readSegs s).Nodup := by unfold readSegs; exact nodup_eraseDups _
  have := sum_segRows s.segs (readSegs s) hnd
  unfold segRows
  rw [this]
  have hall : s.segs.filter (fun p => (readSegs s).contains p.1) = s.segs := by
    rw [List.filter_eq_self]
    intro p hp
    have hr : p.1 ∈ s.live ∨ p.1 ∈ inflight s := by
      rcases h4.segReach p hp with h | ⟨j, hj, hjs, _, _⟩
      · exact Or.inl h
      · exact Or.inr (by simp only [inflight, List.mem_map]; exact ⟨j, hj, hjs⟩)
    have := mem_readSegs.mpr hr
    simpa using this
  rw [hall]

theorem sumLen_clear (ps : List (Nat × List Ev)) (seg : Nat) (evs : List Ev)
    (hnd : (ps.map (·.1)).Nodup) (hmem : (seg, evs) ∈ ps) :
    sumLen (clearPassive ps seg) + evs.length = sumLen ps := by
  induction ps with
  | nil => simp at hmem
  | cons p ps ih =>
    have hc : clearPassive (p :: ps) seg = (if p.1 == seg then (p.1, []) else p) :: clearPassive ps seg := by
      obtain ⟨a, b⟩ := p; simp [clearPassive]
    rw [hc, sumLen_cons, sumLen_cons]
    simp only [List.map_cons, List.nodup_cons] at hnd
    rcases List.mem_cons.mp hmem with heq | hin
    · -- this is the entry; no other entry has the id
      have hp1 : p.1 = seg := by rw [← heq]
      have hp2 : p.2 = evs := by rw [← heq]
      have hrest : ∀ (l : List (Nat × List Ev)), (∀ q ∈ l, q.1 ≠ seg) → clearPassive l seg = l := by
        intro l
        induction l with
        | nil => intro _; rfl
        | cons q l ihl =>
          intro hq
          have hq1 : q.1 ≠ seg := hq q (by simp)
          have hb : (q.1 == seg) = false := by simpa using hq1
          obtain ⟨a, b⟩ := q
          simp only [clearPassive, List.map_cons] at ihl ⊢
          simp only at hb
          rw [hb]
          simp only [Bool.false_eq_true, if_false]
          congr 1
          exact ihl (fun x hx => hq x (by simp [hx]))
      have hrest := hrest ps (by
        intro q hq hqe
        exact hnd.1 (List.mem_map.mpr ⟨q, hq, by rw [hqe, hp1]⟩))
      rw [hrest]
      simp [hp1, hp2]
      omega
    · have hne : p.1 ≠ seg := by
        intro hpe
        exact hnd.1 (List.mem_map.mpr ⟨(seg, evs), hin, by simp [hpe]⟩)
      have hb : (p.1 == seg) = false := by simpa using hne
      simp only [hb, if_false, Bool.false_eq_true]
      have := ih hnd.2 hin
      omega


def total (s : Shard) : Nat := s.mem.length + sumLen s.passives + sumLen s.segs

/-- Counting invariant: everything a scan produces = stored events + rows in the window. -/
def Counted (s : Shard) (n : Nat) : Prop := total s = n + extra s.jobs

theorem clearPassive_ids (ps : List (Nat × List Ev)) (seg : Nat) :
    (clearPassive ps seg).map (·.1) = ps.map (·.1) := by
  induction ps with
  | nil => rfl
  | cons p ps ih =>
    obtain ⟨a, b⟩ := p
    simp only [clearPassive, List.map_cons] at ih ⊢
    rw [ih]; congr 1; split <;> rfl

theorem rotate_inv4 {s : Shard} (h : Inv s) (h4 : Inv4 s) (n : Nat) (hc : Counted s n) :
    Inv4 (rotate s) ∧ Counted (rotate s) n := by
  refine ⟨⟨?_, ?_, ?_, ?_⟩, ?_⟩
  · intro p hp
    have hp' : p ∈ s.segs := by simpa [rotate] using hp
    rcases h4.segReach p hp' with hl | ⟨j, hj, hr⟩
    · exact Or.inl (by simpa [rotate] using hl)
    · exact Or.inr ⟨j, by simp [rotate, hj], hr⟩
  · simp only [rotate, List.map_append, List.map_cons, List.map_nil]
    rw [List.nodup_append]
    refine ⟨h4.passNodup, by simp, ?_⟩
    intro a ha b hb
    simp only [List.mem_singleton] at hb
    obtain ⟨p, hp, rfl⟩ := List.mem_map.mp ha
    have := h.freshP p hp
    omega
  · simp only [rotate, List.map_append, List.map_cons, List.map_nil]
    rw [List.nodup_append]
    refine ⟨h4.jobNodup, by simp, ?_⟩
    intro a ha b hb
    simp only [List.mem_singleton] at hb
    obtain ⟨j, hj, rfl⟩ := List.mem_map.mp ha
    have := h.freshJ j hj
    omega
  · intro j hj hst
    simp only [rotate, List.mem_append, List.mem_singleton] at hj ⊢
    rcases hj with hj | rfl
    · exact Or.inl (h4.holds j hj hst)
    · exact Or.inr rfl
  · unfold Counted total at *
    simp only [rotate]
    rw [sumLen_append, extra_append]
    have e1 : sumLen [(s.nextL0, s.mem)] = s.mem.length := by simp [sumLen]
    have e2 : extra [⟨s.nextL0, s.mem, 0⟩] = 0 := by simp [extra, inWindow]
    rw [e1, e2]
    simp only [List.length_nil]
    omega

theorem store_inv4 {s : Shard} (e : Ev) (h : Inv s) (h4 : Inv4 s) (n : Nat) (hc : Counted s n) :
    Inv4 (store s e) ∧ Counted (store s e) (n + 1) := by
  obtain ⟨hm, hp, hj, hl, hn, hs, _⟩ := walAppend_frame s e
  let t : Shard := { walAppend s e with mem := (walAppend s e).mem ++ [e] }
  have hI : Inv t := by
    constructor
    · intro p hp'; simp only [t, hp, hn] at hp' ⊢; exact h.freshP p hp'
    · intro j hj'; simp only [t, hj, hn] at hj' ⊢; exact h.freshJ j hj'
    · intro p hp' j hj'; simp only [t, hp, hj] at hp' hj'; exact h.pj p hp' j hj'
    · intro j hj' hstep x hx
      simp only [t, hj] at hj'
      have : segRows t j.seg = segRows s j.seg := by simp [t, segRows, hs]
      rw [this]; exact h.written j hj' hstep x hx
    · intro j hj' hstep; simp only [t, hj, hl] at hj' ⊢; exact h.published j hj' hstep
  have h4t : Inv4 t := by
    refine ⟨?_, ?_, ?_, ?_⟩
    · intro p hp'
      have hp'' : p ∈ s.segs := by simpa [t, hs] using hp'
      rcases h4.segReach p hp'' with hlv | ⟨j, hjm, hr⟩
      · exact Or.inl (by simpa [t, hl] using hlv)
      · exact Or.inr ⟨j, by simpa [t, hj] using hjm, hr⟩
    · simpa [t, hp] using h4.passNodup
    · simpa [t, hj] using h4.jobNodup
    · intro j hj' hst
      have := h4.holds j (by simpa [t, hj] using hj') hst
      simpa [t, hp] using this
  have hct : Counted t (n + 1) := by
    unfold Counted total at *
    simp only [t, hm, hp, hs, hj, List.length_append, List.length_singleton]
    omega
  unfold store
  simp only
  split
  · exact rotate_inv4 hI h4t (n + 1) hct
  · exact ⟨h4t, hct⟩


theorem flushStep_inv4 {s : Shard} (h : Inv s) (h4 : Inv4 s) (n : Nat) (hc : Counted s n) :
    Inv4 (flushStep s) ∧ Counted (flushStep s) n := by
  unfold flushStep
  cases hjobs : s.jobs with
  | nil => exact ⟨h4, hc⟩
  | cons j rest =>
    have hjmem : j ∈ s.jobs := by rw [hjobs]; simp
    have hrest : ∀ x ∈ rest, x ∈ s.jobs := fun x hx => by rw [hjobs]; simp [hx]
    have hsplit : ∀ x ∈ s.jobs, x = j ∨ x ∈ rest := fun x hx => by rw [hjobs] at hx; simpa using hx
    have hnd := h4.jobNodup
    rw [hjobs] at hnd
    simp only [List.map_cons, List.nodup_cons] at hnd
    have hcnt : total s = n + ((if inWindow j then j.evs.length else 0) + extra rest) := by
      have := hc; unfold Counted at this; rw [hjobs, extra_cons] at this; exact this
    -- a job of `rest` never shares the head's id
    have hdiff : ∀ x ∈ rest, x.seg ≠ j.seg := by
      intro x hx hxe
      exact hnd.1 (List.mem_map.mpr ⟨x, hx, hxe⟩)
    simp only
    by_cases hemp : j.evs.isEmpty
    · -- empty job finishes at once
      simp only [hemp, if_true]
      have hw : inWindow j = false := by simp [inWindow, hemp]
      refine ⟨⟨?_, h4.passNodup, hnd.2, fun x hx => h4.holds x (hrest x hx)⟩, ?_⟩
      · intro p hp
        rcases h4.segReach p hp with hl | ⟨x, hx, hxs, hx1, hxe⟩
        · exact Or.inl hl
        · rcases hsplit x hx with rfl | hx'
          · rw [hemp] at hxe; simp at hxe
          · exact Or.inr ⟨x, hx', hxs, hx1, hxe⟩
      · unfold Counted total at *
        dsimp only
        simp only [hw, if_false, Bool.false_eq_true] at hcnt
        omega
    · simp only [hemp, if_false, Bool.false_eq_true]
      have hne : j.evs.isEmpty = false := by simpa using hemp
      -- reachability transfers when the head keeps its id, stays non-empty and has step ≥ 1 afterwards
      have reach : ∀ (j' : Job) (segs' : List (Nat × List Ev)) (live' : List Nat),
          j'.seg = j.seg → j'.evs = j.evs → 1 ≤ j'.step →
          (∀ id ∈ s.live, id ∈ live') →
          (∀ p ∈ segs', p ∈ s.segs ∨ p.1 = j.seg) →
          ∀ p ∈ segs', p.1 ∈ live' ∨ ∃ x ∈ j' :: rest, x.seg = p.1 ∧ 1 ≤ x.step ∧ x.evs.isEmpty = false := by
        intro j' segs' live' hseg hevs hst hlive hsub p hp
        rcases hsub p hp with hp' | hpj
        · rcases h4.segReach p hp' with hl | ⟨x, hx, hxs, hx1, hxe⟩
          · exact Or.inl (hlive _ hl)
          · rcases hsplit x hx with rfl | hx'
            · exact Or.inr ⟨j', by simp, by rw [hseg, hxs], hst, by rw [hevs]; exact hne⟩
            · exact Or.inr ⟨x, by simp [hx'], hxs, hx1, hxe⟩
        · exact Or.inr ⟨j', by simp, by rw [hseg, hpj], hst, by rw [hevs]; exact hne⟩
      have nodup' : ∀ (j' : Job), j'.seg = j.seg → ((j' :: rest).map (·.seg)).Nodup := by
        intro j' hseg
        simp only [List.map_cons, List.nodup_cons, hseg]
        exact hnd
      match hst : j.step with
      | 0 =>
        simp only
        have hw : inWindow j = false := by simp [inWindow, hst]
        have hw' : inWindow { j with step := 1 } = true := by simp [inWindow, hne]
        refine ⟨⟨?_, h4.passNodup, nodup' _ rfl, ?_⟩, ?_⟩
        · exact reach { j with step := 1 } _ s.live rfl rfl (by simp) (fun _ h => h)
            (fun p hp => by
              simp only [List.mem_append, List.mem_singleton] at hp
              rcases hp with hp | rfl
              · exact Or.inl hp
              · exact Or.inr rfl)
        · intro x hx hx3
          simp only [List.mem_cons] at hx
          rcases hx with rfl | hx
          · exact h4.holds j hjmem (by omega)
          · exact h4.holds x (hrest x hx) hx3
        · unfold Counted total at *
          simp only
          rw [sumLen_append, extra_cons]
          have e1 : sumLen [(j.seg, j.evs)] = j.evs.length := by simp [sumLen]
          simp only [hw, if_false, Bool.false_eq_true] at hcnt
          simp only [hw', if_true, e1]
          omega
      | 1 =>
        simp only
        have hw : inWindow j = true := by simp [inWindow, hst, hne]
        have hw' : inWindow { j with step := 2 } = true := by simp [inWindow, hne]
        refine ⟨⟨?_, h4.passNodup, nodup' _ rfl, ?_⟩, ?_⟩
        · exact reach { j with step := 2 } _ s.live rfl rfl (by simp) (fun _ h => h) (fun p hp => Or.inl hp)
        · intro x hx hx3
          simp only [List.mem_cons] at hx
          rcases hx with rfl | hx
          · exact h4.holds j hjmem (by omega)
          · exact h4.holds x (hrest x hx) hx3
        · unfold Counted total at *
          simp only
          rw [extra_cons]
          simp only [hw, if_true] at hcnt
          simp only [hw', if_true]
          omega
      | 2 =>
        simp only
        have hw : inWindow j = true := by simp [inWindow, hst, hne]
        have hw' : inWindow { j with step := 3 } = true := by simp [inWindow, hne]
        refine ⟨⟨?_, h4.passNodup, nodup' _ rfl, ?_⟩, ?_⟩
        · exact reach { j with step := 3 } _ _ rfl rfl (by simp)
            (fun id hid => by split
                              · exact hid
                              · simp [hid])
            (fun p hp => Or.inl hp)
        · intro x hx hx3
          simp only [List.mem_cons] at hx
          rcases hx with rfl | hx
          · exact h4.holds j hjmem (by omega)
          · exact h4.holds x (hrest x hx) hx3
        · unfold Counted total at *
          simp only
          rw [extra_cons]
          simp only [hw, if_true] at hcnt
          simp only [hw', if_true]
          omega
      | 3 =>
        simp only
        have hw : inWindow j = true := by simp [inWindow, hst, hne]
        have hw' : inWindow { j with step := 4 } = false := by simp [inWindow]
        have hheld : (j.seg, j.evs) ∈ s.passives := h4.holds j hjmem (by omega)
        have hclear := sumLen_clear s.passives j.seg j.evs h4.passNodup hheld
        refine ⟨⟨?_, ?_, nodup' _ rfl, ?_⟩, ?_⟩
        · exact reach { j with step := 4 } _ s.live rfl rfl (by simp) (fun _ h => h) (fun p hp => Or.inl hp)
        · rw [clearPassive_ids]; exact h4.passNodup
        · intro x hx hx3
          simp only [List.mem_cons] at hx
          rcases hx with rfl | hx
          · simp at hx3
          · have hxh := h4.holds x (hrest x hx) hx3
            rw [mem_clearPassive]
            refine ⟨(x.seg, x.evs), hxh, ?_⟩
            have : (x.seg == j.seg) = false := by simpa using hdiff x hx
            simp [this]
        · unfold Counted total at *
          simp only
          rw [extra_cons]
          simp only [hw, if_true] at hcnt
          simp only [hw', if_false, Bool.false_eq_true]
          omega
      | 4 =>
        simp only
        have hw : inWindow j = false := by simp [inWindow, hst]
        have hw' : inWindow { j with step := 5 } = false := by simp [inWindow]
        refine ⟨⟨?_, ?_, ?_, ?_⟩, ?_⟩
        · have := reach { j with step := 5 } s.segs s.live rfl rfl (by simp) (fun _ h => h) (fun p hp => Or.inl hp)
          intro p hp
          have hp' : p ∈ s.segs := by simpa [walClean] using hp
          rcases this p hp' with hl | hr
          · exact Or.inl (by simpa [walClean] using hl)
          · exact Or.inr hr
        · simpa [walClean] using h4.passNodup
        · exact nodup' _ rfl
        · intro x hx hx3
          simp only [List.mem_cons] at hx
          rcases hx with rfl | hx
          · simp at hx3
          · simpa [walClean] using h4.holds x (hrest x hx) hx3
        · unfold Counted total at *
          simp only [walClean]
          rw [extra_cons]
          simp only [hw, if_false, Bool.false_eq_true] at hcnt
          simp only [hw', if_false, Bool.false_eq_true]
          omega
      | k + 5 =>
        simp only
        have hw : inWindow j = false := by simp [inWindow, hst]
        refine ⟨⟨?_, h4.passNodup, hnd.2, fun x hx => h4.holds x (hrest x hx)⟩, ?_⟩
        · intro p hp
          rcases h4.segReach p hp with hl | ⟨x, hx, hxs, hx1, hxe⟩
          · exact Or.inl hl
          · rcases hsplit x hx with rfl | hx'
            · exact Or.inl (hxs ▸ h.published x hjmem (by omega))
            · exact Or.inr ⟨x, hx', hxs, hx1, hxe⟩
        · unfold Counted total at *
          dsimp only
          simp only [hw, if_false, Bool.false_eq_true] at hcnt
          omega

theorem drain_inv4 (m : Nat) : ∀ {s : Shard} (n : Nat), Inv s → Inv4 s → Counted s n →
    Inv4 (drain m s) ∧ Counted (drain m s) n := by
  induction m with
  | zero => intro s n _ h4 hc; exact ⟨h4, hc⟩
  | succ m ih =>
    intro s n h h4 hc
    unfold drain
    split
    · exact ⟨h4, hc⟩
    · obtain ⟨a, b⟩ := flushStep_inv4 h h4 n hc
      exact ih n (flushStep_inv_cover h).1 a b

theorem runOps_counted (ops : List Op) : ∀ {s : Shard} (n : Nat), Inv s → Inv4 s → Counted s n →
    (∀ o ∈ ops, o.crashFree = true) →
    Inv4 (runOps s ops) ∧ Counted (runOps s ops) (n + (storedEvents ops).length) := by
  induction ops with
  | nil => intro s n _ h4 hc _; exact ⟨h4, by simpa [storedEvents, runOps] using hc⟩
  | cons o ops ih =>
    intro s n h h4 hc hall
    have ho := hall o (by simp)
    have hrun : runOps s (o :: ops) = runOps (step s o) ops := by simp [runOps]
    rw [hrun]
    have hall' : ∀ x ∈ ops, x.crashFree = true := fun x hx => hall x (by simp [hx])
    cases o with
    | store e =>
      obtain ⟨a, b⟩ := store_inv4 e h h4 n hc
      have := ih (n + 1) (store_inv e h) a b hall'
      simp only [storedEvents, List.length_cons]
      have e2 : n + ((storedEvents ops).length + 1) = n + 1 + (storedEvents ops).length := by omega
      rw [e2]; exact this
    | flushCmd =>
      obtain ⟨a, b⟩ := rotate_inv4 h h4 n hc
      obtain ⟨c, d⟩ := drain_inv4 (jobSteps * (flushCmd s).jobs.length + 1) (s := flushCmd s) n (rotate_inv h) a b
      exact ih n (drain_inv_cover _ (rotate_inv h)).1 c d hall'
    | flushStep =>
      obtain ⟨a, b⟩ := flushStep_inv4 h h4 n hc
      exact ih n (flushStep_inv_cover h).1 a b hall'
    | drain =>
      obtain ⟨a, b⟩ := drain_inv4 (jobSteps * s.jobs.length + 1) n h h4 hc
      exact ih n (drain_inv_cover _ h).1 a b hall'
    | crash => simp [Op.crashFree] at ho
    | shutdown => simp [Op.crashFree] at ho

end Snel.Shard
