import Snel.Model.ValidateSpec
/-!
Helper lemmas for C06 (`Snel.Props.C06`). Core Lean only.
-/
deriving instance DecidableEq for Except

namespace Snel.Validate
open Snel.Gen.C06

/-! ### digits and the unit bands -/

theorem numDigits_pos (n : Nat) : 1 ≤ numDigits n := by
  unfold numDigits
  split <;> omega

theorem numDigits_le_iff (k : Nat) : ∀ n, numDigits n ≤ k + 1 ↔ n < 10 ^ (k + 1) := by
  induction k with
  | zero =>
    intro n
    unfold numDigits
    split
    · simp; omega
    · have := numDigits_pos (n / 10)
      simp; omega
  | succ k ih =>
    intro n
    unfold numDigits
    split
    · rename_i h
      have : 10 ^ 1 ≤ 10 ^ (k + 1 + 1) := Nat.pow_le_pow_right (by decide) (by omega)
      simp at this
      constructor
      · intro _; omega
      · intro _; omega
    · have h1 := ih (n / 10)
      have h2 : n / 10 < 10 ^ (k + 1) ↔ n < 10 ^ (k + 1) * 10 := Nat.div_lt_iff_lt_mul (by decide)
      rw [Nat.pow_succ 10 (k + 1)]
      omega

/-- What the bands must satisfy for every digit count up to 19: a divisor exists, is positive,
brings every number of that many digits into `i64`, and the "already seconds" arm has divisor 1. -/
def bandOk (k : Nat) : Bool :=
  match bandDivisor k epochBands with
  | some (d, m) => decide (1 ≤ d) && decide (10 ^ k ≤ (i64Max + 1) * d) && (m != .ident || d == 1)
  | none => false

theorem bands_upto_19 : ((List.range 20).drop 1).all bandOk = true := by decide

theorem band_some {k : Nat} (h1 : 1 ≤ k) (h2 : k ≤ 19) :
    ∃ d m, bandDivisor k epochBands = some (d, m) ∧ 1 ≤ d ∧ 10 ^ k ≤ (i64Max + 1) * d ∧
      (m = .ident → d = 1) := by
  have hmem : k ∈ (List.range 20).drop 1 := by
    have : k ∈ List.range 20 := List.mem_range.mpr (by omega)
    rw [show List.range 20 = 0 :: (List.range 20).drop 1 by decide] at this
    rcases List.mem_cons.mp this with h | h
    · omega
    · exact h
  have := (List.all_eq_true.mp bands_upto_19) k hmem
  unfold bandOk at this
  split at this
  · rename_i d m hd
    simp only [Bool.and_eq_true, decide_eq_true_eq, Bool.or_eq_true, bne_iff_ne, beq_iff_eq] at this
    refine ⟨d, m, hd, this.1.1, this.1.2, ?_⟩
    intro hm
    rcases this.2 with h | h
    · exact absurd hm h
    · exact h
  · simp at this

theorem band_none {k : Nat} (h : 20 ≤ k) : bandDivisor k epochBands = none := by
  simp only [bandDivisor, epochBands]
  repeat (rw [if_neg (by omega)])

theorem numDigits_ge_20 {n : Nat} (h : 10 ^ 19 ≤ n) : 20 ≤ numDigits n := by
  have := numDigits_le_iff 18 n
  omega

theorem numDigits_le_19 {n : Nat} (h : n < 10 ^ 19) : numDigits n ≤ 19 :=
  (numDigits_le_iff 18 n).mpr h

theorem normInt_none_of_big {z : Int} (h : 10 ^ 19 ≤ z.natAbs) : normalizeIntegerEpoch z = none := by
  unfold normalizeIntegerEpoch
  rw [band_none (numDigits_ge_20 h)]

/-- On a non-negative value all three spellings give the natural-number quotient. -/
theorem applyDiv_nonneg (mode : Snel.Gen.C06.DivMode) (n d : Nat) (hid : mode = .ident → d = 1) :
    applyDiv mode (n : Int) d = ((n / d : Nat) : Int) := by
  cases mode with
  | ident => rw [hid rfl, Nat.div_one]; rfl
  | trunc => rfl
  | floor => rfl

/-- On a negative value each spelling gives minus a natural number no larger than the
magnitude (truncation: `-(|n| / d)`; `div_euclid`: `-((|n| - 1) / d + 1)`). -/
theorem applyDiv_neg (mode : Snel.Gen.C06.DivMode) (m d : Nat) (hd : 1 ≤ d) :
    ∃ q : Nat, applyDiv mode (Int.negSucc m) d = -(q : Int) ∧ q ≤ m + 1 := by
  cases mode with
  | ident => exact ⟨m + 1, rfl, Nat.le_refl _⟩
  | trunc => exact ⟨(m + 1) / d, rfl, Nat.div_le_self _ _⟩
  | floor =>
    obtain ⟨k, rfl⟩ : ∃ k, d = k + 1 := ⟨d - 1, by omega⟩
    refine ⟨m / (k + 1) + 1, rfl, ?_⟩
    have := Nat.div_le_self m (k + 1)
    omega

theorem normInt_some_of_nonneg {z : Int} (h0 : 0 ≤ z) (h1 : z < 10 ^ 19) :
    ∃ s, normalizeIntegerEpoch z = some s ∧ 0 ≤ s ∧ s ≤ (i64Max : Int) := by
  obtain ⟨n, rfl⟩ := Int.eq_ofNat_of_zero_le h0
  have hn : n < 10 ^ 19 := by omega
  obtain ⟨d, mode, hd, hd1, hd2, hid⟩ := band_some (numDigits_pos n) (numDigits_le_19 hn)
  have hk : n < 10 ^ numDigits n := by
    have := numDigits_le_iff (numDigits n - 1) n
    have hp := numDigits_pos n
    rw [show numDigits n - 1 + 1 = numDigits n by omega] at this
    exact this.mp (Nat.le_refl _)
  have hq : n / d < i64Max + 1 := by
    rw [Nat.div_lt_iff_lt_mul (by omega)]
    omega
  have hred : normalizeIntegerEpoch (n : Int) =
      (if inI64 ((n / d : Nat) : Int) = true then some ((n / d : Nat) : Int) else none) := by
    show (match bandDivisor (numDigits (n : Int).natAbs) epochBands with
      | none => none
      | some (d, mode) => if inI64 (applyDiv mode (n : Int) d) = true then some (applyDiv mode (n : Int) d) else none) = _
    rw [Int.natAbs_natCast, hd]
    show (if inI64 (applyDiv mode (n : Int) d) = true then some (applyDiv mode (n : Int) d) else none) = _
    rw [applyDiv_nonneg mode n d hid]
  generalize n / d = q at hq hred
  unfold i64Max at hq
  have hin : inI64 (q : Int) = true := by
    unfold inI64 i64Min i64Max
    simp
    omega
  rw [if_pos hin] at hred
  exact ⟨(q : Int), hred, by omega, by unfold i64Max; omega⟩

theorem normInt_some_of_neg {z : Int} (h0 : i64Min ≤ z) (h1 : z < 0) :
    ∃ s, normalizeIntegerEpoch z = some s ∧ i64Min ≤ s ∧ s ≤ 0 := by
  obtain ⟨m, rfl⟩ : ∃ m : Nat, z = Int.negSucc m := by
    cases z with
    | ofNat n => exact absurd h1 (by simp)
    | negSucc m => exact ⟨m, rfl⟩
  unfold i64Min at h0
  have hm : m + 1 ≤ 9223372036854775808 := by omega
  have hn : m + 1 < 10 ^ 19 := by omega
  obtain ⟨d, mode, hd, hd1, _, _⟩ := band_some (numDigits_pos (m + 1)) (numDigits_le_19 hn)
  obtain ⟨q, hq, hqle⟩ := applyDiv_neg mode m d hd1
  have hred : normalizeIntegerEpoch (Int.negSucc m) =
      (if inI64 (-(q : Int)) = true then some (-(q : Int)) else none) := by
    show (match bandDivisor (numDigits (m + 1)) epochBands with
      | none => none
      | some (d, mode) => if inI64 (applyDiv mode (Int.negSucc m) d) = true then some (applyDiv mode (Int.negSucc m) d) else none) = _
    rw [hd]
    show (if inI64 (applyDiv mode (Int.negSucc m) d) = true then some (applyDiv mode (Int.negSucc m) d) else none) = _
    rw [hq]
  have hin : inI64 (-(q : Int)) = true := by
    unfold inI64 i64Min i64Max
    simp
    omega
  rw [if_pos hin] at hred
  exact ⟨-(q : Int), hred, by unfold i64Min; omega, by omega⟩

/-! ### `normalize_json_value` -/

def okB {ε α : Type} : Except ε α → Bool
  | .ok _ => true
  | .error _ => false

/-- "accepted": `validate_payload` returns `Ok` and the time normaliser returns `Ok`. -/
abbrev accepts (lib : TimeLib) (schema : Schema) (payload : Json) : Prop :=
  okB (admit lib schema payload) = true

/-- States whose registry holds only schemas of the shapes DEFINE produces. -/
def Definable (st : St) : Prop :=
  ∀ et schema, st.schemas.lookup et = some schema → SchemaNoDeepTime schema

theorem normInt_inI64 {n s : Int} (h : normalizeIntegerEpoch n = some s) : inI64 s = true := by
  unfold normalizeIntegerEpoch at h
  split at h
  · cases h
  · dsimp only at h
    split at h
    · rename_i hin
      cases h
      exact hin
    · cases h

theorem neg_toInt_bounds (i : { i : Int64 // i < 0 }) : i64Min ≤ i.val.toInt ∧ i.val.toInt < 0 := by
  have h1 := Int64.le_toInt i.val
  have h2 := Int64.lt_iff_toInt_lt.mp i.property
  rw [Int64.toInt_zero] at h2
  unfold i64Min
  omega

theorem clampI64_inI64 (z : Int) : inI64 (clampI64 z) = true := by
  unfold clampI64 inI64 i64Min i64Max
  split
  · simp
  · split
    · simp
    · simp; omega

theorem floorToI64_inI64 (b : UInt64) : inI64 (floorToI64 b) = true := by
  unfold floorToI64
  dsimp only
  repeat' split
  all_goals first | exact clampI64_inI64 _ | decide

theorem int64_toInt_inI64 (z : Int64) : inI64 z.toInt = true := by
  have h1 := Int64.le_toInt z
  have h2 := Int64.toInt_lt z
  unfold inI64 i64Min i64Max
  simp
  omega

theorem parseTimeStr_inI64 {lib : TimeLib} {s : String} {z : Int} (h : parseTimeStr lib s = some z) :
    inI64 z = true := by
  unfold parseTimeStr at h
  simp only [] at h
  split at h
  · cases h
    exact int64_toInt_inI64 _
  · split at h
    · exact normInt_inI64 h
    · cases h

/-- Whatever the normaliser writes back is an integer in `i64`. -/
theorem normalizeJsonValue_ok {lib : TimeLib} {v v' : Json} (h : normalizeJsonValue lib v = .ok v') :
    ∃ z, inI64 z = true ∧ v' = .num (numOfI64 z) := by
  unfold normalizeJsonValue at h
  split at h
  · split at h
    · rename_i z hz
      cases h
      exact ⟨z, normInt_inI64 hz, rfl⟩
    · cases h
  · split at h
    · rename_i z hz
      cases h
      exact ⟨z, normInt_inI64 hz, rfl⟩
    · cases h
  · cases h
    exact ⟨_, floorToI64_inI64 _, rfl⟩
  · split at h
    · rename_i z hz
      cases h
      exact ⟨z, parseTimeStr_inI64 hz, rfl⟩
    · cases h
  · cases h

theorem okB_normalize_pos (lib : TimeLib) (n : UInt64) :
    okB (normalizeJsonValue lib (.num (.pos n))) = decide (n.toNat < 10 ^ 19) := by
  unfold normalizeJsonValue
  by_cases h : n.toNat < 10 ^ 19
  · obtain ⟨s, hs, _⟩ := normInt_some_of_nonneg (z := (n.toNat : Int)) (by omega) (by omega)
    simp [hs, okB, h]
  · have : normalizeIntegerEpoch (n.toNat : Int) = none :=
      normInt_none_of_big (by simp; omega)
    simp [this, okB, h]

theorem okB_normalize_neg (lib : TimeLib) (i : { i : Int64 // i < 0 }) :
    okB (normalizeJsonValue lib (.num (.neg i))) = true := by
  unfold normalizeJsonValue
  obtain ⟨h1, h2⟩ := neg_toInt_bounds i
  obtain ⟨s, hs, _⟩ := normInt_some_of_neg h1 h2
  simp [hs, okB]

/-- A value the normaliser produced passes the normaliser again. -/
theorem okB_renormalize (lib : TimeLib) {z : Int} (hz : inI64 z = true) :
    okB (normalizeJsonValue lib (.num (numOfI64 z))) = true := by
  unfold inI64 i64Min i64Max at hz
  simp at hz
  have hto : (Int64.ofInt z).toInt = z := Int64.toInt_ofInt_of_le (by omega) (by omega)
  unfold numOfI64
  split
  · exact okB_normalize_neg lib _
  · rename_i hneg
    have h0 : 0 ≤ z := by
      have : ¬ (Int64.ofInt z).toInt < (0 : Int64).toInt := fun h => hneg (Int64.lt_iff_toInt_lt.mpr h)
      rw [hto, Int64.toInt_zero] at this
      omega
    rw [okB_normalize_pos]
    have hlt : z.toNat < UInt64.size := by unfold UInt64.size; omega
    have : (UInt64.ofNat z.toNat).toNat = z.toNat := UInt64.toNat_ofNat_of_lt' hlt
    rw [this]
    simp
    omega

theorem isTime_iff (lib : TimeLib) (v : Json) :
    IsTime lib v ↔ (v.isString || v.isNumber) = true ∧ okB (normalizeJsonValue lib v) = true := by
  cases v with
  | null => simp [IsTime, Json.isString, Json.isNumber]
  | bool b => simp [IsTime, Json.isString, Json.isNumber]
  | arr xs => simp [IsTime, Json.isString, Json.isNumber]
  | obj kvs => simp [IsTime, Json.isString, Json.isNumber]
  | str s =>
    simp only [IsTime, Json.isString, Json.isNumber, Bool.or_false, true_and]
    unfold normalizeJsonValue
    cases h : parseTimeStr lib s <;> simp [okB, h]
  | num n =>
    cases n with
    | pos n => simp [IsTime, Json.isString, Json.isNumber, okB_normalize_pos]
    | neg i => simp [IsTime, Json.isString, Json.isNumber, okB_normalize_neg]
    | flt b => simp [IsTime, Json.isString, Json.isNumber, normalizeJsonValue, okB]

/-! ### `type_allows_value` against the declarative `HasType` -/

theorem hasType_iff_of_noTime (lib : TimeLib) (ty : FieldType) :
    ∀ v, timeUnder ty = false → (HasType lib ty v ↔ typeAllows ty v = true) := by
  induction ty with
  | string => intro v _; cases v <;> simp [HasType, typeAllows, Json.isString]
  | u64 =>
    intro v _
    cases v with
    | num n =>
      cases n with
      | pos n =>
        have := UInt64.toNat_lt n
        simp [HasType, typeAllows, Json.asU64IsSome, Json.intValue?]
        omega
      | neg i =>
        have := neg_toInt_bounds i
        simp [HasType, typeAllows, Json.asU64IsSome, Json.intValue?]
        omega
      | flt b => simp [HasType, typeAllows, Json.asU64IsSome, Json.intValue?]
    | _ => simp [HasType, typeAllows, Json.asU64IsSome, Json.intValue?]
  | i64 =>
    intro v _
    cases v with
    | num n =>
      cases n with
      | pos n =>
        simp [HasType, typeAllows, Json.asI64IsSome, Json.intValue?]
        unfold i64Max
        omega
      | neg i =>
        have := neg_toInt_bounds i
        unfold i64Min at this
        simp [HasType, typeAllows, Json.asI64IsSome, Json.intValue?]
        omega
      | flt b => simp [HasType, typeAllows, Json.asI64IsSome, Json.intValue?]
    | _ => simp [HasType, typeAllows, Json.asI64IsSome, Json.intValue?]
  | f64 => intro v _; cases v <;> simp [HasType, typeAllows, Json.asF64IsSome]
  | bool => intro v _; cases v <;> simp [HasType, typeAllows, Json.isBoolean]
  | timestamp => intro v h; simp [timeUnder] at h
  | date => intro v h; simp [timeUnder] at h
  | optional t ih =>
    intro v h
    have ht : timeUnder t = false := by simpa [timeUnder] using h
    have := ih v ht
    cases v <;> simp_all [HasType, typeAllows, Json.isNull]
  | «enum» vs =>
    intro v _
    cases v <;> simp [HasType, typeAllows, List.any_eq_true]

/-- What the normaliser demands of the value found under an entry of type `ty`. -/
def valueTimeOk (lib : TimeLib) (ty : FieldType) (v : Json) : Bool :=
  !normalizesField ty || (ty.isOptional && v.isNull) || okB (normalizeJsonValue lib v)

theorem normalizesField_optional_cases {t : FieldType} (h : normalizesField (.optional t) = true) :
    t = .timestamp ∨ t = .date := by
  cases t <;> simp [normalizesField] at h ⊢

theorem normalizesField_timeUnder {ty : FieldType} (h : normalizesField ty = true) : timeUnder ty = true := by
  cases ty with
  | optional t => rcases normalizesField_optional_cases h with rfl | rfl <;> rfl
  | _ => first | rfl | simp [normalizesField] at h

theorem hasType_iff (lib : TimeLib) (ty : FieldType) (v : Json) (h : NoDeepTime ty) :
    HasType lib ty v ↔ typeAllows ty v = true ∧ valueTimeOk lib ty v = true := by
  by_cases hu : timeUnder ty = true
  · have hn := h hu
    cases ty with
    | timestamp =>
      simp [HasType, typeAllows, valueTimeOk, normalizesField, FieldType.isOptional, isTime_iff]
    | date =>
      simp [HasType, typeAllows, valueTimeOk, normalizesField, FieldType.isOptional, isTime_iff]
    | optional t =>
      rcases normalizesField_optional_cases hn with rfl | rfl
      all_goals
        simp only [HasType, isTime_iff, typeAllows, valueTimeOk, normalizesField, FieldType.isOptional]
        cases v <;> simp [Json.isNull, Json.isString, Json.isNumber, normalizeJsonValue, okB]
    | _ => simp [timeUnder] at hu
  · have hu' : timeUnder ty = false := by simpa using hu
    have hn : normalizesField ty = false := by
      cases hnf : normalizesField ty
      · rfl
      · exact absurd (normalizesField_timeUnder hnf) hu
    rw [hasType_iff_of_noTime lib ty v hu']
    simp [valueTimeOk, hn]

/-! ### `validate_payload` -/

def entryShapeOk (kvs : List (String × Json)) (f : String) (ty : FieldType) : Bool :=
  match kvs.lookup f with
  | some v => typeAllows ty v
  | none => ty.isOptional

theorem checkFields_none_iff (kvs : List (String × Json)) (schema : Schema) :
    checkFields kvs schema = none ↔ ∀ f ty, (f, ty) ∈ schema → entryShapeOk kvs f ty = true := by
  induction schema with
  | nil => simp [checkFields]
  | cons e rest ih =>
    obtain ⟨f, ty⟩ := e
    simp only [checkFields, List.mem_cons, Prod.mk.injEq]
    constructor
    · intro h g ty' hm
      rcases hm with ⟨rfl, rfl⟩ | hm
      · unfold entryShapeOk
        split at h
        · rename_i v hv
          rw [hv]
          split at h
          · assumption
          · cases h
        · rename_i hv
          rw [hv]
          split at h
          · assumption
          · cases h
      · have hrest : checkFields kvs rest = none := by
          split at h
          · split at h
            · exact h
            · cases h
          · split at h
            · exact h
            · cases h
        exact ih.mp hrest g ty' hm
    · intro h
      have h0 := h f ty (Or.inl ⟨rfl, rfl⟩)
      have hr := ih.mpr (fun g ty' hm => h g ty' (Or.inr hm))
      unfold entryShapeOk at h0
      split
      · rename_i v hv
        rw [hv] at h0
        simp only [] at h0
        rw [if_pos h0]
        exact hr
      · rename_i hv
        rw [hv] at h0
        simp only [] at h0
        rw [if_pos h0]
        exact hr

theorem extraKeys_empty_iff (schema : Schema) (kvs : List (String × Json)) :
    (extraKeys schema kvs).isEmpty = true ↔ ∀ k v, (k, v) ∈ kvs → ∃ ty, (k, ty) ∈ schema := by
  unfold extraKeys
  rw [List.isEmpty_iff, List.filter_eq_nil_iff]
  constructor
  · intro h k v hm
    have := h k (List.mem_map.mpr ⟨(k, v), hm, rfl⟩)
    simp at this
    obtain ⟨ty, hty⟩ := this
    exact ⟨ty, hty⟩
  · intro h k hk
    obtain ⟨⟨k', v⟩, hm, rfl⟩ := List.mem_map.mp hk
    obtain ⟨ty, hty⟩ := h k' v hm
    simp
    exact ⟨ty, hty⟩

theorem validatePayload_none_iff (schema : Schema) (payload : Json) :
    validatePayload schema payload = none ↔
      ∃ kvs, payload = .obj kvs ∧ (∀ f ty, (f, ty) ∈ schema → entryShapeOk kvs f ty = true) ∧
        (∀ k v, (k, v) ∈ kvs → ∃ ty, (k, ty) ∈ schema) := by
  cases payload with
  | obj kvs =>
    simp only [validatePayload, Json.obj.injEq, exists_eq_left']
    rw [← checkFields_none_iff, ← extraKeys_empty_iff]
    cases hc : checkFields kvs schema with
    | some e => simp
    | none =>
      simp only [true_and]
      cases he : (extraKeys schema kvs).isEmpty <;> simp
  | _ => simp [validatePayload]

/-! ### `PayloadTimeNormalizer::normalize` -/

theorem lookup_setKey (f g : String) (v' : Json) (kvs : List (String × Json)) :
    (setKey f v' kvs).lookup g =
      if g = f then (kvs.lookup f).map (fun _ => v') else kvs.lookup g := by
  induction kvs with
  | nil => simp [setKey]
  | cons e rest ih =>
    obtain ⟨k, v⟩ := e
    unfold setKey
    by_cases hk : k = f
    · subst hk
      by_cases hg : g = k
      · subst hg; simp [List.lookup]
      · have : (g == k) = false := by simpa using hg
        simp [List.lookup, this, hg]
    · have hkf : (k == f) = false := by simpa using hk
      have hfk : (f == k) = false := by simpa using (fun h => hk h.symm)
      simp only [hkf]
      by_cases hg : g = f
      · subst hg
        simp [List.lookup, hfk, ih]
      · simp only [hg, if_false] at ih ⊢
        simp [List.lookup, ih]

theorem keys_setKey (f : String) (v' : Json) (kvs : List (String × Json)) :
    (setKey f v' kvs).map Prod.fst = kvs.map Prod.fst := by
  induction kvs with
  | nil => rfl
  | cons e rest ih =>
    obtain ⟨k, v⟩ := e
    unfold setKey
    split <;> simp [ih]

/-- The normaliser's demand on entry `(f, ty)` against a payload. -/
def entryTimeOk (lib : TimeLib) (kvs : List (String × Json)) (f : String) (ty : FieldType) : Bool :=
  match kvs.lookup f with
  | none => true
  | some v => valueTimeOk lib ty v

theorem okB_normalizeEntry (lib : TimeLib) (f : String) (ty : FieldType) (kvs : List (String × Json)) :
    okB (normalizeEntry lib f ty kvs) = entryTimeOk lib kvs f ty := by
  unfold normalizeEntry entryTimeOk valueTimeOk
  cases hn : normalizesField ty
  · cases kvs.lookup f <;> simp [okB]
  · cases hl : kvs.lookup f with
    | none => simp [okB]
    | some v =>
      simp only [if_true]
      cases hon : (ty.isOptional && v.isNull)
      · cases hv : normalizeJsonValue lib v <;> simp [okB]
      · simp [okB]

/-- A successful step leaves every entry's demand as it was (the value it wrote passes again). -/
theorem normalizeEntry_preserves (lib : TimeLib) {f : String} {ty : FieldType}
    {kvs kvs' : List (String × Json)} (h : normalizeEntry lib f ty kvs = .ok kvs') :
    ∀ g ty', entryTimeOk lib kvs' g ty' = entryTimeOk lib kvs g ty' := by
  intro g ty'
  unfold normalizeEntry at h
  split at h
  · split at h
    · cases h; rfl
    · rename_i v hv
      split at h
      · cases h; rfl
      · split at h
        · rename_i v' hv'
          cases h
          obtain ⟨z, hz, rfl⟩ := normalizeJsonValue_ok hv'
          unfold entryTimeOk
          rw [lookup_setKey]
          by_cases hg : g = f
          · subst hg
            simp only [if_true, hv, Option.map]
            unfold valueTimeOk
            rw [okB_renormalize lib hz]
            have : okB (normalizeJsonValue lib v) = true := by rw [hv']; rfl
            rw [this]
            simp
          · simp [hg]
        · cases h
  · cases h; rfl

theorem okB_normalizeFields (lib : TimeLib) (schema : Schema) :
    ∀ kvs, okB (normalizeFields lib schema kvs) = true ↔
      ∀ f ty, (f, ty) ∈ schema → entryTimeOk lib kvs f ty = true := by
  induction schema with
  | nil => intro kvs; simp [normalizeFields, okB]
  | cons e rest ih =>
    intro kvs
    obtain ⟨f, ty⟩ := e
    unfold normalizeFields
    have hstep := okB_normalizeEntry lib f ty kvs
    cases hn : normalizeEntry lib f ty kvs with
    | error e =>
      rw [hn] at hstep
      simp only [okB] at hstep ⊢
      constructor
      · intro h; cases h
      · intro h
        have := h f ty (List.mem_cons_self ..)
        rw [← hstep] at this
        cases this
    | ok kvs' =>
      rw [hn] at hstep
      simp only [okB] at hstep
      simp only []
      rw [ih kvs']
      have hp := normalizeEntry_preserves lib hn
      constructor
      · intro h g ty' hm
        rcases List.mem_cons.mp hm with heq | hm
        · cases heq; exact hstep.symm
        · rw [← hp]; exact h g ty' hm
      · intro h g ty' hm
        rw [hp]; exact h g ty' (List.mem_cons_of_mem _ hm)

/-! ### admission = conformance -/

theorem admit_ok_iff (lib : TimeLib) (schema : Schema) (payload : Json) (hs : SchemaNoDeepTime schema) :
    okB (admit lib schema payload) = true ↔ Conforms lib schema payload := by
  unfold admit Conforms
  cases hv : validatePayload schema payload with
  | some e =>
    simp only [okB]
    constructor
    · intro h; cases h
    · rintro ⟨kvs, rfl, hf, hx⟩
      have : validatePayload schema (.obj kvs) = none := by
        rw [validatePayload_none_iff]
        refine ⟨kvs, rfl, ?_, hx⟩
        intro f ty hm
        have := hf f ty hm
        unfold entryShapeOk
        split at this
        · rename_i v hl
          rw [hl]
          exact ((hasType_iff lib ty _ (hs f ty hm)).mp this).1
        · rename_i hl
          rw [hl]
          obtain ⟨t, rfl⟩ := this; rfl
      rw [this] at hv
      cases hv
  | none =>
    obtain ⟨kvs, rfl, hshape, hx⟩ := (validatePayload_none_iff schema payload).mp hv
    simp only []
    have hnf := okB_normalizeFields lib schema kvs
    constructor
    · intro h
      have hok : okB (normalizeFields lib schema kvs) = true := by
        cases hn : normalizeFields lib schema kvs with
        | ok k => rfl
        | error e => rw [hn] at h; cases h
      refine ⟨kvs, rfl, ?_, hx⟩
      intro f ty hm
      have h1 := hshape f ty hm
      have h2 := hnf.mp hok f ty hm
      unfold entryShapeOk at h1
      unfold entryTimeOk at h2
      split
      · rename_i v hl
        rw [hl] at h1 h2
        exact (hasType_iff lib ty v (hs f ty hm)).mpr ⟨h1, h2⟩
      · rename_i hl
        rw [hl] at h1
        simp only [] at h1
        cases ty <;> simp [FieldType.isOptional] at h1
        exact ⟨_, rfl⟩
    · rintro ⟨kvs', hk, hf, _⟩
      cases hk
      have hok : okB (normalizeFields lib schema kvs) = true := by
        rw [hnf]
        intro f ty hm
        have := hf f ty hm
        unfold entryTimeOk
        split at this
        · rename_i v hl
          rw [hl]
          exact ((hasType_iff lib ty v (hs f ty hm)).mp this).2
        · rename_i hl
          rw [hl]
      cases hn : normalizeFields lib schema kvs with
      | ok k => rfl
      | error e => rw [hn] at hok; cases hok

/-! ### what the stored payload looks like -/

theorem normalizeEntry_keys (lib : TimeLib) {f : String} {ty : FieldType}
    {kvs kvs' : List (String × Json)} (h : normalizeEntry lib f ty kvs = .ok kvs') :
    kvs'.map Prod.fst = kvs.map Prod.fst := by
  unfold normalizeEntry at h
  split at h
  · split at h
    · cases h; rfl
    · split at h
      · cases h; rfl
      · split at h
        · cases h; exact keys_setKey _ _ _
        · cases h
  · cases h; rfl

theorem normalizeFields_keys (lib : TimeLib) (schema : Schema) :
    ∀ kvs kvs', normalizeFields lib schema kvs = .ok kvs' → kvs'.map Prod.fst = kvs.map Prod.fst := by
  induction schema with
  | nil => intro kvs kvs' h; cases h; rfl
  | cons e rest ih =>
    intro kvs kvs' h
    obtain ⟨f, ty⟩ := e
    unfold normalizeFields at h
    split at h
    · rename_i k1 hk1
      rw [ih k1 kvs' h, normalizeEntry_keys lib hk1]
    · cases h

/-- Value under `f` is absent, `null`, or an integer the normaliser wrote. -/
def TimeDone (kvs : List (String × Json)) (f : String) : Prop :=
  kvs.lookup f = none ∨ kvs.lookup f = some .null ∨
    ∃ z, inI64 z = true ∧ kvs.lookup f = some (.num (numOfI64 z))

theorem normalizeEntry_done (lib : TimeLib) {f : String} {ty : FieldType}
    {kvs kvs' : List (String × Json)} (h : normalizeEntry lib f ty kvs = .ok kvs')
    (hn : normalizesField ty = true) : TimeDone kvs' f := by
  unfold normalizeEntry at h
  rw [if_pos hn] at h
  split at h
  · rename_i hl; cases h; exact Or.inl hl
  · rename_i v hl
    split at h
    · rename_i hnull
      cases h
      have : v = .null := by
        cases v <;> simp [Json.isNull] at hnull
        rfl
      subst this
      exact Or.inr (Or.inl hl)
    · split at h
      · rename_i v' hv'
        cases h
        obtain ⟨z, hz, rfl⟩ := normalizeJsonValue_ok hv'
        refine Or.inr (Or.inr ⟨z, hz, ?_⟩)
        rw [lookup_setKey]
        simp [hl]
      · cases h

theorem normalizeEntry_keeps_done (lib : TimeLib) {g f : String} {ty : FieldType}
    {kvs kvs' : List (String × Json)} (h : normalizeEntry lib g ty kvs = .ok kvs')
    (hd : TimeDone kvs f) : TimeDone kvs' f := by
  unfold normalizeEntry at h
  split at h
  · split at h
    · cases h; exact hd
    · rename_i v hl
      split at h
      · cases h; exact hd
      · split at h
        · rename_i v' hv'
          cases h
          obtain ⟨z, hz, rfl⟩ := normalizeJsonValue_ok hv'
          by_cases hfg : f = g
          · subst hfg
            refine Or.inr (Or.inr ⟨z, hz, ?_⟩)
            rw [lookup_setKey]
            simp [hl]
          · unfold TimeDone
            rw [lookup_setKey]
            simp only [hfg, if_false]
            exact hd
        · cases h
  · cases h; exact hd

theorem normalizeEntry_untouched (lib : TimeLib) {g f : String} {ty : FieldType}
    {kvs kvs' : List (String × Json)} (h : normalizeEntry lib g ty kvs = .ok kvs')
    (hne : normalizesField ty = false ∨ f ≠ g) : kvs'.lookup f = kvs.lookup f := by
  unfold normalizeEntry at h
  split at h
  · rename_i hn
    split at h
    · cases h; rfl
    · split at h
      · cases h; rfl
      · split at h
        · cases h
          rcases hne with hne | hne
          · rw [hn] at hne; cases hne
          · rw [lookup_setKey]; simp [hne]
        · cases h
  · cases h; rfl

theorem normalizeFields_done (lib : TimeLib) (schema : Schema) :
    ∀ kvs kvs', normalizeFields lib schema kvs = .ok kvs' →
      ∀ f, (TimeDone kvs f ∨ ∃ ty, (f, ty) ∈ schema ∧ normalizesField ty = true) → TimeDone kvs' f := by
  induction schema with
  | nil =>
    intro kvs kvs' h f hf
    cases h
    rcases hf with hf | ⟨ty, hm, _⟩
    · exact hf
    · cases hm
  | cons e rest ih =>
    intro kvs kvs' h f hf
    obtain ⟨g, ty⟩ := e
    unfold normalizeFields at h
    split at h
    · rename_i k1 hk1
      apply ih k1 kvs' h f
      rcases hf with hf | ⟨ty', hm, hn⟩
      · exact Or.inl (normalizeEntry_keeps_done lib hk1 hf)
      · rcases List.mem_cons.mp hm with heq | hm
        · cases heq
          exact Or.inl (normalizeEntry_done lib hk1 hn)
        · exact Or.inr ⟨ty', hm, hn⟩
    · cases h

theorem normalizeFields_untouched (lib : TimeLib) (schema : Schema) :
    ∀ kvs kvs', normalizeFields lib schema kvs = .ok kvs' →
      ∀ f, (∀ ty, (f, ty) ∈ schema → normalizesField ty = false) → kvs'.lookup f = kvs.lookup f := by
  induction schema with
  | nil => intro kvs kvs' h f _; cases h; rfl
  | cons e rest ih =>
    intro kvs kvs' h f hf
    obtain ⟨g, ty⟩ := e
    unfold normalizeFields at h
    split at h
    · rename_i k1 hk1
      rw [ih k1 kvs' h f (fun ty' hm => hf ty' (List.mem_cons_of_mem _ hm))]
      apply normalizeEntry_untouched lib hk1
      by_cases hfg : f = g
      · subst hfg
        exact Or.inl (hf ty (List.mem_cons_self ..))
      · exact Or.inr hfg
    · cases h

/-! ### the handlers -/

theorem store_ok_iff (lib : TimeLib) (st : St) (et ctx : String) (p : Json) :
    (store lib st et ctx p).1 = .ok () ↔
      blank et = false ∧ blank ctx = false ∧
        ∃ schema, st.schemas.lookup et = some schema ∧ okB (admit lib schema p) = true := by
  unfold store
  cases h1 : blank et
  · cases h2 : blank ctx
    · cases h3 : st.schemas.lookup et with
      | none => simp
      | some schema =>
        cases h4 : admit lib schema p <;> simp [okB, h4]
    · simp
  · simp

theorem store_error_state (lib : TimeLib) (st : St) (et ctx : String) (p : Json) (e : Err)
    (h : (store lib st et ctx p).1 = .error e) : (store lib st et ctx p).2 = st := by
  unfold store at h ⊢
  split
  · rfl
  · split
    · rfl
    · split
      · rfl
      · rename_i schema hs
        split
        · rfl
        · rename_i kvs' ha
          simp [hs, ha] at h
          split at h <;> simp_all

theorem store_ok_state (lib : TimeLib) (st : St) (et ctx : String) (p : Json)
    (h : (store lib st et ctx p).1 = .ok ()) :
    ∃ schema kvs', st.schemas.lookup et = some schema ∧ admit lib schema p = .ok kvs' ∧
      (store lib st et ctx p).2 = { st with events := st.events ++ [⟨et, ctx, kvs'⟩] } := by
  obtain ⟨h1, h2, schema, h3, h4⟩ := (store_ok_iff lib st et ctx p).mp h
  cases ha : admit lib schema p with
  | error e => rw [ha] at h4; cases h4
  | ok kvs' =>
    refine ⟨schema, kvs', h3, ha, ?_⟩
    unfold store
    simp [h1, h2, h3, ha]

theorem admit_ok_shape (lib : TimeLib) (schema : Schema) (p : Json) (kvs' : List (String × Json))
    (h : admit lib schema p = .ok kvs') :
    ∃ kvs, p = .obj kvs ∧ normalizeFields lib schema kvs = .ok kvs' := by
  unfold admit at h
  cases hv : validatePayload schema p with
  | some e => rw [hv] at h; cases h
  | none =>
    rw [hv] at h
    cases p with
    | obj kvs =>
      refine ⟨kvs, rfl, ?_⟩
      dsimp only at h
      cases hn : normalizeFields lib schema kvs with
      | ok k => rw [hn] at h; cases h; rfl
      | error e => rw [hn] at h; cases h
    | _ => cases h

/-! ### DEFINE produces only shallow types -/

theorem fromPrimitiveChars_some {cs : List Char} {ty : FieldType} (h : fromPrimitiveChars cs = some ty) :
    ∃ p, ty = primToField p := by
  unfold fromPrimitiveChars at h
  cases hl : primAliases.lookup (String.ofList (asciiLower cs)) with
  | none => rw [hl] at h; cases h
  | some p => rw [hl] at h; cases h; exact ⟨p, rfl⟩

theorem fromSpecChars_some {cs : List Char} {ty : FieldType} (h : fromSpecChars cs = some ty) :
    ∃ p, ty = primToField p ∨ ty = .optional (primToField p) := by
  unfold fromSpecChars at h
  split at h
  · dsimp only at h
    split at h
    · split at h
      · rename_i base hb
        obtain ⟨p, rfl⟩ := fromPrimitiveChars_some hb
        cases h
        split
        · exact ⟨p, Or.inr rfl⟩
        · exact ⟨p, Or.inl rfl⟩
      · cases h
    · cases h
  · obtain ⟨p, rfl⟩ := fromPrimitiveChars_some h
    exact ⟨p, Or.inl rfl⟩

/-- The three shapes DEFINE can produce. -/
theorem fieldOfSpec_shape (spec : FieldSpec) :
    (∃ p, fieldOfSpec spec = primToField p) ∨ (∃ p, fieldOfSpec spec = .optional (primToField p)) ∨
      (∃ vs, fieldOfSpec spec = .enum vs) := by
  cases spec with
  | «enum» vs => exact Or.inr (Or.inr ⟨vs, rfl⟩)
  | prim s =>
    cases h : fromSpecChars s.toList with
    | none => exact Or.inl ⟨.string, by simp [fieldOfSpec, h, primToField]⟩
    | some ty =>
      obtain ⟨p, hp | hp⟩ := fromSpecChars_some h
      · exact Or.inl ⟨p, by simp [fieldOfSpec, h, hp]⟩
      · exact Or.inr (Or.inl ⟨p, by simp [fieldOfSpec, h, hp]⟩)

theorem noDeepTime_fieldOfSpec (spec : FieldSpec) : NoDeepTime (fieldOfSpec spec) := by
  rcases fieldOfSpec_shape spec with ⟨p, h⟩ | ⟨p, h⟩ | ⟨vs, h⟩
  · rw [h]; cases p <;> simp [NoDeepTime, primToField, timeUnder, normalizesField]
  · rw [h]; cases p <;> simp [NoDeepTime, primToField, timeUnder, normalizesField]
  · rw [h]; simp [NoDeepTime, timeUnder]

theorem schemaNoDeepTime_ofSpecs (specs : List (String × FieldSpec)) :
    SchemaNoDeepTime (schemaOfSpecs specs) := by
  intro f ty hm
  unfold schemaOfSpecs at hm
  obtain ⟨⟨k, s⟩, _, heq⟩ := List.mem_map.mp hm
  cases heq
  exact noDeepTime_fieldOfSpec s

/-! ### flatness -/

theorem hasType_scalar (lib : TimeLib) (ty : FieldType) : ∀ v, HasType lib ty v → v.isScalar = true := by
  induction ty with
  | optional t ih =>
    intro v h
    rcases h with rfl | h
    · rfl
    · exact ih v h
  | timestamp => intro v h; cases v <;> simp_all [HasType, IsTime, Json.isScalar]
  | date => intro v h; cases v <;> simp_all [HasType, IsTime, Json.isScalar]
  | _ => intro v h; cases v <;> simp_all [HasType, Json.isScalar, Json.intValue?]

theorem mem_of_lookup {k : String} {v : Json} : ∀ {kvs : List (String × Json)},
    kvs.lookup k = some v → (k, v) ∈ kvs := by
  intro kvs
  induction kvs with
  | nil => intro h; cases h
  | cons e rest ih =>
    obtain ⟨k', v'⟩ := e
    intro h
    rw [List.lookup_cons] at h
    by_cases hk : k = k'
    · subst hk
      simp at h
      subst h
      exact List.mem_cons_self ..
    · have : (k == k') = false := by simpa using hk
      rw [this] at h
      exact List.mem_cons_of_mem _ (ih h)

/-! ### `trim().is_empty()` -/

theorem dropWhile_nil_iff (p : Char → Bool) (l : List Char) :
    l.dropWhile p = [] ↔ ∀ c ∈ l, p c = true := by
  induction l with
  | nil => simp
  | cons a rest ih =>
    rw [List.dropWhile_cons]
    cases hp : p a
    · simp [hp]
    · simp [hp, ih]

theorem trimChars_nil_iff (cs : List Char) : trimChars cs = [] ↔ ∀ c ∈ cs, isWs c = true := by
  unfold trimChars trimEnd trimStart
  constructor
  · intro h
    have h1 : (cs.dropWhile isWs).reverse.dropWhile isWs = [] := by
      simpa using congrArg List.reverse h
    rw [dropWhile_nil_iff] at h1
    have h2 : ∀ c ∈ cs.dropWhile isWs, isWs c = true := fun c hc => h1 c (List.mem_reverse.mpr hc)
    cases hd : cs.dropWhile isWs with
    | nil => exact (dropWhile_nil_iff _ _).mp hd
    | cons a rest =>
      have hnot : isWs a = false := by
        have := List.head_dropWhile_not isWs (l := cs) (by rw [hd]; simp)
        simpa [hd] using this
      have := h2 a (by rw [hd]; exact List.mem_cons_self ..)
      rw [hnot] at this
      cases this
  · intro h
    have : cs.dropWhile isWs = [] := (dropWhile_nil_iff _ _).mpr h
    simp [this]

/-! ### the STORE grammar's brace matcher -/

theorem pegBalanced_none_of_ne (f : Nat) (c : Char) (cs : List Char) (h : c ≠ '{') :
    pegBalanced f (c :: cs) = none := by
  unfold pegBalanced
  split
  · rename_i heq
    cases heq
    exact absurd rfl h
  · rfl

theorem pegBody_plain (body rest : List Char) (hb : ∀ c ∈ body, c ≠ '{' ∧ c ≠ '}') :
    ∀ f, body.length + 1 ≤ f → pegBody f (body ++ '}' :: rest) = some rest := by
  induction body with
  | nil =>
    intro f hf
    obtain ⟨f, rfl⟩ : ∃ g, f = g + 1 := ⟨f - 1, by simp at hf; omega⟩
    simp [pegBody, pegBalanced_none_of_ne f '}' rest (by decide)]
  | cons c b ih =>
    intro f hf
    obtain ⟨f, rfl⟩ : ∃ g, f = g + 1 := ⟨f - 1, by simp at hf; omega⟩
    have hc := hb c (List.mem_cons_self ..)
    have := ih (fun x hx => hb x (List.mem_cons_of_mem _ hx)) f (by simp at hf ⊢; omega)
    simp only [List.cons_append, pegBody, pegBalanced_none_of_ne f c _ hc.1]
    split
    · rename_i heq
      cases heq
      exact absurd rfl hc.2
    · rename_i heq
      cases heq
      exact this
    · rename_i heq
      cases heq

end Snel.Validate
