import Snel.Model.C08Zone
/-! Helper lemmas for C08 — enum bitmaps, temporal index, calendar, XOR index. -/
namespace Snel.C08
open Snel.Gen.C08

/-! ### sorted duplicate-free lists -/

theorem mem_insU (x a : Int) : ∀ l : List Int, a ∈ insU x l ↔ a = x ∨ a ∈ l
  | [] => by simp [insU]
  | y :: ys => by
    simp only [insU]
    by_cases h1 : x < y
    · simp [h1]
    · simp only [h1, if_false]
      by_cases h2 : x = y
      · subst h2; simp
      · simp only [h2, if_false, List.mem_cons, mem_insU x a ys]
        constructor
        · rintro (h | h | h) <;> simp [h]
        · rintro (h | h | h) <;> simp [h]

theorem mem_sortDedup (a : Int) : ∀ l : List Int, a ∈ sortDedup l ↔ a ∈ l
  | [] => by simp [sortDedup]
  | x :: xs => by
    have ih := mem_sortDedup a xs
    simp only [sortDedup, List.foldr_cons] at ih ⊢
    rw [mem_insU, ih]; simp

theorem mem_insUN (x a : Nat) : ∀ l : List Nat, a ∈ insUN x l ↔ a = x ∨ a ∈ l
  | [] => by simp [insUN]
  | y :: ys => by
    simp only [insUN]
    by_cases h1 : x < y
    · simp [h1]
    · simp only [h1, if_false]
      by_cases h2 : x = y
      · subst h2; simp
      · simp only [h2, if_false, List.mem_cons, mem_insUN x a ys]
        constructor
        · rintro (h | h | h) <;> simp [h]
        · rintro (h | h | h) <;> simp [h]

theorem mem_sortDedupN (a : Nat) : ∀ l : List Nat, a ∈ sortDedupN l ↔ a ∈ l
  | [] => by simp [sortDedupN]
  | x :: xs => by
    have ih := mem_sortDedupN a xs
    simp only [sortDedupN, List.foldr_cons] at ih ⊢
    rw [mem_insUN, ih]; simp

theorem pairwise_insU (x : Int) : ∀ l : List Int, l.Pairwise (· < ·) → (insU x l).Pairwise (· < ·)
  | [], _ => by simp [insU]
  | y :: ys, h => by
    simp only [insU]
    rw [List.pairwise_cons] at h
    by_cases h1 : x < y
    · simp only [h1, if_true]
      rw [List.pairwise_cons]
      refine ⟨?_, List.pairwise_cons.2 h⟩
      intro a ha
      rcases List.mem_cons.1 ha with rfl | ha
      · exact h1
      · have := h.1 a ha; omega
    · simp only [h1, if_false]
      by_cases h2 : x = y
      · simp only [h2, if_true]; exact List.pairwise_cons.2 h
      · simp only [h2, if_false]
        rw [List.pairwise_cons]
        refine ⟨?_, pairwise_insU x ys h.2⟩
        intro a ha
        rcases (mem_insU x a ys).1 ha with rfl | ha
        · omega
        · exact h.1 a ha

theorem pairwise_sortDedup : ∀ l : List Int, (sortDedup l).Pairwise (· < ·)
  | [] => by simp [sortDedup]
  | x :: xs => by
    have ih := pairwise_sortDedup xs
    simp only [sortDedup, List.foldr_cons] at ih ⊢
    exact pairwise_insU x _ ih

theorem head_le_of_sorted : ∀ (l : List Int) (h : Int), l.Pairwise (· < ·) → l.head? = some h →
    ∀ a ∈ l, h ≤ a
  | [], _, _, hh, _, _ => by cases hh
  | x :: xs, h, hp, hh, a, ha => by
    simp only [List.head?_cons, Option.some.injEq] at hh
    subst hh
    rw [List.pairwise_cons] at hp
    rcases List.mem_cons.1 ha with rfl | ha
    · exact Int.le_refl _
    · exact Int.le_of_lt (hp.1 a ha)

theorem last_ge_of_sorted : ∀ (l : List Int) (m : Int), l.Pairwise (· < ·) → l.getLast? = some m →
    m ∈ l ∧ ∀ a ∈ l, a ≤ m
  | [], _, _, hm => by cases hm
  | [x], m, _, hm => by
    simp at hm; subst hm; simp
  | x :: y :: ys, m, hp, hm => by
    rw [List.getLast?_cons_cons] at hm
    rw [List.pairwise_cons] at hp
    obtain ⟨hmem, hle⟩ := last_ge_of_sorted (y :: ys) m hp.2 hm
    refine ⟨List.mem_cons_of_mem _ hmem, ?_⟩
    intro a ha
    rcases List.mem_cons.1 ha with rfl | ha
    · exact Int.le_of_lt (hp.1 m hmem)
    · exact hle a ha

/-- The bounds stored in the index bracket every timestamp it was built from. -/
theorem zti_bounds (ts : List Int) (stride t : Int) (ht : t ∈ ts) :
    (Zti.ofTimestamps ts stride).minTs ≤ t ∧ t ≤ (Zti.ofTimestamps ts stride).maxTs := by
  have hs : t ∈ sortDedup ts := (mem_sortDedup t ts).2 ht
  have hp := pairwise_sortDedup ts
  simp only [Zti.ofTimestamps]
  generalize sortDedup ts = s at hs hp
  cases hh : s.head? with
  | none => cases s <;> simp_all
  | some h =>
    cases hl : s.getLast? with
    | none => cases s <;> simp_all
    | some m =>
      simp only [Option.getD_some]
      exact ⟨head_le_of_sorted s h hp hh t hs, (last_ge_of_sorted s m hp hl).2 t hs⟩

/-- The std contract used for `=` probes: the binary search finds every element of the key
vector (true of a sorted vector). -/
def BsFindsMembers (keys : List Nat) : Prop := ∀ k ∈ keys, bsearchOk keys k = true

theorem zti_contains (ts : List Int) (t : Int) (ht : t ∈ ts)
    (hbs : BsFindsMembers (Zti.ofTimestamps ts 1).keys) :
    (Zti.ofTimestamps ts 1).containsTs t = true := by
  obtain ⟨h1, h2⟩ := zti_bounds ts 1 t ht
  have hs : t ∈ sortDedup ts := (mem_sortDedup t ts).2 ht
  unfold Zti.containsTs
  have c1 : (decide (t < (Zti.ofTimestamps ts 1).minTs) || decide (t > (Zti.ofTimestamps ts 1).maxTs)) = false := by
    simp; omega
  rw [c1]
  simp only [Bool.false_eq_true, if_false]
  have c2 : (Zti.ofTimestamps ts 1).stride = 1 := rfl
  rw [c2]
  simp only [Int.lt_irrefl, decide_false, Bool.false_and, Bool.false_eq_true, if_false]
  apply hbs
  simp only [Zti.ofTimestamps]
  exact List.mem_map.2 ⟨t, hs, rfl⟩

/-! ### enum bitmaps -/

theorem pos_lt {α} [DecidableEq α] : ∀ (l : List α) (x : α) (k : Nat), pos l x = some k → k < l.length
  | [], _, _, h => by cases h
  | v :: vs, x, k, h => by
    simp only [pos] at h
    by_cases hv : v = x
    · simp [hv] at h; subst h; simp
    · simp only [hv, if_false, Option.map_eq_some_iff] at h
      obtain ⟨k', hk', rfl⟩ := h
      have := pos_lt vs x k' hk'
      simp; omega

theorem pos_inj {α} [DecidableEq α] : ∀ (l : List α) (a b : α) (k : Nat),
    pos l a = some k → pos l b = some k → a = b
  | [], _, _, _, h, _ => by cases h
  | v :: vs, a, b, k, ha, hb => by
    simp only [pos] at ha hb
    by_cases hva : v = a
    · by_cases hvb : v = b
      · rw [← hva, ← hvb]
      · simp only [hva, if_true, Option.some.injEq] at ha
        simp only [hvb, if_false, Option.map_eq_some_iff] at hb
        obtain ⟨k', _, rfl⟩ := hb
        omega
    · by_cases hvb : v = b
      · simp only [hvb, if_true, Option.some.injEq] at hb
        simp only [hva, if_false, Option.map_eq_some_iff] at ha
        obtain ⟨k', _, rfl⟩ := ha
        omega
      · simp only [hva, if_false, Option.map_eq_some_iff] at ha
        simp only [hvb, if_false, Option.map_eq_some_iff] at hb
        obtain ⟨k1, h1, rfl⟩ := ha
        obtain ⟨k2, h2, hk⟩ := hb
        have : k2 = k1 := by omega
        subst this
        exact pos_inj vs a b k2 h1 h2

theorem pos_some_of_mem {α} [DecidableEq α] : ∀ (l : List α) (x : α), x ∈ l → ∃ k, pos l x = some k
  | [], _, h => by cases h
  | v :: vs, x, h => by
    simp only [pos]
    by_cases hv : v = x
    · exact ⟨0, by simp [hv]⟩
    · rcases List.mem_cons.1 h with rfl | h
      · exact absurd rfl hv
      · obtain ⟨k, hk⟩ := pos_some_of_mem vs x h
        exact ⟨k + 1, by simp [hv, hk]⟩

theorem rowsFrom_ne_nil {α} [DecidableEq α] (variants : List α) (vid : Nat) (x : α)
    (hx : pos variants x = some vid) : ∀ (vals : List α) (i : Nat), x ∈ vals →
    rowsFrom variants vid i vals ≠ []
  | [], _, h => by cases h
  | v :: vs, i, h => by
    simp only [rowsFrom]
    by_cases hv : pos variants v = some vid
    · simp [hv]
    · simp only [hv, if_false]
      rcases List.mem_cons.1 h with rfl | h
      · exact absurd hx hv
      · exact rowsFrom_ne_nil variants vid x hx vs (i + 1) h

theorem hasAny_of_mem {α} [DecidableEq α] (variants : List α) (rows : Nat) (vals : List α)
    (bs : List (List Nat)) (x : α) (vid : Nat)
    (hb : addZoneValues variants rows vals = some bs) (hx : x ∈ vals) (hp : pos variants x = some vid) :
    hasAny bs vid = true ∧ bs.length = variants.length := by
  unfold addZoneValues at hb
  split at hb
  · cases hb
  · simp only [Option.some.injEq] at hb
    subst hb
    have hlt := pos_lt variants x vid hp
    refine ⟨?_, by simp⟩
    unfold hasAny
    simp only [List.getElem?_map, List.getElem?_range hlt, Option.map_some]
    have := rowsFrom_ne_nil variants vid x hp vals 0 hx
    cases h : rowsFrom variants vid 0 vals with
    | nil => exact absurd h this
    | cons _ _ => rfl

theorem ebmBuild_mem {α} [DecidableEq α] (variants : List α) (rows : Nat) :
    ∀ (zones : List (Nat × List α)) (built : List (Nat × List (List Nat))) (z : Nat) (vals : List α),
    ebmBuild variants rows zones = some built → (z, vals) ∈ zones →
    ∃ bs, addZoneValues variants rows vals = some bs ∧ (z, bs) ∈ built
  | [], _, _, _, _, h => by cases h
  | (z0, v0) :: rest, built, z, vals, hb, hm => by
    simp only [ebmBuild] at hb
    cases ha : addZoneValues variants rows v0 with
    | none => rw [ha] at hb; cases hb
    | some b0 =>
      cases hr : ebmBuild variants rows rest with
      | none => rw [ha, hr] at hb; cases hb
      | some r =>
        rw [ha, hr] at hb
        simp only [Option.some.injEq] at hb
        subst hb
        rcases List.mem_cons.1 hm with h | h
        · simp only [Prod.mk.injEq] at h
          obtain ⟨rfl, rfl⟩ := h
          exact ⟨b0, ha, List.mem_cons_self⟩
        · obtain ⟨bs, h1, h2⟩ := ebmBuild_mem variants rows rest r z vals hr h
          exact ⟨bs, h1, List.mem_cons_of_mem _ h2⟩

/-! ### calendar -/

theorem bucket_mem (step mn t mx : Nat) (hs : 0 < step) (h1 : mn ≤ t) (h2 : t ≤ mx) :
    bucketId (t / step * step) ∈ bucketsOf step mn mx := by
  unfold bucketsOf
  have q1 : mn / step ≤ t / step := Nat.div_le_div_right h1
  have q2 : t / step ≤ mx / step := Nat.div_le_div_right h2
  generalize mn / step = qa at *
  generalize t / step = qt at *
  generalize mx / step = qb at *
  have hab : qa * step ≤ qb * step := Nat.mul_le_mul_right step (by omega)
  simp only [hab, if_true]
  have hd : (qb * step - qa * step) / step = qb - qa := by
    rw [← Nat.sub_mul, Nat.mul_div_cancel _ hs]
  refine List.mem_map.2 ⟨qt - qa, List.mem_range.2 (by rw [hd]; omega), ?_⟩
  congr 1
  rw [← Nat.add_mul]
  congr 1
  omega

theorem hour_bucket_mem (mn t mx : Nat) (h1 : mn ≤ t) (h2 : t ≤ mx) :
    bucketId (hourOf t) ∈ bucketsOf hourSecs mn mx := bucket_mem hourSecs mn t mx (by decide) h1 h2

theorem day_bucket_mem (mn t mx : Nat) (h1 : mn ≤ t) (h2 : t ≤ mx) :
    bucketId (dayOf t) ∈ bucketsOf daySecs mn mx := bucket_mem daySecs mn t mx (by decide) h1 h2

theorem bucketId_day_of_lt (t : Nat) (h : t < 2 ^ 32) : bucketId (dayOf t) = dayOf t := by
  unfold bucketId dayOf
  apply Nat.mod_eq_of_lt
  simp only [daySecs, bucketIdBits]
  omega

theorem mem_dayUnion (regs : List Reg) (p : Nat → Bool) (r : Reg) (hr : r ∈ regs) (b : Nat)
    (hb : b ∈ bucketsOf daySecs r.mn r.mx) (hp : p b = true) : r.zone ∈ dayUnion regs p := by
  unfold dayUnion
  rw [mem_sortDedupN]
  exact List.mem_map.2 ⟨r, List.mem_filter.2 ⟨hr, List.any_eq_true.2 ⟨b, hb, hp⟩⟩, rfl⟩

theorem mem_zonesForTs (regs : List Reg) (r : Reg) (hr : r ∈ regs) (t : Nat)
    (h1 : r.mn ≤ t) (h2 : t ≤ r.mx) : r.zone ∈ zonesForTs regs t := by
  have hz : r.zone ∈ hourZones regs (bucketId (hourOf t)) := by
    unfold hourZones
    rw [mem_sortDedupN]
    refine List.mem_map.2 ⟨r, List.mem_filter.2 ⟨hr, ?_⟩, rfl⟩
    rw [List.contains_iff_mem]
    exact hour_bucket_mem r.mn t r.mx h1 h2
  unfold zonesForTs
  simp only
  cases hh : hourZones regs (bucketId (hourOf t)) with
  | nil => rw [hh] at hz; cases hz
  | cons a as => rw [hh] at hz; simpa using hz

/-! ### XOR index -/

theorem mem_xorZones {F} (ops : FuseOps F) (hash : String → Nat) (hnf : ops.NoFalseNeg)
    (zones : List (Nat × List XV)) (z : Nat) (vals : List XV) (hz : (z, vals) ∈ zones)
    (x probe : XV) (s : String) (hx : x ∈ vals) (hxs : valueToString x = some s)
    (hps : valueToString probe = some s) (f : F) (hb : ops.build (zoneHashes hash vals) = some f) :
    z ∈ xorZones ops hash (xorBuild ops hash zones) probe := by
  unfold xorZones
  rw [hps]
  simp only
  have hs : s ∈ vals.filterMap valueToString := List.mem_filterMap.2 ⟨x, hx, hxs⟩
  have hk : hash s ∈ zoneHashes hash vals := by
    unfold zoneHashes
    rw [List.mem_eraseDups]
    exact List.mem_map.2 ⟨s, hs, rfl⟩
  have hc := hnf _ f hb (hash s) hk
  refine List.mem_map.2 ⟨(z, f), List.mem_filter.2 ⟨?_, hc⟩, rfl⟩
  unfold xorBuild
  refine List.mem_filterMap.2 ⟨(z, vals), hz, ?_⟩
  have hne : (vals.filterMap valueToString).isEmpty = false := by
    cases h : vals.filterMap valueToString with
    | nil => rw [h] at hs; cases hs
    | cons _ _ => rfl
  simp only [hne, Bool.false_eq_true, if_false, hb, Option.map_some]

end Snel.C08
