import Snel.Model.C08Trie
/-! Helper lemmas for C08 — the byte trie and its range probes (tree level). -/
namespace Snel.C08

/-! ### lexicographic order -/

theorem lexLt_cons (x y : Nat) (xs ys : List Nat) :
    lexLt (x :: xs) (y :: ys) = true ↔ x < y ∨ (x = y ∧ lexLt xs ys = true) := by
  simp only [lexLt]
  by_cases h1 : x < y
  · simp [h1]
  · by_cases h2 : x = y
    · simp [h2]
    · simp [h1, h2]

theorem lexLt_nil_right (a : List Nat) : lexLt a [] = false := by cases a <;> rfl

theorem lexLe_nil_left (a : List Nat) : lexLe [] a = true := by simp [lexLe, lexLt_nil_right]

theorem lexLt_irrefl (a : List Nat) : lexLt a a = false := by
  induction a with
  | nil => rfl
  | cons x xs ih =>
    cases h : lexLt (x :: xs) (x :: xs) with
    | false => rfl
    | true => rw [lexLt_cons] at h; rcases h with h | ⟨_, h⟩ <;> simp_all

theorem lexLe_refl (a : List Nat) : lexLe a a = true := by simp [lexLe, lexLt_irrefl]

/-- `a < b ≤ c → a < c`. -/
theorem lexLt_le_trans : ∀ a b c : List Nat, lexLt a b = true → lexLt c b = false → lexLt a c = true := by
  intro a
  induction a with
  | nil =>
    intro b c h1 h2
    cases b with
    | nil => cases h1
    | cons y ys =>
      cases c with
      | nil => cases h2
      | cons z zs => rfl
  | cons x xs ih =>
    intro b c h1 h2
    cases b with
    | nil => simp [lexLt] at h1
    | cons y ys =>
      cases c with
      | nil => cases h2
      | cons z zs =>
        rw [lexLt_cons] at h1 ⊢
        have h2' : ¬ (z < y ∨ (z = y ∧ lexLt zs ys = true)) := by
          intro h; rw [← lexLt_cons] at h; rw [h] at h2; cases h2
        rcases h1 with h1 | ⟨rfl, h1⟩
        · left; omega
        · by_cases hz : x < z
          · left; exact hz
          · have hzy : z = x := by omega
            subst hzy
            right
            refine ⟨rfl, ih ys zs h1 ?_⟩
            cases h : lexLt zs ys with
            | false => rfl
            | true => exact absurd (Or.inr ⟨rfl, h⟩) h2'

/-- `a ≤ b < c → a < c`. -/
theorem lexLe_lt_trans : ∀ a b c : List Nat, lexLt b a = false → lexLt b c = true → lexLt a c = true := by
  intro a
  induction a with
  | nil =>
    intro b c _ h2
    cases c with
    | nil => rw [lexLt_nil_right] at h2; cases h2
    | cons z zs => rfl
  | cons x xs ih =>
    intro b c h1 h2
    cases c with
    | nil => rw [lexLt_nil_right] at h2; cases h2
    | cons z zs =>
      cases b with
      | nil => cases h1
      | cons y ys =>
        rw [lexLt_cons] at h2 ⊢
        have h1' : ¬ (y < x ∨ (y = x ∧ lexLt ys xs = true)) := by
          intro h; rw [← lexLt_cons] at h; rw [h] at h1; cases h1
        rcases h2 with h2 | ⟨rfl, h2⟩
        · left; omega
        · by_cases hz : x < y
          · left; exact hz
          · have hxy : y = x := by omega
            subst hxy
            right
            refine ⟨rfl, ih ys zs ?_ h2⟩
            cases h : lexLt ys xs with
            | false => rfl
            | true => exact absurd (Or.inr ⟨rfl, h⟩) h1'

theorem lexLt_asymm : ∀ a b : List Nat, lexLt a b = true → lexLt b a = false := by
  intro a
  induction a with
  | nil => intro b _; exact lexLt_nil_right b
  | cons x xs ih =>
    intro b h
    cases b with
    | nil => cases h
    | cons y ys =>
      rw [lexLt_cons] at h
      cases h2 : lexLt (y :: ys) (x :: xs) with
      | false => rfl
      | true =>
        rw [lexLt_cons] at h2
        rcases h with h | ⟨rfl, h⟩
        · rcases h2 with h2 | ⟨h2, _⟩ <;> omega
        · rcases h2 with h2 | ⟨_, h2⟩
          · omega
          · rw [ih ys h] at h2; cases h2

/-! ### well-formedness of built tries -/

/-- All labels of a child list exceed `b`. -/
def allGt (b : Nat) : Kids → Prop
  | .nil => True
  | .cons b' _ rest => b < b' ∧ allGt b rest

mutual
/-- Children sorted by label, every child subtree holds a key (no dead branches). -/
def wfT : Trie → Prop
  | .node _ kids => wfK kids
def wfK : Kids → Prop
  | .nil => True
  | .cons b c rest => wfT c ∧ keysT c ≠ [] ∧ allGt b rest ∧ wfK rest
end

mutual
/-- No terminal node has children (the key set is prefix-free). -/
def pfT : Trie → Prop
  | .node term kids => (term = true → kids = .nil) ∧ pfK kids
def pfK : Kids → Prop
  | .nil => True
  | .cons _ c rest => pfT c ∧ pfK rest
end

mutual
/-- Every key of the subtree has length `n`. -/
def uniT : Nat → Trie → Prop
  | n, .node term kids => (term = true → n = 0) ∧ uniK n kids
def uniK : Nat → Kids → Prop
  | _, .nil => True
  | n, .cons _ c rest =>
    (match n with
      | 0 => False
      | m + 1 => uniT m c) ∧ uniK n rest
end

theorem single_keys (bs : List Nat) : keysT (single bs) = [bs] := by
  induction bs with
  | nil => simp [single, keysT, keysK]
  | cons b bs ih => simp [single, keysT, keysK, ih]

theorem single_wf (bs : List Nat) : wfT (single bs) := by
  induction bs with
  | nil => simp [single, wfT, wfK]
  | cons b bs ih => simp [single, wfT, wfK, ih, single_keys, allGt]

theorem single_uni (bs : List Nat) : uniT bs.length (single bs) := by
  induction bs with
  | nil => simp [single, uniT, uniK]
  | cons b bs ih => simp [single, uniT, uniK, ih]

mutual
theorem mem_insT_self : ∀ (key : List Nat) (t : Trie), key ∈ keysT (insT key t)
  | [], .node _ k => by simp [insT, keysT]
  | b :: bs, .node t k => by
    simp only [insT, keysT, List.mem_append]
    right; exact mem_insK_self b bs k
theorem mem_insK_self : ∀ (b : Nat) (bs : List Nat) (kids : Kids), (b :: bs) ∈ keysK (insK b bs kids)
  | b, bs, .nil => by simp [insK, keysK, single_keys]
  | b, bs, .cons b' c rest => by
    simp only [insK]
    by_cases h1 : b = b'
    · subst h1
      simp only [if_true, keysK, List.mem_append, List.mem_map]
      left; exact ⟨bs, mem_insT_self bs c, rfl⟩
    · simp only [h1, if_false]
      by_cases h2 : b < b'
      · simp [h2, keysK, single_keys]
      · simp only [h2, if_false, keysK, List.mem_append]
        right; exact mem_insK_self b bs rest
end

mutual
theorem mem_insT_of_mem : ∀ (key : List Nat) (t : Trie) (k : List Nat), k ∈ keysT t → k ∈ keysT (insT key t)
  | [], .node tm kids, k, h => by
    simp only [insT, keysT, List.mem_append] at h ⊢
    rcases h with h | h
    · left; cases tm <;> simp_all
    · right; exact h
  | b :: bs, .node t kids, k, h => by
    simp only [insT, keysT, List.mem_append] at h ⊢
    rcases h with h | h
    · left; exact h
    · right; exact mem_insK_of_mem b bs kids k h
theorem mem_insK_of_mem : ∀ (b : Nat) (bs : List Nat) (kids : Kids) (k : List Nat),
    k ∈ keysK kids → k ∈ keysK (insK b bs kids)
  | b, bs, .nil, k, h => by simp [keysK] at h
  | b, bs, .cons b' c rest, k, h => by
    simp only [insK]
    by_cases h1 : b = b'
    · subst h1
      simp only [if_true, keysK, List.mem_append, List.mem_map] at h ⊢
      rcases h with ⟨k', hk', rfl⟩ | h
      · left; exact ⟨k', mem_insT_of_mem bs c k' hk', rfl⟩
      · right; exact h
    · simp only [h1, if_false]
      by_cases h2 : b < b'
      · simp only [h2, if_true]
        rw [keysK, List.mem_append]
        right; exact h
      · simp only [h2, if_false]
        simp only [keysK, List.mem_append] at h ⊢
        rcases h with h | h
        · left; exact h
        · right; exact mem_insK_of_mem b bs rest k h
end

theorem ne_nil_of_mem {α} {a : α} {l : List α} (h : a ∈ l) : l ≠ [] := by
  intro e; subst e; cases h

theorem allGt_insK (x b : Nat) (bs : List Nat) : ∀ kids : Kids, x < b → allGt x kids → allGt x (insK b bs kids)
  | .nil, hx, _ => by simp [insK, allGt, hx]
  | .cons b' c rest, hx, h => by
    simp only [allGt] at h
    simp only [insK]
    by_cases h1 : b = b'
    · simp [h1, allGt, h]
    · simp only [h1, if_false]
      by_cases h2 : b < b'
      · simp [h2, allGt, hx, h]
      · simp only [h2, if_false, allGt]
        exact ⟨h.1, allGt_insK x b bs rest hx h.2⟩

theorem allGt_mono (x y : Nat) (hxy : x < y) : ∀ kids : Kids, allGt y kids → allGt x kids
  | .nil, _ => by simp [allGt]
  | .cons b' _ rest, h => by
    simp only [allGt] at h ⊢
    exact ⟨by omega, allGt_mono x y hxy rest h.2⟩

mutual
theorem insT_wf : ∀ (key : List Nat) (t : Trie), wfT t → wfT (insT key t)
  | [], .node _ k, h => by simpa [insT, wfT] using h
  | b :: bs, .node t k, h => by
    simp only [insT, wfT] at h ⊢
    exact insK_wf b bs k h
theorem insK_wf : ∀ (b : Nat) (bs : List Nat) (kids : Kids), wfK kids → wfK (insK b bs kids)
  | b, bs, .nil, _ => by simp [insK, wfK, single_wf, single_keys, allGt]
  | b, bs, .cons b' c rest, h => by
    simp only [wfK] at h
    obtain ⟨hc, hne, hgt, hr⟩ := h
    simp only [insK]
    by_cases h1 : b = b'
    · subst h1
      simp only [if_true, wfK]
      exact ⟨insT_wf bs c hc, ne_nil_of_mem (mem_insT_self bs c), hgt, hr⟩
    · simp only [h1, if_false]
      by_cases h2 : b < b'
      · rw [if_pos h2]
        simp only [wfK, allGt]
        exact ⟨single_wf bs, by simp [single_keys], ⟨h2, allGt_mono b b' h2 rest hgt⟩, hc, hne, hgt, hr⟩
      · simp only [h2, if_false, wfK]
        exact ⟨hc, hne, allGt_insK b' b bs rest (by omega) hgt, insK_wf b bs rest hr⟩
end

mutual
theorem insT_uni : ∀ (key : List Nat) (t : Trie), uniT key.length t → uniT key.length (insT key t)
  | [], .node _ k, h => by
    simp only [insT, uniT, List.length_nil] at h ⊢
    exact ⟨by simp, h.2⟩
  | b :: bs, .node t k, h => by
    simp only [insT, uniT, List.length_cons] at h ⊢
    exact ⟨h.1, insK_uni b bs k h.2⟩
theorem insK_uni : ∀ (b : Nat) (bs : List Nat) (kids : Kids),
    uniK (bs.length + 1) kids → uniK (bs.length + 1) (insK b bs kids)
  | b, bs, .nil, _ => by simp [insK, uniK, single_uni]
  | b, bs, .cons b' c rest, h => by
    simp only [uniK] at h
    simp only [insK]
    by_cases h1 : b = b'
    · subst h1
      simp only [if_true, uniK]
      exact ⟨insT_uni bs c h.1, h.2⟩
    · simp only [h1, if_false]
      by_cases h2 : b < b'
      · simp only [h2, if_true, uniK]
        exact ⟨single_uni bs, h.1, h.2⟩
      · simp only [h2, if_false, uniK]
        exact ⟨h.1, insK_uni b bs rest h.2⟩
end

theorem uniK_zero : ∀ kids : Kids, uniK 0 kids → kids = .nil
  | .nil, _ => rfl
  | .cons _ _ _, h => by simp [uniK] at h

mutual
theorem uni_pfT : ∀ (n : Nat) (t : Trie), uniT n t → pfT t
  | n, .node term kids, h => by
    simp only [uniT] at h
    simp only [pfT]
    refine ⟨fun ht => ?_, uni_pfK n kids h.2⟩
    have := h.1 ht
    subst this
    exact uniK_zero kids h.2
theorem uni_pfK : ∀ (n : Nat) (kids : Kids), uniK n kids → pfK kids
  | _, .nil, _ => by simp [pfK]
  | n, .cons _ c rest, h => by
    simp only [uniK] at h
    simp only [pfK]
    refine ⟨?_, uni_pfK n rest h.2⟩
    cases n with
    | zero => exact absurd h.1 (by simp)
    | succ m => exact uni_pfT m c h.1
end

theorem empty_wf : wfT Trie.empty := by simp [Trie.empty, wfT, wfK]
theorem empty_uni (n : Nat) : uniT n Trie.empty := by simp [Trie.empty, uniT, uniK]

theorem foldl_ins_wf (ks : List (List Nat)) : ∀ t, wfT t → wfT (ks.foldl (fun t k => insT k t) t) := by
  induction ks with
  | nil => intro t h; exact h
  | cons k ks ih => intro t h; exact ih _ (insT_wf k t h)

theorem foldl_ins_mem (ks : List (List Nat)) (k : List Nat) :
    ∀ t, (k ∈ keysT t ∨ k ∈ ks) → k ∈ keysT (ks.foldl (fun t k => insT k t) t) := by
  induction ks with
  | nil => intro t h; rcases h with h | h; exact h; cases h
  | cons k0 ks ih =>
    intro t h
    apply ih
    rcases h with h | h
    · left; exact mem_insT_of_mem k0 t k h
    · rcases List.mem_cons.1 h with rfl | h
      · left; exact mem_insT_self _ t
      · right; exact h

theorem foldl_ins_uni (n : Nat) (ks : List (List Nat)) (hl : ∀ k ∈ ks, k.length = n) :
    ∀ t, uniT n t → uniT n (ks.foldl (fun t k => insT k t) t) := by
  induction ks with
  | nil => intro t h; exact h
  | cons k ks ih =>
    intro t h
    apply ih (fun k' hk' => hl k' (List.mem_cons_of_mem _ hk'))
    have := hl k (List.mem_cons_self)
    subst this
    exact insT_uni k t h

theorem wfT_build (ks : List (List Nat)) : wfT (build ks) := foldl_ins_wf ks _ empty_wf
theorem mem_build (ks : List (List Nat)) (k : List Nat) (h : k ∈ ks) : k ∈ keysT (build ks) :=
  foldl_ins_mem ks k _ (Or.inr h)
theorem pfT_build (n : Nat) (ks : List (List Nat)) (hl : ∀ k ∈ ks, k.length = n) : pfT (build ks) :=
  uni_pfT n _ (foldl_ins_uni n ks hl _ (empty_uni n))

/-! ### extreme keys -/

mutual
theorem leftmostT_some : ∀ t : Trie, wfT t → keysT t ≠ [] → ∃ k, leftmostT t = some k
  | .node term kids, hw, hne => by
    simp only [leftmostT]
    cases term with
    | true => exact ⟨[], rfl⟩
    | false =>
      simp only [keysT] at hne
      simp only [Bool.false_eq_true, if_false]
      exact leftmostK_some kids hw (by simpa using hne)
theorem leftmostK_some : ∀ kids : Kids, wfK kids → keysK kids ≠ [] → ∃ k, leftmostK kids = some k
  | .nil, _, hne => by simp [keysK] at hne
  | .cons b c rest, hw, _ => by
    simp only [wfK] at hw
    obtain ⟨k, hk⟩ := leftmostT_some c hw.1 hw.2.1
    exact ⟨b :: k, by simp [leftmostK, hk]⟩
end

mutual
theorem rightmostT_some : ∀ t : Trie, wfT t → keysT t ≠ [] → ∃ k, rightmostT t = some k
  | .node term kids, hw, hne => by
    cases kids with
    | nil =>
      cases term with
      | true => exact ⟨[], by simp [rightmostT]⟩
      | false => simp [keysT, keysK] at hne
    | cons b c rest =>
      simp only [rightmostT]
      exact rightmostK_some (.cons b c rest) hw (by simp)
theorem rightmostK_some : ∀ kids : Kids, wfK kids → kids ≠ .nil → ∃ k, rightmostK kids = some k
  | .nil, _, hne => absurd rfl hne
  | .cons b c rest, hw, _ => by
    simp only [wfK] at hw
    cases rest with
    | nil =>
      obtain ⟨k, hk⟩ := rightmostT_some c hw.1 hw.2.1
      exact ⟨b :: k, by simp [rightmostK, hk]⟩
    | cons b2 c2 r2 =>
      simp only [rightmostK]
      exact rightmostK_some (.cons b2 c2 r2) hw.2.2.2 (by simp)
end

/-- Every key of a child list starts with a label above `b`. -/
theorem keysK_head_gt (b : Nat) : ∀ kids : Kids, allGt b kids → ∀ k ∈ keysK kids, ∃ b' k', k = b' :: k' ∧ b < b'
  | .nil, _, k, hk => by simp [keysK] at hk
  | .cons b' c rest, h, k, hk => by
    simp only [allGt] at h
    simp only [keysK, List.mem_append, List.mem_map] at hk
    rcases hk with ⟨k', _, rfl⟩ | hk
    · exact ⟨b', k', rfl, h.1⟩
    · exact keysK_head_gt b rest h.2 k hk

mutual
theorem rightmostT_mem : ∀ (t : Trie) (l : List Nat), rightmostT t = some l → l ∈ keysT t
  | .node term kids, l, h => by
    cases kids with
    | nil =>
      cases term with
      | true => simp [rightmostT] at h; subst h; simp [keysT]
      | false => simp [rightmostT] at h
    | cons b c rest =>
      simp only [rightmostT] at h
      simp only [keysT, List.mem_append]
      right; exact rightmostK_mem (.cons b c rest) l h
theorem rightmostK_mem : ∀ (kids : Kids) (l : List Nat), rightmostK kids = some l → l ∈ keysK kids
  | .nil, l, h => by simp [rightmostK] at h
  | .cons b c rest, l, h => by
    cases rest with
    | nil =>
      simp only [rightmostK, Option.map_eq_some_iff] at h
      obtain ⟨l', hl', rfl⟩ := h
      simp only [keysK, List.mem_append, List.mem_map]
      left; exact ⟨l', rightmostT_mem c l' hl', rfl⟩
    | cons b2 c2 r2 =>
      simp only [rightmostK] at h
      rw [keysK, List.mem_append]
      right; exact rightmostK_mem (.cons b2 c2 r2) l h
end

mutual
/-- `find_last_key` returns the greatest key. -/
theorem rightmostT_max : ∀ (t : Trie) (l : List Nat), wfT t → rightmostT t = some l →
    ∀ k ∈ keysT t, lexLt l k = false
  | .node term kids, l, hw, h, k, hk => by
    cases kids with
    | nil =>
      cases term with
      | true =>
        simp [rightmostT] at h; subst h
        simp [keysT, keysK] at hk; subst hk; rfl
      | false => simp [rightmostT] at h
    | cons b c rest =>
      simp only [rightmostT] at h
      simp only [keysT, List.mem_append] at hk
      rcases hk with hk | hk
      · have : k = [] := by cases term <;> simp_all
        subst this; exact lexLt_nil_right l
      · exact rightmostK_max (.cons b c rest) l hw h k hk
theorem rightmostK_max : ∀ (kids : Kids) (l : List Nat), wfK kids → rightmostK kids = some l →
    ∀ k ∈ keysK kids, lexLt l k = false
  | .nil, l, _, h, _, _ => by simp [rightmostK] at h
  | .cons b c rest, l, hw, h, k, hk => by
    simp only [wfK] at hw
    cases rest with
    | nil =>
      simp only [rightmostK, Option.map_eq_some_iff] at h
      obtain ⟨l', hl', rfl⟩ := h
      simp only [keysK, List.append_nil, List.mem_map] at hk
      obtain ⟨k', hk', rfl⟩ := hk
      have := rightmostT_max c l' hw.1 hl' k' hk'
      cases h2 : lexLt (b :: l') (b :: k') with
      | false => rfl
      | true =>
        rw [lexLt_cons] at h2
        rcases h2 with h2 | ⟨_, h2⟩
        · omega
        · rw [this] at h2; cases h2
    | cons b2 c2 r2 =>
      simp only [rightmostK] at h
      rw [keysK, List.mem_append, List.mem_map] at hk
      rcases hk with ⟨k', _, rfl⟩ | hk
      · have hl := rightmostK_mem (.cons b2 c2 r2) l h
        obtain ⟨b', l', rfl, hb⟩ := keysK_head_gt b _ hw.2.2.1 l hl
        cases h2 : lexLt (b' :: l') (b :: k') with
        | false => rfl
        | true =>
          rw [lexLt_cons] at h2
          rcases h2 with h2 | ⟨h2, _⟩ <;> omega
      · exact rightmostK_max (.cons b2 c2 r2) l hw.2.2.2 h k hk
end

mutual
/-- `find_first_key` returns the least key. -/
theorem leftmostT_min : ∀ (t : Trie) (f : List Nat), wfT t → leftmostT t = some f →
    ∀ k ∈ keysT t, lexLt k f = false
  | .node term kids, f, hw, h, k, hk => by
    simp only [leftmostT] at h
    cases term with
    | true =>
      simp at h; subst h; exact lexLt_nil_right k
    | false =>
      simp only [Bool.false_eq_true, if_false] at h
      simp only [keysT, Bool.false_eq_true, if_false, List.nil_append] at hk
      exact leftmostK_min kids f hw h k hk
theorem leftmostK_min : ∀ (kids : Kids) (f : List Nat), wfK kids → leftmostK kids = some f →
    ∀ k ∈ keysK kids, lexLt k f = false
  | .nil, f, _, h, _, _ => by simp [leftmostK] at h
  | .cons b c rest, f, hw, h, k, hk => by
    simp only [wfK] at hw
    simp only [leftmostK, Option.map_eq_some_iff] at h
    obtain ⟨f', hf', rfl⟩ := h
    simp only [keysK, List.mem_append, List.mem_map] at hk
    rcases hk with ⟨k', hk', rfl⟩ | hk
    · have := leftmostT_min c f' hw.1 hf' k' hk'
      cases h2 : lexLt (b :: k') (b :: f') with
      | false => rfl
      | true =>
        rw [lexLt_cons] at h2
        rcases h2 with h2 | ⟨_, h2⟩
        · omega
        · rw [this] at h2; cases h2
    · obtain ⟨b', k', rfl, hb⟩ := keysK_head_gt b rest hw.2.2.1 k hk
      cases h2 : lexLt (b' :: k') (b :: f') with
      | false => rfl
      | true =>
        rw [lexLt_cons] at h2
        rcases h2 with h2 | ⟨h2, _⟩ <;> omega
end

/-! ### `find_first_key_geq` finds something whenever a key `≥ target` exists -/

mutual
theorem geqT_sound : ∀ (t : Trie) (target k : List Nat), wfT t → k ∈ keysT t → lexLt k target = false →
    ∃ k', geqT t target = some k'
  | .node term kids, [], k, hw, hk, _ => by
    simp only [geqT]
    exact leftmostT_some _ hw (ne_nil_of_mem hk)
  | .node term kids, tb :: rest, k, hw, hk, hle => by
    simp only [geqT]
    simp only [keysT, List.mem_append] at hk
    rcases hk with hk | hk
    · have : k = [] := by cases term <;> simp_all
      subst this; cases hle
    · exact geqK_sound kids tb rest k hw hk hle
theorem geqK_sound : ∀ (kids : Kids) (tb : Nat) (rest k : List Nat), wfK kids → k ∈ keysK kids →
    lexLt k (tb :: rest) = false → ∃ k', geqK kids tb rest = some k'
  | .nil, _, _, k, _, hk, _ => by simp [keysK] at hk
  | .cons b c more, tb, rest, k, hw, hk, hle => by
    simp only [wfK] at hw
    obtain ⟨hwc, hnec, hgt, hwm⟩ := hw
    simp only [geqK]
    simp only [keysK, List.mem_append, List.mem_map] at hk
    by_cases h1 : b < tb
    · simp only [h1, if_true]
      rcases hk with ⟨k', _, rfl⟩ | hk
      · have : lexLt (b :: k') (tb :: rest) = true := (lexLt_cons _ _ _ _).2 (Or.inl h1)
        rw [this] at hle; cases hle
      · exact geqK_sound more tb rest k hwm hk hle
    · simp only [h1, if_false]
      by_cases h2 : b = tb
      · subst h2
        simp only [if_true]
        cases hg : geqT c rest with
        | some k0 => exact ⟨b :: k0, rfl⟩
        | none =>
          simp only
          rcases hk with ⟨k', hk', rfl⟩ | hk
          · have hle' : lexLt k' rest = false := by
              cases h3 : lexLt k' rest with
              | false => rfl
              | true =>
                have : lexLt (b :: k') (b :: rest) = true := (lexLt_cons _ _ _ _).2 (Or.inr ⟨rfl, h3⟩)
                rw [this] at hle; cases hle
            obtain ⟨k0, hk0⟩ := geqT_sound c rest k' hwc hk' hle'
            rw [hk0] at hg; cases hg
          · cases more with
            | nil => simp [keysK] at hk
            | cons b2 c2 r2 =>
              simp only [wfK] at hwm
              obtain ⟨l, hl⟩ := leftmostT_some c2 hwm.1 hwm.2.1
              exact ⟨b2 :: l, by simp [hl]⟩
      · simp only [h2, if_false]
        obtain ⟨l, hl⟩ := leftmostT_some c hwc hnec
        exact ⟨b :: l, by simp [hl]⟩
end

/-! ### `find_last_key_leq` on prefix-free tries -/

/-- The `≤` search produced a key (directly, or by the final "stuck node is terminal" rule). -/
def LeRes.ok : LeRes → Prop
  | .found _ => True
  | .back fb => fb ≠ none

/-- With a (well-formed, non-empty) previous sibling available the slice scan never backtracks. -/
theorem leqK_found_of_prev : ∀ (kids : Kids) (pb : Nat) (pc : Trie) (tb : Nat) (rest : List Nat) (r : LeRes),
    wfK kids → wfT pc → keysT pc ≠ [] → leqK kids (some (pb, pc)) tb rest = some r → ∃ k, r = .found k
  | .nil, _, _, _, _, _, _, _, _, h => by simp [leqK] at h
  | .cons b c more, pb, pc, tb, rest, r, hw, hpw, hpne, h => by
    simp only [wfK] at hw
    obtain ⟨hwc, hnec, _, hwm⟩ := hw
    simp only [leqK] at h
    cases hin : leqK more (some (b, c)) tb rest with
    | some r' =>
      rw [hin] at h
      simp only [Option.some.injEq] at h
      subst h
      exact leqK_found_of_prev more b c tb rest r' hwm hwc hnec hin
    | none =>
      rw [hin] at h
      simp only at h
      by_cases h1 : b ≤ tb
      · simp only [h1, if_true] at h
        by_cases h2 : b = tb
        · simp only [h2, if_true] at h
          cases hl : leqT c rest with
          | found k0 =>
            rw [hl] at h; simp only [Option.some.injEq] at h
            exact ⟨_, h.symm⟩
          | back fb =>
            rw [hl] at h
            obtain ⟨l, hl2⟩ := rightmostT_some pc hpw hpne
            simp only [hl2, Option.some.injEq] at h
            exact ⟨_, h.symm⟩
        · simp only [h2, if_false] at h
          obtain ⟨l, hl2⟩ := rightmostT_some c hwc hnec
          simp only [hl2, Option.some.injEq] at h
          exact ⟨_, h.symm⟩
      · simp only [h1, if_false] at h
        cases h

/-- `none` from the slice scan means every label — hence every key — is above the target. -/
theorem leqK_none_gt : ∀ (kids : Kids) (prev : Option (Nat × Trie)) (tb : Nat) (rest : List Nat),
    leqK kids prev tb rest = none → ∀ k ∈ keysK kids, lexLt (tb :: rest) k = true
  | .nil, _, _, _, _, k, hk => by simp [keysK] at hk
  | .cons b c more, prev, tb, rest, h, k, hk => by
    simp only [leqK] at h
    cases hin : leqK more (some (b, c)) tb rest with
    | some r' => rw [hin] at h; cases h
    | none =>
      rw [hin] at h
      simp only at h
      have hb : ¬ b ≤ tb := by
        intro h1
        simp only [h1, if_true] at h
        by_cases h2 : b = tb
        · simp only [h2, if_true] at h
          cases hl : leqT c rest with
          | found k0 => rw [hl] at h; cases h
          | back fb =>
            rw [hl] at h
            cases prev with
            | none => cases h
            | some p =>
              obtain ⟨pb, pc⟩ := p
              simp only at h
              cases hr : rightmostT pc <;> (rw [hr] at h; cases h)
        · simp only [h2, if_false] at h
          cases hr : rightmostT c <;> (rw [hr] at h; cases h)
      simp only [keysK, List.mem_append, List.mem_map] at hk
      rcases hk with ⟨k', _, rfl⟩ | hk
      · exact (lexLt_cons _ _ _ _).2 (Or.inl (by omega))
      · exact leqK_none_gt more (some (b, c)) tb rest hin k hk

mutual
theorem leqT_sound : ∀ (t : Trie) (target k : List Nat), wfT t → pfT t → k ∈ keysT t →
    lexLt target k = false → (leqT t target).ok
  | .node term kids, [], k, hw, _, hk, _ => by
    simp only [leqT]
    obtain ⟨l, hl⟩ := rightmostT_some (.node term kids) hw (ne_nil_of_mem hk)
    rw [hl]; trivial
  | .node term kids, tb :: rest, k, hw, hp, hk, hle => by
    simp only [pfT] at hp
    simp only [leqT]
    simp only [keysT, List.mem_append] at hk
    rcases hk with hk | hk
    · have ht : term = true := by cases term <;> simp_all
      have hkn := hp.1 ht
      subst hkn; subst ht
      simp [leqK, LeRes.ok]
    · obtain ⟨r, hr, hok⟩ := leqK_sound kids tb rest k hw hp.2 hk hle
      rw [hr]; exact hok
theorem leqK_sound : ∀ (kids : Kids) (tb : Nat) (rest k : List Nat), wfK kids → pfK kids →
    k ∈ keysK kids → lexLt (tb :: rest) k = false →
    ∃ r, leqK kids none tb rest = some r ∧ r.ok
  | .nil, _, _, k, _, _, hk, _ => by simp [keysK] at hk
  | .cons b c more, tb, rest, k, hw, hp, hk, hle => by
    simp only [wfK] at hw
    obtain ⟨hwc, hnec, _, hwm⟩ := hw
    simp only [pfK] at hp
    simp only [leqK]
    cases hin : leqK more (some (b, c)) tb rest with
    | some r' =>
      obtain ⟨k0, rfl⟩ := leqK_found_of_prev more b c tb rest r' hwm hwc hnec hin
      exact ⟨_, rfl, trivial⟩
    | none =>
      simp only
      simp only [keysK, List.mem_append, List.mem_map] at hk
      rcases hk with ⟨k', hk', rfl⟩ | hk
      · have hcmp : ¬ (tb < b ∨ (tb = b ∧ lexLt rest k' = true)) := by
          intro h; rw [← lexLt_cons] at h; rw [h] at hle; cases hle
        have h1 : b ≤ tb := by omega
        simp only [h1, if_true]
        by_cases h2 : b = tb
        · subst h2
          simp only [if_true]
          have hle' : lexLt rest k' = false := by
            cases h3 : lexLt rest k' with
            | false => rfl
            | true => exact absurd (Or.inr ⟨rfl, h3⟩) hcmp
          have := leqT_sound c rest k' hwc hp.1 hk' hle'
          cases hl : leqT c rest with
          | found k0 => exact ⟨_, rfl, trivial⟩
          | back fb =>
            rw [hl] at this
            simp only [LeRes.ok] at this
            refine ⟨_, rfl, ?_⟩
            simp only [LeRes.ok]
            cases fb with
            | none => exact absurd rfl this
            | some x => simp
        · simp only [h2, if_false]
          obtain ⟨l, hl2⟩ := rightmostT_some c hwc hnec
          rw [hl2]
          exact ⟨_, rfl, trivial⟩
      · have := leqK_none_gt more (some (b, c)) tb rest hin k hk
        rw [this] at hle; cases hle
end

end Snel.C08

namespace Snel.C08
open Flat

/-! ### the chunked label search equals the plain first-index search -/

theorem firstTrue_append (a b : List Bool) :
    firstTrue (a ++ b) = match firstTrue a with
      | some j => some j
      | none => (firstTrue b).map (a.length + ·) := by
  induction a with
  | nil => simp [firstTrue]
  | cons x xs ih =>
    cases x with
    | true => simp [firstTrue]
    | false =>
      simp only [List.cons_append, firstTrue, ih]
      cases h1 : firstTrue xs with
      | some j => simp
      | none =>
        cases h2 : firstTrue b with
        | none => simp
        | some k => simp; omega

/-- With at least as many mask bits as lanes, `simd_first_ge` is "first index `i` with
`slice[i] ≥ tb`" (from position `i` on). -/
theorem simdFirstGe_spec (lanes maskBits : Nat) (hm : lanes ≤ maskBits) (slice : List Nat) (tb : Nat) :
    ∀ (fuel i : Nat), slice.length - i < fuel →
      simdFirstGe lanes maskBits slice tb fuel i
        = (firstTrue ((slice.drop i).map fun v => decide (tb ≤ v))).map (i + ·) := by
  intro fuel
  induction fuel with
  | zero => intro i h; omega
  | succ fuel ih =>
    intro i h
    simp only [simdFirstGe]
    by_cases hc : 0 < lanes ∧ i + lanes ≤ slice.length
    · simp only [hc, and_self, if_true]
      have hsplit : slice.drop i = (slice.drop i).take lanes ++ slice.drop (i + lanes) := by
        rw [← List.drop_drop, List.take_append_drop]
      have hlen : ((slice.drop i).take lanes).length = lanes := by
        simp only [List.length_take, List.length_drop]; omega
      have htake : (((slice.drop i).take lanes).map fun v => decide (tb ≤ v)).take maskBits
          = ((slice.drop i).take lanes).map fun v => decide (tb ≤ v) := by
        apply List.take_of_length_le; simp only [List.length_map, hlen]; exact hm
      rw [htake]
      conv => rhs; rw [hsplit, List.map_append, firstTrue_append]
      cases hf : firstTrue (((slice.drop i).take lanes).map fun v => decide (tb ≤ v)) with
      | some j => simp
      | none =>
        simp only
        rw [ih (i + lanes) (by omega)]
        simp only [List.length_map, hlen]
        cases firstTrue ((slice.drop (i + lanes)).map fun v => decide (tb ≤ v)) with
        | none => simp
        | some k => simp; omega
    · simp only [hc, if_false]

theorem firstTrue_lt : ∀ (l : List Bool) (j : Nat), firstTrue l = some j → j < l.length
  | [], _, h => by cases h
  | true :: _, j, h => by simp [firstTrue] at h; subst h; simp
  | false :: bs, j, h => by
    simp only [firstTrue, Option.map_eq_some_iff] at h
    obtain ⟨k, hk, rfl⟩ := h
    have := firstTrue_lt bs k hk
    simp; omega

theorem lastTrue_lt (l : List Bool) (j : Nat) (h : lastTrue l = some j) : j < l.length := by
  simp only [lastTrue, Option.map_eq_some_iff] at h
  obtain ⟨k, hk, rfl⟩ := h
  have := firstTrue_lt _ k hk
  simp at this; omega

theorem lastTrue_append (a b : List Bool) :
    lastTrue (a ++ b) = match lastTrue b with
      | some j => some (a.length + j)
      | none => lastTrue a := by
  simp only [lastTrue, List.reverse_append, firstTrue_append, List.length_append, List.length_reverse]
  cases h1 : firstTrue b.reverse with
  | some j =>
    have := firstTrue_lt _ j h1
    simp at this
    simp; omega
  | none =>
    cases h2 : firstTrue a.reverse with
    | none => simp
    | some k =>
      have := firstTrue_lt _ k h2
      simp at this
      simp; omega

/-- With the mask exactly as wide as the chunk, `simd_last_le` is "last index `< i` with
`slice[idx] ≤ tb`". -/
theorem simdLastLe_spec (lanes : Nat) (slice : List Nat) (tb : Nat) :
    ∀ (fuel i : Nat), i < fuel → i ≤ slice.length →
      simdLastLe lanes lanes slice tb fuel i = lastTrue ((slice.take i).map fun v => decide (v ≤ tb)) := by
  intro fuel
  induction fuel with
  | zero => intro i h; omega
  | succ fuel ih =>
    intro i h hi
    simp only [simdLastLe]
    by_cases hc : 0 < lanes ∧ lanes ≤ i
    · simp only [hc, and_self, if_true]
      have hi' : i = (i - lanes) + lanes := by omega
      have hsplit : slice.take i = slice.take (i - lanes) ++ (slice.drop (i - lanes)).take lanes := by
        conv => lhs; rw [hi', List.take_add]
      have hlen : ((slice.drop (i - lanes)).take lanes).length = lanes := by
        simp only [List.length_take, List.length_drop]; omega
      have htake : (((slice.drop (i - lanes)).take lanes).map fun v => decide (v ≤ tb)).take lanes
          = ((slice.drop (i - lanes)).take lanes).map fun v => decide (v ≤ tb) := by
        apply List.take_of_length_le; simp only [List.length_map, hlen]; exact Nat.le_refl _
      rw [htake]
      conv => rhs; rw [hsplit, List.map_append, lastTrue_append]
      cases hf : lastTrue (((slice.drop (i - lanes)).take lanes).map fun v => decide (v ≤ tb)) with
      | some hb =>
        have hlt := lastTrue_lt _ hb hf
        simp only [List.length_map, hlen] at hlt
        simp only [List.length_map, List.length_take, Option.some.injEq]
        have : min (i - lanes) slice.length = i - lanes := by omega
        rw [this]; omega
      | none =>
        simp only
        exact ih (i - lanes) (by omega) (by omega)
    · simp only [hc, if_false]

end Snel.C08
