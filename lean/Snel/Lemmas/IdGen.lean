import Snel.Model.IdGen
/-! Helper lemmas for C18 (event-id generator). -/
namespace Snel.IdGen
open Snel.Gen

/-- Arithmetic reading of `compose`. -/
def composeA (millis shard seq : Nat) : Nat :=
  ((millis - idEpochMillis) % tsMod) * 2 ^ (idShardBits + idSequenceBits)
    + (shard % shardMod) * 2 ^ idSequenceBits + seq

theorem compose_eq (millis shard seq : Nat) (hs : seq < seqMod) :
    compose millis shard seq = composeA millis shard seq := by
  unfold compose composeA
  have hsh : shard % shardMod < 2 ^ idShardBits := Nat.mod_lt _ (by unfold shardMod; exact Nat.two_pow_pos _)
  generalize (millis - idEpochMillis) % tsMod = ts
  generalize hsv : shard % shardMod = sh at hsh
  have h1 : sh <<< idSequenceBits < 2 ^ (idShardBits + idSequenceBits) := by
    rw [Nat.shiftLeft_eq, Nat.pow_add]
    exact Nat.mul_lt_mul_of_lt_of_le hsh (Nat.le_refl _) (Nat.two_pow_pos _)
  rw [← Nat.shiftLeft_add_eq_or_of_lt h1 ts]
  have h2 : ts <<< (idShardBits + idSequenceBits) + sh <<< idSequenceBits
      = (ts * 2 ^ idShardBits + sh) <<< idSequenceBits := by
    simp only [Nat.shiftLeft_eq, Nat.pow_add]
    rw [Nat.add_mul, Nat.mul_assoc]
  rw [h2, ← Nat.shiftLeft_add_eq_or_of_lt (by simpa [seqMod] using hs)]
  simp only [Nat.shiftLeft_eq, Nat.pow_add]
  rw [Nat.add_mul, Nat.mul_assoc]

/-- Readings the generator is specified for: at or after the custom epoch and inside the
42-bit window. -/
def InRange (m : Nat) : Prop := idEpochMillis ≤ m ∧ m < idEpochMillis + tsMod

instance (m : Nat) : Decidable (InRange m) := by unfold InRange; infer_instance

theorem composeA_lt_of_millis_lt {m1 m2 sh q1 q2 : Nat} (h1 : InRange m1) (h2 : InRange m2)
    (hq1 : q1 < seqMod) (hlt : m1 < m2) :
    composeA m1 sh q1 < composeA m2 sh q2 := by
  unfold composeA InRange at *
  have e1 : (m1 - idEpochMillis) % tsMod = m1 - idEpochMillis := Nat.mod_eq_of_lt (by omega)
  have e2 : (m2 - idEpochMillis) % tsMod = m2 - idEpochMillis := Nat.mod_eq_of_lt (by omega)
  rw [e1, e2]
  have hsh : sh % shardMod < shardMod := Nat.mod_lt _ (by unfold shardMod; exact Nat.two_pow_pos _)
  generalize sh % shardMod = s at hsh
  have hd : m1 - idEpochMillis + 1 ≤ m2 - idEpochMillis := by omega
  have hmul := Nat.mul_le_mul_right (2 ^ (idShardBits + idSequenceBits)) hd
  have hpow : 2 ^ (idShardBits + idSequenceBits) = shardMod * seqMod := by
    unfold shardMod seqMod; rw [Nat.pow_add]
  have hs2 : s * 2 ^ idSequenceBits + q1 < shardMod * seqMod := by
    have : s * 2 ^ idSequenceBits + q1 < (s + 1) * seqMod := by
      unfold seqMod at *; rw [Nat.add_mul]; omega
    exact Nat.lt_of_lt_of_le this (Nat.mul_le_mul_right _ hsh)
  rw [Nat.add_mul] at hmul
  omega

theorem composeA_lt_of_seq_lt {m sh q1 q2 : Nat} (hlt : q1 < q2) :
    composeA m sh q1 < composeA m sh q2 := by
  unfold composeA; omega

/-- Shard tag of an id: bits `[SEQ, SEQ+SHARD)`. -/
def tagOf (id : Nat) : Nat := (id / 2 ^ idSequenceBits) % 2 ^ idShardBits

theorem tagOf_composeA (m sh q : Nat) (hq : q < seqMod) :
    tagOf (composeA m sh q) = sh % shardMod := by
  unfold tagOf composeA
  generalize (m - idEpochMillis) % tsMod = ts
  have hsh : sh % shardMod < shardMod := Nat.mod_lt _ (by unfold shardMod; exact Nat.two_pow_pos _)
  generalize sh % shardMod = s at hsh
  unfold seqMod shardMod at *
  have : ts * 2 ^ (idShardBits + idSequenceBits) + s * 2 ^ idSequenceBits + q
      = q + 2 ^ idSequenceBits * (s + 2 ^ idShardBits * ts) := by
    rw [Nat.pow_add]
    generalize 2 ^ idShardBits = A
    generalize 2 ^ idSequenceBits = B
    grind
  rw [this, Nat.add_mul_div_left _ _ (Nat.two_pow_pos _), Nat.div_eq_of_lt hq, Nat.zero_add,
    Nat.add_mul_mod_self_left, Nat.mod_eq_of_lt hsh]

theorem waitNext_spec {clk : List Nat} {last m : Nat} {rest : List Nat}
    (h : waitNext clk last = some (m, rest)) :
    last < m ∧ m ∈ clk ∧ ∃ pre, clk = pre ++ m :: rest := by
  induction clk with
  | nil => simp [waitNext] at h
  | cons r rs ih =>
    unfold waitNext at h
    split at h
    · simp only [Option.some.injEq, Prod.mk.injEq] at h
      obtain ⟨rfl, rfl⟩ := h
      exact ⟨by assumption, by simp, ⟨[], rfl⟩⟩
    · obtain ⟨h1, h2, pre, h3⟩ := ih h
      exact ⟨h1, by simp [h2], ⟨r :: pre, by simp [h3]⟩⟩

/-- State invariant: sequence below the wrap, and either fresh or inside the window. -/
def GenOk (g : Gen) : Prop := g.seq < seqMod ∧ (g = Gen.init ∨ InRange g.last)

theorem init_ok : GenOk Gen.init := ⟨by unfold Gen.init seqMod; exact Nat.two_pow_pos _, Or.inl rfl⟩

theorem seqMod_le : seqMod < 65536 := by
  unfold seqMod idSequenceBits; decide

/-- One step: the new id is `composeA` of the new state, the state stays OK, the clock
shrinks to a suffix, and the id exceeds the id of the previous state (if it had one). -/
theorem step_spec {g g' : Gen} {clk clk' : List Nat} {shard id : Nat}
    (hg : GenOk g) (hclk : ∀ r ∈ clk, InRange r)
    (h : step g clk shard = some (id, g', clk')) :
    GenOk g' ∧ InRange g'.last ∧ id = composeA g'.last shard g'.seq ∧
    (∀ r ∈ clk', InRange r) ∧
    (InRange g.last → composeA g.last shard g.seq < id) := by
  have hpos : 0 < seqMod := by unfold seqMod; exact Nat.two_pow_pos _
  have hepoch : 0 < idEpochMillis := by unfold idEpochMillis; decide
  cases clk with
  | nil => simp [step] at h
  | cons now rest =>
    have hnow : InRange now := hclk now (by simp)
    have hrest : ∀ r ∈ rest, InRange r := fun r hr => hclk r (by simp [hr])
    -- the effective millisecond and the fact that it is in range whenever it is used
    generalize hm : (if now < g.last then g.last else now) = millis at *
    have hmge : g.last ≤ millis := by rw [← hm]; split <;> omega
    have hmin : millis ≠ g.last ∨ InRange g.last → InRange millis := by
      intro hc
      rw [← hm]
      split
      · rename_i hlt
        rcases hg.2 with rfl | hl
        · simp [Gen.init] at hlt
        · exact hl
      · exact hnow
    have hstep : step g (now :: rest) shard =
        if millis = g.last then
          (if ((g.seq + 1) % 65536) % seqMod = 0 then
            (match waitNext rest g.last with
              | none => none
              | some (m, rest') => some (compose m shard 0, ⟨m, 0⟩, rest'))
          else some (compose millis shard (((g.seq + 1) % 65536) % seqMod),
                ⟨millis, ((g.seq + 1) % 65536) % seqMod⟩, rest))
        else some (compose millis shard 0, ⟨millis, 0⟩, rest) := by
      simp only [step, hm]
      rfl
    rw [hstep] at h
    by_cases hsame : millis = g.last
    · rw [if_pos hsame] at h
      by_cases hwrap : ((g.seq + 1) % 65536) % seqMod = 0
      · rw [if_pos hwrap] at h
        cases hw : waitNext rest g.last with
        | none => rw [hw] at h; simp at h
        | some p =>
          obtain ⟨m, rest'⟩ := p
          rw [hw] at h
          simp only [Option.some.injEq, Prod.mk.injEq] at h
          obtain ⟨rfl, rfl, rfl⟩ := h
          obtain ⟨hlt, hmem, pre, hpre⟩ := waitNext_spec hw
          have hmr : InRange m := hrest m hmem
          refine ⟨⟨hpos, Or.inr hmr⟩, hmr, compose_eq _ _ _ hpos, ?_, ?_⟩
          · intro r hr; exact hrest r (by rw [hpre]; simp [hr])
          · intro hl
            show composeA g.last shard g.seq < compose m shard 0
            rw [compose_eq _ _ _ hpos]
            exact composeA_lt_of_millis_lt hl hmr hg.1 hlt
      · rw [if_neg hwrap] at h
        simp only [Option.some.injEq, Prod.mk.injEq] at h
        obtain ⟨rfl, rfl, rfl⟩ := h
        have hq : (g.seq + 1) % 65536 % seqMod < seqMod := Nat.mod_lt _ hpos
        have hfresh : InRange millis := by
          -- millis = g.last; a fresh generator has last = 0 < epoch ≤ now, so millis = now ≠ 0
          rcases hg.2 with rfl | hl
          · have : millis = now := by rw [← hm]; simp [Gen.init]
            rw [this]; exact hnow
          · exact hmin (Or.inr hl)
        refine ⟨⟨hq, Or.inr hfresh⟩, hfresh, compose_eq _ _ _ hq, hrest, ?_⟩
        intro _
        show composeA g.last shard g.seq < compose millis shard _
        rw [compose_eq _ _ _ hq, hsame]
        apply composeA_lt_of_seq_lt
        have h1 := hg.1
        have h2 := seqMod_le
        have e : (g.seq + 1) % 65536 = g.seq + 1 := Nat.mod_eq_of_lt (by omega)
        rw [e] at hwrap ⊢
        by_cases hw : g.seq + 1 < seqMod
        · rw [Nat.mod_eq_of_lt hw]; omega
        · have : g.seq + 1 = seqMod := by omega
          rw [this, Nat.mod_self] at hwrap
          exact absurd rfl hwrap
    · rw [if_neg hsame] at h
      simp only [Option.some.injEq, Prod.mk.injEq] at h
      obtain ⟨rfl, rfl, rfl⟩ := h
      have hin := hmin (Or.inl hsame)
      refine ⟨⟨hpos, Or.inr hin⟩, hin, compose_eq _ _ _ hpos, hrest, ?_⟩
      intro hl
      show composeA g.last shard g.seq < compose millis shard 0
      rw [compose_eq _ _ _ hpos]
      exact composeA_lt_of_millis_lt hl hin hg.1 (by omega)

/-- Every id of a run is above `lo`, and the run is strictly increasing. -/
theorem run_sorted (n : Nat) : ∀ (g : Gen) (clk : List Nat) (shard : Nat),
    GenOk g → (∀ r ∈ clk, InRange r) →
    (run g clk shard n).Pairwise (· < ·) ∧
    (InRange g.last → ∀ id ∈ run g clk shard n, composeA g.last shard g.seq < id) := by
  induction n with
  | zero => intro g clk shard _ _; simp [run]
  | succ n ih =>
    intro g clk shard hg hclk
    simp only [run]
    split
    · simp
    · rename_i id g' clk' hstep
      obtain ⟨hg', hin', hid, hclk', hprev⟩ := step_spec hg hclk hstep
      obtain ⟨hsorted, hlow⟩ := ih g' clk' shard hg' hclk'
      refine ⟨?_, ?_⟩
      · rw [List.pairwise_cons]
        exact ⟨fun x hx => by rw [hid]; exact hlow hin' x hx, hsorted⟩
      · intro hl x hx
        rcases List.mem_cons.mp hx with rfl | hx
        · exact hprev hl
        · exact Nat.lt_trans (by rw [← hid]; exact hprev hl) (hlow hin' x hx)

theorem run_tags (n : Nat) : ∀ (g : Gen) (clk : List Nat) (shard : Nat),
    GenOk g → (∀ r ∈ clk, InRange r) →
    ∀ id ∈ run g clk shard n, tagOf id = shard % shardMod := by
  induction n with
  | zero => intro g clk shard _ _; simp [run]
  | succ n ih =>
    intro g clk shard hg hclk
    simp only [run]
    split
    · simp
    · rename_i id g' clk' hstep
      obtain ⟨hg', _, hid, hclk', _⟩ := step_spec hg hclk hstep
      intro x hx
      rcases List.mem_cons.mp hx with rfl | hx
      · rw [hid]; exact tagOf_composeA _ _ _ hg'.1
      · exact ih g' clk' shard hg' hclk' x hx

end Snel.IdGen

namespace Snel.IdGen
open Snel.Gen

/-- Ids of a run from a fresh generator all exceed any id whose millisecond lies strictly
below every reading of the new lifetime. -/
theorem run_init_lower (n : Nat) (clk : List Nat) (shard L q : Nat)
    (hL : InRange L) (hq : q < seqMod)
    (hclk : ∀ r ∈ clk, InRange r ∧ L < r) :
    ∀ id ∈ run Gen.init clk shard n, composeA L shard q < id := by
  cases n with
  | zero => simp [run]
  | succ n =>
    simp only [run]
    split
    · simp
    · rename_i id g' clk' hstep
      have hclk0 : ∀ r ∈ clk, InRange r := fun r hr => (hclk r hr).1
      obtain ⟨hg', hin', hid, hclk', _⟩ := step_spec init_ok hclk0 hstep
      have hlast : L < g'.last := by
        cases clk with
        | nil => simp [step] at hstep
        | cons now rest =>
          have hnow := hclk now (by simp)
          have hne : now ≠ 0 := by
            have := hnow.1.1; unfold idEpochMillis at this; omega
          simp [step, Gen.init, hne] at hstep
          obtain ⟨_, rfl, _⟩ := hstep
          exact hnow.2
      have hfirst : composeA L shard q < id := by
        rw [hid]; exact composeA_lt_of_millis_lt hL hin' hq hlast
      intro x hx
      rcases List.mem_cons.mp hx with rfl | hx
      · exact hfirst
      · have := (run_sorted n g' clk' shard hg' hclk').2 hin' x hx
        rw [← hid] at this
        exact Nat.lt_trans hfirst this

/-- Every id of a run is at most the id denoted by the final state. -/
theorem run_le_final (n : Nat) : ∀ (g : Gen) (clk : List Nat) (shard : Nat),
    GenOk g → (∀ r ∈ clk, InRange r) →
    GenOk (runState g clk shard n) ∧
    ((run g clk shard n ≠ [] ∨ InRange g.last) → InRange (runState g clk shard n).last) ∧
    ∀ id ∈ run g clk shard n,
      id ≤ composeA (runState g clk shard n).last shard (runState g clk shard n).seq := by
  induction n with
  | zero => intro g clk shard hg _; simp [run, runState]; exact hg
  | succ n ih =>
    intro g clk shard hg hclk
    simp only [run, runState]
    split
    · simp; exact hg
    · rename_i id g' clk' hstep
      obtain ⟨hg', hin', hid, hclk', _⟩ := step_spec hg hclk hstep
      obtain ⟨hok, hrange, hle⟩ := ih g' clk' shard hg' hclk'
      refine ⟨hok, fun _ => hrange (Or.inr hin'), ?_⟩
      intro x hx
      rcases List.mem_cons.mp hx with rfl | hx
      · -- the first id is ≤ every later one, or the run stops here
        cases hrun : run g' clk' shard n with
        | nil =>
          -- no further ids: final state is g' only if the run stopped at once
          cases n with
          | zero => simp [runState]; rw [hid]; exact Nat.le_refl _
          | succ n =>
            simp only [run] at hrun
            split at hrun
            · rename_i hnone; simp only [runState, hnone]; rw [hid]; exact Nat.le_refl _
            · simp at hrun
        | cons y ys =>
          have hy : y ∈ run g' clk' shard n := by rw [hrun]; simp
          have h1 := (run_sorted n g' clk' shard hg' hclk').2 hin' y hy
          have h2 := hle y hy
          rw [hid]; omega
      · exact hle x hx

end Snel.IdGen
