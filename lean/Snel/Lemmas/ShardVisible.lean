import Snel.Model.Shard
/-!
Invariant and coverage lemmas for the crash-free fragment of the shard machine:
every applied event stays visible to reads through every step of every flush (C03),
for any number of overlapping rotations.
-/
namespace Snel.Shard

/-- Structural invariant of crash-free runs. -/
structure Inv (s : Shard) : Prop where
  freshP : ∀ p ∈ s.passives, p.1 < s.nextL0
  freshJ : ∀ j ∈ s.jobs, j.seg < s.nextL0
  pj : ∀ p ∈ s.passives, ∀ j ∈ s.jobs, p.1 = j.seg → p.2 = j.evs ∨ p.2 = []
  written : ∀ j ∈ s.jobs, 1 ≤ j.step → ∀ e ∈ j.evs, e ∈ segRows s j.seg
  published : ∀ j ∈ s.jobs, 3 ≤ j.step → j.seg ∈ s.live

/-- Where an applied event can be found. -/
def Cover (s : Shard) (e : Ev) : Prop :=
  e ∈ s.mem ∨ (∃ p ∈ s.passives, e ∈ p.2) ∨ (∃ id ∈ s.live, e ∈ segRows s id)

theorem init_inv (cap k : Nat) : Inv (Shard.init cap k) := by
  constructor <;> simp [Shard.init]

theorem mem_segRows {s : Shard} {id : Nat} {e : Ev} :
    e ∈ segRows s id ↔ ∃ p ∈ s.segs, p.1 = id ∧ e ∈ p.2 := by
  simp only [segRows, List.mem_flatMap, List.mem_filter, beq_iff_eq]
  constructor
  · rintro ⟨p, ⟨hp, hid⟩, he⟩; exact ⟨p, hp, hid, he⟩
  · rintro ⟨p, hp, hid, he⟩; exact ⟨p, ⟨hp, hid⟩, he⟩

theorem mem_readSegs {s : Shard} {id : Nat} :
    id ∈ readSegs s ↔ id ∈ s.live ∨ id ∈ inflight s := by
  simp only [readSegs, List.mem_eraseDups, List.mem_append, List.mem_filter]
  constructor
  · rintro (h | ⟨h, _⟩)
    · exact Or.inl h
    · exact Or.inr h
  · rintro (h | h)
    · exact Or.inl h
    · by_cases hl : id ∈ s.live
      · exact Or.inl hl
      · exact Or.inr ⟨h, by simpa using hl⟩

/-- A covered event is produced by a scan. -/
theorem cover_scan {s : Shard} {e : Ev} (h : Cover s e) : e ∈ scanRows s := by
  simp only [scanRows, List.mem_append, List.mem_flatMap]
  rcases h with h | ⟨p, hp, he⟩ | ⟨id, hid, he⟩
  · exact Or.inl (Or.inl h)
  · exact Or.inl (Or.inr ⟨p, hp, he⟩)
  · exact Or.inr ⟨id, mem_readSegs.mpr (Or.inl hid), he⟩

/-! ### WAL steps do not touch what reads see -/

theorem walAppend_frame (s : Shard) (e : Ev) :
    (walAppend s e).mem = s.mem ∧ (walAppend s e).passives = s.passives ∧
    (walAppend s e).jobs = s.jobs ∧ (walAppend s e).live = s.live ∧
    (walAppend s e).nextL0 = s.nextL0 ∧ (walAppend s e).segs = s.segs ∧
    (walAppend s e).cap = s.cap := by
  unfold walAppend
  by_cases ho : s.walOrphan <;> simp only [ho, if_true, if_false, Bool.false_eq_true] <;>
    split <;> simp

theorem segRows_congr {s t : Shard} (h : t.segs = s.segs) (id : Nat) :
    segRows t id = segRows s id := by
  simp [segRows, h]

/-! ### Rotation -/

theorem rotate_inv {s : Shard} (h : Inv s) : Inv (rotate s) := by
  have hseg : ∀ id, segRows (rotate s) id = segRows s id := fun id => by simp [segRows, rotate]
  constructor
  · intro p hp
    simp only [rotate, List.mem_append, List.mem_singleton] at hp ⊢
    rcases hp with hp | rfl
    · exact Nat.lt_succ_of_lt (h.freshP p hp)
    · exact Nat.lt_succ_self _
  · intro j hj
    simp only [rotate, List.mem_append, List.mem_singleton] at hj ⊢
    rcases hj with hj | rfl
    · exact Nat.lt_succ_of_lt (h.freshJ j hj)
    · exact Nat.lt_succ_self _
  · intro p hp j hj hpj
    simp only [rotate, List.mem_append, List.mem_singleton] at hp hj
    rcases hp with hp | rfl <;> rcases hj with hj | rfl
    · exact h.pj p hp j hj hpj
    · have := h.freshP p hp; simp at hpj; omega
    · have := h.freshJ j hj; simp at hpj; omega
    · exact Or.inl rfl
  · intro j hj hstep e he
    simp only [rotate, List.mem_append, List.mem_singleton] at hj
    rw [hseg]
    rcases hj with hj | rfl
    · exact h.written j hj hstep e he
    · simp at hstep
  · intro j hj hstep
    simp only [rotate, List.mem_append, List.mem_singleton] at hj
    rcases hj with hj | rfl
    · simpa [rotate] using h.published j hj hstep
    · simp at hstep

theorem rotate_cover {s : Shard} {e : Ev} (h : Cover s e) : Cover (rotate s) e := by
  have hseg : ∀ id, segRows (rotate s) id = segRows s id := fun id => by simp [segRows, rotate]
  rcases h with h | ⟨p, hp, he⟩ | ⟨id, hid, he⟩
  · exact Or.inr (Or.inl ⟨(s.nextL0, s.mem), by simp [rotate], h⟩)
  · exact Or.inr (Or.inl ⟨p, by simp [rotate, hp], he⟩)
  · exact Or.inr (Or.inr ⟨id, by simpa [rotate] using hid, by rw [hseg]; exact he⟩)

/-! ### Store -/

theorem store_inv {s : Shard} (e : Ev) (h : Inv s) : Inv (store s e) := by
  obtain ⟨hm, hp, hj, hl, hn, hs, _⟩ := walAppend_frame s e
  have h1 : Inv { walAppend s e with mem := (walAppend s e).mem ++ [e] } := by
    constructor
    · intro p hp'; simp only [hp, hn] at hp' ⊢; exact h.freshP p hp'
    · intro j hj'; simp only [hj, hn] at hj' ⊢; exact h.freshJ j hj'
    · intro p hp' j hj'; simp only [hp, hj] at hp' hj'; exact h.pj p hp' j hj'
    · intro j hj' hstep x hx
      simp only [hj] at hj'
      have : segRows { walAppend s e with mem := (walAppend s e).mem ++ [e] } j.seg = segRows s j.seg := by
        simp [segRows, hs]
      rw [this]; exact h.written j hj' hstep x hx
    · intro j hj' hstep; simp only [hj, hl] at hj' ⊢; exact h.published j hj' hstep
  unfold store
  simp only
  split
  · exact rotate_inv h1
  · exact h1

theorem store_cover_old {s : Shard} (e x : Ev) (h : Cover s x) : Cover (store s e) x := by
  obtain ⟨hm, hp, hj, hl, hn, hs, _⟩ := walAppend_frame s e
  have h1 : Cover { walAppend s e with mem := (walAppend s e).mem ++ [e] } x := by
    rcases h with h | ⟨p, hp', he⟩ | ⟨id, hid, he⟩
    · exact Or.inl (by simp [hm, h])
    · exact Or.inr (Or.inl ⟨p, by simpa [hp] using hp', he⟩)
    · refine Or.inr (Or.inr ⟨id, by simpa [hl] using hid, ?_⟩)
      have : segRows { walAppend s e with mem := (walAppend s e).mem ++ [e] } id = segRows s id := by
        simp [segRows, hs]
      rw [this]; exact he
  unfold store
  simp only
  split
  · exact rotate_cover h1
  · exact h1

theorem store_cover_new (s : Shard) (e : Ev) : Cover (store s e) e := by
  have h1 : Cover { walAppend s e with mem := (walAppend s e).mem ++ [e] } e := Or.inl (by simp)
  unfold store
  simp only
  split
  · exact rotate_cover h1
  · exact h1

/-! ### Flush worker -/

theorem mem_clearPassive {ps : List (Nat × List Ev)} {seg : Nat} {q : Nat × List Ev} :
    q ∈ clearPassive ps seg ↔ ∃ p ∈ ps, q = (if p.1 == seg then (p.1, []) else p) := by
  simp only [clearPassive, List.mem_map]
  constructor
  · rintro ⟨p, hp, rfl⟩; exact ⟨p, hp, by obtain ⟨a, b⟩ := p; simp⟩
  · rintro ⟨p, hp, rfl⟩; exact ⟨p, hp, by obtain ⟨a, b⟩ := p; simp⟩

theorem segRows_mono_append (s : Shard) (seg : Nat) (evs : List Ev) (id : Nat) (e : Ev)
    (h : e ∈ segRows s id) : e ∈ segRows { s with segs := s.segs ++ [(seg, evs)] } id := by
  rw [mem_segRows] at h ⊢
  obtain ⟨p, hp, hid, he⟩ := h
  exact ⟨p, by simp [hp], hid, he⟩

theorem flushStep_inv_cover {s : Shard} (h : Inv s) :
    Inv (flushStep s) ∧ ∀ e, Cover s e → Cover (flushStep s) e := by
  unfold flushStep
  cases hjobs : s.jobs with
  | nil => exact ⟨h, fun _ he => he⟩
  | cons j rest =>
    have hjmem : j ∈ s.jobs := by rw [hjobs]; simp
    have hrest : ∀ x ∈ rest, x ∈ s.jobs := fun x hx => by rw [hjobs]; simp [hx]
    simp only
    by_cases hemp : j.evs.isEmpty
    · -- empty job: finished at once
      simp only [hemp, if_true]
      refine ⟨⟨h.freshP, fun x hx => h.freshJ x (hrest x hx), fun p hp x hx => h.pj p hp x (hrest x hx),
        fun x hx => h.written x (hrest x hx), fun x hx => h.published x (hrest x hx)⟩, fun _ he => he⟩
    · simp only [hemp, if_false, Bool.false_eq_true]
      -- generic facts about a state that differs from `s` only in `jobs := j' :: rest` and maybe more
      match hst : j.step with
      | 0 =>
        -- zones written
        simp only
        refine ⟨?_, ?_⟩
        · constructor
          · exact h.freshP
          · intro x hx
            simp only [List.mem_cons] at hx
            rcases hx with rfl | hx
            · exact h.freshJ j hjmem
            · exact h.freshJ x (hrest x hx)
          · intro p hp x hx hpx
            simp only [List.mem_cons] at hx
            rcases hx with rfl | hx
            · exact h.pj p hp j hjmem hpx
            · exact h.pj p hp x (hrest x hx) hpx
          · intro x hx hstep e he
            simp only [List.mem_cons] at hx
            rcases hx with rfl | hx
            · rw [mem_segRows]; exact ⟨(j.seg, j.evs), by simp, rfl, he⟩
            · exact segRows_mono_append s _ _ _ _ (h.written x (hrest x hx) hstep e he)
          · intro x hx hstep
            simp only [List.mem_cons] at hx
            rcases hx with rfl | hx
            · simp at hstep
            · exact h.published x (hrest x hx) hstep
        · intro e he
          rcases he with he | ⟨p, hp, he⟩ | ⟨id, hid, he⟩
          · exact Or.inl he
          · exact Or.inr (Or.inl ⟨p, hp, he⟩)
          · exact Or.inr (Or.inr ⟨id, hid, segRows_mono_append s _ _ _ _ he⟩)
      | 1 =>
        -- index saved
        simp only
        have hseg : ∀ id, segRows { s with index := (loadIndex s).index.filter (fun ent => ent.1 != j.seg) ++ [(j.seg, typesOf j.evs)], indexExists := true, jobs := { j with step := 2 } :: rest } id = segRows s id :=
          fun id => by simp [segRows]
        refine ⟨?_, ?_⟩
        · constructor
          · exact h.freshP
          · intro x hx
            simp only [List.mem_cons] at hx
            rcases hx with rfl | hx
            · exact h.freshJ j hjmem
            · exact h.freshJ x (hrest x hx)
          · intro p hp x hx hpx
            simp only [List.mem_cons] at hx
            rcases hx with rfl | hx
            · exact h.pj p hp j hjmem hpx
            · exact h.pj p hp x (hrest x hx) hpx
          · intro x hx hstep e he
            rw [hseg]
            simp only [List.mem_cons] at hx
            rcases hx with rfl | hx
            · exact h.written j hjmem (by omega) e he
            · exact h.written x (hrest x hx) hstep e he
          · intro x hx hstep
            simp only [List.mem_cons] at hx
            rcases hx with rfl | hx
            · simp at hstep
            · exact h.published x (hrest x hx) hstep
        · intro e he
          rcases he with he | ⟨p, hp, he⟩ | ⟨id, hid, he⟩
          · exact Or.inl he
          · exact Or.inr (Or.inl ⟨p, hp, he⟩)
          · exact Or.inr (Or.inr ⟨id, hid, by rw [hseg]; exact he⟩)
      | 2 =>
        -- published
        simp only
        have hlive : ∀ id, id ∈ s.live → id ∈ (if s.live.contains j.seg then s.live else s.live ++ [j.seg]) := by
          intro id hid; split
          · exact hid
          · simp [hid]
        have hjl : j.seg ∈ (if s.live.contains j.seg then s.live else s.live ++ [j.seg]) := by
          split
          · rename_i hc; simpa using hc
          · simp
        have hseg : ∀ id, segRows { s with live := (if s.live.contains j.seg then s.live else s.live ++ [j.seg]), jobs := { j with step := 3 } :: rest } id = segRows s id :=
          fun id => by simp [segRows]
        refine ⟨?_, ?_⟩
        · constructor
          · exact h.freshP
          · intro x hx
            simp only [List.mem_cons] at hx
            rcases hx with rfl | hx
            · exact h.freshJ j hjmem
            · exact h.freshJ x (hrest x hx)
          · intro p hp x hx hpx
            simp only [List.mem_cons] at hx
            rcases hx with rfl | hx
            · exact h.pj p hp j hjmem hpx
            · exact h.pj p hp x (hrest x hx) hpx
          · intro x hx hstep e he
            rw [hseg]
            simp only [List.mem_cons] at hx
            rcases hx with rfl | hx
            · exact h.written j hjmem (by omega) e he
            · exact h.written x (hrest x hx) hstep e he
          · intro x hx hstep
            simp only [List.mem_cons] at hx
            rcases hx with rfl | hx
            · exact hjl
            · exact hlive _ (h.published x (hrest x hx) hstep)
        · intro e he
          rcases he with he | ⟨p, hp, he⟩ | ⟨id, hid, he⟩
          · exact Or.inl he
          · exact Or.inr (Or.inl ⟨p, hp, he⟩)
          · exact Or.inr (Or.inr ⟨id, hlive id hid, by rw [hseg]; exact he⟩)
      | 3 =>
        -- passive buffer released: its rows are readable from the published segment
        simp only
        have hseg : ∀ id, segRows { s with passives := clearPassive s.passives j.seg, jobs := { j with step := 4 } :: rest } id = segRows s id :=
          fun id => by simp [segRows]
        have hpub : j.seg ∈ s.live := h.published j hjmem (by omega)
        have hwr : ∀ e ∈ j.evs, e ∈ segRows s j.seg := h.written j hjmem (by omega)
        refine ⟨?_, ?_⟩
        · constructor
          · intro q hq
            obtain ⟨p, hp, rfl⟩ := mem_clearPassive.mp hq
            have := h.freshP p hp
            split <;> simpa using this
          · intro x hx
            simp only [List.mem_cons] at hx
            rcases hx with rfl | hx
            · exact h.freshJ j hjmem
            · exact h.freshJ x (hrest x hx)
          · intro q hq x hx hqx
            obtain ⟨p, hp, rfl⟩ := mem_clearPassive.mp hq
            simp only [List.mem_cons] at hx
            by_cases hps : (p.1 == j.seg) = true
            · simp only [hps, if_true]; simp
            · simp only [hps, if_false, Bool.false_eq_true] at hqx ⊢
              rcases hx with rfl | hx
              · exact h.pj p hp j hjmem hqx
              · exact h.pj p hp x (hrest x hx) hqx
          · intro x hx hstep e he
            rw [hseg]
            simp only [List.mem_cons] at hx
            rcases hx with rfl | hx
            · exact hwr e he
            · exact h.written x (hrest x hx) hstep e he
          · intro x hx hstep
            simp only [List.mem_cons] at hx
            rcases hx with rfl | hx
            · exact hpub
            · exact h.published x (hrest x hx) hstep
        · intro e he
          rcases he with he | ⟨p, hp, he⟩ | ⟨id, hid, he⟩
          · exact Or.inl he
          · by_cases hps : (p.1 == j.seg) = true
            · -- the cleared buffer belongs to job j: its rows are in the segment
              have hpe : p.1 = j.seg := by simpa using hps
              rcases h.pj p hp j hjmem hpe with hpj | hpj
              · exact Or.inr (Or.inr ⟨j.seg, hpub, by rw [hseg]; exact hwr e (hpj ▸ he)⟩)
              · rw [hpj] at he; simp at he
            · exact Or.inr (Or.inl ⟨p, mem_clearPassive.mpr ⟨p, hp, by simp [hps]⟩, he⟩)
          · exact Or.inr (Or.inr ⟨id, hid, by rw [hseg]; exact he⟩)
      | 4 =>
        -- WAL cleaned: reads unaffected
        simp only
        have hseg : ∀ id, segRows { walClean s (j.seg + 1) with jobs := { j with step := 5 } :: rest } id = segRows s id :=
          fun id => by simp [segRows, walClean]
        refine ⟨?_, ?_⟩
        · constructor
          · intro p hp; simpa [walClean] using h.freshP p (by simpa [walClean] using hp)
          · intro x hx
            simp only [List.mem_cons] at hx
            rcases hx with rfl | hx
            · simpa [walClean] using h.freshJ j hjmem
            · simpa [walClean] using h.freshJ x (hrest x hx)
          · intro p hp x hx hpx
            have hp' : p ∈ s.passives := by simpa [walClean] using hp
            simp only [List.mem_cons] at hx
            rcases hx with rfl | hx
            · exact h.pj p hp' j hjmem hpx
            · exact h.pj p hp' x (hrest x hx) hpx
          · intro x hx hstep e he
            rw [hseg]
            simp only [List.mem_cons] at hx
            rcases hx with rfl | hx
            · exact h.written j hjmem (by omega) e he
            · exact h.written x (hrest x hx) hstep e he
          · intro x hx hstep
            simp only [List.mem_cons] at hx
            rcases hx with rfl | hx
            · simpa [walClean] using h.published j hjmem (by omega)
            · simpa [walClean] using h.published x (hrest x hx) hstep
        · intro e he
          rcases he with he | ⟨p, hp, he⟩ | ⟨id, hid, he⟩
          · exact Or.inl (by simpa [walClean] using he)
          · exact Or.inr (Or.inl ⟨p, by simpa [walClean] using hp, he⟩)
          · exact Or.inr (Or.inr ⟨id, by simpa [walClean] using hid, by rw [hseg]; exact he⟩)
      | n + 5 =>
        -- finished: the in-flight marker goes away, the segment is live
        simp only
        refine ⟨⟨h.freshP, fun x hx => h.freshJ x (hrest x hx), fun p hp x hx => h.pj p hp x (hrest x hx),
          ?_, fun x hx => h.published x (hrest x hx)⟩, ?_⟩
        · intro x hx hstep e he
          have : segRows { s with jobs := rest } x.seg = segRows s x.seg := by simp [segRows]
          rw [this]; exact h.written x (hrest x hx) hstep e he
        · intro e he
          rcases he with he | ⟨p, hp, he⟩ | ⟨id, hid, he⟩
          · exact Or.inl he
          · exact Or.inr (Or.inl ⟨p, hp, he⟩)
          · exact Or.inr (Or.inr ⟨id, hid, by simpa [segRows] using he⟩)

theorem drain_inv_cover (n : Nat) : ∀ {s : Shard}, Inv s →
    Inv (drain n s) ∧ ∀ e, Cover s e → Cover (drain n s) e := by
  induction n with
  | zero => intro s h; exact ⟨h, fun _ he => he⟩
  | succ n ih =>
    intro s h
    unfold drain
    split
    · exact ⟨h, fun _ he => he⟩
    · obtain ⟨h1, c1⟩ := flushStep_inv_cover h
      obtain ⟨h2, c2⟩ := ih h1
      exact ⟨h2, fun e he => c2 e (c1 e he)⟩

/-- Crash-free operations. -/
def Op.crashFree : Op → Bool
  | .crash => false
  | .shutdown => false
  | _ => true

theorem step_inv_cover {s : Shard} (o : Op) (ho : o.crashFree = true) (h : Inv s) :
    Inv (step s o) ∧ ∀ e, Cover s e → Cover (step s o) e := by
  cases o with
  | store e => exact ⟨store_inv e h, fun x hx => store_cover_old e x hx⟩
  | flushCmd =>
    have h1 := rotate_inv h
    obtain ⟨h2, c2⟩ := drain_inv_cover (jobSteps * (flushCmd s).jobs.length + 1) (s := flushCmd s) h1
    exact ⟨h2, fun e he => c2 e (rotate_cover he)⟩
  | flushStep => exact flushStep_inv_cover h
  | drain => exact drain_inv_cover _ h
  | crash => simp [Op.crashFree] at ho
  | shutdown => simp [Op.crashFree] at ho

/-- Events stored by an operation list, in order. -/
def storedEvents : List Op → List Ev
  | [] => []
  | .store e :: ops => e :: storedEvents ops
  | _ :: ops => storedEvents ops

theorem runOps_cover (ops : List Op) : ∀ {s : Shard}, Inv s → (∀ o ∈ ops, o.crashFree = true) →
    Inv (runOps s ops) ∧ (∀ e, Cover s e → Cover (runOps s ops) e) ∧
    ∀ e ∈ storedEvents ops, Cover (runOps s ops) e := by
  induction ops with
  | nil => intro s h _; exact ⟨h, fun _ he => he, by simp [storedEvents]⟩
  | cons o ops ih =>
    intro s h hall
    have ho := hall o (by simp)
    obtain ⟨h1, c1⟩ := step_inv_cover o ho h
    obtain ⟨h2, c2, c3⟩ := ih h1 (fun x hx => hall x (by simp [hx]))
    refine ⟨by simpa [runOps] using h2, fun e he => by simpa [runOps] using c2 e (c1 e he), ?_⟩
    intro e he
    have hrun : runOps s (o :: ops) = runOps (step s o) ops := by simp [runOps]
    rw [hrun]
    cases o with
    | store x =>
      simp only [storedEvents, List.mem_cons] at he
      rcases he with rfl | he
      · exact c2 _ (by simpa [step] using store_cover_new s e)
      · exact c3 e he
    | flushCmd => exact c3 e (by simpa [storedEvents] using he)
    | flushStep => exact c3 e (by simpa [storedEvents] using he)
    | drain => exact c3 e (by simpa [storedEvents] using he)
    | crash => simp [Op.crashFree] at ho
    | shutdown => simp [Op.crashFree] at ho

end Snel.Shard

namespace Snel.Shard

theorem nodup_eraseDups_aux (n : Nat) : ∀ (l : List Nat), l.length ≤ n → l.eraseDups.Nodup := by
  induction n with
  | zero => intro l hl; have : l = [] := List.length_eq_zero_iff.mp (by omega); subst this; simp
  | succ n ih =>
    intro l hl
    cases l with
    | nil => simp
    | cons a as =>
      rw [List.eraseDups_cons, List.nodup_cons]
      constructor
      · intro hmem
        rw [List.mem_eraseDups, List.mem_filter] at hmem
        simp at hmem
      · apply ih
        have := List.length_filter_le (fun b => !b == a) as
        simp only [List.length_cons] at hl
        omega

theorem nodup_eraseDups (l : List Nat) : l.eraseDups.Nodup := nodup_eraseDups_aux l.length l (Nat.le_refl _)

end Snel.Shard
