import Snel.Model.Sequence
/-! Helper lemmas for C15 (sequence matching). -/
namespace Snel.Sequence
open List

theorem filterMap_congr' {α β} {f g : α → Option β} : ∀ {l : List α}, (∀ a ∈ l, f a = g a) →
    l.filterMap f = l.filterMap g := by
  intro l
  induction l with
  | nil => intro _; rfl
  | cons x xs ih =>
    intro h
    rw [filterMap_cons, filterMap_cons, h x (by simp), ih (fun a ha => h a (mem_cons_of_mem _ ha))]

/-! ### stable insertion sort -/

theorem insertBy_perm {α} (key : α → Int) (x : α) (l : List α) : insertBy key x l ~ x :: l := by
  induction l with
  | nil => simp [insertBy]
  | cons y ys ih =>
    simp only [insertBy]
    split
    · exact Perm.refl _
    · exact (Perm.cons y ih).trans (Perm.swap x y ys)

theorem sortBy_perm {α} (key : α → Int) (l : List α) : sortBy key l ~ l := by
  induction l with
  | nil => simp [sortBy]
  | cons x xs ih => exact (insertBy_perm key x _).trans (Perm.cons x ih)

theorem mem_sortBy {α} {key : α → Int} {l : List α} {a : α} : a ∈ sortBy key l ↔ a ∈ l :=
  (sortBy_perm key l).mem_iff

theorem insertBy_sorted {α} (key : α → Int) (x : α) (l : List α)
    (h : l.Pairwise (fun a b => key a ≤ key b)) :
    (insertBy key x l).Pairwise (fun a b => key a ≤ key b) := by
  induction l with
  | nil => simp [insertBy]
  | cons y ys ih =>
    simp only [insertBy]
    split
    · rename_i hxy
      refine Pairwise.cons ?_ h
      intro z hz
      rcases mem_cons.mp hz with rfl | hz
      · exact hxy
      · exact Int.le_trans hxy (rel_of_pairwise_cons h hz)
    · rename_i hxy
      refine Pairwise.cons ?_ (ih h.tail)
      intro z hz
      have := (insertBy_perm key x ys).mem_iff.mp hz
      rcases mem_cons.mp this with rfl | hz
      · omega
      · exact rel_of_pairwise_cons h hz

theorem sortBy_sorted {α} (key : α → Int) (l : List α) :
    (sortBy key l).Pairwise (fun a b => key a ≤ key b) := by
  induction l with
  | nil => simp [sortBy]
  | cons x xs ih => exact insertBy_sorted key x _ ih

/-- Sorting two arrangements of the same rows gives the same list when keys are distinct. -/
theorem sortBy_eq_of_perm {α} (key : α → Int) {l l' : List α} (hp : l ~ l')
    (hinj : ∀ a ∈ l, ∀ b ∈ l, key a = key b → a = b) : sortBy key l = sortBy key l' := by
  refine Perm.eq_of_pairwise (le := fun a b => key a ≤ key b) ?_ (sortBy_sorted key l) (sortBy_sorted key l')
    ((sortBy_perm key l).trans (hp.trans (sortBy_perm key l').symm))
  intro a b ha hb hab hba
  exact hinj a (mem_sortBy.mp ha) b (hp.mem_iff.mpr (mem_sortBy.mp hb)) (Int.le_antisymm hab hba)

/-! ### FOLLOWED BY -/

/-- the relations the model's sweeps test are the ones the extractor found in `matcher.rs` -/
theorem relations_tied (c : Cfg) (a b : Row) :
    (Snel.Gen.C15.followedCand (c.ts a) (c.ts b) = decide (c.ts a ≤ c.ts b)) ∧
    (Snel.Gen.C15.precededCand (c.ts a) (c.ts b) = decide (c.ts b < c.ts a)) ∧
    Snel.Gen.C15.missingTs = 0 := ⟨rfl, rfl, rfl⟩

/-- the only partner an a-row is ever compared with: the first b (in sorted order) not earlier -/
def nearestF (c : Cfg) (a : Row) (bs : List Row) : Option Row := bs.find? fun b => c.ts a ≤ c.ts b

def fbStep (c : Cfg) (bs : List Row) (a : Row) : Option Pair :=
  match nearestF c a bs with
  | some b => if c.pairOk a b then some (a, b) else none
  | none => none

/-- closed form of `match_followed_by` on a time-sorted a-list -/
def fbSpec (c : Cfg) (as bs : List Row) : List Pair := as.filterMap (fbStep c bs)

theorem fbSpec_nil_right (c : Cfg) (as : List Row) : fbSpec c as [] = [] := by
  simp [fbSpec, fbStep, nearestF]

theorem fbSpec_skip (c : Cfg) (as bs : List Row) (b : Row) (h : ∀ a ∈ as, c.ts b < c.ts a) :
    fbSpec c as (b :: bs) = fbSpec c as bs := by
  unfold fbSpec
  apply filterMap_congr'
  intro a ha
  have := h a ha
  simp [fbStep, nearestF, Int.not_le.mpr this]

theorem fbLoop_eq_spec (c : Cfg) : ∀ (fuel : Nat) (as bs : List Row),
    as.Pairwise (fun x y => c.ts x ≤ c.ts y) → as.length + bs.length ≤ fuel →
    fbLoop c fuel as bs = fbSpec c as bs := by
  intro fuel
  induction fuel with
  | zero =>
    intro as bs _ hf
    have h1 : as = [] := by cases as <;> simp_all
    have h2 : bs = [] := by cases bs <;> simp_all
    subst h1 h2
    simp [fbLoop, fbSpec]
  | succ fuel ih =>
    intro as bs hs hf
    cases as with
    | nil => simp [fbLoop, fbSpec]
    | cons a as =>
      cases bs with
      | nil => simp [fbLoop, fbSpec_nil_right]
      | cons b bs =>
        simp only [fbLoop]
        split
        · rename_i hab
          rw [ih as (b :: bs) hs.tail (by simp at hf ⊢; omega)]
          simp only [fbSpec, filterMap_cons, fbStep, nearestF, find?_cons, hab, decide_true]
          split <;> simp_all
        · rename_i hab
          rw [ih (a :: as) bs hs (by simp at hf ⊢; omega)]
          symm
          apply fbSpec_skip
          intro a' ha'
          rcases mem_cons.mp ha' with rfl | ha'
          · omega
          · have := rel_of_pairwise_cons hs ha'
            omega

theorem followedBy_eq_spec (c : Cfg) (as bs : List Row)
    (hs : as.Pairwise (fun x y => c.ts x ≤ c.ts y)) : followedBy c as bs = fbSpec c as bs :=
  fbLoop_eq_spec c _ as bs hs (Nat.le_refl _)

/-- soundness of the sweep needs no sortedness -/
theorem mem_fbLoop (c : Cfg) : ∀ (fuel : Nat) (as bs : List Row) (p : Pair), p ∈ fbLoop c fuel as bs →
    p.1 ∈ as ∧ p.2 ∈ bs ∧ c.ts p.1 ≤ c.ts p.2 ∧ c.pairOk p.1 p.2 = true := by
  intro fuel
  induction fuel with
  | zero => intro as bs p h; simp [fbLoop] at h
  | succ fuel ih =>
    intro as bs p h
    cases as with
    | nil => simp [fbLoop] at h
    | cons a as =>
      cases bs with
      | nil => simp [fbLoop] at h
      | cons b bs =>
        simp only [fbLoop] at h
        split at h
        · rename_i hab
          rcases mem_append.mp h with h | h
          · split at h
            · rename_i hok
              simp at h; subst h
              exact ⟨by simp, by simp, hab, hok⟩
            · simp at h
          · obtain ⟨h1, h2, h3, h4⟩ := ih as (b :: bs) p h
            exact ⟨mem_cons_of_mem _ h1, h2, h3, h4⟩
        · obtain ⟨h1, h2, h3, h4⟩ := ih (a :: as) bs p h
          exact ⟨h1, mem_cons_of_mem _ h2, h3, h4⟩

theorem followedBy_nil_left (c : Cfg) (bs : List Row) : followedBy c [] bs = [] := by
  unfold followedBy; cases h : ([] : List Row).length + bs.length <;> simp [fbLoop]

theorem followedBy_nil_right (c : Cfg) (as : List Row) : followedBy c as [] = [] := by
  unfold followedBy
  cases h : as.length + ([] : List Row).length with
  | zero => simp [fbLoop]
  | succ n => cases as <;> simp [fbLoop]

/-! ### PRECEDED BY -/

theorem advanceB_spec (c : Cfg) (t : Int) : ∀ (bs : List Row) (b : Row), c.ts b < t →
    ∃ pre, b :: bs = pre ++ (advanceB c t b bs).1 :: (advanceB c t b bs).2 ∧
      (∀ x ∈ pre, c.ts x < t) ∧ c.ts (advanceB c t b bs).1 < t ∧
      (∀ y, (advanceB c t b bs).2.head? = some y → t ≤ c.ts y) := by
  intro bs
  induction bs with
  | nil => intro b hb; exact ⟨[], by simp [advanceB], by simp, by simpa [advanceB] using hb, by simp [advanceB]⟩
  | cons b' bs ih =>
    intro b hb
    simp only [advanceB]
    split
    · rename_i hb'
      obtain ⟨pre, h1, h2, h3, h4⟩ := ih b' hb'
      refine ⟨b :: pre, by rw [h1]; simp, ?_, h3, h4⟩
      intro x hx
      rcases mem_cons.mp hx with rfl | hx
      · exact hb
      · exact h2 x hx
    · rename_i hb'
      exact ⟨[], by simp, by simp, hb, by simp; omega⟩

/-- the only partner an a-row is ever compared with: the last b of the leading run of rows
earlier than it -/
def latestP (c : Cfg) (a : Row) (bs : List Row) : Option Row :=
  (bs.takeWhile fun b => c.ts b < c.ts a).getLast?

def pbStep (c : Cfg) (bs : List Row) (a : Row) : Option Pair :=
  match latestP c a bs with
  | some b => if c.pairOk a b then some (b, a) else none
  | none => none

def pbSpec (c : Cfg) (as bs : List Row) : List Pair := as.filterMap (pbStep c bs)

theorem pbSpec_nil_right (c : Cfg) (as : List Row) : pbSpec c as [] = [] := by
  simp [pbSpec, pbStep, latestP]

theorem latestP_drop (c : Cfg) (a : Row) (pre : List Row) (lb : Row) (rest : List Row)
    (hpre : ∀ x ∈ pre, c.ts x < c.ts a) (hlb : c.ts lb < c.ts a) :
    latestP c a (pre ++ lb :: rest) = latestP c a (lb :: rest) := by
  unfold latestP
  rw [takeWhile_append_of_pos (by simpa using hpre)]
  have : (lb :: rest).takeWhile (fun b => decide (c.ts b < c.ts a))
      = lb :: rest.takeWhile (fun b => decide (c.ts b < c.ts a)) := by simp [hlb]
  rw [this, getLast?_append]
  simp [getLast?_cons]

theorem pbSpec_drop (c : Cfg) (as pre : List Row) (lb : Row) (rest : List Row)
    (h : ∀ a ∈ as, (∀ x ∈ pre, c.ts x < c.ts a) ∧ c.ts lb < c.ts a) :
    pbSpec c as (pre ++ lb :: rest) = pbSpec c as (lb :: rest) := by
  unfold pbSpec
  apply filterMap_congr'
  intro a ha
  simp only [pbStep, latestP_drop c a pre lb rest (h a ha).1 (h a ha).2]

theorem pbLoop_eq_spec (c : Cfg) : ∀ (fuel : Nat) (as bs : List Row),
    as.Pairwise (fun x y => c.ts x ≤ c.ts y) → as.length + bs.length ≤ fuel →
    pbLoop c fuel as bs = pbSpec c as bs := by
  intro fuel
  induction fuel with
  | zero =>
    intro as bs _ hf
    have h1 : as = [] := by cases as <;> simp_all
    subst h1
    simp [pbLoop, pbSpec]
  | succ fuel ih =>
    intro as bs hs hf
    cases as with
    | nil => simp [pbLoop, pbSpec]
    | cons a as =>
      cases bs with
      | nil => simp [pbLoop, pbSpec_nil_right]
      | cons b bs =>
        have hlater : ∀ a' ∈ as, c.ts a ≤ c.ts a' := fun a' ha' => rel_of_pairwise_cons hs ha'
        simp only [pbLoop]
        split
        · rename_i hba
          obtain ⟨pre, h1, h2, h3, h4⟩ := advanceB_spec c (c.ts a) bs b hba
          generalize hadv : advanceB c (c.ts a) b bs = lb at h1 h2 h3 h4
          obtain ⟨lb, rest⟩ := lb
          simp only at h1 h2 h3 h4 ⊢
          have hlen : (lb :: rest).length ≤ (b :: bs).length := by
            rw [h1]; simp
          rw [ih as (lb :: rest) hs.tail (by simp at hf hlen ⊢; omega)]
          -- closed form of the head
          have hhead : pbStep c (b :: bs) a = if c.pairOk a lb then some (lb, a) else none := by
            have : latestP c a (b :: bs) = some lb := by
              rw [h1]
              unfold latestP
              rw [takeWhile_append_of_pos (by simpa using h2)]
              simp only [takeWhile_cons, h3, decide_true, if_true]
              have : rest.takeWhile (fun b => decide (c.ts b < c.ts a)) = [] := by
                cases rest with
                | nil => simp
                | cons y ys =>
                  have := h4 y (by simp)
                  simp [Int.not_lt.mpr this]
              rw [this, getLast?_append]
              simp
            simp [pbStep, this]
          have htail : pbSpec c as (b :: bs) = pbSpec c as (lb :: rest) := by
            rw [h1]
            apply pbSpec_drop
            intro a' ha'
            exact ⟨fun x hx => Int.lt_of_lt_of_le (h2 x hx) (hlater a' ha'), Int.lt_of_lt_of_le h3 (hlater a' ha')⟩
          show _ = pbSpec c (a :: as) (b :: bs)
          conv => rhs; unfold pbSpec; rw [filterMap_cons]
          rw [hhead]
          have : filterMap (pbStep c (b :: bs)) as = pbSpec c as (b :: bs) := rfl
          rw [this, htail]
          split <;> simp
        · rename_i hba
          -- no b is earlier than this a: it yields nothing, the sweep goes on with the next a
          rw [ih as (b :: bs) hs.tail (by simp at hf ⊢; omega)]
          have hnone : pbStep c (b :: bs) a = none := by
            simp [pbStep, latestP, hba]
          show _ = pbSpec c (a :: as) (b :: bs)
          conv => rhs; unfold pbSpec; rw [filterMap_cons, hnone]
          rfl

/-- closed form of `match_preceded_by` on a time-sorted a-list (any b-list) -/
theorem precededBy_eq_spec (c : Cfg) (as bs : List Row)
    (hs : as.Pairwise (fun x y => c.ts x ≤ c.ts y)) : precededBy c as bs = pbSpec c as bs :=
  pbLoop_eq_spec c _ as bs hs (Nat.le_refl _)

theorem mem_takeWhile_imp' {α} {p : α → Bool} : ∀ {l : List α} {x : α}, x ∈ l.takeWhile p → p x = true ∧ x ∈ l := by
  intro l
  induction l with
  | nil => intro x h; simp at h
  | cons y ys ih =>
    intro x h
    rw [takeWhile_cons] at h
    split at h
    · rename_i hy
      rcases mem_cons.mp h with rfl | h
      · exact ⟨hy, by simp⟩
      · exact ⟨(ih h).1, mem_cons_of_mem _ (ih h).2⟩
    · simp at h

/-- the latest earlier partner is a row of the list and is earlier -/
theorem latestP_some {c : Cfg} {a b : Row} {bs : List Row} (h : latestP c a bs = some b) :
    b ∈ bs ∧ c.ts b < c.ts a := by
  have := mem_takeWhile_imp' (mem_of_getLast? h)
  exact ⟨this.2, by simpa using this.1⟩

/-- in a time-sorted list an earlier row exists iff the latest earlier partner exists -/
theorem latestP_isSome_of_mem {c : Cfg} {a b : Row} {bs : List Row}
    (hs : bs.Pairwise (fun x y => c.ts x ≤ c.ts y)) (hb : b ∈ bs) (ht : c.ts b < c.ts a) :
    ∃ b', latestP c a bs = some b' := by
  cases bs with
  | nil => simp at hb
  | cons b0 rest =>
    have h0 : c.ts b0 < c.ts a := by
      rcases mem_cons.mp hb with rfl | hb
      · exact ht
      · exact Int.lt_of_le_of_lt (rel_of_pairwise_cons hs hb) ht
    unfold latestP
    rw [takeWhile_cons_of_pos (by simpa using h0)]
    cases h : (b0 :: takeWhile (fun b => decide (c.ts b < c.ts a)) rest).getLast? with
    | none => simp at h
    | some b' => exact ⟨b', rfl⟩

theorem mem_pbLoop (c : Cfg) : ∀ (fuel : Nat) (as bs : List Row) (p : Pair), p ∈ pbLoop c fuel as bs →
    p.2 ∈ as ∧ p.1 ∈ bs ∧ c.ts p.1 < c.ts p.2 ∧ c.pairOk p.2 p.1 = true := by
  intro fuel
  induction fuel with
  | zero => intro as bs p h; simp [pbLoop] at h
  | succ fuel ih =>
    intro as bs p h
    cases as with
    | nil => simp [pbLoop] at h
    | cons a as =>
      cases bs with
      | nil => simp [pbLoop] at h
      | cons b bs =>
        simp only [pbLoop] at h
        split at h
        · rename_i hba
          obtain ⟨pre, h1, h2, h3, h4⟩ := advanceB_spec c (c.ts a) bs b hba
          generalize hadv : advanceB c (c.ts a) b bs = lb at h h1 h2 h3 h4
          obtain ⟨lb, rest⟩ := lb
          simp only at h h1 h2 h3 h4
          have hsub : ∀ x ∈ lb :: rest, x ∈ b :: bs := by
            intro x hx; rw [h1]; exact mem_append_right _ hx
          rcases mem_append.mp h with h | h
          · split at h
            · rename_i hok
              simp at h; subst h
              exact ⟨by simp, hsub lb (by simp), h3, hok⟩
            · simp at h
          · obtain ⟨q1, q2, q3, q4⟩ := ih as (lb :: rest) p h
            exact ⟨mem_cons_of_mem _ q1, hsub _ q2, q3, q4⟩
        · obtain ⟨q1, q2, q3, q4⟩ := ih as (b :: bs) p h
          exact ⟨mem_cons_of_mem _ q1, q2, q3, q4⟩

theorem precededBy_nil_left (c : Cfg) (bs : List Row) : precededBy c [] bs = [] := by
  unfold precededBy; cases h : ([] : List Row).length + bs.length <;> simp [pbLoop]

theorem precededBy_nil_right (c : Cfg) (as : List Row) : precededBy c as [] = [] := by
  unfold precededBy
  cases h : as.length + ([] : List Row).length with
  | zero => simp [pbLoop]
  | succ n => cases as <;> simp [pbLoop]

/-! ### the loop over groups -/

theorem matchInGroup_of_empty (c : Cfg) (g : Group) (h : (g.1.isEmpty || g.2.isEmpty) = true) :
    matchInGroup c g = [] := by
  obtain ⟨ga, gb⟩ := g
  simp only [Bool.or_eq_true, isEmpty_iff] at h
  unfold matchInGroup
  rcases h with h | h <;> subst h <;> split <;>
    simp [followedBy_nil_left, followedBy_nil_right, precededBy_nil_left, precededBy_nil_right]

theorem runGroups_none (c : Cfg) : ∀ (gs : List Group) (acc : List Pair),
    runGroups c none gs acc = acc ++ gs.flatMap (matchInGroup c) := by
  intro gs
  induction gs with
  | nil => intro acc; simp [runGroups]
  | cons g gs ih =>
    intro acc
    simp only [runGroups]
    split
    · rename_i h
      rw [ih, flatMap_cons, matchInGroup_of_empty c g h]; simp
    · rw [ih, flatMap_cons]; simp

theorem runGroups_some (c : Cfg) (n : Nat) : ∀ (gs : List Group) (acc : List Pair), acc.length ≤ n →
    runGroups c (some n) gs acc = (acc ++ gs.flatMap (matchInGroup c)).take n := by
  intro gs
  induction gs with
  | nil => intro acc h; simp [runGroups, take_of_length_le h]
  | cons g gs ih =>
    intro acc hacc
    simp only [runGroups]
    split
    · rename_i h
      have : acc.length = n := by omega
      rw [take_append_of_le_length (by omega), take_of_length_le (by omega)]
    · rename_i hlt
      split
      · rename_i h
        rw [ih acc hacc, flatMap_cons, matchInGroup_of_empty c g h]; simp
      · split
        · rename_i hge
          rw [flatMap_cons, ← append_assoc]
          exact (take_append_of_le_length hge).symm
        · rename_i hlt2
          rw [ih _ (by omega), flatMap_cons, append_assoc]

theorem matchSequences_none (c : Cfg) (as bs : List Row) (order : List Key) :
    matchSequences c none as bs order = (groupsOf c as bs order).flatMap (matchInGroup c) := by
  simp [matchSequences, runGroups_none]

theorem matchSequences_some (c : Cfg) (n : Nat) (as bs : List Row) (order : List Key) :
    matchSequences c (some n) as bs order = (matchSequences c none as bs order).take n := by
  rw [matchSequences_none]
  simp [matchSequences, runGroups_some c n _ [] (by simp)]

/-! ### membership in groups -/

theorem mem_dedupKeys {k : Key} : ∀ {l : List Key}, k ∈ dedupKeys l ↔ k ∈ l := by
  intro l
  induction l with
  | nil => simp [dedupKeys]
  | cons x xs ih =>
    simp only [dedupKeys, mem_cons, mem_filter, ih, decide_eq_true_eq]
    constructor
    · rintro (h | ⟨h, _⟩)
      · exact Or.inl h
      · exact Or.inr h
    · intro h
      by_cases hk : k = x
      · exact Or.inl hk
      · rcases h with h | h
        · exact absurd h hk
        · exact Or.inr ⟨h, hk⟩

theorem mem_groupRows {c : Cfg} {k : Key} {rows : List Row} {r : Row} :
    r ∈ groupRows c k rows ↔ r ∈ rows ∧ linkOf c.linkField r = some k := by
  simp [groupRows, mem_sortBy]

theorem groupRows_sorted (c : Cfg) (k : Key) (rows : List Row) :
    (groupRows c k rows).Pairwise (fun x y => c.ts x ≤ c.ts y) := sortBy_sorted _ _

theorem mem_groupsOf {c : Cfg} {as bs : List Row} {order : List Key} {g : Group} :
    g ∈ groupsOf c as bs order ↔ ∃ k ∈ order, g = (groupRows c k as, groupRows c k bs) := by
  simp [groupsOf, mem_sortBy, eq_comm]

/-- every emitted pair, whatever the link direction -/
theorem mem_matchInGroup (c : Cfg) (g : Group) (p : Pair) (h : p ∈ matchInGroup c g) :
    aOf c p ∈ g.1 ∧ bOf c p ∈ g.2 ∧ c.pairOk (aOf c p) (bOf c p) = true ∧
      (if c.preceded then c.ts (bOf c p) < c.ts (aOf c p) else c.ts (aOf c p) ≤ c.ts (bOf c p)) := by
  unfold matchInGroup at h
  unfold aOf bOf
  cases hp : c.preceded with
  | true =>
    simp only [hp, if_true] at h ⊢
    obtain ⟨h1, h2, h3, h4⟩ := mem_pbLoop c _ _ _ p h
    exact ⟨h1, h2, h4, h3⟩
  | false =>
    simp only [hp] at h ⊢
    obtain ⟨h1, h2, h3, h4⟩ := mem_fbLoop c _ _ _ p h
    exact ⟨h1, h2, h4, by simpa using h3⟩

theorem mem_matchSequences_all (c : Cfg) (lim : Option Nat) (as bs : List Row) (order : List Key)
    (p : Pair) (h : p ∈ matchSequences c lim as bs order) :
    p ∈ (groupsOf c as bs order).flatMap (matchInGroup c) := by
  cases lim with
  | none => rwa [matchSequences_none] at h
  | some n =>
    rw [matchSequences_some, matchSequences_none] at h
    exact mem_of_mem_take h

end Snel.Sequence
