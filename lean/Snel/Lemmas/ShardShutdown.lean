import Snel.Lemmas.ShardDirs
import Snel.Lemmas.ShardIndexed
/-! C01, clean-shutdown clause: after `flush_all` + stop + restart every applied event is
visible, for any history whose restarts are all clean. -/
namespace Snel.Shard

/-- A non-empty passive buffer belongs to a queued job that has not yet released it. -/
structure Inv3 (s : Shard) : Prop where
  owner : ∀ p ∈ s.passives, p.2 ≠ [] → ∃ j ∈ s.jobs, j.seg = p.1
  released : ∀ p ∈ s.passives, ∀ j ∈ s.jobs, p.1 = j.seg → 4 ≤ j.step → p.2 = []

theorem init_inv3 (cap k : Nat) : Inv3 (Shard.init cap k) := by
  constructor <;> simp [Shard.init]

theorem rotate_inv3 {s : Shard} (h : Inv s) (h3 : Inv3 s) : Inv3 (rotate s) := by
  constructor
  · intro p hp hne
    simp only [rotate, List.mem_append, List.mem_singleton] at hp ⊢
    rcases hp with hp | rfl
    · obtain ⟨j, hj, hjs⟩ := h3.owner p hp hne
      exact ⟨j, Or.inl hj, hjs⟩
    · exact ⟨⟨s.nextL0, s.mem, 0⟩, Or.inr rfl, rfl⟩
  · intro p hp j hj hpj hst
    simp only [rotate, List.mem_append, List.mem_singleton] at hp hj
    rcases hp with hp | rfl <;> rcases hj with hj | rfl
    · exact h3.released p hp j hj hpj hst
    · simp at hst
    · have := h.freshJ j hj; simp at hpj; omega
    · simp at hst

theorem store_inv3 {s : Shard} (e : Ev) (h : Inv s) (h3 : Inv3 s) : Inv3 (store s e) := by
  obtain ⟨hm, hp, hj, hl, hn, hs, _⟩ := walAppend_frame s e
  have hI : Inv { walAppend s e with mem := (walAppend s e).mem ++ [e] } := by
    have := store_inv e h
    -- re-derive the pre-rotation invariant directly
    constructor
    · intro p hp'; simp only [hp, hn] at hp' ⊢; exact h.freshP p hp'
    · intro j hj'; simp only [hj, hn] at hj' ⊢; exact h.freshJ j hj'
    · intro p hp' j hj'; simp only [hp, hj] at hp' hj'; exact h.pj p hp' j hj'
    · intro j hj' hstep x hx
      simp only [hj] at hj'
      have : segRows { walAppend s e with mem := (walAppend s e).mem ++ [e] } j.seg = segRows s j.seg := by
        simp [segRows, hs]
      rw [this]; exact h.written j hj' hstep x hx
    · intro j hj' hstep; simp only [hj, hl] at hj' ⊢; exact h.published j hj' hstep
  have h1 : Inv3 { walAppend s e with mem := (walAppend s e).mem ++ [e] } := by
    constructor
    · intro p hp' hne; simp only [hp] at hp'
      obtain ⟨j, hjm, hjs⟩ := h3.owner p hp' hne
      exact ⟨j, by simpa [hj] using hjm, hjs⟩
    · intro p hp' j hj'; simp only [hp, hj] at hp' hj'; exact h3.released p hp' j hj'
  unfold store
  simp only
  split
  · exact rotate_inv3 hI h1
  · exact h1

theorem flushStep_inv3 {s : Shard} (h : Inv s) (h3 : Inv3 s) : Inv3 (flushStep s) := by
  unfold flushStep
  cases hjobs : s.jobs with
  | nil => exact h3
  | cons j rest =>
    have hjmem : j ∈ s.jobs := by rw [hjobs]; simp
    have hrest : ∀ x ∈ rest, x ∈ s.jobs := fun x hx => by rw [hjobs]; simp [hx]
    have hsplit : ∀ x ∈ s.jobs, x = j ∨ x ∈ rest := fun x hx => by rw [hjobs] at hx; simpa using hx
    simp only
    -- owner/released transfer when the head job only changes its step below 4 or its data stay
    have keepOwner : ∀ (j' : Job), j'.seg = j.seg →
        ∀ p ∈ s.passives, p.2 ≠ [] → ∃ x ∈ j' :: rest, x.seg = p.1 := by
      intro j' hseg p hp hne
      obtain ⟨x, hx, hxs⟩ := h3.owner p hp hne
      rcases hsplit x hx with rfl | hx
      · exact ⟨j', by simp, by rw [hseg, hxs]⟩
      · exact ⟨x, by simp [hx], hxs⟩
    by_cases hemp : j.evs.isEmpty
    · simp only [hemp, if_true]
      have hnil : j.evs = [] := by simpa using hemp
      constructor
      · intro p hp hne
        obtain ⟨x, hx, hxs⟩ := h3.owner p hp hne
        rcases hsplit x hx with rfl | hx
        · rcases h.pj p hp x hjmem hxs.symm with hpe | hpe
          · rw [hpe, hnil] at hne; exact absurd rfl hne
          · exact absurd hpe hne
        · exact ⟨x, hx, hxs⟩
      · intro p hp x hx; exact h3.released p hp x (hrest x hx)
    · simp only [hemp, if_false, Bool.false_eq_true]
      match hst : j.step with
      | 0 =>
        simp only
        refine ⟨keepOwner _ rfl, ?_⟩
        intro p hp x hx hpx h4
        simp only [List.mem_cons] at hx
        rcases hx with rfl | hx
        · simp at h4
        · exact h3.released p hp x (hrest x hx) hpx h4
      | 1 =>
        simp only
        refine ⟨keepOwner _ rfl, ?_⟩
        intro p hp x hx hpx h4
        simp only [List.mem_cons] at hx
        rcases hx with rfl | hx
        · simp at h4
        · exact h3.released p hp x (hrest x hx) hpx h4
      | 2 =>
        simp only
        refine ⟨keepOwner _ rfl, ?_⟩
        intro p hp x hx hpx h4
        simp only [List.mem_cons] at hx
        rcases hx with rfl | hx
        · simp at h4
        · exact h3.released p hp x (hrest x hx) hpx h4
      | 3 =>
        simp only
        constructor
        · intro q hq hne
          obtain ⟨p, hp, rfl⟩ := mem_clearPassive.mp hq
          by_cases hps : (p.1 == j.seg) = true
          · simp [hps] at hne
          · simp only [hps, if_false, Bool.false_eq_true] at hne ⊢
            exact keepOwner { j with step := 4 } rfl p hp hne
        · intro q hq x hx hqx h4
          obtain ⟨p, hp, rfl⟩ := mem_clearPassive.mp hq
          by_cases hps : (p.1 == j.seg) = true
          · simp [hps]
          · simp only [hps, if_false, Bool.false_eq_true] at hqx ⊢
            simp only [List.mem_cons] at hx
            rcases hx with rfl | hx
            · exfalso; apply hps; simpa using hqx
            · exact h3.released p hp x (hrest x hx) hqx h4
      | 4 =>
        simp only
        constructor
        · intro p hp hne
          exact keepOwner { j with step := 5 } rfl p (by simpa [walClean] using hp) hne
        · intro p hp x hx hpx h4
          have hp' : p ∈ s.passives := by simpa [walClean] using hp
          simp only [List.mem_cons] at hx
          rcases hx with rfl | hx
          · exact h3.released p hp' j hjmem hpx (by omega)
          · exact h3.released p hp' x (hrest x hx) hpx h4
      | n + 5 =>
        simp only
        constructor
        · intro p hp hne
          obtain ⟨x, hx, hxs⟩ := h3.owner p hp hne
          rcases hsplit x hx with rfl | hx
          · exact absurd (h3.released p hp x hjmem hxs.symm (by omega)) hne
          · exact ⟨x, hx, hxs⟩
        · intro p hp x hx; exact h3.released p hp x (hrest x hx)

theorem drain_inv3 (n : Nat) : ∀ {s : Shard}, Inv s → Inv3 s → Inv3 (drain n s) := by
  induction n with
  | zero => intro s _ h3; exact h3
  | succ n ih =>
    intro s h h3
    unfold drain
    split
    · exact h3
    · exact ih (flushStep_inv_cover h).1 (flushStep_inv3 h h3)

/-! ### The flush worker terminates: `drainAll` leaves no job -/

def jobWork (j : Job) : Nat := jobSteps - min j.step 5

def work (js : List Job) : Nat := (js.map jobWork).foldl (· + ·) 0

theorem foldl_add_shift (l : List Nat) (a : Nat) : l.foldl (· + ·) a = a + l.foldl (· + ·) 0 := by
  induction l generalizing a with
  | nil => simp
  | cons x xs ih => simp only [List.foldl_cons]; rw [ih (a + x), ih (0 + x)]; omega

theorem work_cons (j : Job) (js : List Job) : work (j :: js) = jobWork j + work js := by
  simp only [work, List.map_cons, List.foldl_cons]
  rw [foldl_add_shift]; omega

theorem jobWork_pos (j : Job) : 1 ≤ jobWork j := by
  unfold jobWork jobSteps; omega

theorem jobWork_le (j : Job) : jobWork j ≤ jobSteps := by
  unfold jobWork; omega

theorem work_le (js : List Job) : work js ≤ jobSteps * js.length := by
  induction js with
  | nil => simp [work]
  | cons j js ih =>
    rw [work_cons, List.length_cons, Nat.mul_succ]
    have := jobWork_le j
    omega

theorem flushStep_work {s : Shard} (hne : s.jobs ≠ []) : work (flushStep s).jobs < work s.jobs := by
  unfold flushStep
  cases hjobs : s.jobs with
  | nil => exact absurd hjobs hne
  | cons j rest =>
    simp only
    have hp := jobWork_pos j
    by_cases hemp : j.evs.isEmpty
    · simp only [hemp, if_true]; rw [work_cons]; omega
    · simp only [hemp, if_false, Bool.false_eq_true]
      match hst : j.step with
      | 0 => simp only; rw [work_cons, work_cons]; simp [jobWork, jobSteps, hst]
      | 1 => simp only; rw [work_cons, work_cons]; simp [jobWork, jobSteps, hst]
      | 2 => simp only; rw [work_cons, work_cons]; simp [jobWork, jobSteps, hst]
      | 3 => simp only; rw [work_cons, work_cons]; simp [jobWork, jobSteps, hst]
      | 4 =>
        simp only
        rw [work_cons, work_cons]; simp [jobWork, jobSteps, hst]
      | n + 5 => simp only; rw [work_cons]; omega

theorem drain_jobs_nil (n : Nat) : ∀ (s : Shard), work s.jobs < n → (drain n s).jobs = [] := by
  induction n with
  | zero => intro s h; omega
  | succ n ih =>
    intro s h
    unfold drain
    split
    · rename_i he; simpa using he
    · rename_i he
      have hne : s.jobs ≠ [] := by intro hc; simp [hc] at he
      have := flushStep_work hne
      exact ih (flushStep s) (by omega)

theorem drainAll_jobs_nil (s : Shard) : (drainAll s).jobs = [] := by
  unfold drainAll
  apply drain_jobs_nil
  have := work_le s.jobs
  omega

theorem drain_mem (n : Nat) : ∀ (s : Shard), (drain n s).mem = s.mem := by
  induction n with
  | zero => intro s; rfl
  | succ n ih =>
    intro s
    unfold drain
    split
    · rfl
    · rw [ih]
      unfold flushStep
      cases s.jobs with
      | nil => rfl
      | cons j rest =>
        simp only
        split
        · rfl
        · split <;> simp [walClean]

/-- After a clean shutdown and restart every covered event is still covered. -/
theorem shutdown_indexed {s : Shard} (hI : Indexed s) : Indexed (shutdown s) :=
  drain_indexed _ (rotate_indexed (drain_indexed _ hI))

theorem shutdown_cover {s : Shard} (h : Inv s) (h3 : Inv3 s) (hI : Indexed s) (e : Ev) (he : Cover s e) :
    Cover (restart (crash (shutdown s))) e := by
  -- state just before the process exits
  have a1 := drain_inv_cover (jobSteps * s.jobs.length + 1) h
  have a3 := drain_inv3 (jobSteps * s.jobs.length + 1) h h3
  have b1 := rotate_inv a1.1
  have b3 := rotate_inv3 a1.1 a3
  have c1 := drain_inv_cover (jobSteps * (flushCmd (drainAll s)).jobs.length + 1) b1
  have c3 := drain_inv3 (jobSteps * (flushCmd (drainAll s)).jobs.length + 1) b1 b3
  have hcov : Cover (shutdown s) e := c1.2 e (rotate_cover (a1.2 e he))
  have hjobs : (shutdown s).jobs = [] := drainAll_jobs_nil _
  have hmem : (shutdown s).mem = [] := by
    unfold shutdown drainAll
    rw [drain_mem]; simp [flushCmd, rotate]
  have c3' : Inv3 (shutdown s) := c3
  rcases hcov with hm | ⟨p, hp, hpe⟩ | ⟨id, hid, hrow⟩
  · rw [hmem] at hm; simp at hm
  · have hne : p.2 ≠ [] := by intro hc; rw [hc] at hpe; simp at hpe
    obtain ⟨j, hj, _⟩ := c3'.owner p hp hne
    rw [hjobs] at hj; simp at hj
  · obtain ⟨q, hq, hqid, hqe⟩ := mem_segRows.mp hrow
    refine Or.inr (Or.inr ⟨q.1, ?_, ?_⟩)
    · have hl : (restart (crash (shutdown s))).live
          = published (crash (shutdown s)) (sortNat (((crash (shutdown s)).segs.map (·.1)).eraseDups)) := by
        simp [restart]
      rw [hl, mem_published]
      refine ⟨?_, ?_⟩
      · simp only [crash]
        rw [mem_sortNat, List.mem_eraseDups, List.mem_map]
        exact ⟨q, hq, rfl⟩
      · have := indexed_served (shutdown_indexed hI) hjobs q hq
        simpa [Served, crash] using this
    · rw [mem_segRows]; exact ⟨q, by simpa [restart, crash] using hq, rfl, hqe⟩

theorem restart_inv3 (s : Shard) : Inv3 (restart (crash s)) := by
  constructor <;> simp [restart, crash]

/-- Operations of a history whose restarts are all clean. -/
def Op.noKill : Op → Bool
  | .crash => false
  | _ => true

theorem runOps_clean (ops : List Op) : ∀ {s : Shard}, Inv s → Inv3 s → Indexed s → (∀ o ∈ ops, o.noKill = true) →
    Inv (runOps s ops) ∧ Inv3 (runOps s ops) ∧ (∀ e, Cover s e → Cover (runOps s ops) e) ∧
    ∀ e ∈ storedEvents ops, Cover (runOps s ops) e := by
  induction ops with
  | nil => intro s h h3 _ _; exact ⟨h, h3, fun _ he => he, by simp [storedEvents]⟩
  | cons o ops ih =>
    intro s h h3 hI hall
    have ho := hall o (by simp)
    have hstep : Inv (step s o) ∧ Inv3 (step s o) ∧ Indexed (step s o) ∧ ∀ e, Cover s e → Cover (step s o) e := by
      cases o with
      | store e => exact ⟨store_inv e h, store_inv3 e h h3, store_indexed e hI, fun x hx => store_cover_old e x hx⟩
      | flushCmd =>
        have b1 := rotate_inv h
        have c := drain_inv_cover (jobSteps * (flushCmd s).jobs.length + 1) (s := flushCmd s) b1
        exact ⟨c.1, drain_inv3 _ b1 (rotate_inv3 h h3), drain_indexed _ (rotate_indexed hI),
          fun e he => c.2 e (rotate_cover he)⟩
      | flushStep =>
        exact ⟨(flushStep_inv_cover h).1, flushStep_inv3 h h3, flushStep_indexed hI, (flushStep_inv_cover h).2⟩
      | drain => exact ⟨(drain_inv_cover _ h).1, drain_inv3 _ h h3, drain_indexed _ hI, (drain_inv_cover _ h).2⟩
      | crash => simp [Op.noKill] at ho
      | shutdown =>
        exact ⟨restart_inv _, restart_inv3 _, restart_indexed (shutdown_indexed hI) (drainAll_jobs_nil _),
          fun e he => shutdown_cover h h3 hI e he⟩
    obtain ⟨h1, h31, hI1, c1⟩ := hstep
    obtain ⟨h2, h32, c2, c3⟩ := ih h1 h31 hI1 (fun x hx => hall x (by simp [hx]))
    have hrun : runOps s (o :: ops) = runOps (step s o) ops := by simp [runOps]
    rw [hrun]
    refine ⟨h2, h32, fun e he => c2 e (c1 e he), ?_⟩
    intro e he
    cases o with
    | store x =>
      simp only [storedEvents, List.mem_cons] at he
      rcases he with rfl | he
      · exact c2 _ (by simpa [step] using store_cover_new s e)
      · exact c3 e he
    | flushCmd => exact c3 e (by simpa [storedEvents] using he)
    | flushStep => exact c3 e (by simpa [storedEvents] using he)
    | drain => exact c3 e (by simpa [storedEvents] using he)
    | crash => simp [Op.noKill] at ho
    | shutdown => exact c3 e (by simpa [storedEvents] using he)

end Snel.Shard
