import Snel.Lemmas.ReplayOrder
import Snel.Lemmas.Order
/-!
Stability of the compaction merger (`mergeCursorsPQ`) for any priority queue that satisfies the
C10 contract `PQ.Correct` with respect to the order (context id, input position): rows of one
context leave in input order (cursor order, then position inside the cursor).
-/
namespace Snel.Replay
open Snel.Shard Snel.Order

/-- The output order of the merger on decorated rows: context id, then input position. -/
def cmpD (a b : DRow) : Ordering := (ctxCmp a.ev.ctx b.ev.ctx).then (compare a.seq b.seq)

def leD (a b : DRow) : Bool := outLe true cmpD a b

theorem tpo_then {α : Type} {c1 c2 : α → α → Ordering} {P : α → Prop} (h1 : TPO c1 P) (h2 : TPO c2 P) :
    TPO (fun a b => (c1 a b).then (c2 a b)) P := by
  constructor
  · intro a b ha hb
    rw [h1.swap a b ha hb, h2.swap a b ha hb]
    cases c1 a b <;> cases c2 a b <;> rfl
  · intro a b c ha hb hc
    have sab := h1.swap a b ha hb
    have sbc := h1.swap b c hb hc
    have sac := h1.swap a c ha hc
    have t1 := h1.trans a b c ha hb hc
    have t2 := h1.trans b c a hb hc ha
    have t3 := h1.trans c a b hc ha hb
    have t4 := h1.trans c b a hc hb ha
    have t5 := h2.trans a b c ha hb hc
    simp only [sab, sbc, sac] at t2 t3 t4
    cases hab : c1 a b <;> cases hbc : c1 b c <;> cases hac : c1 a c <;>
      simp_all [Ordering.then, Ordering.swap]

theorem ctxPart_tpo : TPO (fun a b : DRow => ctxCmp a.ev.ctx b.ev.ctx) (fun _ => True) :=
  tpo_of_bytes_key (fun d => ctxDigits d.ev.ctx) (fun _ _ _ _ => rfl)

theorem seqPart_tpo : TPO (fun a b : DRow => compare a.seq b.seq) (fun _ => True) := by
  refine tpo_of_key (fun d => (d.seq : Int)) ?_
  intro a b _ _
  show compare a.seq b.seq = compare (a.seq : Int) (b.seq : Int)
  rw [ncmp, icmp]
  by_cases h1 : a.seq < b.seq
  · have : (a.seq : Int) < b.seq := by omega
    simp [h1, this]
  · by_cases h2 : a.seq = b.seq
    · simp [h2]
    · have h3 : ¬ (a.seq : Int) < b.seq := by omega
      have h4 : ¬ (a.seq : Int) = b.seq := by omega
      simp [h1, h2, h3, h4]

theorem cmpD_tpo : TPO cmpD (fun _ => True) := tpo_then ctxPart_tpo seqPart_tpo

theorem leD_leOn : LeOn leD (fun _ => True) := cmpD_tpo.leOn true

theorem ctxCmp_refl (c : Nat) : ctxCmp c c = .eq := by
  have := cmpBytes_swap (ctxDigits c) (ctxDigits c)
  unfold ctxCmp
  cases h : cmpBytes (ctxDigits c) (ctxDigits c) <;> simp [h, Ordering.swap] at this ⊢

theorem leD_of {a b : DRow} (h1 : ctxCmp a.ev.ctx b.ev.ctx ≠ .gt) (h2 : a.seq < b.seq) : leD a b = true := by
  unfold leD outLe cmpD
  have : compare a.seq b.seq = .lt := by rw [ncmp, if_pos h2]
  cases h : ctxCmp a.ev.ctx b.ev.ctx <;> simp_all [Ordering.then]

theorem seq_le_of_leD {a b : DRow} (hc : a.ev.ctx = b.ev.ctx) (h : leD a b = true) : a.seq ≤ b.seq := by
  unfold leD outLe cmpD at h
  rw [hc, ctxCmp_refl, ncmp] at h
  simp only [Ordering.then, if_true, bne_iff_ne, ne_eq] at h
  split at h
  · omega
  · split at h
    · omega
    · simp at h

/-! ### Decoration -/

theorem enumFrom_map_ev : ∀ (off : Nat) (l : List Ev), (enumFrom off l).map (·.ev) = l
  | _, [] => rfl
  | off, e :: es => by simp [enumFrom, enumFrom_map_ev (off + 1) es]

theorem enumFrom_append : ∀ (off : Nat) (l1 l2 : List Ev),
    enumFrom off (l1 ++ l2) = enumFrom off l1 ++ enumFrom (off + l1.length) l2
  | off, [], l2 => by simp [enumFrom]
  | off, e :: es, l2 => by
    simp only [List.cons_append, enumFrom, List.length_cons, enumFrom_append (off + 1) es l2]
    congr 3; omega

theorem decorate_flatten : ∀ (off : Nat) (cs : List (List Ev)),
    (decorateFrom off cs).flatten = enumFrom off cs.flatten
  | _, [] => rfl
  | off, c :: cs => by
    simp [decorateFrom, enumFrom_append, decorate_flatten (off + c.length) cs]

theorem mem_enumFrom : ∀ {off : Nat} {l : List Ev} {x : DRow}, x ∈ enumFrom off l → x.ev ∈ l ∧ off ≤ x.seq
  | _, [], _, h => by simp [enumFrom] at h
  | off, e :: es, x, h => by
    simp only [enumFrom, List.mem_cons] at h
    rcases h with rfl | h
    · simp
    · have := mem_enumFrom h
      exact ⟨List.mem_cons_of_mem _ this.1, by omega⟩

theorem enumFrom_pairwise : ∀ (off : Nat) (l : List Ev), (enumFrom off l).Pairwise (fun a b => a.seq < b.seq)
  | _, [] => by simp [enumFrom]
  | off, e :: es => by
    simp only [enumFrom]
    refine List.pairwise_cons.mpr ⟨?_, enumFrom_pairwise (off + 1) es⟩
    intro x hx
    have := (mem_enumFrom hx).2
    simp only
    omega

theorem enumFrom_sorted : ∀ (off : Nat) (c : List Ev),
    c.Pairwise (fun a b => ctxCmp a.ctx b.ctx ≠ .gt) → Sorted leD (enumFrom off c)
  | _, [], _ => by simp [enumFrom, Sorted]
  | off, e :: es, h => by
    have h' := List.pairwise_cons.mp h
    simp only [enumFrom, Sorted]
    refine List.pairwise_cons.mpr ⟨?_, enumFrom_sorted (off + 1) es h'.2⟩
    intro x hx
    have hm := mem_enumFrom hx
    exact leD_of (h'.1 x.ev hm.1) (by simp only; omega)

theorem mem_decorateFrom : ∀ {off : Nat} {cs : List (List Ev)} {s : List DRow},
    s ∈ decorateFrom off cs → ∃ off' c, c ∈ cs ∧ s = enumFrom off' c
  | _, [], _, h => by simp [decorateFrom] at h
  | off, c :: cs, s, h => by
    simp only [decorateFrom, List.mem_cons] at h
    rcases h with rfl | h
    · exact ⟨off, c, by simp, rfl⟩
    · obtain ⟨o, c', hc, rfl⟩ := mem_decorateFrom h
      exact ⟨o, c', by simp [hc], rfl⟩

/-- Two lists with the same elements, both strictly increasing in `seq`, are equal. -/
theorem eq_of_perm_seq : ∀ (A B : List DRow), A.Perm B →
    A.Pairwise (fun a b => a.seq < b.seq) → B.Pairwise (fun a b => a.seq < b.seq) → A = B
  | [], B, hp, _, _ => (List.Perm.nil_eq hp)
  | a :: A, [], hp, _, _ => by simpa using hp.length_eq
  | a :: A, b :: B, hp, hA, hB => by
    have hA' := List.pairwise_cons.mp hA
    have hB' := List.pairwise_cons.mp hB
    have hab : a = b := by
      have h1 : a ∈ b :: B := hp.subset (by simp)
      have h2 : b ∈ a :: A := hp.symm.subset (by simp)
      rcases List.mem_cons.mp h1 with h1 | h1
      · exact h1
      · rcases List.mem_cons.mp h2 with h2 | h2
        · exact h2.symm
        · have x := hB'.1 a h1
          have y := hA'.1 b h2
          omega
    subst hab
    rw [eq_of_perm_seq A B (List.Perm.cons_inv hp) hA'.2 hB'.2]

/-- Stability for any correct priority queue. -/
theorem mergeCursorsPQ_stable (pq : PQ (Item DRow)) (hpq : pq.Correct leD (fun _ => True))
    (cs : List (List Ev)) (hs : ∀ c ∈ cs, c.Pairwise (fun a b => ctxCmp a.ctx b.ctx ≠ .gt)) (c : Nat) :
    (mergeCursorsPQ pq cs).filter (·.ctx == c) = cs.flatten.filter (·.ctx == c) := by
  have hstreams : ∀ s ∈ decorateFrom 0 cs, Sorted leD s ∧ ∀ x ∈ s, True := by
    intro s hs'
    obtain ⟨o, c', hc', rfl⟩ := mem_decorateFrom hs'
    exact ⟨enumFrom_sorted o c' (hs c' hc'), fun _ _ => trivial⟩
  obtain ⟨full, hperm, hsorted, hrun⟩ := mergeRun_spec leD_leOn hpq (decorateFrom 0 cs) hstreams 0 none
  unfold mergeCursorsPQ
  rw [hrun]
  simp only [takeOpt, List.drop_zero]
  rw [decorate_flatten] at hperm
  -- restrict both decorated lists to the context
  let p : DRow → Bool := fun d => d.ev.ctx == c
  have hA : (full.filter p).Perm ((enumFrom 0 cs.flatten).filter p) := hperm.filter p
  have hBs : ((enumFrom 0 cs.flatten).filter p).Pairwise (fun a b => a.seq < b.seq) :=
    (enumFrom_pairwise 0 cs.flatten).sublist List.filter_sublist
  have hAle : (full.filter p).Pairwise (fun a b => a.seq ≤ b.seq) := by
    have h1 : (full.filter p).Pairwise (fun a b => leD a b = true) := hsorted.sublist List.filter_sublist
    have h2 : ∀ x ∈ full.filter p, x.ev.ctx = c := fun x hx => by
      simpa [p] using (List.mem_filter.mp hx).2
    refine List.Pairwise.imp_of_mem ?_ h1
    intro a b ha hb hab
    exact seq_le_of_leD ((h2 a ha).trans (h2 b hb).symm) hab
  have hAne : (full.filter p).Pairwise (fun a b => a.seq ≠ b.seq) := by
    have hn : (((enumFrom 0 cs.flatten).filter p).map (·.seq)).Nodup := by
      rw [List.Nodup, List.pairwise_map]
      exact hBs.imp (fun h => Nat.ne_of_lt h)
    have hn' : ((full.filter p).map (·.seq)).Nodup := (hA.map _).nodup_iff.mpr hn
    rw [List.Nodup, List.pairwise_map] at hn'
    exact hn'
  have hAs : (full.filter p).Pairwise (fun a b => a.seq < b.seq) :=
    (hAle.and hAne).imp (fun h => Nat.lt_of_le_of_ne h.1 h.2)
  have heq := eq_of_perm_seq _ _ hA hAs hBs
  have e1 : (full.map (·.ev)).filter (·.ctx == c) = (full.filter p).map (·.ev) := by
    rw [List.filter_map]; rfl
  have e2 : cs.flatten.filter (·.ctx == c) = ((enumFrom 0 cs.flatten).filter p).map (·.ev) := by
    have : cs.flatten = (enumFrom 0 cs.flatten).map (·.ev) := (enumFrom_map_ev 0 _).symm
    conv => lhs; rw [this]
    rw [List.filter_map]; rfl
  rw [e1, e2, heq]

end Snel.Replay
