import Snel.Model.ReplayOrder
import Snel.Lemmas.ShardCrash
/-!
Lemmas for C04: fan-in interleavings, the memtable's bucket order, the flusher's regrouping,
sorted label lists, and the chunk invariant of crash-free histories (the append log is the
concatenation of the rotated buffers followed by the active buffer).
-/
namespace Snel.Replay
open Snel.Shard

/-! ### Interleavings -/

theorem Interleaving.append_left {α : Type} : ∀ (a b : List α), Interleaving a b (a ++ b)
  | [], [] => .nil
  | [], _ :: b => .right (Interleaving.append_left [] b)
  | _ :: a, b => .left (Interleaving.append_left a b)

theorem Interleaving.append_right {α : Type} : ∀ (a b : List α), Interleaving a b (b ++ a)
  | [], [] => .nil
  | _ :: a, [] => .left (Interleaving.append_right a [])
  | a, _ :: b => .right (Interleaving.append_right a b)

theorem Interleaving.nil_left {α : Type} {b l : List α} (h : Interleaving [] b l) : l = b := by
  generalize ha : ([] : List α) = a at h
  induction h with
  | nil => rfl
  | left _ _ => cases ha
  | right _ ih => rw [ih ha]

theorem Interleaving.nil_right {α : Type} {a l : List α} (h : Interleaving a [] l) : l = a := by
  generalize hb : ([] : List α) = b at h
  induction h with
  | nil => rfl
  | left _ ih => rw [ih hb]
  | right _ _ => cases hb

theorem Interleaving.mem {α : Type} {a b l : List α} (h : Interleaving a b l) (x : α) :
    x ∈ l ↔ x ∈ a ∨ x ∈ b := by
  induction h with
  | nil => simp
  | left _ ih => simp only [List.mem_cons, ih, or_assoc]
  | right _ ih => simp only [List.mem_cons, ih, or_left_comm]

theorem flatMap_congr' {f g : Nat → List Ev} : ∀ {l : List Nat}, (∀ x ∈ l, f x = g x) →
    l.flatMap f = l.flatMap g
  | [], _ => rfl
  | x :: xs, h => by
    rw [List.flatMap_cons, List.flatMap_cons, h x (by simp),
      flatMap_congr' (l := xs) (fun y hy => h y (by simp [hy]))]

/-! ### Deduplication by id -/

theorem dedupK_sublist : ∀ (seen : List Nat) (l : List Ev), (dedupK seen l).Sublist l
  | _, [] => by simp [dedupK]
  | seen, e :: es => by
    unfold dedupK
    split
    · exact (dedupK_sublist seen es).cons e
    · exact (dedupK_sublist (e.k :: seen) es).cons_cons e

theorem dedupK_keeps : ∀ (seen : List Nat) (l : List Ev) (x : Ev), x ∈ l →
    x.k ∈ seen ∨ x.k ∈ (dedupK seen l).map (·.k)
  | _, [], _, h => by simp at h
  | seen, e :: es, x, h => by
    unfold dedupK
    rcases List.mem_cons.mp h with rfl | h
    · split
      · rename_i hc; exact Or.inl (by simpa using hc)
      · exact Or.inr (by simp)
    · split
      · exact dedupK_keeps seen es x h
      · rcases dedupK_keeps (e.k :: seen) es x h with h' | h'
        · rcases List.mem_cons.mp h' with h' | h'
          · exact Or.inr (by simp [h'])
          · exact Or.inl h'
        · exact Or.inr (by simp only [List.map_cons, List.mem_cons]; exact Or.inr h')

/-! ### Memtable bucket order -/

theorem mem_insertKeySorted {c x : Nat} : ∀ {ks : List Nat}, x ∈ insertKeySorted c ks ↔ x = c ∨ x ∈ ks
  | [] => by simp [insertKeySorted]
  | d :: ds => by
    unfold insertKeySorted
    split
    · simp
    · simp only [List.mem_cons, mem_insertKeySorted (ks := ds)]
      constructor
      · rintro (h | h | h) <;> simp [h]
      · rintro (h | h | h) <;> simp [h]

theorem nodup_insertKeySorted {c : Nat} : ∀ {ks : List Nat}, ks.Nodup → c ∉ ks → (insertKeySorted c ks).Nodup
  | [], _, _ => by simp [insertKeySorted]
  | d :: ds, hn, hc => by
    unfold insertKeySorted
    split
    · exact List.nodup_cons.mpr ⟨hc, hn⟩
    · have hn' := List.nodup_cons.mp hn
      have hc' : c ≠ d ∧ c ∉ ds := by simpa using hc
      refine List.nodup_cons.mpr ⟨?_, nodup_insertKeySorted hn'.2 hc'.2⟩
      rw [mem_insertKeySorted]
      rintro (h | h)
      · exact hc'.1 h.symm
      · exact hn'.1 h

theorem mem_insertKey {c x : Nat} {ks : List Nat} : x ∈ insertKey c ks ↔ x = c ∨ x ∈ ks := by
  unfold insertKey
  split
  · rename_i h
    have : c ∈ ks := by simpa using h
    constructor
    · exact Or.inr
    · rintro (rfl | h') <;> assumption
  · exact mem_insertKeySorted

theorem nodup_insertKey {c : Nat} {ks : List Nat} (h : ks.Nodup) : (insertKey c ks).Nodup := by
  unfold insertKey
  split
  · exact h
  · rename_i hc; exact nodup_insertKeySorted h (by simpa using hc)

theorem ctxKeys_aux (evs : List Ev) : ∀ (ks : List Nat), ks.Nodup →
    (evs.foldl (fun ks e => insertKey e.ctx ks) ks).Nodup ∧
    ∀ c, c ∈ evs.foldl (fun ks e => insertKey e.ctx ks) ks ↔ c ∈ ks ∨ ∃ e ∈ evs, e.ctx = c := by
  induction evs with
  | nil => intro ks h; simp [h]
  | cons e es ih =>
    intro ks h
    obtain ⟨h1, h2⟩ := ih (insertKey e.ctx ks) (nodup_insertKey h)
    refine ⟨by simpa using h1, fun c => ?_⟩
    simp only [List.foldl_cons, h2, mem_insertKey, List.mem_cons]
    constructor
    · rintro ((rfl | h) | ⟨x, hx, rfl⟩)
      · exact Or.inr ⟨e, Or.inl rfl, rfl⟩
      · exact Or.inl h
      · exact Or.inr ⟨x, Or.inr hx, rfl⟩
    · rintro (h | ⟨x, rfl | hx, rfl⟩)
      · exact Or.inl (Or.inr h)
      · exact Or.inl (Or.inl rfl)
      · exact Or.inr ⟨x, hx, rfl⟩

theorem ctxKeys_nodup (evs : List Ev) : (ctxKeys evs).Nodup := (ctxKeys_aux evs [] (by simp)).1

theorem mem_ctxKeys {evs : List Ev} {c : Nat} : c ∈ ctxKeys evs ↔ ∃ e ∈ evs, e.ctx = c := by
  have := (ctxKeys_aux evs [] (by simp)).2 c
  simpa [ctxKeys] using this

/-- Grouping by distinct keys and then selecting one key gives that key's bucket. -/
theorem filter_buckets (evs : List Ev) (c : Nat) : ∀ (ks : List Nat), ks.Nodup →
    (ks.flatMap fun d => evs.filter (·.ctx == d)).filter (·.ctx == c) =
      if c ∈ ks then evs.filter (·.ctx == c) else []
  | [], _ => by simp
  | d :: ds, hn => by
    have hn' := List.nodup_cons.mp hn
    rw [List.flatMap_cons, List.filter_append, filter_buckets evs c ds hn'.2, List.filter_filter]
    by_cases hcd : c = d
    · subst hcd
      have : (evs.filter fun a => (a.ctx == c && a.ctx == c)) = evs.filter (·.ctx == c) := by
        congr 1; funext a; simp
      simp [hn'.1]
    · have h1 : (evs.filter fun a => (a.ctx == c && a.ctx == d)) = [] := by
        rw [List.filter_eq_nil_iff]
        intro a _
        simp only [Bool.and_eq_true, beq_iff_eq, not_and]
        intro h1 h2; exact hcd (h1.symm.trans h2)
      simp [h1, hcd]

theorem memOrder_filter_ctx (evs : List Ev) (c : Nat) :
    (memOrder evs).filter (·.ctx == c) = evs.filter (·.ctx == c) := by
  unfold memOrder
  rw [filter_buckets evs c _ (ctxKeys_nodup evs)]
  split
  · rfl
  · rename_i h
    symm
    rw [List.filter_eq_nil_iff]
    intro a ha hc
    exact h (mem_ctxKeys.mpr ⟨a, ha, by simpa using hc⟩)

theorem mem_memOrder {evs : List Ev} {e : Ev} : e ∈ memOrder evs ↔ e ∈ evs := by
  unfold memOrder
  simp only [List.mem_flatMap, List.mem_filter, beq_iff_eq]
  constructor
  · rintro ⟨_, _, h, _⟩; exact h
  · intro h; exact ⟨e.ctx, mem_ctxKeys.mpr ⟨e, h, rfl⟩, h, rfl⟩

/-- The memtable's iteration order, restricted to a selection, is the arrival order. -/
theorem memOrder_filter_ok (evs : List Ev) (q : Sel) :
    (memOrder evs).filter q.ok = evs.filter q.ok := by
  obtain ⟨c, t⟩ := q
  have hsplit : ∀ l : List Ev, l.filter (Sel.ok ⟨c, t⟩) =
      (l.filter (·.ctx == c)).filter (fun e => match t with | none => true | some t => e.ty == t) := by
    intro l
    rw [List.filter_filter]
    congr 1; funext a
    cases t <;> simp [Sel.ok, Bool.and_comm]
  rw [hsplit, memOrder_filter_ctx, ← hsplit]

/-- … also after the flusher has regrouped the rows per event type. -/
theorem flushRows_filter_ok (evs : List Ev) (ty : Nat) (q : Sel) :
    (flushRows evs ty).filter q.ok = (evs.filter (·.ty == ty)).filter q.ok := by
  unfold flushRows
  rw [List.filter_filter, List.filter_filter]
  have : ∀ l : List Ev, (l.filter fun a => (q.ok a && a.ty == ty)) = (l.filter q.ok).filter (·.ty == ty) := by
    intro l; rw [List.filter_filter]; congr 1; funext a; exact Bool.and_comm _ _
  rw [this, this, memOrder_filter_ok]

theorem entryRows_filter_sublist (p : Nat × List Ev) (ty : Nat) (q : Sel) :
    ((entryRows p ty).filter q.ok).Sublist p.2 := by
  unfold entryRows
  split
  · rw [flushRows_filter_ok]
    exact (List.filter_sublist).trans (List.filter_sublist)
  · exact (List.filter_sublist).trans (List.filter_sublist)

theorem mem_entryRows {p : Nat × List Ev} {e : Ev} (h : e ∈ p.2) : e ∈ entryRows p e.ty := by
  unfold entryRows flushRows
  split <;> simp [mem_memOrder, h]

theorem entryRows_subset {p : Nat × List Ev} {ty : Nat} {e : Ev} (h : e ∈ entryRows p ty) : e ∈ p.2 := by
  unfold entryRows flushRows at h
  split at h
  · exact mem_memOrder.mp (List.mem_filter.mp h).1
  · exact (List.mem_filter.mp h).1

/-- Zones are consecutive chunks: concatenated they are the row list itself. -/
theorem chunks_flatten (n : Nat) : ∀ (fuel : Nat) (xs : List Ev), xs.length < fuel →
    (chunks n fuel xs).flatten = xs
  | 0, xs, h => by omega
  | fuel + 1, [], _ => by simp [chunks]
  | fuel + 1, x :: xs, h => by
    unfold chunks
    split
    · simp
    · rename_i hn
      have hlen : ((x :: xs).drop n).length < fuel := by
        simp only [List.length_drop, List.length_cons] at h ⊢
        omega
      rw [List.flatten_cons, chunks_flatten n fuel _ hlen, List.take_append_drop]

theorem zonesOfRows_flatten (n : Nat) (rows : List Ev) : (zonesOfRows n rows).flatten = rows :=
  chunks_flatten n _ rows (Nat.lt_succ_self _)

/-! ### Sorted label lists -/

theorem pairwise_insertSorted {x : Nat} : ∀ {l : List Nat}, l.Pairwise (· ≤ ·) →
    (insertSorted x l).Pairwise (· ≤ ·)
  | [], _ => by simp [insertSorted]
  | y :: ys, h => by
    unfold insertSorted
    have h' := List.pairwise_cons.mp h
    split
    · rename_i hxy
      refine List.pairwise_cons.mpr ⟨?_, h⟩
      intro z hz
      rcases List.mem_cons.mp hz with rfl | hz
      · exact hxy
      · exact Nat.le_trans hxy (h'.1 z hz)
    · rename_i hxy
      refine List.pairwise_cons.mpr ⟨?_, pairwise_insertSorted h'.2⟩
      intro z hz
      rcases mem_insertSorted.mp hz with rfl | hz
      · omega
      · exact h'.1 z hz

theorem sortNat_sorted (l : List Nat) : (sortNat l).Pairwise (· ≤ ·) := by
  unfold sortNat
  induction l with
  | nil => simp
  | cons x xs ih => simpa using pairwise_insertSorted ih

theorem nodup_insertSorted {x : Nat} : ∀ {l : List Nat}, l.Nodup → x ∉ l → (insertSorted x l).Nodup
  | [], _, _ => by simp [insertSorted]
  | y :: ys, hn, hx => by
    unfold insertSorted
    split
    · exact List.nodup_cons.mpr ⟨hx, hn⟩
    · have hn' := List.nodup_cons.mp hn
      have hx' : x ≠ y ∧ x ∉ ys := by simpa using hx
      refine List.nodup_cons.mpr ⟨?_, nodup_insertSorted hn'.2 hx'.2⟩
      rw [mem_insertSorted]
      rintro (h | h)
      · exact hx'.1 h.symm
      · exact hn'.1 h

theorem sortNat_nodup {l : List Nat} (h : l.Nodup) : (sortNat l).Nodup := by
  unfold sortNat
  induction l with
  | nil => simp
  | cons x xs ih =>
    have h' := List.nodup_cons.mp h
    have := ih h'.2
    simp only [List.foldr_cons]
    apply nodup_insertSorted this
    intro hx
    have : x ∈ sortNat xs := hx
    exact h'.1 (mem_sortNat.mp this)

theorem sortNat_strict {l : List Nat} (h : l.Nodup) : (sortNat l).Pairwise (· < ·) := by
  have h1 := sortNat_sorted l
  have h2 := sortNat_nodup h
  generalize sortNat l = s at h1 h2
  induction s with
  | nil => simp
  | cons x xs ih =>
    have a := List.pairwise_cons.mp h1
    have b := List.nodup_cons.mp h2
    refine List.pairwise_cons.mpr ⟨?_, ih a.2 b.2⟩
    intro z hz
    have := a.1 z hz
    have hne : x ≠ z := fun e => b.1 (e ▸ hz)
    omega

/-- Picking chunks at strictly increasing positions and concatenating them gives a subsequence of
the concatenation of all chunks. -/
theorem flatMap_sublist_flatten (f : Nat → List Ev) : ∀ (cs : List (List Ev)) (off : Nat) (ids : List Nat),
    ids.Pairwise (· < ·) → (∀ i ∈ ids, off ≤ i) →
    (∀ i, (f i).Sublist ((cs[i - off]?).getD [])) → (ids.flatMap f).Sublist cs.flatten
  | [], _, ids, _, _, hf => by
    have : ids.flatMap f = [] := by
      rw [List.flatMap_eq_nil_iff]
      intro i _
      have := hf i
      simpa using this
    simp [this]
  | c :: cs, off, [], _, _, _ => by simp
  | c :: cs, off, i :: rest, hp, hge, hf => by
    have hp' := List.pairwise_cons.mp hp
    have hi : off ≤ i := hge i (by simp)
    have hrest : ∀ j ∈ rest, off + 1 ≤ j := fun j hj => by
      have := hp'.1 j hj; omega
    have hf' : ∀ j, (f j).Sublist ((cs[j - (off + 1)]?).getD []) ∨ j ≤ off := by
      intro j
      by_cases hj : j ≤ off
      · exact Or.inr hj
      · left
        have := hf j
        have e : j - off = (j - (off + 1)) + 1 := by omega
        rw [e] at this
        simpa using this
    -- a version of `f` that is empty at positions ≤ off, for the recursive call
    let g : Nat → List Ev := fun j => if j ≤ off then [] else f j
    have hg : ∀ j, (g j).Sublist ((cs[j - (off + 1)]?).getD []) := by
      intro j
      by_cases hj : j ≤ off
      · simp [g, hj]
      · rcases hf' j with h | h
        · simpa [g, hj] using h
        · exact absurd h hj
    have hgrest : rest.flatMap g = rest.flatMap f := by
      apply flatMap_congr'
      intro j hj
      have := hrest j hj
      have : ¬ j ≤ off := by omega
      simp [g, this]
    rw [List.flatMap_cons, List.flatten_cons]
    by_cases hio : i = off
    · have h0 := hf i
      rw [hio] at h0
      simp only [Nat.sub_self, List.getElem?_cons_zero, Option.getD_some] at h0
      have ih := flatMap_sublist_flatten g cs (off + 1) rest hp'.2 hrest hg
      rw [hgrest] at ih
      rw [hio]
      exact List.Sublist.append h0 ih
    · have hall : ∀ j ∈ i :: rest, off + 1 ≤ j := by
        intro j hj
        rcases List.mem_cons.mp hj with rfl | hj
        · omega
        · exact hrest j hj
      have ih := flatMap_sublist_flatten g cs (off + 1) (i :: rest) hp hall hg
      have hgi : (i :: rest).flatMap g = (i :: rest).flatMap f := by
        apply flatMap_congr'
        intro j hj
        have := hall j hj
        have : ¬ j ≤ off := by omega
        simp [g, this]
      rw [hgi, List.flatMap_cons] at ih
      exact ih.trans (List.sublist_append_right _ _)

end Snel.Replay
