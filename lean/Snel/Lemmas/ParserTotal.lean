import Snel.Lemmas.Parser
import Snel.Lemmas.ParserRemember
/-! Totality lemmas for C17: where a panic can come from. -/
set_option linter.unusedSimpArgs false
set_option linter.unusedVariables false
namespace Snel.Parser
open P

/-- the parser never answers `panic` -/
def NP (p : P α) : Prop := ∀ s, p s ≠ .panic

theorem np_pure (a : α) : NP (Pure.pure a : P α) := by intro s; simp
theorem np_ppure (a : α) : NP (P.pure a : P α) := by intro s; simp
theorem np_failP : NP (failP : P α) := by intro s; simp
theorem np_oofP : NP (oofP : P α) := by intro s; simp

theorem np_bind {p : P α} {f : α → P β} (hp : NP p) (hf : ∀ a, NP (f a)) : NP (p >>= f) := by
  intro s
  simp only [bind_apply]
  have := hp s
  split <;> simp_all
  exact hf _ _

theorem np_orElse {p q : P α} (hp : NP p) (hq : NP q) : NP (p <|> q) := by
  intro s
  simp only [orElse_apply]
  have := hp s
  split
  · exact hq s
  · assumption

theorem np_opt {p : P α} (hp : NP p) : NP (opt p) := by
  intro s
  simp only [opt_apply]
  have := hp s
  split <;> simp_all

theorem np_neg {p : P α} (hp : NP p) : NP (neg p) := by
  intro s
  have := hp s
  unfold neg
  split <;> simp_all

theorem np_capture {p : P α} (hp : NP p) : NP (capture p) := by
  intro s
  have := hp s
  unfold capture
  split <;> simp_all

theorem np_many {p : P α} (hp : NP p) : ∀ n, NP (many p n) := by
  intro n
  induction n with
  | zero => intro s; simp [many]
  | succ n ih =>
    intro s
    rw [many_succ]
    have h1 := hp s
    split
    · rename_i a r _
      have h2 := ih r
      split <;> simp_all
    · simp
    · simp_all
    · simp

theorem np_sepBy1 {p : P α} {sep : P Unit} (hp : NP p) (hs : NP sep) (n : Nat) : NP (sepBy1 p sep n) := by
  unfold sepBy1
  exact np_bind hp (fun _ => np_bind (np_many (np_bind hs (fun _ => hp)) n) (fun _ => np_pure _))

theorem np_sepBy {p : P α} {sep : P Unit} (hp : NP p) (hs : NP sep) (n : Nat) : NP (sepBy p sep n) := by
  unfold sepBy
  exact np_orElse (np_sepBy1 hp hs n) (np_ppure _)

theorem np_of_no_panic {p : P α} (h : ∀ s, p s = .fail ∨ ∃ a r, p s = .ok a r) : NP p := by
  intro s
  rcases h s with h | ⟨a, r, h⟩ <;> simp [h]

theorem np_ws : NP ws := by intro s; simp [ws_apply]
theorem np_eof : NP eof := by intro s; unfold eof; split <;> simp
theorem np_lit (t : Str) : NP (lit t) := by intro s; unfold lit; split <;> simp
theorem np_kw (k : Str) : NP (kw k) := by intro s; unfold kw; simp only []; split <;> simp
theorem np_K (k : String) : NP (K k) := np_kw _
theorem np_identWith (m : Char → Bool) : NP (identWith m) := by
  intro s; unfold identWith; split
  · split <;> simp
  · simp
theorem np_ident : NP ident := np_identWith _
theorem np_identR : NP identR := np_identWith _
theorem np_stringLit : NP stringLit := by
  intro s; unfold stringLit; split
  · split
    · split <;> simp
    · simp
  · simp
theorem np_digits1 : NP digits1 := by intro s; unfold digits1; simp only []; split <;> simp
theorem np_anyExcept (x : Char) : NP (anyExcept x) := by
  intro s; unfold anyExcept; split
  · split <;> simp
  · simp

theorem np_field : NP field := by
  unfold field
  exact np_orElse (np_bind np_ident (fun _ => np_bind (np_lit _) (fun _ => np_bind np_ident (fun _ => np_pure _)))) np_ident

theorem np_integerTok : NP integerTok := by
  unfold integerTok
  exact np_bind (np_opt (np_lit _)) (fun _ => np_bind np_digits1 (fun _ => np_pure _))

theorem np_badConv_false : NP (badConv false : P α) := by intro s; simp [badConv]

theorem np_numberP (S : Sites) (hS : S.NoPanic) : NP (numberP S) := by
  unfold numberP
  refine np_bind np_integerTok (fun a => ?_)
  refine np_bind (np_opt (np_bind (np_lit _) (fun _ => np_digits1))) (fun fp => ?_)
  cases fp with
  | some fp =>
    simp only []
    split
    · exact np_pure _
    · rw [hS.2.2.2]; exact np_badConv_false
  | none =>
    simp only []
    split
    · exact np_pure _
    · rw [hS.2.2.1]; exact np_badConv_false

theorem np_valueP (S : Sites) (hS : S.NoPanic) : NP (valueP S) := by
  unfold valueP
  exact np_orElse (np_bind np_stringLit (fun _ => np_pure _)) (np_orElse (np_numberP S hS) (np_bind np_ident (fun _ => np_pure _)))

theorem np_firstLit : ∀ (t : List (Str × α)), NP (firstLit t)
  | [] => np_failP
  | (t, a) :: rest => by
    unfold Snel.Parser.firstLit
    exact np_orElse (np_bind (np_lit _) (fun _ => np_pure _)) (np_firstLit rest)

theorem np_commaSep : NP commaSep := by
  unfold commaSep
  exact np_bind np_ws (fun _ => np_bind (np_lit _) (fun _ => np_ws))

theorem np_comparison (S : Sites) (hS : S.NoPanic) : NP (comparison S) := by
  unfold comparison
  exact np_bind np_field (fun _ => np_bind np_ws (fun _ => np_bind (np_firstLit _) (fun _ => np_bind np_ws (fun _ =>
    np_bind (np_valueP S hS) (fun _ => np_pure _)))))

theorem np_inExpr (S : Sites) (hS : S.NoPanic) (n : Nat) : NP (inExpr S n) := by
  unfold inExpr
  exact np_bind np_field (fun _ => np_bind np_ws (fun _ => np_bind (np_kw _) (fun _ => np_bind np_ws (fun _ =>
    np_bind (np_lit _) (fun _ => np_bind np_ws (fun _ => np_bind (np_sepBy (np_valueP S hS) np_commaSep n) (fun _ =>
    np_bind np_ws (fun _ => np_bind (np_lit _) (fun _ => np_pure _)))))))))

theorem np_atom : NP atom := by
  unfold atom
  exact np_bind np_field (fun _ => np_pure _)

theorem np_factorWith (S : Sites) (hS : S.NoPanic) (n0 : Nat) (inner : P Expr) (hi : NP inner) :
    ∀ m, NP (factorWith S n0 inner m) := by
  intro m
  induction m with
  | zero => exact np_oofP
  | succ m ih =>
    unfold Snel.Parser.factorWith
    refine np_orElse ?_ (np_orElse ?_ (np_orElse (np_comparison S hS) (np_orElse (np_inExpr S hS n0) np_atom)))
    · exact np_bind (np_kw _) (fun _ => np_bind np_ws (fun _ => np_bind ih (fun _ => np_pure _)))
    · exact np_bind (np_lit _) (fun _ => np_bind np_ws (fun _ => np_bind hi (fun _ => np_bind np_ws (fun _ =>
        np_bind (np_lit _) (fun _ => np_pure _)))))

theorem np_andWith (factor : P Expr) (hf : NP factor) : ∀ m, NP (andWith factor m) := by
  intro m
  induction m with
  | zero => exact np_oofP
  | succ m ih =>
    rw [andWith_succ]
    exact np_bind hf (fun _ => np_orElse (np_bind np_ws (fun _ => np_bind (np_kw _) (fun _ => np_bind np_ws (fun _ =>
      np_bind ih (fun _ => np_pure _))))) (np_ppure _))

theorem np_orWith (andE : P Expr) (hf : NP andE) : ∀ m, NP (orWith andE m) := by
  intro m
  induction m with
  | zero => exact np_oofP
  | succ m ih =>
    rw [orWith_succ]
    exact np_bind hf (fun _ => np_orElse (np_bind np_ws (fun _ => np_bind (np_kw _) (fun _ => np_bind np_ws (fun _ =>
      np_bind ih (fun _ => np_pure _))))) (np_ppure _))

theorem np_exprF (S : Sites) (hS : S.NoPanic) : ∀ n, NP (exprF S n) := by
  intro n
  induction n with
  | zero => exact np_oofP
  | succ n ih =>
    rw [exprF_succ]
    exact np_orWith _ (np_andWith _ (np_factorWith S hS n _ ih n) n) n


/-! ## clauses and commands -/
theorem np_forC : NP forC := by
  unfold forC
  exact np_bind (np_K _) (fun _ => np_bind np_ws (fun _ => np_bind (np_orElse np_ident np_stringLit) (fun _ => np_pure _)))
theorem np_sinceC : NP sinceC := by
  unfold sinceC
  exact np_bind (np_K _) (fun _ => np_bind np_ws (fun _ => np_bind np_stringLit (fun _ => np_pure _)))
theorem np_returnItem : NP returnItem := np_orElse np_field np_stringLit
theorem np_returnC (n : Nat) : NP (returnC n) := by
  unfold returnC
  exact np_bind (np_K _) (fun _ => np_bind np_ws (fun _ => np_bind (np_lit _) (fun _ => np_bind np_ws (fun _ =>
    np_bind (np_opt (np_sepBy np_returnItem np_commaSep n)) (fun _ => np_bind np_ws (fun _ => np_bind (np_lit _) (fun _ => np_pure _)))))))
theorem np_linkedC : NP linkedC := by
  unfold linkedC
  exact np_bind (np_K _) (fun _ => np_bind np_ws (fun _ => np_bind (np_K _) (fun _ => np_bind np_ws (fun _ =>
    np_bind np_ident (fun _ => np_pure _)))))
theorem np_whereC (S : Sites) (hS : S.NoPanic) (n : Nat) : NP (whereC S n) := by
  unfold whereC
  exact np_bind (np_K _) (fun _ => np_bind np_ws (fun _ => np_bind (np_exprF S hS n) (fun _ => np_pure _)))
theorem np_usingTimeC : NP usingTimeC := by
  unfold usingTimeC
  exact np_bind (np_K _) (fun _ => np_bind np_ws (fun _ => np_bind (np_K _) (fun _ => np_bind np_ws (fun _ =>
    np_bind np_field (fun _ => np_pure _)))))
theorem np_usingC : NP usingC := by
  unfold usingC
  exact np_bind (np_K _) (fun _ => np_bind np_ws (fun _ => np_bind np_field (fun _ => np_pure _)))

theorem np_kwSeq : ∀ l, NP (kwSeq l)
  | [] => np_ppure _
  | [k] => np_K k
  | k :: k2 :: rest => by
    unfold kwSeq
    exact np_bind (np_K _) (fun _ => np_bind np_ws (fun _ => np_kwSeq (k2 :: rest)))

theorem np_firstOf : ∀ (l : List (P α)), (∀ p ∈ l, NP p) → NP (firstOf l)
  | [], _ => np_failP
  | p :: rest, h => by
    unfold firstOf
    exact np_orElse (h p (by simp)) (np_firstOf rest (fun q hq => h q (by simp [hq])))

theorem np_clauseStart : NP clauseStart := by
  unfold clauseStart
  apply np_firstOf
  intro p hp
  simp only [List.mem_map] at hp
  obtain ⟨l, _, rfl⟩ := hp
  exact np_kwSeq l

theorem np_aggField : NP aggField := by
  unfold aggField
  exact np_bind (np_neg np_clauseStart) (fun _ => np_field)

theorem np_aggSpec : NP aggSpec := by
  unfold aggSpec
  have h1 : ∀ (k : String) (mk : Str → Agg), NP (do K k; ws; let f ← aggField; return mk f : P Agg) := fun k mk =>
    np_bind (np_K _) (fun _ => np_bind np_ws (fun _ => np_bind np_aggField (fun _ => np_pure _)))
  refine np_orElse ?_ (np_orElse (h1 _ _) (np_orElse ?_ (np_orElse (h1 _ _) (np_orElse (h1 _ _) (np_orElse (h1 _ _) (h1 _ _))))))
  · exact np_bind (np_K _) (fun _ => np_bind np_ws (fun _ => np_bind (np_K _) (fun _ => np_bind np_ws (fun _ =>
      np_bind np_aggField (fun _ => np_pure _)))))
  · exact np_bind (np_K _) (fun _ => np_pure _)

theorem np_aggC (n : Nat) : NP (aggC n) := by
  unfold aggC
  exact np_bind (np_sepBy1 np_aggSpec np_commaSep n) (fun _ => np_pure _)

theorem np_firstKw : ∀ (t : List (String × α)), NP (firstKw t)
  | [] => np_failP
  | (k, a) :: rest => by
    unfold firstKw
    exact np_orElse (np_bind (np_K _) (fun _ => np_pure _)) (np_firstKw rest)

theorem np_usingOpt : NP usingOpt := by
  unfold usingOpt
  exact np_opt (np_bind (np_K _) (fun _ => np_bind np_ws (fun _ => np_field)))

theorem np_timeC : NP timeC := by
  unfold timeC
  exact np_bind (np_K _) (fun _ => np_bind np_ws (fun _ => np_bind (np_firstKw _) (fun _ => np_bind np_ws (fun _ =>
    np_bind np_usingOpt (fun _ => np_pure _)))))

theorem np_groupC (n : Nat) : NP (groupC n) := by
  unfold groupC
  exact np_bind (np_K _) (fun _ => np_bind np_ws (fun _ => np_bind np_field (fun _ =>
    np_bind (np_many (np_bind np_ws (fun _ => np_bind (np_lit _) (fun _ => np_bind np_ws (fun _ => np_field)))) n) (fun _ =>
    np_bind np_usingOpt (fun _ => np_pure _)))))

theorem np_limitC (S : Sites) (hS : S.NoPanic) : NP (limitC S) := by
  unfold limitC
  refine np_bind (np_K _) (fun _ => np_bind np_ws (fun _ => np_bind np_integerTok (fun a => ?_)))
  obtain ⟨ng, ds⟩ := a
  simp only []
  split
  · exact np_pure _
  · rw [hS.1]; exact np_badConv_false

theorem np_offsetC (S : Sites) (hS : S.NoPanic) : NP (offsetC S) := by
  unfold offsetC
  refine np_bind (np_K _) (fun _ => np_bind np_ws (fun _ => np_bind np_integerTok (fun a => ?_)))
  obtain ⟨ng, ds⟩ := a
  simp only []
  split
  · exact np_pure _
  · rw [hS.2.1]; exact np_badConv_false

theorem np_orderC : NP orderC := by
  unfold orderC
  exact np_bind (np_K _) (fun _ => np_bind np_ws (fun _ => np_bind (np_K _) (fun _ => np_bind np_ws (fun _ =>
    np_bind np_field (fun _ => np_bind np_ws (fun _ => np_bind (np_opt (np_capture (np_orElse (np_K _) (np_K _)))) (fun _ => np_pure _)))))))

theorem np_clauseP (S : Sites) (hS : S.NoPanic) (n : Nat) : NP (clauseP S n) := by
  unfold clauseP
  exact np_orElse np_forC (np_orElse np_sinceC (np_orElse (np_returnC n) (np_orElse np_linkedC (np_orElse (np_whereC S hS n)
    (np_orElse np_usingTimeC (np_orElse np_usingC (np_orElse (np_aggC n) (np_orElse np_timeC (np_orElse (np_groupC n)
    (np_orElse (np_limitC S hS) (np_orElse (np_offsetC S hS) np_orderC)))))))))))

theorem np_seqLink : NP seqLink := by
  unfold seqLink
  exact np_orElse (np_bind (np_K _) (fun _ => np_bind np_ws (fun _ => np_bind (np_K _) (fun _ => np_pure _))))
    (np_bind (np_K _) (fun _ => np_bind np_ws (fun _ => np_bind (np_K _) (fun _ => np_pure _))))

theorem np_eventSeq (n : Nat) : NP (eventSeq n) := by
  unfold eventSeq
  exact np_bind np_ident (fun _ => np_bind (np_many (np_bind np_ws (fun _ => np_bind np_seqLink (fun _ => np_bind np_ws (fun _ =>
    np_bind np_ident (fun _ => np_pure _))))) n) (fun _ => np_pure _))

theorem np_queryP (S : Sites) (hS : S.NoPanic) (n : Nat) : NP (queryP S n) := by
  unfold queryP
  exact np_bind np_ws (fun _ => np_bind (np_orElse (np_K _) (np_K _)) (fun _ => np_bind np_ws (fun _ =>
    np_bind (np_eventSeq n) (fun _ => np_bind np_ws (fun _ =>
    np_bind (np_many (np_bind np_ws (fun _ => np_clauseP S hS n)) n) (fun _ => np_bind np_ws (fun _ => np_bind np_eof (fun _ => np_pure _))))))))

theorem np_rClauseP (n : Nat) : NP (rClauseP n) := by
  unfold rClauseP
  refine np_orElse ?_ (np_orElse ?_ ?_)
  · exact np_bind (np_K _) (fun _ => np_bind np_ws (fun _ => np_bind np_stringLit (fun _ => np_pure _)))
  · exact np_bind (np_K _) (fun _ => np_bind np_ws (fun _ => np_bind (np_lit _) (fun _ => np_bind np_ws (fun _ =>
      np_bind (np_opt (np_sepBy (np_orElse np_identR np_stringLit) np_commaSep n)) (fun _ => np_bind np_ws (fun _ =>
      np_bind (np_lit _) (fun _ => np_pure _)))))))
  · exact np_bind (np_K _) (fun _ => np_bind np_ws (fun _ => np_bind np_identR (fun _ => np_pure _)))

theorem np_replayP (n : Nat) : NP (replayP n) := by
  unfold replayP
  exact np_bind np_ws (fun _ => np_bind (np_K _) (fun _ => np_bind np_ws (fun _ =>
    np_bind (np_orElse (np_bind (np_neg (np_K _)) (fun _ => np_bind np_identR (fun _ => np_bind np_ws (fun _ => np_pure _)))) (np_ppure _)) (fun _ =>
    np_bind (np_K _) (fun _ => np_bind np_ws (fun _ => np_bind (np_orElse np_stringLit np_identR) (fun _ =>
    np_bind (np_many (np_bind np_ws (fun _ => np_rClauseP n)) n) (fun _ => np_bind np_ws (fun _ => np_bind np_eof (fun _ => np_pure _))))))))))

theorem np_balanced : ∀ n, NP (balanced n) := by
  intro n
  induction n with
  | zero => exact np_oofP
  | succ n ih =>
    unfold balanced
    exact np_bind (np_lit _) (fun _ => np_bind (np_many (np_orElse (np_bind (np_capture ih) (fun _ => np_pure _)) (np_anyExcept _)) _) (fun _ => np_lit _))

theorem np_storeP (n : Nat) : NP (storeP n) := by
  unfold storeP
  exact np_bind np_ws (fun _ => np_bind (np_K _) (fun _ => np_bind np_ws (fun _ => np_bind np_ident (fun _ =>
    np_bind np_ws (fun _ => np_bind (np_K _) (fun _ => np_bind np_ws (fun _ => np_bind (np_orElse np_ident np_stringLit) (fun _ =>
    np_bind np_ws (fun _ => np_bind (np_K _) (fun _ => np_bind np_ws (fun _ => np_bind np_ws (fun _ =>
    np_bind (np_capture (np_balanced n)) (fun _ => np_bind np_ws (fun _ => np_bind np_eof (fun _ => np_pure _)))))))))))))))


/-! ## `parse_command` -/
theorem ofP_ne_panic {r : PRes α} (h : r ≠ .panic) : ofP r ≠ .panic := by
  cases r <;> simp_all [ofP]

theorem map_ne_panic {f : α → β} {r : Res α} (h : r ≠ .panic) : r.map f ≠ .panic := by
  cases r <;> simp_all [Res.map]

theorem ite_np {c : Prop} [Decidable c] {a b : Res α} (ha : a ≠ .panic) (hb : b ≠ .panic) :
    (if c then a else b) ≠ .panic := by
  split <;> assumption

theorem pingT_np (t : List Token) : pingT t ≠ .panic := by unfold pingT; split <;> simp
theorem flushT_np (t : List Token) : flushT t ≠ .panic := by unfold flushT; split <;> simp
theorem showT_np (t : List Token) : showT t ≠ .panic := by
  unfold showT; repeat' split
  all_goals simp
theorem listUsersT_np (t : List Token) : listUsersT t ≠ .panic := by
  unfold listUsersT; repeat' split
  all_goals simp
theorem revokeKeyT_np (t : List Token) : revokeKeyT t ≠ .panic := by
  unfold revokeKeyT; repeat' split
  all_goals simp
theorem showPermissionsT_np (t : List Token) : showPermissionsT t ≠ .panic := by
  unfold showPermissionsT; repeat' split
  all_goals simp
theorem createUserT_np (t : List Token) : createUserT t ≠ .panic := by
  unfold createUserT; repeat' split
  all_goals simp
theorem grantLike_np (b : Bool) (k : String) (mk : List Str → List Str → Str → Cmd1) (t : List Token) :
    grantLike b k mk t ≠ .panic := by
  unfold grantLike; repeat' split
  all_goals simp

theorem rememberP_np (S : Sites) (hS : S.NoPanic) (U : Uni) (input : Str) : rememberP S U input ≠ .panic := by
  unfold rememberP
  simp only []
  generalize trimStartU U (List.drop 8 (trimU U input)) = remainder
  apply ite_np (by simp)
  cases hr : rfind " AS ".toList (remainder.map upper) with
  | none => simp
  | some idx =>
    -- the two slices are on character boundaries: the panic branch is not taken
    obtain ⟨i, h1, h2⟩ := remember_split remainder idx hr
    simp only [h1, h2]
    exact ite_np (by simp) (ite_np (by simp) (ite_np (by simp) (ite_np (by simp)
      (map_ne_panic (ofP_ne_panic (np_queryP S hS _ _))))))

theorem innerBatch_np (t : List Token) : innerBatch t ≠ .panic := by unfold innerBatch; split <;> simp

theorem parse1With_np (S : Sites) (hS : S.NoPanic) (U : Uni) (onBatch : List Token → Res Cmd1)
    (hb : ∀ t, onBatch t ≠ .panic) (raw : Str) : parse1With S U onBatch raw ≠ .panic := by
  unfold parse1With
  simp only []
  generalize tokenize U (trimU U raw) = toks
  generalize trimU U raw = input
  by_cases hinv : (toks.any fun x => x == Token.invalid) = true
  · rw [if_pos hinv]; simp
  rw [if_neg hinv]
  rcases toks with _ | ⟨t, ts⟩
  · simp
  cases t
  case word w =>
    simp only []
    generalize (Token.word w :: ts) = toks
    have q := map_ne_panic (f := Cmd1.query) (ofP_ne_panic (np_queryP S hS (fuelOf input) input))
    exact ite_np (by simp) (ite_np (map_ne_panic (ofP_ne_panic (np_storeP _ _))) (ite_np (rememberP_np S hS U _)
      (ite_np q (ite_np q (ite_np (map_ne_panic (ofP_ne_panic (np_replayP _ _))) (ite_np (hb _) (ite_np (pingT_np _)
      (ite_np (flushT_np _) (ite_np (by simp) (ite_np (createUserT_np _) (ite_np (ite_np (revokeKeyT_np _) (grantLike_np _ _ _ _))
      (ite_np (listUsersT_np _) (ite_np (grantLike_np _ _ _ _) (ite_np (ite_np (showPermissionsT_np _) (showT_np _)) (by simp)))))))))))))))
  all_goals first
    | simp
    | exact map_ne_panic (ofP_ne_panic (np_replayP _ _))
    | exact map_ne_panic (ofP_ne_panic (np_storeP _ _))
    | exact rememberP_np S hS U _
    | exact hb _
    | exact pingT_np _
    | exact flushT_np _
    | exact showT_np _
    | exact listUsersT_np _
    | exact revokeKeyT_np _
    | exact showPermissionsT_np _
    | exact createUserT_np _
    | exact grantLike_np _ _ _ _
    | simp

theorem parseParts_np (parse1 : Str → Res Cmd1) (h : ∀ s, parse1 s ≠ .panic) : ∀ ps, parseParts parse1 ps ≠ .panic := by
  intro ps
  induction ps with
  | nil => simp [parseParts]
  | cons p ps ih =>
    unfold parseParts
    have := h p
    split
    · exact map_ne_panic ih
    all_goals simp_all

theorem batchT_np (U : Uni) (parse1 : Str → Res Cmd1) (h : ∀ s, parse1 s ≠ .panic) (t : List Token) :
    batchT U parse1 t ≠ .panic := by
  unfold batchT
  split
  · split
    · simp
    · simp
    · have := parseParts_np parse1 h
      simp only []
      split <;> simp_all
  · simp

/-- With no unwrap site left, `parse_command` never panics. -/
theorem parseCommandWith_np (S : Sites) (hS : S.NoPanic) (U : Uni) (raw : Str) : parseCommandWith S U raw ≠ .panic := by
  unfold parseCommandWith
  simp only []
  split
  · split
    · simp
    · exact batchT_np U _ (parse1With_np S hS U _ innerBatch_np) _
  · exact map_ne_panic (parse1With_np S hS U _ innerBatch_np raw)

end Snel.Parser
