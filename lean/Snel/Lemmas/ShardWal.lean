import Snel.Lemmas.ShardCount
import Snel.Lemmas.ShardIndexed
/-!
C01, durability in the aligned regime: in a single process lifetime without manual FLUSH the
WAL log id and the level-0 segment id advance together, so `cleanup_up_to(segment_id + 1)`
removes only logs whose entries are already in segment files and never the open log. Hence a
crash at ANY step boundary followed by a restart loses no stored event.
-/
namespace Snel.Shard

/-- Entry `x` is in a log file with id `id`. -/
def WalHas (s : Shard) (id : Nat) (x : Ev) : Prop := ∃ f ∈ s.wal, f.1 = id ∧ x ∈ f.2

/-- Directory `d` is registered in the segment index (and will be served by a restart). -/
def Reg (s : Shard) (d : Nat) : Prop := s.indexExists = true ∧ ∃ ent ∈ s.index, ent.1 = d

/-- `x` is in a registered segment directory. -/
def InSeg (s : Shard) (x : Ev) : Prop := ∃ p ∈ s.segs, x ∈ p.2 ∧ Reg s p.1

theorem reg_of_eq {s t : Shard} (hi : t.index = s.index) (hx : t.indexExists = s.indexExists) {d : Nat}
    (h : Reg s d) : Reg t d := by
  unfold Reg at *; rw [hi, hx]; exact h

theorem reg_served {s : Shard} {d : Nat} (h : Reg s d) : Served s d := fun _ => h.2

theorem store_index_frame (s : Shard) (e : Ev) :
    (store s e).index = s.index ∧ (store s e).indexExists = s.indexExists := by
  have h1 := walAppend_index s e
  have h2 := walAppend_indexExists s e
  unfold store
  simp only
  split <;> simp [rotate, h1, h2]

/-- Registering the head job's directory keeps every registration. -/
theorem reg_after_register {s : Shard} (seg : Nat) (tys : List Nat) {d : Nat} (h : Reg s d) :
    ∃ ent ∈ (loadIndex s).index.filter (fun ent => ent.1 != seg) ++ [(seg, tys)], ent.1 = d := by
  obtain ⟨hex, ent, hent, he⟩ := h
  rw [loadIndex_of_exists hex]
  by_cases hd : d = seg
  · exact ⟨(seg, tys), by simp, hd.symm⟩
  · refine ⟨ent, ?_, he⟩
    simp only [List.mem_append, List.mem_filter, List.mem_singleton]
    exact Or.inl ⟨hent, by simpa [he] using hd⟩

/-- Operations of the aligned regime. -/
def Op.auto : Op → Bool
  | .store _ => true
  | .flushStep => true
  | .drain => true
  | _ => false

theorem walPut_old {wal : List (Nat × List Ev)} {id : Nat} {e : Ev} {f : Nat × List Ev} {x : Ev}
    (hf : f ∈ wal) (hx : x ∈ f.2) : ∃ f' ∈ walPut wal id e, f'.1 = f.1 ∧ x ∈ f'.2 := by
  unfold walPut
  split
  · refine ⟨(if f.1 == id then (f.1, f.2 ++ [e]) else (f.1, f.2)), ?_, ?_, ?_⟩
    · rw [List.mem_map]; exact ⟨f, hf, by obtain ⟨a, b⟩ := f; rfl⟩
    · split <;> rfl
    · split <;> simp [hx]
  · exact ⟨f, by simp [hf], rfl, hx⟩

theorem walPut_new (wal : List (Nat × List Ev)) (id : Nat) (e : Ev) :
    ∃ f' ∈ walPut wal id e, f'.1 = id ∧ e ∈ f'.2 := by
  unfold walPut
  split
  · rename_i hany
    rw [List.any_eq_true] at hany
    obtain ⟨f, hf, hid⟩ := hany
    have hid' : f.1 = id := by simpa using hid
    refine ⟨(f.1, f.2 ++ [e]), ?_, hid', by simp⟩
    rw [List.mem_map]
    refine ⟨f, hf, ?_⟩
    obtain ⟨a, b⟩ := f
    simp at hid' ⊢
    simp [hid']
  · exact ⟨(id, [e]), by simp, rfl, by simp⟩

theorem walPut_inv {wal : List (Nat × List Ev)} {id : Nat} {e : Ev} {f' : Nat × List Ev} {x : Ev}
    (hf : f' ∈ walPut wal id e) (hx : x ∈ f'.2) :
    (∃ f ∈ wal, f.1 = f'.1 ∧ x ∈ f.2) ∨ (f'.1 = id ∧ x = e) := by
  unfold walPut at hf
  split at hf
  · rw [List.mem_map] at hf
    obtain ⟨f, hfm, rfl⟩ := hf
    obtain ⟨a, b⟩ := f
    by_cases hid : (a == id) = true
    · simp only [hid, if_true] at hx ⊢
      simp only [List.mem_append, List.mem_singleton] at hx
      rcases hx with hx | hx
      · exact Or.inl ⟨(a, b), hfm, rfl, hx⟩
      · exact Or.inr ⟨by simpa using hid, hx⟩
    · simp only [hid, if_false, Bool.false_eq_true] at hx ⊢
      exact Or.inl ⟨(a, b), hfm, rfl, hx⟩
  · simp only [List.mem_append, List.mem_singleton] at hf
    rcases hf with hf | rfl
    · exact Or.inl ⟨f', hf, rfl, hx⟩
    · simp at hx; exact Or.inr ⟨rfl, hx⟩

theorem walEnsure_entries {wal : List (Nat × List Ev)} {id i : Nat} {x : Ev} :
    (∃ f ∈ walEnsure wal id, f.1 = i ∧ x ∈ f.2) ↔ (∃ f ∈ wal, f.1 = i ∧ x ∈ f.2) := by
  unfold walEnsure
  split
  · exact Iff.rfl
  · constructor
    · rintro ⟨f, hf, hi, hx⟩
      simp only [List.mem_append, List.mem_singleton] at hf
      rcases hf with hf | rfl
      · exact ⟨f, hf, hi, hx⟩
      · simp at hx
    · rintro ⟨f, hf, hi, hx⟩
      exact ⟨f, by simp [hf], hi, hx⟩

/-- Alignment invariant of the aligned regime. -/
structure Aligned (s : Shard) : Prop where
  linked : s.walOrphan = false
  ids : s.walOpen = s.nextL0
  counts : s.walCount = s.mem.length
  idBound : ∀ f ∈ s.wal, f.1 ≤ s.walOpen
  openInMem : ∀ x, WalHas s s.walOpen x → x ∈ s.mem
  sorted : (s.jobs.map (·.seg)).Pairwise (· < ·)
  /-- every log entry is in the open log, belongs to the queued job of its log id, or is already
  in a segment directory -/
  entries : ∀ id x, WalHas s id x → id = s.walOpen ∨ (∃ j ∈ s.jobs, j.seg = id ∧ x ∈ j.evs) ∨ InSeg s x
  /-- a job past the index step has its directory registered -/
  registered : ∀ j ∈ s.jobs, 2 ≤ j.step → Reg s j.seg

/-- What recovery needs (hypothesis of `restart_recovers`). -/
def Durable (s : Shard) (x : Ev) : Prop := InSeg s x ∨ ∃ f ∈ s.wal, x ∈ f.2

theorem init_aligned (cap k : Nat) : Aligned (Shard.init cap k) := by
  constructor <;> simp [Shard.init, WalHas]

/-- Field equations of a STORE that rotates both the WAL and the memtable. -/
theorem store_rot {s : Shard} (e : Ev) (hl : s.walOrphan = false) (hc : s.walCount = s.mem.length)
    (hrot : s.walCount + 1 ≥ s.cap) :
    (store s e).wal = walEnsure (walPut s.wal s.walOpen e) (s.walOpen + 1) ∧
    (store s e).walOpen = s.walOpen + 1 ∧ (store s e).walCount = 0 ∧ (store s e).walOrphan = false ∧
    (store s e).mem = [] ∧ (store s e).jobs = s.jobs ++ [⟨s.nextL0, s.mem ++ [e], 0⟩] ∧
    (store s e).nextL0 = s.nextL0 + 1 ∧ (store s e).segs = s.segs := by
  have hmemrot : (s.mem ++ [e]).length ≥ s.cap := by
    simp only [List.length_append, List.length_singleton]; rw [← hc]; exact hrot
  unfold store walAppend
  simp only [hl, Bool.false_eq_true, if_false, hrot, if_true, hmemrot, rotate, and_self]

/-- Field equations of a STORE without rotation. -/
theorem store_norot {s : Shard} (e : Ev) (hl : s.walOrphan = false) (hc : s.walCount = s.mem.length)
    (hrot : ¬ s.walCount + 1 ≥ s.cap) :
    (store s e).wal = walPut s.wal s.walOpen e ∧
    (store s e).walOpen = s.walOpen ∧ (store s e).walCount = s.walCount + 1 ∧ (store s e).walOrphan = false ∧
    (store s e).mem = s.mem ++ [e] ∧ (store s e).jobs = s.jobs ∧
    (store s e).nextL0 = s.nextL0 ∧ (store s e).segs = s.segs := by
  have hmemno : ¬ (s.mem ++ [e]).length ≥ s.cap := by
    simp only [List.length_append, List.length_singleton]; rw [← hc]; exact hrot
  unfold store walAppend
  simp only [hl, Bool.false_eq_true, if_false, hrot, hmemno, and_self]

theorem store_aligned {s : Shard} (e : Ev) (h : Inv s) (ha : Aligned s) :
    Aligned (store s e) ∧ Durable (store s e) e ∧ ∀ x, Durable s x → Durable (store s e) x := by
  have hlink := ha.linked
  by_cases hrot : s.walCount + 1 ≥ s.cap
  · obtain ⟨ewal, eopen, ecount, eorph, emem, ejobs, enext, esegs⟩ := store_rot e hlink ha.counts hrot
    have hw : ∀ i x, WalHas (store s e) i x ↔ ∃ f ∈ walPut s.wal s.walOpen e, f.1 = i ∧ x ∈ f.2 := by
      intro i x; unfold WalHas; rw [ewal]; exact walEnsure_entries
    obtain ⟨eidx, eex⟩ := store_index_frame s e
    have hreg : ∀ d, Reg s d → Reg (store s e) d := fun d hd => reg_of_eq eidx eex hd
    have hseg : ∀ x, InSeg s x → InSeg (store s e) x := by
      intro x hx; obtain ⟨p, hp, hpx, hr⟩ := hx; exact ⟨p, by rw [esegs]; exact hp, hpx, hreg _ hr⟩
    refine ⟨⟨eorph, by rw [eopen, enext, ha.ids], by rw [ecount, emem]; rfl, ?_, ?_, ?_, ?_, ?_⟩, ?_, ?_⟩
    · -- ids of log files stay ≤ the open id
      intro f hf
      rw [ewal] at hf; rw [eopen]
      unfold walEnsure at hf
      have hput : ∀ g ∈ walPut s.wal s.walOpen e, g.1 ≤ s.walOpen := by
        intro g hg
        unfold walPut at hg
        split at hg
        · rw [List.mem_map] at hg
          obtain ⟨g0, hg0, rfl⟩ := hg
          have := ha.idBound g0 hg0
          obtain ⟨a, b⟩ := g0
          simp only at this ⊢
          split <;> exact this
        · simp only [List.mem_append, List.mem_singleton] at hg
          rcases hg with hg | rfl
          · exact ha.idBound g hg
          · exact Nat.le_refl _
      split at hf
      · exact Nat.le_succ_of_le (hput f hf)
      · simp only [List.mem_append, List.mem_singleton] at hf
        rcases hf with hf | rfl
        · exact Nat.le_succ_of_le (hput f hf)
        · exact Nat.le_refl _
    · -- the new open log is empty
      intro x hx
      rw [eopen, hw] at hx
      obtain ⟨f, hf, hfi, hfx⟩ := hx
      rcases walPut_inv hf hfx with ⟨g, hg, hgi, _⟩ | ⟨hid, _⟩
      · have := ha.idBound g hg; omega
      · omega
    · rw [ejobs]
      simp only [List.map_append, List.map_cons, List.map_nil]
      rw [List.pairwise_append]
      refine ⟨ha.sorted, by simp, ?_⟩
      intro a hmem b hb
      simp only [List.mem_singleton] at hb
      obtain ⟨j, hj, rfl⟩ := List.mem_map.mp hmem
      have := h.freshJ j hj
      omega
    · intro id x hx
      rw [hw] at hx
      rw [ejobs, eopen]
      obtain ⟨f, hf, hfi, hfx⟩ := hx
      rcases walPut_inv hf hfx with ⟨g, hg, hgi, hgx⟩ | ⟨hid, hxe⟩
      · rcases ha.entries id x ⟨g, hg, by rw [hgi, hfi], hgx⟩ with h1 | ⟨j, hj, hjs, hjx⟩ | h3
        · refine Or.inr (Or.inl ⟨⟨s.nextL0, s.mem ++ [e], 0⟩, by simp, by simp [h1, ha.ids], ?_⟩)
          have := ha.openInMem x ⟨g, hg, by rw [hgi, hfi, h1], hgx⟩
          simp [this]
        · exact Or.inr (Or.inl ⟨j, by simp [hj], hjs, hjx⟩)
        · exact Or.inr (Or.inr (hseg x h3))
      · refine Or.inr (Or.inl ⟨⟨s.nextL0, s.mem ++ [e], 0⟩, by simp, by simp [← hfi, hid, ha.ids], ?_⟩)
        simp [hxe]
    · intro j hj hst
      rw [ejobs] at hj
      simp only [List.mem_append, List.mem_singleton] at hj
      rcases hj with hj | rfl
      · exact hreg _ (ha.registered j hj hst)
      · simp at hst
    · obtain ⟨f, hf, _, hfe⟩ := walPut_new s.wal s.walOpen e
      exact Or.inr ⟨f, by rw [ewal]; exact mem_walEnsure hf, hfe⟩
    · intro x hx
      rcases hx with hs | ⟨f, hf, hfx⟩
      · exact Or.inl (hseg x hs)
      · obtain ⟨f', hf', _, hfx'⟩ := walPut_old (id := s.walOpen) (e := e) hf hfx
        exact Or.inr ⟨f', by rw [ewal]; exact mem_walEnsure hf', hfx'⟩
  · obtain ⟨ewal, eopen, ecount, eorph, emem, ejobs, enext, esegs⟩ := store_norot e hlink ha.counts hrot
    obtain ⟨eidx, eex⟩ := store_index_frame s e
    have hreg : ∀ d, Reg s d → Reg (store s e) d := fun d hd => reg_of_eq eidx eex hd
    have hseg : ∀ x, InSeg s x → InSeg (store s e) x := by
      intro x hx; obtain ⟨p, hp, hpx, hr⟩ := hx; exact ⟨p, by rw [esegs]; exact hp, hpx, hreg _ hr⟩
    refine ⟨⟨eorph, by rw [eopen, enext, ha.ids], by rw [ecount, emem, ha.counts]; simp, ?_, ?_, ?_, ?_, ?_⟩, ?_, ?_⟩
    · intro f hf
      rw [ewal] at hf; rw [eopen]
      unfold walPut at hf
      split at hf
      · rw [List.mem_map] at hf
        obtain ⟨g0, hg0, rfl⟩ := hf
        have := ha.idBound g0 hg0
        obtain ⟨a, b⟩ := g0
        simp only at this ⊢
        split <;> exact this
      · simp only [List.mem_append, List.mem_singleton] at hf
        rcases hf with hf | rfl
        · exact ha.idBound f hf
        · exact Nat.le_refl _
    · intro x hx
      rw [eopen] at hx
      obtain ⟨f, hf, hfi, hfx⟩ := hx
      rw [ewal] at hf; rw [emem]
      rcases walPut_inv hf hfx with ⟨g, hg, hgi, hgx⟩ | ⟨_, hxe⟩
      · have := ha.openInMem x ⟨g, hg, by rw [hgi, hfi], hgx⟩
        simp [this]
      · simp [hxe]
    · rw [ejobs]; exact ha.sorted
    · intro id x hx
      obtain ⟨f, hf, hfi, hfx⟩ := hx
      rw [ewal] at hf; rw [eopen, ejobs]
      rcases walPut_inv hf hfx with ⟨g, hg, hgi, hgx⟩ | ⟨hid, _⟩
      · rcases ha.entries id x ⟨g, hg, by rw [hgi, hfi], hgx⟩ with h1 | h2 | h3
        · exact Or.inl h1
        · exact Or.inr (Or.inl h2)
        · exact Or.inr (Or.inr (hseg x h3))
      · exact Or.inl (by rw [← hfi, hid])
    · intro j hj hst
      rw [ejobs] at hj
      exact hreg _ (ha.registered j hj hst)
    · obtain ⟨f, hf, _, hfe⟩ := walPut_new s.wal s.walOpen e
      exact Or.inr ⟨f, by rw [ewal]; exact hf, hfe⟩
    · intro x hx
      rcases hx with hs | ⟨f, hf, hfx⟩
      · exact Or.inl (hseg x hs)
      · obtain ⟨f', hf', _, hfx'⟩ := walPut_old (id := s.walOpen) (e := e) hf hfx
        exact Or.inr ⟨f', by rw [ewal]; exact hf', hfx'⟩


theorem inSeg_of_written {s : Shard} {id : Nat} {x : Ev} (h : x ∈ segRows s id) (hr : Reg s id) : InSeg s x := by
  obtain ⟨p, hp, hid, hx⟩ := mem_segRows.mp h
  exact ⟨p, hp, hx, by rw [hid]; exact hr⟩

theorem flushStep_aligned {s : Shard} (h : Inv s) (ha : Aligned s) :
    Aligned (flushStep s) ∧ ∀ x, Durable s x → Durable (flushStep s) x := by
  unfold flushStep
  cases hjobs : s.jobs with
  | nil => exact ⟨ha, fun _ hx => hx⟩
  | cons j rest =>
    have hjmem : j ∈ s.jobs := by rw [hjobs]; simp
    have hrest : ∀ x ∈ rest, x ∈ s.jobs := fun x hx => by rw [hjobs]; simp [hx]
    have hsplit : ∀ x ∈ s.jobs, x = j ∨ x ∈ rest := fun x hx => by rw [hjobs] at hx; simpa using hx
    have hsorted := ha.sorted
    rw [hjobs] at hsorted
    simp only [List.map_cons, List.pairwise_cons] at hsorted
    have hlt : ∀ x ∈ rest, j.seg < x.seg := fun x hx => hsorted.1 x.seg (List.mem_map.mpr ⟨x, hx, rfl⟩)
    simp only
    -- generic transfer for steps that keep the WAL and only grow `segs`
    have keep : ∀ (t : Shard) (j' : Job), j'.seg = j.seg → j'.evs = j.evs →
        t.wal = s.wal → t.walOpen = s.walOpen → t.walOrphan = s.walOrphan → t.walCount = s.walCount →
        t.mem = s.mem → t.nextL0 = s.nextL0 → t.jobs = j' :: rest →
        (∀ x, InSeg s x → InSeg t x) → (∀ d, Reg s d → Reg t d) → (2 ≤ j'.step → Reg t j.seg) →
        Aligned t ∧ ∀ x, Durable s x → Durable t x := by
      intro t j' hseg hevs ewal eopen eorph ecount emem enext ejobs hsegs hregs hregj
      refine ⟨⟨by rw [eorph]; exact ha.linked, by rw [eopen, enext]; exact ha.ids,
        by rw [ecount, emem]; exact ha.counts, by rw [ewal, eopen]; exact ha.idBound, ?_, ?_, ?_, ?_⟩, ?_⟩
      · intro x hx; rw [emem]; apply ha.openInMem
        unfold WalHas at hx ⊢; rw [ewal, eopen] at hx; exact hx
      · rw [ejobs]; simp only [List.map_cons, List.pairwise_cons, hseg]; exact hsorted
      · intro id x hx
        have hx' : WalHas s id x := by unfold WalHas at hx ⊢; rw [ewal] at hx; exact hx
        rw [eopen, ejobs]
        rcases ha.entries id x hx' with h1 | ⟨y, hy, hys, hyx⟩ | h3
        · exact Or.inl h1
        · rcases hsplit y hy with rfl | hy'
          · exact Or.inr (Or.inl ⟨j', by simp, by rw [hseg, hys], by rw [hevs]; exact hyx⟩)
          · exact Or.inr (Or.inl ⟨y, by simp [hy'], hys, hyx⟩)
        · exact Or.inr (Or.inr (hsegs x h3))
      · intro y hy hst
        rw [ejobs] at hy
        simp only [List.mem_cons] at hy
        rcases hy with rfl | hy
        · rw [hseg]; exact hregj hst
        · exact hregs _ (ha.registered y (hrest y hy) hst)
      · intro x hx
        rcases hx with hs | ⟨f, hf, hfx⟩
        · exact Or.inl (hsegs x hs)
        · exact Or.inr ⟨f, by rw [ewal]; exact hf, hfx⟩
    -- popping the head job: its entries are already in a segment (or it is empty)
    have pop : (∀ x ∈ j.evs, InSeg s x) →
        Aligned { s with jobs := rest } ∧ ∀ x, Durable s x → Durable { s with jobs := rest } x := by
      intro hin
      refine ⟨⟨ha.linked, ha.ids, ha.counts, ha.idBound, ha.openInMem, hsorted.2, ?_,
        fun y hy hst => ha.registered y (hrest y hy) hst⟩, fun _ hx => hx⟩
      intro id x hx
      rcases ha.entries id x hx with h1 | ⟨y, hy, hys, hyx⟩ | h3
      · exact Or.inl h1
      · rcases hsplit y hy with rfl | hy'
        · exact Or.inr (Or.inr (hin x hyx))
        · exact Or.inr (Or.inl ⟨y, hy', hys, hyx⟩)
      · exact Or.inr (Or.inr h3)
    by_cases hemp : j.evs.isEmpty
    · simp only [hemp, if_true]
      have hnil : j.evs = [] := by simpa using hemp
      exact pop (by intro x hx; rw [hnil] at hx; simp at hx)
    · simp only [hemp, if_false, Bool.false_eq_true]
      match hst : j.step with
      | 0 =>
        simp only
        exact keep _ { j with step := 1 } rfl rfl rfl rfl rfl rfl rfl rfl rfl
          (fun x hx => by obtain ⟨p, hp, hpx, hr⟩ := hx; exact ⟨p, by simp [hp], hpx, hr⟩)
          (fun _ hd => hd) (fun hc => by simp at hc)
      | 1 =>
        simp only
        have hregs : ∀ d, Reg s d → Reg { s with
            index := (loadIndex s).index.filter (fun ent => ent.1 != j.seg) ++ [(j.seg, typesOf j.evs)],
            indexExists := true, jobs := { j with step := 2 } :: rest } d :=
          fun d hd => ⟨rfl, reg_after_register j.seg (typesOf j.evs) hd⟩
        exact keep _ { j with step := 2 } rfl rfl rfl rfl rfl rfl rfl rfl rfl
          (fun x hx => by obtain ⟨p, hp, hpx, hr⟩ := hx; exact ⟨p, hp, hpx, hregs _ hr⟩)
          hregs (fun _ => ⟨rfl, (j.seg, typesOf j.evs), by simp, rfl⟩)
      | 2 =>
        simp only
        exact keep _ { j with step := 3 } rfl rfl rfl rfl rfl rfl rfl rfl rfl (fun _ hx => hx)
          (fun _ hd => hd) (fun _ => ha.registered j hjmem (by omega))
      | 3 =>
        simp only
        exact keep _ { j with step := 4 } rfl rfl rfl rfl rfl rfl rfl rfl rfl (fun _ hx => hx)
          (fun _ hd => hd) (fun _ => ha.registered j hjmem (by omega))
      | 4 =>
        -- WAL cleanup: only logs with id ≤ j.seg go; their entries are in j's segment files
        simp only
        have hopen : ¬ s.walOpen < j.seg + 1 := by
          have := h.freshJ j hjmem; rw [← ha.ids] at this; omega
        have hwritten : ∀ x ∈ j.evs, InSeg s x := fun x hx =>
          inSeg_of_written (h.written j hjmem (by omega) x hx) (ha.registered j hjmem (by omega))
        have hsub : ∀ f, f ∈ (walClean s (j.seg + 1)).wal → f ∈ s.wal := by
          intro f hf; simp only [walClean, List.mem_filter] at hf; exact hf.1
        have hregc : ∀ d, Reg s d → Reg { walClean s (j.seg + 1) with jobs := { j with step := 5 } :: rest } d :=
          fun d hd => by simpa [Reg, walClean] using hd
        refine ⟨⟨?_, ha.ids, ha.counts, ?_, ?_, ?_, ?_, ?_⟩, ?_⟩
        · simp only [walClean, ha.linked, Bool.false_or, Bool.and_eq_false_imp, decide_eq_true_eq]
          intro hc; exact absurd hc hopen
        · intro f hf; exact ha.idBound f (hsub f hf)
        · intro x hx
          obtain ⟨f, hf, hfi, hfx⟩ := hx
          exact ha.openInMem x ⟨f, hsub f hf, hfi, hfx⟩
        · simp only [List.map_cons, List.pairwise_cons]; exact hsorted
        · intro id x hx
          obtain ⟨f, hf, hfi, hfx⟩ := hx
          rcases ha.entries id x ⟨f, hsub f hf, hfi, hfx⟩ with h1 | ⟨y, hy, hys, hyx⟩ | h3
          · exact Or.inl h1
          · rcases hsplit y hy with rfl | hy'
            · exact Or.inr (Or.inl ⟨{ y with step := 5 }, by simp, hys, hyx⟩)
            · exact Or.inr (Or.inl ⟨y, by simp [hy'], hys, hyx⟩)
          · exact Or.inr (Or.inr (by obtain ⟨p, hp, hpx, hr⟩ := h3; exact ⟨p, by simpa [walClean] using hp, hpx, hregc _ hr⟩))
        · intro y hy hst
          simp only [List.mem_cons] at hy
          rcases hy with rfl | hy
          · exact hregc _ (ha.registered j hjmem (by omega))
          · exact hregc _ (ha.registered y (hrest y hy) hst)
        · intro x hx
          rcases hx with hs | ⟨f, hf, hfx⟩
          · exact Or.inl (by obtain ⟨p, hp, hpx, hr⟩ := hs; exact ⟨p, by simpa [walClean] using hp, hpx, hregc _ hr⟩)
          · by_cases hdel : f.1 < j.seg + 1
            · -- the log is deleted: its entries are in segment files
              have hin : InSeg s x := by
                rcases ha.entries f.1 x ⟨f, hf, rfl, hfx⟩ with h1 | ⟨y, hy, hys, hyx⟩ | h3
                · omega
                · rcases hsplit y hy with rfl | hy'
                  · exact hwritten x hyx
                  · have := hlt y hy'; omega
                · exact h3
              exact Or.inl (by obtain ⟨p, hp, hpx, hr⟩ := hin; exact ⟨p, by simpa [walClean] using hp, hpx, hregc _ hr⟩)
            · exact Or.inr ⟨f, by simp only [walClean, List.mem_filter]; exact ⟨hf, by simpa using hdel⟩, hfx⟩
      | k + 5 =>
        simp only
        exact pop (fun x hx => inSeg_of_written (h.written j hjmem (by omega) x hx) (ha.registered j hjmem (by omega)))

theorem drain_aligned (n : Nat) : ∀ {s : Shard}, Inv s → Aligned s →
    Aligned (drain n s) ∧ ∀ x, Durable s x → Durable (drain n s) x := by
  induction n with
  | zero => intro s _ ha; exact ⟨ha, fun _ hx => hx⟩
  | succ n ih =>
    intro s h ha
    unfold drain
    split
    · exact ⟨ha, fun _ hx => hx⟩
    · obtain ⟨a1, d1⟩ := flushStep_aligned h ha
      obtain ⟨a2, d2⟩ := ih (flushStep_inv_cover h).1 a1
      exact ⟨a2, fun x hx => d2 x (d1 x hx)⟩

theorem runOps_durable (ops : List Op) : ∀ {s : Shard}, Inv s → Aligned s → (∀ o ∈ ops, o.auto = true) →
    Inv (runOps s ops) ∧ Aligned (runOps s ops) ∧ (∀ x, Durable s x → Durable (runOps s ops) x) ∧
    ∀ e ∈ storedEvents ops, Durable (runOps s ops) e := by
  induction ops with
  | nil => intro s h ha _; exact ⟨h, ha, fun _ hx => hx, by simp [storedEvents]⟩
  | cons o ops ih =>
    intro s h ha hall
    have ho := hall o (by simp)
    have hall' : ∀ x ∈ ops, x.auto = true := fun x hx => hall x (by simp [hx])
    have hrun : runOps s (o :: ops) = runOps (step s o) ops := by simp [runOps]
    rw [hrun]
    cases o with
    | store e =>
      obtain ⟨a1, de, d1⟩ := store_aligned e h ha
      obtain ⟨h2, a2, d2, d3⟩ := ih (store_inv e h) a1 hall'
      refine ⟨h2, a2, fun x hx => d2 x (d1 x hx), ?_⟩
      intro x hx
      simp only [storedEvents, List.mem_cons] at hx
      rcases hx with rfl | hx
      · exact d2 _ de
      · exact d3 x hx
    | flushStep =>
      obtain ⟨a1, d1⟩ := flushStep_aligned h ha
      obtain ⟨h2, a2, d2, d3⟩ := ih (flushStep_inv_cover h).1 a1 hall'
      exact ⟨h2, a2, fun x hx => d2 x (d1 x hx), fun x hx => d3 x (by simpa [storedEvents] using hx)⟩
    | drain =>
      obtain ⟨a1, d1⟩ := drain_aligned (jobSteps * s.jobs.length + 1) h ha
      obtain ⟨h2, a2, d2, d3⟩ := ih (drain_inv_cover _ h).1 a1 hall'
      exact ⟨h2, a2, fun x hx => d2 x (d1 x hx), fun x hx => d3 x (by simpa [storedEvents] using hx)⟩
    | flushCmd => simp [Op.auto] at ho
    | crash => simp [Op.auto] at ho
    | shutdown => simp [Op.auto] at ho

end Snel.Shard
