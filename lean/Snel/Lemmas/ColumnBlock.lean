import Snel.Model.ColumnBlock
/-! Helper lemmas for the column block codec (`Snel.Model.ColumnBlock`). -/
namespace Snel.ColumnBlock

/-! ### little-endian integers -/

@[simp] theorem length_leBytes (k n : Nat) : (leBytes k n).length = k := by
  induction k generalizing n with
  | zero => rfl
  | succ k ih => simp [leBytes, ih]

theorem unLe_leBytes (k n : Nat) : unLe (leBytes k n) = n % 256 ^ k := by
  induction k generalizing n with
  | zero => simp [leBytes, unLe, Nat.mod_one]
  | succ k ih =>
    simp only [leBytes, unLe, ih]
    have h : (UInt8.ofNat (n % 256)).toNat = n % 256 := by
      simp [UInt8.toNat_ofNat']
    rw [h, Nat.pow_succ, Nat.mul_comm (256 ^ k) 256, Nat.mod_mul]

theorem unLe_leBytes_of_lt (k n : Nat) (h : n < 256 ^ k) : unLe (leBytes k n) = n := by
  rw [unLe_leBytes, Nat.mod_eq_of_lt h]

theorem ofWord_toWord (i : Int) (h1 : -9223372036854775808 ≤ i) (h2 : i < 9223372036854775808) :
    ofWord (toWord i) = i := by
  unfold ofWord toWord
  split <;> omega

/-! ### fixed-width chunks of a `flatMap` -/

theorem chunk_at {α : Type} (k : Nat) (f : α → Bytes) (hf : ∀ x, (f x).length = k)
    (xs : List α) (tail : Bytes) (i : Nat) (hi : i < xs.length) :
    ((xs.flatMap f ++ tail).drop (k * i)).take k = f xs[i] := by
  induction xs generalizing i with
  | nil => simp at hi
  | cons x xs ih =>
    cases i with
    | zero =>
      simp only [List.flatMap_cons, Nat.mul_zero, List.drop_zero, List.append_assoc,
        List.getElem_cons_zero]
      rw [List.take_append_of_le_length (by rw [hf]; exact Nat.le_refl _)]
      rw [List.take_of_length_le (by rw [hf]; exact Nat.le_refl _)]
    | succ i =>
      simp only [List.flatMap_cons, List.append_assoc, List.getElem_cons_succ]
      have hlen : k * (i + 1) = (f x).length + k * i := by rw [hf, Nat.mul_succ, Nat.add_comm]
      rw [hlen, ← List.drop_drop, List.drop_left]
      exact ih i (by simpa using hi)

/-! ### bitsets -/

@[simp] theorem length_packBits (n : Nat) (bs : List Bool) : (packBits n bs).length = n := by
  induction n generalizing bs with
  | zero => rfl
  | succ n ih => simp [packBits, ih]

theorem packByte_lt (bs : List Bool) : packByte bs < 2 ^ bs.length := by
  induction bs with
  | nil => simp [packByte]
  | cons b bs ih =>
    simp only [packByte, List.length_cons, Nat.pow_succ]
    cases b <;> simp <;> omega

theorem packByte_lt_256 (bs : List Bool) (h : bs.length ≤ 8) : packByte bs < 256 := by
  have h1 := packByte_lt bs
  have h2 : 2 ^ bs.length ≤ 2 ^ 8 := Nat.pow_le_pow_right (by decide) h
  omega

theorem packByte_bit (bs : List Bool) (k : Nat) :
    (packByte bs / 2 ^ k) % 2 = ((bs[k]?).getD false).toNat := by
  induction bs generalizing k with
  | nil => simp [packByte]
  | cons b bs ih =>
    cases k with
    | zero =>
      simp only [packByte, Nat.pow_zero, Nat.div_one, List.getElem?_cons_zero, Option.getD_some]
      cases b <;> simp <;> omega
    | succ k =>
      simp only [packByte, List.getElem?_cons_succ]
      rw [← ih k, Nat.pow_succ, Nat.mul_comm (2 ^ k) 2, ← Nat.div_div_eq_div_mul]
      have : (b.toNat + 2 * packByte bs) / 2 = packByte bs := by cases b <;> simp <;> omega
      rw [this]

theorem bitAt_packBits (n : Nat) (bs : List Bool) (tail : Bytes) (i : Nat) (hi : i < 8 * n) :
    bitAt (packBits n bs ++ tail) i = some ((bs[i]?).getD false) := by
  induction n generalizing bs i with
  | zero => omega
  | succ n ih =>
    by_cases h8 : i < 8
    · have hdiv : i / 8 = 0 := Nat.div_eq_of_lt h8
      have hmod : i % 8 = i := Nat.mod_eq_of_lt h8
      simp only [bitAt, packBits, List.cons_append, hdiv, List.getElem?_cons_zero, Option.map_some, hmod]
      have hlt : packByte (bs.take 8) < 256 := packByte_lt_256 _ (by simp; omega)
      have hto : (UInt8.ofNat (packByte (List.take 8 bs))).toNat = packByte (bs.take 8) := by
        simp [UInt8.toNat_ofNat']; omega
      rw [hto, packByte_bit]
      have : (bs.take 8)[i]? = bs[i]? := by
        rw [List.getElem?_take]; simp [h8]
      rw [this]
      cases (bs[i]?).getD false <;> simp
    · have hi' : i - 8 < 8 * n := by omega
      have hdiv : i / 8 = (i - 8) / 8 + 1 := by omega
      have hmod : i % 8 = (i - 8) % 8 := by omega
      have := ih (bs.drop 8) (i - 8) hi'
      simp only [bitAt] at this ⊢
      simp only [packBits, List.cons_append, hdiv, List.getElem?_cons_succ, hmod]
      rw [this]
      simp only [List.getElem?_drop]
      have : 8 + (i - 8) = i := by omega
      rw [this]

/-! ### `allSome` -/

theorem allSome_map_range' {α : Type} (f : Nat → Option α) (l : List α) (s : Nat)
    (h : ∀ i (hi : i < l.length), f (s + i) = some l[i]) :
    allSome ((List.range' s l.length).map f) = some l := by
  induction l generalizing s with
  | nil => simp [allSome]
  | cons x xs ih =>
    have h0 := h 0 (by simp)
    simp only [Nat.add_zero, List.getElem_cons_zero] at h0
    simp only [List.length_cons, List.range'_succ, List.map_cons, h0, allSome]
    rw [ih (s + 1)]
    · rfl
    · intro i hi
      have := h (i + 1) (by simpa using hi)
      simpa [Nat.add_assoc, Nat.add_comm 1 i] using this

theorem allSome_map_range {α : Type} (f : Nat → Option α) (l : List α)
    (h : ∀ i (hi : i < l.length), f i = some l[i]) :
    allSome ((List.range l.length).map f) = some l := by
  rw [List.range_eq_range']
  exact allSome_map_range' f l 0 (by simpa using h)

theorem allSome_map_range_n {α : Type} (f : Nat → Option α) (l : List α) (n : Nat)
    (hn : n = l.length) (h : ∀ i (hi : i < l.length), f i = some l[i]) :
    allSome ((List.range n).map f) = some l := by
  subst hn
  exact allSome_map_range f l h

/-! ### header -/

theorem ofCode_code (p : Phys) : Phys.ofCode (UInt8.ofNat p.code).toNat = p := by
  cases p <;> decide

theorem decodeBlock_header (e : Nat) (p : Phys) (hn : Bool) (rows aux : Nat) (rest : Bytes)
    (hr : rows < 2 ^ 32) (ha : aux < 2 ^ 32) :
    decodeBlock e (header p hn rows aux ++ rest) = decodeBody e p hn rows aux rest := by
  have h4r : leBytes 4 rows = [UInt8.ofNat (rows % 256), UInt8.ofNat (rows / 256 % 256),
      UInt8.ofNat (rows / 256 / 256 % 256), UInt8.ofNat (rows / 256 / 256 / 256 % 256)] := by
    simp [leBytes]
  have h4a : leBytes 4 aux = [UInt8.ofNat (aux % 256), UInt8.ofNat (aux / 256 % 256),
      UInt8.ofNat (aux / 256 / 256 % 256), UInt8.ofNat (aux / 256 / 256 / 256 % 256)] := by
    simp [leBytes]
  have hur := unLe_leBytes_of_lt 4 rows (by simpa using hr)
  have hua := unLe_leBytes_of_lt 4 aux (by simpa using ha)
  rw [h4r] at hur
  rw [h4a] at hua
  have hflag : ((if hn then (1 : UInt8) else 0).toNat % 2 == 1) = hn := by cases hn <;> decide
  simp only [header, h4r, h4a, List.cons_append, List.nil_append, decodeBlock, hur, hua,
    ofCode_code, hflag]

/-! ### fixed-width columns -/

theorem wordAt_payload (pre : Bytes) (words : List (Option Nat)) (i : Nat) (hi : i < words.length) :
    wordAt (pre ++ words.flatMap (fun w => leBytes 8 (w.getD 0))) (pre.length + 8 * i)
      = some ((words[i].getD 0) % 256 ^ 8) := by
  unfold wordAt
  have hd : (pre ++ words.flatMap (fun w => leBytes 8 (w.getD 0))).drop (pre.length + 8 * i)
      = (words.flatMap (fun w : Option Nat => leBytes 8 (w.getD 0)) ++ []).drop (8 * i) := by
    rw [← List.drop_drop, List.drop_left, List.append_nil]
  have hc := chunk_at 8 (fun w : Option Nat => leBytes 8 (w.getD 0)) (fun _ => length_leBytes _ _)
    words [] i hi
  simp only [hd, hc, length_leBytes, if_true, unLe_leBytes]

/-- The cell a parsed word denotes. -/
def fixedCanon (mk : Nat → Cell) (w : Option Nat) : Cell :=
  match w with
  | some v => mk v
  | none => .null

theorem fixedCells_encode (mk : Nat → Cell) (words : List (Option Nat))
    (hw : ∀ w ∈ words, ∀ v, w = some v → v < 256 ^ 8) (pad : Nat) :
    fixedCells mk
      ((if words.any Option.isNone then packBits ((words.length + 7) / 8) (words.map Option.isNone) else [])
        ++ List.replicate pad 0 ++ words.flatMap (fun w => leBytes 8 (w.getD 0)))
      ((if words.any Option.isNone then (words.length + 7) / 8 else 0) + pad)
      words.length (words.any Option.isNone)
    = some (words.map (fixedCanon mk)) := by
  unfold fixedCells
  apply allSome_map_range_n _ _ _ (by simp)
  intro i hi
  have hi' : i < words.length := by simpa using hi
  simp only [List.getElem_map]
  -- the payload word
  have hword := wordAt_payload
    ((if words.any Option.isNone then packBits ((words.length + 7) / 8) (words.map Option.isNone) else [])
      ++ List.replicate pad 0) words i hi'
  have hprelen : ((if words.any Option.isNone then packBits ((words.length + 7) / 8) (words.map Option.isNone) else [])
      ++ List.replicate pad (0 : UInt8)).length
      = (if words.any Option.isNone then (words.length + 7) / 8 else 0) + pad := by
    split <;> simp
  rw [hprelen] at hword
  rw [hword]
  by_cases hany : words.any Option.isNone = true
  · simp only [hany, if_true]
    rw [List.append_assoc, bitAt_packBits _ _ _ _ (by omega)]
    simp only [List.getElem?_map, List.getElem?_eq_getElem hi', Option.map_some, Option.getD_some]
    cases hwi : words[i] with
    | none => simp [fixedCanon]
    | some v =>
      have hv := hw words[i] (List.getElem_mem hi') v hwi
      simp [fixedCanon, Nat.mod_eq_of_lt hv]
  · have hany' : words.any Option.isNone = false := by
      cases h : words.any Option.isNone
      · rfl
      · exact absurd h hany
    simp only [hany', Bool.false_eq_true, if_false]
    cases hwi : words[i] with
    | none =>
      have := List.any_eq_false.mp hany' words[i] (List.getElem_mem hi')
      rw [hwi] at this
      simp at this
    | some v =>
      have hv := hw words[i] (List.getElem_mem hi') v hwi
      simp [fixedCanon, Nat.mod_eq_of_lt hv]

theorem alignUp_of_dvd (n : Nat) (h : n % 8 = 0) : alignUp n 8 = n := by
  simp [alignUp, h]

/-- the cell constructor `decodeBody` uses for a fixed-width type -/
def mkOf : Phys → Nat → Cell
  | .i64 => fun w => .i64 (ofWord w)
  | .u64 => .u64
  | _ => .f64

theorem length_flatMap_const {α : Type} (k : Nat) (f : α → Bytes) (hf : ∀ x, (f x).length = k)
    (xs : List α) : (xs.flatMap f).length = k * xs.length := by
  induction xs with
  | nil => simp
  | cons x xs ih => simp [List.flatMap_cons, ih, hf, Nat.mul_succ, Nat.add_comm]

theorem auxNulls_isNone {α : Type} (ws : List (Option α)) :
    auxNulls (ws.map Option.isNone)
      = if ws.any Option.isNone then packBits ((ws.length + 7) / 8) (ws.map Option.isNone) else [] := by
  have : (ws.map Option.isNone).any id = ws.any Option.isNone := by
    induction ws with
    | nil => rfl
    | cons w ws ih => simp [ih]
  unfold auxNulls
  rw [this, List.length_map]

theorem length_auxNulls_isNone {α : Type} (ws : List (Option α)) :
    (auxNulls (ws.map Option.isNone)).length
      = if ws.any Option.isNone then (ws.length + 7) / 8 else 0 := by
  rw [auxNulls_isNone]; split <;> simp

theorem padFor_spec (a : Nat) : padFor a < 8 ∧ (12 + (a + padFor a)) % 8 = 0 := by
  unfold padFor; omega

theorem decode_encodeFixed (phys : Phys) (hp : phys = .i64 ∨ phys = .u64 ∨ phys = .f64)
    (words : List (Option Nat)) (hlen : words.length < 2 ^ 32)
    (hw : ∀ w ∈ words, ∀ v, w = some v → v < 256 ^ 8) :
    decodeBlock words.length (encodeFixed phys words)
      = some (phys, words.map (fixedCanon (mkOf phys))) := by
  simp only [encodeFixed]
  have hal := length_auxNulls_isNone words
  have hae := auxNulls_isNone words
  generalize hA : auxNulls (words.map Option.isNone) = A at hal hae ⊢
  obtain ⟨hpadlt, hpadal⟩ := padFor_spec A.length
  generalize padFor A.length = pad at hpadlt hpadal ⊢
  have hAle : A.length ≤ (words.length + 7) / 8 := by rw [hal]; split <;> omega
  have haux : A.length + pad < 2 ^ 32 := by omega
  rw [List.append_assoc, List.append_assoc, decodeBlock_header _ _ _ _ _ _ hlen haux]
  have hcells := fixedCells_encode (mkOf phys) words hw pad
  rw [← hae, ← hal, List.append_assoc] at hcells
  have hW := length_flatMap_const 8 (fun w : Option Nat => leBytes 8 (w.getD 0))
    (fun _ => length_leBytes _ _) words
  have hrestlen : (A ++ (List.replicate pad (0 : UInt8)
      ++ List.flatMap (fun w : Option Nat => leBytes 8 (w.getD 0)) words)).length
      = A.length + pad + 8 * words.length := by
    simp [hW]; omega
  have halign : alignUp (12 + (A.length + pad)) 8 - 12 = A.length + pad := by
    rw [alignUp_of_dvd _ hpadal]; omega
  have hrows : (if words.length = 0 then words.length else words.length) = words.length := by
    split <;> rfl
  unfold decodeBody
  rw [hrestlen, halign, hrows]
  have h1 : ¬ (A.length + pad > A.length + pad + 8 * words.length) := by omega
  have h2 : ¬ (A.length + pad + words.length * 8 > A.length + pad + 8 * words.length) := by omega
  rcases hp with rfl | rfl | rfl <;>
    simp only [mkOf] at hcells <;>
    simp only [h1, h2, if_false, hcells, Option.map_some, mkOf]

/-! ### boolean columns -/

def boolCanon (v : Option Bool) : Cell :=
  match v with
  | some b => .bool b
  | none => .null

theorem boolCells_encode (vals : List (Option Bool)) :
    boolCells (auxNulls (vals.map Option.isNone)
        ++ packBits ((vals.length + 7) / 8) (vals.map (· == some true)))
      (auxNulls (vals.map Option.isNone)).length vals.length (vals.any Option.isNone)
    = some (vals.map boolCanon) := by
  unfold boolCells
  apply allSome_map_range_n _ _ _ (by simp)
  intro i hi
  have hi' : i < vals.length := by simpa using hi
  simp only [List.getElem_map, List.drop_left]
  have hval : bitAt (packBits ((vals.length + 7) / 8) (vals.map (· == some true))) i
      = some (vals[i] == some true) := by
    have := bitAt_packBits ((vals.length + 7) / 8) (vals.map (· == some true)) [] i (by omega)
    rw [List.append_nil] at this
    rw [this]
    simp [List.getElem?_eq_getElem hi']
  rw [hval]
  by_cases hany : vals.any Option.isNone = true
  · simp only [hany, if_true]
    rw [auxNulls_isNone, if_pos hany, bitAt_packBits _ _ _ _ (by omega)]
    simp only [List.getElem?_map, List.getElem?_eq_getElem hi', Option.map_some, Option.getD_some]
    cases hvi : vals[i] with
    | none => simp [boolCanon]
    | some b => cases b <;> simp [boolCanon]
  · have hany' : vals.any Option.isNone = false := by
      cases h : vals.any Option.isNone
      · rfl
      · exact absurd h hany
    simp only [hany', Bool.false_eq_true, if_false]
    cases hvi : vals[i] with
    | none =>
      have := List.any_eq_false.mp hany' vals[i] (List.getElem_mem hi')
      rw [hvi] at this
      simp at this
    | some b => cases b <;> simp [boolCanon]

theorem decode_encodeBool (vals : List (Option Bool)) (hlen : vals.length < 2 ^ 32) :
    decodeBlock vals.length (encodeBool vals) = some (.bool, vals.map boolCanon) := by
  simp only [encodeBool]
  have hal := length_auxNulls_isNone vals
  have hcells := boolCells_encode vals
  generalize hA : auxNulls (vals.map Option.isNone) = A at hal hcells ⊢
  have hAle : A.length ≤ (vals.length + 7) / 8 := by rw [hal]; split <;> omega
  rw [List.append_assoc, decodeBlock_header _ _ _ _ _ _ hlen (by omega)]
  unfold decodeBody
  have hrows : (if vals.length = 0 then vals.length else vals.length) = vals.length := by
    split <;> rfl
  have hrestlen : (A ++ packBits ((vals.length + 7) / 8) (vals.map (· == some true))).length
      = A.length + (vals.length + 7) / 8 := by simp
  rw [hrestlen, hrows]
  have h1 : ¬ (A.length > A.length + (vals.length + 7) / 8) := by omega
  have h2 : ¬ (A.length + (vals.length + 7) / 8 > A.length + (vals.length + 7) / 8) := by omega
  simp only [h1, h2, if_false, hcells, Option.map_some]

/-! ### var-bytes columns -/

/-- the `(start, len)` ranges of consecutive strings starting at `cursor` -/
def rangesFrom : List Bytes → Nat → List (Nat × Nat)
  | [], _ => []
  | s :: ss, c => (c, s.length) :: rangesFrom ss (c + s.length)

theorem varRanges_encode (ss : List Bytes) (hl : ∀ s ∈ ss, s.length < 2 ^ 32)
    (todo done : List Bytes) (hsplit : ss = done ++ todo) :
    varRanges (ss.flatMap (fun s => leBytes 4 s.length) ++ ss.flatten) ss.flatten.length
        todo.length done.length done.flatten.length
      = some (rangesFrom todo done.flatten.length) := by
  induction todo generalizing done with
  | nil => simp [varRanges, rangesFrom]
  | cons s todo ih =>
    have hidx : done.length < ss.length := by rw [hsplit]; simp
    have hget : ss[done.length] = s := by
      subst hsplit; simp
    have hlen : unLe (((ss.flatMap (fun s => leBytes 4 s.length) ++ ss.flatten).drop (4 * done.length)).take 4)
        = s.length := by
      rw [chunk_at 4 (fun s : Bytes => leBytes 4 s.length) (fun _ => length_leBytes _ _) ss _ _ hidx,
        hget, unLe_leBytes_of_lt]
      have := hl s (by rw [hsplit]; simp)
      simpa using this
    have hfit : ¬ (done.flatten.length + s.length > ss.flatten.length) := by
      subst hsplit; simp
    simp only [List.length_cons, varRanges, hlen, hfit, if_false, rangesFrom]
    have := ih (done ++ [s]) (by rw [hsplit]; simp)
    simp only [List.length_append, List.length_singleton, List.flatten_append, List.flatten_cons,
      List.flatten_nil, List.append_nil] at this
    rw [this]
    rfl

theorem rangesFrom_cells (pre : Bytes) (todo : List Bytes) (donePayload : Bytes) :
    (rangesFrom todo donePayload.length).map
        (fun (p : Nat × Nat) =>
          Cell.bytes (((pre ++ (donePayload ++ todo.flatten)).drop (pre.length + p.1)).take p.2))
      = todo.map Cell.bytes := by
  induction todo generalizing donePayload with
  | nil => simp [rangesFrom]
  | cons s todo ih =>
    simp only [rangesFrom, List.map_cons, List.flatten_cons]
    congr 1
    · rw [← List.drop_drop, List.drop_left, List.drop_left, List.take_left]
    · have := ih (donePayload ++ s)
      simp only [List.length_append, List.append_assoc] at this
      exact this

theorem decode_encodeVar (ss : List Bytes) (hlen : ss.length < 2 ^ 30)
    (hl : ∀ s ∈ ss, s.length < 2 ^ 32) :
    decodeBlock ss.length (encodeVar ss) = some (.varBytes, ss.map Cell.bytes) := by
  simp only [encodeVar]
  rw [List.append_assoc, decodeBlock_header _ _ _ _ _ _ (by omega) (by omega)]
  unfold decodeBody
  have hL := length_flatMap_const 4 (fun s : Bytes => leBytes 4 s.length)
    (fun _ => length_leBytes _ _) ss
  have hrestlen : (ss.flatMap (fun s => leBytes 4 s.length) ++ ss.flatten).length
      = ss.length * 4 + ss.flatten.length := by simp [hL]; omega
  have hr := varRanges_encode ss hl ss [] (by simp)
  simp only [List.length_nil, List.flatten_nil] at hr
  have hc := rangesFrom_cells (ss.flatMap (fun s => leBytes 4 s.length)) ss []
  simp only [List.length_nil, List.nil_append, hL] at hc
  rw [hrestlen]
  have h1 : ¬ (ss.length * 4 > ss.length * 4 + ss.flatten.length) := by omega
  have h2 : ss.length * 4 + ss.flatten.length - ss.length * 4 = ss.flatten.length := by omega
  have h3 : 4 * ss.length = ss.length * 4 := Nat.mul_comm _ _
  rw [h3] at hc
  simp only [h1, if_false, h2, hr, ne_eq, not_true_eq_false, hc]

/-! ### the whole block -/

theorem parseI64_range (s : Bytes) (v : Int) (h : parseI64 s = some v) :
    -9223372036854775808 ≤ v ∧ v < 9223372036854775808 := by
  unfold parseI64 at h
  split at h
  · split at h
    · split at h
      · simp at h; omega
      · simp at h
    · simp at h
  · split at h
    · split at h
      · simp at h; omega
      · simp at h
    · simp at h

theorem parseU64_range (s : Bytes) (v : Nat) (h : parseU64 s = some v) :
    v < 18446744073709551616 := by
  unfold parseU64 at h
  split at h
  · split at h
    · simp at h; omega
    · simp at h
  · simp at h

theorem toWord_lt (i : Int) : toWord i < 256 ^ 8 := by
  unfold toWord; omega

theorem block_roundtrip (pf : Bytes → Option Nat) (hpf : ∀ s b, pf s = some b → b < 2 ^ 64)
    (phys : Phys) (strs : List Bytes) (hn : strs.length < 2 ^ 30)
    (hl : ∀ s ∈ strs, s.length < 2 ^ 32) :
    decodeBlock strs.length (encodeBlock pf phys strs) = some (phys.written, canon pf phys strs) := by
  have hn32 : strs.length < 2 ^ 32 := by omega
  cases phys with
  | i64 =>
    have h := decode_encodeFixed .i64 (Or.inl rfl) (strs.map fun s => (parseI64 s).map toWord)
      (by simpa using hn32)
      (by
        intro w hw v hv
        simp only [List.mem_map] at hw
        obtain ⟨s, _, rfl⟩ := hw
        cases hp : parseI64 s with
        | none => simp [hp] at hv
        | some i => simp [hp] at hv; subst hv; exact toWord_lt i)
    simp only [List.length_map] at h
    simp only [encodeBlock, Phys.written, canon, h, List.map_map]
    refine congrArg (fun l => some (Phys.i64, l)) (List.map_congr_left ?_)
    intro s _
    simp only [Function.comp, canonCell]
    cases hp : parseI64 s with
    | none => simp [fixedCanon]
    | some i =>
      obtain ⟨h1, h2⟩ := parseI64_range s i hp
      simp [fixedCanon, mkOf, ofWord_toWord i h1 h2]
  | u64 =>
    have h := decode_encodeFixed .u64 (Or.inr (Or.inl rfl)) (strs.map parseU64)
      (by simpa using hn32)
      (by
        intro w hw v hv
        simp only [List.mem_map] at hw
        obtain ⟨s, _, rfl⟩ := hw
        have := parseU64_range s v hv
        omega)
    simp only [List.length_map] at h
    simp only [encodeBlock, Phys.written, canon, h, List.map_map]
    refine congrArg (fun l => some (Phys.u64, l)) (List.map_congr_left ?_)
    intro s _
    simp only [Function.comp, canonCell]
    cases hp : parseU64 s <;> simp [fixedCanon, mkOf]
  | f64 =>
    have h := decode_encodeFixed .f64 (Or.inr (Or.inr rfl)) (strs.map pf)
      (by simpa using hn32)
      (by
        intro w hw v hv
        simp only [List.mem_map] at hw
        obtain ⟨s, _, rfl⟩ := hw
        have := hpf s v hv
        omega)
    simp only [List.length_map] at h
    simp only [encodeBlock, Phys.written, canon, h, List.map_map]
    refine congrArg (fun l => some (Phys.f64, l)) (List.map_congr_left ?_)
    intro s _
    simp only [Function.comp, canonCell]
    cases hp : pf s <;> simp [fixedCanon, mkOf]
  | bool =>
    have h := decode_encodeBool (strs.map parseBool) (by simpa using hn32)
    simp only [List.length_map] at h
    simp only [encodeBlock, Phys.written, canon, h, List.map_map]
    refine congrArg (fun l => some (Phys.bool, l)) (List.map_congr_left ?_)
    intro s _
    simp only [Function.comp, canonCell]
    cases hp : parseBool s <;> simp [boolCanon]
  | varBytes =>
    have h := decode_encodeVar strs hn hl
    simp only [encodeBlock, Phys.written, canon, h]
    exact congrArg (fun l => some (Phys.varBytes, l)) (List.map_congr_left (fun s _ => rfl))
  | i32Date =>
    have h := decode_encodeVar strs hn hl
    simp only [encodeBlock, Phys.written, canon, h]
    exact congrArg (fun l => some (Phys.varBytes, l)) (List.map_congr_left (fun s _ => rfl))

end Snel.ColumnBlock
