import Snel.Lemmas.ShardCrash
/-! C11: the live list and the segment index only ever name directories that exist,
at every step of every flush and across crash / restart. -/
namespace Snel.Shard

def HasDir (s : Shard) (id : Nat) : Prop := ∃ p ∈ s.segs, p.1 = id

structure Inv2 (s : Shard) : Prop where
  liveDirs : ∀ id ∈ s.live, HasDir s id
  indexDirs : ∀ ent ∈ s.index, HasDir s ent.1

theorem init_inv2 (cap k : Nat) : Inv2 (Shard.init cap k) := by
  constructor <;> simp [Shard.init]

theorem hasDir_of_segs_eq {s t : Shard} (h : t.segs = s.segs) {id : Nat} (hd : HasDir s id) : HasDir t id := by
  unfold HasDir at *; rw [h]; exact hd

theorem inv2_of_frame {s t : Shard} (hs : t.segs = s.segs) (hl : t.live = s.live) (hi : t.index = s.index)
    (h : Inv2 s) : Inv2 t :=
  ⟨fun id hid => hasDir_of_segs_eq hs (h.liveDirs id (hl ▸ hid)),
   fun ent he => hasDir_of_segs_eq hs (h.indexDirs ent (hi ▸ he))⟩

theorem walAppend_index (s : Shard) (e : Ev) : (walAppend s e).index = s.index := by
  unfold walAppend
  by_cases ho : s.walOrphan <;> simp only [ho, if_true, if_false, Bool.false_eq_true] <;> split <;> simp

theorem store_inv2 {s : Shard} (e : Ev) (h : Inv2 s) : Inv2 (store s e) := by
  obtain ⟨_, _, _, hl, _, hs, _⟩ := walAppend_frame s e
  have hi := walAppend_index s e
  unfold store
  simp only
  split
  · exact inv2_of_frame (s := s) (by simp [rotate, hs]) (by simp [rotate, hl]) (by simp [rotate, hi]) h
  · exact inv2_of_frame (s := s) (by simp [hs]) (by simp [hl]) (by simp [hi]) h

theorem rotate_inv2 {s : Shard} (h : Inv2 s) : Inv2 (rotate s) :=
  inv2_of_frame (s := s) (by simp [rotate]) (by simp [rotate]) (by simp [rotate]) h

theorem recoverIndex_dirs (segs : List (Nat × List Ev)) :
    ∀ ent ∈ recoverIndex segs, ∃ p ∈ segs, p.1 = ent.1 := by
  intro ent he
  simp only [recoverIndex, List.mem_filterMap] at he
  obtain ⟨id, hid, hsome⟩ := he
  rw [mem_sortNat, List.mem_eraseDups, List.mem_map] at hid
  obtain ⟨p, hp, rfl⟩ := hid
  split at hsome
  · simp only [Option.some.injEq] at hsome
    exact ⟨p, hp, by rw [← hsome]⟩
  · simp at hsome

theorem loadIndex_dirs {s : Shard} (h2 : Inv2 s) : ∀ ent ∈ (loadIndex s).index, HasDir s ent.1 := by
  intro ent he
  unfold loadIndex at he
  by_cases hx : s.indexExists = true
  · simp only [hx, if_true] at he; exact h2.indexDirs ent he
  · simp only [hx, if_false, Bool.false_eq_true] at he
    by_cases hr : (recoverIndex s.segs).isEmpty = true
    · simp only [hr, if_true] at he; exact h2.indexDirs ent he
    · simp only [hr, if_false, Bool.false_eq_true] at he
      exact recoverIndex_dirs s.segs ent he

theorem hasDir_append {s : Shard} {id : Nat} (p : Nat × List Ev) (h : HasDir s id) :
    ∃ q ∈ s.segs ++ [p], q.1 = id := by
  obtain ⟨q, hq, hid⟩ := h; exact ⟨q, by simp [hq], hid⟩

theorem flushStep_inv2 {s : Shard} (h : Inv s) (h2 : Inv2 s) : Inv2 (flushStep s) := by
  unfold flushStep
  cases hjobs : s.jobs with
  | nil => exact h2
  | cons j rest =>
    have hjmem : j ∈ s.jobs := by rw [hjobs]; simp
    simp only
    by_cases hemp : j.evs.isEmpty
    · simp only [hemp, if_true]
      exact inv2_of_frame (s := s) rfl rfl rfl h2
    · simp only [hemp, if_false, Bool.false_eq_true]
      -- a non-empty job that has passed "zones written" has its directory
      have hdir : 1 ≤ j.step → HasDir s j.seg := by
        intro hst
        have hne : j.evs ≠ [] := by intro hc; simp [hc] at hemp
        obtain ⟨e, he⟩ := List.exists_mem_of_ne_nil _ hne
        obtain ⟨p, hp, hid, _⟩ := mem_segRows.mp (h.written j hjmem hst e he)
        exact ⟨p, hp, hid⟩
      match hst : j.step with
      | 0 =>
        simp only
        exact ⟨fun id hid => hasDir_append _ (h2.liveDirs id hid),
               fun ent he => hasDir_append _ (h2.indexDirs ent he)⟩
      | 1 =>
        simp only
        refine ⟨fun id hid => h2.liveDirs id hid, ?_⟩
        intro ent he
        simp only [List.mem_append, List.mem_singleton] at he
        rcases he with he | rfl
        · exact loadIndex_dirs h2 ent (List.mem_filter.mp he).1
        · exact hdir (by omega)
      | 2 =>
        simp only
        refine ⟨?_, fun ent he => h2.indexDirs ent he⟩
        intro id hid
        split at hid
        · exact h2.liveDirs id hid
        · simp only [List.mem_append, List.mem_singleton] at hid
          rcases hid with hid | rfl
          · exact h2.liveDirs id hid
          · exact hdir (by omega)
      | 3 =>
        simp only
        exact ⟨fun id hid => h2.liveDirs id hid, fun ent he => h2.indexDirs ent he⟩
      | 4 =>
        simp only
        exact ⟨fun id hid => by simpa [walClean, HasDir] using h2.liveDirs id (by simpa [walClean] using hid),
               fun ent he => by simpa [walClean, HasDir] using h2.indexDirs ent (by simpa [walClean] using he)⟩
      | n + 5 =>
        simp only
        exact ⟨fun id hid => h2.liveDirs id hid, fun ent he => h2.indexDirs ent he⟩

theorem drain_inv2 (n : Nat) : ∀ {s : Shard}, Inv s → Inv2 s → Inv2 (drain n s) := by
  induction n with
  | zero => intro s _ h2; exact h2
  | succ n ih =>
    intro s h h2
    unfold drain
    split
    · exact h2
    · exact ih (flushStep_inv_cover h).1 (flushStep_inv2 h h2)

theorem restart_inv (s : Shard) : Inv (restart (crash s)) := by
  constructor <;> simp [restart, crash]

theorem restart_inv2 {s : Shard} (h2 : Inv2 s) : Inv2 (restart (crash s)) := by
  constructor
  · intro id hid
    have hl : (restart (crash s)).live
        = published (crash s) (sortNat (((crash s).segs.map (·.1)).eraseDups)) := by simp [restart]
    rw [hl] at hid
    have hid := published_sub hid
    simp only [crash] at hid
    rw [mem_sortNat, List.mem_eraseDups, List.mem_map] at hid
    obtain ⟨p, hp, rfl⟩ := hid
    exact ⟨p, by simpa [restart, crash] using hp, rfl⟩
  · intro ent he
    have he' : ent ∈ s.index := by
      have hi : (restart (crash s)).index = (if (!(crash s).indexExists &&
          (sortNat (((crash s).segs.map (·.1)).eraseDups)).isEmpty) = true then [] else (crash s).index) := by
        simp [restart]
      rw [hi] at he
      split at he
      · simp at he
      · simpa [crash] using he
    obtain ⟨p, hp, hid⟩ := h2.indexDirs ent he'
    exact ⟨p, by simpa [restart, crash] using hp, hid⟩

theorem step_inv_all {s : Shard} (o : Op) (h : Inv s) (h2 : Inv2 s) :
    Inv (step s o) ∧ Inv2 (step s o) := by
  cases o with
  | store e => exact ⟨store_inv e h, store_inv2 e h2⟩
  | flushCmd =>
    exact ⟨(drain_inv_cover _ (rotate_inv h)).1, drain_inv2 _ (rotate_inv h) (rotate_inv2 h2)⟩
  | flushStep => exact ⟨(flushStep_inv_cover h).1, flushStep_inv2 h h2⟩
  | drain => exact ⟨(drain_inv_cover _ h).1, drain_inv2 _ h h2⟩
  | crash => exact ⟨restart_inv s, restart_inv2 h2⟩
  | shutdown =>
    have a1 := (drain_inv_cover (jobSteps * s.jobs.length + 1) h).1
    have a2 := drain_inv2 (jobSteps * s.jobs.length + 1) h h2
    have b1 := rotate_inv a1
    have b2 := rotate_inv2 a2
    have c2 := drain_inv2 (jobSteps * (flushCmd (drainAll s)).jobs.length + 1) b1 b2
    exact ⟨restart_inv _, restart_inv2 c2⟩

theorem runOps_inv_all (ops : List Op) : ∀ {s : Shard}, Inv s → Inv2 s →
    Inv (runOps s ops) ∧ Inv2 (runOps s ops) := by
  induction ops with
  | nil => intro s h h2; exact ⟨h, h2⟩
  | cons o ops ih =>
    intro s h h2
    obtain ⟨a, b⟩ := step_inv_all o h h2
    simpa [runOps] using ih a b

/-- The flush worker only ever appends one directory or leaves the directory set alone. -/
theorem flushStep_segs (s : Shard) :
    (flushStep s).segs = s.segs ∨ ∃ j ∈ s.jobs, (flushStep s).segs = s.segs ++ [(j.seg, j.evs)] := by
  unfold flushStep
  cases hjobs : s.jobs with
  | nil => exact Or.inl rfl
  | cons j rest =>
    simp only
    by_cases hemp : j.evs.isEmpty
    · simp [hemp]
    · simp only [hemp, if_false, Bool.false_eq_true]
      match hst : j.step with
      | 0 => exact Or.inr ⟨j, by simp, rfl⟩
      | 1 => exact Or.inl rfl
      | 2 => exact Or.inl rfl
      | 3 => exact Or.inl rfl
      | 4 => exact Or.inl (by simp [walClean])
      | n + 5 => exact Or.inl rfl

end Snel.Shard

namespace Snel.Shard

theorem maxOpt_foldl_ge (xs : List Nat) : ∀ (m : Option Nat),
    (∀ y, m = some y → ∃ z, xs.foldl (fun m x => match m with | none => some x | some y => some (max x y)) m = some z ∧ y ≤ z) ∧
    (∀ x ∈ xs, ∃ z, xs.foldl (fun m x => match m with | none => some x | some y => some (max x y)) m = some z ∧ x ≤ z) := by
  induction xs with
  | nil => intro m; exact ⟨fun y hy => ⟨y, by simpa using hy, Nat.le_refl _⟩, by simp⟩
  | cons a as ih =>
    intro m
    simp only [List.foldl_cons]
    cases m with
    | none =>
      obtain ⟨h1, h2⟩ := ih (some a)
      refine ⟨by simp, ?_⟩
      intro x hx
      rcases List.mem_cons.mp hx with rfl | hx
      · exact h1 x rfl
      · exact h2 x hx
    | some b =>
      obtain ⟨h1, h2⟩ := ih (some (max a b))
      refine ⟨?_, ?_⟩
      · intro y hy
        have hby : b = y := by simpa using hy
        subst hby
        obtain ⟨z, hz, hle⟩ := h1 (max a b) rfl
        exact ⟨z, hz, by omega⟩
      · intro x hx
        rcases List.mem_cons.mp hx with rfl | hx
        · obtain ⟨z, hz, hle⟩ := h1 (max x b) rfl
          exact ⟨z, hz, by omega⟩
        · exact h2 x hx

theorem maxOpt_ge {xs : List Nat} {x : Nat} (hx : x ∈ xs) : ∃ z, maxOpt xs = some z ∧ x ≤ z :=
  (maxOpt_foldl_ge xs none).2 x hx

/-- After a restart the level-0 allocator is above every level-0 directory on disk. -/
theorem restart_nextL0_fresh (s : Shard) (p : Nat × List Ev) (hp : p ∈ s.segs) (hl : p.1 < levelSpan) :
    p.1 < (restart (crash s)).nextL0 := by
  have hmem : p.1 ∈ (sortNat ((s.segs.map (·.1)).eraseDups)).filter (· < levelSpan) := by
    rw [List.mem_filter, mem_sortNat, List.mem_eraseDups, List.mem_map]
    exact ⟨⟨p, hp, rfl⟩, by simpa using hl⟩
  obtain ⟨z, hz, hle⟩ := maxOpt_ge hmem
  have : (restart (crash s)).nextL0 = z + 1 := by
    simp only [restart, crash, hz]
  rw [this]; omega

end Snel.Shard
