import Snel.Lemmas.ShardFail
import Snel.Lemmas.ShardShutdown
/-! The segment index stays the commit point in histories with failing flushes. -/
namespace Snel.Shard

theorem failHead_indexed {s : Shard} (h : Indexed s) : Indexed (failHead s) := by
  rcases failHead_cases s with he | ⟨j, rest, hj, h0, he⟩
  · rw [he]; exact h
  · rw [he]
    intro p hp
    rcases h p hp with ⟨w, hw, h1, h2, h3⟩ | hr
    · left
      rw [hj, List.mem_cons] at hw
      rcases hw with rfl | hw
      · omega
      · exact ⟨w, hw, h1, h2, h3⟩
    · exact Or.inr hr

def FOp.noKill : FOp → Bool
  | .op o => o.noKill
  | .fail => true

theorem step_indexed {s : Shard} (o : Op) (ho : o.noKill = true) (hs : Indexed s) : Indexed (step s o) := by
  cases o with
  | store e => exact store_indexed e hs
  | flushCmd => exact drain_indexed _ (rotate_indexed hs)
  | flushStep => exact flushStep_indexed hs
  | drain => exact drain_indexed _ hs
  | crash => simp [Op.noKill] at ho
  | shutdown => exact restart_indexed (shutdown_indexed hs) (drainAll_jobs_nil _)

theorem runF_indexed (ops : List FOp) : ∀ {s : Shard}, Indexed s → (∀ o ∈ ops, o.noKill = true) →
    Indexed (runF s ops) := by
  induction ops with
  | nil => intro s hs _; exact hs
  | cons o ops ih =>
    intro s hs hall
    have ho := hall o (by simp)
    have hstep : Indexed (fstep s o) := by
      cases o with
      | op o => exact step_indexed o ho hs
      | fail => exact failHead_indexed hs
    simpa [runF] using ih hstep (fun x hx => hall x (by simp [hx]))

end Snel.Shard
