import Snel.Model.Response
/-! Helper lemmas for C20 (response encodings). Core Lean only. -/
namespace Snel.Response
open Snel.Gen.C20

/-! ## The row loop -/

theorem rowStep_emitted (cfg : Settings) (d : Dedup) (st : WState) (id : Option Nat) :
    (rowStep cfg d st id).2.emitted = st.emitted + (if (rowStep cfg d st id).1 then 1 else 0) := by
  unfold rowStep
  cases d <;> cases id <;> simp <;> (repeat' split) <;> simp_all

/-- Rows selected from one batch account exactly for the growth of `emitted`. -/
theorem scan_emitted (cfg : Settings) (d : Dedup) (idCol : Option Nat) (rows : List Row) :
    ∀ st, (scan cfg d idCol st rows).2.emitted = st.emitted + (scan cfg d idCol st rows).1.length := by
  induction rows with
  | nil => intro st; simp [scan]
  | cons r rs ih =>
    intro st
    have h := rowStep_emitted cfg d st (rowId idCol r)
    simp only [scan]
    split
    · split <;> simp_all
    · rw [show ∀ (a b : List Row) (c : Bool), (if c = true then a else b).length
            = if c = true then a.length else b.length from by intros; split <;> rfl]
      simp only [ih, h, List.length_cons]
      split <;> omega

/-- Selected rows are rows of the batch. -/
theorem scan_subset (cfg : Settings) (d : Dedup) (idCol : Option Nat) (rows : List Row) :
    ∀ st, ∀ r ∈ (scan cfg d idCol st rows).1, r ∈ rows := by
  induction rows with
  | nil => intro st r h; simp [scan] at h
  | cons x xs ih =>
    intro st r h
    simp only [scan] at h
    split at h
    · split at h <;> simp_all
    · split at h
      · rcases List.mem_cons.mp h with rfl | h'
        · exact List.mem_cons_self
        · exact List.mem_cons_of_mem _ (ih _ _ h')
      · exact List.mem_cons_of_mem _ (ih _ _ h)

theorem scan_length_le (cfg : Settings) (d : Dedup) (idCol : Option Nat) (rows : List Row) :
    ∀ st, (scan cfg d idCol st rows).1.length ≤ rows.length := by
  induction rows with
  | nil => intro st; simp [scan]
  | cons x xs ih =>
    intro st
    simp only [scan]
    split
    · split <;> simp
    · have := ih (rowStep cfg d st (rowId idCol x)).2
      split <;> simp <;> omega

/-! ## The batch loop -/

/-- Total number of selected rows. -/
def selCount (sel : List (Batch × List Row)) : Nat := (sel.map fun p => p.2.length).sum

theorem select_emitted (cfg : Settings) (w : Writer) (idCol : Option Nat) (bs : List Batch) :
    ∀ st bc, (select cfg w idCol st bc bs).2.emitted
      = st.emitted + selCount (select cfg w idCol st bc bs).1 := by
  induction bs with
  | nil => intro st bc; simp [select, selCount]
  | cons b bs ih =>
    intro st bc
    simp only [select]
    split
    · simp [selCount]
    · split
      · exact ih st bc
      · have hs := scan_emitted cfg (dedupFor w bc) idCol b st
        have hr := ih (scan cfg (dedupFor w bc) idCol st b).2 (bc + 1)
        split
        · rename_i hemp
          have : (scan cfg (dedupFor w bc) idCol st b).1.length = 0 := by
            simpa using hemp
          rw [hr, hs, this]; simp
        · rw [hr, hs]; simp [selCount]; omega

/-- Every selected pair is an input batch with a sub-list of its rows. -/
theorem select_subset (cfg : Settings) (w : Writer) (idCol : Option Nat) (bs : List Batch) :
    ∀ st bc, ∀ p ∈ (select cfg w idCol st bc bs).1, p.1 ∈ bs ∧ ∀ r ∈ p.2, r ∈ p.1 := by
  induction bs with
  | nil => intro st bc p h; simp [select] at h
  | cons b bs ih =>
    intro st bc p h
    simp only [select] at h
    split at h
    · simp at h
    · split at h
      · have := ih st bc p h
        exact ⟨List.mem_cons_of_mem _ this.1, this.2⟩
      · split at h
        · have := ih _ _ p h
          exact ⟨List.mem_cons_of_mem _ this.1, this.2⟩
        · rcases List.mem_cons.mp h with rfl | h'
          · exact ⟨List.mem_cons_self, fun r hr => scan_subset cfg _ idCol b st r hr⟩
          · have := ih _ _ p h'
            exact ⟨List.mem_cons_of_mem _ this.1, this.2⟩

/-! ## Rows of the decoded streams -/

/-- The selected scalar rows, flattened. -/
def rowsOf (sel : List (Batch × List Row)) : List Row := sel.flatMap fun p => p.2

theorem rowsOf_length (sel : List (Batch × List Row)) : (rowsOf sel).length = selCount sel := by
  induction sel with
  | nil => rfl
  | cons p ps ih => simp [rowsOf, selCount, List.flatMap_cons] at *; try omega

theorem jsonFrames_rows (ext : Ext) (bm : Bool) (sel : List (Batch × List Row)) :
    (jsonFrames ext bm sel).flatMap JFrame.rows = (rowsOf sel).map (jsonRow ext) := by
  induction sel with
  | nil => simp [jsonFrames, rowsOf]
  | cons p ps ih =>
    simp only [jsonFrames, rowsOf, List.flatMap_cons, List.flatMap_append, List.map_append] at *
    rw [ih]
    congr 1
    cases bm
    · simp only [Bool.false_eq_true, if_false]
      induction p.2 with
      | nil => rfl
      | cons r rs ih2 => simp [List.flatMap_cons, JFrame.rows, ih2]
    · simp [JFrame.rows]

/-- Encoder used for a selected batch. -/
def encOf (ext : Ext) (p : Batch × List Row) : Builder → Scalar → Cell :=
  if p.2.length = p.1.length then arrowWhole ext else arrowIndexed ext

theorem arrowBatch_eq (ext : Ext) (bl : List Builder) (p : Batch × List Row) :
    arrowBatch ext bl p = p.2.map (arrowRow (encOf ext p) bl) := by
  unfold arrowBatch encOf; split <;> rfl

/-- JSON row and Arrow row of every selected scalar row, side by side. -/
def pairs (ext : Ext) (bl : List Builder) (sel : List (Batch × List Row)) :
    List (List Cell × List Cell) :=
  sel.flatMap fun p => p.2.map fun r => (jsonRow ext r, arrowRow (encOf ext p) bl r)

theorem pairs_fst (ext : Ext) (bl : List Builder) (sel : List (Batch × List Row)) :
    (pairs ext bl sel).map Prod.fst = (rowsOf sel).map (jsonRow ext) := by
  induction sel with
  | nil => rfl
  | cons p ps ih =>
    simp only [pairs, rowsOf, List.flatMap_cons, List.map_append] at *
    rw [ih]; simp [Function.comp_def]

theorem pairs_snd (ext : Ext) (bl : List Builder) (sel : List (Batch × List Row)) :
    (pairs ext bl sel).map Prod.snd = (sel.map (arrowBatch ext bl)).flatten := by
  induction sel with
  | nil => rfl
  | cons p ps ih =>
    simp only [pairs, List.flatMap_cons, List.map_append, List.map_cons, List.flatten_cons] at *
    rw [ih, arrowBatch_eq]; simp [Function.comp_def]

theorem zip_map_fst_snd {α β} (l : List (α × β)) : List.zip (l.map Prod.fst) (l.map Prod.snd) = l := by
  induction l with
  | nil => rfl
  | cons x xs ih => simp [ih]

/-- Cells of a JSON row and an Arrow row of the same scalar row, side by side. -/
theorem mem_zip_cells (ext : Ext) (enc : Builder → Scalar → Cell) :
    ∀ (bl : List Builder) (r : Row) (q : Cell × Cell),
      q ∈ List.zip (jsonRow ext r) (arrowRow enc bl r) →
      ∃ b v, (b, v) ∈ List.zip bl r ∧ q = (toJson ext v, enc b v) := by
  intro bl r
  induction r generalizing bl with
  | nil => intro q h; simp [jsonRow] at h
  | cons v vs ih =>
    intro q h
    cases bl with
    | nil => simp [arrowRow] at h
    | cons b bs =>
      simp only [jsonRow, arrowRow, List.map_cons, List.zipWith_cons_cons, List.zip_cons_cons,
        List.mem_cons] at h
      rcases h with rfl | h
      · exact ⟨b, v, by simp, rfl⟩
      · obtain ⟨b', v', hm, hq⟩ := ih bs q h
        exact ⟨b', v', by simp [hm], hq⟩

/-! ## Cells -/

/-- The cell's runtime type is the declared type of its column, floats are finite, strings are
not re-parsed by `to_json`. -/
def conforms (ext : Ext) (b : Builder) (v : Scalar) : Bool :=
  match b, v with
  | _, .null => true
  | .int64, .int _ => true
  | .int64, .ts _ => true
  | .float64, .float x => isFinite x
  | .bool, .bool _ => true
  | .tsMillis, .int _ => true
  | .tsMillis, .ts _ => true
  | .utf8, .utf8 s => (ext.parseContainer s).isNone && (bigU64 s).isNone
  | _, _ => false

theorem isFinite_not_nan (x : Nat) (h : isFinite x = true) : isNaN x = false := by
  unfold isFinite at h; unfold isNaN; simp_all

theorem cellEq_float_refl (x : Nat) (h : isFinite x = true) : cellEq (.float x) (.float x) = true := by
  simp [cellEq, isFinite_not_nan x h]

theorem conforms_whole (ext : Ext) (b : Builder) (v : Scalar) (h : conforms ext b v = true) :
    cellEq (toJson ext v) (arrowWhole ext b v) = true := by
  cases b <;> cases v <;> simp [conforms] at h <;>
    simp_all [toJson, arrowWhole, cellEq] <;> exact isFinite_not_nan _ h

theorem conforms_indexed (ext : Ext) (b : Builder) (v : Scalar) (h : conforms ext b v = true) :
    cellEq (toJson ext v) (arrowIndexed ext b v) = true := by
  cases b <;> cases v <;> simp [conforms] at h <;>
    simp_all [toJson, arrowIndexed, cellEq] <;> exact isFinite_not_nan _ h

end Snel.Response

namespace Snel.Response

/-! ## The query writer refines "first occurrence per id, then OFFSET, then LIMIT" -/

/-- Rows surviving deduplication: the first row of every event id (rows without a readable
id are all kept). `seen` = ids already met. -/
def dedupFirst (idCol : Option Nat) : List Nat → List Row → List Row
  | _, [] => []
  | seen, r :: rs =>
    match rowId idCol r with
    | some i => if i ∈ seen then dedupFirst idCol seen rs else r :: dedupFirst idCol (i :: seen) rs
    | none => r :: dedupFirst idCol seen rs

def takeOpt (l : Option Nat) (used : Nat) (rows : List Row) : List Row :=
  match l with
  | some n => rows.take (n - used)
  | none => rows

/-- The specification of the response's rows. -/
def specRows (cfg : Settings) (idCol : Option Nat) (rows : List Row) : List Row :=
  takeOpt cfg.limit 0 ((dedupFirst idCol [] rows).drop (cfg.offset.getD 0))

theorem rowStep_stop_mono (cfg : Settings) (d : Dedup) (st : WState) (id : Option Nat)
    (h : st.stop = true) : (rowStep cfg d st id).2.stop = true := by
  unfold rowStep
  cases d <;> cases id <;> simp <;> (repeat' split) <;> simp_all

def limitFull (cfg : Settings) (emitted : Nat) : Bool :=
  match cfg.limit with
  | some l => decide (l ≤ emitted)
  | none => false

/-- State after the deduplication stage let the row pass. -/
def afterDedup (st : WState) (id : Option Nat) : WState :=
  match id with
  | some i => { st with seen := i :: st.seen }
  | none => st

theorem rowStep_full_dup (cfg : Settings) (st : WState) (i : Nat) (h : i ∈ st.seen) :
    rowStep cfg .full st (some i) = (false, st) := by
  simp [rowStep, h]

theorem rowStep_full_fresh (cfg : Settings) (st : WState) (id : Option Nat)
    (hfresh : ∀ i, id = some i → i ∉ st.seen) :
    rowStep cfg .full st id =
      if (afterDedup st id).skipped < cfg.offset.getD 0 then
        (false, { afterDedup st id with skipped := (afterDedup st id).skipped + 1 })
      else if limitFull cfg (afterDedup st id).emitted then
        (false, { afterDedup st id with stop := true })
      else (true, { afterDedup st id with emitted := (afterDedup st id).emitted + 1 }) := by
  cases id with
  | none =>
    cases ho : cfg.offset <;> cases hl : cfg.limit <;>
      simp [rowStep, afterDedup, limitFull, ho, hl] <;> (repeat' split) <;> simp_all <;>
      (have h' := of_decide_eq_true ‹decide (_ ≤ _) = true›; omega)
  | some i =>
    have := hfresh i rfl
    cases ho : cfg.offset <;> cases hl : cfg.limit <;>
      simp [rowStep, afterDedup, limitFull, ho, hl, this] <;> (repeat' split) <;> simp_all <;>
      (have h' := of_decide_eq_true ‹decide (_ ≤ _) = true›; omega)

theorem takeOpt_full (cfg : Settings) (e : Nat) (rows : List Row) (h : limitFull cfg e = true) :
    takeOpt cfg.limit e rows = [] := by
  unfold limitFull at h
  cases hl : cfg.limit with
  | none => simp [hl] at h
  | some l =>
    simp [hl] at h
    have : l - e = 0 := by omega
    simp [takeOpt, this]

theorem takeOpt_cons (cfg : Settings) (e : Nat) (r : Row) (rows : List Row)
    (h : limitFull cfg e = false) :
    takeOpt cfg.limit e (r :: rows) = r :: takeOpt cfg.limit (e + 1) rows := by
  unfold limitFull at h
  cases hl : cfg.limit with
  | none => simp [takeOpt]
  | some l =>
    simp [hl] at h
    have : l - e = (l - (e + 1)) + 1 := by omega
    simp [takeOpt, this, List.take_succ_cons]

/-- The row loop on a flat list, from any state that has not reached the limit. -/
theorem scan_full_spec (cfg : Settings) (idCol : Option Nat) (rows : List Row) :
    ∀ st : WState, st.stop = false →
      (scan cfg .full idCol st rows).1
        = takeOpt cfg.limit st.emitted
            ((dedupFirst idCol st.seen rows).drop (cfg.offset.getD 0 - st.skipped)) := by
  induction rows with
  | nil => intro st _; cases h : cfg.limit <;> simp [scan, dedupFirst, takeOpt]
  | cons r rs ih =>
    intro st hst
    by_cases hdup : ∃ i, rowId idCol r = some i ∧ i ∈ st.seen
    · obtain ⟨i, hi, hmem⟩ := hdup
      simp only [scan, dedupFirst, hi, rowStep_full_dup cfg st i hmem, hst, hmem, if_true]
      simpa using ih st hst
    · have hfresh : ∀ i, rowId idCol r = some i → i ∉ st.seen := by
        intro i hi hmem; exact hdup ⟨i, hi, hmem⟩
      have hded : dedupFirst idCol st.seen (r :: rs)
          = r :: dedupFirst idCol (afterDedup st (rowId idCol r)).seen rs := by
        cases hi : rowId idCol r with
        | none => simp [dedupFirst, hi, afterDedup]
        | some i => simp [dedupFirst, hi, afterDedup, hfresh i hi]
      have hsk : (afterDedup st (rowId idCol r)).skipped = st.skipped := by
        cases rowId idCol r <;> rfl
      have hem : (afterDedup st (rowId idCol r)).emitted = st.emitted := by
        cases rowId idCol r <;> rfl
      have hstop : (afterDedup st (rowId idCol r)).stop = false := by
        cases rowId idCol r <;> exact hst
      simp only [scan, rowStep_full_fresh cfg st _ hfresh, hded, hsk, hem]
      by_cases hskip : st.skipped < cfg.offset.getD 0
      · have e : cfg.offset.getD 0 - st.skipped = (cfg.offset.getD 0 - (st.skipped + 1)) + 1 := by omega
        have := ih { afterDedup st (rowId idCol r) with skipped := st.skipped + 1 } (by simpa using hstop)
        simp only [hskip, if_true, hstop, e, List.drop_succ_cons]
        simpa [hem, hstop] using this
      · have e0 : cfg.offset.getD 0 - st.skipped = 0 := by omega
        simp only [hskip, if_false, e0, List.drop_zero]
        cases hfull : limitFull cfg st.emitted with
        | true => simp [takeOpt_full cfg _ _ hfull]
        | false =>
          have := ih { afterDedup st (rowId idCol r) with emitted := st.emitted + 1 } (by simpa using hstop)
          rw [takeOpt_cons cfg _ _ _ hfull]
          simp only [Bool.false_eq_true, if_false, hstop, if_true]
          simpa [hsk, e0, hstop] using this

end Snel.Response

namespace Snel.Response

theorem scan_append (cfg : Settings) (d : Dedup) (idCol : Option Nat) (xs ys : List Row) :
    ∀ st : WState, st.stop = false →
      scan cfg d idCol st (xs ++ ys) =
        if (scan cfg d idCol st xs).2.stop then scan cfg d idCol st xs
        else ((scan cfg d idCol st xs).1 ++ (scan cfg d idCol (scan cfg d idCol st xs).2 ys).1,
              (scan cfg d idCol (scan cfg d idCol st xs).2 ys).2) := by
  induction xs with
  | nil => intro st h; simp [scan, h]
  | cons x xs ih =>
    intro st _
    simp only [List.cons_append, scan]
    by_cases hs : (rowStep cfg d st (rowId idCol x)).2.stop = true
    · simp [hs]
    · have hs' : (rowStep cfg d st (rowId idCol x)).2.stop = false := by simpa using hs
      simp only [hs', Bool.false_eq_true, if_false]
      rw [ih _ hs']
      by_cases h2 : (scan cfg d idCol (rowStep cfg d st (rowId idCol x)).2 xs).2.stop = true
      · simp [h2]
      · simp only [h2]
        split <;> simp

theorem select_stop (cfg : Settings) (w : Writer) (idCol : Option Nat) (bs : List Batch)
    (st : WState) (bc : Nat) (h : st.stop = true) : (select cfg w idCol st bc bs).1 = [] := by
  cases bs <;> simp [select, h]

theorem select_cons_rows (cfg : Settings) (w : Writer) (idCol : Option Nat) (st : WState) (bc : Nat)
    (b : Batch) (bs : List Batch) (hst : st.stop = false) (hb : b.isEmpty = false) :
    rowsOf (select cfg w idCol st bc (b :: bs)).1
      = (scan cfg (dedupFor w bc) idCol st b).1
          ++ rowsOf (select cfg w idCol (scan cfg (dedupFor w bc) idCol st b).2 (bc + 1) bs).1 := by
  simp only [select, hst, hb, Bool.false_eq_true, if_false]
  split
  · rename_i he
    have : (scan cfg (dedupFor w bc) idCol st b).1 = [] := by simpa using he
    simp [this]
  · simp [rowsOf]

/-- The query writer's rows do not depend on how the rows are cut into batches: they are the
row loop applied to the concatenation. -/
theorem select_query_flat (cfg : Settings) (idCol : Option Nat) (bs : List Batch) :
    ∀ st bc, st.stop = false →
      rowsOf (select cfg .query idCol st bc bs).1 = (scan cfg .full idCol st bs.flatten).1 := by
  induction bs with
  | nil => intro st bc _; simp [select, rowsOf, scan]
  | cons b bs ih =>
    intro st bc hst
    by_cases hb : b.isEmpty = true
    · have : b = [] := by simpa using hb
      subst this
      simpa [select, hst] using ih st bc hst
    · have hb' : b.isEmpty = false := by simpa using hb
      rw [select_cons_rows cfg .query idCol st bc b bs hst hb', List.flatten_cons,
        scan_append cfg .full idCol b bs.flatten st hst]
      show (scan cfg .full idCol st b).1
          ++ rowsOf (select cfg .query idCol (scan cfg .full idCol st b).2 (bc + 1) bs).1 = _
      by_cases hs : (scan cfg .full idCol st b).2.stop = true
      · simp [hs, select_stop _ _ _ _ _ _ hs, rowsOf]
      · have hs' : (scan cfg .full idCol st b).2.stop = false := by simpa using hs
        simp [hs', ih _ (bc + 1) hs']

/-- The limit is never exceeded. -/
theorem rowStep_le_limit (cfg : Settings) (d : Dedup) (st : WState) (id : Option Nat) (l : Nat)
    (hl : cfg.limit = some l) (h : st.emitted ≤ l) : (rowStep cfg d st id).2.emitted ≤ l := by
  unfold rowStep
  cases d <;> cases id <;> simp [hl] <;> (repeat' split) <;> simp_all <;> omega

theorem scan_le_limit (cfg : Settings) (d : Dedup) (idCol : Option Nat) (l : Nat)
    (hl : cfg.limit = some l) (rows : List Row) :
    ∀ st, st.emitted ≤ l → (scan cfg d idCol st rows).2.emitted ≤ l := by
  induction rows with
  | nil => intro st h; simpa [scan] using h
  | cons r rs ih =>
    intro st h
    have := rowStep_le_limit cfg d st (rowId idCol r) l hl h
    simp only [scan]
    split
    · exact this
    · exact ih _ this

theorem select_le_limit (cfg : Settings) (w : Writer) (idCol : Option Nat) (l : Nat)
    (hl : cfg.limit = some l) (bs : List Batch) :
    ∀ st bc, st.emitted ≤ l → (select cfg w idCol st bc bs).2.emitted ≤ l := by
  induction bs with
  | nil => intro st bc h; simpa [select] using h
  | cons b bs ih =>
    intro st bc h
    simp only [select]
    split
    · exact h
    · split
      · exact ih st bc h
      · have := scan_le_limit cfg (dedupFor w bc) idCol l hl b st h
        split
        · exact ih _ _ this
        · exact ih _ _ this

end Snel.Response

namespace Snel.Response
open Snel.Gen.C20

/-- The JSON renderer's error body has `"status"` at byte 12, inside the probed prefix. -/
theorem hasStatus_json_head (rest : Bytes) :
    hasStatusWord (List.take httpProbeLen (jsonErrHead ++ rest)) = true := by
  simp [jsonErrHead, httpProbeLen, hasStatusWord, sStatus, List.isPrefixOf]

end Snel.Response
