import Snel.Model.Response
/-! Helper lemmas for C20 (response encodings). Core Lean only. -/
namespace Snel.Response
open Snel.Gen.C20

/-! ## The row loop -/

theorem rowStep_emitted (cfg : Settings) (d : Dedup) (st : WState) (id : Option Nat) :
    (rowStep cfg d st id).2.emitted = st.emitted + (if (rowStep cfg d st id).1 then 1 else 0) := by
  unfold rowStep
  cases d <;> cases id <;> simp <;> (repeat' split) <;> simp_all

/-- Rows selected from one batch account exactly for the growth of `emitted`. -/
theorem scan_emitted (cfg : Settings) (d : Dedup) (idCol : Option Nat) (rows : List Row) :
    ∀ st, (scan cfg d idCol st rows).2.emitted = st.emitted + (scan cfg d idCol st rows).1.length := by
  induction rows with
  | nil => intro st; simp [scan]
  | cons r rs ih =>
    intro st
    have h := rowStep_emitted cfg d st (rowId idCol r)
    simp only [scan]
    split
    · split <;> simp_all
    · rw [show ∀ (a b : List Row) (c : Bool), (if c = true then a else b).length
            = if c = true then a.length else b.length from by intros; split <;> rfl]
      simp only [ih, h, List.length_cons]
      split <;> omega

/-- Selected rows are rows of the batch. -/
theorem scan_subset (cfg : Settings) (d : Dedup) (idCol : Option Nat) (rows : List Row) :
    ∀ st, ∀ r ∈ (scan cfg d idCol st rows).1, r ∈ rows := by
  induction rows with
  | nil => intro st r h; simp [scan] at h
  | cons x xs ih =>
    intro st r h
    simp only [scan] at h
    split at h
    · split at h <;> simp_all
    · split at h
      · rcases List.mem_cons.mp h with rfl | h'
        · exact List.mem_cons_self
        · exact List.mem_cons_of_mem _ (ih _ _ h')
      · exact List.mem_cons_of_mem _ (ih _ _ h)

theorem scan_length_le (cfg : Settings) (d : Dedup) (idCol : Option Nat) (rows : List Row) :
    ∀ st, (scan cfg d idCol st rows).1.length ≤ rows.length := by
  induction rows with
  | nil => intro st; simp [scan]
  | cons x xs ih =>
    intro st
    simp only [scan]
    split
    · split <;> simp
    · have := ih (rowStep cfg d st (rowId idCol x)).2
      split <;> simp <;> omega

/-! ## The batch loop -/

/-- Total number of selected rows. -/
def selCount (sel : List (Batch × List Row)) : Nat := (sel.map fun p => p.2.length).sum

theorem select_emitted (cfg : Settings) (w : Writer) (idCol : Option Nat) (bs : List Batch) :
    ∀ st bc, (select cfg w idCol st bc bs).2.emitted
      = st.emitted + selCount (select cfg w idCol st bc bs).1 := by
  induction bs with
  | nil => intro st bc; simp [select, selCount]
  | cons b bs ih =>
    intro st bc
    simp only [select]
    split
    · simp [selCount]
    · split
      · exact ih st bc
      · have hs := scan_emitted cfg (dedupFor w bc) idCol b st
        have hr := ih (scan cfg (dedupFor w bc) idCol st b).2 (bc + 1)
        split
        · rename_i hemp
          have : (scan cfg (dedupFor w bc) idCol st b).1.length = 0 := by
            simpa using hemp
          rw [hr, hs, this]; simp
        · rw [hr, hs]; simp [selCount]; omega

/-- Every selected pair is an input batch with a sub-list of its rows. -/
theorem select_subset (cfg : Settings) (w : Writer) (idCol : Option Nat) (bs : List Batch) :
    ∀ st bc, ∀ p ∈ (select cfg w idCol st bc bs).1, p.1 ∈ bs ∧ ∀ r ∈ p.2, r ∈ p.1 := by
  induction bs with
  | nil => intro st bc p h; simp [select] at h
  | cons b bs ih =>
    intro st bc p h
    simp only [select] at h
    split at h
    · simp at h
    · split at h
      · have := ih st bc p h
        exact ⟨List.mem_cons_of_mem _ this.1, this.2⟩
      · split at h
        · have := ih _ _ p h
          exact ⟨List.mem_cons_of_mem _ this.1, this.2⟩
        · rcases List.mem_cons.mp h with rfl | h'
          · exact ⟨List.mem_cons_self, fun r hr => scan_subset cfg _ idCol b st r hr⟩
          · have := ih _ _ p h'
            exact ⟨List.mem_cons_of_mem _ this.1, this.2⟩

/-! ## Rows of the decoded streams -/

/-- The selected scalar rows, flattened. -/
def rowsOf (sel : List (Batch × List Row)) : List Row := sel.flatMap fun p => p.2

theorem rowsOf_length (sel : List (Batch × List Row)) : (rowsOf sel).length = selCount sel := by
  induction sel with
  | nil => rfl
  | cons p ps ih => simp [rowsOf, selCount, List.flatMap_cons] at *; try omega

theorem jsonFrames_rows (ext : Ext) (bm : Bool) (sel : List (Batch × List Row)) :
    (jsonFrames ext bm sel).flatMap JFrame.rows = (rowsOf sel).map (jsonRow ext) := by
  induction sel with
  | nil => simp [jsonFrames, rowsOf]
  | cons p ps ih =>
    simp only [jsonFrames, rowsOf, List.flatMap_cons, List.flatMap_append, List.map_append] at *
    rw [ih]
    congr 1
    cases bm
    · simp only [Bool.false_eq_true, if_false]
      induction p.2 with
      | nil => rfl
      | cons r rs ih2 => simp [List.flatMap_cons, JFrame.rows, ih2]
    · simp [JFrame.rows]

/-- Encoder used for a selected batch. -/
def encOf (ext : Ext) (p : Batch × List Row) : Builder → Scalar → Cell :=
  if p.2.length = p.1.length then arrowWhole ext else arrowIndexed ext

theorem arrowBatch_eq (ext : Ext) (bl : List Builder) (p : Batch × List Row) :
    arrowBatch ext bl p = p.2.map (arrowRow (encOf ext p) bl) := by
  unfold arrowBatch encOf; split <;> rfl

/-- JSON row and Arrow row of every selected scalar row, side by side. -/
def pairs (ext : Ext) (bl : List Builder) (sel : List (Batch × List Row)) :
    List (List Cell × List Cell) :=
  sel.flatMap fun p => p.2.map fun r => (jsonRow ext r, arrowRow (encOf ext p) bl r)

theorem pairs_fst (ext : Ext) (bl : List Builder) (sel : List (Batch × List Row)) :
    (pairs ext bl sel).map Prod.fst = (rowsOf sel).map (jsonRow ext) := by
  induction sel with
  | nil => rfl
  | cons p ps ih =>
    simp only [pairs, rowsOf, List.flatMap_cons, List.map_append] at *
    rw [ih]; simp [Function.comp_def]

theorem pairs_snd (ext : Ext) (bl : List Builder) (sel : List (Batch × List Row)) :
    (pairs ext bl sel).map Prod.snd = (sel.map (arrowBatch ext bl)).flatten := by
  induction sel with
  | nil => rfl
  | cons p ps ih =>
    simp only [pairs, List.flatMap_cons, List.map_append, List.map_cons, List.flatten_cons] at *
    rw [ih, arrowBatch_eq]; simp [Function.comp_def]

theorem zip_map_fst_snd {α β} (l : List (α × β)) : List.zip (l.map Prod.fst) (l.map Prod.snd) = l := by
  induction l with
  | nil => rfl
  | cons x xs ih => simp [ih]

/-- Cells of a JSON row and an Arrow row of the same scalar row, side by side. -/
theorem mem_zip_cells (ext : Ext) (enc : Builder → Scalar → Cell) :
    ∀ (bl : List Builder) (r : Row) (q : Cell × Cell),
      q ∈ List.zip (jsonRow ext r) (arrowRow enc bl r) →
      ∃ b v, (b, v) ∈ List.zip bl r ∧ q = (toJson ext v, enc b v) := by
  intro bl r
  induction r generalizing bl with
  | nil => intro q h; simp [jsonRow] at h
  | cons v vs ih =>
    intro q h
    cases bl with
    | nil => simp [arrowRow] at h
    | cons b bs =>
      simp only [jsonRow, arrowRow, List.map_cons, List.zipWith_cons_cons, List.zip_cons_cons,
        List.mem_cons] at h
      rcases h with rfl | h
      · exact ⟨b, v, by simp, rfl⟩
      · obtain ⟨b', v', hm, hq⟩ := ih bs q h
        exact ⟨b', v', by simp [hm], hq⟩

/-! ## Cells -/

/-- The cell's runtime type is the declared type of its column, floats are finite, strings are
not re-parsed by `to_json`. -/
def conforms (ext : Ext) (b : Builder) (v : Scalar) : Bool :=
  match b, v with
  | _, .null => true
  | .int64, .int _ => true
  | .int64, .ts _ => true
  | .float64, .float x => isFinite x
  | .bool, .bool _ => true
  | .tsMillis, .int _ => true
  | .tsMillis, .ts _ => true
  | .utf8, .utf8 s => (ext.parseContainer s).isNone && (bigU64 s).isNone
  | _, _ => false

theorem isFinite_not_nan (x : Nat) (h : isFinite x = true) : isNaN x = false := by
  unfold isFinite at h; unfold isNaN; simp_all

theorem cellEq_float_refl (x : Nat) (h : isFinite x = true) : cellEq (.float x) (.float x) = true := by
  simp [cellEq, isFinite_not_nan x h]

theorem conforms_whole (ext : Ext) (b : Builder) (v : Scalar) (h : conforms ext b v = true) :
    cellEq (toJson ext v) (arrowWhole ext b v) = true := by
  cases b <;> cases v <;> simp [conforms] at h <;>
    simp_all [toJson, arrowWhole, cellEq] <;> exact isFinite_not_nan _ h

theorem conforms_indexed (ext : Ext) (b : Builder) (v : Scalar) (h : conforms ext b v = true) :
    cellEq (toJson ext v) (arrowIndexed ext b v) = true := by
  cases b <;> cases v <;> simp [conforms] at h <;>
    simp_all [toJson, arrowIndexed, cellEq] <;> exact isFinite_not_nan _ h

end Snel.Response
