import Snel.Model.Aggregate
/-!
Helper lemmas for C09: wrapping arithmetic, the `pick`/`opick` semilattice over a strict total
order, duplicate-free value sets, the representation relation between aggregator states and
the rows they have consumed, association lists, and the grouped-fold characterisation used for
the sink and the coordinator.
-/
namespace Snel.Agg

/-! ### wrapping arithmetic -/

theorem wrap_add_wrap_left (a b : Int) : wrap (wrap a + b) = wrap (a + b) := by
  unfold wrap; omega

theorem wrap_add_wrap_right (a b : Int) : wrap (a + wrap b) = wrap (a + b) := by
  unfold wrap; omega

theorem wrap_add_wrap (a b : Int) : wrap (wrap a + wrap b) = wrap (a + b) := by
  unfold wrap; omega

theorem wrap_wrap (a : Int) : wrap (wrap a) = wrap a := by
  unfold wrap; omega

theorem wrap_of_i64 (a : Int) (h : -9223372036854775808 ≤ a ∧ a < 9223372036854775808) : wrap a = a := by
  unfold wrap; omega

/-! ### strict total orders given by a Boolean `lt` -/

structure StrictTotal {α : Type} (lt : α → α → Bool) : Prop where
  irrefl : ∀ a, lt a a = false
  trans : ∀ a b c, lt a b = true → lt b c = true → lt a c = true
  tri : ∀ a b, lt a b = false → lt b a = false → a = b

section order
variable {α : Type} {lt : α → α → Bool}

theorem StrictTotal.asymm (h : StrictTotal lt) {a b : α} (hab : lt a b = true) : lt b a = false := by
  cases hba : lt b a with
  | false => rfl
  | true => have := h.trans a b a hab hba; rw [h.irrefl] at this; cases this

theorem StrictTotal.le_lt (h : StrictTotal lt) {a b c : α} (hba : lt b a = false) (hbc : lt b c = true) :
    lt a c = true := by
  cases hab : lt a b with
  | true => exact h.trans a b c hab hbc
  | false => have := h.tri a b hab hba; subst this; exact hbc

theorem pick_comm (h : StrictTotal lt) (x y : α) : pick lt x y = pick lt y x := by
  unfold pick
  cases hyx : lt y x <;> cases hxy : lt x y <;> simp
  · exact h.tri x y hxy hyx
  · have := h.asymm hyx; rw [hxy] at this; cases this

theorem pick_assoc (h : StrictTotal lt) (x y z : α) :
    pick lt (pick lt x y) z = pick lt x (pick lt y z) := by
  unfold pick
  cases hyx : lt y x <;> cases hzy : lt z y <;> cases hzx : lt z x <;> simp [hyx, hzy, hzx]
  · have := h.le_lt hzy hzx; rw [hyx] at this; cases this
  · have := h.trans z y x hzy hyx; rw [hzx] at this; cases this

theorem pick_self (h : StrictTotal lt) (x : α) : pick lt x x = x := by
  unfold pick; simp [h.irrefl]

@[simp] theorem opick_none_left (b : Option α) : opick lt none b = b := by
  cases b <;> rfl

@[simp] theorem opick_none_right (a : Option α) : opick lt a none = a := by
  cases a <;> rfl

theorem opick_comm (h : StrictTotal lt) (a b : Option α) : opick lt a b = opick lt b a := by
  cases a <;> cases b <;> simp [opick, pick_comm h]

theorem opick_assoc (h : StrictTotal lt) (a b c : Option α) :
    opick lt (opick lt a b) c = opick lt a (opick lt b c) := by
  cases a <;> cases b <;> cases c <;> simp [opick, pick_assoc h]

theorem opick_idem (h : StrictTotal lt) (a : Option α) : opick lt a a = a := by
  cases a <;> simp [opick, pick_self h]

theorem opick_eq_none {a b : Option α} (h : opick lt a b = none) : a = none ∧ b = none := by
  cases a <;> cases b <;> simp_all [opick]

theorem bestOf_nil : bestOf lt ([] : List α) = none := rfl

theorem bestOf_snoc (xs : List α) (x : α) : bestOf lt (xs ++ [x]) = opick lt (bestOf lt xs) (some x) := by
  simp [bestOf, List.foldl_append]

theorem foldl_opick (h : StrictTotal lt) (xs : List α) (a : Option α) :
    xs.foldl (fun acc x => opick lt acc (some x)) a = opick lt a (bestOf lt xs) := by
  induction xs generalizing a with
  | nil => simp [bestOf]
  | cons x xs ih =>
    simp only [List.foldl_cons, bestOf]
    rw [ih, ih (opick lt none (some x))]
    simp [opick_assoc h]

theorem bestOf_append (h : StrictTotal lt) (xs ys : List α) :
    bestOf lt (xs ++ ys) = opick lt (bestOf lt xs) (bestOf lt ys) := by
  unfold bestOf
  rw [List.foldl_append, foldl_opick h]
  rfl

theorem bestOf_eq_none {xs : List α} (h : bestOf lt xs = none) : xs = [] := by
  cases xs with
  | nil => rfl
  | cons x xs =>
    exfalso
    have : ∀ (l : List α) (a : α), l.foldl (fun acc x => opick lt acc (some x)) (some a) ≠ none := by
      intro l
      induction l with
      | nil => intro a; simp
      | cons y l ih => intro a; simp only [List.foldl_cons, opick]; exact ih _
    exact this xs x (by simpa [bestOf, opick] using h)

theorem bestOf_perm (h : StrictTotal lt) {xs ys : List α} (p : xs.Perm ys) : bestOf lt xs = bestOf lt ys := by
  unfold bestOf
  suffices ∀ a, xs.foldl (fun acc x => opick lt acc (some x)) a = ys.foldl (fun acc x => opick lt acc (some x)) a from this none
  induction p with
  | nil => intro a; rfl
  | cons x _ ih => intro a; simp only [List.foldl_cons]; exact ih _
  | swap x y l =>
    intro a
    simp only [List.foldl_cons]
    congr 1
    rw [opick_assoc h, opick_assoc h, opick_comm h (some y) (some x)]
  | trans _ _ ih1 ih2 => intro a; rw [ih1, ih2]

end order

theorem strictTotal_ltI : StrictTotal ltI where
  irrefl a := by simp [ltI]
  trans a b c := by simp only [ltI, decide_eq_true_eq]; omega
  tri a b := by simp only [ltI, decide_eq_false_iff_not]; omega

theorem strictTotal_gtI : StrictTotal gtI where
  irrefl a := by simp [gtI]
  trans a b c := by simp only [gtI, decide_eq_true_eq]; omega
  tri a b := by simp only [gtI, decide_eq_false_iff_not]; omega

theorem strictTotal_ltS : StrictTotal ltS where
  irrefl a := by simp [ltS, String.lt_irrefl]
  trans a b c := by
    simp only [ltS, decide_eq_true_eq]
    exact fun h1 h2 => String.lt_trans h1 h2
  tri a b := by
    simp only [ltS, decide_eq_false_iff_not]
    intro h1 h2
    exact String.le_antisymm (String.not_lt.mp h2) (String.not_lt.mp h1)

theorem strictTotal_gtS : StrictTotal gtS where
  irrefl a := by simp [gtS, String.lt_irrefl]
  trans a b c := by
    simp only [gtS, decide_eq_true_eq]
    exact fun h1 h2 => String.lt_trans h2 h1
  tri a b := by
    simp only [gtS, decide_eq_false_iff_not]
    intro h1 h2
    exact String.le_antisymm (String.not_lt.mp h1) (String.not_lt.mp h2)

/-! ### duplicate-free value sets -/

theorem mem_insertU {x v : String} {vs : List String} : x ∈ insertU v vs ↔ x = v ∨ x ∈ vs := by
  unfold insertU
  split
  · constructor
    · exact Or.inr
    · rintro (rfl | h)
      · assumption
      · exact h
  · simp [List.mem_append, or_comm]

theorem nodup_insertU {v : String} {vs : List String} (h : vs.Nodup) : (insertU v vs).Nodup := by
  unfold insertU
  split
  · exact h
  · rename_i hv
    rw [List.nodup_append]
    refine ⟨h, by simp, ?_⟩
    intro a ha b hb
    simp at hb
    subst hb
    intro hab
    subst hab
    exact hv ha

theorem mem_foldl_insertU {x : String} (b a : List String) :
    x ∈ b.foldl (fun acc v => insertU v acc) a ↔ x ∈ a ∨ x ∈ b := by
  induction b generalizing a with
  | nil => simp
  | cons v b ih =>
    simp only [List.foldl_cons, ih, mem_insertU, List.mem_cons]
    constructor
    · rintro ((rfl | h) | h)
      · exact Or.inr (Or.inl rfl)
      · exact Or.inl h
      · exact Or.inr (Or.inr h)
    · rintro (h | rfl | h)
      · exact Or.inl (Or.inr h)
      · exact Or.inl (Or.inl rfl)
      · exact Or.inr h

theorem nodup_foldl_insertU (b a : List String) (h : a.Nodup) :
    (b.foldl (fun acc v => insertU v acc) a).Nodup := by
  induction b generalizing a with
  | nil => simpa
  | cons v b ih => exact ih _ (nodup_insertU h)

theorem mem_distinct {x : String} {xs : List String} : x ∈ distinct xs ↔ x ∈ xs := by
  simp [distinct, mem_foldl_insertU]

theorem nodup_distinct (xs : List String) : (distinct xs).Nodup :=
  nodup_foldl_insertU xs [] List.nodup_nil

/-- two duplicate-free lists with the same members have the same length -/
theorem length_eq_of_same_members {a b : List String} (ha : a.Nodup) (hb : b.Nodup)
    (h : ∀ x, x ∈ a ↔ x ∈ b) : a.length = b.length :=
  ((List.perm_ext_iff_of_nodup ha hb).mpr h).length_eq

/-! ### sums -/

theorem sum_perm {xs ys : List Int} (p : xs.Perm ys) : xs.sum = ys.sum := by
  induction p with
  | nil => rfl
  | cons x _ ih => simp [ih]
  | swap x y l => simp only [List.sum_cons]; omega
  | trans _ _ ih1 ih2 => rw [ih1, ih2]

theorem numsOf_append (f : Nat) (xs ys : List Row) : numsOf f (xs ++ ys) = numsOf f xs ++ numsOf f ys := by
  simp [numsOf, List.filterMap_append]

theorem strsOf_append (f : Nat) (xs ys : List Row) : strsOf f (xs ++ ys) = strsOf f xs ++ strsOf f ys := by
  simp [strsOf, List.filterMap_append]

/-! ### states represent the rows they consumed -/

/-- sink level: `st` is the aggregator of `m` after exactly the rows `rs` (in any order) -/
def Rep (m : Metric) (st : St) (rs : List Row) : Prop :=
  match m with
  | .countAll => st = .cnt (wrap rs.length)
  | .countField f => st = .cnt (wrap (rs.countP (nonNull · f)))
  | .countUnique f => ∃ vs, st = .uniq vs ∧ vs.Nodup ∧ ∀ x, x ∈ vs ↔ x ∈ rs.map (uval · f)
  | .total f => st = .sum (wrap (numsOf f rs).sum)
  | .avg f => st = .avg (wrap (numsOf f rs).sum) (wrap (numsOf f rs).length)
  | .min f => st = .mn (bestOf ltI (numsOf f rs)) (bestOf ltS (strsOf f rs))
  | .max f => st = .mx (bestOf gtI (numsOf f rs)) (bestOf gtS (strsOf f rs))

/-- partial level (after `snapshot`, closed under `St.merge`): the string side of MIN/MAX only
matters while there is no integer reading -/
def PRep (m : Metric) (st : St) (rs : List Row) : Prop :=
  match m with
  | .min f => ∃ n s, st = .mn n s ∧ n = bestOf ltI (numsOf f rs) ∧ (n = none → s = bestOf ltS (strsOf f rs))
  | .max f => ∃ n s, st = .mx n s ∧ n = bestOf gtI (numsOf f rs) ∧ (n = none → s = bestOf gtS (strsOf f rs))
  | m => Rep m st rs

theorem rep_init (m : Metric) : Rep m (init m) [] := by
  cases m <;> simp [Rep, init, wrap, numsOf, strsOf, bestOf]

theorem numsOf_single_some {r : Row} {f : Nat} {v : Int} (h : numAt r f = some v) : numsOf f [r] = [v] := by
  simp [numsOf, h]

theorem numsOf_single_none {r : Row} {f : Nat} (h : numAt r f = none) : numsOf f [r] = [] := by
  simp [numsOf, h]

theorem rep_update (m : Metric) (st : St) (rs : List Row) (r : Row) (h : Rep m st rs) :
    Rep m (update m r st) (rs ++ [r]) := by
  cases m with
  | countAll =>
    simp only [Rep] at h ⊢; subst h
    simp only [update, List.length_append, List.length_singleton, St.cnt.injEq]
    rw [wrap_add_wrap_left]; congr 1
  | countField f =>
    simp only [Rep] at h ⊢; subst h
    simp only [update, List.countP_append, List.countP_singleton]
    by_cases hn : nonNull r f = true
    · simp only [hn, if_true, St.cnt.injEq]
      rw [wrap_add_wrap_left]; congr 1
    · simp only [hn, Bool.false_eq_true, if_false]
      simp
  | countUnique f =>
    simp only [Rep] at h ⊢
    obtain ⟨vs, rfl, hnd, hmem⟩ := h
    refine ⟨insertU (uval r f) vs, rfl, nodup_insertU hnd, ?_⟩
    intro x
    simp only [mem_insertU, hmem, List.map_append, List.mem_append, List.map_cons, List.map_nil,
      List.mem_singleton]
    exact or_comm
  | total f =>
    simp only [Rep] at h ⊢; subst h
    simp only [update]
    cases hv : numAt r f with
    | some v =>
      simp only [numsOf_append, numsOf_single_some hv, List.sum_append, List.sum_cons, List.sum_nil, St.sum.injEq]
      rw [wrap_add_wrap_left]; congr 1; omega
    | none => simp [numsOf_append, numsOf_single_none hv]
  | avg f =>
    simp only [Rep] at h ⊢; subst h
    simp only [update]
    cases hv : numAt r f with
    | some v =>
      simp only [numsOf_append, numsOf_single_some hv, List.sum_append, List.sum_cons, List.sum_nil,
        List.length_append, List.length_singleton, St.avg.injEq]
      constructor
      · rw [wrap_add_wrap_left]; congr 1; omega
      · rw [wrap_add_wrap_left]; congr 1
    | none => simp [numsOf_append, numsOf_single_none hv]
  | min f =>
    simp only [Rep] at h ⊢; subst h
    simp only [update, numsOf_append, strsOf_append]
    cases hc : cellAt r f with
    | none =>
      have h1 : numsOf f [r] = [] := by simp [numsOf, numAt, hc]
      have h2 : strsOf f [r] = [] := by simp [strsOf, hc]
      simp [h1, h2]
    | some c =>
      cases hn : c.num with
      | some v =>
        have h1 : numsOf f [r] = [v] := by simp [numsOf, numAt, hc, hn]
        have h2 : strsOf f [r] = [] := by simp [strsOf, hc, hn]
        simp [h1, h2, bestOf_snoc, hn]
      | none =>
        have h1 : numsOf f [r] = [] := by simp [numsOf, numAt, hc, hn]
        cases hs : c.str with
        | some x =>
          have h2 : strsOf f [r] = [x] := by simp [strsOf, hc, hn, hs]
          simp [h1, h2, bestOf_snoc, hn, hs]
        | none =>
          have h2 : strsOf f [r] = [] := by simp [strsOf, hc, hn, hs]
          simp [h1, h2, hn, hs]
  | max f =>
    simp only [Rep] at h ⊢; subst h
    simp only [update, numsOf_append, strsOf_append]
    cases hc : cellAt r f with
    | none =>
      have h1 : numsOf f [r] = [] := by simp [numsOf, numAt, hc]
      have h2 : strsOf f [r] = [] := by simp [strsOf, hc]
      simp [h1, h2]
    | some c =>
      cases hn : c.num with
      | some v =>
        have h1 : numsOf f [r] = [v] := by simp [numsOf, numAt, hc, hn]
        have h2 : strsOf f [r] = [] := by simp [strsOf, hc, hn]
        simp [h1, h2, bestOf_snoc, hn]
      | none =>
        have h1 : numsOf f [r] = [] := by simp [numsOf, numAt, hc, hn]
        cases hs : c.str with
        | some x =>
          have h2 : strsOf f [r] = [x] := by simp [strsOf, hc, hn, hs]
          simp [h1, h2, bestOf_snoc, hn, hs]
        | none =>
          have h2 : strsOf f [r] = [] := by simp [strsOf, hc, hn, hs]
          simp [h1, h2, hn, hs]

theorem rep_foldl (m : Metric) (rs : List Row) : ∀ (st : St) (rs0 : List Row), Rep m st rs0 →
    Rep m (rs.foldl (fun s r => update m r s) st) (rs0 ++ rs) := by
  induction rs with
  | nil => intro st rs0 h; simpa using h
  | cons r rs ih =>
    intro st rs0 h
    have := ih (update m r st) (rs0 ++ [r]) (rep_update m st rs0 r h)
    simpa [List.append_assoc] using this

theorem rep_fstate (m : Metric) (rs : List Row) : Rep m (fstate m rs) rs := by
  have := rep_foldl m rs (init m) [] (rep_init m)
  simpa [fstate] using this

theorem fstate_append (m : Metric) (xs ys : List Row) :
    fstate m (xs ++ ys) = ys.foldl (fun s r => update m r s) (fstate m xs) := by
  simp [fstate, List.foldl_append]


theorem bestOf_mem {α : Type} {lt : α → α → Bool} {xs : List α} {y : α} (h : bestOf lt xs = some y) : y ∈ xs := by
  have : ∀ (l : List α) (a : Option α), l.foldl (fun acc x => opick lt acc (some x)) a = some y →
      a = some y ∨ y ∈ l := by
    intro l
    induction l with
    | nil => intro a h; exact Or.inl (by simpa using h)
    | cons x l ih =>
      intro a h
      simp only [List.foldl_cons] at h
      rcases ih _ h with h1 | h1
      · cases a with
        | none => simp [opick] at h1; exact Or.inr (by simp [h1])
        | some a0 =>
          simp only [opick, pick, Option.some.injEq] at h1
          split at h1
          · exact Or.inr (by simp [h1])
          · exact Or.inl (by simp [h1])
      · exact Or.inr (List.mem_cons_of_mem _ h1)
  rcases this xs none h with h1 | h1
  · cases h1
  · exact h1

theorem parseI64_empty : parseI64 "" = none := by decide

theorem numAt_none_of_numsOf_nil {f : Nat} {rs : List Row} (h : numsOf f rs = []) :
    ∀ r ∈ rs, numAt r f = none := by
  intro r hr
  simp only [numsOf, List.filterMap_eq_nil_iff] at h
  exact h r hr

theorem mem_strsOf {f : Nat} {rs : List Row} {y : String} (h : y ∈ strsOf f rs) :
    ∃ r ∈ rs, ∃ c, cellAt r f = some c ∧ c.num = none ∧ c.str = some y := by
  simp only [strsOf, List.mem_filterMap] at h
  obtain ⟨r, hr, hy⟩ := h
  refine ⟨r, hr, ?_⟩
  cases hc : cellAt r f with
  | none => simp [hc] at hy
  | some c =>
    simp only [hc] at hy
    refine ⟨c, rfl, ?_⟩
    cases hn : c.num with
    | none => simp [hn] at hy; exact ⟨rfl, hy⟩
    | some v => simp [hn] at hy

/-- `snapshot` keeps the represented rows when no MIN/MAX cell is blank and the group is not
empty. -/
theorem prep_snapshot (m : Metric) (st : St) (rs : List Row) (h : Rep m st rs)
    (hwf : ∀ f, m.minMaxField = some f → ∀ r ∈ rs, RowWF r)
    (hnb : ∀ f, m.minMaxField = some f → ∀ r ∈ rs, nonNull r f = true) (hne : rs ≠ []) :
    PRep m (snapshot st) rs := by
  have key : ∀ (lt : String → String → Bool) (f : Nat), m.minMaxField = some f →
      numsOf f rs = [] → ∃ y, bestOf lt (strsOf f rs) = some y ∧ parseI64 y = none := by
    intro lt f hf hnil
    obtain ⟨r, hr⟩ := List.exists_mem_of_ne_nil rs hne
    have hnn := hnb f hf r hr
    have hnum := numAt_none_of_numsOf_nil hnil r hr
    have hs : strsOf f rs ≠ [] := by
      unfold nonNull at hnn
      cases hc : cellAt r f with
      | none => simp [hc] at hnn
      | some c =>
        simp only [hc] at hnn
        have hcn : c.num = none := by simpa [numAt, hc] using hnum
        simp only [hcn, Option.isSome_none, Bool.false_or] at hnn
        cases hcs : c.str with
        | none => simp [hcs] at hnn
        | some x =>
          intro hnil'
          have : x ∈ strsOf f rs := by
            simp only [strsOf, List.mem_filterMap]
            exact ⟨r, hr, by simp [hc, hcn, hcs]⟩
          rw [hnil'] at this
          cases this
    cases hb : bestOf lt (strsOf f rs) with
    | none => exact absurd (bestOf_eq_none hb) hs
    | some y =>
      refine ⟨y, rfl, ?_⟩
      obtain ⟨r', hr', c, hc, hcn, hcs⟩ := mem_strsOf (bestOf_mem hb)
      have := hwf f hf r' hr' f c hc y hcs
      rw [hcn] at this
      exact this.symm
  cases m with
  | countAll => simp only [Rep] at h; subst h; simp [PRep, Rep, snapshot]
  | countField f => simp only [Rep] at h; subst h; simp [PRep, Rep, snapshot]
  | countUnique f =>
    obtain ⟨vs, rfl, h2⟩ := h
    exact ⟨vs, rfl, h2⟩
  | total f => simp only [Rep] at h; subst h; simp [PRep, Rep, snapshot]
  | avg f => simp only [Rep] at h; subst h; simp [PRep, Rep, snapshot]
  | min f =>
    simp only [Rep] at h; subst h
    simp only [PRep]
    cases hn : bestOf ltI (numsOf f rs) with
    | some v => exact ⟨some v, none, by simp [snapshot], rfl, by simp⟩
    | none =>
      obtain ⟨y, hy, hp⟩ := key ltS f rfl (bestOf_eq_none hn)
      exact ⟨none, some y, by simp [snapshot, hy, hp], rfl, fun _ => hy.symm⟩
  | max f =>
    simp only [Rep] at h; subst h
    simp only [PRep]
    cases hn : bestOf gtI (numsOf f rs) with
    | some v => exact ⟨some v, none, by simp [snapshot], rfl, by simp⟩
    | none =>
      obtain ⟨y, hy, hp⟩ := key gtS f rfl (bestOf_eq_none hn)
      exact ⟨none, some y, by simp [snapshot, hy, hp], rfl, fun _ => hy.symm⟩

/-- `AggState::merge` of two partial states represents the union of their rows -/
theorem prep_merge (m : Metric) (a b : St) (xs ys : List Row) (ha : PRep m a xs) (hb : PRep m b ys) :
    PRep m (St.merge a b) (xs ++ ys) := by
  cases m with
  | countAll =>
    simp only [PRep, Rep] at ha hb ⊢; subst ha; subst hb
    simp only [St.merge, List.length_append, St.cnt.injEq]
    rw [wrap_add_wrap]; congr 1
  | countField f =>
    simp only [PRep, Rep] at ha hb ⊢; subst ha; subst hb
    simp only [St.merge, List.countP_append, St.cnt.injEq]
    rw [wrap_add_wrap]; congr 1
  | countUnique f =>
    simp only [PRep, Rep] at ha hb ⊢
    obtain ⟨va, rfl, hna, hma⟩ := ha
    obtain ⟨vb, rfl, _, hmb⟩ := hb
    refine ⟨_, rfl, nodup_foldl_insertU vb va hna, ?_⟩
    intro x
    simp only [mem_foldl_insertU, hma, hmb, List.map_append, List.mem_append]
  | total f =>
    simp only [PRep, Rep] at ha hb ⊢; subst ha; subst hb
    simp only [St.merge, numsOf_append, List.sum_append, St.sum.injEq]
    rw [wrap_add_wrap]
  | avg f =>
    simp only [PRep, Rep] at ha hb ⊢; subst ha; subst hb
    simp only [St.merge, numsOf_append, List.sum_append, List.length_append, St.avg.injEq]
    constructor
    · rw [wrap_add_wrap]
    · rw [wrap_add_wrap]; congr 1
  | min f =>
    simp only [PRep] at ha hb ⊢
    obtain ⟨n1, s1, rfl, hn1, hs1⟩ := ha
    obtain ⟨n2, s2, rfl, hn2, hs2⟩ := hb
    refine ⟨_, _, rfl, ?_, ?_⟩
    · rw [numsOf_append, bestOf_append strictTotal_ltI, hn1, hn2]
    · intro hnone
      obtain ⟨h1, h2⟩ := opick_eq_none hnone
      rw [strsOf_append, bestOf_append strictTotal_ltS, hs1 h1, hs2 h2]
  | max f =>
    simp only [PRep] at ha hb ⊢
    obtain ⟨n1, s1, rfl, hn1, hs1⟩ := ha
    obtain ⟨n2, s2, rfl, hn2, hs2⟩ := hb
    refine ⟨_, _, rfl, ?_, ?_⟩
    · rw [numsOf_append, bestOf_append strictTotal_gtI, hn1, hn2]
    · intro hnone
      obtain ⟨h1, h2⟩ := opick_eq_none hnone
      rw [strsOf_append, bestOf_append strictTotal_gtS, hs1 h1, hs2 h2]

theorem numsOf_perm {f : Nat} {xs ys : List Row} (p : xs.Perm ys) : (numsOf f xs).Perm (numsOf f ys) :=
  p.filterMap _

theorem strsOf_perm {f : Nat} {xs ys : List Row} (p : xs.Perm ys) : (strsOf f xs).Perm (strsOf f ys) :=
  p.filterMap _

/-- what a state represents does not depend on the order of the rows -/
theorem prep_perm (m : Metric) (st : St) {xs ys : List Row} (p : xs.Perm ys) (h : PRep m st xs) :
    PRep m st ys := by
  cases m with
  | countAll => simp only [PRep, Rep] at h ⊢; rw [← p.length_eq]; exact h
  | countField f => simp only [PRep, Rep] at h ⊢; rw [← p.countP_eq]; exact h
  | countUnique f =>
    simp only [PRep, Rep] at h ⊢
    obtain ⟨vs, rfl, hn, hm⟩ := h
    exact ⟨vs, rfl, hn, fun x => (hm x).trans (p.map _).mem_iff⟩
  | total f => simp only [PRep, Rep] at h ⊢; rw [← sum_perm (numsOf_perm p)]; exact h
  | avg f =>
    simp only [PRep, Rep] at h ⊢
    rw [← sum_perm (numsOf_perm p), ← (numsOf_perm p).length_eq]; exact h
  | min f =>
    simp only [PRep] at h ⊢
    obtain ⟨n, s, rfl, hn, hs⟩ := h
    exact ⟨n, s, rfl, by rw [hn, bestOf_perm strictTotal_ltI (numsOf_perm p)],
      fun h0 => by rw [hs h0, bestOf_perm strictTotal_ltS (strsOf_perm p)]⟩
  | max f =>
    simp only [PRep] at h ⊢
    obtain ⟨n, s, rfl, hn, hs⟩ := h
    exact ⟨n, s, rfl, by rw [hn, bestOf_perm strictTotal_gtI (numsOf_perm p)],
      fun h0 => by rw [hs h0, bestOf_perm strictTotal_gtS (strsOf_perm p)]⟩

/-- the reported value of a state is the reference fold over the rows it represents -/
theorem out_of_prep (m : Metric) (st : St) (rs : List Row) (h : PRep m st rs) :
    outOf m st = some (spec m rs) := by
  cases m with
  | countAll => simp only [PRep, Rep] at h; subst h; rfl
  | countField f => simp only [PRep, Rep] at h; subst h; rfl
  | countUnique f =>
    simp only [PRep, Rep] at h
    obtain ⟨vs, rfl, hn, hm⟩ := h
    simp only [outOf, spec, Option.some.injEq, Out.int.injEq]
    congr 1
    exact length_eq_of_same_members hn (nodup_distinct _) fun x => (hm x).trans mem_distinct.symm
  | total f => simp only [PRep, Rep] at h; subst h; rfl
  | avg f => simp only [PRep, Rep] at h; subst h; rfl
  | min f =>
    simp only [PRep] at h
    obtain ⟨n, s, rfl, hn, hs⟩ := h
    simp only [outOf, spec]
    subst hn
    cases hb : bestOf ltI (numsOf f rs) with
    | some v => rfl
    | none => simp [hs hb]
  | max f =>
    simp only [PRep] at h
    obtain ⟨n, s, rfl, hn, hs⟩ := h
    simp only [outOf, spec]
    subst hn
    cases hb : bestOf gtI (numsOf f rs) with
    | some v => rfl
    | none => simp [hs hb]

theorem prep_of_rep (m : Metric) (st : St) (rs : List Row) (h : Rep m st rs) : PRep m st rs := by
  cases m <;> simp only [PRep, Rep] at h ⊢ <;> first | exact h | (subst h; exact ⟨_, _, rfl, rfl, fun _ => rfl⟩)

/-- the spec itself does not depend on the order of the rows -/
theorem spec_perm (m : Metric) {xs ys : List Row} (p : xs.Perm ys) : spec m xs = spec m ys := by
  have h1 := out_of_prep m (fstate m xs) xs (prep_of_rep m _ _ (rep_fstate m xs))
  have h2 := out_of_prep m (fstate m xs) ys (prep_perm m _ p (prep_of_rep m _ _ (rep_fstate m xs)))
  rw [h1] at h2
  exact Option.some.inj h2


/-! ### association lists -/

section alist
variable {κ : Type} [DecidableEq κ]

theorem AList.get_upsert (t : AList κ) (k k' : κ) (f : Option (List St) → List St) :
    (t.upsert k f).get k' = if k = k' then some (f (t.get k)) else t.get k' := by
  induction t with
  | nil => simp [AList.upsert, AList.get]
  | cons e t ih =>
    obtain ⟨ke, v⟩ := e
    simp only [AList.upsert]
    by_cases h1 : ke = k
    · subst h1
      by_cases h2 : ke = k' <;> simp [AList.get, h2]
    · simp only [h1, if_false, AList.get]
      by_cases h2 : ke = k'
      · subst h2
        have : ¬ k = ke := fun h => h1 h.symm
        simp [this]
      · simp only [h2, if_false]; exact ih

theorem AList.keys_upsert (t : AList κ) (k : κ) (f : Option (List St) → List St) :
    (t.upsert k f).keys = if k ∈ t.keys then t.keys else t.keys ++ [k] := by
  induction t with
  | nil => simp [AList.upsert, AList.keys]
  | cons e t ih =>
    obtain ⟨ke, v⟩ := e
    simp only [AList.upsert]
    by_cases h1 : ke = k
    · subst h1; simp [AList.keys]
    · have h1' : ¬ k = ke := fun h => h1 h.symm
      simp only [h1, if_false]
      simp only [AList.keys, List.map_cons, List.mem_cons, h1', false_or] at ih ⊢
      rw [ih]
      split <;> simp_all

theorem AList.upsert_of_not_mem (t : AList κ) (k : κ) (f : Option (List St) → List St) (h : k ∉ t.keys) :
    t.upsert k f = t ++ [(k, f none)] := by
  induction t with
  | nil => rfl
  | cons e t ih =>
    obtain ⟨ke, v⟩ := e
    simp only [AList.keys, List.map_cons, List.mem_cons, not_or] at h
    have h1 : ¬ ke = k := fun hh => h.1 hh.symm
    simp only [AList.upsert, h1, if_false, List.cons_append]
    rw [ih h.2]

theorem AList.nodup_keys_upsert (t : AList κ) (k : κ) (f : Option (List St) → List St) (h : t.keys.Nodup) :
    (t.upsert k f).keys.Nodup := by
  rw [AList.keys_upsert]
  split
  · exact h
  · rename_i hk
    rw [List.nodup_append]
    refine ⟨h, by simp, ?_⟩
    intro a ha b hb
    simp at hb; subst hb
    intro hab; subst hab
    exact hk ha

theorem AList.get_eq_none_iff (t : AList κ) (k : κ) : t.get k = none ↔ k ∉ t.keys := by
  induction t with
  | nil => simp [AList.get, AList.keys]
  | cons e t ih =>
    obtain ⟨ke, v⟩ := e
    simp only [AList.get, AList.keys, List.map_cons, List.mem_cons, not_or]
    by_cases h : ke = k
    · simp [h]
    · simp only [h, if_false]
      rw [ih]
      constructor
      · exact fun h2 => ⟨fun hh => h hh.symm, h2⟩
      · exact fun h2 => h2.2

theorem AList.get_of_mem (t : AList κ) (hn : t.keys.Nodup) {k : κ} {v : List St} (h : (k, v) ∈ t) :
    t.get k = some v := by
  induction t with
  | nil => cases h
  | cons e t ih =>
    obtain ⟨ke, ve⟩ := e
    simp only [AList.keys, List.map_cons, List.nodup_cons] at hn
    simp only [List.mem_cons, Prod.mk.injEq] at h
    rcases h with ⟨rfl, rfl⟩ | h
    · simp [AList.get]
    · have : ke ≠ k := by
        intro hh; subst hh
        exact hn.1 (List.mem_map.mpr ⟨(ke, v), h, rfl⟩)
      simp only [AList.get, this, if_false]
      exact ih hn.2 h

/-! ### grouped folds -/

/-- fold items into an association list: `step i cur` is the new value stored under `key i` -/
def gfold {ι : Type} (key : ι → κ) (step : ι → Option (List St) → List St) (t : AList κ) (items : List ι) :
    AList κ :=
  items.foldl (fun t i => t.upsert (key i) (step i)) t

/-- the value a key ends with: the steps of its own items, in order -/
def chain {ι : Type} (step : ι → Option (List St) → List St) (o : Option (List St)) (items : List ι) :
    Option (List St) :=
  items.foldl (fun o i => some (step i o)) o

theorem get_gfold {ι : Type} (key : ι → κ) (step : ι → Option (List St) → List St) (items : List ι) :
    ∀ (t : AList κ) (k : κ),
      (gfold key step t items).get k = chain step (t.get k) (items.filter fun i => key i = k) := by
  induction items with
  | nil => intro t k; rfl
  | cons i items ih =>
    intro t k
    simp only [gfold, List.foldl_cons] at ih ⊢
    rw [ih, AList.get_upsert]
    by_cases h : key i = k
    · simp [h, chain]
    · simp [h]

theorem nodup_keys_gfold {ι : Type} (key : ι → κ) (step : ι → Option (List St) → List St) (items : List ι) :
    ∀ (t : AList κ), t.keys.Nodup → (gfold key step t items).keys.Nodup := by
  induction items with
  | nil => intro t h; exact h
  | cons i items ih =>
    intro t h
    simp only [gfold, List.foldl_cons] at ih ⊢
    exact ih _ (AList.nodup_keys_upsert t _ _ h)

theorem mem_keys_gfold {ι : Type} (key : ι → κ) (step : ι → Option (List St) → List St) (items : List ι) :
    ∀ (t : AList κ) (k : κ), k ∈ (gfold key step t items).keys ↔ k ∈ t.keys ∨ ∃ i ∈ items, key i = k := by
  induction items with
  | nil => intro t k; simp [gfold]
  | cons i items ih =>
    intro t k
    simp only [gfold, List.foldl_cons] at ih ⊢
    rw [ih, AList.keys_upsert]
    by_cases hk : key i ∈ t.keys
    · simp only [hk, if_true, List.mem_cons, exists_eq_or_imp]
      constructor
      · rintro (h | ⟨j, hj, rfl⟩)
        · exact Or.inl h
        · exact Or.inr (Or.inr ⟨j, hj, rfl⟩)
      · rintro (h | rfl | ⟨j, hj, rfl⟩)
        · exact Or.inl h
        · exact Or.inl hk
        · exact Or.inr ⟨j, hj, rfl⟩
    · simp only [hk, if_false, List.mem_append, List.mem_cons, List.not_mem_nil, or_false, exists_eq_or_imp]
      constructor
      · rintro ((h | rfl) | ⟨j, hj, rfl⟩)
        · exact Or.inl h
        · exact Or.inr (Or.inl rfl)
        · exact Or.inr (Or.inr ⟨j, hj, rfl⟩)
      · rintro (h | rfl | ⟨j, hj, rfl⟩)
        · exact Or.inl (Or.inl h)
        · exact Or.inl (Or.inr rfl)
        · exact Or.inr ⟨j, hj, rfl⟩

theorem gfold_map {ι ι' : Type} (h : ι' → ι) (key : ι → κ) (step : ι → Option (List St) → List St)
    (t : AList κ) (items : List ι') :
    gfold key step t (items.map h) = gfold (fun i => key (h i)) (fun i => step (h i)) t items := by
  simp [gfold, List.foldl_map]

end alist

/-! ### the sink -/

/-- the sink's per-row step on the states of the row's group -/
def sstep (p : Plan) (tr : TRow) (o : Option (List St)) : List St :=
  updateAll p.metrics tr.2 (o.getD (p.metrics.map init))

theorem sinkAgg_eq_gfold (p : Plan) (rows : List TRow) :
    sinkAgg p rows = gfold (sinkKey p) (sstep p) [] rows := rfl

theorem updateAll_map (ms : List Metric) (r : Row) (g : Metric → St) :
    updateAll ms r (ms.map g) = ms.map fun m => update m r (g m) := by
  induction ms with
  | nil => rfl
  | cons m ms ih => simp only [updateAll, List.map_cons, List.zipWith_cons_cons] at ih ⊢; rw [ih]

theorem chain_sstep_some (p : Plan) (rows : List TRow) : ∀ (g : Metric → St),
    chain (sstep p) (some (p.metrics.map g)) rows =
      some (p.metrics.map fun m => rows.foldl (fun s tr => update m tr.2 s) (g m)) := by
  induction rows with
  | nil => intro g; rfl
  | cons tr rows ih =>
    intro g
    simp only [chain, List.foldl_cons] at ih ⊢
    simp only [sstep, Option.getD_some, updateAll_map]
    exact ih _

theorem chain_sstep_none (p : Plan) (rows : List TRow) (h : rows ≠ []) :
    chain (sstep p) none rows = some (p.metrics.map fun m => fstate m (rows.map (·.2))) := by
  cases rows with
  | nil => exact absurd rfl h
  | cons tr rows =>
    have := chain_sstep_some p rows (fun m => update m tr.2 (init m))
    have h0 : sstep p tr none = p.metrics.map (fun m => update m tr.2 (init m)) := by
      simp [sstep, updateAll_map]
    simp only [chain, List.foldl_cons] at this ⊢
    rw [h0, this]
    simp [fstate, List.foldl_map]

theorem chain_none_nil {ι : Type} (step : ι → Option (List St) → List St) :
    chain step none ([] : List ι) = none := rfl

theorem chain_ne_none {ι : Type} (step : ι → Option (List St) → List St) (items : List ι) (h : items ≠ []) :
    ∀ o, chain step o items ≠ none := by
  induction items with
  | nil => exact absurd rfl h
  | cons i items ih =>
    intro o
    simp only [chain, List.foldl_cons]
    cases items with
    | nil => simp
    | cons j items => exact ih (by simp) _

/-- rows of the flow `fl` that fall under the sink key `k` -/
def rowsOf (p : Plan) (fl : List TRow) (k : SinkKey) : List TRow := fl.filter fun tr => sinkKey p tr = k

theorem sink_nodup_keys (p : Plan) (fl : List TRow) : (sinkAgg p fl).keys.Nodup :=
  nodup_keys_gfold _ _ fl [] List.nodup_nil

theorem sink_mem_keys (p : Plan) (fl : List TRow) (k : SinkKey) :
    k ∈ (sinkAgg p fl).keys ↔ ∃ tr ∈ fl, sinkKey p tr = k := by
  rw [sinkAgg_eq_gfold, mem_keys_gfold]
  simp [AList.keys]

theorem sink_get (p : Plan) (fl : List TRow) (k : SinkKey) :
    (sinkAgg p fl).get k = chain (sstep p) none (rowsOf p fl k) := by
  rw [sinkAgg_eq_gfold, get_gfold]; rfl

/-- every entry of the sink table: its states are the per-metric folds over its own rows -/
theorem sink_entry (p : Plan) (fl : List TRow) {k : SinkKey} {sts : List St} (h : (k, sts) ∈ sinkAgg p fl) :
    rowsOf p fl k ≠ [] ∧ sts = p.metrics.map fun m => fstate m ((rowsOf p fl k).map (·.2)) := by
  have hg := AList.get_of_mem _ (sink_nodup_keys p fl) h
  rw [sink_get] at hg
  have hne : rowsOf p fl k ≠ [] := by
    intro h0; rw [h0] at hg; cases hg
  refine ⟨hne, ?_⟩
  rw [chain_sstep_none p _ hne] at hg
  exact (Option.some.inj hg).symm

theorem sinkKey_key (p : Plan) (tr : TRow) : (sinkKey p tr).key = rowKey p tr.2 := by
  unfold sinkKey
  split
  · rename_i h
    simp only [Bool.and_eq_true, Bool.not_eq_true', Plan.hasGrouping, Bool.or_eq_false_iff] at h
    obtain ⟨_, hg, hb⟩ := h
    have hg' : p.groupBy = none := by cases hgb : p.groupBy <;> simp_all
    have hb' : p.bucket = none := by cases hbb : p.bucket <;> simp_all
    simp [rowKey, hg', hb']
  · rfl

/-! ### state vectors -/

/-- the state vector `sts` of a group represents the rows `rs`, metric by metric -/
def VRep (p : Plan) (sts : List St) (rs : List Row) : Prop :=
  ∃ g : Metric → St, sts = p.metrics.map g ∧ ∀ m ∈ p.metrics, PRep m (g m) rs

theorem mergeVec_map (ms : List Metric) (g1 g2 : Metric → St) :
    mergeVec (ms.map g1) (ms.map g2) = ms.map fun m => St.merge (g1 m) (g2 m) := by
  simp only [mergeVec, List.length_map, if_true]
  induction ms with
  | nil => rfl
  | cons m ms ih => simp only [List.map_cons, List.zipWith_cons_cons]; rw [ih]

theorem vrep_merge (p : Plan) {a b : List St} {xs ys : List Row} (ha : VRep p a xs) (hb : VRep p b ys) :
    VRep p (mergeVec a b) (xs ++ ys) := by
  obtain ⟨g1, rfl, h1⟩ := ha
  obtain ⟨g2, rfl, h2⟩ := hb
  exact ⟨_, mergeVec_map _ _ _, fun m hm => prep_merge m _ _ _ _ (h1 m hm) (h2 m hm)⟩

theorem vrep_perm (p : Plan) {a : List St} {xs ys : List Row} (pm : xs.Perm ys) (ha : VRep p a xs) :
    VRep p a ys := by
  obtain ⟨g, rfl, h⟩ := ha
  exact ⟨g, rfl, fun m hm => prep_perm m _ pm (h m hm)⟩

theorem mapM_id_some {α β : Type} (l : List α) (f : α → Option β) (h : α → β) (hf : ∀ a ∈ l, f a = some (h a)) :
    (l.map f).mapM id = some (l.map h) := by
  induction l with
  | nil => rfl
  | cons a l ih =>
    simp only [List.map_cons, List.mapM_cons, id]
    rw [hf a (by simp), ih fun b hb => hf b (by simp [hb])]
    rfl

theorem zipWith_map_self {α β γ : Type} (f : α → β → γ) (g : α → β) (l : List α) :
    List.zipWith f l (l.map g) = l.map fun a => f a (g a) := by
  induction l with
  | nil => rfl
  | cons a l ih => simp only [List.map_cons, List.zipWith_cons_cons]; rw [ih]

/-- the reported cells of a state vector are the reference folds -/
theorem vrep_out (p : Plan) {sts : List St} {rs : List Row} (h : VRep p sts rs) :
    outRow p sts = some (p.metrics.map fun m => spec m rs) := by
  obtain ⟨g, rfl, hg⟩ := h
  unfold outRow
  rw [zipWith_map_self]
  exact mapM_id_some _ _ _ fun m hm => out_of_prep m _ _ (hg m hm)

/-! ### partial tables and the coordinator -/

/-- coordinator / `into_partial` step: merge the states `v` into the entry, or insert them -/
def mstep (e : Key × List St) (o : Option (List St)) : List St := mergeOpt o e.2

theorem coordinate_eq_gfold (p : Plan) (partials : List (AList Key)) :
    coordinate p partials = gfold (fun e => wireKey p e.1) mstep [] partials.flatten := by
  simp only [coordinate, gfold, List.foldl_flatten]
  rfl

/-- hypotheses under which a flow's groups survive `snapshot` faithfully: for the fields of
MIN / MAX metrics the cells are as the converter builds them (always true, `tagFlow_wf`) and never
blank. Plans without MIN / MAX satisfy it trivially (`goodFlow_of_no_minmax`). -/
structure GoodFlow (p : Plan) (fl : List TRow) : Prop where
  ok : ∀ m ∈ p.metrics, ∀ f, m.minMaxField = some f → ∀ tr ∈ fl, RowWF tr.2 ∧ nonNull tr.2 f = true

def ORep (p : Plan) (o : Option (List St)) (rs : List Row) : Prop :=
  match o with
  | none => rs = []
  | some sts => VRep p sts rs ∧ rs ≠ []

/-- merging a chain of entries, each representing its own non-empty row list, represents the
concatenation -/
theorem chain_orep {ι : Type} (p : Plan) (entry : ι → List St) (rows : ι → List Row) (items : List ι)
    (hgood : ∀ i ∈ items, VRep p (entry i) (rows i) ∧ rows i ≠ []) :
    ∀ (o : Option (List St)) (rs0 : List Row), ORep p o rs0 →
      ORep p (chain (fun i o => mergeOpt o (entry i)) o items) (rs0 ++ items.flatMap rows) := by
  induction items with
  | nil => intro o rs0 h; simpa [chain] using h
  | cons i items ih =>
    intro o rs0 h
    obtain ⟨hv, hne⟩ := hgood i (by simp)
    simp only [chain, List.foldl_cons, List.flatMap_cons] at ih ⊢
    rw [← List.append_assoc]
    apply ih (fun j hj => hgood j (by simp [hj]))
    cases o with
    | none =>
      simp only [ORep] at h; subst h
      simp only [ORep, mergeOpt, List.nil_append]
      exact ⟨hv, hne⟩
    | some cur =>
      simp only [ORep] at h
      simp only [ORep, mergeOpt]
      exact ⟨vrep_merge p h.1 hv, by simp [hne]⟩

/-- the sink groups of one flow -/
def flowPairs (p : Plan) (fl : List TRow) : List (List TRow × SinkKey) :=
  (sinkAgg p fl).keys.map fun k => (fl, k)

/-- rows of a sink group (tags dropped) -/
def pairRows (p : Plan) (pr : List TRow × SinkKey) : List Row := (rowsOf p pr.1 pr.2).map (·.2)

/-- the snapshotted entry of a sink group -/
def entryOf (p : Plan) (pr : List TRow × SinkKey) : Key × List St :=
  (pr.2.key, p.metrics.map fun m => snapshot (fstate m (pairRows p pr)))

theorem sink_snap_eq (p : Plan) (fl : List TRow) :
    ((sinkAgg p fl).map fun e => (e.1.key, e.2.map snapshot)) = (flowPairs p fl).map (entryOf p) := by
  simp only [flowPairs, AList.keys, List.map_map]
  apply List.map_congr_left
  intro e he
  obtain ⟨k, sts⟩ := e
  obtain ⟨_, hs⟩ := sink_entry p fl he
  simp only [Function.comp, entryOf, pairRows, Prod.mk.injEq, true_and]
  rw [hs, List.map_map]
  rfl

theorem intoPartial_eq_gfold (p : Plan) (fl : List TRow) :
    intoPartial (sinkAgg p fl) =
      gfold (fun pr => pr.2.key) (fun pr => mstep (entryOf p pr)) [] (flowPairs p fl) := by
  have h1 : intoPartial (sinkAgg p fl) =
      gfold (fun e : Key × List St => e.1) mstep []
        ((sinkAgg p fl).map fun e => (e.1.key, e.2.map snapshot)) := by
    simp only [intoPartial, gfold, List.foldl_map]
    rfl
  rw [h1, sink_snap_eq, gfold_map]
  rfl

theorem pairRows_ne_nil (p : Plan) {fl : List TRow} {pr : List TRow × SinkKey}
    (h : pr ∈ flowPairs p fl) : pr.1 = fl ∧ pairRows p pr ≠ [] := by
  simp only [flowPairs, List.mem_map] at h
  obtain ⟨k, hk, rfl⟩ := h
  refine ⟨rfl, ?_⟩
  obtain ⟨tr, htr, hkey⟩ := (sink_mem_keys p fl k).mp hk
  have : tr ∈ rowsOf p fl k := by simp [rowsOf, htr, hkey]
  intro h0
  simp only [pairRows, List.map_eq_nil_iff] at h0
  rw [h0] at this; cases this

theorem entry_vrep (p : Plan) (pr : List TRow × SinkKey) (hg : GoodFlow p pr.1) (hne : pairRows p pr ≠ []) :
    VRep p (entryOf p pr).2 (pairRows p pr) := by
  refine ⟨fun m => snapshot (fstate m (pairRows p pr)), rfl, ?_⟩
  intro m hm
  have hsub : ∀ r ∈ pairRows p pr, ∃ tr ∈ pr.1, tr.2 = r := by
    intro r hr
    simp only [pairRows, rowsOf, List.mem_map, List.mem_filter] at hr
    obtain ⟨tr, ⟨htr, _⟩, rfl⟩ := hr
    exact ⟨tr, htr, rfl⟩
  apply prep_snapshot m _ _ (rep_fstate m _)
  · intro f hf r hr; obtain ⟨tr, htr, rfl⟩ := hsub r hr; exact (hg.ok m hm f hf tr htr).1
  · intro f hf r hr; obtain ⟨tr, htr, rfl⟩ := hsub r hr; exact (hg.ok m hm f hf tr htr).2
  · exact hne

/-- rows of the flow whose (bucket, groups) key is `pk` (tags dropped) -/
def flowRows (p : Plan) (fl : List TRow) (pk : Key) : List Row :=
  (fl.filter fun tr => (sinkKey p tr).key = pk).map (·.2)

/-! ### regrouping rows by key is a permutation -/

theorem flatMap_congr' {α β : Type} (l : List α) (f g : α → List β) (h : ∀ a ∈ l, f a = g a) :
    l.flatMap f = l.flatMap g := by
  induction l with
  | nil => rfl
  | cons a l ih =>
    simp only [List.flatMap_cons]
    rw [h a (by simp), ih fun b hb => h b (by simp [hb])]

theorem flatMap_filter_perm {ρ κ : Type} [DecidableEq κ] (key : ρ → κ) :
    ∀ (rows : List ρ) (ks : List κ), ks.Nodup → (∀ r ∈ rows, key r ∈ ks) →
      (ks.flatMap fun k => rows.filter fun r => key r = k).Perm rows := by
  intro rows
  induction rows with
  | nil => intro ks _ _; simp
  | cons r rs ih =>
    intro ks hn hc
    obtain ⟨a, b, hks⟩ := List.append_of_mem (hc r (by simp))
    have hn' := hn
    rw [hks, List.nodup_append] at hn'
    obtain ⟨_, hnb, hdisj⟩ := hn'
    have hka : ∀ k' ∈ a, key r ≠ k' := fun k' hk' heq => hdisj k' hk' (key r) (by simp) heq.symm
    have hkb : ∀ k' ∈ b, key r ≠ k' := by
      intro k' hk' heq
      rw [List.nodup_cons] at hnb
      exact hnb.1 (heq ▸ hk')
    have ih' := ih ks hn fun r' hr' => hc r' (by simp [hr'])
    rw [hks] at ih' ⊢
    simp only [List.flatMap_append, List.flatMap_cons] at ih' ⊢
    have e1 : (a.flatMap fun k => (r :: rs).filter fun r' => key r' = k) =
        a.flatMap fun k => rs.filter fun r' => key r' = k :=
      flatMap_congr' _ _ _ fun k' hk' => by simp [hka k' hk']
    have e2 : (b.flatMap fun k => (r :: rs).filter fun r' => key r' = k) =
        b.flatMap fun k => rs.filter fun r' => key r' = k :=
      flatMap_congr' _ _ _ fun k' hk' => by simp [hkb k' hk']
    have e3 : ((r :: rs).filter fun r' => key r' = key r) = r :: rs.filter fun r' => key r' = key r := by
      simp
    rw [e1, e2, e3]
    refine (List.perm_middle).trans ?_
    exact List.Perm.cons r ih'

theorem flatMap_filter_perm' {ρ κ : Type} [DecidableEq κ] (key : ρ → κ) (q : κ → Bool)
    (rows : List ρ) (ks : List κ) (hn : ks.Nodup) (hc : ∀ r ∈ rows, key r ∈ ks) :
    ((ks.filter q).flatMap fun k => rows.filter fun r => key r = k).Perm
      (rows.filter fun r => q (key r)) := by
  have h1 := flatMap_filter_perm key (rows.filter fun r => q (key r)) (ks.filter q)
    (hn.sublist List.filter_sublist)
    (by
      intro r hr
      simp only [List.mem_filter] at hr ⊢
      exact ⟨hc r hr.1, hr.2⟩)
  have h2 : ((ks.filter q).flatMap fun k => (rows.filter fun r => q (key r)).filter fun r => key r = k) =
      (ks.filter q).flatMap fun k => rows.filter fun r => key r = k := by
    apply flatMap_congr'
    intro k hk
    simp only [List.mem_filter] at hk
    rw [List.filter_filter]
    apply List.filter_congr
    intro r _
    by_cases h : key r = k
    · simp [h, hk.2]
    · simp [h]
  rw [h2] at h1
  exact h1

theorem partial_nodup_keys (p : Plan) (fl : List TRow) : (intoPartial (sinkAgg p fl)).keys.Nodup := by
  rw [intoPartial_eq_gfold]
  exact nodup_keys_gfold _ _ _ [] List.nodup_nil

theorem partial_mem_keys (p : Plan) (fl : List TRow) (pk : Key) :
    pk ∈ (intoPartial (sinkAgg p fl)).keys ↔ ∃ tr ∈ fl, (sinkKey p tr).key = pk := by
  rw [intoPartial_eq_gfold, mem_keys_gfold]
  have h0 : ¬ pk ∈ AList.keys ([] : AList Key) := by simp [AList.keys]
  constructor
  · rintro (h | ⟨pr, hpr, rfl⟩)
    · exact absurd h h0
    · simp only [flowPairs, List.mem_map] at hpr
      obtain ⟨k, hk, rfl⟩ := hpr
      obtain ⟨tr, htr, h⟩ := (sink_mem_keys p fl k).mp hk
      exact ⟨tr, htr, by rw [h]⟩
  · rintro ⟨tr, htr, rfl⟩
    refine Or.inr ⟨(fl, sinkKey p tr), ?_, rfl⟩
    simp only [flowPairs, List.mem_map]
    exact ⟨_, (sink_mem_keys p fl _).mpr ⟨tr, htr, rfl⟩, rfl⟩

/-- every entry of a flow's partial table represents exactly the flow's rows under its key —
also when two sink groups (columnar and row path) were merged into it -/
theorem partial_entry (p : Plan) (fl : List TRow) (hg : GoodFlow p fl) {pk : Key} {sts : List St}
    (h : (pk, sts) ∈ intoPartial (sinkAgg p fl)) :
    VRep p sts (flowRows p fl pk) ∧ flowRows p fl pk ≠ [] := by
  have hget := AList.get_of_mem _ (partial_nodup_keys p fl) h
  rw [intoPartial_eq_gfold, get_gfold] at hget
  have hgood : ∀ pr ∈ (flowPairs p fl).filter (fun pr => pr.2.key = pk),
      VRep p (entryOf p pr).2 (pairRows p pr) ∧ pairRows p pr ≠ [] := by
    intro pr hpr
    obtain ⟨h1, h2⟩ := pairRows_ne_nil p (List.mem_filter.mp hpr).1
    exact ⟨entry_vrep p pr (h1 ▸ hg) h2, h2⟩
  have ho := chain_orep p (fun pr => (entryOf p pr).2) (pairRows p) _ hgood none [] rfl
  have hc : chain (fun i o => mergeOpt o (entryOf p i).2) none
      ((flowPairs p fl).filter fun pr => pr.2.key = pk) = some sts := hget
  rw [hc] at ho
  simp only [ORep, List.nil_append] at ho
  have hperm : (((flowPairs p fl).filter fun pr => pr.2.key = pk).flatMap (pairRows p)).Perm
      (flowRows p fl pk) := by
    simp only [flowPairs, List.filter_map, List.flatMap_map, flowRows]
    have h1 := flatMap_filter_perm' (sinkKey p) (fun k => decide (k.key = pk)) fl
      (sinkAgg p fl).keys (sink_nodup_keys p fl)
      (fun tr htr => (sink_mem_keys p fl _).mpr ⟨tr, htr, rfl⟩)
    have h2 := h1.map (fun tr : TRow => tr.2)
    rw [List.map_flatMap] at h2
    exact h2
  refine ⟨vrep_perm p hperm ho.1, ?_⟩
  intro h0
  rw [h0] at hperm
  exact ho.2 hperm.eq_nil

/-- the partial-table entries of all flows, in the order the coordinator sees them -/
def itemsOf (p : Plan) (flows : List (List TRow)) : List (List TRow × (Key × List St)) :=
  flows.flatMap fun fl => (intoPartial (sinkAgg p fl)).map fun e => (fl, e)

theorem runFlows_get (p : Plan) (flows : List (List TRow)) (fk : Key) :
    (runFlows p flows).get fk =
      chain (fun it o => mergeOpt o it.2.2) none
        ((itemsOf p flows).filter fun it => wireKey p it.2.1 = fk) := by
  unfold runFlows
  have h1 : (flows.map fun fl => intoPartial (sinkAgg p fl)).flatten = (itemsOf p flows).map (·.2) := by
    rw [itemsOf, List.map_flatMap, List.flatMap_def]
    congr 1
    apply List.map_congr_left
    intro fl _
    rw [List.map_map]
    have : ((fun x : List TRow × (Key × List St) => x.2) ∘ fun e => (fl, e)) = id := rfl
    rw [this, List.map_id]
  rw [coordinate_eq_gfold, h1, gfold_map, get_gfold]
  rfl

theorem items_rows_perm (p : Plan) (fk : Key) (flows : List (List TRow)) :
    (((itemsOf p flows).filter fun it => wireKey p it.2.1 = fk).flatMap
        fun it => flowRows p it.1 it.2.1).Perm
      ((flows.flatten.map (·.2)).filter fun r => finalKey p r = fk) := by
  induction flows with
  | nil => simp [itemsOf]
  | cons fl fls ih =>
    simp only [itemsOf, List.flatMap_cons, List.filter_append, List.flatMap_append, List.flatten_cons,
      List.map_append] at ih ⊢
    refine List.Perm.append ?_ ih
    rw [List.filter_map, List.flatMap_map]
    have h1 := flatMap_filter_perm' (fun tr => (sinkKey p tr).key) (fun k => decide (wireKey p k = fk)) fl
      (intoPartial (sinkAgg p fl)).keys (partial_nodup_keys p fl)
      (fun tr htr => (partial_mem_keys p fl _).mpr ⟨tr, htr, rfl⟩)
    have h2 := h1.map (fun tr : TRow => tr.2)
    rw [List.map_flatMap] at h2
    rw [List.filter_map]
    have e : (fl.filter fun tr => decide (wireKey p (sinkKey p tr).key = fk)) =
        fl.filter ((fun r => decide (finalKey p r = fk)) ∘ fun tr : TRow => tr.2) := by
      apply List.filter_congr
      intro tr _
      simp only [Function.comp, finalKey, sinkKey_key]
      congr
    rw [e] at h2
    simp only [AList.keys, List.filter_map, List.flatMap_map] at h2
    exact h2

/-- **Main table-level result.** For flows whose MIN/MAX cells are never blank, the coordinator's
entry for a final key is present exactly when some row has that key, and its reported cells are
the reference folds over those rows — whatever the split over flows, batches and sink paths. -/
theorem runFlows_spec (p : Plan) (flows : List (List TRow))
    (hg : ∀ fl ∈ flows, GoodFlow p fl) (fk : Key) :
    match (runFlows p flows).get fk with
    | none => ((flows.flatten.map (·.2)).filter fun r => finalKey p r = fk) = []
    | some sts =>
      ((flows.flatten.map (·.2)).filter fun r => finalKey p r = fk) ≠ [] ∧
        outRow p sts = some (p.metrics.map fun m =>
          spec m ((flows.flatten.map (·.2)).filter fun r => finalKey p r = fk)) := by
  rw [runFlows_get p flows fk]
  have hgood : ∀ it ∈ (itemsOf p flows).filter (fun it => wireKey p it.2.1 = fk),
      VRep p it.2.2 (flowRows p it.1 it.2.1) ∧ flowRows p it.1 it.2.1 ≠ [] := by
    intro it hit
    have hmem := (List.mem_filter.mp hit).1
    simp only [itemsOf, List.mem_flatMap, List.mem_map] at hmem
    obtain ⟨fl, hfl, e, he, rfl⟩ := hmem
    exact partial_entry p fl (hg fl hfl) he
  have ho := chain_orep p (fun it : List TRow × (Key × List St) => it.2.2)
    (fun it => flowRows p it.1 it.2.1) _ hgood none [] rfl
  have hp := items_rows_perm p fk flows
  simp only [List.nil_append] at ho
  cases hc : chain (fun it o => mergeOpt o it.2.2) none
      ((itemsOf p flows).filter fun it => wireKey p it.2.1 = fk) with
  | none =>
    rw [hc] at ho
    simp only [ORep] at ho
    rw [ho] at hp
    simp only []
    exact hp.symm.eq_nil
  | some sts =>
    rw [hc] at ho
    simp only [ORep] at ho
    simp only []
    refine ⟨?_, vrep_out p (vrep_perm p hp ho.1)⟩
    intro h0
    rw [h0] at hp
    exact ho.2 hp.eq_nil

/-! ### canonical form of the final table, hypotheses that always hold, LIMIT -/

/-- canonical form of the final table: the reported cells under a final key (a finite map) -/
def reportAt (p : Plan) (t : AList Key) (fk : Key) : Option (List Out) :=
  if retained p fk then (t.get fk).bind (outRow p) else none

/-- all rows that reach the aggregators (tags dropped) -/
def allRows (flows : List (List TRow)) : List Row := flows.flatten.map (·.2)

/-- the rows of a final group -/
def groupRows (p : Plan) (flows : List (List TRow)) (fk : Key) : List Row :=
  (allRows flows).filter fun r => finalKey p r = fk

theorem reportAt_spec (p : Plan) (flows : List (List TRow))
    (hg : ∀ fl ∈ flows, GoodFlow p fl) (fk : Key) :
    reportAt p (runFlows p flows) fk =
      if retained p fk && !(groupRows p flows fk).isEmpty then
        some (p.metrics.map fun m => spec m (groupRows p flows fk))
      else none := by
  have h := runFlows_spec p flows hg fk
  unfold reportAt groupRows allRows
  cases hr : retained p fk
  · simp
  · simp only [if_true, Bool.true_and]
    cases hget : (runFlows p flows).get fk with
    | none =>
      rw [hget] at h
      simp only [] at h
      rw [h]
      simp
    | some sts =>
      rw [hget] at h
      simp only [] at h
      obtain ⟨hne, hout⟩ := h
      have : (List.filter (fun r => decide (finalKey p r = fk)) (List.map (fun x => x.snd) flows.flatten)).isEmpty = false := by
        cases hl : List.filter (fun r => decide (finalKey p r = fk)) (List.map (fun x => x.snd) flows.flatten) with
        | nil => exact absurd hl hne
        | cons _ _ => rfl
      simp only [Option.bind_some, hout, this, Bool.not_false, if_true]

theorem toCell_wf (typed : Bool) (v : Scalar) : (toCell typed v).WF := by
  intro s hs
  unfold toCell at hs ⊢
  cases typed
  · simp only [Bool.false_eq_true, if_false, Option.some.injEq] at hs ⊢
    rw [hs]
  · simp only [if_true] at hs
    cases v <;> simp at hs

theorem convertRow_wf (tys : List Bool) (r : List Scalar) : RowWF (convertRow tys r) := by
  intro f c hc
  unfold cellAt convertRow at hc
  by_cases hf : f < tys.length
  · simp [List.getD, hf] at hc
    rw [← hc]; exact toCell_wf _ _
  · simp [List.getD, hf] at hc

theorem tagFlow_wf (p : Plan) (w : Nat) (batches : List (List (List Scalar))) :
    ∀ tr ∈ tagFlow p w batches, RowWF tr.2 := by
  intro tr htr
  simp only [tagFlow, tagBatch, convertBatch, List.mem_flatMap, List.mem_map] at htr
  obtain ⟨b, _, _, ⟨r, _, rfl⟩, rfl⟩ := htr
  exact convertRow_wf _ _

/-- a plan without MIN / MAX needs no hypothesis on the data -/
theorem goodFlow_of_no_minmax (p : Plan) (fl : List TRow) (h : ∀ m ∈ p.metrics, m.minMaxField = none) :
    GoodFlow p fl :=
  ⟨fun m hm f hf => by rw [h m hm] at hf; cases hf⟩

theorem limitRows_length {α : Type} (off lim : Option Nat) (rows : List α) :
    (limitRows off lim rows).length =
      match lim with
      | some l => min l (rows.length - off.getD 0)
      | none => rows.length - off.getD 0 := by
  cases off <;> cases lim <;> simp [limitRows, List.length_take, List.length_drop]

theorem limitRows_sublist {α : Type} (off lim : Option Nat) (rows : List α) :
    (limitRows off lim rows).Sublist rows := by
  cases off <;> cases lim <;> simp only [limitRows]
  · exact List.Sublist.refl _
  · exact List.take_sublist _ _
  · exact List.drop_sublist _ _
  · exact (List.take_sublist _ _).trans (List.drop_sublist _ _)

/-! ### the listed final table and the reported (LIMIT / OFFSET) groups -/

theorem mapM_some_mem {α β : Type} (f : α → Option β) : ∀ (l : List α) (rs : List β),
    l.mapM f = some rs → ∀ r ∈ rs, ∃ a ∈ l, f a = some r := by
  intro l
  induction l with
  | nil => intro rs h r hr; simp at h; subst h; cases hr
  | cons a l ih =>
    intro rs h r hr
    simp only [List.mapM_cons] at h
    cases hfa : f a with
    | none => rw [hfa] at h; cases h
    | some b =>
      rw [hfa] at h
      cases hl : l.mapM f with
      | none => rw [hl] at h; cases h
      | some bs =>
        rw [hl] at h
        have : rs = b :: bs := by
          simpa [bind, Option.bind, pure] using h.symm
        subst this
        simp only [List.mem_cons] at hr
        rcases hr with rfl | hr
        · exact ⟨a, by simp, hfa⟩
        · obtain ⟨a', ha', hf'⟩ := ih bs hl r hr
          exact ⟨a', by simp [ha'], hf'⟩

theorem runFlows_nodup_keys (p : Plan) (flows : List (List TRow)) : (runFlows p flows).keys.Nodup := by
  unfold runFlows
  rw [coordinate_eq_gfold]
  exact nodup_keys_gfold _ _ _ [] List.nodup_nil

/-- every row of the listed final table is the canonical report of its key -/
theorem finalTable_report (p : Plan) (t : AList Key) (hn : t.keys.Nodup) {rows : List (Key × List Out)}
    (h : finalTable p t = some rows) : ∀ e ∈ rows, reportAt p t e.1 = some e.2 := by
  intro e he
  obtain ⟨a, ha, hfa⟩ := mapM_some_mem _ _ _ h e he
  obtain ⟨k, sts⟩ := a
  simp only [List.mem_filter] at ha
  cases ho : outRow p sts with
  | none => simp [ho] at hfa
  | some o =>
    simp only [ho, Option.map_some, Option.some.injEq] at hfa
    subst hfa
    simp only [reportAt, ha.2, if_true, AList.get_of_mem t hn ha.1, Option.bind_some, ho]

/-! ### `AggState::merge` as a commutative semigroup (COUNT UNIQUE up to set equality) -/

def St.kind : St → Nat
  | .cnt _ => 0
  | .uniq _ => 1
  | .sum _ => 2
  | .avg _ _ => 3
  | .mn _ _ => 4
  | .mx _ _ => 5

/-- equality of states, the COUNT UNIQUE value list read as a set -/
def St.Equiv : St → St → Prop
  | .uniq a, .uniq b => ∀ x, x ∈ a ↔ x ∈ b
  | a, b => a = b

theorem St.merge_comm (a b : St) (h : a.kind = b.kind) : (St.merge a b).Equiv (St.merge b a) := by
  cases a <;> cases b <;> simp only [St.kind] at h <;> try (exact absurd h (by decide))
  · simp only [St.merge, St.Equiv, Int.add_comm]
  · simp only [St.merge, St.Equiv]
    intro x; simp only [mem_foldl_insertU]; exact or_comm
  · simp only [St.merge, St.Equiv, Int.add_comm]
  · rename_i s1 c1 s2 c2
    simp only [St.merge, St.Equiv, Int.add_comm s1 s2, Int.add_comm c1 c2]
  · simp only [St.merge, St.Equiv, opick_comm strictTotal_ltI, opick_comm strictTotal_ltS]
  · simp only [St.merge, St.Equiv, opick_comm strictTotal_gtI, opick_comm strictTotal_gtS]

theorem St.merge_assoc (a b c : St) (h1 : a.kind = b.kind) (h2 : b.kind = c.kind) :
    (St.merge (St.merge a b) c).Equiv (St.merge a (St.merge b c)) := by
  cases a <;> cases b <;> simp only [St.kind] at h1 <;> try (exact absurd h1 (by decide))
  all_goals (cases c <;> simp only [St.kind] at h2 <;> try (exact absurd h2 (by decide)))
  · simp only [St.merge, St.Equiv, St.cnt.injEq]; unfold wrap; omega
  · simp only [St.merge, St.Equiv]
    intro x; simp only [mem_foldl_insertU]; exact or_assoc
  · simp only [St.merge, St.Equiv, St.sum.injEq]; unfold wrap; omega
  · simp only [St.merge, St.Equiv, St.avg.injEq]; unfold wrap; omega
  · simp only [St.merge, St.Equiv, opick_assoc strictTotal_ltI, opick_assoc strictTotal_ltS]
  · simp only [St.merge, St.Equiv, opick_assoc strictTotal_gtI, opick_assoc strictTotal_gtS]

/-- duplicate-free value list (`HashSet`) -/
def St.WF : St → Prop
  | .uniq vs => vs.Nodup
  | _ => True

theorem St.wf_merge (a b : St) (ha : a.WF) : (St.merge a b).WF := by
  cases a <;> cases b <;> simp only [St.merge, St.WF] at ha ⊢ <;>
    first | exact nodup_foldl_insertU _ _ ha | exact ha

/-- equivalent states report the same value -/
theorem St.out_congr (m : Metric) (a b : St) (h : a.Equiv b) (ha : a.WF) (hb : b.WF) :
    outOf m a = outOf m b := by
  cases a <;> cases b <;> simp only [St.Equiv] at h <;> try (rw [h])
  all_goals try (first | cases h | (injection h with h1 h2; subst h1; subst h2))
  rename_i va vb
  cases m <;> simp only [outOf]
  simp only [St.WF] at ha hb
  rw [length_eq_of_same_members ha hb h]

end Snel.Agg
