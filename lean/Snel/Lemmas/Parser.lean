import Snel.Model.ParserPrint
/-! Helper lemmas for C17: combinator laws, terminals on printed text, the expression round trip. -/
set_option linter.unusedSimpArgs false
set_option linter.unusedVariables false
namespace Snel.Parser
open P

/-! ## combinators -/
@[simp] theorem bind_apply (p : P α) (f : α → P β) (s : Str) :
    (p >>= f) s = (match p s with | .ok a r => f a r | .fail => .fail | .panic => .panic | .oof => .oof) := rfl
@[simp] theorem pure_apply (a : α) (s : Str) : (Pure.pure a : P α) s = .ok a s := rfl
@[simp] theorem ppure_apply (a : α) (s : Str) : (P.pure a : P α) s = .ok a s := rfl
@[simp] theorem orElse_apply (p q : P α) (s : Str) :
    (p <|> q) s = (match p s with | .fail => q s | r => r) := rfl
@[simp] theorem failP_apply (s : Str) : (failP : P α) s = .fail := rfl
@[simp] theorem oofP_apply (s : Str) : (oofP : P α) s = .oof := rfl

/-- head of the remaining input satisfies `p` (or the input is empty) -/
def HeadAll (p : Char → Bool) (s : Str) : Prop := ∀ c ∈ s.head?, p c = true

theorem headAll_nil (p : Char → Bool) : HeadAll p [] := by simp [HeadAll]
theorem headAll_cons (p : Char → Bool) (c : Char) (r : Str) : HeadAll p (c :: r) ↔ p c = true := by
  simp [HeadAll]

theorem takeWhile_append_stop (p : Char → Bool) (a r : Str) (ha : a.all p = true)
    (hr : HeadAll (fun c => !p c) r) : (a ++ r).takeWhile p = a := by
  induction a with
  | nil =>
    cases r with
    | nil => rfl
    | cons c r => simp [HeadAll] at hr; simp [List.takeWhile, hr]
  | cons x xs ih =>
    simp at ha
    simp [List.takeWhile, ha.1]
    exact ih (by simpa using ha.2)

theorem dropWhile_append_stop (p : Char → Bool) (a r : Str) (ha : a.all p = true)
    (hr : HeadAll (fun c => !p c) r) : (a ++ r).dropWhile p = r := by
  induction a with
  | nil =>
    cases r with
    | nil => rfl
    | cons c r => simp [HeadAll] at hr; simp [List.dropWhile, hr]
  | cons x xs ih =>
    simp at ha
    simp [List.dropWhile, ha.1]
    exact ih (by simpa using ha.2)

/-! ## terminals -/
theorem ws_apply (s : Str) : ws s = .ok () (s.dropWhile isWs) := rfl

theorem ws_noop (s : Str) (h : HeadAll (fun c => !isWs c) s) : ws s = .ok () s := by
  have := dropWhile_append_stop isWs [] s (by simp) h
  simp at this
  simp [ws_apply, this]

theorem ws_space (r : Str) (h : HeadAll (fun c => !isWs c) r) : ws (' ' :: r) = .ok () r := by
  have := dropWhile_append_stop isWs [' '] r (by decide) h
  rw [ws_apply]
  exact congrArg _ this

theorem kw_ok (k : String) (sp rest : Str) (h : Spells sp k) (hr : HeadAll (fun c => !isLetter c) rest) :
    kw k.toList (sp ++ rest) = .ok () rest := by
  obtain ⟨hne, hall, heq⟩ := h
  simp only [kw, takeWhile_append_stop isLetter sp rest hall hr, dropWhile_append_stop isLetter sp rest hall hr, heq]
  cases sp with
  | nil => exact absurd rfl hne
  | cons c cs => simp

theorem kw_fail (k : Str) (s : Str) (h : eqCi (letterRun s) k = false) : kw k s = .fail := by
  simp [kw, letterRun] at *
  simp [h]

theorem ident_ok (i rest : Str) (h : WFIdent i) (hr : HeadAll (fun c => !isIdentChar c) rest) :
    ident (i ++ rest) = .ok i rest := by
  obtain ⟨c, cs, rfl, hc, hcs⟩ := h
  simp [ident, identWith, hc, takeWhile_append_stop isIdentChar cs rest hcs hr,
    dropWhile_append_stop isIdentChar cs rest hcs hr]

theorem lit_cons_ok (c : Char) (r : Str) : lit [c] (c :: r) = .ok () r := by
  simp [lit, stripPrefix]

theorem lit_fail_head (c : Char) (s : Str) (h : HeadAll (fun x => x != c) s) : lit [c] s = .fail := by
  cases s with
  | nil => simp [lit, stripPrefix]
  | cons x r =>
    simp [HeadAll] at h
    have : (c == x) = false := by
      rw [beq_eq_false_iff_ne]
      exact fun e => h e.symm
    simp [lit, stripPrefix, this]


/-! ## numbers -/
theorem digitChar_props : ∀ d, d < 10 → (digitVal (digitChar d) = d ∧ isDigit (digitChar d) = true) := by decide

theorem natOfDigits_snoc (a : Str) (c : Char) : natOfDigits (a ++ [c]) = 10 * natOfDigits a + digitVal c := by
  simp [natOfDigits, List.foldl_append]

theorem natDigitsF_spec : ∀ f n, n < 10 ^ (f + 1) →
    natOfDigits (natDigitsF (f + 1) n) = n ∧ (natDigitsF (f + 1) n).all isDigit = true ∧ natDigitsF (f + 1) n ≠ [] := by
  intro f
  induction f with
  | zero =>
    intro n hn
    have hn' : n < 10 := by simpa using hn
    have := digitChar_props n hn'
    simp [natDigitsF, hn', natOfDigits, this.1, this.2]
  | succ f ih =>
    intro n hn
    by_cases h10 : n < 10
    · have := digitChar_props n h10
      simp [natDigitsF, h10, natOfDigits, this.1, this.2]
    · have hq : n / 10 < 10 ^ (f + 1) := by
        rw [Nat.div_lt_iff_lt_mul (by decide)]
        rw [Nat.pow_succ] at hn
        exact hn
      obtain ⟨h1, h2, h3⟩ := ih (n / 10) hq
      have hd := digitChar_props (n % 10) (Nat.mod_lt _ (by decide))
      rw [natDigitsF]
      simp only [h10, if_false]
      refine ⟨?_, ?_, ?_⟩
      · rw [natOfDigits_snoc, h1, hd.1]; omega
      · simp [List.all_append, h2, hd.2]
      · simp

theorem natDigits_spec (n : Nat) :
    natOfDigits (natDigits n) = n ∧ (natDigits n).all isDigit = true ∧ natDigits n ≠ [] := by
  apply natDigitsF_spec
  calc n < 10 ^ n := Nat.lt_pow_self (by decide)
    _ ≤ 10 ^ (n + 1) := Nat.pow_le_pow_right (by decide) (by omega)

/-! ## more terminals -/
theorem isIdentChar_dot : isIdentChar '.' = false := by decide

theorem field_ok (f rest : Str) (h : WFFieldShape f)
    (hr : HeadAll (fun c => !isIdentChar c && c != '.') rest) :
    field (f ++ rest) = .ok f rest := by
  have hr1 : HeadAll (fun c => !isIdentChar c) rest := by
    intro c hc; have := hr c hc; simp at this ⊢; exact this.1
  have hr2 : HeadAll (fun c => c != '.') rest := by
    intro c hc; have := hr c hc; simp at this ⊢; exact this.2
  rcases h with h | ⟨i, j, rfl, hi, hj⟩
  · simp [field, ident_ok f rest h hr1, lit_fail_head '.' rest hr2]
  · have h1 : ident (i ++ '.' :: (j ++ rest)) = .ok i ('.' :: (j ++ rest)) :=
      ident_ok i ('.' :: (j ++ rest)) hi (by simp [HeadAll, isIdentChar_dot])
    simp [field, h1, lit_cons_ok, ident_ok j rest hj hr1]

theorem stringLit_ok (s rest : Str) (h : s.all notQuote = true) :
    stringLit (quote s ++ rest) = .ok s rest := by
  have hq : HeadAll (fun c => !notQuote c) ('"' :: rest) := by simp [HeadAll, notQuote]
  have h1 := takeWhile_append_stop notQuote s ('"' :: rest) h hq
  have h2 := dropWhile_append_stop notQuote s ('"' :: rest) h hq
  simp [stringLit, quote, h1, h2]

theorem stringLit_fail (s : Str) (h : HeadAll (fun c => c != '"') s) : stringLit s = .fail := by
  cases s with
  | nil => rfl
  | cons c r =>
    simp [HeadAll] at h
    simp [stringLit, h]


/-! ## number literals -/
@[simp] theorem opt_apply (p : P α) (s : Str) :
    opt p s = (match p s with | .ok a r => .ok (some a) r | .fail => .ok none s | .panic => .panic | .oof => .oof) := rfl

theorem digits1_ok (ds rest : Str) (hd : ds.all isDigit = true) (hne : ds ≠ [])
    (hr : HeadAll (fun c => !isDigit c) rest) : digits1 (ds ++ rest) = .ok ds rest := by
  simp only [digits1, takeWhile_append_stop isDigit ds rest hd hr, dropWhile_append_stop isDigit ds rest hd hr]
  cases ds with
  | nil => exact absurd rfl hne
  | cons c cs => simp

theorem head_digit_ne (ds rest : Str) (hd : ds.all isDigit = true) (hne : ds ≠ []) (x : Char)
    (hx : isDigit x = false) : HeadAll (fun c => c != x) (ds ++ rest) := by
  cases ds with
  | nil => exact absurd rfl hne
  | cons c cs =>
    simp at hd
    simp [HeadAll]
    intro e
    rw [e] at hd
    rw [hx] at hd
    exact absurd hd.1 (by decide)

theorem integerTok_pos (ds rest : Str) (hd : ds.all isDigit = true) (hne : ds ≠ [])
    (hr : HeadAll (fun c => !isDigit c) rest) : integerTok (ds ++ rest) = .ok (false, ds) rest := by
  have h1 := lit_fail_head '-' (ds ++ rest) (head_digit_ne ds rest hd hne '-' (by decide))
  simp [integerTok, h1, digits1_ok ds rest hd hne hr]

theorem integerTok_neg (ds rest : Str) (hd : ds.all isDigit = true) (hne : ds ≠ [])
    (hr : HeadAll (fun c => !isDigit c) rest) : integerTok ('-' :: (ds ++ rest)) = .ok (true, ds) rest := by
  simp [integerTok, lit_cons_ok, digits1_ok ds rest hd hne hr]

/-- what must follow a printed value / field: not a digit, not '.', not an identifier character -/
def endTok (c : Char) : Bool := !isDigit c && c != '.' && !isIdentChar c

theorem endTok_parts (rest : Str) (h : HeadAll endTok rest) :
    HeadAll (fun c => !isDigit c) rest ∧ HeadAll (fun c => c != '.') rest ∧
    HeadAll (fun c => !isIdentChar c && c != '.') rest := by
  refine ⟨?_, ?_, ?_⟩ <;> intro c hc <;> have := h c hc <;> simp [endTok] at this ⊢ <;> simp [this]

theorem numberP_int (S : Sites) (i : Int) (rest : Str)
    (hi : -(Gen.C17.i64Max + 1 : Int) ≤ i ∧ i ≤ Gen.C17.i64Max) (hr : HeadAll endTok rest) :
    numberP S (printInt i ++ rest) = .ok (.int i) rest := by
  obtain ⟨hr1, hr2, _⟩ := endTok_parts rest hr
  obtain ⟨hv, hd, hne⟩ := natDigits_spec i.natAbs
  have hdot := lit_fail_head '.' rest hr2
  by_cases hneg : i < 0
  · have hc : convI64 true (natDigits i.natAbs) = some i := by
      simp only [convI64, hv, if_true]
      have : i.natAbs ≤ Gen.C17.i64Max + 1 := by unfold Gen.C17.i64Max at *; omega
      simp only [this, if_true]
      congr 1; omega
    simp [numberP, printInt, hneg, integerTok_neg _ rest hd hne hr1, hdot, hc]
  · have hc : convI64 false (natDigits i.natAbs) = some i := by
      simp only [convI64, hv]
      have : i.natAbs ≤ Gen.C17.i64Max := by unfold Gen.C17.i64Max at *; omega
      simp [this]
      omega
    simp [numberP, printInt, hneg, integerTok_pos _ rest hd hne hr1, hdot, hc]


theorem numberP_float (S : Sites) (b : Nat) (rest : Str) (hw : WFValue (.float b)) (hr : HeadAll endTok rest) :
    numberP S (printF64 b ++ rest) = .ok (.float b) rest := by
  obtain ⟨hr1, _, _⟩ := endTok_parts rest hr
  obtain ⟨_, hconv, hine, hid, hfne, hfd⟩ := hw
  have hdotrest : HeadAll (fun c => !isDigit c) ('.' :: ((f64Parts b).2.2 ++ rest)) := by
    simp [HeadAll]; decide
  have hfp := digits1_ok (f64Parts b).2.2 rest hfd hfne hr1
  by_cases hng : (f64Parts b).1 = true
  · have h1 := integerTok_neg (f64Parts b).2.1 ('.' :: ((f64Parts b).2.2 ++ rest)) hid hine hdotrest
    rw [hng] at hconv
    simp [numberP, printF64, hng, h1, lit_cons_ok, hfp, hconv]
  · have hng' : (f64Parts b).1 = false := by simpa using hng
    have h1 := integerTok_pos (f64Parts b).2.1 ('.' :: ((f64Parts b).2.2 ++ rest)) hid hine hdotrest
    rw [hng'] at hconv
    simp [numberP, printF64, hng', h1, lit_cons_ok, hfp, hconv]

theorem printInt_head (i : Int) (rest : Str) : HeadAll (fun c => c != '"') (printInt i ++ rest) := by
  obtain ⟨_, hd, hne⟩ := natDigits_spec i.natAbs
  unfold printInt
  split
  · simp [HeadAll]
  · exact head_digit_ne _ rest hd hne '"' (by decide)

theorem printF64_head (b : Nat) (rest : Str) (hw : WFValue (.float b)) :
    HeadAll (fun c => c != '"') (printF64 b ++ rest) := by
  obtain ⟨_, _, hine, hid, _, _⟩ := hw
  unfold printF64
  by_cases hng : (f64Parts b).1 = true
  · simp [hng, HeadAll]
  · have hng' : (f64Parts b).1 = false := by simpa using hng
    simp only [hng', List.nil_append, List.append_assoc]
    exact head_digit_ne _ _ hid hine '"' (by decide)

theorem valueP_ok (S : Sites) (v : Value) (rest : Str) (hw : WFValue v) (hr : HeadAll endTok rest) :
    valueP S (printValue v ++ rest) = .ok v rest := by
  cases v with
  | str s => simp [valueP, printValue, stringLit_ok s rest hw]
  | int i => simp [valueP, printValue, stringLit_fail _ (printInt_head i rest), numberP_int S i rest hw hr]
  | float b => simp [valueP, printValue, stringLit_fail _ (printF64_head b rest hw), numberP_float S b rest hw hr]
  | bool b => exact absurd hw (by simp [WFValue])

theorem cmpOpP_ok (op : CmpOp) (r : Str) : cmpOpP (printCmpOp op ++ ' ' :: r) = .ok op (' ' :: r) := by
  cases op <;> simp [cmpOpP, firstLit, cmpOpTable, printCmpOp, lit, stripPrefix]

theorem cmpOpP_fail (s : Str) (h : HeadAll (fun c => c != '!' && c != '>' && c != '<' && c != '=') s) :
    cmpOpP s = .fail := by
  cases s with
  | nil => simp [cmpOpP, firstLit, cmpOpTable, lit, stripPrefix]
  | cons c r =>
    simp [HeadAll] at h
    obtain ⟨⟨⟨h1, h2⟩, h3⟩, h4⟩ := h
    have e1 : ('!' == c) = false := by rw [beq_eq_false_iff_ne]; exact fun e => h1 e.symm
    have e2 : ('>' == c) = false := by rw [beq_eq_false_iff_ne]; exact fun e => h2 e.symm
    have e3 : ('<' == c) = false := by rw [beq_eq_false_iff_ne]; exact fun e => h3 e.symm
    have e4 : ('=' == c) = false := by rw [beq_eq_false_iff_ne]; exact fun e => h4 e.symm
    simp [cmpOpP, firstLit, cmpOpTable, lit, stripPrefix, e1, e2, e3, e4]


/-! ## what may follow an expression -/
def kIN : Str := "IN".toList
def kAND : Str := "AND".toList
def kOR : Str := "OR".toList
def kNOT : Str := "NOT".toList

/-- end of input, a closing parenthesis, or one space and then a word whose leading letters are
none of the keywords in `bad` -/
def Stop (bad : List Str) (rest : Str) : Prop :=
  rest = [] ∨ (∃ r, rest = ')' :: r) ∨
  (∃ c r, rest = ' ' :: c :: r ∧ isLetter c = true ∧ ∀ k ∈ bad, eqCi (letterRun (c :: r)) k = false)

theorem Stop.mono {bad bad' : List Str} {rest : Str} (h : Stop bad rest) (hs : ∀ k ∈ bad', k ∈ bad) :
    Stop bad' rest := by
  rcases h with h | h | ⟨c, r, h1, h2, h3⟩
  · exact Or.inl h
  · exact Or.inr (Or.inl h)
  · exact Or.inr (Or.inr ⟨c, r, h1, h2, fun k hk => h3 k (hs k hk)⟩)

theorem letter_props (c : Char) (h : isLetter c = true) :
    isWs c = false ∧ isIdentStart c = true ∧ isIdentChar c = true ∧ isDigit c = false ∧ c ≠ '(' ∧ c ≠ '"' ∧ c ≠ '.'
      ∧ c ≠ '!' ∧ c ≠ '>' ∧ c ≠ '<' ∧ c ≠ '=' ∧ c ≠ ',' ∧ c ≠ ')' ∧ c ≠ '-' := by
  refine ⟨?_, by simp [isIdentStart, h], by simp [isIdentChar, h], ?_, ?_, ?_, ?_, ?_, ?_, ?_, ?_, ?_, ?_, ?_⟩
  · cases hw : isWs c with
    | false => rfl
    | true =>
      simp [isWs] at hw
      rcases hw with ((rfl | rfl) | rfl) | rfl <;> exact absurd h (by decide)
  · simp [isLetter, isDigit] at *; omega
  all_goals (intro e; subst e; exact absurd h (by decide))

theorem kw_fail_nonletter (k : Str) (s : Str) (h : HeadAll (fun c => !isLetter c) s) : kw k s = .fail := by
  have := takeWhile_append_stop isLetter [] s (by simp) h
  simp at this
  simp [kw, this]

theorem stop_endTok {bad : List Str} {rest : Str} (h : Stop bad rest) : HeadAll endTok rest := by
  rcases h with rfl | ⟨r, rfl⟩ | ⟨c, r, rfl, _, _⟩
  · exact headAll_nil _
  · simp [HeadAll] <;> decide
  · simp [HeadAll] <;> decide

theorem stop_ws {bad : List Str} {rest : Str} (h : Stop bad rest) :
    ∃ r', ws rest = .ok () r' ∧ (∀ k ∈ bad, kw k r' = .fail) ∧ cmpOpP r' = .fail := by
  rcases h with rfl | ⟨r, rfl⟩ | ⟨c, r, rfl, hc, hbad⟩
  · exact ⟨[], by simp [ws_apply], fun k _ => kw_fail_nonletter k [] (headAll_nil _), cmpOpP_fail [] (headAll_nil _)⟩
  · refine ⟨')' :: r, ws_noop _ (by simp [HeadAll] <;> decide), fun k _ => kw_fail_nonletter k _ (by simp [HeadAll] <;> decide),
      cmpOpP_fail _ (by simp [HeadAll] <;> decide)⟩
  · have lp := letter_props c hc
    refine ⟨c :: r, ws_space _ (by simp [HeadAll, lp.1]), fun k hk => kw_fail k _ (hbad k hk), cmpOpP_fail _ ?_⟩
    simp [HeadAll]
    exact ⟨⟨⟨lp.2.2.2.2.2.2.2.1, lp.2.2.2.2.2.2.2.2.1⟩, lp.2.2.2.2.2.2.2.2.2.1⟩, lp.2.2.2.2.2.2.2.2.2.2.1⟩


/-! ## leaves of `factor()` -/
theorem takeWhile_append_head (p : Char → Bool) (a r : Str) (hr : HeadAll (fun c => !p c) r) :
    (a ++ r).takeWhile p = a.takeWhile p := by
  induction a with
  | nil =>
    have := takeWhile_append_stop p [] r (by simp) hr
    simpa using this
  | cons x xs ih =>
    by_cases hx : p x = true
    · simp [List.takeWhile, hx, ih]
    · simp [List.takeWhile, hx]

theorem identStart_props (c : Char) (h : isIdentStart c = true) :
    isWs c = false ∧ c ≠ '(' ∧ c ≠ '"' ∧ isDigit c = false ∧ c ≠ '-' ∧ c ≠ ')' ∧ c ≠ ',' := by
  simp [isIdentStart] at h
  rcases h with h | rfl
  · have := letter_props c h
    exact ⟨this.1, this.2.2.2.2.1, this.2.2.2.2.2.1, this.2.2.2.1, this.2.2.2.2.2.2.2.2.2.2.2.2.2, this.2.2.2.2.2.2.2.2.2.2.2.2.1,
      this.2.2.2.2.2.2.2.2.2.2.2.1⟩
  · decide

theorem field_head (f : Str) (h : WFFieldShape f) : ∃ c cs, f = c :: cs ∧ isIdentStart c = true := by
  rcases h with ⟨c, cs, rfl, hc, _⟩ | ⟨i, j, rfl, ⟨c, cs, rfl, hc, _⟩, _⟩
  · exact ⟨c, cs, rfl, hc⟩
  · exact ⟨c, cs ++ '.' :: j, by simp, hc⟩

theorem endTok_notLetter (rest : Str) (h : HeadAll endTok rest) : HeadAll (fun c => !isLetter c) rest := by
  intro c hc
  have := h c hc
  simp [endTok, isIdentChar] at this ⊢
  exact this.2.1.1.1

/-- the NOT alternative and the parenthesis alternative fail on a well-formed field -/
theorem field_not_paren (f rest : Str) (hf : WFField f) (hr : HeadAll endTok rest) :
    kw kNOT (f ++ rest) = .fail ∧ lit ['('] (f ++ rest) = .fail := by
  obtain ⟨c, cs, rfl, hc⟩ := field_head f hf.1
  constructor
  · apply kw_fail
    unfold letterRun
    rw [takeWhile_append_head isLetter _ rest (endTok_notLetter rest hr)]
    exact hf.2
  · apply lit_fail_head
    simp [HeadAll]
    exact (identStart_props c hc).2.1

theorem factor_atom (S : Sites) (n0 m : Nat) (inner : P Expr) (f rest : Str) (hf : WFField f)
    (hs : Stop [kIN] rest) :
    factorWith S n0 inner (m + 1) (f ++ rest) = .ok (.cmp f .eq (.bool true)) rest := by
  have he := stop_endTok hs
  obtain ⟨h1, h2⟩ := field_not_paren f rest hf he
  have hfld := field_ok f rest hf.1 (endTok_parts rest he).2.2
  obtain ⟨r', hws, hkw, hcmp⟩ := stop_ws hs
  have hin : kw ['I', 'N'] r' = .fail := hkw kIN (by simp)
  have h1' : kw ['N', 'O', 'T'] (f ++ rest) = .fail := h1
  simp [factorWith, h1', h2, comparison, inExpr, atom, hfld, hws, hcmp, hin]

theorem printCmpOp_head (op : CmpOp) (t : Str) : HeadAll (fun c => !isWs c) (printCmpOp op ++ t) := by
  cases op <;> simp [printCmpOp, HeadAll] <;> decide

theorem printValue_head (v : Value) (t : Str) (hw : WFValue v) : HeadAll (fun c => !isWs c) (printValue v ++ t) := by
  cases v with
  | str s => simp [printValue, quote, HeadAll]; decide
  | int i =>
    obtain ⟨_, hd, hne⟩ := natDigits_spec i.natAbs
    simp only [printValue, printInt]
    split
    · simp [HeadAll]; decide
    · cases hdg : natDigits i.natAbs with
      | nil => exact absurd hdg hne
      | cons c cs =>
        rw [hdg] at hd
        simp at hd
        simp [HeadAll]
        cases hw' : isWs c with
        | false => rfl
        | true =>
          simp [isWs] at hw'
          rcases hw' with ((rfl | rfl) | rfl) | rfl <;> exact absurd hd.1 (by decide)
  | float b =>
    obtain ⟨_, _, hine, hid, _, _⟩ := hw
    simp only [printValue, printF64]
    by_cases hng : (f64Parts b).1 = true
    · simp [hng, HeadAll]; decide
    · have hng' : (f64Parts b).1 = false := by simpa using hng
      cases hdg : (f64Parts b).2.1 with
      | nil => exact absurd hdg hine
      | cons c cs =>
        rw [hdg] at hid
        simp at hid
        simp [hng', hdg, HeadAll]
        cases hw' : isWs c with
        | false => rfl
        | true =>
          simp [isWs] at hw'
          rcases hw' with ((rfl | rfl) | rfl) | rfl <;> exact absurd hid.1 (by decide)
  | bool b => exact absurd hw (by simp [WFValue])

theorem factor_cmp (S : Sites) (n0 m : Nat) (inner : P Expr) (f rest : Str) (op : CmpOp) (v : Value)
    (hf : WFField f) (hv : WFValue v) (hr : HeadAll endTok rest) :
    factorWith S n0 inner (m + 1) (f ++ ' ' :: (printCmpOp op ++ ' ' :: (printValue v ++ rest))) = .ok (.cmp f op v) rest := by
  have hsp : HeadAll endTok (' ' :: (printCmpOp op ++ ' ' :: (printValue v ++ rest))) := by simp [HeadAll] <;> decide
  obtain ⟨h1, h2⟩ := field_not_paren f _ hf hsp
  have hfld := field_ok f _ hf.1 (endTok_parts _ hsp).2.2
  have hws1 := ws_space _ (printCmpOp_head op (' ' :: (printValue v ++ rest)))
  have hws2 := ws_space _ (printValue_head v rest hv)
  have h1' : kw ['N', 'O', 'T'] (f ++ ' ' :: (printCmpOp op ++ ' ' :: (printValue v ++ rest))) = .fail := h1
  simp [factorWith, h1', h2, comparison, hfld, hws1, cmpOpP_ok, hws2, valueP_ok S v rest hv hr]


/-! ## IN lists -/
def tailText : List Value → Str
  | [] => []
  | v :: vs => ',' :: ' ' :: (printValue v ++ tailText vs)

theorem commaJoin_cons (v : Value) (vs : List Value) :
    commaJoin ((v :: vs).map printValue) = printValue v ++ tailText vs := by
  induction vs generalizing v with
  | nil => simp [commaJoin, tailText]
  | cons w ws ih =>
    have := ih w
    simp only [List.map] at this ⊢
    simp [commaJoin, tailText, this]

theorem tailText_head (vs : List Value) (rest : Str) : HeadAll endTok (tailText vs ++ ')' :: rest) := by
  cases vs <;> simp [tailText, HeadAll] <;> decide

theorem many_succ (p : P α) (n : Nat) (s : Str) :
    many p (n + 1) s = (match p s with
      | .ok a r => (match many p n r with
         | .ok as r' => .ok (a :: as) r' | .fail => .fail | .panic => .panic | .oof => .oof)
      | .fail => .ok [] s | .panic => .panic | .oof => .oof) := rfl

theorem commaSep_ok (t : Str) (h : HeadAll (fun c => !isWs c) t) : commaSep (',' :: ' ' :: t) = .ok () t := by
  have h1 : ws (',' :: ' ' :: t) = .ok () (',' :: ' ' :: t) := ws_noop _ (by simp [HeadAll] <;> decide)
  simp [commaSep, h1, lit_cons_ok, ws_space _ h]

theorem commaSep_fail_paren (rest : Str) : commaSep (')' :: rest) = .fail := by
  have h1 : ws (')' :: rest) = .ok () (')' :: rest) := ws_noop _ (by simp [HeadAll] <;> decide)
  have h2 : lit [','] (')' :: rest) = .fail := lit_fail_head _ _ (by simp [HeadAll] <;> decide)
  simp [commaSep, h1, h2]

theorem digits1_fail (s : Str) (h : HeadAll (fun c => !isDigit c) s) : digits1 s = .fail := by
  have := takeWhile_append_stop isDigit [] s (by simp) h
  simp at this
  simp [digits1, this]

theorem many_values (S : Sites) (vs : List Value) (rest : Str) (hw : ∀ v ∈ vs, WFValue v) :
    ∀ n, vs.length + 1 ≤ n →
    many (do commaSep; valueP S) n (tailText vs ++ ')' :: rest) = .ok vs (')' :: rest) := by
  induction vs with
  | nil =>
    intro n hn
    obtain ⟨k, rfl⟩ : ∃ k, n = k + 1 := ⟨n - 1, by simp at hn; omega⟩
    simp [many_succ, tailText, commaSep_fail_paren]
  | cons v vs ih =>
    intro n hn
    obtain ⟨k, rfl⟩ : ∃ k, n = k + 1 := ⟨n - 1, by simp at hn; omega⟩
    have hv := hw v (by simp)
    have h2 := commaSep_ok _ (printValue_head v (tailText vs ++ ')' :: rest) hv)
    have h3 := valueP_ok S v _ hv (tailText_head vs rest)
    have h4 := ih (fun w hw' => hw w (by simp [hw'])) k (by simp at hn ⊢; omega)
    simp [many_succ, tailText, h2, h3, h4]

theorem valueP_fail_paren (S : Sites) (rest : Str) : valueP S (')' :: rest) = .fail := by
  have h1 : stringLit (')' :: rest) = .fail := stringLit_fail _ (by simp [HeadAll] <;> decide)
  have h2 : lit ['-'] (')' :: rest) = .fail := lit_fail_head _ _ (by simp [HeadAll] <;> decide)
  have h3 : digits1 (')' :: rest) = .fail := digits1_fail _ (by simp [HeadAll] <;> decide)
  have h4 : ident (')' :: rest) = .fail := by
    have : isIdentStart ')' = false := by decide
    simp [ident, identWith, this]
  simp [valueP, h1, numberP, integerTok, h2, h3, h4]

theorem sepBy_values (S : Sites) (vs : List Value) (rest : Str) (hw : ∀ v ∈ vs, WFValue v) (n : Nat)
    (hn : vs.length + 1 ≤ n) :
    sepBy (valueP S) commaSep n (commaJoin (vs.map printValue) ++ ')' :: rest) = .ok vs (')' :: rest) := by
  cases vs with
  | nil => simp [sepBy, sepBy1, commaJoin, valueP_fail_paren]
  | cons v vs =>
    have hv := hw v (by simp)
    have h3 := valueP_ok S v _ hv (tailText_head vs rest)
    have h4 := many_values S vs rest (fun w hw' => hw w (by simp [hw'])) n (by simp at hn ⊢; omega)
    rw [commaJoin_cons]
    simp [sepBy, sepBy1, h3, h4]


theorem spells_head {sp : Str} {k : String} (h : Spells sp k) : ∃ c cs, sp = c :: cs ∧ isLetter c = true := by
  obtain ⟨hne, hall, _⟩ := h
  cases sp with
  | nil => exact absurd rfl hne
  | cons c cs => simp at hall; exact ⟨c, cs, rfl, hall.1⟩

theorem commaJoin_head (vs : List Value) (rest : Str) (hw : ∀ v ∈ vs, WFValue v) :
    HeadAll (fun c => !isWs c) (commaJoin (vs.map printValue) ++ ')' :: rest) := by
  cases vs with
  | nil => simp [commaJoin, HeadAll] <;> decide
  | cons v vs =>
    rw [commaJoin_cons, List.append_assoc]
    exact printValue_head v _ (hw v (by simp))

theorem factor_in (S : Sites) (n0 m : Nat) (inner : P Expr) (f kin rest : Str) (vs : List Value)
    (hf : WFField f) (hk : Spells kin "IN") (hv : ∀ v ∈ vs, WFValue v) (hn : vs.length + 1 ≤ n0) :
    factorWith S n0 inner (m + 1) (f ++ ' ' :: (kin ++ ' ' :: '(' :: (commaJoin (vs.map printValue) ++ ')' :: rest)))
      = .ok (.inList f vs) rest := by
  obtain ⟨c, cs, rfl, hc⟩ := spells_head hk
  have lp := letter_props c hc
  have hsp : HeadAll endTok (' ' :: ((c :: cs) ++ ' ' :: '(' :: (commaJoin (vs.map printValue) ++ ')' :: rest))) := by
    simp [HeadAll] <;> decide
  obtain ⟨h1, h2⟩ := field_not_paren f _ hf hsp
  have h1' : kw ['N', 'O', 'T'] (f ++ ' ' :: ((c :: cs) ++ ' ' :: '(' :: (commaJoin (vs.map printValue) ++ ')' :: rest))) = .fail := h1
  have hfld := field_ok f _ hf.1 (endTok_parts _ hsp).2.2
  have hws1 : ws (' ' :: ((c :: cs) ++ ' ' :: '(' :: (commaJoin (vs.map printValue) ++ ')' :: rest)))
      = .ok () ((c :: cs) ++ ' ' :: '(' :: (commaJoin (vs.map printValue) ++ ')' :: rest)) :=
    ws_space _ (by simp [HeadAll, lp.1])
  have hcmp : cmpOpP ((c :: cs) ++ ' ' :: '(' :: (commaJoin (vs.map printValue) ++ ')' :: rest)) = .fail :=
    cmpOpP_fail _ (by simp [HeadAll]; exact ⟨⟨⟨lp.2.2.2.2.2.2.2.1, lp.2.2.2.2.2.2.2.2.1⟩, lp.2.2.2.2.2.2.2.2.2.1⟩, lp.2.2.2.2.2.2.2.2.2.2.1⟩)
  have hkw : kw ['I', 'N'] ((c :: cs) ++ ' ' :: '(' :: (commaJoin (vs.map printValue) ++ ')' :: rest))
      = .ok () (' ' :: '(' :: (commaJoin (vs.map printValue) ++ ')' :: rest)) :=
    kw_ok "IN" (c :: cs) _ hk (by simp [HeadAll] <;> decide)
  have hws2 : ws (' ' :: '(' :: (commaJoin (vs.map printValue) ++ ')' :: rest))
      = .ok () ('(' :: (commaJoin (vs.map printValue) ++ ')' :: rest)) := ws_space _ (by simp [HeadAll] <;> decide)
  have hws3 := ws_noop _ (commaJoin_head vs rest hv)
  have hsep := sepBy_values S vs rest hv n0 hn
  have hws4 : ws (')' :: rest) = .ok () (')' :: rest) := ws_noop _ (by simp [HeadAll] <;> decide)
  simp only [List.cons_append] at *
  simp [factorWith, h1', h2, comparison, inExpr, hfld, hws1, hcmp, hkw, hws2, lit_cons_ok, hws3, hsep, hws4]


/-! ## inner nodes -/
theorem factor_not (S : Sites) (n0 m : Nat) (inner : P Expr) (knot t r : Str) (x : Expr)
    (hk : Spells knot "NOT") (ht : HeadAll (fun c => !isWs c) t)
    (hx : factorWith S n0 inner m t = .ok x r) :
    factorWith S n0 inner (m + 1) (knot ++ ' ' :: t) = .ok (.not x) r := by
  have hkw : kw ['N', 'O', 'T'] (knot ++ ' ' :: t) = .ok () (' ' :: t) :=
    kw_ok "NOT" knot _ hk (by simp [HeadAll] <;> decide)
  simp [factorWith, hkw, ws_space t ht, hx]

theorem factor_paren (S : Sites) (n0 m : Nat) (inner : P Expr) (t rest : Str) (e : Expr)
    (ht : HeadAll (fun c => !isWs c) t) (hx : inner t = .ok e (')' :: rest)) :
    factorWith S n0 inner (m + 1) ('(' :: t) = .ok e rest := by
  have hkw : kw ['N', 'O', 'T'] ('(' :: t) = .fail := kw_fail_nonletter _ _ (by simp [HeadAll] <;> decide)
  have hws : ws (')' :: rest) = .ok () (')' :: rest) := ws_noop _ (by simp [HeadAll] <;> decide)
  simp [factorWith, hkw, lit_cons_ok, ws_noop t ht, hx, hws]

theorem andWith_succ (factor : P Expr) (m : Nat) :
    andWith factor (m + 1) = (do
      let x ← factor
      (do ws; kw "AND".toList; ws; let y ← andWith factor m; return Expr.and x y) <|> P.pure x) := rfl

theorem orWith_succ (andE : P Expr) (m : Nat) :
    orWith andE (m + 1) = (do
      let x ← andE
      (do ws; kw "OR".toList; ws; let y ← orWith andE m; return Expr.or x y) <|> P.pure x) := rfl

theorem and_single (factor : P Expr) (m : Nat) (t rest : Str) (x : Expr) (bad : List Str)
    (hf : factor t = .ok x rest) (hs : Stop bad rest) (hb : kAND ∈ bad) :
    andWith factor (m + 1) t = .ok x rest := by
  obtain ⟨r', hws, hkw, _⟩ := stop_ws hs
  have hk : kw ['A', 'N', 'D'] r' = .fail := hkw kAND hb
  simp [andWith_succ, hf, hws, hk]

theorem or_single (andE : P Expr) (m : Nat) (t rest : Str) (x : Expr) (bad : List Str)
    (hf : andE t = .ok x rest) (hs : Stop bad rest) (hb : kOR ∈ bad) :
    orWith andE (m + 1) t = .ok x rest := by
  obtain ⟨r', hws, hkw, _⟩ := stop_ws hs
  have hk : kw ['O', 'R'] r' = .fail := hkw kOR hb
  simp [orWith_succ, hf, hws, hk]

theorem and_node (factor : P Expr) (m : Nat) (ta kand tb rest : Str) (a b : Expr)
    (hk : Spells kand "AND") (htb : HeadAll (fun c => !isWs c) tb)
    (ha : factor ta = .ok a (' ' :: (kand ++ ' ' :: tb)))
    (hb : andWith factor m tb = .ok b rest) :
    andWith factor (m + 1) ta = .ok (.and a b) rest := by
  obtain ⟨c, cs, rfl, hc⟩ := spells_head hk
  have hws1 : ws (' ' :: ((c :: cs) ++ ' ' :: tb)) = .ok () ((c :: cs) ++ ' ' :: tb) :=
    ws_space _ (by simp [HeadAll, (letter_props c hc).1])
  have hkw : kw ['A', 'N', 'D'] ((c :: cs) ++ ' ' :: tb) = .ok () (' ' :: tb) :=
    kw_ok "AND" (c :: cs) _ hk (by simp [HeadAll] <;> decide)
  simp only [List.cons_append] at *
  simp [andWith_succ, ha, hws1, hkw, ws_space tb htb, hb]

theorem or_node (andE : P Expr) (m : Nat) (ta kor tb rest : Str) (a b : Expr)
    (hk : Spells kor "OR") (htb : HeadAll (fun c => !isWs c) tb)
    (ha : andE ta = .ok a (' ' :: (kor ++ ' ' :: tb)))
    (hb : orWith andE m tb = .ok b rest) :
    orWith andE (m + 1) ta = .ok (.or a b) rest := by
  obtain ⟨c, cs, rfl, hc⟩ := spells_head hk
  have hws1 : ws (' ' :: ((c :: cs) ++ ' ' :: tb)) = .ok () ((c :: cs) ++ ' ' :: tb) :=
    ws_space _ (by simp [HeadAll, (letter_props c hc).1])
  have hkw : kw ['O', 'R'] ((c :: cs) ++ ' ' :: tb) = .ok () (' ' :: tb) :=
    kw_ok "OR" (c :: cs) _ hk (by simp [HeadAll] <;> decide)
  simp only [List.cons_append] at *
  simp [orWith_succ, ha, hws1, hkw, ws_space tb htb, hb]

/-- a keyword spelled `sp` after a space stops an expression unless it is one of `bad` -/
theorem stop_kw (sp t : Str) (k : String) (bad : List Str) (hk : Spells sp k)
    (hbad : ∀ b ∈ bad, eqCi k.toList b = false) : Stop bad (' ' :: (sp ++ ' ' :: t)) := by
  obtain ⟨c, cs, rfl, hc⟩ := spells_head hk
  refine Or.inr (Or.inr ⟨c, cs ++ ' ' :: t, by simp, hc, ?_⟩)
  intro b hb
  have hrun : letterRun (c :: (cs ++ ' ' :: t)) = c :: cs := by
    have := takeWhile_append_stop isLetter (c :: cs) (' ' :: t) hk.2.1 (by simp [HeadAll] <;> decide)
    simpa [letterRun] using this
  rw [hrun]
  have h1 := hk.2.2
  have h2 := hbad b hb
  simp only [eqCi, beq_iff_eq] at h1
  simp only [eqCi] at h2 ⊢
  rw [h1]
  exact h2


/-! ## the expression round trip -/
theorem need_pos (e : Expr) : 0 < need e := by cases e <;> simp [need]

theorem pr_cmp_ne (K : Kw) (l : Nat) (f : Str) (op : CmpOp) (v : Value) (h : ¬ (op = .eq ∧ v = .bool true)) :
    pr K l (.cmp f op v) = f ++ ' ' :: (printCmpOp op ++ ' ' :: printValue v) := by
  unfold pr
  split <;> simp_all

theorem pr_cmp_atom (K : Kw) (l : Nat) (f : Str) : pr K l (.cmp f .eq (.bool true)) = f := by
  simp [pr]

theorem pr_head (K : Kw) (hK : K.Valid) (e : Expr) (he : WFExpr e) :
    ∀ l, ∃ c t, pr K l e = c :: t ∧ (isIdentStart c = true ∨ c = '(') := by
  induction e with
  | cmp f op v =>
    intro l
    obtain ⟨c, cs, rfl, hc⟩ := field_head f he.1.1
    by_cases h : op = .eq ∧ v = .bool true
    · obtain ⟨rfl, rfl⟩ := h; exact ⟨c, cs, by simp [pr], Or.inl hc⟩
    · exact ⟨c, cs ++ ' ' :: (printCmpOp op ++ ' ' :: printValue v), by rw [pr_cmp_ne K l _ op v h]; simp, Or.inl hc⟩
  | inList f vs =>
    intro l
    obtain ⟨c, cs, rfl, hc⟩ := field_head f he.1.1
    exact ⟨c, _, by simp [pr]; rfl, Or.inl hc⟩
  | not x _ =>
    intro l
    obtain ⟨c, cs, hk, hc⟩ := spells_head hK.2.2.1
    exact ⟨c, cs ++ ' ' :: pr K 2 x, by simp [pr, hk], Or.inl (letter_props c hc).2.1⟩
  | and a b iha _ =>
    intro l
    by_cases hl : 1 < l
    · exact ⟨'(', _, by simp [pr, paren, hl]; rfl, Or.inr rfl⟩
    · obtain ⟨c, t, ht, hc⟩ := iha he.1 2
      exact ⟨c, t ++ ' ' :: (K.and_ ++ ' ' :: pr K 1 b), by simp [pr, paren, hl, ht], hc⟩
  | or a b iha _ =>
    intro l
    by_cases hl : 0 < l
    · exact ⟨'(', _, by simp [pr, paren, hl]; rfl, Or.inr rfl⟩
    · obtain ⟨c, t, ht, hc⟩ := iha he.1 1
      exact ⟨c, t ++ ' ' :: (K.or_ ++ ' ' :: pr K 0 b), by simp [pr, paren, hl, ht], hc⟩

theorem pr_head_ws (K : Kw) (hK : K.Valid) (e : Expr) (he : WFExpr e) (l : Nat) (rest : Str) :
    HeadAll (fun c => !isWs c) (pr K l e ++ rest) := by
  obtain ⟨c, t, ht, hc⟩ := pr_head K hK e he l
  rw [ht]
  simp [HeadAll]
  rcases hc with hc | rfl
  · exact (identStart_props c hc).1
  · decide

/-- from a factor-level result to the AND and OR levels when the text is the same -/
theorem lift_levels (factor : P Expr) (t : Str) (e : Expr) (m2 m3 : Nat)
    (hF : ∀ rest, Stop [kIN] rest → factor (t ++ rest) = .ok e rest) (h2 : 0 < m2) (h3 : 0 < m3) (rest : Str) :
    (Stop [kIN, kAND] rest → andWith factor m2 (t ++ rest) = .ok e rest) ∧
    (Stop [kIN, kAND, kOR] rest → orWith (andWith factor m2) m3 (t ++ rest) = .ok e rest) := by
  obtain ⟨k2, rfl⟩ : ∃ k, m2 = k + 1 := ⟨m2 - 1, by omega⟩
  obtain ⟨k3, rfl⟩ : ∃ k, m3 = k + 1 := ⟨m3 - 1, by omega⟩
  have hA : ∀ rest, Stop [kIN, kAND] rest → andWith factor (k2 + 1) (t ++ rest) = .ok e rest := fun rest hs =>
    and_single factor k2 _ rest e _ (hF rest (hs.mono (by simp))) hs (by simp)
  exact ⟨hA rest, fun hs => or_single _ k3 _ rest e _ (hA rest (hs.mono (by intro k hk; simp at hk ⊢; rcases hk with h | h <;> simp [h]))) hs (by simp)⟩


theorem eqCi_and_in : eqCi "AND".toList kIN = false := by decide
theorem eqCi_or_in : eqCi "OR".toList kIN = false := by decide
theorem eqCi_or_and : eqCi "OR".toList kAND = false := by decide

theorem exprF_succ (S : Sites) (n : Nat) :
    exprF S (n + 1) = orWith (andWith (factorWith S n (exprF S n) n) n) n := rfl

/-- The three levels of the expression grammar parse what the printer prints, for every spelling of
the keywords, whatever follows (as long as it cannot continue the expression). -/
theorem rt (S : Sites) (K : Kw) (hK : K.Valid) : ∀ e, WFExpr e →
    ∀ n m1 m2 m3, need e ≤ n → need e ≤ m1 → need e ≤ m2 → need e ≤ m3 → ∀ rest,
    (Stop [kIN] rest → factorWith S n (exprF S n) m1 (pr K 2 e ++ rest) = .ok e rest) ∧
    (Stop [kIN, kAND] rest → andWith (factorWith S n (exprF S n) m1) m2 (pr K 1 e ++ rest) = .ok e rest) ∧
    (Stop [kIN, kAND, kOR] rest →
      orWith (andWith (factorWith S n (exprF S n) m1) m2) m3 (pr K 0 e ++ rest) = .ok e rest) := by
  intro e
  induction e with
  | cmp f op v =>
    intro he n m1 m2 m3 hn h1 h2 h3 rest
    simp only [need] at hn h1 h2 h3
    obtain ⟨k1, rfl⟩ : ∃ k, m1 = k + 1 := ⟨m1 - 1, by omega⟩
    by_cases hat : op = .eq ∧ v = .bool true
    · obtain ⟨rfl, rfl⟩ := hat
      simp only [pr_cmp_atom]
      have hF : ∀ rest, Stop [kIN] rest → factorWith S n (exprF S n) (k1 + 1) (f ++ rest) = .ok (.cmp f .eq (.bool true)) rest :=
        fun rest hs => factor_atom S n k1 _ f rest he.1 hs
      exact ⟨hF rest, lift_levels _ f _ m2 m3 hF (by omega) (by omega) rest⟩
    · have hv : WFValue v := by
        rcases he.2 with h | h
        · exact absurd h hat
        · exact h
      simp only [pr_cmp_ne K _ f op v hat]
      have hF : ∀ rest, Stop [kIN] rest → factorWith S n (exprF S n) (k1 + 1)
          ((f ++ ' ' :: (printCmpOp op ++ ' ' :: printValue v)) ++ rest) = .ok (.cmp f op v) rest := by
        intro rest hs
        have := factor_cmp S n k1 (exprF S n) f rest op v he.1 hv (stop_endTok hs)
        simpa using this
      exact ⟨hF rest, lift_levels _ _ _ m2 m3 hF (by omega) (by omega) rest⟩
  | inList f vs =>
    intro he n m1 m2 m3 hn h1 h2 h3 rest
    simp only [need] at hn h1 h2 h3
    obtain ⟨k1, rfl⟩ : ∃ k, m1 = k + 1 := ⟨m1 - 1, by omega⟩
    have hF : ∀ rest, Stop [kIN] rest → factorWith S n (exprF S n) (k1 + 1)
        ((f ++ ' ' :: (K.in_ ++ ' ' :: '(' :: (commaJoin (vs.map printValue) ++ [')']))) ++ rest) = .ok (.inList f vs) rest := by
      intro rest _
      have := factor_in S n k1 (exprF S n) f K.in_ rest vs he.1 hK.2.2.2.1 he.2 (by omega)
      simpa using this
    have hp : ∀ l, pr K l (.inList f vs) = f ++ ' ' :: (K.in_ ++ ' ' :: '(' :: (commaJoin (vs.map printValue) ++ [')'])) := by
      intro l; simp [pr]
    simp only [hp]
    exact ⟨hF rest, lift_levels _ _ _ m2 m3 hF (by omega) (by omega) rest⟩
  | not x ih =>
    intro he n m1 m2 m3 hn h1 h2 h3 rest
    simp only [need] at hn h1 h2 h3
    obtain ⟨k1, rfl⟩ : ∃ k, m1 = k + 1 := ⟨m1 - 1, by omega⟩
    have hF : ∀ rest, Stop [kIN] rest → factorWith S n (exprF S n) (k1 + 1)
        ((K.not_ ++ ' ' :: pr K 2 x) ++ rest) = .ok (.not x) rest := by
      intro rest hs
      have hx := (ih he n k1 k1 k1 (by omega) (by omega) (by omega) (by omega) rest).1 hs
      have := factor_not S n k1 (exprF S n) K.not_ (pr K 2 x ++ rest) rest x hK.2.2.1 (pr_head_ws K hK x he 2 rest) hx
      simpa using this
    have hp : ∀ l, pr K l (.not x) = K.not_ ++ ' ' :: pr K 2 x := by intro l; simp [pr]
    simp only [hp]
    exact ⟨hF rest, lift_levels _ _ _ m2 m3 hF (by omega) (by omega) rest⟩
  | and a b iha ihb =>
    intro he n m1 m2 m3 hn h1 h2 h3 rest
    simp only [need] at hn h1 h2 h3
    have pa := need_pos a
    have pb := need_pos b
    -- the unparenthesised text at the AND level, for arbitrary fuels
    have hA : ∀ n m1 m2 rest, need a ≤ n → need b ≤ n → need a ≤ m1 → need b ≤ m1 → need b + 1 ≤ m2 →
        Stop [kIN, kAND] rest →
        andWith (factorWith S n (exprF S n) m1) m2 ((pr K 2 a ++ ' ' :: (K.and_ ++ ' ' :: pr K 1 b)) ++ rest) = .ok (.and a b) rest := by
      intro n m1 m2 rest hna hnb hma hmb hm2 hs
      obtain ⟨k2, rfl⟩ : ∃ k, m2 = k + 1 := ⟨m2 - 1, by omega⟩
      have hsa : Stop [kIN] (' ' :: (K.and_ ++ ' ' :: (pr K 1 b ++ rest))) :=
        stop_kw K.and_ _ "AND" [kIN] hK.1 (by intro b hb; simp at hb; subst hb; exact eqCi_and_in)
      have ha := (iha he.1 n m1 m1 m1 hna hma hma hma _).1 hsa
      have hb := (ihb he.2 n m1 k2 k2 hnb hmb (by omega) (by omega) rest).2.1 hs
      have := and_node (factorWith S n (exprF S n) m1) k2
        (pr K 2 a ++ ' ' :: (K.and_ ++ ' ' :: (pr K 1 b ++ rest))) K.and_ (pr K 1 b ++ rest) rest a b hK.1
        (pr_head_ws K hK b he.2 1 rest) ha hb
      simpa using this
    have hO : ∀ n m1 m2 m3 rest, need a ≤ n → need b ≤ n → need a ≤ m1 → need b ≤ m1 → need b + 1 ≤ m2 → 0 < m3 →
        Stop [kIN, kAND, kOR] rest →
        orWith (andWith (factorWith S n (exprF S n) m1) m2) m3 ((pr K 2 a ++ ' ' :: (K.and_ ++ ' ' :: pr K 1 b)) ++ rest) = .ok (.and a b) rest := by
      intro n m1 m2 m3 rest hna hnb hma hmb hm2 hm3 hs
      obtain ⟨k3, rfl⟩ : ∃ k, m3 = k + 1 := ⟨m3 - 1, by omega⟩
      exact or_single _ k3 _ rest _ _ (hA n m1 m2 rest hna hnb hma hmb hm2 (hs.mono (by intro k hk; simp at hk ⊢; rcases hk with h | h <;> simp [h]))) hs (by simp)
    have hF : ∀ n m1 rest, need a + need b + 1 ≤ n → 0 < m1 → Stop [kIN] rest →
        factorWith S n (exprF S n) m1 ('(' :: ((pr K 2 a ++ ' ' :: (K.and_ ++ ' ' :: pr K 1 b)) ++ ')' :: rest)) = .ok (.and a b) rest := by
      intro n m1 rest hn hm1 _
      obtain ⟨n', rfl⟩ : ∃ k, n = k + 1 := ⟨n - 1, by omega⟩
      obtain ⟨k1, rfl⟩ : ∃ k, m1 = k + 1 := ⟨m1 - 1, by omega⟩
      have hin := hO n' n' n' n' (')' :: rest) (by omega) (by omega) (by omega) (by omega) (by omega) (by omega)
        (Or.inr (Or.inl ⟨rest, rfl⟩))
      apply factor_paren S (n' + 1) k1 (exprF S (n' + 1)) _ rest (.and a b)
      · obtain ⟨c, t, ht, hc⟩ := pr_head K hK a he.1 2
        rw [ht]; simp [HeadAll]
        rcases hc with hc | rfl
        · exact (identStart_props c hc).1
        · decide
      · rw [exprF_succ]; exact hin
    have hp0 : pr K 0 (.and a b) = pr K 2 a ++ ' ' :: (K.and_ ++ ' ' :: pr K 1 b) := by simp [pr, paren]
    have hp1 : pr K 1 (.and a b) = pr K 2 a ++ ' ' :: (K.and_ ++ ' ' :: pr K 1 b) := by simp [pr, paren]
    have hp2 : pr K 2 (.and a b) = '(' :: ((pr K 2 a ++ ' ' :: (K.and_ ++ ' ' :: pr K 1 b)) ++ [')']) := by simp [pr, paren]
    refine ⟨?_, ?_, ?_⟩
    · intro hs
      have := hF n m1 rest (by omega) (by omega) hs
      rw [hp2]; simpa using this
    · intro hs; rw [hp1]; exact hA n m1 m2 rest (by omega) (by omega) (by omega) (by omega) (by omega) hs
    · intro hs; rw [hp0]; exact hO n m1 m2 m3 rest (by omega) (by omega) (by omega) (by omega) (by omega) (by omega) hs
  | or a b iha ihb =>
    intro he n m1 m2 m3 hn h1 h2 h3 rest
    simp only [need] at hn h1 h2 h3
    have pa := need_pos a
    have pb := need_pos b
    have hO : ∀ n m1 m2 m3 rest, need a ≤ n → need b ≤ n → need a ≤ m1 → need b ≤ m1 → need a ≤ m2 → need b ≤ m2 →
        need b + 1 ≤ m3 → Stop [kIN, kAND, kOR] rest →
        orWith (andWith (factorWith S n (exprF S n) m1) m2) m3 ((pr K 1 a ++ ' ' :: (K.or_ ++ ' ' :: pr K 0 b)) ++ rest) = .ok (.or a b) rest := by
      intro n m1 m2 m3 rest hna hnb hma hmb hm2a hm2b hm3 hs
      obtain ⟨k3, rfl⟩ : ∃ k, m3 = k + 1 := ⟨m3 - 1, by omega⟩
      have hsa : Stop [kIN, kAND] (' ' :: (K.or_ ++ ' ' :: (pr K 0 b ++ rest))) :=
        stop_kw K.or_ _ "OR" [kIN, kAND] hK.2.1 (by
          intro b hb; simp at hb; rcases hb with rfl | rfl
          · exact eqCi_or_in
          · exact eqCi_or_and)
      have ha := (iha he.1 n m1 m2 m2 hna hma hm2a hm2a _).2.1 hsa
      have hb := (ihb he.2 n m1 m2 k3 hnb hmb hm2b (by omega) rest).2.2 hs
      have := or_node (andWith (factorWith S n (exprF S n) m1) m2) k3
        (pr K 1 a ++ ' ' :: (K.or_ ++ ' ' :: (pr K 0 b ++ rest))) K.or_ (pr K 0 b ++ rest) rest a b hK.2.1
        (pr_head_ws K hK b he.2 0 rest) ha hb
      simpa using this
    have hF : ∀ n m1 rest, need a + need b + 1 ≤ n → 0 < m1 → Stop [kIN] rest →
        factorWith S n (exprF S n) m1 ('(' :: ((pr K 1 a ++ ' ' :: (K.or_ ++ ' ' :: pr K 0 b)) ++ ')' :: rest)) = .ok (.or a b) rest := by
      intro n m1 rest hn hm1 _
      obtain ⟨n', rfl⟩ : ∃ k, n = k + 1 := ⟨n - 1, by omega⟩
      obtain ⟨k1, rfl⟩ : ∃ k, m1 = k + 1 := ⟨m1 - 1, by omega⟩
      have hin := hO n' n' n' n' (')' :: rest) (by omega) (by omega) (by omega) (by omega) (by omega) (by omega) (by omega)
        (Or.inr (Or.inl ⟨rest, rfl⟩))
      apply factor_paren S (n' + 1) k1 (exprF S (n' + 1)) _ rest (.or a b)
      · obtain ⟨c, t, ht, hc⟩ := pr_head K hK a he.1 1
        rw [ht]; simp [HeadAll]
        rcases hc with hc | rfl
        · exact (identStart_props c hc).1
        · decide
      · rw [exprF_succ]; exact hin
    have hp0 : pr K 0 (.or a b) = pr K 1 a ++ ' ' :: (K.or_ ++ ' ' :: pr K 0 b) := by simp [pr, paren]
    have hp1 : pr K 1 (.or a b) = '(' :: ((pr K 1 a ++ ' ' :: (K.or_ ++ ' ' :: pr K 0 b)) ++ [')']) := by simp [pr, paren]
    have hp2 : pr K 2 (.or a b) = '(' :: ((pr K 1 a ++ ' ' :: (K.or_ ++ ' ' :: pr K 0 b)) ++ [')']) := by simp [pr, paren]
    have hF' : ∀ rest, Stop [kIN] rest → factorWith S n (exprF S n) m1
        (('(' :: ((pr K 1 a ++ ' ' :: (K.or_ ++ ' ' :: pr K 0 b)) ++ [')'])) ++ rest) = .ok (.or a b) rest := by
      intro rest hs
      have := hF n m1 rest (by omega) (by omega) hs
      simpa using this
    refine ⟨?_, ?_, ?_⟩
    · intro hs; rw [hp2]; exact hF' rest hs
    · intro hs; rw [hp1]; exact (lift_levels _ _ _ m2 m3 hF' (by omega) (by omega) rest).1 hs
    · intro hs; rw [hp0]; exact hO n m1 m2 m3 rest (by omega) (by omega) (by omega) (by omega) (by omega) (by omega) (by omega) hs

end Snel.Parser
