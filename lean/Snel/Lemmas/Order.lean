import Snel.Model.Order
/-! Helper lemmas for C10 (ordering, k-way merge, top-k, response writer). -/
namespace Snel.Order

variable {α : Type}

/-! ## Orders -/

/-- `cmp` behaves as a total preorder on the values satisfying `P`. -/
structure TPO (cmp : α → α → Ordering) (P : α → Prop) : Prop where
  swap : ∀ a b, P a → P b → cmp b a = (cmp a b).swap
  trans : ∀ a b c, P a → P b → P c → cmp a b ≠ .gt → cmp b c ≠ .gt → cmp a c ≠ .gt

/-- A Boolean relation that is total and transitive on `P`. -/
structure LeOn (le : α → α → Bool) (P : α → Prop) : Prop where
  total : ∀ a b, P a → P b → le a b = true ∨ le b a = true
  trans : ∀ a b c, P a → P b → P c → le a b = true → le b c = true → le a c = true

def Sorted (le : α → α → Bool) (l : List α) : Prop := l.Pairwise (fun a b => le a b = true)

theorem TPO.mono {cmp : α → α → Ordering} {P Q : α → Prop} (h : TPO cmp P) (hq : ∀ a, Q a → P a) :
    TPO cmp Q :=
  ⟨fun a b ha hb => h.swap a b (hq a ha) (hq b hb),
   fun a b c ha hb hc => h.trans a b c (hq a ha) (hq b hb) (hq c hc)⟩

theorem TPO.refl {cmp : α → α → Ordering} {P : α → Prop} (h : TPO cmp P) (a : α) (ha : P a) :
    cmp a a = .eq := by
  have := h.swap a a ha ha
  cases hc : cmp a a <;> simp [hc, Ordering.swap] at this ⊢

theorem TPO.leOn {cmp : α → α → Ordering} {P : α → Prop} (h : TPO cmp P) (asc : Bool) :
    LeOn (outLe asc cmp) P := by
  constructor
  · intro a b ha hb
    have hs := h.swap a b ha hb
    cases asc <;> simp only [outLe, Bool.false_eq_true, if_true, if_false] <;>
      cases hc : cmp a b <;> simp [hc, Ordering.swap] at hs ⊢ <;> simp [hs]
  · intro a b c ha hb hc
    cases asc
    · simp only [outLe, Bool.false_eq_true, if_false, bne_iff_ne, ne_eq]
      intro h1 h2
      -- descending: cmp a b ≠ lt means cmp b a ≠ gt
      have s1 := h.swap a b ha hb
      have s2 := h.swap b c hb hc
      have s3 := h.swap a c ha hc
      have t := h.trans c b a hc hb ha
        (by cases hx : cmp b c <;> simp_all [Ordering.swap])
        (by cases hx : cmp a b <;> simp_all [Ordering.swap])
      cases hx : cmp a c <;> simp_all [Ordering.swap]
    · simp only [outLe, if_true, bne_iff_ne, ne_eq]
      exact h.trans a b c ha hb hc

/-! ## Insertion sort -/

theorem insertBy_perm (le : α → α → Bool) (x : α) (l : List α) : (insertBy le x l).Perm (x :: l) := by
  induction l with
  | nil => simp [insertBy]
  | cons y ys ih =>
    simp only [insertBy]
    split
    · exact List.Perm.refl _
    · exact (List.Perm.cons y ih).trans (List.Perm.swap x y ys)

theorem isort_perm (le : α → α → Bool) (l : List α) : (isort le l).Perm l := by
  induction l with
  | nil => simp [isort]
  | cons x xs ih => exact (insertBy_perm le x _).trans (List.Perm.cons x ih)

theorem insertBy_sorted {le : α → α → Bool} {P : α → Prop} (h : LeOn le P) (x : α) (l : List α)
    (hx : P x) (hl : ∀ y ∈ l, P y) (hs : Sorted le l) : Sorted le (insertBy le x l) := by
  induction l with
  | nil => simp [insertBy, Sorted]
  | cons y ys ih =>
    simp only [insertBy]
    have hy : P y := hl y (by simp)
    have hys : ∀ z ∈ ys, P z := fun z hz => hl z (by simp [hz])
    have hs' := List.pairwise_cons.mp hs
    split
    · rename_i hle
      refine List.pairwise_cons.mpr ⟨?_, hs⟩
      intro z hz
      rcases List.mem_cons.mp hz with rfl | hz
      · exact hle
      · exact h.trans x y z hx hy (hys z hz) hle (hs'.1 z hz)
    · rename_i hle
      refine List.pairwise_cons.mpr ⟨?_, ih hys hs'.2⟩
      intro z hz
      have hz' := (insertBy_perm le x ys).subset hz
      rcases List.mem_cons.mp hz' with rfl | hz'
      · rcases h.total z y hx hy with h1 | h1
        · exact absurd h1 hle
        · exact h1
      · exact hs'.1 z hz'

theorem isort_sorted {le : α → α → Bool} {P : α → Prop} (h : LeOn le P) (l : List α)
    (hl : ∀ y ∈ l, P y) : Sorted le (isort le l) := by
  induction l with
  | nil => simp [isort, Sorted]
  | cons x xs ih =>
    have hxs : ∀ y ∈ xs, P y := fun y hy => hl y (by simp [hy])
    exact insertBy_sorted h x _ (hl x (by simp))
      (fun y hy => hxs y ((isort_perm le xs).subset hy)) (ih hxs)

/-! ## Priority queues -/

/-- What the merger needs from its priority queue: `items` is a multiset abstraction, and `pop`
    returns an entry whose key may come first among all entries (w.r.t. the output order `le`).
    For `std::collections::BinaryHeap` with `HeapItem::cmp` this is the library contract
    ("pop returns the greatest item") whenever the comparison is a total preorder. -/
structure PQ.Correct (pq : PQ (Item α)) (le : α → α → Bool) (P : α → Prop) : Prop where
  items_empty : pq.items pq.empty = []
  items_push : ∀ q x, (pq.items (pq.push q x)).Perm (x :: pq.items q)
  pop_none : ∀ q, pq.pop q = none → pq.items q = []
  pop_some : ∀ q m q', (∀ x ∈ pq.items q, P x.row) → pq.pop q = some (m, q') →
      (m :: pq.items q').Perm (pq.items q) ∧ ∀ x ∈ pq.items q', le m.row x.row = true

/-- All rows still to be delivered by a queue state. -/
def content (pq : PQ (Item α)) (q : pq.Q) : List α :=
  (pq.items q).flatMap fun it => it.row :: it.rest

/-- Every stream in the queue is sorted and inside `P`. -/
def QInv (pq : PQ (Item α)) (le : α → α → Bool) (P : α → Prop) (q : pq.Q) : Prop :=
  ∀ it ∈ pq.items q, Sorted le (it.row :: it.rest) ∧ ∀ x ∈ it.row :: it.rest, P x

theorem perm_flatMap {β γ : Type} {l₁ l₂ : List β} (f : β → List γ) (h : l₁.Perm l₂) :
    (l₁.flatMap f).Perm (l₂.flatMap f) := by
  induction h with
  | nil => simp
  | cons x _ ih => simpa [List.flatMap_cons] using List.Perm.append_left _ ih
  | swap x y l =>
    simp only [List.flatMap_cons]
    rw [← List.append_assoc, ← List.append_assoc]
    exact List.Perm.append_right _ List.perm_append_comm
  | trans _ _ ih₁ ih₂ => exact ih₁.trans ih₂

/-! ### The selection queue is correct -/

theorem pickMax_perm (c : Item α → Item α → Ordering) (best : Item α) (l : List (Item α)) :
    ((pickMax c best l).1 :: (pickMax c best l).2).Perm (best :: l) := by
  induction l generalizing best with
  | nil => simp [pickMax]
  | cons y ys ih =>
    simp only [pickMax]
    split
    · exact (List.Perm.swap _ _ _).trans (List.Perm.cons best (ih y))
    · exact ((List.Perm.swap _ _ _).trans (List.Perm.cons y (ih best))).trans (List.Perm.swap _ _ _)

/-- The entry selected by `pickMax (itemCmp asc cmp)` may come first in the output order. -/
theorem pickMax_first {cmp : α → α → Ordering} {P : α → Prop} (h : TPO cmp P) (asc : Bool)
    (best : Item α) (l : List (Item α)) (hb : P best.row) (hl : ∀ x ∈ l, P x.row) :
    outLe asc cmp (pickMax (itemCmp asc cmp) best l).1.row best.row = true ∧
    ∀ x ∈ (pickMax (itemCmp asc cmp) best l).2, outLe asc cmp (pickMax (itemCmp asc cmp) best l).1.row x.row = true := by
  have hle := h.leOn asc
  induction l generalizing best with
  | nil =>
    simp only [pickMax, List.not_mem_nil, false_imp_iff, implies_true, and_true]
    rcases hle.total best.row best.row hb hb with h1 | h1 <;> exact h1
  | cons y ys ih =>
    have hy : P y.row := hl y (by simp)
    have hys : ∀ x ∈ ys, P x.row := fun x hx => hl x (by simp [hx])
    simp only [pickMax]
    split
    · rename_i hlt
      -- best <ᵢ y : y may come before best
      have hyb : outLe asc cmp y.row best.row = true := by
        have hs := h.swap best.row y.row hb hy
        cases asc <;> simp only [itemCmp, outLe, Bool.false_eq_true, if_true, if_false] at hlt ⊢ <;>
          cases hc : cmp best.row y.row <;> simp [hc, Ordering.then, Ordering.swap] at hlt hs ⊢ <;> simp [hs]
      obtain ⟨i1, i2⟩ := ih y hy hys
      have hm : P (pickMax (itemCmp asc cmp) y ys).1.row := by
        have := (pickMax_perm (itemCmp asc cmp) y ys).subset (List.mem_cons_self)
        rcases List.mem_cons.mp this with e | e
        · rw [e]; exact hy
        · exact hys _ e
      have hmb := hle.trans _ _ _ hm hy hb i1 hyb
      refine ⟨hmb, ?_⟩
      intro x hx
      rcases List.mem_cons.mp hx with rfl | hx
      · exact hmb
      · exact i2 x hx
    · rename_i hnlt
      have hby : outLe asc cmp best.row y.row = true := by
        cases asc <;> simp only [itemCmp, outLe, Bool.false_eq_true, if_true, if_false] at hnlt ⊢ <;>
          cases hc : cmp best.row y.row <;> simp [hc, Ordering.then, Ordering.swap] at hnlt ⊢
      obtain ⟨i1, i2⟩ := ih best hb hys
      have hm : P (pickMax (itemCmp asc cmp) best ys).1.row := by
        have := (pickMax_perm (itemCmp asc cmp) best ys).subset (List.mem_cons_self)
        rcases List.mem_cons.mp this with e | e
        · rw [e]; exact hb
        · exact hys _ e
      refine ⟨i1, ?_⟩
      intro x hx
      rcases List.mem_cons.mp hx with rfl | hx
      · exact hle.trans _ _ _ hm hb hy i1 hby
      · exact i2 x hx

theorem selPQ_correct {cmp : α → α → Ordering} {P : α → Prop} (h : TPO cmp P) (asc : Bool) :
    (selPQ (itemCmp asc cmp)).Correct (outLe asc cmp) P := by
  constructor
  · rfl
  · intro q x; exact List.Perm.refl _
  · intro q hq
    cases q with
    | nil => rfl
    | cons x xs => simp [selPQ] at hq
  · intro q m q' hP hpop
    cases q with
    | nil => simp [selPQ] at hpop
    | cons x xs =>
      simp only [selPQ, Option.some.injEq] at hpop
      have hx : P x.row := hP x (by simp [selPQ])
      have hxs : ∀ y ∈ xs, P y.row := fun y hy => hP y (by simp [selPQ, hy])
      have e1 : m = (pickMax (itemCmp asc cmp) x xs).1 := by rw [hpop]
      have e2 : q' = (pickMax (itemCmp asc cmp) x xs).2 := by rw [hpop]
      subst e1 e2
      exact ⟨pickMax_perm _ x xs, (pickMax_first h asc x xs hx hxs).2⟩

/-! ### The merge loop -/

/-- The loop without limit and offset. -/
def fullLoop (pq : PQ (Item α)) (f : Nat) (q : pq.Q) : List α := mergeLoop pq none f q 0 0

theorem mergeLoop_none_em (pq : PQ (Item α)) : ∀ (f : Nat) (q : pq.Q) (sk em em' : Nat),
    mergeLoop pq none f q sk em = mergeLoop pq none f q sk em' := by
  intro f
  induction f with
  | zero => intros; rfl
  | succ f ih =>
    intro q sk em em'
    simp only [mergeLoop, Option.any_none, Bool.false_eq_true, if_false]
    cases pq.pop q with
    | none => rfl
    | some p =>
      simp only
      rw [ih _ _ _ (if (sk == 0) = true then em' + 1 else em')]

theorem fullLoop_succ (pq : PQ (Item α)) (f : Nat) (q : pq.Q) :
    fullLoop pq (f + 1) q = match pq.pop q with
      | none => []
      | some (it, q') => it.row :: fullLoop pq f (pushRest pq q' it) := by
  simp only [fullLoop, mergeLoop, Option.any_none, Bool.false_eq_true, if_false]
  cases pq.pop q with
  | none => rfl
  | some p =>
    simp only [beq_self_eq_true, if_true, List.singleton_append, Nat.zero_sub]
    rw [mergeLoop_none_em pq f _ 0 _ 0]

/-- Limit and offset only cut a window out of what the loop would deliver without them. -/
theorem mergeLoop_window (pq : PQ (Item α)) (l : Nat) : ∀ (f : Nat) (q : pq.Q) (sk em : Nat),
    mergeLoop pq (some l) f q sk em = ((fullLoop pq f q).drop sk).take (l - em) := by
  intro f
  induction f with
  | zero => intros; simp [mergeLoop, fullLoop]
  | succ f ih =>
    intro q sk em
    rw [fullLoop_succ]
    simp only [mergeLoop, Option.any_some, decide_eq_true_eq]
    cases hp : pq.pop q with
    | none => simp
    | some p =>
      obtain ⟨it, q'⟩ := p
      simp only
      by_cases h1 : em ≥ l
      · simp [h1, Nat.sub_eq_zero_of_le h1]
      · simp only [h1, if_false]
        cases sk with
        | zero =>
          simp only [beq_self_eq_true, if_true, List.drop_zero, List.singleton_append, Nat.zero_sub]
          by_cases h2 : em + 1 ≥ l
          · have : l - em = 1 := by omega
            simp [h2, this]
          · simp only [h2, if_false]
            rw [ih]
            have : l - em = (l - (em + 1)) + 1 := by omega
            rw [this, List.take_succ_cons]
            simp
        | succ sk =>
          simp only [Nat.add_one_ne_zero, beq_iff_eq, if_false, List.nil_append, List.drop_succ_cons,
            Nat.add_sub_cancel, h1]
          rw [ih]

theorem mergeLoop_offset_only (pq : PQ (Item α)) : ∀ (f : Nat) (q : pq.Q) (sk em : Nat),
    mergeLoop pq none f q sk em = (fullLoop pq f q).drop sk := by
  intro f
  induction f with
  | zero => intros; simp [mergeLoop, fullLoop]
  | succ f ih =>
    intro q sk em
    rw [fullLoop_succ]
    simp only [mergeLoop, Option.any_none, Bool.false_eq_true, if_false]
    cases hp : pq.pop q with
    | none => simp
    | some p =>
      obtain ⟨it, q'⟩ := p
      simp only
      cases sk with
      | zero => simp [ih]
      | succ sk => simp [ih]

theorem content_pushRest {pq : PQ (Item α)} {le : α → α → Bool} {P : α → Prop}
    (hpq : pq.Correct le P) (q : pq.Q) (it : Item α) :
    (content pq (pushRest pq q it)).Perm (it.rest ++ content pq q) := by
  unfold pushRest
  cases hr : it.rest with
  | nil => simp
  | cons r rs =>
    simp only [content]
    refine (perm_flatMap _ (hpq.items_push q ⟨it.idx, r, rs⟩)).trans ?_
    simp [List.flatMap_cons]

theorem qinv_pushRest {pq : PQ (Item α)} {le : α → α → Bool} {P : α → Prop}
    (hpq : pq.Correct le P) (q : pq.Q) (it : Item α)
    (hq : QInv pq le P q) (hit : Sorted le (it.row :: it.rest) ∧ ∀ x ∈ it.row :: it.rest, P x) :
    QInv pq le P (pushRest pq q it) := by
  unfold pushRest
  cases hr : it.rest with
  | nil => exact hq
  | cons r rs =>
    intro x hx
    have := (hpq.items_push q ⟨it.idx, r, rs⟩).subset hx
    rcases List.mem_cons.mp this with rfl | hx'
    · rw [hr] at hit
      refine ⟨(List.pairwise_cons.mp hit.1).2, ?_⟩
      intro y hy
      exact hit.2 y (List.mem_cons_of_mem _ hy)
    · exact hq x hx'

/-- Without limit and offset the loop delivers a sorted permutation of everything queued. -/
theorem fullLoop_sorted_perm {pq : PQ (Item α)} {le : α → α → Bool} {P : α → Prop}
    (hle : LeOn le P) (hpq : pq.Correct le P) :
    ∀ (f : Nat) (q : pq.Q), QInv pq le P q → (content pq q).length < f →
      (fullLoop pq f q).Perm (content pq q) ∧ Sorted le (fullLoop pq f q) := by
  intro f
  induction f with
  | zero => intro q _ h; omega
  | succ f ih =>
    intro q hq hlen
    rw [fullLoop_succ]
    cases hp : pq.pop q with
    | none =>
      have := hpq.pop_none q hp
      simp [content, this, Sorted]
    | some p =>
      obtain ⟨it, q'⟩ := p
      simp only
      have hPq : ∀ x ∈ pq.items q, P x.row := fun x hx => (hq x hx).2 _ (by simp)
      obtain ⟨hperm, hfirst⟩ := hpq.pop_some q it q' hPq hp
      have hit_mem : it ∈ pq.items q := hperm.subset (by simp)
      have hq' : QInv pq le P q' := fun x hx => hq x (hperm.subset (by simp [hx]))
      have hit := hq it hit_mem
      have hinv := qinv_pushRest hpq q' it hq' hit
      have hcont : (content pq q).Perm (it.row :: (it.rest ++ content pq q')) := by
        have := perm_flatMap (fun (i : Item α) => i.row :: i.rest) hperm.symm
        simpa [content, List.flatMap_cons] using this
      have hc2 := content_pushRest hpq q' it
      have hlen' : (content pq (pushRest pq q' it)).length < f := by
        have e1 := hcont.length_eq
        have e2 := hc2.length_eq
        simp only [List.length_cons, List.length_append] at e1 e2
        omega
      obtain ⟨ihp, ihs⟩ := ih _ hinv hlen'
      constructor
      · exact ((List.Perm.cons it.row (ihp.trans hc2))).trans hcont.symm
      · refine List.pairwise_cons.mpr ⟨?_, ihs⟩
        intro z hz
        have hz' := (ihp.trans hc2).subset hz
        have hPit : P it.row := hit.2 _ (by simp)
        rcases List.mem_append.mp hz' with hz' | hz'
        · exact (List.pairwise_cons.mp hit.1).1 z hz'
        · simp only [content, List.mem_flatMap] at hz'
          obtain ⟨x, hx, hzx⟩ := hz'
          have hxq := hq' x hx
          have h1 := hfirst x hx
          rcases List.mem_cons.mp hzx with rfl | hzx
          · exact h1
          · exact hle.trans _ _ _ hPit (hxq.2 _ (by simp)) (hxq.2 _ (by simp [hzx])) h1
              ((List.pairwise_cons.mp hxq.1).1 z hzx)

theorem initHeap_spec {pq : PQ (Item α)} {le : α → α → Bool} {P : α → Prop}
    (hpq : pq.Correct le P) : ∀ (ss : List (List α)) (i : Nat) (q : pq.Q),
    QInv pq le P q → (∀ s ∈ ss, Sorted le s ∧ ∀ x ∈ s, P x) →
    QInv pq le P (initHeap pq i ss q) ∧ (content pq (initHeap pq i ss q)).Perm (content pq q ++ ss.flatten) := by
  intro ss
  induction ss with
  | nil => intro i q hq _; simp [initHeap, hq]
  | cons s ss ih =>
    intro i q hq hss
    have hss' : ∀ s ∈ ss, Sorted le s ∧ ∀ x ∈ s, P x := fun s hs => hss s (by simp [hs])
    cases s with
    | nil => simpa [initHeap] using ih (i + 1) q hq hss'
    | cons r rs =>
      simp only [initHeap]
      have hs := hss (r :: rs) (by simp)
      have hq1 : QInv pq le P (pq.push q ⟨i, r, rs⟩) := by
        intro x hx
        rcases List.mem_cons.mp ((hpq.items_push q ⟨i, r, rs⟩).subset hx) with rfl | hx'
        · exact hs
        · exact hq x hx'
      obtain ⟨h1, h2⟩ := ih (i + 1) _ hq1 hss'
      refine ⟨h1, h2.trans ?_⟩
      have : (content pq (pq.push q ⟨i, r, rs⟩)).Perm ((r :: rs) ++ content pq q) := by
        simp only [content]
        refine (perm_flatMap _ (hpq.items_push q ⟨i, r, rs⟩)).trans ?_
        simp [List.flatMap_cons]
      refine (List.Perm.append_right _ this).trans ?_
      refine (List.Perm.append_right _ List.perm_append_comm).trans ?_
      simp [List.append_assoc]


/-- One merger instance on sorted input streams: a window of a sorted permutation. -/
theorem mergeRun_spec {pq : PQ (Item α)} {le : α → α → Bool} {P : α → Prop}
    (hle : LeOn le P) (hpq : pq.Correct le P) (streams : List (List α))
    (hs : ∀ s ∈ streams, Sorted le s ∧ ∀ x ∈ s, P x) (off : Nat) (lim : Option Nat) :
    ∃ full, full.Perm streams.flatten ∧ Sorted le full ∧
      mergeRun pq streams off lim = takeOpt lim (full.drop off) := by
  have hq0 : QInv pq le P pq.empty := by
    intro it hit; rw [hpq.items_empty] at hit; cases hit
  obtain ⟨hinv, hcont⟩ := initHeap_spec hpq streams 0 pq.empty hq0 hs
  have hc0 : content pq pq.empty = [] := by simp [content, hpq.items_empty]
  rw [hc0, List.nil_append] at hcont
  have hlen : (content pq (initHeap pq 0 streams pq.empty)).length < totalLen streams + 1 := by
    rw [hcont.length_eq, List.length_flatten]; simp [totalLen]
  obtain ⟨hp, hsrt⟩ := fullLoop_sorted_perm hle hpq _ _ hinv hlen
  refine ⟨fullLoop pq (totalLen streams + 1) (initHeap pq 0 streams pq.empty), hp.trans hcont, hsrt, ?_⟩
  unfold mergeRun
  cases lim with
  | none => simp [takeOpt, mergeLoop_offset_only]
  | some l => simp [takeOpt, mergeLoop_window]

/-! ## Top-k across truncated parts -/

theorem mem_sublist_flatten {β : Type} (l : List β) (L : List (List β)) (h : l ∈ L) : l.Sublist L.flatten := by
  induction L with
  | nil => cases h
  | cons x xs ih =>
    rcases List.mem_cons.mp h with rfl | h
    · simp
    · simpa using (ih h).trans (List.sublist_append_right x xs.flatten)

theorem take_drop_flatten_perm (parts : List (List α × Nat)) :
    ((parts.map fun p => p.1.take p.2).flatten ++ (parts.map fun p => p.1.drop p.2).flatten).Perm
      (parts.map (·.1)).flatten := by
  induction parts with
  | nil => simp
  | cons p ps ih =>
    simp only [List.map_cons, List.flatten_cons]
    have : (p.1.take p.2 ++ (ps.map fun p => p.1.take p.2).flatten ++
        (p.1.drop p.2 ++ (ps.map fun p => p.1.drop p.2).flatten)).Perm
        ((p.1.take p.2 ++ p.1.drop p.2) ++ ((ps.map fun p => p.1.take p.2).flatten ++
          (ps.map fun p => p.1.drop p.2).flatten)) := by
      simp only [List.append_assoc]
      refine List.Perm.append_left _ ?_
      rw [← List.append_assoc, ← List.append_assoc]
      exact List.Perm.append_right _ List.perm_append_comm
    refine this.trans ?_
    rw [List.take_append_drop]
    exact List.Perm.append_left _ ih

/-- The first `K` rows of a sorted merge of parts that were each cut at `≥ K` rows are the first
    `K` rows of a sorted arrangement of the uncut parts. -/
theorem topk {le : α → α → Bool} {P : α → Prop} (hle : LeOn le P) (K : Nat)
    (parts : List (List α × Nat))
    (hparts : ∀ p ∈ parts, K ≤ p.2 ∧ Sorted le p.1 ∧ ∀ x ∈ p.1, P x)
    (A : List α) (hA : A.Perm (parts.map fun p => p.1.take p.2).flatten) (hAs : Sorted le A) :
    ∃ s, s.Perm (parts.map (·.1)).flatten ∧ Sorted le s ∧ s.take K = A.take K := by
  let rest := A.drop K ++ (parts.map fun p => p.1.drop p.2).flatten
  have hPA : ∀ x ∈ A, P x := by
    intro x hx
    have := hA.subset hx
    simp only [List.mem_flatten, List.mem_map] at this
    obtain ⟨l, ⟨p, hp, rfl⟩, hxl⟩ := this
    exact (hparts p hp).2.2 x (List.mem_of_mem_take hxl)
  have hPrest : ∀ x ∈ rest, P x := by
    intro x hx
    rcases List.mem_append.mp hx with hx | hx
    · exact hPA x (List.mem_of_mem_drop hx)
    · simp only [List.mem_flatten, List.mem_map] at hx
      obtain ⟨l, ⟨p, hp, rfl⟩, hxl⟩ := hx
      exact (hparts p hp).2.2 x (List.mem_of_mem_drop hxl)
  refine ⟨A.take K ++ isort le rest, ?_, ?_, ?_⟩
  · -- permutation
    refine (List.Perm.append_left _ (isort_perm le rest)).trans ?_
    show (A.take K ++ (A.drop K ++ _)).Perm _
    rw [← List.append_assoc, List.take_append_drop]
    exact (List.Perm.append_right _ hA).trans (take_drop_flatten_perm parts)
  · -- sorted
    refine List.pairwise_append.mpr ⟨hAs.sublist (List.take_sublist K A), isort_sorted hle rest hPrest, ?_⟩
    intro x hx y hy
    have hy' := (isort_perm le rest).subset hy
    have hAsplit : Sorted le (A.take K ++ A.drop K) := by rw [List.take_append_drop]; exact hAs
    have hcross := (List.pairwise_append.mp hAsplit).2.2
    have hPx : P x := hPA x (List.mem_of_mem_take hx)
    rcases List.mem_append.mp hy' with hy' | hy'
    · exact hcross x hx y hy'
    · simp only [List.mem_flatten, List.mem_map] at hy'
      obtain ⟨l, ⟨p, hp, rfl⟩, hyl⟩ := hy'
      obtain ⟨hKp, hps, hpP⟩ := hparts p hp
      have hPy : P y := hpP y (List.mem_of_mem_drop hyl)
      cases hxy : le x y with
      | true => rfl
      | false =>
        exfalso
        -- every row of the kept prefix of `p` lies strictly before `x`
        have hpsplit : Sorted le (p.1.take p.2 ++ p.1.drop p.2) := by rw [List.take_append_drop]; exact hps
        have hpcross := (List.pairwise_append.mp hpsplit).2.2
        have hall : ∀ z ∈ p.1.take p.2, (!le x z) = true := by
          intro z hz
          cases hxz : le x z with
          | false => rfl
          | true =>
            have := hle.trans x z y hPx (hpP z (List.mem_of_mem_take hz)) hPy hxz (hpcross z hz y hyl)
            rw [hxy] at this; cases this
        have hlen : (p.1.take p.2).length = p.2 := by
          rw [List.length_take]
          have : p.2 < p.1.length := by
            apply Nat.lt_of_not_le
            intro hcon
            rw [List.drop_of_length_le hcon] at hyl
            cases hyl
          omega
        have hc1 : List.countP (fun z => !le x z) (p.1.take p.2) = p.2 := by
          have := List.countP_eq_length.mpr hall
          rw [hlen] at this; exact this
        have hmem : p.1.take p.2 ∈ (parts.map fun p => p.1.take p.2) :=
          List.mem_map.mpr ⟨p, hp, rfl⟩
        have hc2 : List.countP (fun z => !le x z) (p.1.take p.2) ≤ List.countP (fun z => !le x z) A := by
          rw [hA.countP_eq]
          exact (mem_sublist_flatten _ _ hmem).countP_le
        -- but fewer than K rows of A lie strictly before x
        have hxx : le x x = true := by rcases hle.total x x hPx hPx with h | h <;> exact h
        have hc3 : List.countP (fun z => !le x z) A < K := by
          rw [← List.take_append_drop K A, List.countP_append]
          have hz : List.countP (fun z => !le x z) (A.drop K) = 0 := by
            rw [List.countP_eq_zero]
            intro z hz
            simp [hcross x hx z hz]
          have hlt : List.countP (fun z => !le x z) (A.take K) < (A.take K).length := by
            rcases Nat.lt_or_ge (List.countP (fun z => !le x z) (A.take K)) (A.take K).length with h | h
            · exact h
            · have := List.countP_eq_length.mp (Nat.le_antisymm List.countP_le_length h) x hx
              simp [hxx] at this
          have : (A.take K).length ≤ K := by rw [List.length_take]; omega
          omega
        omega
  · -- same first K rows
    rcases Nat.lt_or_ge A.length K with hlt | hge
    · have hdrops : (parts.map fun p => p.1.drop p.2).flatten = [] := by
        rw [List.flatten_eq_nil_iff]
        intro l hl
        obtain ⟨p, hp, rfl⟩ := List.mem_map.mp hl
        obtain ⟨hKp, _, _⟩ := hparts p hp
        have hmem : p.1.take p.2 ∈ (parts.map fun p => p.1.take p.2) := List.mem_map.mpr ⟨p, hp, rfl⟩
        have h1 : (p.1.take p.2).length ≤ A.length := by
          rw [hA.length_eq]; exact (mem_sublist_flatten _ _ hmem).length_le
        rw [List.length_take] at h1
        exact List.drop_of_length_le (by omega)
      have hrest : rest = [] := by
        show A.drop K ++ _ = []
        rw [hdrops, List.drop_of_length_le (by omega)]; rfl
      rw [hrest]; simp [isort, List.take_take]
    · rw [List.take_append_of_le_length (by rw [List.length_take]; omega), List.take_take]
      simp

theorem flatten_map_perm {β : Type} (srt : List β → List β) (flows : List (List β))
    (h : ∀ f ∈ flows, (srt f).Perm f) : (flows.map srt).flatten.Perm flows.flatten := by
  induction flows with
  | nil => simp
  | cons f fs ih =>
    simp only [List.map_cons, List.flatten_cons]
    exact List.Perm.append (h f (by simp)) (ih (fun g hg => h g (by simp [hg])))

theorem take_drop_window {β : Type} (l : List β) (n m : Nat) :
    (l.drop m).take n = ((l.take (n + m)).drop m).take n := by
  rw [List.drop_take, List.take_take]
  simp

/-- Shard level: the stream a shard hands to the coordinator is the first `n+m` rows of a sorted
    arrangement of everything its flows hold. -/
theorem shard_level {pq : PQ (Item α)} {le : α → α → Bool} {P : α → Prop}
    (hle : LeOn le P) (hpq : pq.Correct le P) (K kflow : Nat) (hk : K ≤ kflow)
    (srt : List α → List α)
    (hsrt : ∀ l, (∀ x ∈ l, P x) → (srt l).Perm l ∧ Sorted le (srt l))
    (flows : List (List α)) (hP : ∀ f ∈ flows, ∀ x ∈ f, P x) :
    ∃ s, s.Perm flows.flatten ∧ Sorted le s ∧
      mergeRun pq (flows.map fun f => (srt f).take kflow) 0 (some K) = s.take K := by
  have hstreams : ∀ s ∈ (flows.map fun f => (srt f).take kflow), Sorted le s ∧ ∀ x ∈ s, P x := by
    intro s hs
    obtain ⟨f, hf, rfl⟩ := List.mem_map.mp hs
    obtain ⟨h1, h2⟩ := hsrt f (hP f hf)
    exact ⟨h2.sublist (List.take_sublist _ _), fun x hx => hP f hf x (h1.subset (List.mem_of_mem_take hx))⟩
  obtain ⟨full, hfp, hfs, hrun⟩ := mergeRun_spec hle hpq _ hstreams 0 (some K)
  let parts : List (List α × Nat) := flows.map fun f => (srt f, kflow)
  have hparts : ∀ p ∈ parts, K ≤ p.2 ∧ Sorted le p.1 ∧ ∀ x ∈ p.1, P x := by
    intro p hp
    obtain ⟨f, hf, rfl⟩ := List.mem_map.mp hp
    obtain ⟨h1, h2⟩ := hsrt f (hP f hf)
    exact ⟨hk, h2, fun x hx => hP f hf x (h1.subset hx)⟩
  have hA : full.Perm (parts.map fun p => p.1.take p.2).flatten := by
    simpa [parts, List.map_map, Function.comp_def] using hfp
  obtain ⟨s, hsp, hss, hst⟩ := topk hle K parts hparts full hA hfs
  refine ⟨s, ?_, hss, ?_⟩
  · refine hsp.trans ?_
    simp only [parts, List.map_map, Function.comp_def]
    exact flatten_map_perm srt flows (fun f hf => (hsrt f (hP f hf)).1)
  · rw [hrun, hst]; simp [takeOpt]

/-- Two levels (`orderedQuery`) with LIMIT n OFFSET m. -/
theorem orderedQuery_limit {pq : PQ (Item α)} {le : α → α → Bool} {P : α → Prop}
    (hle : LeOn le P) (hpq : pq.Correct le P) (n m kflow : Nat) (hk : n + m ≤ kflow)
    (srt : List α → List α)
    (hsrt : ∀ l, (∀ x ∈ l, P x) → (srt l).Perm l ∧ Sorted le (srt l))
    (shards : List (List (List α))) (hP : ∀ flows ∈ shards, ∀ f ∈ flows, ∀ x ∈ f, P x) (off : Option Nat)
    (hoff : off.getD 0 = m) :
    ∃ s, s.Perm shards.flatten.flatten ∧ Sorted le s ∧
      orderedQuery pq (shards.map fun flows => flows.map fun f => (srt f).take kflow) (some n) off
        = (s.drop m).take n := by
  -- per shard: a sorted arrangement whose first n+m rows are the shard stream
  have hshards : ∃ parts : List (List α × Nat),
      (parts.map fun p => p.1.take p.2) =
        (shards.map fun flows => mergeRun pq (flows.map fun f => (srt f).take kflow) 0 (some (n + m))) ∧
      (∀ p ∈ parts, n + m ≤ p.2 ∧ Sorted le p.1 ∧ ∀ x ∈ p.1, P x) ∧
      (parts.map (·.1)).flatten.Perm shards.flatten.flatten := by
    clear hoff
    induction shards with
    | nil => exact ⟨[], by simp⟩
    | cons flows rest ih =>
      obtain ⟨parts, h1, h2, h3⟩ := ih (fun fl hfl => hP fl (by simp [hfl]))
      obtain ⟨s, hsp, hss, hrun⟩ := shard_level hle hpq (n + m) kflow hk srt hsrt flows (hP flows (by simp))
      refine ⟨(s, n + m) :: parts, ?_, ?_, ?_⟩
      · simp [h1, hrun]
      · intro p hp
        rcases List.mem_cons.mp hp with rfl | hp
        · exact ⟨Nat.le_refl _, hss, fun x hx => by
            obtain ⟨f, hf, hxf⟩ := List.mem_flatten.mp (hsp.subset hx)
            exact hP flows (by simp) f hf x hxf⟩
        · exact h2 p hp
      · simp only [List.map_cons, List.flatten_cons, List.flatten_append]
        exact List.Perm.append hsp h3
  obtain ⟨parts, hstreams, hparts, hall⟩ := hshards
  have hsorted : ∀ s ∈ (parts.map fun p => p.1.take p.2), Sorted le s ∧ ∀ x ∈ s, P x := by
    intro s hs
    obtain ⟨p, hp, rfl⟩ := List.mem_map.mp hs
    obtain ⟨_, h2, h3⟩ := hparts p hp
    exact ⟨h2.sublist (List.take_sublist _ _), fun x hx => h3 x (List.mem_of_mem_take hx)⟩
  obtain ⟨full, hfp, hfs, hrun⟩ := mergeRun_spec hle hpq _ hsorted m (some n)
  obtain ⟨s, hsp, hss, hst⟩ := topk hle (n + m) parts hparts full hfp hfs
  refine ⟨s, hsp.trans hall, hss, ?_⟩
  unfold orderedQuery
  simp only [Option.map_some, hoff, List.map_map, Function.comp_def]
  have e : (shards.map fun flows => mergeRun pq (flows.map fun f => (srt f).take kflow) 0 (some (n + m)))
      = (parts.map fun p => p.1.take p.2) := hstreams.symm
  rw [e, hrun]
  simp only [takeOpt]
  rw [take_drop_window full n m, ← hst, ← take_drop_window s n m]

/-- Two levels without LIMIT (and hence without OFFSET). -/
theorem orderedQuery_nolimit {pq : PQ (Item α)} {le : α → α → Bool} {P : α → Prop}
    (hle : LeOn le P) (hpq : pq.Correct le P)
    (srt : List α → List α)
    (hsrt : ∀ l, (∀ x ∈ l, P x) → (srt l).Perm l ∧ Sorted le (srt l))
    (shards : List (List (List α))) (hP : ∀ flows ∈ shards, ∀ f ∈ flows, ∀ x ∈ f, P x) :
    (orderedQuery pq (shards.map fun flows => flows.map srt) none none).Perm shards.flatten.flatten ∧
      Sorted le (orderedQuery pq (shards.map fun flows => flows.map srt) none none) := by
  unfold orderedQuery
  simp only [Option.map_none, Option.getD_none, List.map_map, Function.comp_def]
  have hinner : ∀ flows ∈ shards,
      (mergeRun pq (flows.map srt) 0 none).Perm flows.flatten ∧ Sorted le (mergeRun pq (flows.map srt) 0 none) ∧
      ∀ x ∈ mergeRun pq (flows.map srt) 0 none, P x := by
    intro flows hfl
    have hstreams : ∀ s ∈ flows.map srt, Sorted le s ∧ ∀ x ∈ s, P x := by
      intro s hs
      obtain ⟨f, hf, rfl⟩ := List.mem_map.mp hs
      obtain ⟨h1, h2⟩ := hsrt f (hP flows hfl f hf)
      exact ⟨h2, fun x hx => hP flows hfl f hf x (h1.subset hx)⟩
    obtain ⟨full, hfp, hfs, hrun⟩ := mergeRun_spec hle hpq _ hstreams 0 none
    have hflat : (flows.map srt).flatten.Perm flows.flatten :=
      flatten_map_perm srt flows (fun f hf => (hsrt f (hP flows hfl f hf)).1)
    simp only [takeOpt, List.drop_zero] at hrun
    rw [hrun]
    refine ⟨hfp.trans hflat, hfs, ?_⟩
    intro x hx
    obtain ⟨f, hf, hxf⟩ := List.mem_flatten.mp ((hfp.trans hflat).subset hx)
    exact hP flows hfl f hf x hxf
  have hstreams : ∀ s ∈ (shards.map fun flows => mergeRun pq (flows.map srt) 0 none), Sorted le s ∧ ∀ x ∈ s, P x := by
    intro s hs
    obtain ⟨fl, hfl, rfl⟩ := List.mem_map.mp hs
    exact ⟨(hinner fl hfl).2.1, (hinner fl hfl).2.2⟩
  obtain ⟨full, hfp, hfs, hrun⟩ := mergeRun_spec hle hpq _ hstreams 0 none
  simp only [takeOpt, List.drop_zero] at hrun
  rw [hrun]
  refine ⟨hfp.trans ?_, hfs⟩
  clear hstreams hrun hfp
  induction shards with
  | nil => simp
  | cons fl rest ih =>
    simp only [List.map_cons, List.flatten_cons, List.flatten_append]
    exact List.Perm.append (hinner fl (by simp)).1
      (ih (fun g hg => hP g (by simp [hg])) (fun g hg => hinner g (by simp [hg])))

/-! ## Response writer -/

section Accept
variable {β : Type}

theorem acceptRows_limitReached (lim off : Option Nat) (st : Accept) (h : st.limitReached = true)
    (rows : List (Option Nat × β)) : acceptRows lim off st rows = [] := by
  cases rows <;> simp [acceptRows, h]

theorem takeOpt_nil {γ : Type} (l : Option Nat) : takeOpt l ([] : List γ) = [] := by
  cases l <;> simp [takeOpt]

/-- One row after the duplicate check. -/
theorem accept_tail_step (lim off : Option Nat) (st : Accept) (hst : st.limitReached = false)
    (r : Option Nat × β) (rs : List (Option Nat × β)) (D : List (Option Nat × β))
    (ih : ∀ st' : Accept, st'.limitReached = false → st'.seen = st.seen →
      acceptRows lim off st' rs = takeOpt (lim.map (· - st'.emitted)) (D.drop (off.getD 0 - st'.skipped))) :
    (if (acceptTail lim off st).2 then r :: acceptRows lim off (acceptTail lim off st).1 rs
      else acceptRows lim off (acceptTail lim off st).1 rs)
    = takeOpt (lim.map (· - st.emitted)) ((r :: D).drop (off.getD 0 - st.skipped)) := by
  unfold acceptTail
  by_cases h1 : off.any (fun o => decide (st.skipped < o)) = true
  · simp only [h1, if_true, Bool.false_eq_true, if_false]
    rw [ih { st with skipped := st.skipped + 1 } hst rfl]
    have : off.getD 0 - st.skipped = (off.getD 0 - (st.skipped + 1)) + 1 := by
      cases off with
      | none => simp at h1
      | some o => simp at h1 ⊢; omega
    rw [this, List.drop_succ_cons]
  · simp only [h1, if_false, Bool.false_eq_true]
    have h0 : off.getD 0 - st.skipped = 0 := by
      cases off with
      | none => simp
      | some o => simp at h1 ⊢; omega
    by_cases h2 : lim.any (fun l => decide (st.emitted ≥ l)) = true
    · simp only [h2, if_true, Bool.false_eq_true, if_false]
      rw [acceptRows_limitReached _ _ _ rfl]
      cases lim with
      | none => simp at h2
      | some l =>
        simp at h2
        simp [takeOpt, Nat.sub_eq_zero_of_le h2]
    · simp only [h2, if_false, Bool.false_eq_true, if_true]
      rw [ih { st with emitted := st.emitted + 1 } hst rfl, h0]
      simp only [List.drop_zero]
      cases lim with
      | none => simp [takeOpt]
      | some l =>
        simp at h2
        have : l - st.emitted = (l - (st.emitted + 1)) + 1 := by omega
        simp only [takeOpt, Option.map_some]
        rw [this, List.take_succ_cons]

theorem acceptRows_gen (lim off : Option Nat) : ∀ (rows : List (Option Nat × β)) (st : Accept),
    st.limitReached = false →
    acceptRows lim off st rows
      = takeOpt (lim.map (· - st.emitted)) ((dedupById st.seen rows).drop (off.getD 0 - st.skipped)) := by
  intro rows
  induction rows with
  | nil => intro st _; simp [acceptRows, dedupById, takeOpt_nil]
  | cons r rs ih =>
    intro st hst
    simp only [acceptRows, hst, Bool.false_eq_true, if_false]
    cases hid : r.1 with
    | none =>
      simp only [tryAccept, dedupById, hid]
      exact accept_tail_step lim off st hst r rs _ (fun st' h1 h2 => by rw [ih st' h1, h2])
    | some i =>
      simp only [tryAccept, dedupById, hid]
      by_cases hc : st.seen.contains i = true
      · simp only [hc, if_true, Bool.false_eq_true, if_false]
        exact ih st hst
      · simp only [hc, if_false, Bool.false_eq_true]
        exact accept_tail_step lim off { st with seen := i :: st.seen } hst r rs _
          (fun st' h1 h2 => by rw [ih st' h1, h2])

/-- `try_accept_row` over a whole response: dedup by id, then OFFSET, then LIMIT. -/
theorem acceptRows_spec (lim off : Option Nat) (rows : List (Option Nat × β)) :
    acceptRows lim off {} rows = takeOpt lim ((dedupById [] rows).drop (off.getD 0)) := by
  rw [acceptRows_gen lim off rows {} rfl]
  cases lim <;> simp

end Accept


/-! ## `ScalarValue::compare` on homogeneous columns -/

theorem icmp (a b : Int) : compare a b = if a < b then .lt else if a = b then .eq else .gt := by
  simp [compare, compareOfLessAndEq]

theorem ncmp (a b : Nat) : compare a b = if a < b then .lt else if a = b then .eq else .gt := by
  simp [compare, compareOfLessAndEq]

/-- A comparison that is the integer order of a key is a total preorder. -/
theorem tpo_of_key {α : Type} {cmp : α → α → Ordering} {P : α → Prop} (k : α → Int)
    (h : ∀ a b, P a → P b → cmp a b = compare (k a) (k b)) : TPO cmp P := by
  constructor
  · intro a b ha hb
    rw [h a b ha hb, h b a hb ha, icmp, icmp]
    split <;> split <;> (try split) <;> simp_all [Ordering.swap] <;> omega
  · intro a b c ha hb hc
    rw [h a b ha hb, h b c hb hc, h a c ha hc, icmp, icmp, icmp]
    intro h1 h2
    have e1 : k a ≤ k b := by
      split at h1
      · omega
      · split at h1
        · omega
        · simp at h1
    have e2 : k b ≤ k c := by
      split at h2
      · omega
      · split at h2
        · omega
        · simp at h2
    split
    · simp
    · split
      · simp
      · omega

theorem cmpBytes_swap : ∀ a b : List Nat, cmpBytes b a = (cmpBytes a b).swap := by
  intro a
  induction a with
  | nil => intro b; cases b <;> simp [cmpBytes, Ordering.swap]
  | cons x xs ih =>
    intro b
    cases b with
    | nil => simp [cmpBytes, Ordering.swap]
    | cons y ys =>
      simp only [cmpBytes]
      split <;> split <;> (try split) <;> simp_all [Ordering.swap] <;> omega

theorem cmpBytes_trans : ∀ a b c : List Nat, cmpBytes a b ≠ .gt → cmpBytes b c ≠ .gt → cmpBytes a c ≠ .gt := by
  intro a
  induction a with
  | nil => intro b c _ _; cases c <;> simp [cmpBytes]
  | cons x xs ih =>
    intro b c h1 h2
    cases b with
    | nil => simp [cmpBytes] at h1
    | cons y ys =>
      cases c with
      | nil => simp [cmpBytes] at h2
      | cons z zs =>
        simp only [cmpBytes] at h1 h2 ⊢
        by_cases hxy : x < y
        · by_cases hyz : y < z
          · have : x < z := by omega
            simp [this]
          · by_cases hzy : z < y
            · simp [hyz, hzy] at h2
            · have : x < z := by omega
              simp [this]
        · by_cases hyx : y < x
          · simp [hxy, hyx] at h1
          · have exy : x = y := by omega
            subst exy
            simp only [hxy, if_false] at h1
            by_cases hxz : x < z
            · simp [hxz]
            · by_cases hzx : z < x
              · simp [hxz, hzx] at h2
              · simp only [hxz, hzx, if_false] at h2 ⊢
                exact ih ys zs h1 h2

theorem cmpBytes_tpo : TPO cmpBytes (fun _ => True) :=
  ⟨fun a b _ _ => cmpBytes_swap a b, fun a b c _ _ _ => cmpBytes_trans a b c⟩

/-- A comparison that is the byte order of a key is a total preorder. -/
theorem tpo_of_bytes_key {α : Type} {cmp : α → α → Ordering} {P : α → Prop} (k : α → List Nat)
    (h : ∀ a b, P a → P b → cmp a b = cmpBytes (k a) (k b)) : TPO cmp P := by
  constructor
  · intro a b ha hb; rw [h a b ha hb, h b a hb ha]; exact cmpBytes_swap _ _
  · intro a b c ha hb hc; rw [h a b ha hb, h b c hb hc, h a c ha hc]; exact cmpBytes_trans _ _ _

theorem natDecAux_ne_nil : ∀ (f n : Nat) (acc : List Nat), (f ≠ 0 ∨ acc ≠ []) → natDecAux f n acc ≠ [] := by
  intro f
  induction f with
  | zero => intro n acc h; rcases h with h | h; exact absurd rfl h; simpa [natDecAux] using h
  | succ f ih =>
    intro n acc _
    simp only [natDecAux]
    split
    · simp
    · exact ih _ _ (Or.inr (by simp))

theorem intDec_ne_nil (i : Int) : intDec i ≠ [] := by
  unfold intDec natDec
  split
  · simp
  · exact natDecAux_ne_nil _ _ _ (Or.inl (by omega))

theorem cmpBytes_nil_left {l : List Nat} (h : l ≠ []) : cmpBytes [] l = .lt := by
  cases l with
  | nil => exact absurd rfl h
  | cons x xs => rfl

theorem cmpBytes_nil_right {l : List Nat} (h : l ≠ []) : cmpBytes l [] = .gt := by
  cases l with
  | nil => exact absurd rfl h
  | cons x xs => rfl

theorem digitsToDec_ne_nil (ds : List Nat) (k : Int) : digitsToDec ds k ≠ [] := by
  unfold digitsToDec
  simp only
  split
  · simp
  · split
    · simp
    · rename_i h1 h2
      cases ds with
      | nil =>
        simp only [List.map_nil, List.length_nil, Nat.sub_zero, List.nil_append]
        have : k.toNat ≠ 0 := by omega
        intro hc
        have := congrArg List.length hc
        simp at this
        omega
      | cons d ds => simp

theorem f64ToString_ne_nil (b : Nat) : f64ToString b ≠ [] := by
  unfold f64ToString
  split
  · simp
  · simp only
    split
    · simp
    · split
      · simp
      · split
        · simp
        · exact digitsToDec_ne_nil _ _


def InI64 (i : Int) : Prop := -2 ^ 63 ≤ i ∧ i < 2 ^ 63

/-- A string that none of the numeric / boolean conversions accepts. -/
def PlainStr (s : List Nat) : Prop :=
  parseU64 s = none ∧ parseI64 s = none ∧ parseF64 s = none ∧ SV.strBool s = none

inductive ColKind where
  | int | ts | float | bool | plainStr

/-- Values that reach the comparison for a field of the kind: a value of the type, or Null for a
    missing key. -/
def InCol : ColKind → SV → Prop
  | .int, v => v = .null ∨ ∃ i, v = .int i ∧ InI64 i
  | .ts, v => v = .null ∨ ∃ i, v = .ts i ∧ InI64 i
  | .float, v => v = .null ∨ ∃ f, v = .float f ∧ fIsNaN f = false
  | .bool, v => v = .null ∨ ∃ b, v = .bool b
  | .plainStr, v => v = .null ∨ ∃ s, v = .utf8 s ∧ PlainStr s

theorem cmp_null_null : SV.compare .null .null = .eq := by decide

theorem cmp_null_left (v : SV) :
    SV.compare .null v = cmpBytes [] v.toStringRepr := by
  cases v <;> simp [SV.compare, SV.asU64, SV.asI64, SV.asF64, SV.asBool, SV.asStr, SV.toStringRepr]

theorem cmp_null_right (v : SV) : SV.compare v .null = cmpBytes v.toStringRepr [] := by
  cases v <;> simp [SV.compare, SV.asU64, SV.asI64, SV.asF64, SV.asBool, SV.asStr, SV.toStringRepr] <;>
    (try split) <;> simp_all

theorem cmp_int_int (i j : Int) : SV.compare (.int i) (.int j) = compare i j := by
  simp only [SV.compare, SV.asU64, SV.asI64]
  by_cases hi : i ≥ 0 <;> by_cases hj : j ≥ 0 <;> simp [hi, hj]
  rw [ncmp, icmp]
  split <;> split <;> (try split) <;> (try split) <;> simp_all <;> omega

theorem cmp_ts_ts (i j : Int) : SV.compare (.ts i) (.ts j) = compare i j := by
  simp only [SV.compare, SV.asU64, SV.asI64]
  by_cases hi : i ≥ 0 <;> by_cases hj : j ≥ 0 <;> simp [hi, hj]
  rw [ncmp, icmp]
  split <;> split <;> (try split) <;> (try split) <;> simp_all <;> omega

theorem cmp_float_float (x y : Nat) (hx : fIsNaN x = false) (hy : fIsNaN y = false) :
    SV.compare (.float x) (.float y) = compare (fKey x) (fKey y) := by
  simp [SV.compare, SV.asU64, SV.asI64, SV.asF64, fPartialCmp, hx, hy]

theorem cmp_bool_bool (x y : Bool) :
    SV.compare (.bool x) (.bool y) = compare (if x then (1 : Int) else 0) (if y then 1 else 0) := by
  cases x <;> cases y <;> decide

theorem cmp_str_str (s t : List Nat) (hs : PlainStr s) (ht : PlainStr t) :
    SV.compare (.utf8 s) (.utf8 t) = cmpBytes s t := by
  obtain ⟨a1, a2, a3, a4⟩ := hs
  obtain ⟨b1, b2, b3, b4⟩ := ht
  simp [SV.compare, SV.asU64, SV.asI64, SV.asF64, SV.asBool, SV.asStr, a1, a2, a3, a4, b1, b2, b3, b4]


def intKey : SV → Int
  | .int i => i
  | .ts i => i
  | .float f => fKey f
  | .bool b => if b then 1 else 0
  | _ => -2 ^ 64

def strKey : SV → List Nat
  | .utf8 s => s
  | _ => []

theorem fKey_bound (b : Nat) : -2 ^ 63 < fKey b ∧ fKey b < 2 ^ 63 := by
  unfold fKey
  have : b % 2 ^ 63 < 2 ^ 63 := Nat.mod_lt _ (by decide)
  split <;> omega

/-- `ScalarValue::compare` is a total preorder on every homogeneous typed column (missing keys
    included): integers, timestamps, floats without NaN, booleans, and strings that none of the
    numeric / boolean conversions accepts. -/
theorem compare_tpo_col (c : ColKind) : TPO SV.compare (InCol c) := by
  cases c with
  | int =>
    refine tpo_of_key intKey ?_
    rintro a b (rfl | ⟨i, rfl, hi⟩) (rfl | ⟨j, rfl, hj⟩)
    · rw [cmp_null_null]; simp [intKey]
    · rw [cmp_null_left, SV.toStringRepr, cmpBytes_nil_left (intDec_ne_nil j)]
      unfold InI64 at hj
      simp only [intKey, icmp]; rw [if_pos (by omega)]
    · rw [cmp_null_right, SV.toStringRepr, cmpBytes_nil_right (intDec_ne_nil i)]
      unfold InI64 at hi
      simp only [intKey, icmp]; rw [if_neg (by omega), if_neg (by omega)]
    · exact cmp_int_int i j
  | ts =>
    refine tpo_of_key intKey ?_
    rintro a b (rfl | ⟨i, rfl, hi⟩) (rfl | ⟨j, rfl, hj⟩)
    · rw [cmp_null_null]; simp [intKey]
    · rw [cmp_null_left, SV.toStringRepr, cmpBytes_nil_left (intDec_ne_nil j)]
      unfold InI64 at hj
      simp only [intKey, icmp]; rw [if_pos (by omega)]
    · rw [cmp_null_right, SV.toStringRepr, cmpBytes_nil_right (intDec_ne_nil i)]
      unfold InI64 at hi
      simp only [intKey, icmp]; rw [if_neg (by omega), if_neg (by omega)]
    · exact cmp_ts_ts i j
  | float =>
    refine tpo_of_key intKey ?_
    rintro a b (rfl | ⟨x, rfl, hx⟩) (rfl | ⟨y, rfl, hy⟩)
    · rw [cmp_null_null]; simp [intKey]
    · rw [cmp_null_left, SV.toStringRepr, cmpBytes_nil_left (f64ToString_ne_nil y)]
      have := fKey_bound y
      simp only [intKey, icmp]; rw [if_pos (by omega)]
    · rw [cmp_null_right, SV.toStringRepr, cmpBytes_nil_right (f64ToString_ne_nil x)]
      have := fKey_bound x
      simp only [intKey, icmp]; rw [if_neg (by omega), if_neg (by omega)]
    · exact cmp_float_float x y hx hy
  | bool =>
    refine tpo_of_key intKey ?_
    rintro a b (rfl | ⟨x, rfl⟩) (rfl | ⟨y, rfl⟩)
    · rw [cmp_null_null]; simp [intKey]
    · cases y <;> decide
    · cases x <;> decide
    · exact cmp_bool_bool x y
  | plainStr =>
    refine tpo_of_bytes_key strKey ?_
    rintro a b (rfl | ⟨s, rfl, hs⟩) (rfl | ⟨t, rfl, ht⟩)
    · rfl
    · rw [cmp_null_left]; rfl
    · rw [cmp_null_right]; rfl
    · exact cmp_str_str s t hs ht


/-! ## Unordered LIMIT / OFFSET -/

section Unordered
variable {β : Type}

theorem nodup_map_some (l : List Nat) (h : l.Nodup) : (l.map some).Nodup :=
  List.Pairwise.map some (fun _ _ hab hc => hab (Option.some.inj hc)) h

/-- Facts about `dedupById` when every row carries an id. -/
theorem dedup_facts : ∀ (rows : List (Option Nat × β)) (seen : List Nat),
    (∀ r ∈ rows, ∃ i, r.1 = some i) →
    ((dedupById seen rows).map (·.1)).Nodup ∧
    (∀ r ∈ dedupById seen rows, r ∈ rows ∧ ∀ i, r.1 = some i → i ∉ seen) ∧
    (∀ r ∈ rows, ∀ i, r.1 = some i → i ∈ seen ∨ some i ∈ (dedupById seen rows).map (·.1)) := by
  intro rows
  induction rows with
  | nil => intro seen _; simp [dedupById]
  | cons r rs ih =>
    intro seen hall
    obtain ⟨i, hi⟩ := hall r (by simp)
    have hrs : ∀ r ∈ rs, ∃ i, r.1 = some i := fun x hx => hall x (by simp [hx])
    simp only [dedupById, hi]
    by_cases hc : seen.contains i = true
    · simp only [hc, if_true]
      obtain ⟨h1, h2, h3⟩ := ih seen hrs
      refine ⟨h1, fun x hx => ⟨List.mem_cons_of_mem _ (h2 x hx).1, (h2 x hx).2⟩, ?_⟩
      intro x hx j hj
      rcases List.mem_cons.mp hx with rfl | hx
      · rw [hi] at hj; cases hj; left; simpa using hc
      · exact h3 x hx j hj
    · simp only [hc, Bool.false_eq_true, if_false]
      obtain ⟨h1, h2, h3⟩ := ih (i :: seen) hrs
      have hni : i ∉ seen := by simpa using hc
      refine ⟨?_, ?_, ?_⟩
      · simp only [List.map_cons, List.nodup_cons]
        refine ⟨?_, h1⟩
        intro hmem
        obtain ⟨x, hx, hxe⟩ := List.mem_map.mp hmem
        exact (h2 x hx).2 i (by rw [hxe, hi]) (by simp)
      · intro x hx
        rcases List.mem_cons.mp hx with rfl | hx
        · exact ⟨by simp, fun j hj => by rw [hi] at hj; cases hj; exact hni⟩
        · exact ⟨List.mem_cons_of_mem _ (h2 x hx).1, fun j hj hjs => (h2 x hx).2 j hj (by simp [hjs])⟩
      · intro x hx j hj
        rcases List.mem_cons.mp hx with rfl | hx
        · rw [hi] at hj; cases hj; right; simp [hi]
        · rcases h3 x hx j hj with h | h
          · rcases List.mem_cons.mp h with rfl | h
            · right; simp [hi]
            · left; exact h
          · right; simp only [List.map_cons, List.mem_cons]; right; exact h

/-- Unordered LIMIT n OFFSET m: every flow delivers at most `n+m` matching rows (each event at
most once per flow), the coordinator forwards them in any arrival order, the response writer
dedups by id, skips `m`, emits `n`. The response then holds `min n (d - m)` rows, where `d` is
the number of distinct matching events; they are matching rows with pairwise different ids. -/
theorem unordered_limit (n m : Nat) (flows : List (List (Nat × β)))
    (hnd : ∀ f ∈ flows, (f.map (·.1)).Nodup)
    (arrived : List (Nat × β)) (harr : arrived.Perm (flows.map (·.take (n + m))).flatten)
    (dist : List Nat) (hdn : dist.Nodup) (hdist : ∀ i, i ∈ dist ↔ ∃ r ∈ flows.flatten, r.1 = i) :
    let out := acceptRows (some n) (some m) {} (arrived.map fun r => ((some r.1 : Option Nat), r.2))
    (out.map (·.1)).Nodup ∧
    (∀ r ∈ out, ∃ x ∈ flows.flatten, r = (some x.1, x.2)) ∧
    out.length = min n (dist.length - m) := by
  intro out
  let rows : List (Option Nat × β) := arrived.map fun r => ((some r.1 : Option Nat), r.2)
  have hrows : ∀ r ∈ rows, ∃ i, r.1 = some i := by
    intro r hr
    obtain ⟨x, _, rfl⟩ := List.mem_map.mp hr
    exact ⟨x.1, rfl⟩
  obtain ⟨d1, d2, d3⟩ := dedup_facts rows [] hrows
  have hout : out = ((dedupById [] rows).drop m).take n := by
    show acceptRows (some n) (some m) {} rows = _
    rw [acceptRows_spec]; rfl
  have hsub : out.Sublist (dedupById [] rows) := by
    rw [hout]; exact (List.take_sublist _ _).trans (List.drop_sublist _ _)
  have harr_mem : ∀ x ∈ arrived, x ∈ flows.flatten := by
    intro x hx
    have := harr.subset hx
    simp only [List.mem_flatten, List.mem_map] at this ⊢
    obtain ⟨l, ⟨f, hf, rfl⟩, hxl⟩ := this
    exact ⟨f, hf, List.mem_of_mem_take hxl⟩
  have hDmem : ∀ r ∈ dedupById [] rows, ∃ x ∈ flows.flatten, r = (some x.1, x.2) := by
    intro r hr
    obtain ⟨x, hx, rfl⟩ := List.mem_map.mp (d2 r hr).1
    exact ⟨x, harr_mem x hx, rfl⟩
  refine ⟨d1.sublist (hsub.map _), fun r hr => hDmem r (hsub.subset hr), ?_⟩
  -- length
  have hle : (dedupById [] rows).length ≤ dist.length := by
    have h1 : ((dedupById [] rows).map (·.1)).length ≤ (dist.map some).length := by
      apply d1.length_le_of_subset
      intro o ho
      obtain ⟨r, hr, rfl⟩ := List.mem_map.mp ho
      obtain ⟨x, hx, rfl⟩ := hDmem r hr
      exact List.mem_map.mpr ⟨x.1, (hdist x.1).mpr ⟨x, hx, rfl⟩, rfl⟩
    simpa using h1
  have hge : min (n + m) dist.length ≤ (dedupById [] rows).length := by
    by_cases hbig : ∃ f ∈ flows, n + m ≤ f.length
    · obtain ⟨f, hf, hlen⟩ := hbig
      have hnd' : (((f.take (n + m)).map (·.1)).map some).Nodup :=
        nodup_map_some _ ((hnd f hf).sublist ((List.take_sublist _ _).map _))
      have h1 : (((f.take (n + m)).map (·.1)).map some).length ≤ ((dedupById [] rows).map (·.1)).length := by
        apply hnd'.length_le_of_subset
        intro o ho
        simp only [List.map_map, List.mem_map, Function.comp_def] at ho
        obtain ⟨x, hx, rfl⟩ := ho
        have hxa : x ∈ arrived := by
          apply harr.symm.subset
          simp only [List.mem_flatten, List.mem_map]
          exact ⟨f.take (n + m), ⟨f, hf, rfl⟩, hx⟩
        have hxr : ((some x.1 : Option Nat), x.2) ∈ rows := List.mem_map.mpr ⟨x, hxa, rfl⟩
        rcases d3 _ hxr x.1 rfl with h | h
        · cases h
        · exact h
      simp only [List.length_map, List.length_take] at h1
      omega
    · have hall : ∀ f ∈ flows, f.take (n + m) = f := by
        intro f hf
        apply List.take_of_length_le
        apply Nat.le_of_lt
        apply Nat.lt_of_not_le
        intro h; exact hbig ⟨f, hf, h⟩
      have hflat : (flows.map (·.take (n + m))) = flows := by
        conv => rhs; rw [← List.map_id flows]
        exact List.map_congr_left (fun f hf => by simpa using hall f hf)
      rw [hflat] at harr
      have h1 : (dist.map some).length ≤ ((dedupById [] rows).map (·.1)).length := by
        apply (nodup_map_some _ hdn).length_le_of_subset
        intro o ho
        obtain ⟨i, hi, rfl⟩ := List.mem_map.mp ho
        obtain ⟨x, hx, rfl⟩ := (hdist i).mp hi
        have hxa : x ∈ arrived := harr.symm.subset hx
        have hxr : ((some x.1 : Option Nat), x.2) ∈ rows := List.mem_map.mpr ⟨x, hxa, rfl⟩
        rcases d3 _ hxr x.1 rfl with h | h
        · cases h
        · exact h
      simp only [List.length_map] at h1
      omega
  rw [hout, List.length_take, List.length_drop]
  omega

end Unordered

/-! ## The page of an unordered response under duplicated input -/

section Page
variable {β : Type}

/-- The page of an unordered LIMIT n OFFSET m response, for ANY incoming row sequence (the same
    event id may arrive any number of times, in any positions): distinct ids, rows that arrived,
    and exactly `min n (d - m)` of them, `d` = number of distinct ids that arrived. -/
theorem accept_page (n m : Nat) (rows : List (Nat × β))
    (dist : List Nat) (hdn : dist.Nodup) (hdist : ∀ i, i ∈ dist ↔ ∃ r ∈ rows, r.1 = i) :
    let out := acceptRows (some n) (some m) {} (rows.map fun r => ((some r.1 : Option Nat), r.2))
    (out.map (·.1)).Nodup ∧
    (∀ r ∈ out, ∃ x ∈ rows, r = (some x.1, x.2)) ∧
    out.length = min n (dist.length - m) := by
  intro out
  let rs : List (Option Nat × β) := rows.map fun r => ((some r.1 : Option Nat), r.2)
  have hrs : ∀ r ∈ rs, ∃ i, r.1 = some i := by
    intro r hr
    obtain ⟨x, _, rfl⟩ := List.mem_map.mp hr
    exact ⟨x.1, rfl⟩
  obtain ⟨d1, d2, d3⟩ := dedup_facts rs [] hrs
  have hout : out = ((dedupById [] rs).drop m).take n := by
    show acceptRows (some n) (some m) {} rs = _
    rw [acceptRows_spec]; rfl
  have hsub : out.Sublist (dedupById [] rs) := by
    rw [hout]; exact (List.take_sublist _ _).trans (List.drop_sublist _ _)
  have hDmem : ∀ r ∈ dedupById [] rs, ∃ x ∈ rows, r = (some x.1, x.2) := by
    intro r hr
    obtain ⟨x, hx, rfl⟩ := List.mem_map.mp (d2 r hr).1
    exact ⟨x, hx, rfl⟩
  refine ⟨d1.sublist (hsub.map _), fun r hr => hDmem r (hsub.subset hr), ?_⟩
  have hle : ((dedupById [] rs).map (·.1)).length ≤ (dist.map some).length := by
    apply d1.length_le_of_subset
    intro o ho
    obtain ⟨r, hr, rfl⟩ := List.mem_map.mp ho
    obtain ⟨x, hx, rfl⟩ := hDmem r hr
    exact List.mem_map.mpr ⟨x.1, (hdist x.1).mpr ⟨x, hx, rfl⟩, rfl⟩
  have hge : (dist.map some).length ≤ ((dedupById [] rs).map (·.1)).length := by
    apply (nodup_map_some _ hdn).length_le_of_subset
    intro o ho
    obtain ⟨i, hi, rfl⟩ := List.mem_map.mp ho
    obtain ⟨x, hx, rfl⟩ := (hdist i).mp hi
    have hxr : ((some x.1 : Option Nat), x.2) ∈ rs := List.mem_map.mpr ⟨x, hx, rfl⟩
    rcases d3 _ hxr x.1 rfl with h | h
    · cases h
    · exact h
  simp only [List.length_map] at hle hge
  rw [hout, List.length_take, List.length_drop]
  omega

/-- Counting OFFSET before dropping duplicates (`skip m` on the raw sequence, then dedup, then
    `take n`) is a different function: a repeated id is skipped twice and shows up again. -/
def offsetFirst (n m : Nat) (rows : List (Option Nat × β)) : List (Option Nat × β) :=
  (dedupById [] (rows.drop m)).take n

end Page

/-! ## u64 columns -/

/-- On values that both read as u64 — `Int64 ≥ 0`, `Timestamp ≥ 0`, or a string that parses as
    u64, which is how the engine carries u64 values above `i64::MAX` — `compare` is the order of
    the readings as natural numbers. No bound on the readings enters. -/
theorem compare_of_asU64 (a b : SV) (x y : Nat) (ha : a.asU64 = some x) (hb : b.asU64 = some y) :
    SV.compare a b = compare x y := by
  unfold SV.compare
  rw [ha, hb]

theorem compare_tpo_u64 : TPO SV.compare (fun v => ∃ u, v.asU64 = some u) := by
  refine tpo_of_key (fun v => ((v.asU64.getD 0 : Nat) : Int)) ?_
  rintro a b ⟨x, hx⟩ ⟨y, hy⟩
  rw [compare_of_asU64 a b x y hx hy, hx, hy, ncmp, icmp]
  simp only [Option.getD_some]
  split <;> split <;> (try split) <;> (try split) <;> simp_all <;> omega

end Snel.Order
