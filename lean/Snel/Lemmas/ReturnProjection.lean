import Snel.Model.ReturnProjection
/-! Helper lemmas for `compute_return_projection`. -/
namespace Snel.ReturnProjection

theorem position_some {input : List String} {name : String} {i : Nat}
    (h : position input name = some i) : ∃ hi : i < input.length, input[i] = name := by
  unfold position at h
  simp only at h
  split at h
  · rename_i hlt
    simp at h; subst h
    exact ⟨hlt, List.getElem_idxOf hlt⟩
  · simp at h

theorem position_of_mem {input : List String} {name : String} (h : name ∈ input) :
    ∃ i, position input name = some i := by
  refine ⟨input.idxOf name, ?_⟩
  unfold position
  simp [List.idxOf_lt_length_of_mem h]

theorem position_none {input : List String} {name : String} (h : position input name = none) :
    name ∉ input := by
  intro hm
  obtain ⟨i, hi⟩ := position_of_mem hm
  rw [hi] at h; simp at h

/-- every index is a position inside the input -/
def InBounds (input : List String) (idx : List Nat) : Prop := ∀ i ∈ idx, i < input.length

theorem outNames_mem {input : List String} {idx : List Nat} {name : String} :
    name ∈ outNames input idx ↔ ∃ i ∈ idx, input[i]? = some name := by
  simp [outNames, List.mem_filterMap]

theorem addReturn_spec (input payload : List String) (fields : List String) (acc : List Nat)
    (hacc : InBounds input acc) :
    InBounds input (addReturn input payload fields acc) ∧
    (∀ i, i ∈ addReturn input payload fields acc ↔
      i ∈ acc ∨ ∃ f ∈ fields, f ∈ payload ∧ position input f = some i) ∧
    (acc.Nodup → (addReturn input payload fields acc).Nodup) := by
  induction fields generalizing acc with
  | nil => simp [addReturn, hacc]
  | cons f fs ih =>
    simp only [addReturn]
    by_cases hp : payload.contains f = true
    · simp only [hp, if_true]
      cases hpos : position input f with
      | none =>
        simp only
        obtain ⟨h1, h2, h3⟩ := ih acc hacc
        refine ⟨h1, ?_, h3⟩
        intro i
        rw [h2 i]
        constructor
        · rintro (h | ⟨g, hg, hgp, hgi⟩)
          · exact Or.inl h
          · exact Or.inr ⟨g, List.mem_cons_of_mem _ hg, hgp, hgi⟩
        · rintro (h | ⟨g, hg, hgp, hgi⟩)
          · exact Or.inl h
          · simp only [List.mem_cons] at hg
            rcases hg with rfl | hg
            · rw [hpos] at hgi; simp at hgi
            · exact Or.inr ⟨g, hg, hgp, hgi⟩
      | some idx =>
        simp only
        obtain ⟨hlt, _⟩ := position_some hpos
        by_cases hc : acc.contains idx = true
        · simp only [hc, if_true]
          obtain ⟨h1, h2, h3⟩ := ih acc hacc
          refine ⟨h1, ?_, h3⟩
          intro i
          rw [h2 i]
          constructor
          · rintro (h | ⟨g, hg, hgp, hgi⟩)
            · exact Or.inl h
            · exact Or.inr ⟨g, List.mem_cons_of_mem _ hg, hgp, hgi⟩
          · rintro (h | ⟨g, hg, hgp, hgi⟩)
            · exact Or.inl h
            · simp only [List.mem_cons] at hg
              rcases hg with rfl | hg
              · rw [hpos] at hgi; simp at hgi; subst hgi
                exact Or.inl (by simpa using hc)
              · exact Or.inr ⟨g, hg, hgp, hgi⟩
        · simp only [hc, Bool.false_eq_true, if_false]
          have hacc' : InBounds input (acc ++ [idx]) := by
            intro i hi
            simp only [List.mem_append, List.mem_singleton] at hi
            rcases hi with hi | rfl
            · exact hacc i hi
            · exact hlt
          obtain ⟨h1, h2, h3⟩ := ih (acc ++ [idx]) hacc'
          refine ⟨h1, ?_, ?_⟩
          · intro i
            rw [h2 i]
            simp only [List.mem_append, List.mem_singleton]
            constructor
            · rintro ((h | rfl) | ⟨g, hg, hgp, hgi⟩)
              · exact Or.inl h
              · exact Or.inr ⟨f, List.mem_cons_self, by simpa using hp, hpos⟩
              · exact Or.inr ⟨g, List.mem_cons_of_mem _ hg, hgp, hgi⟩
            · rintro (h | ⟨g, hg, hgp, hgi⟩)
              · exact Or.inl (Or.inl h)
              · simp only [List.mem_cons] at hg
                rcases hg with rfl | hg
                · rw [hpos] at hgi; simp at hgi; subst hgi
                  exact Or.inl (Or.inr rfl)
                · exact Or.inr ⟨g, hg, hgp, hgi⟩
          · intro hnd
            apply h3
            rw [List.nodup_append]
            refine ⟨hnd, by simp, ?_⟩
            intro a ha b hb
            simp only [List.mem_singleton] at hb
            subst hb
            intro hab; subst hab
            exact hc (by simpa using ha)
    · simp only [hp, Bool.false_eq_true, if_false]
      obtain ⟨h1, h2, h3⟩ := ih acc hacc
      refine ⟨h1, ?_, h3⟩
      intro i
      rw [h2 i]
      constructor
      · rintro (h | ⟨g, hg, hgp, hgi⟩)
        · exact Or.inl h
        · exact Or.inr ⟨g, List.mem_cons_of_mem _ hg, hgp, hgi⟩
      · rintro (h | ⟨g, hg, hgp, hgi⟩)
        · exact Or.inl h
        · simp only [List.mem_cons] at hg
          rcases hg with rfl | hg
          · exact absurd (by simpa using hgp) hp
          · exact Or.inr ⟨g, hg, hgp, hgi⟩

theorem core_inBounds (input : List String) :
    InBounds input (coreFields.filterMap (position input)) := by
  intro i hi
  simp only [List.mem_filterMap] at hi
  obtain ⟨c, _, hc⟩ := hi
  exact (position_some hc).1

theorem projection_inBounds (input : List String) (ret : Option (List String)) (payload : List String) :
    InBounds input (projection input ret payload) := by
  unfold projection
  split
  · intro i hi; simpa using hi
  · intro i hi; simpa using hi
  · exact (addReturn_spec input payload _ _ (core_inBounds input)).1

/-- Every output cell sits under the header it had in the input. -/
theorem project_cells {α : Type} (input : List String) (idx : List Nat) (row : List α)
    (hb : InBounds input idx) (hrow : row.length = input.length) :
    ∀ p ∈ List.zip (outNames input idx) (projectRow idx row), p ∈ List.zip input row := by
  induction idx with
  | nil => simp [outNames, projectRow]
  | cons i is ih =>
    have hi : i < input.length := hb i List.mem_cons_self
    have hir : i < row.length := by omega
    have hrest : InBounds input is := fun j hj => hb j (List.mem_cons_of_mem _ hj)
    intro p hp
    simp only [outNames, projectRow, List.filterMap_cons, List.getElem?_eq_getElem hi,
      List.getElem?_eq_getElem hir, List.zip_cons_cons, List.mem_cons] at hp
    rcases hp with rfl | hp
    · rw [List.mem_iff_getElem]
      refine ⟨i, by simp; omega, by simp⟩
    · exact ih hrest p hp

end Snel.ReturnProjection
