import Snel.Lemmas.ShardFresh
import Snel.Model.Compact
/-!
The level-0 id range is finite (`levelSpan` ids) while the level-0 counter of a process lifetime
is not bounded: every rotation — also the rotation of an empty memtable by a manual FLUSH —
consumes an id. These lemmas compute the state after `n` idle FLUSH commands, for every `n`.
-/
namespace Snel.Shard

/-- State summary that idle flushes preserve. -/
structure Idle (s : Shard) : Prop where
  mem : s.mem = []
  jobs : s.jobs = []

theorem flushCmd_idle (s : Shard) (h : Idle s) :
    (step s .flushCmd).mem = [] ∧ (step s .flushCmd).jobs = [] ∧
    (step s .flushCmd).nextL0 = s.nextL0 + 1 ∧ (step s .flushCmd).segs = s.segs ∧
    (step s .flushCmd).cap = s.cap ∧ (step s .flushCmd).live = s.live := by
  simp [step, flushCmd, rotate, drainAll, drain, flushStep, jobSteps, h.mem, h.jobs]

theorem idle_flushes (n : Nat) : ∀ (s : Shard), Idle s →
    let t := runOps s (List.replicate n Op.flushCmd)
    Idle t ∧ t.nextL0 = s.nextL0 + n ∧ t.segs = s.segs ∧ t.cap = s.cap ∧ t.live = s.live := by
  induction n with
  | zero => intro s h; exact ⟨h, by simp [runOps], by simp [runOps], by simp [runOps], by simp [runOps]⟩
  | succ n ih =>
    intro s h
    obtain ⟨hm, hj, hn, hs, hc, hl⟩ := flushCmd_idle s h
    have := ih (step s .flushCmd) ⟨hm, hj⟩
    simp only [runOps, List.replicate_succ, List.foldl_cons] at this ⊢
    obtain ⟨hi, hn', hs', hc', hl'⟩ := this
    exact ⟨hi, by rw [hn', hn]; omega, by rw [hs', hs], by rw [hc', hc], by rw [hl', hl]⟩

theorem store_keeps (t : Shard) (e : Ev) (h : t.mem.length + 1 < t.cap) :
    (store t e).mem = t.mem ++ [e] ∧ (store t e).jobs = t.jobs ∧ (store t e).nextL0 = t.nextL0 ∧
    (store t e).segs = t.segs ∧ (store t e).cap = t.cap := by
  obtain ⟨hm, _, hj, _, hn, hs, hc⟩ := walAppend_frame t e
  have hnot : ¬ ((walAppend t e).cap ≤ (walAppend t e).mem.length + 1) := by rw [hc, hm]; omega
  simp only [store, List.length_append, List.length_cons, List.length_nil, ge_iff_le, hnot, if_false]
  exact ⟨by rw [hm], hj, hn, hs, hc⟩

theorem store_rotates (t : Shard) (e : Ev) (h : t.cap ≤ t.mem.length + 1) :
    (store t e).jobs = t.jobs ++ [⟨t.nextL0, t.mem ++ [e], 0⟩] ∧ (store t e).segs = t.segs := by
  obtain ⟨hm, _, hj, _, hn, hs, hc⟩ := walAppend_frame t e
  have hyes : (walAppend t e).cap ≤ (walAppend t e).mem.length + 1 := by rw [hc, hm]; omega
  simp only [store, List.length_append, List.length_cons, List.length_nil, ge_iff_le, hyes, if_true, rotate]
  exact ⟨by rw [hj, hn, hm], hs⟩

/-- Two stores into an idle shard of capacity 2 queue a job under the current counter. -/
theorem two_stores_queue (s : Shard) (h : Idle s) (hc : s.cap = 2) (a b : Ev) :
    let t := runOps s [.store a, .store b]
    t.jobs = [⟨s.nextL0, [a, b], 0⟩] ∧ t.segs = s.segs := by
  obtain ⟨hm, hj, hn, hs, hcap⟩ := store_keeps s a (by rw [h.mem, hc]; decide)
  obtain ⟨hj2, hs2⟩ := store_rotates (store s a) b (by rw [hm, hcap, hc, h.mem]; simp)
  simp only [runOps, List.foldl_cons, List.foldl_nil, step]
  exact ⟨by rw [hj2, hj, hn, hm, h.jobs, h.mem]; rfl, by rw [hs2, hs]⟩

/-- `n` idle FLUSH commands and two stores: the job is queued under `nextL0 + n`, whatever
directories exist. -/
theorem idle_flushes_then_stores (s1 : Shard) (h : Idle s1) (hc : s1.cap = 2) (n : Nat) (a b : Ev) :
    (runOps (runOps s1 (List.replicate n Op.flushCmd)) [.store a, .store b]).jobs
        = [⟨s1.nextL0 + n, [a, b], 0⟩] ∧
    (runOps (runOps s1 (List.replicate n Op.flushCmd)) [.store a, .store b]).segs = s1.segs := by
  obtain ⟨hi, hn, hs, hc', _⟩ := idle_flushes n s1 h
  obtain ⟨hj, hsg⟩ := two_stores_queue _ hi (by rw [hc', hc]) a b
  exact ⟨by rw [hj, hn], by rw [hsg, hs]⟩

end Snel.Shard
