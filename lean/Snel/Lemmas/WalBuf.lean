import Snel.Model.WalBuf
/-! Byte-level WAL writer: what a kill can leave on disk, for every buffer capacity. -/
namespace Snel.WalBuf

/-- The bytes of a list of entries, each terminated by a newline. -/
def enc (es : List (List Nat)) : List Nat := es.flatMap (· ++ [nl])

theorem enc_append (a b : List (List Nat)) : enc (a ++ b) = enc a ++ enc b := by
  simp [enc, List.flatMap_append]

theorem enc_single (e : List Nat) : enc [e] = e ++ [nl] := by simp [enc]

/-! ## `write` moves bytes, never drops or reorders them -/

theorem write_all_bytes (w : W) (data : List Nat) :
    (write w data).disk ++ (write w data).buf = w.disk ++ w.buf ++ data := by
  obtain ⟨cap, disk, buf⟩ := w
  unfold write
  by_cases h1 : buf.length + data.length > cap <;> by_cases h2 : data.length ≥ cap
  · simp [h1, h2]
  · simp [h1, h2]
  · have hb : buf = [] := List.eq_nil_of_length_eq_zero (by omega)
    subst hb
    simp [h2]
  · simp [h1, h2, List.append_assoc]

theorem write_cap (w : W) (data : List Nat) : (write w data).cap = w.cap := by
  unfold write
  by_cases h1 : w.buf.length + data.length > w.cap <;> by_cases h2 : data.length ≥ w.cap <;> simp [h1, h2]

/-- The disk after a write is the old disk, the old disk plus the old buffer, or everything. -/
theorem write_disk (w : W) (data : List Nat) :
    (write w data).disk = w.disk ∨ (write w data).disk = w.disk ++ w.buf ∨
      (write w data).disk = w.disk ++ w.buf ++ data := by
  obtain ⟨cap, disk, buf⟩ := w
  unfold write
  by_cases h1 : buf.length + data.length > cap <;> by_cases h2 : data.length ≥ cap
  · right; right; simp [h1, h2]
  · right; left; simp [h1, h2]
  · -- written through although it fitted: only possible with an empty buffer
    have hb : buf = [] := List.eq_nil_of_length_eq_zero (by omega)
    subst hb
    right; right; simp [h2]
  · left; simp [h1, h2]

theorem append_all_bytes (fe : Bool) (w : W) (e : List Nat) :
    (append fe w e).disk ++ (append fe w e).buf = w.disk ++ w.buf ++ (e ++ [nl]) := by
  unfold append
  cases fe <;> simp [flush, write_all_bytes]

theorem append_disk (fe : Bool) (w : W) (e : List Nat) :
    (append fe w e).disk = w.disk ∨ (append fe w e).disk = w.disk ++ w.buf ∨
      (append fe w e).disk = w.disk ++ w.buf ++ (e ++ [nl]) := by
  unfold append
  cases fe
  · simpa using write_disk w (e ++ [nl])
  · right; right
    simp only [flush, if_true]
    exact write_all_bytes w (e ++ [nl])

/-! ## One lifetime -/

/-- Invariant while entries `done` have been appended to a writer that started with disk `d0`
and an empty buffer. -/
structure Run (d0 : List Nat) (done : List (List Nat)) (w : W) : Prop where
  all : w.disk ++ w.buf = d0 ++ enc done
  some : ∃ m, w.disk = d0 ++ enc (done.take m)

theorem run_init (w : W) (h : w.buf = []) : Run w.disk [] w :=
  ⟨by simp [h, enc], ⟨0, by simp [enc]⟩⟩

theorem run_step {d0 : List Nat} {done : List (List Nat)} {w : W} (fe : Bool) (e : List Nat)
    (h : Run d0 done w) : Run d0 (done ++ [e]) (append fe w e) := by
  constructor
  · rw [append_all_bytes, h.all, enc_append, enc_single]; simp [List.append_assoc]
  · obtain ⟨m, hm⟩ := h.some
    rcases append_disk fe w e with hd | hd | hd
    · refine ⟨min m done.length, ?_⟩
      rw [hd, hm, List.take_append_of_le_length (Nat.min_le_right _ _)]
      congr 2
      rw [List.take_eq_take_iff]
      simp
    · refine ⟨done.length, ?_⟩
      rw [hd, h.all, List.take_append_of_le_length (Nat.le_refl _), List.take_length]
    · refine ⟨done.length + 1, ?_⟩
      rw [hd, h.all, List.take_of_length_le (by simp), enc_append, enc_single]
      simp [List.append_assoc]

theorem run_fold (fe : Bool) (es : List (List Nat)) : ∀ {d0 : List Nat} {done : List (List Nat)} {w : W},
    Run d0 done w → Run d0 (done ++ es) (es.foldl (append fe) w) := by
  induction es with
  | nil => intro d0 done w h; simpa using h
  | cons e es ih =>
    intro d0 done w h
    have := ih (run_step fe e h)
    simpa [List.append_assoc] using this

/-- After a lifetime that ends in a kill, the file holds the old bytes followed by a PREFIX of
the lifetime's entries, every one of them newline-terminated. -/
theorem lifetime_disk (fe : Bool) (w : W) (hb : w.buf = []) (es : List (List Nat)) :
    (lifetime fe w es).buf = [] ∧ (lifetime fe w es).cap = w.cap ∧
      ∃ m, (lifetime fe w es).disk = w.disk ++ enc (es.take m) := by
  have hr := run_fold fe es (run_init w hb)
  simp only [List.nil_append] at hr
  refine ⟨rfl, ?_, ?_⟩
  · simp only [lifetime, kill]
    generalize hw : w.cap = c
    clear hr hb
    induction es generalizing w with
    | nil => simpa using hw
    | cons e es ih =>
      simp only [List.foldl_cons]
      apply ih
      unfold append
      cases fe <;> simp [flush, write_cap, hw]
  · obtain ⟨m, hm⟩ := hr.some
    exact ⟨m, by simpa [lifetime, kill] using hm⟩

/-- With `flush_each_write` nothing stays in the buffer: every appended entry is on disk. -/
theorem lifetime_flush_each (w : W) (hb : w.buf = []) (es : List (List Nat)) :
    (lifetime true w es).disk = w.disk ++ enc es := by
  have key : ∀ (es : List (List Nat)) (w : W), w.buf = [] →
      (es.foldl (append true) w).buf = [] ∧ (es.foldl (append true) w).disk = w.disk ++ enc es := by
    intro es
    induction es with
    | nil => intro w hb; simp [hb, enc]
    | cons e es ih =>
      intro w hb
      have hb' : (append true w e).buf = [] := by simp [append, flush]
      have hd' : (append true w e).disk = w.disk ++ (e ++ [nl]) := by
        have := append_all_bytes true w e
        rw [hb', hb] at this; simpa using this
      obtain ⟨h1, h2⟩ := ih (append true w e) hb'
      refine ⟨by simpa using h1, ?_⟩
      simp only [List.foldl_cons]
      rw [h2, hd']
      have : e :: es = [e] ++ es := rfl
      rw [this, enc_append, enc_single]; simp [List.append_assoc]
  simpa [lifetime, kill] using (key es w hb).2

/-- A clean stop writes the buffer out: every entry is on disk. -/
theorem close_disk (fe : Bool) (w : W) (hb : w.buf = []) (es : List (List Nat)) :
    (close (es.foldl (append fe) w)).disk = w.disk ++ enc es := by
  have hr := run_fold fe es (run_init w hb)
  simpa [close, flush] using hr.all

/-! ## Any number of lifetimes -/

def runLifetimes (fe : Bool) : W → List (List (List Nat)) → W
  | w, [] => w
  | w, es :: rest => runLifetimes fe (lifetime fe w es) rest

/-- What survives: the first `m_i` entries of lifetime `i`. -/
def kept : List Nat → List (List (List Nat)) → List (List Nat)
  | m :: ms, es :: rest => es.take m ++ kept ms rest
  | _, _ => []

theorem lifetimes_disk (fe : Bool) (lts : List (List (List Nat))) : ∀ (w : W), w.buf = [] →
    ∃ ms : List Nat, ms.length = lts.length ∧
      (runLifetimes fe w lts).disk = w.disk ++ enc (kept ms lts) := by
  induction lts with
  | nil => intro w _; exact ⟨[], rfl, by simp [runLifetimes, kept, enc]⟩
  | cons es rest ih =>
    intro w hb
    obtain ⟨hb', _, m, hm⟩ := lifetime_disk fe w hb es
    obtain ⟨ms, hl, hd⟩ := ih (lifetime fe w es) hb'
    refine ⟨m :: ms, by simp [hl], ?_⟩
    simp only [runLifetimes, kept]
    rw [hd, hm, enc_append]; simp [List.append_assoc]

/-- With `flush_each_write` every entry of every lifetime is on disk. -/
theorem lifetimes_flush_each (lts : List (List (List Nat))) : ∀ (w : W), w.buf = [] →
    (runLifetimes true w lts).disk = w.disk ++ enc lts.flatten := by
  induction lts with
  | nil => intro w _; simp [runLifetimes, enc]
  | cons es rest ih =>
    intro w hb
    simp only [runLifetimes, List.flatten_cons]
    rw [ih (lifetime true w es) rfl, lifetime_flush_each w hb, enc_append]; simp [List.append_assoc]

/-! ## Reading the file back -/

theorem linesAux_entry (e : List Nat) (he : nl ∉ e) : ∀ (cur rest : List Nat),
    linesAux cur (e ++ nl :: rest) = (cur ++ e) :: linesAux [] rest := by
  induction e with
  | nil => intro cur rest; simp [linesAux]
  | cons b e ih =>
    intro cur rest
    have hb : b ≠ nl := fun h => he (by simp [h])
    have he' : nl ∉ e := fun h => he (by simp [h])
    simp only [List.cons_append, linesAux, hb, if_false]
    rw [ih he']; simp [List.append_assoc]

/-- Newline-terminated entries read back as exactly those entries. -/
theorem lines_enc (es : List (List Nat)) (h : ∀ e ∈ es, nl ∉ e) : lines (enc es) = es := by
  unfold lines
  induction es with
  | nil => simp [enc, linesAux]
  | cons e es ih =>
    have : enc (e :: es) = e ++ nl :: enc es := by simp [enc]
    rw [this, linesAux_entry e (h e (by simp)), ih (fun x hx => h x (by simp [hx]))]
    simp

theorem mem_kept {ms : List Nat} {lts : List (List (List Nat))} {e : List Nat} :
    e ∈ kept ms lts → ∃ es ∈ lts, e ∈ es := by
  induction lts generalizing ms with
  | nil => cases ms <;> simp [kept]
  | cons es rest ih =>
    cases ms with
    | nil => simp [kept]
    | cons m ms =>
      simp only [kept, List.mem_append]
      rintro (h | h)
      · exact ⟨es, by simp, List.mem_of_mem_take h⟩
      · obtain ⟨x, hx, he⟩ := ih h
        exact ⟨x, by simp [hx], he⟩

end Snel.WalBuf
