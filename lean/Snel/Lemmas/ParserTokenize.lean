import Snel.Lemmas.ParserQuery
/-! The tokenizer pre-pass of `parse_command` (`validate_tokens`): exactly which texts it rejects. -/
set_option linter.unusedSimpArgs false
set_option linter.unusedVariables false
namespace Snel.Parser

/-- where the tokenizer is: outside a string literal, inside one, or after a backslash inside one -/
inductive QMode where
  | out | str | esc
deriving DecidableEq, Repr

def modeOf : TState → QMode
  | .top => .out | .word _ => .out | .num _ => .out | .str _ => .str | .esc _ => .esc

/-- a character that the tokenizer's main loop turns into `<INVALID>` -/
def badTop (U : Uni) (c : Char) : Bool := (startTok U c).1 == some Token.invalid

/-- The pre-pass as a scan: it rejects iff some character OUTSIDE the tokenizer's string literals
(quotes pair up with `\"` read as an escaped quote) is not a token character. Reaching the end of
the input inside a literal is not a rejection. -/
def scanBad (U : Uni) : QMode → Str → Bool
  | _, [] => false
  | .out, c :: cs => if c == '"' then scanBad U .str cs else if badTop U c then true else scanBad U .out cs
  | .str, c :: cs => if c == '"' then scanBad U .out cs else if c == '\\' then scanBad U .esc cs else scanBad U .str cs
  | .esc, _ :: cs => scanBad U .str cs

def modeAfter (U : Uni) : QMode → Str → QMode
  | m, [] => m
  | .out, c :: cs => if c == '"' then modeAfter U .str cs else modeAfter U .out cs
  | .str, c :: cs => if c == '"' then modeAfter U .out cs else if c == '\\' then modeAfter U .esc cs else modeAfter U .str cs
  | .esc, _ :: cs => modeAfter U .str cs

/-- std's tables: every numeric character is alphanumeric (`is_alphanumeric = is_alphabetic || is_numeric`) -/
def Uni.Coherent (U : Uni) : Prop := ∀ c, U.numeric c = true → U.alnum c = true

theorem startTok_quote (U : Uni) : startTok U '"' = (none, .str []) := by
  simp [startTok, isTokWs]

theorem startTok_cases (U : Uni) (c : Char) (hq : c ≠ '"') :
    ((startTok U c).1 = some .invalid ∧ (startTok U c).2 = .top) ∨
    ((startTok U c).1 ≠ some .invalid ∧ modeOf (startTok U c).2 = .out) := by
  have hq' : (c == '"') = false := by rw [beq_eq_false_iff_ne]; exact hq
  by_cases h1 : isTokWs c = true
  · simp [startTok, h1, modeOf, badTop]
  by_cases h2 : c = '{'
  · simp [startTok, h1, h2, modeOf, badTop, isTokWs]
  by_cases h3 : c = '}'
  · simp [startTok, h1, h2, h3, modeOf, badTop, isTokWs]
  by_cases h4 : c = ';'
  · simp [startTok, h1, h2, h3, h4, modeOf, badTop, isTokWs]
  by_cases h5 : (isDigit c || c == '-') = true
  · simp [startTok, h1, h2, h3, h4, hq, h5, modeOf, badTop]
  by_cases h6 : isTokSym c = true
  · simp [startTok, h1, h2, h3, h4, hq, h5, h6, modeOf, badTop]
  by_cases h7 : c = '['
  · simp [startTok, h1, h2, h3, h4, hq, h5, h6, h7, modeOf, badTop, isTokWs, isDigit, isTokSym]
  by_cases h8 : c = ']'
  · simp [startTok, h1, h2, h3, h4, hq, h5, h6, h7, h8, modeOf, badTop, isTokWs, isDigit, isTokSym]
  by_cases h9 : c = '('
  · simp [startTok, h1, h2, h3, h4, hq, h5, h6, h7, h8, h9, modeOf, badTop, isTokWs, isDigit, isTokSym]
  by_cases h10 : c = ')'
  · simp [startTok, h1, h2, h3, h4, hq, h5, h6, h7, h8, h9, h10, modeOf, badTop, isTokWs, isDigit, isTokSym]
  by_cases h11 : wordCh U c = true
  · simp [startTok, h1, h2, h3, h4, hq, h5, h6, h7, h8, h9, h10, h11, modeOf, badTop]
  · simp [startTok, h1, h2, h3, h4, hq, h5, h6, h7, h8, h9, h10, h11, modeOf, badTop]

theorem wordCh_not_bad (U : Uni) (c : Char) (h : wordCh U c = true) : badTop U c = false ∧ c ≠ '"' := by
  have hq : c ≠ '"' := by
    intro e; subst e
    simp [wordCh, isAlnumU, isLetter, isDigit] at h
  refine ⟨?_, hq⟩
  have h11 := h
  by_cases h1 : isTokWs c = true
  · simp [startTok, h1, modeOf, badTop]
  by_cases h2 : c = '{'
  · simp [startTok, h1, h2, modeOf, badTop, isTokWs]
  by_cases h3 : c = '}'
  · simp [startTok, h1, h2, h3, modeOf, badTop, isTokWs]
  by_cases h4 : c = ';'
  · simp [startTok, h1, h2, h3, h4, modeOf, badTop, isTokWs]
  by_cases h5 : (isDigit c || c == '-') = true
  · simp [startTok, h1, h2, h3, h4, hq, h5, modeOf, badTop]
  by_cases h6 : isTokSym c = true
  · simp [startTok, h1, h2, h3, h4, hq, h5, h6, modeOf, badTop]
  by_cases h7 : c = '['
  · simp [startTok, h1, h2, h3, h4, hq, h5, h6, h7, modeOf, badTop, isTokWs, isDigit, isTokSym]
  by_cases h8 : c = ']'
  · simp [startTok, h1, h2, h3, h4, hq, h5, h6, h7, h8, modeOf, badTop, isTokWs, isDigit, isTokSym]
  by_cases h9 : c = '('
  · simp [startTok, h1, h2, h3, h4, hq, h5, h6, h7, h8, h9, modeOf, badTop, isTokWs, isDigit, isTokSym]
  by_cases h10 : c = ')'
  · simp [startTok, h1, h2, h3, h4, hq, h5, h6, h7, h8, h9, h10, modeOf, badTop, isTokWs, isDigit, isTokSym]
  simp [startTok, h1, h2, h3, h4, hq, h5, h6, h7, h8, h9, h10, h11, modeOf, badTop]

theorem numCh_not_bad (U : Uni) (hU : U.Coherent) (c : Char) (h : numCh U c = true) : badTop U c = false ∧ c ≠ '"' := by
  have hq : c ≠ '"' := by
    intro e; subst e
    simp [numCh, isNumericU, isDigit] at h
  refine ⟨?_, hq⟩
  simp only [numCh, Bool.or_eq_true] at h
  rcases h with (h | h) | h
  · -- numeric: a digit, or a non-ASCII numeric, which is alphanumeric
    have hw : isDigit c = true ∨ wordCh U c = true := by
      unfold isNumericU at h
      split at h
      · exact Or.inl h
      · rename_i hlt
        right
        simp [wordCh, isAlnumU, hlt, hU c h]
    rcases hw with hd | hw
    · have h1 : isTokWs c = false := by
        cases hw' : isTokWs c with
        | false => rfl
        | true =>
          simp [isTokWs] at hw'
          rcases hw' with ((rfl | rfl) | rfl) | rfl <;> exact absurd hd (by decide)
      have h2 : c ≠ '{' := by intro e; subst e; exact absurd hd (by decide)
      have h3 : c ≠ '}' := by intro e; subst e; exact absurd hd (by decide)
      have h4 : c ≠ ';' := by intro e; subst e; exact absurd hd (by decide)
      simp [badTop, startTok, h1, h2, h3, h4, hq, hd]
    · exact (wordCh_not_bad U c hw).1
  · have : c = '.' := by simpa using h
    subst this; simp [badTop, startTok, isTokWs, isDigit, isTokSym]
  · have : c = '-' := by simpa using h
    subst this; simp [badTop, startTok, isTokWs, isDigit]

theorem any_optCons (t : Option Token) (ts : List Token) :
    (optCons t ts).any (· == .invalid) = ((t == some .invalid) || ts.any (· == .invalid)) := by
  cases t with
  | none => simp [optCons]
  | some t => simp [optCons]

/-- **The pre-pass is the scan.** -/
theorem tokenize_invalid_iff (U : Uni) (hU : U.Coherent) : ∀ (s : Str) (st : TState),
    (tokenizeS U st s).any (· == .invalid) = scanBad U (modeOf st) s := by
  intro s
  induction s with
  | nil => intro st; cases st <;> simp [tokenizeS, scanBad]
  | cons c cs ih =>
    -- what the main loop does with `c`
    have top : (optCons (startTok U c).1 (tokenizeS U (startTok U c).2 cs)).any (· == .invalid) = scanBad U .out (c :: cs) := by
      rw [any_optCons, ih]
      by_cases hq : c = '"'
      · subst hq; simp [startTok_quote, scanBad, modeOf]
      · have hq' : (c == '"') = false := by rw [beq_eq_false_iff_ne]; exact hq
        rcases startTok_cases U c hq with ⟨h1, h2⟩ | ⟨h1, h2⟩
        · simp [scanBad, hq', badTop, h1]
        · have hb : badTop U c = false := by simp [badTop, h1]
          have : ((startTok U c).1 == some Token.invalid) = false := by simpa [badTop] using hb
          simp [scanBad, hq', hb, this, h2]
    intro st
    cases st with
    | top => simpa [tokenizeS, modeOf] using top
    | word acc =>
      by_cases hw : wordCh U c = true
      · obtain ⟨hb, hq⟩ := wordCh_not_bad U c hw
        have hq' : (c == '"') = false := by rw [beq_eq_false_iff_ne]; exact hq
        simp [tokenizeS, hw, ih, modeOf, scanBad, hq', hb]
      · simp only [tokenizeS, hw, if_false, modeOf, Bool.false_eq_true]
        rw [List.any_cons, top]; simp
    | num acc =>
      by_cases hw : numCh U c = true
      · obtain ⟨hb, hq⟩ := numCh_not_bad U hU c hw
        have hq' : (c == '"') = false := by rw [beq_eq_false_iff_ne]; exact hq
        simp [tokenizeS, hw, ih, modeOf, scanBad, hq', hb]
      · simp only [tokenizeS, hw, if_false, modeOf, Bool.false_eq_true]
        rw [List.any_cons, top]; simp
    | str acc =>
      by_cases hq : (c == '"') = true
      · simp [tokenizeS, hq, ih, modeOf, scanBad]
      · by_cases hb : (c == '\\') = true
        · simp [tokenizeS, hq, hb, ih, modeOf, scanBad]
        · simp [tokenizeS, hq, hb, ih, modeOf, scanBad]
    | esc acc => simp [tokenizeS, ih, modeOf, scanBad]

theorem scanBad_append (U : Uni) : ∀ (a b : Str) (m : QMode),
    scanBad U m (a ++ b) = (scanBad U m a || scanBad U (modeAfter U m a) b) := by
  intro a
  induction a with
  | nil => intro b m; cases m <;> simp [scanBad, modeAfter]
  | cons c cs ih =>
    intro b m
    cases m <;> simp only [List.cons_append, scanBad, modeAfter] <;> (repeat' split) <;> simp [ih]

theorem modeAfter_append (U : Uni) : ∀ (a b : Str) (m : QMode),
    modeAfter U m (a ++ b) = modeAfter U (modeAfter U m a) b := by
  intro a
  induction a with
  | nil => intro b m; cases m <;> simp [modeAfter]
  | cons c cs ih =>
    intro b m
    cases m <;> simp only [List.cons_append, modeAfter] <;> (repeat' split) <;> simp [ih]

/-- An unterminated literal is never rejected: inside a literal nothing is flagged as long as no
unescaped quote closes it — in particular when the text simply ends. -/
theorem scanBad_in_literal (U : Uni) : ∀ (s : Str) (m : QMode), m ≠ .out → s.all notQuote = true → scanBad U m s = false := by
  intro s
  induction s with
  | nil => intro m _ _; cases m <;> rfl
  | cons c cs ih =>
    intro m hm hs
    simp at hs
    have hq : (c == '"') = false := by simpa [notQuote] using hs.1
    have hcs : cs.all notQuote = true := by simpa using hs.2
    cases m with
    | out => exact absurd rfl hm
    | str =>
      by_cases hb : (c == '\\') = true
      · simp only [scanBad, hq, hb, if_true, Bool.false_eq_true, if_false]; exact ih .esc (by simp) hcs
      · simp only [scanBad, hq, hb, Bool.false_eq_true, if_false]; exact ih .str (by simp) hcs
    | esc => simp only [scanBad]; exact ih .str (by simp) hcs

/-- a piece of text that the pre-pass passes from outside a literal to outside a literal -/
def Clean (U : Uni) (s : Str) : Prop := scanBad U .out s = false ∧ modeAfter U .out s = .out

theorem Clean.nil (U : Uni) : Clean U [] := ⟨rfl, rfl⟩

theorem Clean.append {U : Uni} {a b : Str} (ha : Clean U a) (hb : Clean U b) : Clean U (a ++ b) := by
  constructor
  · rw [scanBad_append, ha.1, ha.2, hb.1]; rfl
  · rw [modeAfter_append, ha.2, hb.2]

/-- a token character other than the quote -/
def plainCh (U : Uni) (c : Char) : Bool := !badTop U c && c != '"'

theorem Clean.plain (U : Uni) : ∀ s : Str, s.all (plainCh U) = true → Clean U s := by
  intro s
  induction s with
  | nil => intro _; exact Clean.nil U
  | cons c cs ih =>
    intro h
    simp at h
    obtain ⟨hc, hcs⟩ := h
    simp [plainCh] at hc
    have hq : (c == '"') = false := by rw [beq_eq_false_iff_ne]; exact hc.2
    have := ih (by simpa using hcs)
    exact ⟨by simp [scanBad, hq, hc.1, this.1], by simp [modeAfter, hq, this.2]⟩

def noBackslash (c : Char) : Bool := c != '\\'

/-- a grammar literal without backslashes is a tokenizer literal -/
theorem Clean.quote (U : Uni) (s : Str) (h1 : s.all notQuote = true) (h2 : s.all noBackslash = true) : Clean U (quote s) := by
  have key : ∀ s : Str, s.all notQuote = true → s.all noBackslash = true →
      scanBad U .str (s ++ ['"']) = false ∧ modeAfter U .str (s ++ ['"']) = .out := by
    intro s
    induction s with
    | nil => intro _ _; simp [scanBad, modeAfter]
    | cons c cs ih =>
      intro h1 h2
      simp at h1 h2
      have hq : (c == '"') = false := by simpa [notQuote] using h1.1
      have hb : (c == '\\') = false := by simpa [noBackslash] using h2.1
      have := ih (by simpa using h1.2) (by simpa using h2.2)
      exact ⟨by simp [scanBad, hq, hb, this.1], by simp [modeAfter, hq, hb, this.2]⟩
  have := key s h1 h2
  unfold Clean Snel.Parser.quote
  simp only [List.cons_append]
  constructor
  · simp [scanBad, this.1]
  · simp [modeAfter, this.2]


/-! ## printed text is clean -/
theorem identChar_wordCh (U : Uni) (c : Char) (h : isIdentChar c = true) : wordCh U c = true := by
  simp only [isIdentChar, Bool.or_eq_true] at h
  rcases h with ((h | h) | h) | h
  · have : c.toNat < 128 := by simp [isLetter] at h; omega
    simp [wordCh, isAlnumU, this, h]
  · have : c.toNat < 128 := by simp [isDigit] at h; omega
    simp [wordCh, isAlnumU, this, h]
  · simp [wordCh, h]
  · simp [wordCh, h]

theorem identChar_plain (U : Uni) (c : Char) (h : isIdentChar c = true) : plainCh U c = true := by
  obtain ⟨h1, h2⟩ := wordCh_not_bad U c (identChar_wordCh U c h)
  simp [plainCh, h1, h2]

theorem all_identChar_plain (U : Uni) (s : Str) (h : s.all isIdentChar = true) : s.all (plainCh U) = true := by
  rw [List.all_eq_true] at h ⊢
  intro c hc; exact identChar_plain U c (h c hc)

theorem letter_identChar (c : Char) (h : isLetter c = true) : isIdentChar c = true := by simp [isIdentChar, h]
theorem digit_identChar (c : Char) (h : isDigit c = true) : isIdentChar c = true := by simp [isIdentChar, h]

theorem Clean.letters (U : Uni) (s : Str) (h : s.all isLetter = true) : Clean U s := by
  apply Clean.plain
  rw [List.all_eq_true] at h ⊢
  intro c hc; exact identChar_plain U c (letter_identChar c (h c hc))

theorem Clean.digits (U : Uni) (s : Str) (h : s.all isDigit = true) : Clean U s := by
  apply Clean.plain
  rw [List.all_eq_true] at h ⊢
  intro c hc; exact identChar_plain U c (digit_identChar c (h c hc))

theorem Clean.ident (U : Uni) (i : Str) (h : WFIdent i) : Clean U i := by
  obtain ⟨c, cs, rfl, hc, hcs⟩ := h
  apply Clean.plain
  have : isIdentChar c = true := by
    simp [isIdentStart] at hc
    rcases hc with hc | hc
    · exact letter_identChar c hc
    · simp [isIdentChar, hc]
  simp only [List.all_cons, identChar_plain U c this, Bool.true_and]
  exact all_identChar_plain U cs hcs

/-- single characters the printer emits between tokens -/
theorem Clean.punct (U : Uni) (c : Char)
    (h : c = ' ' ∨ c = '(' ∨ c = ')' ∨ c = ',' ∨ c = '.' ∨ c = '=' ∨ c = '!' ∨ c = '<' ∨ c = '>' ∨ c = '-') : Clean U [c] := by
  apply Clean.plain
  rcases h with rfl | rfl | rfl | rfl | rfl | rfl | rfl | rfl | rfl | rfl <;>
    simp [plainCh, badTop, startTok, isTokWs, isDigit, isTokSym]

theorem Clean.cons_punct {U : Uni} (c : Char) {s : Str}
    (h : c = ' ' ∨ c = '(' ∨ c = ')' ∨ c = ',' ∨ c = '.' ∨ c = '=' ∨ c = '!' ∨ c = '<' ∨ c = '>' ∨ c = '-')
    (hs : Clean U s) : Clean U (c :: s) := by
  have := Clean.append (Clean.punct U c h) hs
  simpa using this

theorem Clean.field (U : Uni) (f : Str) (h : WFFieldShape f) : Clean U f := by
  rcases h with h | ⟨i, j, rfl, hi, hj⟩
  · exact Clean.ident U f h
  · exact Clean.append (Clean.ident U i hi) (Clean.cons_punct '.' (by simp) (Clean.ident U j hj))

/-- no string value of the expression contains a backslash -/
def NoBackslashV : Value → Prop
  | .str s => s.all noBackslash = true
  | _ => True

def NoBackslashE : Expr → Prop
  | .cmp _ _ v => NoBackslashV v
  | .inList _ vs => ∀ v ∈ vs, NoBackslashV v
  | .and a b => NoBackslashE a ∧ NoBackslashE b
  | .or a b => NoBackslashE a ∧ NoBackslashE b
  | .not a => NoBackslashE a

theorem Clean.value (U : Uni) (v : Value) (hw : WFValue v) (hb : NoBackslashV v) : Clean U (printValue v) := by
  cases v with
  | str s => exact Clean.quote U s hw hb
  | int i =>
    obtain ⟨_, hd, _⟩ := natDigits_spec i.natAbs
    simp only [printValue, printInt]
    split
    · exact Clean.cons_punct '-' (by simp) (Clean.digits U _ hd)
    · exact Clean.digits U _ hd
  | float b =>
    obtain ⟨_, _, _, hid, _, hfd⟩ := hw
    simp only [printValue, printF64]
    have h2 : Clean U ((f64Parts b).2.1 ++ '.' :: (f64Parts b).2.2) :=
      Clean.append (Clean.digits U _ hid) (Clean.cons_punct '.' (by simp) (Clean.digits U _ hfd))
    by_cases hng : (f64Parts b).1 = true
    · simp only [hng, if_true, List.append_assoc]
      exact Clean.cons_punct '-' (by simp) h2
    · simp only [hng, List.nil_append, List.append_assoc]
      exact h2
  | bool b => exact absurd hw (by simp [WFValue])

theorem Clean.cmpOp (U : Uni) (op : CmpOp) : Clean U (printCmpOp op) := by
  cases op <;> simp only [printCmpOp]
  · exact Clean.punct U '=' (by simp)
  · exact Clean.cons_punct '!' (by simp) (Clean.punct U '=' (by simp))
  · exact Clean.punct U '>' (by simp)
  · exact Clean.cons_punct '>' (by simp) (Clean.punct U '=' (by simp))
  · exact Clean.punct U '<' (by simp)
  · exact Clean.cons_punct '<' (by simp) (Clean.punct U '=' (by simp))

theorem Clean.tailText (U : Uni) (vs : List Value) (hw : ∀ v ∈ vs, WFValue v) (hb : ∀ v ∈ vs, NoBackslashV v) :
    Clean U (tailText vs) := by
  induction vs with
  | nil => exact Clean.nil U
  | cons v vs ih =>
    simp only [Snel.Parser.tailText]
    exact Clean.cons_punct ',' (by simp) (Clean.cons_punct ' ' (by simp)
      (Clean.append (Clean.value U v (hw v (by simp)) (hb v (by simp)))
        (ih (fun w h => hw w (by simp [h])) (fun w h => hb w (by simp [h])))))

theorem Clean.commaJoin (U : Uni) (vs : List Value) (hw : ∀ v ∈ vs, WFValue v) (hb : ∀ v ∈ vs, NoBackslashV v) :
    Clean U (commaJoin (vs.map printValue)) := by
  cases vs with
  | nil => exact Clean.nil U
  | cons v vs =>
    rw [commaJoin_cons]
    exact Clean.append (Clean.value U v (hw v (by simp)) (hb v (by simp)))
      (Clean.tailText U vs (fun w h => hw w (by simp [h])) (fun w h => hb w (by simp [h])))

theorem Clean.spells {U : Uni} {sp : Str} {k : String} (h : Spells sp k) : Clean U sp := Clean.letters U sp h.2.1

theorem Clean.pr (U : Uni) (K : Kw) (hK : K.Valid) (e : Expr) (he : WFExpr e) (hb : NoBackslashE e) :
    ∀ l, Clean U (pr K l e) := by
  induction e with
  | cmp f op v =>
    intro l
    by_cases h : op = .eq ∧ v = .bool true
    · obtain ⟨rfl, rfl⟩ := h; rw [pr_cmp_atom]; exact Clean.field U f he.1.1
    · rw [pr_cmp_ne K l f op v h]
      have hv : WFValue v := by
        rcases he.2 with h' | h'
        · exact absurd h' h
        · exact h'
      exact Clean.append (Clean.field U f he.1.1) (Clean.cons_punct ' ' (by simp)
        (Clean.append (Clean.cmpOp U op) (Clean.cons_punct ' ' (by simp) (Clean.value U v hv hb))))
  | inList f vs =>
    intro l
    have := Clean.append (Clean.field U f he.1.1) (Clean.cons_punct ' ' (by simp)
      (Clean.append (Clean.spells hK.2.2.2.1) (Clean.cons_punct ' ' (by simp) (Clean.cons_punct '(' (by simp)
        (Clean.append (Clean.commaJoin U vs he.2 hb) (Clean.punct U ')' (by simp)))))))
    simpa [Snel.Parser.pr] using this
  | not x ih =>
    intro l
    have := Clean.append (Clean.spells hK.2.2.1) (Clean.cons_punct ' ' (by simp) (ih he hb 2))
    simpa [Snel.Parser.pr] using this
  | and a b iha ihb =>
    intro l
    have inner : Clean U (Snel.Parser.pr K 2 a ++ ' ' :: (K.and_ ++ ' ' :: Snel.Parser.pr K 1 b)) :=
      Clean.append (iha he.1 hb.1 2) (Clean.cons_punct ' ' (by simp)
        (Clean.append (Clean.spells hK.1) (Clean.cons_punct ' ' (by simp) (ihb he.2 hb.2 1))))
    by_cases hl : 1 < l
    · have := Clean.cons_punct '(' (by simp) (Clean.append inner (Clean.punct U ')' (by simp)))
      simpa [Snel.Parser.pr, paren, hl] using this
    · simpa [Snel.Parser.pr, paren, hl] using inner
  | or a b iha ihb =>
    intro l
    have inner : Clean U (Snel.Parser.pr K 1 a ++ ' ' :: (K.or_ ++ ' ' :: Snel.Parser.pr K 0 b)) :=
      Clean.append (iha he.1 hb.1 1) (Clean.cons_punct ' ' (by simp)
        (Clean.append (Clean.spells hK.2.1) (Clean.cons_punct ' ' (by simp) (ihb he.2 hb.2 0))))
    by_cases hl : 0 < l
    · have := Clean.cons_punct '(' (by simp) (Clean.append inner (Clean.punct U ')' (by simp)))
      simpa [Snel.Parser.pr, paren, hl] using this
    · simpa [Snel.Parser.pr, paren, hl] using inner

theorem Clean.printQuery (U : Uni) (K : Kw) (hK : K.Valid) (q : Query) (hq : WFQuery q)
    (hb : ∀ e, q.whereClause = some e → NoBackslashE e) : Clean U (printQuery K q) := by
  unfold Snel.Parser.printQuery
  refine Clean.append (Clean.spells hK.2.2.2.2.1) (Clean.cons_punct ' ' (by simp) ?_)
  refine Clean.append (Clean.append (Clean.append (Clean.ident U _ hq.1) ?_) ?_) ?_
  · cases hw : q.whereClause with
    | none => exact Clean.nil U
    | some e =>
      exact Clean.cons_punct ' ' (by simp) (Clean.append (Clean.spells hK.2.2.2.2.2.1)
        (Clean.cons_punct ' ' (by simp) (Clean.pr U K hK e (hq.2.1 e hw) (hb e hw) 0)))
  · cases q.limit with
    | none => exact Clean.nil U
    | some v =>
      exact Clean.cons_punct ' ' (by simp) (Clean.append (Clean.spells hK.2.2.2.2.2.2.1)
        (Clean.cons_punct ' ' (by simp) (Clean.digits U _ (natDigits_spec v).2.1)))
  · cases q.offset with
    | none => exact Clean.nil U
    | some v =>
      exact Clean.cons_punct ' ' (by simp) (Clean.append (Clean.spells hK.2.2.2.2.2.2.2)
        (Clean.cons_punct ' ' (by simp) (Clean.digits U _ (natDigits_spec v).2.1)))

end Snel.Parser
