import Snel.Model.WalArchive
/-!
Helper lemmas for C19 about `Snel.WalArchive` (names, sorting, the archive pass).
-/
namespace Snel.WalArchive

/-! ## bytewise order on names -/

theorem lexLe_refl : ∀ a : List Char, lexLe a a = true
  | [] => rfl
  | a :: as => by simp [lexLe, lexLe_refl as]

theorem lexLe_total : ∀ a b : List Char, lexLe a b = true ∨ lexLe b a = true
  | [], _ => Or.inl rfl
  | _ :: _, [] => Or.inr rfl
  | a :: as, b :: bs => by
    by_cases h : a = b
    · subst h
      simpa [lexLe] using lexLe_total as bs
    · have h' : ¬ b = a := fun e => h e.symm
      have : a.toNat ≠ b.toNat := fun e => h (Char.toNat_inj.mp e)
      simp only [lexLe, h, h', if_false, decide_eq_true_eq]
      omega

theorem lexLe_trans : ∀ a b c : List Char, lexLe a b = true → lexLe b c = true → lexLe a c = true
  | [], _, _, _, _ => by simp [lexLe]
  | _ :: _, [], _, h, _ => by simp [lexLe] at h
  | _ :: _, _ :: _, [], _, h => by simp [lexLe] at h
  | a :: as, b :: bs, c :: cs, h₁, h₂ => by
    simp only [lexLe] at h₁ h₂ ⊢
    by_cases hab : a = b
    · subst hab
      by_cases hac : a = c
      · subst hac
        simp only [if_true] at h₁ h₂ ⊢
        exact lexLe_trans as bs cs h₁ h₂
      · simpa [hac] using h₂
    · by_cases hbc : b = c
      · subst hbc
        simpa [hab] using h₁
      · simp only [hab, hbc, if_false, decide_eq_true_eq] at h₁ h₂
        have hac : a ≠ c := by
          intro e; subst e; omega
        simp only [hac, if_false, decide_eq_true_eq]
        omega

theorem lexLe_antisymm : ∀ a b : List Char, lexLe a b = true → lexLe b a = true → a = b
  | [], [], _, _ => rfl
  | [], _ :: _, _, h => by simp [lexLe] at h
  | _ :: _, [], h, _ => by simp [lexLe] at h
  | a :: as, b :: bs, h₁, h₂ => by
    simp only [lexLe] at h₁ h₂
    by_cases hab : a = b
    · subst hab
      simp only [if_true] at h₁ h₂
      rw [lexLe_antisymm as bs h₁ h₂]
    · have hba : ¬ b = a := fun e => hab e.symm
      simp only [hab, hba, if_false, decide_eq_true_eq] at h₁ h₂
      omega

theorem lexLe_append_left (p : List Char) (x y : List Char) : lexLe (p ++ x) (p ++ y) = lexLe x y := by
  induction p with
  | nil => rfl
  | cons c p ih => simp [lexLe, ih]

/-! ## insertion sort -/

section SortLemmas
variable {α : Type} (le : α → α → Bool)

theorem insertBy_perm (x : α) (l : List α) : (insertBy le x l).Perm (x :: l) := by
  induction l with
  | nil => exact List.Perm.refl _
  | cons y ys ih =>
    simp only [insertBy]
    split
    · exact List.Perm.refl _
    · exact (List.Perm.cons y ih).trans (List.Perm.swap x y ys)

theorem isort_perm (l : List α) : (isort le l).Perm l := by
  induction l with
  | nil => exact List.Perm.refl _
  | cons x xs ih => exact (insertBy_perm le x _).trans (List.Perm.cons x ih)

theorem insertBy_pairwise (trans : ∀ a b c, le a b = true → le b c = true → le a c = true)
    (total : ∀ a b, le a b = true ∨ le b a = true) (x : α) (l : List α)
    (h : l.Pairwise (fun a b => le a b = true)) :
    (insertBy le x l).Pairwise (fun a b => le a b = true) := by
  induction l with
  | nil => simp [insertBy]
  | cons y ys ih =>
    simp only [insertBy]
    have hy := List.pairwise_cons.mp h
    split
    · rename_i hxy
      refine List.pairwise_cons.mpr ⟨?_, h⟩
      intro z hz
      rcases List.mem_cons.mp hz with rfl | hz
      · exact hxy
      · exact trans _ _ _ hxy (hy.1 z hz)
    · rename_i hxy
      have hyx : le y x = true := by
        rcases total x y with h' | h'
        · exact absurd h' hxy
        · exact h'
      refine List.pairwise_cons.mpr ⟨?_, ih hy.2⟩
      intro z hz
      have := (insertBy_perm le x ys).subset hz
      rcases List.mem_cons.mp this with rfl | hz
      · exact hyx
      · exact hy.1 z hz

theorem isort_pairwise (trans : ∀ a b c, le a b = true → le b c = true → le a c = true)
    (total : ∀ a b, le a b = true ∨ le b a = true) (l : List α) :
    (isort le l).Pairwise (fun a b => le a b = true) := by
  induction l with
  | nil => simp [isort]
  | cons x xs ih => exact insertBy_pairwise le trans total x _ ih

end SortLemmas

/-! ## decimal rendering -/

theorem digitChar_inj {x y : Nat} (hx : x < 10) (hy : y < 10) (h : Nat.digitChar x = Nat.digitChar y) : x = y := by
  have := congrArg Char.toNat h
  rw [Nat.toNat_digitChar_of_lt_ten hx, Nat.toNat_digitChar_of_lt_ten hy] at this
  omega

theorem digitsVal_append (a b : List Char) :
    digitsVal (a ++ b) = b.foldl (fun a c => a * 10 + (c.toNat - 48)) (digitsVal a) := by
  simp [digitsVal, List.foldl_append]

theorem digitsVal_dec (n : Nat) : digitsVal (dec n) = n := by
  induction n using Nat.strongRecOn with
  | _ n ih =>
    unfold dec
    rw [Nat.toDigits_eq_if (by decide)]
    split
    · rename_i h
      simp [digitsVal, Nat.toNat_digitChar_of_lt_ten h]
    · rename_i h
      have hlt : n / 10 < n := by omega
      have := ih (n / 10) hlt
      unfold dec at this
      rw [digitsVal_append, this]
      simp [Nat.toNat_digitChar_of_lt_ten (Nat.mod_lt n (by decide : 0 < 10))]
      omega

theorem dec_isDigit {n : Nat} {c : Char} (h : c ∈ dec n) : c.isDigit = true :=
  Nat.isDigit_of_mem_toDigits (by decide) (by decide) h

theorem digitsVal_pad5 (n : Nat) : digitsVal (pad5 n) = n := by
  unfold pad5
  split
  · rename_i h
    have h4 : n / 10000 < 10 := by omega
    simp only [digitsVal, List.foldl_cons, List.foldl_nil,
      Nat.toNat_digitChar_of_lt_ten h4,
      Nat.toNat_digitChar_of_lt_ten (Nat.mod_lt (n / 1000) (by decide : 0 < 10)),
      Nat.toNat_digitChar_of_lt_ten (Nat.mod_lt (n / 100) (by decide : 0 < 10)),
      Nat.toNat_digitChar_of_lt_ten (Nat.mod_lt (n / 10) (by decide : 0 < 10)),
      Nat.toNat_digitChar_of_lt_ten (Nat.mod_lt n (by decide : 0 < 10))]
    omega
  · exact digitsVal_dec n

theorem pad5_isDigit {n : Nat} {c : Char} (h : c ∈ pad5 n) : c.isDigit = true := by
  unfold pad5 at h
  split at h
  · simp only [List.mem_cons, List.not_mem_nil, or_false] at h
    rcases h with rfl | rfl | rfl | rfl | rfl <;> rw [Nat.isDigit_digitChar] <;> simp <;> omega
  · exact dec_isDigit h

theorem pad5_inj {a b : Nat} (h : pad5 a = pad5 b) : a = b := by
  rw [← digitsVal_pad5 a, ← digitsVal_pad5 b, h]

/-- Splitting at the first occurrence of a separator is unique. -/
theorem append_sep_inj {c : Char} : ∀ (l₁ l₂ r₁ r₂ : List Char), c ∉ l₁ → c ∉ l₂ →
    l₁ ++ c :: r₁ = l₂ ++ c :: r₂ → l₁ = l₂
  | [], [], _, _, _, _, _ => rfl
  | [], y :: l₂, _, _, _, h₂, h => by
    simp only [List.nil_append, List.cons_append, List.cons.injEq] at h
    exact absurd (h.1 ▸ List.mem_cons_self) h₂
  | x :: l₁, [], _, _, h₁, _, h => by
    simp only [List.nil_append, List.cons_append, List.cons.injEq] at h
    exact absurd (h.1 ▸ List.mem_cons_self) h₁
  | x :: l₁, y :: l₂, r₁, r₂, h₁, h₂, h => by
    simp only [List.cons_append, List.cons.injEq] at h
    rw [h.1, append_sep_inj l₁ l₂ r₁ r₂ (fun m => h₁ (List.mem_cons_of_mem _ m))
      (fun m => h₂ (List.mem_cons_of_mem _ m)) h.2]

theorem dash_not_in_pad5 (n : Nat) : sep1 ∉ pad5 n := fun h => by
  have := pad5_isDigit h
  have hs : sep1.isDigit = false := by decide
  rw [hs] at this
  cases this

/-- The archive file name determines the log id: archives of different logs never share a
name, for all ids and time ranges. -/
theorem archName_inj_id {a b s e s' e' : Nat} (h : archName a s e = archName b s' e') : a = b := by
  unfold archName at h
  simp only [List.append_assoc] at h
  have h := List.append_cancel_left h
  exact pad5_inj (append_sep_inj _ _ _ _ (dash_not_in_pad5 a) (dash_not_in_pad5 b) h)

theorem walName_inj {a b : Nat} (h : walName a = walName b) : a = b := by
  unfold walName at h
  simp only [List.append_assoc] at h
  have h := List.append_cancel_left h
  exact pad5_inj (List.append_cancel_right h)

/-! ## name order = id order below 100000 -/

theorem lexLe_digit_step {x y : Nat} (hx : x < 10) (hy : y < 10) (r r' : List Char) :
    lexLe (Nat.digitChar x :: r) (Nat.digitChar y :: r') = if x = y then lexLe r r' else decide (x < y) := by
  simp only [lexLe]
  by_cases h : x = y
  · subst h; simp
  · have : Nat.digitChar x ≠ Nat.digitChar y := fun e => h (digitChar_inj hx hy e)
    simp only [this, h, if_false]
    rw [Nat.toNat_digitChar_of_lt_ten hx, Nat.toNat_digitChar_of_lt_ten hy]
    simp

theorem lexLe_pad5_gt {a b : Nat} (hab : a < b) (hb : b < 100000) (r r' : List Char) :
    lexLe (pad5 b ++ r) (pad5 a ++ r') = false := by
  have ha : a < 100000 := by omega
  simp only [pad5, ha, hb, if_true, List.cons_append, List.nil_append]
  rw [lexLe_digit_step (by omega) (by omega), lexLe_digit_step (by omega) (by omega),
    lexLe_digit_step (by omega) (by omega), lexLe_digit_step (by omega) (by omega),
    lexLe_digit_step (by omega) (by omega)]
  repeat' split
  all_goals first | omega | (simp; omega)

theorem lexLe_archName_gt {a b : Nat} (hab : a < b) (hb : b < 100000) (s e s' e' : Nat) :
    lexLe (archName b s e) (archName a s' e') = false := by
  unfold archName
  simp only [List.append_assoc]
  rw [lexLe_append_left]
  exact lexLe_pad5_gt hab hb _ _

/-! ## the archive directory -/

theorem lookup_append (m : Name) (l₁ l₂ : List (Name × Node)) :
    lookup m (l₁ ++ l₂) = match lookup m l₁ with
      | some v => some v
      | none => lookup m l₂ := by
  induction l₁ with
  | nil => rfl
  | cons kv l ih =>
    obtain ⟨k, v⟩ := kv
    simp only [List.cons_append, lookup]
    split
    · rfl
    · exact ih

theorem lookup_put (m n : Name) (v : Node) (l : List (Name × Node)) :
    lookup m (put n v l) = if m = n then some v else lookup m l := by
  unfold put
  induction l with
  | nil =>
    by_cases h : m = n
    · simp [lookup, h]
    · have : ¬ n = m := fun e => h e.symm
      simp [lookup, h, this]
  | cons kv l ih =>
    obtain ⟨k, w⟩ := kv
    by_cases hk : k = n
    · subst hk
      simp only [List.filter, ne_eq, not_true_eq_false, decide_false, lookup]
      rw [ih]
      by_cases hm : m = k
      · simp [hm]
      · have : ¬ k = m := fun e => hm e.symm
        simp [hm, this]
    · simp only [List.filter, ne_eq, hk, not_false_eq_true, decide_true, List.cons_append, lookup]
      by_cases hkm : k = m
      · subst hkm
        simp [hk]
      · simp only [hkm, if_false]
        exact ih

theorem lookup_put_same (n : Name) (v : Node) (l : List (Name × Node)) : lookup n (put n v l) = some v := by
  simp [lookup_put]

theorem lookup_put_other {m n : Name} (h : m ≠ n) (v : Node) (l : List (Name × Node)) :
    lookup m (put n v l) = lookup m l := by
  simp [lookup_put, h]

def rootBad : Root → Bool
  | .isFile | .blocked => true
  | _ => false

/-- Two states of the archive directory on which every archive attempt has the same outcome:
the root is (un)creatable alike and the same names are squatted. -/
def Same (fs fs' : ArchFs) : Prop :=
  rootBad fs'.root = rootBad fs.root ∧ ∀ m, squatted fs'.nodes m = squatted fs.nodes m

theorem Same.refl (fs : ArchFs) : Same fs fs := ⟨rfl, fun _ => rfl⟩

theorem Same.trans {a b c : ArchFs} (h₁ : Same a b) (h₂ : Same b c) : Same a c :=
  ⟨h₂.1.trans h₁.1, fun m => (h₂.2 m).trans (h₁.2 m)⟩

theorem squatted_put_file {n : Name} {v : Node} {l : List (Name × Node)} (hv : v ≠ .dir ∧ v ≠ .dangling)
    (h : squatted l n = false) (m : Name) : squatted (put n v l) m = squatted l m := by
  by_cases hm : m = n
  · subst hm
    rw [h]
    simp only [squatted, lookup_put_same]
    cases v <;> simp_all
  · simp [squatted, lookup_put_other hm]

theorem squatted_put_archive {n : Name} {a : Archive} {l : List (Name × Node)} (h : squatted l n = false) (m : Name) :
    squatted (put n (.archive a) l) m = squatted l m :=
  squatted_put_file ⟨by simp, by simp⟩ h m

theorem bites_false {f : Fault} (h : f.bites = false) : f = .none := by
  cases f <;> simp_all [Fault.bites]

theorem writeToFile_ok {fails : Nat → Fault} {fs : ArchFs} {a : Archive}
    (h : (rootBad fs.root || (fails a.header.logId).bites || squatted fs.nodes a.fileName) = false) :
    writeToFile fails fs a = (true, { root := .dir, nodes := put a.fileName (.archive a) fs.nodes }) := by
  simp only [Bool.or_eq_false_iff] at h
  obtain ⟨⟨h₁, h₂⟩, h₃⟩ := h
  have h₂ := bites_false h₂
  unfold writeToFile
  cases hr : fs.root <;> simp_all [rootBad]

/-- A failed `write_to_file`: `Err`; the root is as creatable as before; only the archive's own
name may have changed (to an undecodable file), never into something that blocks `File::create`. -/
theorem writeToFile_err {fails : Nat → Fault} {fs : ArchFs} {a : Archive}
    (h : (rootBad fs.root || (fails a.header.logId).bites || squatted fs.nodes a.fileName) = true) :
    (writeToFile fails fs a).1 = false
      ∧ rootBad (writeToFile fails fs a).2.root = rootBad fs.root
      ∧ (∀ m, m ≠ a.fileName → lookup m (writeToFile fails fs a).2.nodes = lookup m fs.nodes)
      ∧ (∀ m, squatted (writeToFile fails fs a).2.nodes m = squatted fs.nodes m)
      ∧ (∀ b, lookup a.fileName (writeToFile fails fs a).2.nodes = some (.archive b) →
          lookup a.fileName fs.nodes = some (.archive b)) := by
  obtain ⟨root, nodes⟩ := fs
  unfold writeToFile
  cases root
  case isFile => simp [rootBad]
  case blocked => simp [rootBad]
  all_goals
    simp only [rootBad, Bool.false_or] at h ⊢
    cases hs : squatted nodes a.fileName
    · cases hf : fails a.header.logId
      · simp [hs, hf, Fault.bites] at h
      · simp [hf]
      · simp only [hs, hf, Bool.or_false]
        refine ⟨by simp, by simp, fun m hm => ?_, fun m => ?_, fun b hb => ?_⟩
        · simpa using lookup_put_other hm _ _
        · simpa using squatted_put_file (v := .junk) ⟨by simp, by simp⟩ hs m
        · simp [lookup_put_same] at hb
    · simp [hs]

theorem writeToFile_fst (fails : Nat → Fault) (fs : ArchFs) (a : Archive) :
    (writeToFile fails fs a).1 = !(rootBad fs.root || (fails a.header.logId).bites || squatted fs.nodes a.fileName) := by
  cases h : (rootBad fs.root || (fails a.header.logId).bites || squatted fs.nodes a.fileName)
  · rw [writeToFile_ok h]; rfl
  · rw [(writeToFile_err h).1]; rfl

theorem writeToFile_same (fails : Nat → Fault) (fs : ArchFs) (a : Archive) : Same fs (writeToFile fails fs a).2 := by
  cases h : (rootBad fs.root || (fails a.header.logId).bites || squatted fs.nodes a.fileName)
  · rw [writeToFile_ok h]
    simp only [Bool.or_eq_false_iff] at h
    exact ⟨by show rootBad Root.dir = rootBad fs.root; rw [h.1.1]; rfl, fun m => squatted_put_archive h.2 m⟩
  · obtain ⟨_, h₂, _, h₄, _⟩ := writeToFile_err h
    exact ⟨h₂, h₄⟩

theorem writeToFile_lookup_other (fails : Nat → Fault) (fs : ArchFs) (a : Archive) {m : Name}
    (hm : m ≠ a.fileName) : lookup m (writeToFile fails fs a).2.nodes = lookup m fs.nodes := by
  cases h : (rootBad fs.root || (fails a.header.logId).bites || squatted fs.nodes a.fileName)
  · rw [writeToFile_ok h]
    exact lookup_put_other hm _ _
  · exact (writeToFile_err h).2.2.1 m hm

theorem writeToFile_lookup_self {fails : Nat → Fault} {fs : ArchFs} {a : Archive}
    (h : (writeToFile fails fs a).1 = true) :
    lookup a.fileName (writeToFile fails fs a).2.nodes = some (.archive a) := by
  cases h' : (rootBad fs.root || (fails a.header.logId).bites || squatted fs.nodes a.fileName)
  · rw [writeToFile_ok h']
    exact lookup_put_same _ _ _
  · rw [(writeToFile_err h').1] at h
    exact absurd h (by decide)

/-! ## `archive_log`, `archive_logs_up_to` -/

section Pass
variable {L : Type} (p : Parser L) (fails : Nat → Fault) (shard : Nat)

/-- Why `archive_log(id)` returns `Err`, as a function of the log directory and of the parts of
the archive directory that no archive attempt changes: no file under the canonical name, the
file cannot be read, the archive root cannot be created, the fault oracle says so, or the
archive's name is taken by a directory / dangling symlink. -/
def failsFor (wal : List (WalFile L)) (fs : ArchFs) (id : Nat) : Bool :=
  match findFile wal (walName id) with
  | none => true
  | some f => !f.readable ||
      (rootBad fs.root || (fails id).bites || squatted fs.nodes (mkArchive p shard id f.lines).fileName)

theorem failsFor_same {wal : List (WalFile L)} {fs fs' : ArchFs} (h : Same fs fs') (id : Nat) :
    failsFor p fails shard wal fs' id = failsFor p fails shard wal fs id := by
  unfold failsFor
  split
  · rfl
  · rw [h.1, h.2]

theorem archiveLog_fst (wal : List (WalFile L)) (fs : ArchFs) (id : Nat) :
    (archiveLog p fails shard wal fs id).1 = !failsFor p fails shard wal fs id := by
  unfold archiveLog failsFor
  cases h : findFile wal (walName id) with
  | none => rfl
  | some f =>
    simp only
    cases hr : f.readable
    · simp
    · simp only [if_true, Bool.not_true, Bool.false_or]
      exact writeToFile_fst fails fs _

theorem archiveLog_same (wal : List (WalFile L)) (fs : ArchFs) (id : Nat) :
    Same fs (archiveLog p fails shard wal fs id).2 := by
  unfold archiveLog
  split
  · exact Same.refl fs
  · split
    · exact writeToFile_same fails fs _
    · exact Same.refl fs

theorem archiveLog_lookup_other (wal : List (WalFile L)) (fs : ArchFs) (id : Nat) {m : Name}
    (hm : ∀ f, findFile wal (walName id) = some f → m ≠ (mkArchive p shard id f.lines).fileName) :
    lookup m (archiveLog p fails shard wal fs id).2.nodes = lookup m fs.nodes := by
  unfold archiveLog
  split
  · rfl
  · rename_i f hf
    split
    · exact writeToFile_lookup_other fails fs _ (hm f hf)
    · rfl

theorem archiveLog_lookup_self {wal : List (WalFile L)} {fs : ArchFs} {id : Nat} {f : WalFile L}
    (hf : findFile wal (walName id) = some f) (hok : (archiveLog p fails shard wal fs id).1 = true) :
    lookup (mkArchive p shard id f.lines).fileName (archiveLog p fails shard wal fs id).2.nodes
      = some (.archive (mkArchive p shard id f.lines)) := by
  unfold archiveLog at hok ⊢
  rw [hf] at hok ⊢
  cases hr : f.readable
  · simp [hr] at hok
  · simp only [hr, if_true] at hok ⊢
    exact writeToFile_lookup_self hok

theorem archivePass_same (bound : Nat) (wal : List (WalFile L)) :
    ∀ (todo : List (WalFile L)) (fs : ArchFs), Same fs (archivePass p fails shard bound wal todo fs).2
  | [], fs => Same.refl fs
  | f :: rest, fs => by
    unfold archivePass
    split
    · exact archivePass_same bound wal rest fs
    · exact (archiveLog_same p fails shard wal fs _).trans (archivePass_same bound wal rest _)

/-- The results of the archive pass: one per eligible entry, each decided by `failsFor` on the
*initial* archive directory. -/
theorem archivePass_fst (bound : Nat) (wal : List (WalFile L)) :
    ∀ (todo : List (WalFile L)) (fs : ArchFs),
      (archivePass p fails shard bound wal todo fs).1
        = (todo.filterMap fun f => eligible bound f.name).map fun id => !failsFor p fails shard wal fs id
  | [], fs => rfl
  | f :: rest, fs => by
    unfold archivePass
    split
    · rename_i h
      simp only [List.filterMap_cons, h]
      exact archivePass_fst bound wal rest fs
    · rename_i id h
      simp only [List.filterMap_cons, h, List.map_cons]
      rw [archiveLog_fst, archivePass_fst bound wal rest]
      congr 1
      apply List.map_congr_left
      intro i _
      rw [failsFor_same p fails shard (archiveLog_same p fails shard wal fs id)]

/-- A node survives the archive pass unless an eligible log is archived under exactly its name. -/
theorem archivePass_preserves (bound : Nat) (wal : List (WalFile L)) (n : Name) :
    ∀ (todo : List (WalFile L)) (fs : ArchFs),
      (∀ g ∈ todo, ∀ id, eligible bound g.name = some id → ∀ f, findFile wal (walName id) = some f →
        n ≠ (mkArchive p shard id f.lines).fileName) →
      lookup n (archivePass p fails shard bound wal todo fs).2.nodes = lookup n fs.nodes
  | [], _, _ => rfl
  | g :: rest, fs, h => by
    unfold archivePass
    split
    · exact archivePass_preserves bound wal n rest fs fun g' hg' => h g' (List.mem_cons_of_mem _ hg')
    · rename_i id hid
      simp only
      rw [archivePass_preserves bound wal n rest _ fun g' hg' => h g' (List.mem_cons_of_mem _ hg')]
      exact archiveLog_lookup_other p fails shard wal fs id (h g List.mem_cons_self id hid)

theorem findFile_of_mem : ∀ {wal : List (WalFile L)} {f : WalFile L}, (wal.map (·.name)).Nodup → f ∈ wal →
    findFile wal f.name = some f
  | [], _, _, h => by simp at h
  | g :: rest, f, hnd, h => by
    unfold findFile
    simp only [List.map_cons, List.nodup_cons] at hnd
    rcases List.mem_cons.mp h with rfl | h
    · simp [List.find?]
    · have hne : g.name ≠ f.name := fun e => hnd.1 (e ▸ List.mem_map_of_mem (f := (·.name)) h)
      simp only [List.find?, hne, decide_false]
      exact findFile_of_mem hnd.2 h

/-- After an archive pass in which every result is `Ok`, every eligible log that carries the
canonical name of its id has its archive — exactly its parseable entries — in the directory. -/
theorem archivePass_archived (bound : Nat) (wal : List (WalFile L)) (hnd : (wal.map (·.name)).Nodup) :
    ∀ (todo : List (WalFile L)) (fs : ArchFs),
      (∀ f ∈ todo, f ∈ wal) → (todo.map (·.name)).Nodup →
      (∀ f ∈ todo, ∀ id, eligible bound f.name = some id → f.name = walName id) →
      (∀ ok ∈ (archivePass p fails shard bound wal todo fs).1, ok = true) →
      ∀ f ∈ todo, ∀ id, eligible bound f.name = some id →
        lookup (mkArchive p shard id f.lines).fileName (archivePass p fails shard bound wal todo fs).2.nodes
          = some (.archive (mkArchive p shard id f.lines))
  | [], _, _, _, _, _, f, hf, _, _ => by simp at hf
  | g :: rest, fs, hsub, hnd', hcanon, hall, f, hf, id, hid => by
    simp only [List.map_cons, List.nodup_cons] at hnd'
    have hsub' : ∀ f ∈ rest, f ∈ wal := fun f hf => hsub f (List.mem_cons_of_mem _ hf)
    have hcanon' : ∀ f ∈ rest, ∀ id, eligible bound f.name = some id → f.name = walName id :=
      fun f hf => hcanon f (List.mem_cons_of_mem _ hf)
    unfold archivePass at hall ⊢
    cases hg : eligible bound g.name with
    | none =>
      simp only [hg] at hall ⊢
      rcases List.mem_cons.mp hf with rfl | hf
      · rw [hg] at hid; exact absurd hid (by simp)
      · exact archivePass_archived bound wal hnd rest fs hsub' hnd'.2 hcanon' hall f hf id hid
    | some gid =>
      simp only [hg] at hall ⊢
      have hok : (archiveLog p fails shard wal fs gid).1 = true := hall _ List.mem_cons_self
      have hall' : ∀ ok ∈ (archivePass p fails shard bound wal rest (archiveLog p fails shard wal fs gid).2).1, ok = true :=
        fun ok h => hall ok (List.mem_cons_of_mem _ h)
      rcases List.mem_cons.mp hf with rfl | hf
      · -- the head: written now, untouched by the rest
        rw [hg] at hid
        cases hid
        have hname := hcanon f List.mem_cons_self id hg
        have hfind : findFile wal (walName id) = some f := hname ▸ findFile_of_mem hnd (hsub f List.mem_cons_self)
        rw [archivePass_preserves p fails shard bound wal _ rest]
        · exact archiveLog_lookup_self p fails shard hfind hok
        · intro g' hg' id' hid' f' hf' heq
          have : id = id' := archName_inj_id heq
          subst this
          have hn' := hcanon' g' hg' id hid'
          exact hnd'.1 (List.mem_map.mpr ⟨g', hg', by rw [hn', hname]⟩)
      · exact archivePass_archived bound wal hnd rest _ hsub' hnd'.2 hcanon' hall' f hf id hid

end Pass

/-! ## values: what comes back from an archive -/

theorem reser_ofJson (j : JVal) (h : ∀ b, j = .float b → finiteBits b = true) :
    (Value.ofJson j).reser = Value.ofJson j := by
  cases j with
  | int i => simp only [Value.ofJson]; split <;> rfl
  | float b => simp [Value.ofJson, Value.reser, h b rfl]
  | _ => rfl

theorem ofJson_jsonBorn (j : JVal) (h : ∀ b, j = .float b → finiteBits b = true) : (Value.ofJson j).JsonBorn := by
  cases j with
  | int i => simp only [Value.ofJson]; split <;> trivial
  | float b => exact h b rfl
  | _ => trivial

theorem reser_of_jsonBorn : ∀ v : Value, v.JsonBorn → v.reser = v
  | .null, _ | .bool _, _ | .int _, _ | .str _, _ => rfl
  | .float b, h => by simp [Value.reser, show finiteBits b = true from h]
  | .ts _, h | .bin _, h => h.elim

theorem ofRaw_reser (r : RawEntry)
    (h : ∀ kv ∈ r.payload, ∀ b, kv.2 = JVal.float b → finiteBits b = true) :
    (Entry.ofRaw r).reser = Entry.ofRaw r := by
  simp only [Entry.reser, Entry.ofRaw, List.map_map]
  congr 1
  apply List.map_congr_left
  intro kv hkv
  simp [reser_ofJson kv.2 (h kv hkv)]

theorem mem_parsedEntries {L : Type} {p : Parser L} {ls : List L} {e : Entry} (h : e ∈ parsedEntries p ls) :
    ∃ l ∈ ls, p.blank l = false ∧ ∃ r, p.parseRaw l = some r ∧ e = Entry.ofRaw r := by
  simp only [parsedEntries, List.mem_filterMap, List.mem_filter] at h
  obtain ⟨l, ⟨hl, hb⟩, hp⟩ := h
  refine ⟨l, hl, by simpa using hb, ?_⟩
  simp only [Parser.parse, Option.map_eq_some_iff] at hp
  obtain ⟨r, hr, he⟩ := hp
  exact ⟨r, hr, he.symm⟩

theorem parsedEntries_reser {L : Type} (p : Parser L) (hp : p.FiniteFloats) (ls : List L) :
    (parsedEntries p ls).map Entry.reser = parsedEntries p ls := by
  conv => rhs; rw [← List.map_id (parsedEntries p ls)]
  apply List.map_congr_left
  intro e he
  obtain ⟨l, _, _, r, hr, rfl⟩ := mem_parsedEntries he
  exact ofRaw_reser r (hp l r hr)

/-! ## header -/

theorem foldl_min_le (es : List Entry) : ∀ m : Nat,
    es.foldl (fun m e => min m e.timestamp) m ≤ m ∧ ∀ e ∈ es, es.foldl (fun m e => min m e.timestamp) m ≤ e.timestamp := by
  induction es with
  | nil => intro m; simp
  | cons x xs ih =>
    intro m
    simp only [List.foldl_cons, List.mem_cons, forall_eq_or_imp]
    have := ih (min m x.timestamp)
    refine ⟨by omega, by omega, fun e he => this.2 e he⟩

theorem foldl_max_ge (es : List Entry) : ∀ m : Nat,
    m ≤ es.foldl (fun m e => max m e.timestamp) m ∧ ∀ e ∈ es, e.timestamp ≤ es.foldl (fun m e => max m e.timestamp) m := by
  induction es with
  | nil => intro m; simp
  | cons x xs ih =>
    intro m
    simp only [List.foldl_cons, List.mem_cons, forall_eq_or_imp]
    have := ih (max m x.timestamp)
    refine ⟨by omega, by omega, fun e he => this.2 e he⟩

/-! ## recovery order -/

def nodeId : Name × Node → Nat
  | (_, .archive a) => a.header.logId
  | _ => 0

/-- what `recover_all` takes from one directory entry -/
def nodeEntries (kv : Name × Node) : List Entry :=
  match readNode kv.2 with
  | some a => a.entries
  | none => []

/-- every entry of the directory is an archive stored under the name the archiver gives it -/
def Standard (idBound : Nat) (nodes : List (Name × Node)) : Prop :=
  ∀ kv ∈ nodes, ∃ a, kv.2 = .archive a ∧ kv.1 = a.fileName ∧ a.header.logId < idBound

theorem hasZstExt_archName (id s e : Nat) : hasZstExt (archName id s e) = true := by
  have hs : zstSuffix = ".wal".toList ++ dotZst := by decide
  have hsl : zstSuffix.length = 8 := by decide
  have hdl : dotZst.length = 4 := by decide
  have hsuf : dotZst <:+ archName id s e := by
    unfold archName
    rw [hs, ← List.append_assoc]
    exact List.suffix_append _ _
  have hlen : (archName id s e).length > dotZst.length := by
    unfold archName
    simp only [List.length_append, List.length_cons]
    omega
  simp [hasZstExt, List.isSuffixOf_iff_suffix.mpr hsuf, hlen]

theorem recoverAll_dir (fs : ArchFs) (h : fs.root = .dir) :
    recoverAll fs = some ((listArchives fs.nodes).flatMap nodeEntries) := by
  unfold recoverAll
  rw [h]
  rfl

theorem listArchives_standard {B : Nat} {nodes : List (Name × Node)} (h : Standard B nodes) :
    listArchives nodes = isort (fun a b => lexLe a.1 b.1) nodes := by
  unfold listArchives
  congr 1
  apply List.filter_eq_self.mpr
  intro kv hkv
  obtain ⟨a, _, hn, _⟩ := h kv hkv
  rw [hn]
  exact hasZstExt_archName _ _ _

/-- In a directory of standard-named archives of distinct logs with ids below 100000, name
order is log-id order. -/
theorem listArchives_sorted_by_id {nodes : List (Name × Node)} (hstd : Standard 100000 nodes)
    (hnd : (nodes.map nodeId).Nodup) :
    (listArchives nodes).Pairwise (fun x y => nodeId x < nodeId y) := by
  rw [listArchives_standard hstd]
  let le := fun (a b : Name × Node) => lexLe a.1 b.1
  have hperm := isort_perm le nodes
  have hsorted : (isort le nodes).Pairwise (fun a b => le a b = true) :=
    isort_pairwise le (fun a b c => lexLe_trans a.1 b.1 c.1) (fun a b => lexLe_total a.1 b.1) nodes
  have hnd' : (isort le nodes).Pairwise (fun a b => nodeId a ≠ nodeId b) := by
    have : ((isort le nodes).map nodeId).Nodup := (hperm.map nodeId).nodup_iff.mpr hnd
    exact List.pairwise_map.mp this
  refine (hsorted.and hnd').imp_of_mem ?_
  intro x y hx hy hxy
  obtain ⟨hle, hne⟩ := hxy
  obtain ⟨a, ha, hna, hia⟩ := hstd x (hperm.subset hx)
  obtain ⟨b, hb, hnb, hib⟩ := hstd y (hperm.subset hy)
  obtain ⟨xn, xv⟩ := x
  obtain ⟨yn, yv⟩ := y
  simp only at ha hb hna hnb
  subst ha hb
  simp only [nodeId] at hne ⊢
  rcases Nat.lt_or_gt_of_ne hne with h | h
  · exact h
  · exfalso
    have := lexLe_archName_gt h hia a.header.startTs a.header.endTs b.header.startTs b.header.endTs
    simp only [le, hna, hnb, Archive.fileName] at hle
    rw [this] at hle
    exact absurd hle (by decide)

/-! ## the archive root after a pass; from a directory entry to `recover_all` -/

theorem writeToFile_root_of_ok {fails : Nat → Fault} {fs : ArchFs} {a : Archive}
    (h : (writeToFile fails fs a).1 = true) : (writeToFile fails fs a).2.root = .dir := by
  cases h' : (rootBad fs.root || (fails a.header.logId).bites || squatted fs.nodes a.fileName)
  · rw [writeToFile_ok h']
  · rw [(writeToFile_err h').1] at h
    cases h

theorem writeToFile_root_dir (fails : Nat → Fault) {fs : ArchFs} (a : Archive) (h : fs.root = .dir) :
    (writeToFile fails fs a).2.root = .dir := by
  unfold writeToFile
  rw [h]
  simp only
  split
  · rfl
  · split <;> rfl

section Root
variable {L : Type} (p : Parser L) (fails : Nat → Fault) (shard : Nat)

theorem archiveLog_root_of_ok {wal : List (WalFile L)} {fs : ArchFs} {id : Nat}
    (h : (archiveLog p fails shard wal fs id).1 = true) : (archiveLog p fails shard wal fs id).2.root = .dir := by
  unfold archiveLog at h ⊢
  cases hf : findFile wal (walName id) with
  | none => rw [hf] at h; cases h
  | some f =>
    rw [hf] at h
    simp only at h ⊢
    cases hr : f.readable
    · simp [hr] at h
    · simp only [hr, if_true] at h ⊢
      exact writeToFile_root_of_ok h

theorem archiveLog_root_dir (wal : List (WalFile L)) {fs : ArchFs} (id : Nat) (h : fs.root = .dir) :
    (archiveLog p fails shard wal fs id).2.root = .dir := by
  unfold archiveLog
  split
  · exact h
  · split
    · exact writeToFile_root_dir fails _ h
    · exact h

theorem archivePass_root_dir (bound : Nat) (wal : List (WalFile L)) :
    ∀ (todo : List (WalFile L)) (fs : ArchFs), fs.root = .dir →
      (archivePass p fails shard bound wal todo fs).2.root = .dir
  | [], _, h => h
  | g :: rest, fs, h => by
    unfold archivePass
    split
    · exact archivePass_root_dir bound wal rest fs h
    · exact archivePass_root_dir bound wal rest _ (archiveLog_root_dir p fails shard wal _ h)

theorem archivePass_root_of_ok (bound : Nat) (wal : List (WalFile L)) :
    ∀ (todo : List (WalFile L)) (fs : ArchFs),
      (∃ ok ∈ (archivePass p fails shard bound wal todo fs).1, ok = true) →
      (archivePass p fails shard bound wal todo fs).2.root = .dir
  | [], _, h => by obtain ⟨_, h, _⟩ := h; cases h
  | g :: rest, fs, h => by
    unfold archivePass at h ⊢
    split
    · rename_i hg
      simp only [hg] at h
      exact archivePass_root_of_ok bound wal rest fs h
    · rename_i id hg
      simp only [hg] at h ⊢
      obtain ⟨ok, hmem, hok⟩ := h
      rcases List.mem_cons.mp hmem with rfl | hmem
      · exact archivePass_root_dir p fails shard bound wal rest _ (archiveLog_root_of_ok p fails shard hok)
      · exact archivePass_root_of_ok bound wal rest _ ⟨ok, hmem, hok⟩

end Root

theorem lookup_mem {n : Name} {v : Node} : ∀ {l : List (Name × Node)}, lookup n l = some v → (n, v) ∈ l
  | [], h => by cases h
  | (m, w) :: rest, h => by
    simp only [lookup] at h
    split at h
    · rename_i hm
      cases h
      subst hm
      exact List.mem_cons_self
    · exact List.mem_cons_of_mem _ (lookup_mem h)

/-- An archive sitting in the directory under a `.zst` name contributes its entries, as one
contiguous block, to `recover_all`. -/
theorem recoverAll_contains {fs : ArchFs} (hroot : fs.root = .dir) {n : Name} {a : Archive}
    (hmem : (n, Node.archive a) ∈ fs.nodes) (hext : hasZstExt n = true) :
    ∃ pre post, recoverAll fs = some (pre ++ a.entries.map Entry.reser ++ post) := by
  rw [recoverAll_dir fs hroot]
  have hin : (n, Node.archive a) ∈ listArchives fs.nodes := by
    unfold listArchives
    apply (isort_perm _ _).symm.subset
    exact List.mem_filter.mpr ⟨hmem, hext⟩
  obtain ⟨s, t, hst⟩ := List.append_of_mem hin
  rw [hst]
  refine ⟨s.flatMap nodeEntries, t.flatMap nodeEntries, ?_⟩
  simp [List.flatMap_append, List.flatMap_cons, nodeEntries, readNode]

/-! ## histories of conservative cleanups -/

section History
variable {L : Type} (p : Parser L) (fails : Nat → Fault) (shard : Nat)

/-- `n` is a name the archive pass over `wal` may write. -/
def Writes (bound : Nat) (wal : List (WalFile L)) (n : Name) : Prop :=
  ∃ g ∈ wal, ∃ id, eligible bound g.name = some id ∧
    ∃ f, findFile wal (walName id) = some f ∧ n = (mkArchive p shard id f.lines).fileName

/-- The hypotheses under which one cleanup keeps the property: distinct names, eligible logs
carry the writer's name for their id, and no archive about to be written has the name of
something already in the archive directory. -/
def StepOk (st : List (WalFile L) × ArchFs) (s : Step L) : Prop :=
  ((addFiles st.1 s.add).map (·.name)).Nodup ∧
  (∀ f ∈ addFiles st.1 s.add, ∀ id, eligible s.bound f.name = some id → f.name = walName id) ∧
  (∀ n, lookup n st.2.nodes ≠ none → ¬ Writes p shard s.bound (addFiles st.1 s.add) n)

def HistoryOk : List (WalFile L) × ArchFs → List (Step L) → Prop
  | _, [] => True
  | st, s :: rest => StepOk p shard st s ∧ HistoryOk (runStep true p fails shard st s) rest

/-- some archive of the directory hands back exactly `es` -/
def Held (fs : ArchFs) (es : List Entry) : Prop :=
  fs.root = .dir ∧ ∃ n a, lookup n fs.nodes = some (.archive a) ∧ hasZstExt n = true ∧
    a.entries.map Entry.reser = es

theorem cleanup_cons_snd (bound : Nat) (wal : List (WalFile L)) (fs : ArchFs) :
    (cleanup true p fails shard bound wal fs).2 = (archivePass p fails shard bound wal wal fs).2 := by
  unfold cleanup
  simp only [if_true]
  split <;> rfl

theorem held_step {st : List (WalFile L) × ArchFs} {s : Step L} {es : List Entry}
    (h : Held st.2 es) (hok : StepOk p shard st s) : Held (runStep true p fails shard st s).2 es := by
  obtain ⟨hroot, n, a, hl, hext, hes⟩ := h
  unfold runStep
  rw [cleanup_cons_snd]
  refine ⟨archivePass_root_dir p fails shard _ _ _ _ hroot, n, a, ?_, hext, hes⟩
  rw [archivePass_preserves p fails shard s.bound _ n _ st.2]
  · exact hl
  · intro g hg id hid f hf heq
    exact hok.2.2 n (by rw [hl]; simp) ⟨g, hg, id, hid, f, hf, heq⟩

theorem held_steps {es : List Entry} : ∀ (steps : List (Step L)) (st : List (WalFile L) × ArchFs),
    Held st.2 es → HistoryOk p fails shard st steps → Held (runSteps true p fails shard st steps).2 es
  | [], _, h, _ => h
  | s :: rest, st, h, hok => by
    simp only [runSteps, List.foldl_cons]
    exact held_steps rest _ (held_step p fails shard h hok.1) hok.2

theorem historyOk_append : ∀ (a b : List (Step L)) (st : List (WalFile L) × ArchFs),
    HistoryOk p fails shard st (a ++ b) →
    HistoryOk p fails shard st a ∧ HistoryOk p fails shard (runSteps true p fails shard st a) b
  | [], _, _, h => ⟨trivial, h⟩
  | s :: a, b, st, h => by
    simp only [List.cons_append, HistoryOk] at h
    obtain ⟨h₁, h₂⟩ := historyOk_append a b _ h.2
    exact ⟨⟨h.1, h₁⟩, by simpa [runSteps] using h₂⟩

theorem runSteps_append (a b : List (Step L)) (st : List (WalFile L) × ArchFs) :
    runSteps true p fails shard st (a ++ b) = runSteps true p fails shard (runSteps true p fails shard st a) b := by
  simp [runSteps, List.foldl_append]

theorem held_recover {fs : ArchFs} {es : List Entry} (h : Held fs es) :
    ∃ pre post, recoverAll fs = some (pre ++ es ++ post) := by
  obtain ⟨hroot, n, a, hl, hext, hes⟩ := h
  obtain ⟨pre, post, hr⟩ := recoverAll_contains hroot (lookup_mem hl) hext
  exact ⟨pre, post, by rw [hr, hes]⟩

end History

end Snel.WalArchive
