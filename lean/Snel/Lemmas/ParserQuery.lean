import Snel.Lemmas.Parser
/-! Round trip of a QUERY command (event type, WHERE, LIMIT, OFFSET) through the `query()` rule. -/
set_option linter.unusedSimpArgs false
set_option linter.unusedVariables false
namespace Snel.Parser
open P

theorem kw_mismatch (k sp rest : Str) (k' : String) (h : Spells sp k') (hne : eqCi k'.toList k = false)
    (hr : HeadAll (fun c => !isLetter c) rest) : kw k (sp ++ rest) = .fail := by
  apply kw_fail
  unfold letterRun
  rw [takeWhile_append_stop isLetter sp rest h.2.1 hr]
  have h1 := h.2.2
  simp only [eqCi, beq_iff_eq] at h1
  simp only [eqCi] at hne ⊢
  rw [h1]; exact hne

theorem kw_nil (k : Str) : kw k [] = .fail := by simp [kw]

/-- the text of one clause: a keyword spelling, a space, a body -/
structure Item where
  sp : Str
  k : String
  body : Str
  val : Clause

def Item.text (i : Item) : Str := i.sp ++ ' ' :: i.body

/-- what follows a clause: nothing, or a space and a word that is not IN / AND / OR -/
def RestOK (rest : Str) : Prop :=
  rest = [] ∨ ∃ c r, rest = ' ' :: c :: r ∧ isLetter c = true ∧ ∀ k ∈ [kIN, kAND, kOR], eqCi (letterRun (c :: r)) k = false

theorem RestOK.stop {rest : Str} (h : RestOK rest) : Stop [kIN, kAND, kOR] rest := by
  rcases h with h | ⟨c, r, h1, h2, h3⟩
  · exact Or.inl h
  · exact Or.inr (Or.inr ⟨c, r, h1, h2, h3⟩)

def Item.Good (S : Sites) (n : Nat) (i : Item) : Prop :=
  Spells i.sp i.k ∧ (∀ b ∈ [kIN, kAND, kOR], eqCi i.k.toList b = false) ∧
  ∀ rest, RestOK rest → clauseP S n (i.text ++ rest) = .ok i.val rest

def itemsText : List Item → Str
  | [] => []
  | i :: is => ' ' :: (i.text ++ itemsText is)

theorem itemsText_restOK (S : Sites) (n : Nat) (is : List Item) (h : ∀ i ∈ is, i.Good S n) : RestOK (itemsText is) := by
  cases is with
  | nil => exact Or.inl rfl
  | cons i is =>
    obtain ⟨hsp, hbad, _⟩ := h i (by simp)
    have := stop_kw i.sp (i.body ++ itemsText is) i.k [kIN, kAND, kOR] hsp hbad
    rcases this with h | ⟨r, h⟩ | ⟨c, r, h1, h2, h3⟩
    · simp at h
    · simp at h
    · refine Or.inr ⟨c, r, ?_, h2, h3⟩
      simpa [itemsText, Item.text] using h1

theorem clauseP_nil (S : Sites) (n : Nat) : clauseP S n [] = .fail := by
  simp [clauseP, forC, sinceC, returnC, linkedC, whereC, usingTimeC, usingC, aggC, sepBy1, aggSpec, timeC, groupC,
    limitC, offsetC, orderC, K, kw_nil]

theorem many_items (S : Sites) (n : Nat) (is : List Item) (h : ∀ i ∈ is, i.Good S n) :
    ∀ m, is.length + 1 ≤ m → many (do ws; clauseP S n) m (itemsText is) = .ok (is.map Item.val) [] := by
  induction is with
  | nil =>
    intro m hm
    obtain ⟨k, rfl⟩ : ∃ k, m = k + 1 := ⟨m - 1, by simp at hm; omega⟩
    have : ws [] = .ok () [] := by simp [ws_apply]
    simp [many_succ, itemsText, this, clauseP_nil]
  | cons i is ih =>
    intro m hm
    obtain ⟨k, rfl⟩ : ∃ k, m = k + 1 := ⟨m - 1, by simp at hm; omega⟩
    obtain ⟨hsp, hbad, hgood⟩ := h i (by simp)
    obtain ⟨c, cs, hc, hl⟩ := spells_head hsp
    have hws : ws (' ' :: (i.text ++ itemsText is)) = .ok () (i.text ++ itemsText is) := by
      apply ws_space
      simp [Item.text, hc, HeadAll, (letter_props c hl).1]
    have h1 := hgood (itemsText is) (itemsText_restOK S n is (fun j hj => h j (by simp [hj])))
    have h2 := ih (fun j hj => h j (by simp [hj])) k (by simp at hm ⊢; omega)
    simp [many_succ, itemsText, hws, h1, h2]


theorem exprF_rt (S : Sites) (K : Kw) (hK : K.Valid) (e : Expr) (he : WFExpr e) (n : Nat)
    (hn : need e + 1 ≤ n) (rest : Str) (hs : Stop [kIN, kAND, kOR] rest) :
    exprF S n (pr K 0 e ++ rest) = .ok e rest := by
  obtain ⟨k, rfl⟩ : ∃ k, n = k + 1 := ⟨n - 1, by omega⟩
  rw [exprF_succ]
  exact (rt S K hK e he k k k k (by omega) (by omega) (by omega) (by omega) rest).2.2 hs

def whereItem (K : Kw) (e : Expr) : Item := ⟨K.where_, "WHERE", pr K 0 e, .where_ e⟩
def limitItem (K : Kw) (v : Nat) : Item := ⟨K.limit, "LIMIT", natDigits v, .limit v⟩
def offsetItem (K : Kw) (v : Nat) : Item := ⟨K.offset, "OFFSET", natDigits v, .offset v⟩

theorem restOK_heads {rest : Str} (h : RestOK rest) :
    HeadAll (fun c => !isLetter c) (' ' :: rest) ∧ HeadAll (fun c => !isDigit c) rest := by
  refine ⟨by simp [HeadAll] <;> decide, ?_⟩
  rcases h with rfl | ⟨c, r, rfl, _, _⟩
  · exact headAll_nil _
  · simp [HeadAll] <;> decide

theorem whereItem_good (S : Sites) (K : Kw) (hK : K.Valid) (e : Expr) (he : WFExpr e) (n : Nat) (hn : need e + 1 ≤ n) :
    (whereItem K e).Good S n := by
  refine ⟨hK.2.2.2.2.2.1, (by show ∀ b ∈ [kIN, kAND, kOR], eqCi "WHERE".toList b = false; decide), ?_⟩
  intro rest hr
  have hsp := hK.2.2.2.2.2.1
  have hh : HeadAll (fun c => !isLetter c) (' ' :: (pr K 0 e ++ rest)) := by simp [HeadAll] <;> decide
  have m : ∀ k, eqCi "WHERE".toList k = false → kw k (K.where_ ++ ' ' :: (pr K 0 e ++ rest)) = .fail :=
    fun k hk => kw_mismatch k K.where_ _ "WHERE" hsp hk hh
  have f1 : kw ['F', 'O', 'R'] (K.where_ ++ ' ' :: (pr K 0 e ++ rest)) = .fail := m _ (by decide)
  have f2 : kw ['S', 'I', 'N', 'C', 'E'] (K.where_ ++ ' ' :: (pr K 0 e ++ rest)) = .fail := m _ (by decide)
  have f3 : kw ['R', 'E', 'T', 'U', 'R', 'N'] (K.where_ ++ ' ' :: (pr K 0 e ++ rest)) = .fail := m _ (by decide)
  have f4 : kw ['L', 'I', 'N', 'K', 'E', 'D'] (K.where_ ++ ' ' :: (pr K 0 e ++ rest)) = .fail := m _ (by decide)
  have ok : kw ['W', 'H', 'E', 'R', 'E'] (K.where_ ++ ' ' :: (pr K 0 e ++ rest)) = .ok () (' ' :: (pr K 0 e ++ rest)) :=
    kw_ok "WHERE" K.where_ _ hsp hh
  have hws := ws_space _ (pr_head_ws K hK e he 0 rest)
  have hex := exprF_rt S K hK e he n hn rest hr.stop
  simp [whereItem, Item.text, clauseP, forC, sinceC, returnC, linkedC, whereC, Snel.Parser.K, f1, f2, f3, f4, ok, hws, hex]

theorem natDigits_head_ws (v : Nat) (rest : Str) : HeadAll (fun c => !isWs c) (natDigits v ++ rest) := by
  obtain ⟨_, hd, hne⟩ := natDigits_spec v
  cases hdg : natDigits v with
  | nil => exact absurd hdg hne
  | cons c cs =>
    rw [hdg] at hd
    simp at hd
    simp [HeadAll]
    cases hw' : isWs c with
    | false => rfl
    | true =>
      simp [isWs] at hw'
      rcases hw' with ((rfl | rfl) | rfl) | rfl <;> exact absurd hd.1 (by decide)

theorem limitItem_good (S : Sites) (K : Kw) (hK : K.Valid) (v : Nat) (hv : v ≤ Gen.C17.u32Max) (n : Nat) (hn : 1 ≤ n) :
    (limitItem K v).Good S n := by
  refine ⟨hK.2.2.2.2.2.2.1, (by show ∀ b ∈ [kIN, kAND, kOR], eqCi "LIMIT".toList b = false; decide), ?_⟩
  intro rest hr
  have hsp := hK.2.2.2.2.2.2.1
  obtain ⟨hv1, hd, hne⟩ := natDigits_spec v
  have hh : HeadAll (fun c => !isLetter c) (' ' :: (natDigits v ++ rest)) := by simp [HeadAll] <;> decide
  have m : ∀ k, eqCi "LIMIT".toList k = false → kw k (K.limit ++ ' ' :: (natDigits v ++ rest)) = .fail :=
    fun k hk => kw_mismatch k K.limit _ "LIMIT" hsp hk hh
  have f1 : kw ['F', 'O', 'R'] (K.limit ++ ' ' :: (natDigits v ++ rest)) = .fail := m _ (by decide)
  have f2 : kw ['S', 'I', 'N', 'C', 'E'] (K.limit ++ ' ' :: (natDigits v ++ rest)) = .fail := m _ (by decide)
  have f3 : kw ['R', 'E', 'T', 'U', 'R', 'N'] (K.limit ++ ' ' :: (natDigits v ++ rest)) = .fail := m _ (by decide)
  have f4 : kw ['L', 'I', 'N', 'K', 'E', 'D'] (K.limit ++ ' ' :: (natDigits v ++ rest)) = .fail := m _ (by decide)
  have f5 : kw ['W', 'H', 'E', 'R', 'E'] (K.limit ++ ' ' :: (natDigits v ++ rest)) = .fail := m _ (by decide)
  have f6 : kw ['U', 'S', 'I', 'N', 'G'] (K.limit ++ ' ' :: (natDigits v ++ rest)) = .fail := m _ (by decide)
  have f7 : kw ['C', 'O', 'U', 'N', 'T'] (K.limit ++ ' ' :: (natDigits v ++ rest)) = .fail := m _ (by decide)
  have f8 : kw ['T', 'O', 'T', 'A', 'L'] (K.limit ++ ' ' :: (natDigits v ++ rest)) = .fail := m _ (by decide)
  have f9 : kw ['A', 'V', 'G'] (K.limit ++ ' ' :: (natDigits v ++ rest)) = .fail := m _ (by decide)
  have f10 : kw ['M', 'I', 'N'] (K.limit ++ ' ' :: (natDigits v ++ rest)) = .fail := m _ (by decide)
  have f11 : kw ['M', 'A', 'X'] (K.limit ++ ' ' :: (natDigits v ++ rest)) = .fail := m _ (by decide)
  have f12 : kw ['P', 'E', 'R'] (K.limit ++ ' ' :: (natDigits v ++ rest)) = .fail := m _ (by decide)
  have f13 : kw ['B', 'Y'] (K.limit ++ ' ' :: (natDigits v ++ rest)) = .fail := m _ (by decide)
  have ok : kw ['L', 'I', 'M', 'I', 'T'] (K.limit ++ ' ' :: (natDigits v ++ rest)) = .ok () (' ' :: (natDigits v ++ rest)) :=
    kw_ok "LIMIT" K.limit _ hsp hh
  have hws := ws_space _ (natDigits_head_ws v rest)
  have hint := integerTok_pos (natDigits v) rest hd hne (restOK_heads hr).2
  have hconv : convU32 false (natDigits v) = some v := by simp [convU32, hv1, hv]
  simp [limitItem, Item.text, clauseP, forC, sinceC, returnC, linkedC, whereC, usingTimeC, usingC, aggC, sepBy1, aggSpec,
    timeC, groupC, limitC, Snel.Parser.K, f1, f2, f3, f4, f5, f6, f7, f8, f9, f10, f11, f12, f13, ok, hws, hint, hconv]

theorem offsetItem_good (S : Sites) (K : Kw) (hK : K.Valid) (v : Nat) (hv : v ≤ Gen.C17.u32Max) (n : Nat) (hn : 1 ≤ n) :
    (offsetItem K v).Good S n := by
  refine ⟨hK.2.2.2.2.2.2.2, (by show ∀ b ∈ [kIN, kAND, kOR], eqCi "OFFSET".toList b = false; decide), ?_⟩
  intro rest hr
  have hsp := hK.2.2.2.2.2.2.2
  obtain ⟨hv1, hd, hne⟩ := natDigits_spec v
  have hh : HeadAll (fun c => !isLetter c) (' ' :: (natDigits v ++ rest)) := by simp [HeadAll] <;> decide
  have m : ∀ k, eqCi "OFFSET".toList k = false → kw k (K.offset ++ ' ' :: (natDigits v ++ rest)) = .fail :=
    fun k hk => kw_mismatch k K.offset _ "OFFSET" hsp hk hh
  have f1 : kw ['F', 'O', 'R'] (K.offset ++ ' ' :: (natDigits v ++ rest)) = .fail := m _ (by decide)
  have f2 : kw ['S', 'I', 'N', 'C', 'E'] (K.offset ++ ' ' :: (natDigits v ++ rest)) = .fail := m _ (by decide)
  have f3 : kw ['R', 'E', 'T', 'U', 'R', 'N'] (K.offset ++ ' ' :: (natDigits v ++ rest)) = .fail := m _ (by decide)
  have f4 : kw ['L', 'I', 'N', 'K', 'E', 'D'] (K.offset ++ ' ' :: (natDigits v ++ rest)) = .fail := m _ (by decide)
  have f5 : kw ['W', 'H', 'E', 'R', 'E'] (K.offset ++ ' ' :: (natDigits v ++ rest)) = .fail := m _ (by decide)
  have f6 : kw ['U', 'S', 'I', 'N', 'G'] (K.offset ++ ' ' :: (natDigits v ++ rest)) = .fail := m _ (by decide)
  have f7 : kw ['C', 'O', 'U', 'N', 'T'] (K.offset ++ ' ' :: (natDigits v ++ rest)) = .fail := m _ (by decide)
  have f8 : kw ['T', 'O', 'T', 'A', 'L'] (K.offset ++ ' ' :: (natDigits v ++ rest)) = .fail := m _ (by decide)
  have f9 : kw ['A', 'V', 'G'] (K.offset ++ ' ' :: (natDigits v ++ rest)) = .fail := m _ (by decide)
  have f10 : kw ['M', 'I', 'N'] (K.offset ++ ' ' :: (natDigits v ++ rest)) = .fail := m _ (by decide)
  have f11 : kw ['M', 'A', 'X'] (K.offset ++ ' ' :: (natDigits v ++ rest)) = .fail := m _ (by decide)
  have f12 : kw ['P', 'E', 'R'] (K.offset ++ ' ' :: (natDigits v ++ rest)) = .fail := m _ (by decide)
  have f13 : kw ['B', 'Y'] (K.offset ++ ' ' :: (natDigits v ++ rest)) = .fail := m _ (by decide)
  have f14 : kw ['L', 'I', 'M', 'I', 'T'] (K.offset ++ ' ' :: (natDigits v ++ rest)) = .fail := m _ (by decide)
  have ok : kw ['O', 'F', 'F', 'S', 'E', 'T'] (K.offset ++ ' ' :: (natDigits v ++ rest)) = .ok () (' ' :: (natDigits v ++ rest)) :=
    kw_ok "OFFSET" K.offset _ hsp hh
  have hws := ws_space _ (natDigits_head_ws v rest)
  have hint := integerTok_pos (natDigits v) rest hd hne (restOK_heads hr).2
  have hconv : convU32 false (natDigits v) = some v := by simp [convU32, hv1, hv]
  simp [offsetItem, Item.text, clauseP, forC, sinceC, returnC, linkedC, whereC, usingTimeC, usingC, aggC, sepBy1, aggSpec,
    timeC, groupC, limitC, offsetC, Snel.Parser.K, f1, f2, f3, f4, f5, f6, f7, f8, f9, f10, f11, f12, f13, f14, ok, hws, hint, hconv]


/-! ## the whole `query()` rule -/
def queryItems (K : Kw) (q : Query) : List Item :=
  (match q.whereClause with | some e => [whereItem K e] | none => []) ++
  (match q.limit with | some v => [limitItem K v] | none => []) ++
  (match q.offset with | some v => [offsetItem K v] | none => [])

theorem printQuery_eq (K : Kw) (q : Query) :
    printQuery K q = K.query ++ ' ' :: (q.eventType ++ itemsText (queryItems K q)) := by
  unfold printQuery queryItems
  cases q.whereClause <;> cases q.limit <;> cases q.offset <;>
    simp [itemsText, Item.text, whereItem, limitItem, offsetItem]

/-- after the `_` that follows the event sequence has eaten the first space -/
theorem many_items_stripped (S : Sites) (n : Nat) (is : List Item) (h : ∀ i ∈ is, i.Good S n) (m : Nat)
    (hm : is.length + 1 ≤ m) :
    ∃ t, ws (itemsText is) = .ok () t ∧ many (do ws; clauseP S n) m t = .ok (is.map Item.val) [] := by
  cases is with
  | nil => exact ⟨[], by simp [itemsText, ws_apply], many_items S n [] h m hm⟩
  | cons i is =>
    obtain ⟨k, rfl⟩ : ∃ k, m = k + 1 := ⟨m - 1, by simp at hm; omega⟩
    obtain ⟨hsp, hbad, hgood⟩ := h i (by simp)
    obtain ⟨c, cs, hc, hl⟩ := spells_head hsp
    have hhead : HeadAll (fun c => !isWs c) (i.text ++ itemsText is) := by
      simp [Item.text, hc, HeadAll, (letter_props c hl).1]
    refine ⟨i.text ++ itemsText is, ws_space _ hhead, ?_⟩
    have h1 := hgood (itemsText is) (itemsText_restOK S n is (fun j hj => h j (by simp [hj])))
    have h2 := many_items S n is (fun j hj => h j (by simp [hj])) k (by simp at hm ⊢; omega)
    simp [many_succ, ws_noop _ hhead, h1, h2]

theorem item_kinds (K : Kw) (q : Query) (i : Item) (h : i ∈ queryItems K q) :
    i.k = "WHERE" ∨ i.k = "LIMIT" ∨ i.k = "OFFSET" := by
  unfold queryItems at h
  cases hw : q.whereClause <;> cases hl : q.limit <;> cases ho : q.offset <;> simp [hw, hl, ho] at h
  all_goals (first
    | (rcases h with rfl | rfl | rfl <;> simp [whereItem, limitItem, offsetItem])
    | (rcases h with rfl | rfl <;> simp [whereItem, limitItem, offsetItem])
    | (subst h; simp [whereItem, limitItem, offsetItem]))

theorem queryItems_good (S : Sites) (K : Kw) (hK : K.Valid) (q : Query) (hq : WFQuery q) (n : Nat)
    (hn : ∀ e, q.whereClause = some e → need e + 1 ≤ n) (h1 : 1 ≤ n) : ∀ i ∈ queryItems K q, i.Good S n := by
  intro i hi
  unfold queryItems at hi
  simp only [List.mem_append] at hi
  rcases hi with (hi | hi) | hi
  · cases hw : q.whereClause with
    | none => simp [hw] at hi
    | some e => simp [hw] at hi; subst hi; exact whereItem_good S K hK e (hq.2.1 e hw) n (hn e hw)
  · cases hl : q.limit with
    | none => simp [hl] at hi
    | some v => simp [hl] at hi; subst hi; exact limitItem_good S K hK v (hq.2.2.1 v hl) n h1
  · cases ho : q.offset with
    | none => simp [ho] at hi
    | some v => simp [ho] at hi; subst hi; exact offsetItem_good S K hK v (hq.2.2.2.1 v ho) n h1

theorem buildQuery_items (K : Kw) (q : Query) (hq : WFQuery q) :
    buildQuery (q.eventType, []) ((queryItems K q).map Item.val) = q := by
  obtain ⟨_, _, _, _, h1, h2, h3, h4, h5, h6, h7, h8, h9, h10, h11⟩ := hq
  obtain ⟨et, ctx, since, tf, stf, w, lim, off, ord, ret, link, aggs, tb, gb, seq⟩ := q
  simp only at h1 h2 h3 h4 h5 h6 h7 h8 h9 h10 h11
  subst h1 h2 h3 h4 h5 h6 h7 h8 h9 h10 h11
  cases w <;> cases lim <;> cases off <;>
    simp [buildQuery, queryItems, whereItem, limitItem, offsetItem, applyClause]


theorem seqLink_fail_items (S : Sites) (K : Kw) (hK : K.Valid) (q : Query) (n : Nat)
    (hg : ∀ i ∈ queryItems K q, i.Good S n) :
    (do ws; let l ← seqLink; ws; let t ← ident; return (l, t) : P (Link × Str)) (itemsText (queryItems K q)) = .fail := by
  have hk := item_kinds K q
  generalize queryItems K q = is at hg hk
  cases is with
  | nil => simp [itemsText, ws_apply, seqLink, Snel.Parser.K, kw_nil]
  | cons i is =>
    obtain ⟨hsp, _, _⟩ := hg i (by simp)
    obtain ⟨c, cs, hc, hl⟩ := spells_head hsp
    have hhead : HeadAll (fun c => !isWs c) (i.text ++ itemsText is) := by
      simp [Item.text, hc, HeadAll, (letter_props c hl).1]
    have hh : HeadAll (fun c => !isLetter c) (' ' :: (i.body ++ itemsText is)) := by simp [HeadAll] <;> decide
    have hne : eqCi i.k.toList "FOLLOWED".toList = false ∧ eqCi i.k.toList "PRECEDED".toList = false := by
      rcases hk i (by simp) with h | h | h <;> rw [h] <;> decide
    have f1 : kw ['F', 'O', 'L', 'L', 'O', 'W', 'E', 'D'] (i.sp ++ ' ' :: (i.body ++ itemsText is)) = .fail :=
      kw_mismatch _ i.sp _ i.k hsp hne.1 hh
    have f2 : kw ['P', 'R', 'E', 'C', 'E', 'D', 'E', 'D'] (i.sp ++ ' ' :: (i.body ++ itemsText is)) = .fail :=
      kw_mismatch _ i.sp _ i.k hsp hne.2 hh
    have hws := ws_space _ hhead
    simp only [Item.text, List.append_assoc, List.cons_append] at hws
    simp [itemsText, Item.text, hws, seqLink, Snel.Parser.K, f1, f2]

/-- `query()` parses the printed form of every well-formed QUERY of the fragment back to the command. -/
theorem queryP_rt (S : Sites) (K : Kw) (hK : K.Valid) (q : Query) (hq : WFQuery q) (n : Nat)
    (hn : ∀ e, q.whereClause = some e → need e + 1 ≤ n) (h4 : 4 ≤ n) :
    queryP S n (printQuery K q) = .ok q [] := by
  rw [printQuery_eq]
  have hg := queryItems_good S K hK q hq n hn (by omega)
  have hlen : (queryItems K q).length + 1 ≤ n := by
    unfold queryItems
    cases q.whereClause <;> cases q.limit <;> cases q.offset <;> simp <;> omega
  obtain ⟨t, hwsT, hmany⟩ := many_items_stripped S n (queryItems K q) hg n hlen
  have hrest := itemsText_restOK S n (queryItems K q) hg
  have hsl := seqLink_fail_items S K hK q n hg
  have hbuild := buildQuery_items K q hq
  generalize itemsText (queryItems K q) = T at *
  obtain ⟨c, cs, hc, hl⟩ := spells_head hK.2.2.2.2.1
  obtain ⟨c2, cs2, het, hc2, hcs2⟩ := hq.1
  have hws0 : ws (K.query ++ ' ' :: (q.eventType ++ T)) = .ok () (K.query ++ ' ' :: (q.eventType ++ T)) :=
    ws_noop _ (by simp [hc, HeadAll, (letter_props c hl).1])
  have hkw : kw ['Q', 'U', 'E', 'R', 'Y'] (K.query ++ ' ' :: (q.eventType ++ T)) = .ok () (' ' :: (q.eventType ++ T)) :=
    kw_ok "QUERY" K.query _ hK.2.2.2.2.1 (by simp [HeadAll] <;> decide)
  have hws1 : ws (' ' :: (q.eventType ++ T)) = .ok () (q.eventType ++ T) :=
    ws_space _ (by simp [het, HeadAll, (identStart_props c2 hc2).1])
  have hTid : HeadAll (fun c => !isIdentChar c) T := by
    rcases hrest with rfl | ⟨c, r, rfl, _, _⟩
    · exact headAll_nil _
    · simp [HeadAll] <;> decide
  have hid := ident_ok q.eventType T ⟨c2, cs2, het, hc2, hcs2⟩ hTid
  obtain ⟨k, rfl⟩ : ∃ k, n = k + 1 := ⟨n - 1, by omega⟩
  have hm0 : many (do ws; let l ← seqLink; ws; let t ← ident; return (l, t) : P (Link × Str)) (k + 1) T = .ok [] T := by
    rw [many_succ, hsl]
  have hwsE : ws ([] : Str) = .ok () [] := by simp [ws_apply]
  simp [queryP, hws0, Snel.Parser.K, hkw, hws1, eventSeq, hid, hm0, hwsT, hmany, hwsE, eof, hbuild]


/-! ## the top-level fuel covers the printed text -/
theorem printValue_ne_nil (v : Value) (hv : WFValue v) : 1 ≤ (printValue v).length := by
  cases v with
  | str s => simp [printValue, quote]
  | int i =>
    obtain ⟨_, _, hne⟩ := natDigits_spec i.natAbs
    simp only [printValue, printInt]
    split
    · simp
    · cases h : natDigits i.natAbs with
      | nil => exact absurd h hne
      | cons c cs => simp
  | float b => simp [printValue, printF64]; omega
  | bool b => exact absurd hv (by simp [WFValue])

theorem commaJoin_length (vs : List Value) (hv : ∀ v ∈ vs, WFValue v) :
    vs.length ≤ (commaJoin (vs.map printValue)).length := by
  cases vs with
  | nil => simp
  | cons v vs =>
    rw [commaJoin_cons]
    have h1 := printValue_ne_nil v (hv v (by simp))
    have : vs.length ≤ (tailText vs).length := by
      clear h1 hv
      induction vs with
      | nil => simp
      | cons w ws ih => simp [tailText]; omega
    simp; omega

theorem spells_length {sp : Str} {k : String} (h : Spells sp k) : 1 ≤ sp.length := by
  obtain ⟨c, cs, rfl, _⟩ := spells_head h; simp

theorem need_le_length (K : Kw) (hK : K.Valid) (e : Expr) (he : WFExpr e) : ∀ l, need e ≤ (pr K l e).length := by
  induction e with
  | cmp f op v =>
    intro l
    obtain ⟨c, cs, rfl, _⟩ := field_head f he.1.1
    by_cases h : op = .eq ∧ v = .bool true
    · obtain ⟨rfl, rfl⟩ := h; simp [pr_cmp_atom, need]
    · rw [pr_cmp_ne K l _ op v h]; simp [need]
  | inList f vs =>
    intro l
    have h1 := commaJoin_length vs he.2
    have h2 := spells_length hK.2.2.2.1
    obtain ⟨c, cs, rfl, _⟩ := field_head f he.1.1
    simp [pr, need]; omega
  | not x ih =>
    intro l
    have := ih he 2
    simp [pr, need]; omega
  | and a b iha ihb =>
    intro l
    have h1 := iha he.1 2
    have h2 := ihb he.2 1
    by_cases hl : 1 < l <;> simp [pr, paren, hl, need] <;> omega
  | or a b iha ihb =>
    intro l
    have h1 := iha he.1 1
    have h2 := ihb he.2 0
    by_cases hl : 0 < l <;> simp [pr, paren, hl, need] <;> omega

/-- the fuel `parse_command` is modelled with is enough for the printed text -/
theorem fuel_printQuery (K : Kw) (hK : K.Valid) (q : Query) (hq : WFQuery q) :
    (∀ e, q.whereClause = some e → need e + 1 ≤ fuelOf (printQuery K q)) ∧ 4 ≤ fuelOf (printQuery K q) := by
  have h1 := spells_length hK.2.2.2.2.1
  obtain ⟨c, cs, het, _, _⟩ := hq.1
  constructor
  · intro e he
    have := need_le_length K hK e (hq.2.1 e he) 0
    unfold fuelOf printQuery
    rw [he]
    simp; omega
  · unfold fuelOf printQuery
    rw [het]
    simp; omega

end Snel.Parser
