import Snel.Lemmas.Aggregate
/-!
# C09 — aggregates equal a fold over the events the selection would return

Property theorems only. Model: `Snel.Model.Aggregate` (tied to the Rust aggregate path by the
`flow`, `state`, `bucket`, `pi64`, `conv` and `e2e` correspondence streams); helper lemmas:
`Snel.Lemmas.Aggregate`.

Vocabulary. A *flow* is one `AggregateOp` (a shard's memtable flow or segment flow): a list of
rows, each tagged with the path its batch took through the sink. `runFlows p flows` is the
coordinator's table after all partial tables were merged. `reportAt p t k` is the canonical form
of the final table: the cells reported under key `k` (a finite map; the code sorts it for
output). `spec m rs` is the reference fold of metric `m` over rows `rs`; `groupRows p flows k` are
the rows whose final key is `k`.

Since repo commit 829ebe3 (`into_partial` merges sink groups that map to one partial key) the
split of a flow between the sink's columnar and row paths no longer matters, so the former
`NoSplit` hypothesis is gone. One hypothesis is left on the `_partial` theorems, the negation of
finding class `minmax-null-as-empty`:
* `GoodFlow p fl` — for the fields of MIN / MAX metrics, cells are as `ColumnConverter` builds them
  (`tagFlow_wf`: always true) and never blank (no integer reading and no string: a null in an
  all-null/int batch): see `C09_partition_independent_fails`. Plans without MIN / MAX need no
  hypothesis at all: the `_no_minmax` theorems are at full strength for them.
-/
namespace Snel.Props.C09
open Snel.Agg

/-! ## the merge of partial states -/

/-- `AggState::merge` is commutative on states of one metric (COUNT UNIQUE as a set). -/
theorem C09_merge_comm (a b : St) (h : a.kind = b.kind) : (St.merge a b).Equiv (St.merge b a) :=
  St.merge_comm a b h

/-- `AggState::merge` is associative on states of one metric, including the wrapping sums. -/
theorem C09_merge_assoc (a b c : St) (h1 : a.kind = b.kind) (h2 : b.kind = c.kind) :
    (St.merge (St.merge a b) c).Equiv (St.merge a (St.merge b c)) :=
  St.merge_assoc a b c h1 h2

/-- Equivalent (duplicate-free) states report the same cell, so the two laws above carry over
to what the user sees. -/
theorem C09_merge_observable (m : Metric) (a b : St) (h : a.Equiv b) (ha : a.WF) (hb : b.WF) :
    outOf m a = outOf m b :=
  St.out_congr m a b h ha hb

/-- Mismatched variants are ignored by `merge` (`_ => {}`), so without the same-metric
hypothesis associativity is false. -/
theorem C09_merge_assoc_mixed_fails :
    ∃ a b c : St, ¬ (St.merge (St.merge a b) c).Equiv (St.merge a (St.merge b c)) :=
  ⟨.cnt 1, .sum 0, .cnt 1, by simp [St.merge, St.Equiv, wrap]⟩

/-! ## homomorphism: one metric, one group -/

/-- **State-level homomorphism.** Aggregating `xs ++ ys` in one sink and snapshotting, or
aggregating `xs` and `ys` separately, snapshotting both and merging the partial states, reports
the same cell — the reference fold over `xs ++ ys`. PARTIAL: needs converter-built cells
(always true) and no blank MIN/MAX cell, see `C09_partition_independent_fails`. -/
theorem C09_homomorphism_partial (m : Metric) (xs ys : List Row) (hx : xs ≠ []) (hy : ys ≠ [])
    (hwf : ∀ r ∈ xs ++ ys, RowWF r)
    (hnb : ∀ f, m.minMaxField = some f → ∀ r ∈ xs ++ ys, nonNull r f = true) :
    outOf m (St.merge (snapshot (fstate m xs)) (snapshot (fstate m ys))) = some (spec m (xs ++ ys)) ∧
    outOf m (snapshot (fstate m (xs ++ ys))) = some (spec m (xs ++ ys)) := by
  have px := prep_snapshot m _ xs (rep_fstate m xs) (fun _ _ r hr => hwf r (by simp [hr]))
    (fun f hf r hr => hnb f hf r (by simp [hr])) hx
  have py := prep_snapshot m _ ys (rep_fstate m ys) (fun _ _ r hr => hwf r (by simp [hr]))
    (fun f hf r hr => hnb f hf r (by simp [hr])) hy
  have pxy := prep_snapshot m _ (xs ++ ys) (rep_fstate m _) (fun _ _ => hwf) hnb (by simp [hx])
  exact ⟨out_of_prep m _ _ (prep_merge m _ _ _ _ px py), out_of_prep m _ _ pxy⟩

/-- Inside one sink (no snapshot) the aggregator after `xs ++ ys` is the aggregator after `xs`
continued with `ys`, and it reports the reference fold — unconditionally. -/
theorem C09_sink_fold (m : Metric) (xs ys : List Row) :
    fstate m (xs ++ ys) = ys.foldl (fun s r => update m r s) (fstate m xs) ∧
    outOf m (fstate m (xs ++ ys)) = some (spec m (xs ++ ys)) :=
  ⟨fstate_append m xs ys, out_of_prep m _ _ (prep_of_rep m _ _ (rep_fstate m _))⟩

/-! ## the whole table -/

/-- **Equals-fold, table level.** Whatever the split of the rows over flows (shards ×
memory/segments) and batches: a group is reported iff some row has its key and the key is
retained, and every reported cell is the reference fold over exactly the rows of that group.
PARTIAL w.r.t. `GoodFlow` (see header). -/
theorem C09_equals_fold_partial (p : Plan) (flows : List (List TRow))
    (hg : ∀ fl ∈ flows, GoodFlow p fl) (k : Key) :
    reportAt p (runFlows p flows) k =
      if retained p k && !(groupRows p flows k).isEmpty then
        some (p.metrics.map fun m => spec m (groupRows p flows k))
      else none :=
  reportAt_spec p flows hg k

/-- **Equals-fold at full strength for plans without MIN / MAX** (COUNT, COUNT f, COUNT UNIQUE,
TOTAL, AVG, any BY / PER): no hypothesis on the data or on the split. -/
theorem C09_equals_fold_no_minmax (p : Plan) (flows : List (List TRow))
    (hp : ∀ m ∈ p.metrics, m.minMaxField = none) (k : Key) :
    reportAt p (runFlows p flows) k =
      if retained p k && !(groupRows p flows k).isEmpty then
        some (p.metrics.map fun m => spec m (groupRows p flows k))
      else none :=
  reportAt_spec p flows (fun fl _ => goodFlow_of_no_minmax p fl hp) k

/-- **Homomorphism, table level**: one flow over `xs ++ ys` and two flows `xs`, `ys` whose
partial tables the coordinator merges give the same final table. -/
theorem C09_homomorphism_table_partial (p : Plan) (xs ys : List TRow)
    (hg : GoodFlow p (xs ++ ys)) (k : Key) :
    reportAt p (runFlows p [xs ++ ys]) k = reportAt p (runFlows p [xs, ys]) k := by
  have gx : GoodFlow p xs := ⟨fun m hm f hf t ht => hg.ok m hm f hf t (by simp [ht])⟩
  have gy : GoodFlow p ys := ⟨fun m hm f hf t ht => hg.ok m hm f hf t (by simp [ht])⟩
  rw [reportAt_spec p [xs ++ ys] (by simpa using hg), reportAt_spec p [xs, ys] (by simp [gx, gy])]
  have e : allRows [xs ++ ys] = allRows [xs, ys] := by simp [allRows]
  unfold groupRows
  rw [e]

/-- **Partition independence.** Two runs over the same multiset of rows — any split over
shards / memory / segments / batches, any arrival (merge) order of the partial tables —
report the same table. PARTIAL (`GoodFlow` on both runs). -/
theorem C09_partition_independent_partial (p : Plan) (flows flows' : List (List TRow))
    (hperm : (allRows flows).Perm (allRows flows'))
    (hg : ∀ fl ∈ flows, GoodFlow p fl) (hg' : ∀ fl ∈ flows', GoodFlow p fl) (k : Key) :
    reportAt p (runFlows p flows) k = reportAt p (runFlows p flows') k := by
  rw [reportAt_spec p flows hg, reportAt_spec p flows' hg']
  have hp : (groupRows p flows k).Perm (groupRows p flows' k) := hperm.filter _
  have he : (groupRows p flows k).isEmpty = (groupRows p flows' k).isEmpty := by
    rw [Bool.eq_iff_iff]
    simp only [List.isEmpty_iff]
    exact ⟨fun h => by rw [h] at hp; exact hp.symm.eq_nil, fun h => by rw [h] at hp; exact hp.eq_nil⟩
  have hs : (p.metrics.map fun m => spec m (groupRows p flows k)) =
      p.metrics.map fun m => spec m (groupRows p flows' k) :=
    List.map_congr_left fun m _ => spec_perm m hp
  rw [he, hs]

/-- **Partition independence at full strength for plans without MIN / MAX**: any two splits of the
same row multiset over shards, memory / segments, batches and sink paths report the same table. -/
theorem C09_partition_independent_no_minmax (p : Plan) (flows flows' : List (List TRow))
    (hp : ∀ m ∈ p.metrics, m.minMaxField = none)
    (hperm : (allRows flows).Perm (allRows flows')) (k : Key) :
    reportAt p (runFlows p flows) k = reportAt p (runFlows p flows') k :=
  C09_partition_independent_partial p flows flows' hperm
    (fun fl _ => goodFlow_of_no_minmax p fl hp) (fun fl _ => goodFlow_of_no_minmax p fl hp) k

/-- The full statement (no hypothesis on blank MIN/MAX cells) is false of the code: a null in a
batch whose column is all null/integer is ignored by MIN inside one sink, but becomes the
candidate `""` once its group is snapshotted on its own. Same rows, two splits, two answers
(`"abc"` vs `""`). Replayed on the real code by the `flow` stream (class `minmax-null-as-empty`). -/
theorem C09_partition_independent_fails :
    ∃ (p : Plan) (flows flows' : List (List TRow)),
      (allRows flows).Perm (allRows flows') ∧
      finalTable p (runFlows p flows) ≠ finalTable p (runFlows p flows') := by
  let blank : Row := [some ⟨none, none⟩]
  let abc : Row := [some ⟨none, some "abc"⟩]
  refine ⟨⟨[.min 0], none, none, 0, true⟩, [[(false, blank), (false, abc)]],
    [[(false, blank)], [(false, abc)]], List.Perm.refl _, ?_⟩
  decide

/-- Regression of finding `C09-columnar-split` (repaired by 829ebe3): an un-grouped COUNT whose
flow has one batch on the columnar path and one on the row path holds two sink groups;
`into_partial` now merges them, and COUNT reports both rows. (Before the repair one group replaced
the other and the answer was 1.) The general statement is `C09_equals_fold_no_minmax`, which has no
hypothesis on the sink paths. -/
theorem C09_columnar_split_merged :
    let p : Plan := ⟨[.countAll], none, none, 0, true⟩
    let fl : List TRow := [(true, []), (false, [])]
    (sinkAgg p fl).length = 2 ∧
    reportAt p (runFlows p [fl]) ⟨none, []⟩ = some [.int 2] ∧
    spec .countAll (allRows [fl]) = .int 2 := by
  decide

/-! ## every selected row is in exactly one group; LIMIT -/

/-- Every row that reaches the aggregators has exactly one final key; the coordinator holds a
group under that key; and the rows of distinct groups are disjoint and together are all rows.
PARTIAL: whether the group is *reported* additionally needs `retained`, see
`C09_null_group_dropped_fails`. -/
theorem C09_every_row_one_group_partial (p : Plan) (flows : List (List TRow))
    (hg : ∀ fl ∈ flows, GoodFlow p fl) (r : Row) (hr : r ∈ allRows flows) :
    (∃ sts, (runFlows p flows).get (finalKey p r) = some sts) ∧
    (∀ k, r ∈ groupRows p flows k ↔ k = finalKey p r) ∧
    (retained p (finalKey p r) = true → (reportAt p (runFlows p flows) (finalKey p r)).isSome) := by
  have hmem : r ∈ groupRows p flows (finalKey p r) := by simp [groupRows, hr]
  refine ⟨?_, ?_, ?_⟩
  · have h := runFlows_spec p flows hg (finalKey p r)
    cases hget : (runFlows p flows).get (finalKey p r) with
    | some sts => exact ⟨sts, rfl⟩
    | none =>
      rw [hget] at h
      simp only [] at h
      simp only [groupRows, allRows] at hmem
      rw [h] at hmem; cases hmem
  · intro k
    simp only [groupRows, List.mem_filter, hr, true_and, decide_eq_true_eq]
    exact eq_comm
  · intro hret
    rw [reportAt_spec p flows hg, hret]
    have : (groupRows p flows (finalKey p r)).isEmpty = false := by
      cases h : groupRows p flows (finalKey p r) with
      | nil => rw [h] at hmem; cases hmem
      | cons _ _ => rfl
    simp [this]

/-- With BY, `emit_merged_groups` drops every group that has an empty group value — a null, a
missing field or the empty string. Those selected rows are in *no* reported group. (class
`group-null-or-empty-dropped`) -/
theorem C09_null_group_dropped_fails :
    ∃ (p : Plan) (flows : List (List TRow)) (r : Row), r ∈ allRows flows ∧
      finalTable p (runFlows p flows) = some [] := by
  refine ⟨⟨[.countAll], some [0], none, 0, true⟩, [[(false, [some ⟨none, some ""⟩])]],
    [some ⟨none, some ""⟩], by simp [allRows], by decide⟩

/-- LIMIT / OFFSET only cap the number of groups: the result is a sub-list of the full table of
the stated length; the cells of the groups that remain are untouched. -/
theorem C09_limit_caps_groups {α : Type} (off lim : Option Nat) (rows : List α) :
    (limitRows off lim rows).Sublist rows ∧
    (limitRows off lim rows).length =
      match lim with
      | some l => min l (rows.length - off.getD 0)
      | none => rows.length - off.getD 0 :=
  ⟨limitRows_sublist off lim rows, limitRows_length off lim rows⟩

/-- **What LIMIT / OFFSET report.** Take the listed final table of any run (any split of the rows
over flows — the per-flow partials are merged before anything is cut), put it in *any* order
(`sorted`: the merger's comparison is not part of this property) and cut it with OFFSET / LIMIT:
every group that is still reported carries, metric by metric, the reference fold over **all** rows
of that group from **all** flows. A flow may therefore not drop a group of its partial before the
merge (tie: `tools/consts/C09.py`, "AggregateOp::run emits the sink's partial as it is"). PARTIAL
w.r.t. `GoodFlow`. -/
theorem C09_limit_reported_groups_partial (p : Plan) (flows : List (List TRow))
    (hg : ∀ fl ∈ flows, GoodFlow p fl) (rows sorted : List (Key × List Out))
    (hrows : finalTable p (runFlows p flows) = some rows) (hsub : ∀ e ∈ sorted, e ∈ rows)
    (off lim : Option Nat) :
    ∀ e ∈ limitRows off lim sorted,
      groupRows p flows e.1 ≠ [] ∧ e.2 = p.metrics.map fun m => spec m (groupRows p flows e.1) := by
  intro e he
  have hmem := hsub e ((limitRows_sublist off lim sorted).subset he)
  have hr := finalTable_report p _ (runFlows_nodup_keys p flows) hrows e hmem
  rw [reportAt_spec p flows hg] at hr
  split at hr
  · rename_i hc
    simp only [Bool.and_eq_true, Bool.not_eq_true', List.isEmpty_eq_false_iff] at hc
    exact ⟨hc.2, (Option.some.inj hr).symm⟩
  · cases hr

/-- … at full strength for plans without MIN / MAX. -/
theorem C09_limit_reported_groups_no_minmax (p : Plan) (flows : List (List TRow))
    (hp : ∀ m ∈ p.metrics, m.minMaxField = none) (rows sorted : List (Key × List Out))
    (hrows : finalTable p (runFlows p flows) = some rows) (hsub : ∀ e ∈ sorted, e ∈ rows)
    (off lim : Option Nat) :
    ∀ e ∈ limitRows off lim sorted,
      groupRows p flows e.1 ≠ [] ∧ e.2 = p.metrics.map fun m => spec m (groupRows p flows e.1) :=
  C09_limit_reported_groups_partial p flows (fun fl _ => goodFlow_of_no_minmax p fl hp) rows sorted hrows hsub off lim

/-- Why a per-flow cut is wrong (the shape of seeded change c09d): three flows hold the groups
9, 10, 11 of `COUNT BY f0`; if the second flow, which holds all three, keeps only its first two
groups *in string order* ("10", "11") before the merge, the group "9" that the coordinator reports
under LIMIT 2 (numeric order) counts 2 rows instead of 3. The model's `runFlows` has no such cut,
and the first line shows its answer. -/
theorem C09_flow_cut_before_merge_fails :
    let p : Plan := ⟨[.countAll], some [0], none, 9, true⟩
    let r : Int → TRow := fun v => (false, [some ⟨some v, none⟩])
    let fl1 : List TRow := [r 9, r 10]
    let fl2 : List TRow := [r 9, r 10, r 11]
    let fl3 : List TRow := [r 9]
    reportAt p (runFlows p [fl1, fl2, fl3]) ⟨none, ["9"]⟩ = some [.int 3] ∧
    reportAt p (coordinate p [intoPartial (sinkAgg p fl1),
        (intoPartial (sinkAgg p fl2)).filter (fun e => e.1.groups != ["9"]),
        intoPartial (sinkAgg p fl3)]) ⟨none, ["9"]⟩ = some [.int 2] := by
  decide

/-! ## where the fold itself departs from the ideal metric -/

/-- What is always true of converter output: every row `ColumnConverter` builds is well-formed,
and for a plan without MIN / MAX that is all `GoodFlow` asks. -/
theorem C09_converter_hypotheses (p : Plan) (w : Nat) (batches : List (List (List Scalar))) :
    (∀ tr ∈ tagFlow p w batches, RowWF tr.2) ∧
    ((∀ m ∈ p.metrics, m.minMaxField = none) → GoodFlow p (tagFlow p w batches)) :=
  ⟨tagFlow_wf p w batches, goodFlow_of_no_minmax p _⟩

/-- TOTAL is an i64 wrapping sum: on two large values it differs from the integer sum. (class
`total-avg-i64-wrap`) -/
theorem C09_total_overflow_fails :
    ∃ (rs : List Row), spec (.total 0) rs ≠ .int (numsOf 0 rs).sum := by
  refine ⟨[[some ⟨some 9223372036854775807, none⟩], [some ⟨some 1, none⟩]], by decide⟩

/-- … and equals it whenever the integer sum fits i64. -/
theorem C09_total_exact_partial (f : Nat) (rs : List Row)
    (h : -9223372036854775808 ≤ (numsOf f rs).sum ∧ (numsOf f rs).sum < 9223372036854775808) :
    spec (.total f) rs = .int (numsOf f rs).sum := by
  simp [spec, wrap_of_i64 _ h]

/-- Non-integer inputs: a float that is not integral has no integer reading after conversion
(its display string does not parse as i64), so TOTAL / AVG skip it; `1.5 + 2` is reported as
`2`. (class `total-avg-nonint-ignored`) -/
theorem C09_nonint_total_fails :
    finalTable ⟨[.total 0, .avg 0], none, none, 9, true⟩
      (runFlows ⟨[.total 0, .avg 0], none, none, 9, true⟩
        [tagFlow ⟨[.total 0, .avg 0], none, none, 9, true⟩ 1 [[[.float "1.5"], [.int 2]]]]) =
      some [(⟨none, []⟩, [.int 2, .avg 2 1])] := by
  decide

/-- The converter types a column per batch, so what a null means depends on its batch mates:
`COUNT f` over a float and a null is 2 when they share a batch (string column: the null is the
string `""`) and 1 when the null sits in its own (all-null ⇒ typed) batch. (class
`count-field-null-in-string-column`) -/
theorem C09_batching_fails :
    let p : Plan := ⟨[.countField 0], none, none, 9, true⟩
    finalTable p (runFlows p [tagFlow p 1 [[[.float "1.5"], [.null]]]]) = some [(⟨none, []⟩, [.int 2])] ∧
    finalTable p (runFlows p [tagFlow p 1 [[[.float "1.5"]], [[.null]]]]) = some [(⟨none, []⟩, [.int 1])] := by
  decide

/-- COUNT UNIQUE reads `get_str_at`, which answers `None` on a typed i64 column: three
different integers count as one value (`""`). (class `count-unique-typed-int-column`) -/
theorem C09_count_unique_int_fails :
    let p : Plan := ⟨[.countUnique 0], none, none, 9, true⟩
    finalTable p (runFlows p [tagFlow p 1 [[[.int 1], [.int 2], [.int 3]]]]) =
      some [(⟨none, []⟩, [.int 1])] := by
  decide

/-! ## which rows reach the aggregator (FOR / SINCE / event type) -/

/-- In aggregate mode the row evaluator checks the WHERE clause only. PARTIAL: it agrees with
the selection's evaluator on events of the queried type when the query has neither FOR nor
SINCE. -/
theorem C09_fed_rows_partial (q : Sel) (evs : List Ev) (hc : q.ctx = none) (hs : q.since = none)
    (ht : ∀ e ∈ evs, e.etype = q.etype) :
    evs.filter q.feeds = evs.filter q.selects := by
  apply List.filter_congr
  intro e he
  simp [Sel.feeds, Sel.selects, hc, hs, ht e he]

/-- The full statement is false: with `FOR c1` an event of another context in the same
memtable passes the aggregate's evaluator. Witness for the end-to-end replay: one shard,
`STORE ev FOR c1 {x:1}`, `STORE ev FOR c2 {x:1}`; `QUERY ev FOR c1 WHERE x = 1 COUNT` answers 2
while `QUERY ev FOR c1 WHERE x = 1` returns 1 row. (class `agg-ignores-for-since-type`) -/
theorem C09_fed_rows_fails :
    ∃ (q : Sel) (evs : List Ev), (evs.filter q.feeds).length ≠ (evs.filter q.selects).length := by
  refine ⟨⟨0, some 1, none, fun _ => true⟩, [⟨0, 1, 0, []⟩, ⟨0, 2, 0, []⟩], by decide⟩

/-! ## non-vacuity -/

/-- A concrete two-flow run that meets `GoodFlow` (its MIN column has no null), with two groups,
a MIN and a COUNT UNIQUE: the hypothesis of the `_partial` theorems is satisfiable and the result
is not trivial. -/
example :
    let p : Plan := ⟨[.countAll, .total 1, .min 1, .countUnique 0], some [0], none, 9, true⟩
    let fl1 : List TRow := tagFlow p 2 [[[.str "a", .int 5], [.str "b", .int 7]]]
    let fl2 : List TRow := tagFlow p 2 [[[.str "a", .int (-2)]]]
    (∀ fl ∈ [fl1, fl2], GoodFlow p fl) ∧
    finalTable p (runFlows p [fl1, fl2]) =
      some [(⟨none, ["a"]⟩, [.int 2, .int 3, .int (-2), .int 1]), (⟨none, ["b"]⟩, [.int 1, .int 7, .int 7, .int 1])] := by
  refine ⟨?_, by decide⟩
  intro fl hfl
  refine ⟨?_⟩
  intro m hm f hf tr htr
  simp only [List.mem_cons, List.not_mem_nil, or_false] at hm hfl
  have hwf : RowWF tr.2 := by
    rcases hfl with rfl | rfl <;> exact tagFlow_wf _ _ _ tr htr
  refine ⟨hwf, ?_⟩
  clear hwf
  rcases hm with rfl | rfl | rfl | rfl <;> simp only [Metric.minMaxField] at hf <;> try cases hf
  rcases hfl with rfl | rfl <;> revert tr <;> decide

example : (St.cnt 3).kind = (St.cnt 4).kind ∧ (St.uniq ["a"]).WF := by
  constructor
  · rfl
  · simp [St.WF]

example : (⟨0, none, none, fun _ => true⟩ : Sel).ctx = none := rfl

end Snel.Props.C09
