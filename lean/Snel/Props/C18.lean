import Snel.Lemmas.IdGen
/-!
# C18 — event ids are unique and increase in append order within a shard

Property theorems only; helper lemmas live in `Snel.Lemmas.IdGen`, the model in
`Snel.Model.IdGen` (tied to `event_id.rs` by the `idgen` correspondence stream and by the
generated constants in `Snel.Gen.Consts`).

The clock is universally quantified: an arbitrary list of readings (repeats, backward steps,
bursts of any length) inside the window the id layout can represent.
-/
namespace Snel.Props.C18
open Snel.IdGen Snel.Gen

/-- All readings lie in `[epoch, epoch + 2^42)`. -/
def ClockInRange (clk : List Nat) : Prop := ∀ r ∈ clk, InRange r

/-- Within one generator lifetime ids strictly increase in call order, for every clock
behaviour (repeated readings, bursts beyond 4096 per millisecond, backward steps). -/
theorem C18_strict_mono (clk : List Nat) (shard n : Nat) (h : ClockInRange clk) :
    (run Gen.init clk shard n).Pairwise (· < ·) :=
  (run_sorted n Gen.init clk shard init_ok h).1

/-- Hence no two ids of one lifetime are equal. -/
theorem C18_unique_lifetime (clk : List Nat) (shard n : Nat) (h : ClockInRange clk) :
    (run Gen.init clk shard n).Nodup :=
  (C18_strict_mono clk shard n h).imp (fun hlt => Nat.ne_of_lt hlt)

/-- Every id carries the (10-bit) shard tag. -/
theorem C18_shard_tag (clk : List Nat) (shard n : Nat) (h : ClockInRange clk) :
    ∀ id ∈ run Gen.init clk shard n, tagOf id = shard % 2 ^ idShardBits :=
  run_tags n Gen.init clk shard init_ok h

/-- Ids generated on shards with different tags never collide, whatever the clocks do. -/
theorem C18_distinct_shards (clk₁ clk₂ : List Nat) (s₁ s₂ n₁ n₂ : Nat)
    (h₁ : ClockInRange clk₁) (h₂ : ClockInRange clk₂)
    (hs : s₁ % 2 ^ idShardBits ≠ s₂ % 2 ^ idShardBits) :
    ∀ a ∈ run Gen.init clk₁ s₁ n₁, ∀ b ∈ run Gen.init clk₂ s₂ n₂, a ≠ b := by
  intro a ha b hb hab
  have ta := C18_shard_tag clk₁ s₁ n₁ h₁ a ha
  have tb := C18_shard_tag clk₂ s₂ n₂ h₂ b hb
  rw [hab] at ta
  exact hs (ta.symm.trans tb)

/-- Across a restart (generator state is not persisted): if every reading of the new
lifetime is later than the last millisecond the old lifetime used, ids keep increasing.
PARTIAL w.r.t. the property text, which also quantifies over clocks that step backwards
across the restart — see `C18_restart_full_fails`. -/
theorem C18_restart_partial (clk₁ clk₂ : List Nat) (shard n₁ n₂ : Nat)
    (h₁ : ClockInRange clk₁) (h₂ : ClockInRange clk₂)
    (hne : run Gen.init clk₁ shard n₁ ≠ [])
    (hlater : ∀ r ∈ clk₂, (runState Gen.init clk₁ shard n₁).last < r) :
    (run Gen.init clk₁ shard n₁ ++ run Gen.init clk₂ shard n₂).Pairwise (· < ·) := by
  obtain ⟨hok, hrange, hle⟩ := run_le_final n₁ Gen.init clk₁ shard init_ok h₁
  have hL := hrange (Or.inl hne)
  rw [List.pairwise_append]
  refine ⟨C18_strict_mono clk₁ shard n₁ h₁, C18_strict_mono clk₂ shard n₂ h₂, ?_⟩
  intro a ha b hb
  have := run_init_lower n₂ clk₂ shard _ _ hL hok.1 (fun r hr => ⟨h₂ r hr, hlater r hr⟩) b hb
  exact Nat.lt_of_le_of_lt (hle a ha) this

/-- The full statement (any clock across a restart) is false of the code as modelled: the
same reading before and after a restart yields the same id twice. Replayed on the real code
by the `restart_dup` witness of the C18 check (known finding C18-restart-clock). -/
theorem C18_restart_full_fails :
    ∃ clk₁ clk₂ : List Nat, ClockInRange clk₁ ∧ ClockInRange clk₂ ∧
      ¬ (run Gen.init clk₁ 3 1 ++ run Gen.init clk₂ 3 1).Nodup := by
  refine ⟨[idEpochMillis + 5], [idEpochMillis + 5], ?_, ?_, ?_⟩
  · intro r hr; simp at hr; subst hr; unfold InRange tsMod idEpochMillis idTimestampBits; decide
  · intro r hr; simp at hr; subst hr; unfold InRange tsMod idEpochMillis idTimestampBits; decide
  · decide

/-- Non-vacuity: a concrete clock with a burst and a backward step meets the hypothesis and
produces a non-trivial run. -/
example : ClockInRange [idEpochMillis + 7, idEpochMillis + 7, idEpochMillis + 3, idEpochMillis + 9]
    ∧ (run Gen.init [idEpochMillis + 7, idEpochMillis + 7, idEpochMillis + 3, idEpochMillis + 9] 5 4).length = 4 := by
  constructor
  · intro r hr
    simp at hr
    rcases hr with rfl | rfl | rfl | rfl <;>
      (unfold InRange tsMod idEpochMillis idTimestampBits; decide)
  · decide

end Snel.Props.C18
