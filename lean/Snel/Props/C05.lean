import Snel.Lemmas.Compact
import Snel.Lemmas.CompactPlan
/-!
# C05 — compaction changes layout, never content

Model: `Snel.Model.Compact` (policy, batching, hand-over, reclaim) on top of the shard machine;
the threshold formula and level span are generated from the Rust source (`Snel.Gen.C05`).
The `compact` / `compactcrash` streams run the real `CompactionWorker` on segment populations
with 1–3 event types and compare every read and listing before/after each round with this model.
-/
namespace Snel.Props.C05
open Snel.Shard

/-- One batch (output written, index and live list handed over, drained inputs reclaimed)
loses no readable row — for EVERY state and batch — provided the index lists the row's type
for its directory and the output id is not an index label. PARTIAL: one batch, not a whole
round; the two hypotheses are established for reachable states only by the correspondence
stream, and "no event readable twice" is false (`C05_no_double_read_fails`). -/
theorem C05_batch_no_loss_partial (s : Shard) (b : Batch) (e : Ev) (id : Nat)
    (hlive : id ∈ s.live) (he : e ∈ segRows s id) (hlisted : Listed s id e.ty)
    (hfresh : ∀ ent ∈ s.index, ent.1 ≠ b.out) :
    e ∈ liveRows (afterBatch s b) :=
  batch_no_loss s b e id hlive he hlisted hfresh

/-- Decision logic of the planner, stated outright: a uid with fewer segments at a level than
the leftover threshold gets no plan. -/
theorem C05_small_groups_left_alone (k thr : Nat) (labels : List Nat) (level ty : Nat)
    (segs : List Nat) (a : PlanAcc) (h : (sortNat segs).length < thr) :
    (planUid k thr labels level ty segs a).plans = a.plans := by
  simp [planUid, h]

/-- … and with at least the threshold but fewer than `k` segments it gets exactly one plan over
all of them (the forced leftover merge), into the next level. -/
theorem C05_forced_leftover (k thr : Nat) (labels : List Nat) (level ty : Nat)
    (segs : List Nat) (a : PlanAcc)
    (h1 : ¬ (sortNat segs).length < thr) (h2 : (sortNat segs).length < k) :
    (planUid k thr labels level ty segs a).plans
      = a.plans ++ [⟨level, ty, sortNat segs, (a.alloc labels (level + 1)).1⟩] := by
  simp [planUid, h1, h2, PlanAcc.alloc]

/-- A whole compaction round — policy plan from the index, any number of batches over any levels
and event types, hand-over after each batch, reclaim of every drained directory at the end —
loses no row that was readable from a live directory whose index entries list the row's type.
Stated for EVERY state. PARTIAL in the side condition `GoodBatches`: the output ids the planner
hands out are pairwise distinct and name neither an index entry nor a live directory (a decidable
check on the plan; it held for every plan produced in the correspondence runs, and the
allocator's `level·span + max offset + 1 + i` scheme is what is meant to guarantee it). -/
theorem C05_round_no_loss_partial (s : Shard) (e : Ev)
    (hgood : GoodBatches (loadIndex s) (groupPlans (planAll (loadIndex s).kmerge (loadIndex s).index)))
    (id : Nat) (hlive : id ∈ (loadIndex s).live) (hrow : e ∈ segRows (loadIndex s) id)
    (hlisted : Listed (loadIndex s) id e.ty) :
    e ∈ liveRows (compactRound s) :=
  round_no_loss s e hgood ⟨id, hlive, by simp, hrow, hlisted⟩

/-- Non-vacuity: the two-type witness state satisfies the side condition, and row 3 of directory 1
is anchored. -/
example :
    let s := runOps (Shard.init 2 3)
      [.store ⟨1,0,0⟩, .store ⟨2,0,1⟩, .drain, .store ⟨3,0,0⟩, .store ⟨4,0,0⟩, .drain,
       .store ⟨5,0,0⟩, .store ⟨6,0,0⟩, .drain]
    GoodBatches (loadIndex s) (groupPlans (planAll (loadIndex s).kmerge (loadIndex s).index)) ∧
      Listed (loadIndex s) 1 0 := by
  unfold GoodBatches Listed
  decide

/-- The side condition `GoodBatches` of the round theorem is a THEOREM about the planner, for
every index: the ids `planAll` hands out are pairwise distinct and name neither an index entry nor
a live directory — provided every live directory has an index entry and no level's offsets run
past the level span (`NoOverflow`: next free offset of the level + number of plans ≤ 10000). The
allocator hands out `level·span + (max offset at level + 1) + i`. The planner itself is compared
with the real `KWayCountPolicy::plan` / `SegmentBatch::group_plans` by the `plan` stream. -/
theorem C05_planner_outputs_fresh (s : Shard)
    (hlive : ∀ l ∈ s.live, ∃ ent ∈ s.index, ent.1 = l)
    (hb : NoOverflow s.kmerge s.index) :
    GoodBatches s (groupPlans (planAll s.kmerge s.index)) :=
  planner_outputs_good s hlive hb

/-- Whole round, side condition discharged: ANY state whose live directories are all indexed and
whose levels have room left loses no listed row in a compaction round — any number of batches,
levels and event types. PARTIAL in `Listed` (the row's type must be listed for its directory:
true of every flush and compaction output, see `C05_no_double_read_fails` for what goes wrong on
the other side of it) and in `NoOverflow` (`C05_allocator_overflow_collides_fails`). -/
theorem C05_round_no_loss_planned_partial (s : Shard) (e : Ev)
    (hlive : ∀ l ∈ (loadIndex s).live, ∃ ent ∈ (loadIndex s).index, ent.1 = l)
    (hb : NoOverflow (loadIndex s).kmerge (loadIndex s).index)
    (id : Nat) (hid : id ∈ (loadIndex s).live) (hrow : e ∈ segRows (loadIndex s) id)
    (hlisted : Listed (loadIndex s) id e.ty) :
    e ∈ liveRows (compactRound s) :=
  round_no_loss s e (planner_outputs_good (loadIndex s) hlive hb) ⟨id, hid, by simp, hrow, hlisted⟩

/-- Non-vacuity: the witness state of the round theorem meets both new hypotheses. -/
example :
    let s := loadIndex (runOps (Shard.init 2 3)
      [.store ⟨1,0,0⟩, .store ⟨2,0,1⟩, .drain, .store ⟨3,0,0⟩, .store ⟨4,0,0⟩, .drain,
       .store ⟨5,0,0⟩, .store ⟨6,0,0⟩, .drain])
    (∀ l ∈ s.live, ∃ ent ∈ s.index, ent.1 = l) ∧
      (planAll s.kmerge s.index).length = 1 ∧ nextOffset (s.index.map (·.1)) 1 = 0 := by
  decide

/-- The planner merges only what the index lists: for EVERY index and fan-in, every input of
every plan is an index entry of the plan's source level whose type list contains the plan's type.
(So a batch never reads a directory for a type the index does not list there, and never mixes
levels; which rows the batch then carries over is `C05_batch_no_loss_partial`.) -/
theorem C05_plan_inputs_are_listed (k : Nat) (index : List (Nat × List Nat)) :
    ∀ p ∈ planAll k index, ∀ l ∈ p.inputs,
      ∃ ent ∈ index, ent.1 = l ∧ l / levelSpan = p.level ∧ p.ty ∈ ent.2 := by
  rw [planAll_eq]; exact planAcc_from k index

/-- Non-vacuity: a two-level, two-type index with fan-in 2 yields three plans. -/
example : (planAll 2 [(0, [0, 1]), (1, [0]), (2, [1]), (10000, [0]), (10001, [0])]).map (fun p => (p.level, p.ty, p.inputs))
    = [(0, 0, [0, 1]), (0, 1, [0, 2]), (1, 0, [10000, 10001])] := by decide

/-- Without the bound the statement is FALSE of the planner as modelled — and of the real one
(`plan` stream, witness case 0): with labels 0, 1, 19999, 20000 and fan-in 2 the level-0 merge is
given output id `1·10000 + (9999 + 1) = 20000`, the id of an existing level-2 segment
(finding C05-allocator-offset-runs-past-level-span). -/
theorem C05_allocator_overflow_collides_fails :
    let index : List (Nat × List Nat) := [(0, [0]), (1, [0]), (19999, [0]), (20000, [0])]
    ∃ p ∈ planAll 2 index, p.inputs = [0, 1] ∧ p.out = 20000 ∧ ∃ ent ∈ index, ent.1 = p.out := by
  decide

/-- "No event becomes readable from both an input and an output segment" is FALSE of the code
as modelled. Witness: merge fan-in 3 (threshold 2); directory 0 holds types 0 and 1,
directories 1 and 2 only type 0. Type 0 is compacted out of {0,1,2}; type 1 has a single
segment and stays, so directory 0 is not drained and keeps type 0's files: COUNT over type 0
sees event 1 twice. Replayed on the real engine (finding C05-partial-drain-double-read). -/
theorem C05_no_double_read_fails :
    let s := runOps (Shard.init 2 3)
      [.store ⟨1,0,0⟩, .store ⟨2,0,1⟩, .drain, .store ⟨3,0,0⟩, .store ⟨4,0,0⟩, .drain,
       .store ⟨5,0,0⟩, .store ⟨6,0,0⟩, .drain]
    countTy s 0 = 5 ∧ countTy (compactRound s) 0 = 6 := by
  decide

/-- Non-vacuity of `C05_batch_no_loss_partial`: in the witness state above, row 3 of directory 1
meets every hypothesis for the batch the planner really produces. -/
example :
    let s := runOps (Shard.init 2 3)
      [.store ⟨1,0,0⟩, .store ⟨2,0,1⟩, .drain, .store ⟨3,0,0⟩, .store ⟨4,0,0⟩, .drain,
       .store ⟨5,0,0⟩, .store ⟨6,0,0⟩, .drain]
    (groupPlans (planAll s.kmerge s.index)).length = 1 ∧ 1 ∈ s.live ∧
      (⟨3,0,0⟩ : Ev) ∈ segRows s 1 := by
  decide

end Snel.Props.C05
