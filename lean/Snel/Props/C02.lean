import Snel.Lemmas.C02
import Snel.Gen.C02
/-!
# C02 — a query returns exactly the matching events, wherever they are stored

Property theorems only; model in `Snel.Model.Query`, helper lemmas in `Snel.Lemmas.C02`.
All quantifiers are unbounded: every expression, schema, row multiset, zone layout, catalog and
every behaviour of the (abstract) leaf pruners.

Reading guide
* `specEval` — the typed reference evaluator the property names;
* `evalMem` / `evalZone` — the code's row evaluators (memtable event / hydrated zone row);
* `inCand` / `candU` — the candidate zone set of `ZoneGroupCollector` (and which copies carry a uid);
* `World` — a storage layout + catalog + pruner answers; `World.hits` the returned rows.

The full statement "result = { r stored | specEval e r } in every layout" is **false** of the
code; each `_fails` theorem is a proved witness (all reproduced on the real engine by the `e2e`
stream), each `_partial` theorem states what is true and which hypothesis it needs.
-/
namespace Snel.Props.C02
open Snel.Query

/-! ## 1. no non-matching event (w.r.t. the row evaluator) and nothing invented -/

/-- Every returned row was accepted by the row evaluator of the tier it came from (memtable
event / hydrated zone row) and passes the `FOR` condition. -/
theorem C02_rows_sound (w : World) (e : Expr) (r : Row) (h : r ∈ w.hits e) :
    (r ∈ w.mem ∧ (evalMem e r).accepts = true ∧ w.ctxOk r = true) ∨
    (r ∈ w.candRows e ∧ (evalZone w.sch e r).accepts = true ∧ w.ctxOk r = true) :=
  hits_sound w e r h

/-- Every returned row is a stored row. -/
theorem C02_rows_stored (w : World) (e : Expr) (r : Row) (h : r ∈ w.hits e) : r ∈ w.stored :=
  hits_stored w e r h

/-! ## 2. literal typing + row evaluators against the reference evaluator -/

/-- **Memtable tier.** For literals of the field's own kind (`Faithful`: integer literal on
int / u64 (≥ 0) / datetime, temporal string on datetime, non-number-looking string with `=`/`!=` on
string / enum; `IN` lists of integers resp. such strings) and rows that conform to the schema, the condition tree
built by `add_where_clause` and evaluated by `evaluate_event_direct` decides exactly like the
reference evaluator — for every expression incl. `NOT`, `IN`, nesting.
PARTIAL: not for float literals, float fields, number- or date-looking strings, string order
(`C02_condition_faithful_*_fails`, `C02_string_order_fails`, `C02_mem_float_value_fails`); bool
fields are faithful in memory only (`C02_zone_bool_fails`) and are left out of `Faithful`. -/
theorem C02_condition_faithful_partial (sch : Schema) (e : Expr) (r : Row)
    (hf : Faithful sch e = true) (hc : Conforms sch r) :
    evalMem e r = .val (specEval sch e r) :=
  evalMem_faithful sch e r hf hc

/-- **Flushed tier.** Same for a hydrated zone row, for the kinds whose column has the view the
condition asks for (int / u64 ≥ 0 / datetime / string / enum): the SIMD path of a root comparison
and `evaluate_at` below `AND`/`OR`/`NOT` agree with the reference evaluator.
PARTIAL: bool and float columns are excluded (`C02_zone_bool_fails`, `C02_zone_float_simd_fails`),
negative literals on u64 (`C02_zone_u64_negative_fails`). -/
theorem C02_zone_condition_faithful_partial (sch : Schema) (e : Expr) (r : Row)
    (hf : Faithful sch e = true) (hc : Conforms sch r) :
    evalZone sch e r = .val (specEval sch e r) :=
  evalZone_faithful sch e r hf hc

/-- Non-vacuity: `NOT (x = 1 OR s != "aa") AND t >= "2023-11-15"` over int, string and datetime
fields is faithful on both tiers. -/
example :
    let sch : Schema := [.int, .int, .str, .time]
    let e : Expr := .and (.not (.or (.cmp 1 .eq (.int 1)) (.cmp 2 .neq (.str "aa".toList))))
      (.cmp 3 .gte (.str "2023-11-15".toList))
    Faithful sch e = true ∧ wellTyped sch e = true := by decide

/-- Float literal: `f > 1.75` adds no condition at all — the row `f = 1.5` is returned. -/
theorem C02_condition_faithful_float_fails :
    let sch : Schema := [.int, .float]
    let e : Expr := .cmp 1 .gt (.flt ⟨7, 2⟩ "1.75".toList)
    let r : Row := ⟨"c".toList, [.int 1, .flt ⟨3, 1⟩ "1.5".toList]⟩
    wellTyped sch e = true ∧ specEval sch e r = false ∧
    (evalMem e r).accepts = true ∧ (evalZone sch e r).accepts = true := by decide

/-- `NOT f > 1.75`: the operand added no condition and `LogicalCondition::Not` indexes
`conditions[0]` of an empty list — the read task panics (observed answer: no rows). -/
theorem C02_not_over_dropped_literal_fails :
    let sch : Schema := [.int, .float]
    let e : Expr := .not (.cmp 1 .gt (.flt ⟨7, 2⟩ "1.75".toList))
    let r : Row := ⟨"c".toList, [.int 1, .flt ⟨3, 1⟩ "1.5".toList]⟩
    specEval sch e r = true ∧ evalMem e r = .panic ∧ evalZone sch e r = .panic := by decide

/-- A float literal under `OR` silently removes its side: `x = 5 OR f > 1` behaves as `x = 5`. -/
theorem C02_or_with_dropped_literal_fails :
    let sch : Schema := [.int, .int, .float]
    let e : Expr := .or (.cmp 1 .eq (.int 5)) (.cmp 2 .gt (.flt ⟨1, 0⟩ "1.0".toList))
    let r : Row := ⟨"c".toList, [.int 1, .int 0, .flt ⟨3, 1⟩ "1.5".toList]⟩
    specEval sch e r = true ∧ (evalMem e r).accepts = false := by decide

/-- Date-looking string on a *string* field: `s = "2024-01-01"` becomes the numeric condition
`s = 1704067200`, which the stored string `"2024-01-01"` does not satisfy. -/
theorem C02_condition_faithful_datestring_fails :
    let sch : Schema := [.int, .str]
    let e : Expr := .cmp 1 .eq (.str "2024-01-01".toList)
    let r : Row := ⟨"c".toList, [.int 1, .str "2024-01-01".toList]⟩
    wellTyped sch e = true ∧ specEval sch e r = true ∧
    cmpCond .eq (.str "2024-01-01".toList) = .num .eq 1704067200 ∧
    (evalMem e r).accepts = false ∧ (evalZone sch e r).accepts = false := by decide

/-- Number-looking string: `s = "7"` is the numeric condition `= 7`, satisfied by the stored
string `"007"` (a non-matching event is returned). -/
theorem C02_condition_faithful_numstring_fails :
    let sch : Schema := [.int, .str]
    let e : Expr := .cmp 1 .eq (.str "7".toList)
    let r : Row := ⟨"c".toList, [.int 1, .str "007".toList]⟩
    specEval sch e r = false ∧ (evalMem e r).accepts = true ∧ (evalZone sch e r).accepts = true := by
  decide

/-- Byte order on strings is not implemented: `StringCondition` answers `false` for `<`. -/
theorem C02_string_order_fails :
    let sch : Schema := [.int, .str]
    let e : Expr := .cmp 1 .lt (.str "b".toList)
    let r : Row := ⟨"c".toList, [.int 1, .str "a".toList]⟩
    wellTyped sch e = true ∧ specEval sch e r = true ∧
    (evalMem e r).accepts = false ∧ (evalZone sch e r).accepts = false := by decide

/-- A float field holding a `Float64` is invisible to `get_field_as_i64` in the memtable:
`f >= 2` is false for the stored `2.5` while in memory … -/
theorem C02_mem_float_value_fails :
    let sch : Schema := [.int, .float]
    let e : Expr := .cmp 1 .gte (.int 2)
    let r : Row := ⟨"c".toList, [.int 1, .flt ⟨5, 1⟩ "2.5".toList]⟩
    wellTyped sch e = true ∧ specEval sch e r = true ∧ (evalMem e r).accepts = false := by decide

/-- … and after the flush a *root* comparison on the F64 column goes through the SIMD i64 branch,
which marks every row invalid; the same comparison under `AND` (`evaluate_at`) works. The two
tiers and the two positions give three different answers for one predicate. -/
theorem C02_zone_float_simd_fails :
    let sch : Schema := [.int, .float]
    let leaf : Expr := .cmp 1 .gte (.int 2)
    let r : Row := ⟨"c".toList, [.int 1, .flt ⟨5, 1⟩ "2.5".toList]⟩
    specEval sch leaf r = true ∧ (evalZone sch leaf r).accepts = false ∧
    (evalZone sch (.and leaf leaf) r).accepts = true ∧ (evalMem (.and leaf leaf) r).accepts = false := by
  decide

/-- A Bool column has no string view: `b = true` matches in the memtable and nothing after the
flush. -/
theorem C02_zone_bool_fails :
    let sch : Schema := [.int, .bool]
    let e : Expr := .cmp 1 .eq (.str "true".toList)
    let r : Row := ⟨"c".toList, [.int 1, .bool true]⟩
    wellTyped sch e = true ∧ specEval sch e r = true ∧
    (evalMem e r).accepts = true ∧ (evalZone sch e r).accepts = false := by decide

/-- `u > -1` holds for every u64; the u64 branches answer `false` for a negative literal. -/
theorem C02_zone_u64_negative_fails :
    let sch : Schema := [.int, .u64]
    let e : Expr := .cmp 1 .gt (.int (-1))
    let r : Row := ⟨"c".toList, [.int 1, .int 5]⟩
    specEval sch e r = true ∧ (evalMem e r).accepts = true ∧ (evalZone sch e r).accepts = false := by
  decide

/-- `x IN (1, 2.5)`: one float in the list turns the whole list into a set of *strings*; memtable
values are compared by their text (`"1"` matches), a typed column has no string view. -/
theorem C02_in_list_float_fails :
    let sch : Schema := [.int, .int]
    let e : Expr := .inn 1 [.int 1, .flt ⟨5, 1⟩ "2.5".toList]
    let r : Row := ⟨"c".toList, [.int 1, .int 1]⟩
    wellTyped sch e = true ∧ specEval sch e r = true ∧
    inCond [.int 1, .flt ⟨5, 1⟩ "2.5".toList] = .inStr ["1".toList, "2.5".toList] ∧
    (evalMem e r).accepts = true ∧ (evalZone sch e r).accepts = false := by decide

/-! ## 3. zone pruning -/

/-- Decision logic stated outright: whenever the planner picks one of the XOR or temporal
strategies for a `!=` leaf, the selector returns **no zone**, for every schema, catalog, literal,
segment and pruner behaviour — so the leaf hypothesis of `C02_prune_superset_partial` cannot
hold for such a leaf on any segment that holds a row different from the literal. -/
theorem C02_neq_selects_nothing (hasCat : Bool) (k : Option Kind) (cat : Cat) (l : Lit) (raw : RawSeg)
    (all : List Nat)
    (hs : choose hasCat k cat .neq = .zxf ∨ choose hasCat k cat .neq = .xf ∨
          choose hasCat k cat .neq = .temporalRange) :
    leafSel (choose hasCat k cat .neq) k .neq l raw all = [] := by
  rcases hs with h | h | h <;> simp [h, leafSel, leafSelU]

/-- … and `!=` is never planned as a full scan once a catalog lists any XOR structure for the
field (every non-enum, non-temporal field in practice). -/
theorem C02_neq_strategy (k : Kind) (cat : Cat) (hk : k ≠ .time) (he : ∀ vs, k ≠ .enum vs)
    (hx : cat.zxf = true ∨ cat.xf = true) :
    choose true (some k) cat .neq = .zxf ∨ choose true (some k) cat .neq = .xf := by
  cases k <;> simp_all [choose, Op.isRange] <;> cases hz : cat.zxf <;> simp_all


/-- **NOT-free expressions.** If every leaf's zone list on a segment contains `z` whenever a
row of `z` satisfies that leaf (the contract of the leaf strategies — C08 for the pruners, and
the fallbacks of `field_selector.rs` must not empty it), then `z` is a candidate of the whole
expression whenever a row of `z` satisfies the expression. By induction on the expression; any
nesting of `AND`, `OR`, `IN` and comparisons.
PARTIAL: false with `NOT` (`C02_prune_not_fails`); and the hypothesis fails for `!=` under the
XOR / temporal strategies and unknown enum variants (`C02_prune_neq_*_fails`). -/
theorem C02_prune_superset_partial (sch : Schema) (sel : Nat → Op → Lit → List Nat) (rows : List Row)
    (z : Nat) (e : Expr) (hnf : e.notFree = true)
    (hleaf : ∀ f op l, (f, op, l) ∈ e.leaves → (∃ r ∈ rows, leafSpec sch f op l r = true) →
      (sel f op l).contains z = true)
    (hm : ∃ r ∈ rows, specEval sch e r = true) :
    inCand sel z false e = true :=
  prune_superset sch sel rows z e hnf hleaf hm

/-- The candidate walk that tracks uid copies selects the same zones. -/
theorem C02_candU_same_zones (sel : Nat → Op → Lit → List Nat) (uid : Nat → Op → Lit → Bool) (z : Nat)
    (neg : Bool) (e : Expr) : (candU sel uid z neg e).isSome = inCand sel z neg e :=
  candU_isSome sel uid z neg e

/-- An exact ("ideal") pruner: reports precisely the zones holding a row that satisfies the
leaf. The witnesses below fail *even* with it. -/
def idealRaw (sch : Schema) (segs : List Seg) (j f : Nat) (op : Op) (l : Lit) : RawSeg := fun p =>
  match segs[j]? with
  | none => none
  | some s =>
    let hit := (s.zones.filter fun z => z.rows.any fun r => leafSpec sch f op l r).map (·.id)
    match p with
    | .xf => some (if hit.isEmpty then [] else s.zones.map (·.id))
    | _ => some hit

def row2 (k x : Int) : Row := ⟨"c".toList, [.int k, .int x]⟩

/-- DESIGN §7.1 layout: rows (x=1),(x=2) in zone 0, (x=1) in zone 1, all flushed; the catalog
lists `.zxf` and `.zsrf` for `x`. -/
def wNot : World :=
  let segs := [Seg.mk [⟨0, [row2 1 1, row2 2 2]⟩, ⟨1, [row2 3 1]⟩]]
  { sch := [.int, .int], mem := [], segs := segs, hasCat := true,
    cat := fun _ => ⟨false, true, true, true⟩, raw := idealRaw [.int, .int] segs, forCtx := none }

/-- `NOT x = 1`: zone 0 holds a row with `x = 1`, so it is in the leaf's (exact!) zone list, so
the complement drops it — together with the row `x = 2` that satisfies the predicate.
`x = 1` alone is answered correctly. -/
theorem C02_prune_not_fails :
    let e : Expr := .not (.cmp 1 .eq (.int 1))
    specEval wNot.sch e (row2 2 2) = true ∧ row2 2 2 ∈ wNot.stored ∧
    (evalZone wNot.sch e (row2 2 2)).accepts = true ∧
    inCand (wNot.sel 0 (Seg.mk [⟨0, [row2 1 1, row2 2 2]⟩, ⟨1, [row2 3 1]⟩])) 0 false e = false ∧
    (wNot.hits e).map Row.key = [] ∧
    (wNot.hits (.cmp 1 .eq (.int 1))).map Row.key = [1, 3] := by decide

/-- `x != 1` under `ZoneXorIndex`: `apply_zone_index_only` answers only `=`, the selector
returns no zone — the leaf hypothesis of `C02_prune_superset_partial` is violated by the
fallback itself, whatever the filter contains. -/
theorem C02_prune_neq_xor_fails :
    let e : Expr := .cmp 1 .neq (.int 1)
    wNot.strategy 1 .neq = .zxf ∧ specEval wNot.sch e (row2 2 2) = true ∧
    (wNot.hits e).map Row.key = [] := by decide

def rowT (k t : Int) : Row := ⟨"c".toList, [.int k, .int t]⟩
def wTime : World :=
  let segs := [Seg.mk [⟨0, [rowT 1 1700000000, rowT 2 1700000100]⟩]]
  { sch := [.int, .time], mem := [], segs := segs, hasCat := true,
    cat := fun _ => ⟨false, true, true, true⟩, raw := idealRaw [.int, .time] segs, forCtx := none }

/-- `t != 1700000000` on a datetime field: strategy `TemporalRange`, `apply_temporal_only` has
no arm for `!=` → no zones. -/
theorem C02_prune_neq_temporal_fails :
    let e : Expr := .cmp 1 .neq (.int 1700000000)
    wTime.strategy 1 .neq = .temporalRange ∧ specEval wTime.sch e (rowT 2 1700000100) = true ∧
    (wTime.hits e).map Row.key = [] ∧
    (wTime.hits (.cmp 1 .gt (.int 1700000000))).map Row.key = [2] := by decide

def rowE (k : Int) (v : String) : Row := ⟨"c".toList, [.int k, .str v.toList]⟩
def wEnum : World :=
  let sch : Schema := [.int, .enum ["a".toList, "b".toList]]
  let segs := [Seg.mk [⟨0, [rowE 1 "a", rowE 2 "b"]⟩]]
  { sch := sch, mem := [], segs := segs, hasCat := true,
    cat := fun _ => ⟨true, true, true, false⟩, raw := idealRaw sch segs, forCtx := none }

/-- `e != "zz"` (a variant the schema does not have) is true of every row; `EnumPruner::attempt`
returns `None` for an unknown variant and the selector answers with no zones. With a known
variant the bitmap path works. -/
theorem C02_prune_neq_unknown_variant_fails :
    let e : Expr := .cmp 1 .neq (.str "zz".toList)
    wEnum.strategy 1 .neq = .enumBitmap ∧ specEval wEnum.sch e (rowE 1 "a") = true ∧
    (wEnum.hits e).map Row.key = [] ∧
    (wEnum.hits (.cmp 1 .neq (.str "a".toList))).map Row.key = [2] := by decide

def row3 (k x : Int) (o : Val) : Row := ⟨"c".toList, [.int k, .int x, o]⟩
/-- Two segments; the second has no `.zsrf` for `o` (a null in the column), so the SuRF leaf falls
back to the metadata enumeration there (zones with uid) while the first segment's zones come from
the filter (no uid). -/
def wUid : World :=
  let sch : Schema := [.int, .int, .int]
  let segs := [Seg.mk [⟨0, [row3 1 0 (.int 0)]⟩], Seg.mk [⟨0, [row3 2 0 (.int 3), row3 3 0 .null]⟩]]
  { sch := sch, mem := [], segs := segs, hasCat := true, cat := fun _ => ⟨false, true, true, true⟩,
    raw := fun j f op l p => if j = 1 ∧ p = Pruner.surf then none else idealRaw sch segs j f op l p,
    forCtx := none }

/-- `o <= 3`: both zones are candidates, one copy without uid and one with. Before /repo fix
4f45061 the hydrator loaded values only into the zone carrying a uid and the matching row
`k = 1` was lost (finding C02-mixed-uid-zones-not-hydrated, fixed); now every candidate zone is
hydrated and both matching rows come back. -/
theorem C02_mixed_uid_hydration_fixed :
    let e : Expr := .cmp 2 .lte (.int 3)
    (wUid.candFlagged e).map (fun p => (p.1.id, p.2)) = [(0, false), (0, true)] ∧
    specEval wUid.sch e (row3 1 0 (.int 0)) = true ∧ (wUid.hits e).map Row.key = [1, 2] := by decide

/-- Hydration does not depend on the uid flags: the evaluated zones are exactly the candidates. -/
theorem C02_hydration_all_candidates (w : World) (e : Expr) (z : Zone) :
    z ∈ w.hydrated e ↔ ∃ j s, (j, s) ∈ enumFrom 0 w.segs ∧ z ∈ s.zones ∧
      inCand (w.sel j s) z.id false e = true :=
  hydrated_iff w e z

/-! ## 3b. ties to tables generated from the Rust source (`tools/consts/C02.py`) -/

def schemaTypeName : Kind → String
  | .int => "I64" | .u64 => "U64" | .float => "F64" | .str => "String" | .bool => "Bool"
  | .time => "Timestamp" | .enum _ => "Enum"

def physName : Cell → String
  | .i64 _ => "I64" | .u64 _ => "U64" | .f64 _ => "F64" | .bool _ => "Bool" | .bytes _ => "VarBytes"

/-- The model's cell type per schema type is the `FieldType → PhysicalType` match of
`column_writer.rs` as it reads today (regenerated on every run). -/
theorem C02_gen_phys_table (k : Kind) (v : Val) :
    physName (cellOf k v) = ((Snel.Gen.C02.physTable.lookup (schemaTypeName k)).getD "VarBytes") := by
  cases k <;> simp [cellOf, physName, schemaTypeName, Snel.Gen.C02.physTable, List.lookup]

def strategyName : Strategy → String
  | .temporalEq => "TemporalEq" | .temporalRange => "TemporalRange" | .enumBitmap => "EnumBitmap"
  | .surf => "ZoneSuRF" | .zxf => "ZoneXorIndex" | .xf => "XorPresence" | .full => "FullScan"

/-- When the pruner answers `None`, the model's selector returns no zone exactly for the
strategies whose arm in `field_selector.rs` is `return Vec::new()`, and all zones for those that
fall back to the metadata enumeration. -/
theorem C02_gen_fallbacks (st : Strategy) (k : Option Kind) (op : Op) (l : Lit) (all : List Nat) :
    (strategyName st ∈ Snel.Gen.C02.emptyOnNone → leafSel st k op l (fun _ => none) all = []) ∧
    (strategyName st ∈ Snel.Gen.C02.allZonesOnNone → leafSel st k op l (fun _ => none) all = all) := by
  cases st <;> simp [strategyName, Snel.Gen.C02.emptyOnNone, Snel.Gen.C02.allZonesOnNone, leafSel, leafSelU]

/-! ## 4. exactness -/

/-- **Rows still in memory are filtered by the row evaluator only**: with no segment the answer
is exactly the stored rows the memtable evaluator accepts (any expression, any literal) … -/
theorem C02_memtable_exact (w : World) (e : Expr) (hs : w.segs = []) (r : Row) :
    r ∈ w.hits e ↔ r ∈ w.stored ∧ (evalMem e r).accepts = true ∧ w.ctxOk r = true :=
  memtable_exact w e hs r

/-- … hence exactly the reference answer for faithful literals, `NOT` included. -/
theorem C02_memtable_exact_spec (w : World) (e : Expr) (hs : w.segs = [])
    (hf : Faithful w.sch e = true) (hc : ∀ r ∈ w.stored, Conforms w.sch r) (r : Row) :
    r ∈ w.hits e ↔ r ∈ w.stored ∧ specEval w.sch e r = true ∧ w.ctxOk r = true :=
  memtable_exact_spec w e hs hf hc r

/-- **Exact result in any layout**, under exactly the hypotheses the refutations above force:
`NOT`-free expression, faithful literals, conforming rows, every leaf's zone list
on every segment a superset of the zones holding a row matching the leaf (`hleaf`). Then the returned rows are
precisely the stored rows satisfying the reference evaluator (and the `FOR` condition), and no
read task panics. -/
theorem C02_exact_partial (w : World) (e : Expr) (hnf : e.notFree = true)
    (hf : Faithful w.sch e = true)
    (hc : ∀ r ∈ w.stored, Conforms w.sch r)
    (hleaf : LeafSound w e) (r : Row) :
    (r ∈ w.hits e ↔ r ∈ w.stored ∧ specEval w.sch e r = true ∧ w.ctxOk r = true) ∧
    w.panics e = false :=
  exact_partial w e hnf hf hc hleaf r

/-- **Layout independence**: two layouts holding the same rows (in memory, in zones of any size,
in any number of segments, with any catalog and any sound pruners) give the same answer set. -/
theorem C02_layout_independent_partial (w₁ w₂ : World) (e : Expr) (hsch : w₁.sch = w₂.sch)
    (hfor : w₁.forCtx = w₂.forCtx) (hst : ∀ r, r ∈ w₁.stored ↔ r ∈ w₂.stored)
    (hnf : e.notFree = true)
    (hf : Faithful w₁.sch e = true)
    (hc : ∀ r ∈ w₁.stored, Conforms w₁.sch r)
    (h₁ : LeafSound w₁ e) (h₂ : LeafSound w₂ e)
    (r : Row) : r ∈ w₁.hits e ↔ r ∈ w₂.hits e :=
  layout_independent w₁ w₂ e hsch hfor hst hnf hf hc h₁ h₂ r

/-- Layout dependence is real: the same three rows, the same query `NOT x = 1`, in memory → `[2]`,
flushed → `[]`. -/
theorem C02_layout_independent_fails :
    let e : Expr := .not (.cmp 1 .eq (.int 1))
    let wMem : World := { wNot with mem := [row2 1 1, row2 2 2, row2 3 1], segs := [] }
    (∀ r, r ∈ wMem.stored ↔ r ∈ wNot.stored) ∧
    (wMem.hits e).map Row.key = [2] ∧ (wNot.hits e).map Row.key = [] := by
  refine ⟨?_, by decide, by decide⟩
  intro r
  simp only [World.stored, wNot, List.flatMap_cons, List.flatMap_nil, List.append_nil, List.nil_append,
    List.mem_cons, List.mem_append, List.not_mem_nil, or_false]
  constructor
  · rintro (h | h | h) <;> simp [h]
  · rintro ((h | h) | h) <;> simp [h]

/-- Non-vacuity of `C02_exact_partial`: the flushed layout of `wNot` with `x = 1 OR x IN (2, 7)`
meets every hypothesis. -/
example :
    let e : Expr := .or (.cmp 1 .eq (.int 1)) (.inn 1 [.int 2, .int 7])
    e.notFree = true ∧ Faithful wNot.sch e = true ∧
    (wNot.hits e).map Row.key = [1, 2, 3] := by
  decide

end Snel.Props.C02
