import Snel.Lemmas.ShardWal
import Snel.Lemmas.WalBuf
import Snel.Lemmas.ShardFail
import Snel.Lemmas.ShardFailIndexed
/-!
# C01 — applied writes survive any crash and restart, exactly once

The shard machine (`Snel.Model.Shard`) with the WAL made explicit: log ids, rotation by entry
count, `cleanup_up_to(segment_id + 1)`, the unlinked-but-open file, `find_next_wal_id`, replay of
every log at restart, the live list rebuilt from directory names. The `crash` correspondence
stream kills the real engine at every flush-worker hook point and between any two commands and
compares every later read and the directory listing with this model.

Full strength (durable ∧ exactly once at every crash point) is FALSE of the code as modelled;
the two `_fails` theorems are the witnesses (both replayed on the real engine, known findings
C01-wal-segment-id-skew and C01-wal-replay-duplicates). What is proved positively:
recovery itself is lossless (`C01_restart_recovers_durable_state`), an acknowledged STORE
whose log file is still linked survives an immediate crash (`C01_store_durable_partial`), and
nothing acknowledged is ever invisible before a crash (C03).
-/
namespace Snel.Props.C01
open Snel.Shard

/-- Recovery is lossless w.r.t. the durable state: for EVERY state (reachable or not), after a
process kill and restart every row that was in a WAL file, or in a segment directory the segment
index names (any directory while no index file exists), is produced by a scan. Durability of an
applied event therefore reduces to "its WAL entry or its registered segment row exists at the
moment of the crash". -/
theorem C01_restart_recovers_durable_state (s : Shard) (e : Ev)
    (h : (∃ p ∈ s.segs, e ∈ p.2 ∧ Served s p.1) ∨ (∃ f ∈ s.wal, e ∈ f.2)) :
    e.k ∈ visibleKeys (restart (crash s)) := by
  simp only [visibleKeys, List.mem_eraseDups, List.mem_map]
  exact ⟨e, restart_recovers s e h, rfl⟩

/-- The segment index is the commit point: once `segments.idx` exists, a restart serves ONLY
directories the index names — for EVERY durable state, so whatever a kill left behind (a
directory whose files are incomplete, a complete one that was not registered yet, an unpublished
compaction output, a retired input that was not reclaimed) is not read. Its events are still in
the WAL: the flush worker drops WAL files only after the index entry is saved
(`C01_durable_partial`). -/
theorem C01_restart_serves_only_registered (s : Shard) (h : s.indexExists = true) :
    ∀ id ∈ (restart (crash s)).live, ∃ ent ∈ s.index, ent.1 = id := by
  intro id hid
  have hl : (restart (crash s)).live
      = published (crash s) (sortNat (((crash s).segs.map (·.1)).eraseDups)) := by simp [restart]
  rw [hl] at hid
  have := (mem_published.mp hid).2
  simpa [Served, crash, h] using this

/-- In every history without a kill, every directory is registered in the index except the one
the flush worker has written and is about to register — so the commit point loses nothing:
whatever is in a directory and not in the index is still in the WAL. -/
theorem C01_index_is_commit_point (cap k : Nat) (ops : List Op) (h : ∀ o ∈ ops, o.noKill = true) :
    Indexed (runOps (Shard.init cap k) ops) := by
  have key : ∀ (ops : List Op) (s : Shard), Indexed s → (∀ o ∈ ops, o.noKill = true) → Indexed (runOps s ops) := by
    intro ops
    induction ops with
    | nil => intro s hs _; exact hs
    | cons o ops ih =>
      intro s hs hall
      have ho := hall o (by simp)
      have hstep : Indexed (step s o) := by
        cases o with
        | store e => exact store_indexed e hs
        | flushCmd => exact drain_indexed _ (rotate_indexed hs)
        | flushStep => exact flushStep_indexed hs
        | drain => exact drain_indexed _ hs
        | crash => simp [Op.noKill] at ho
        | shutdown => exact restart_indexed (shutdown_indexed hs) (drainAll_jobs_nil _)
      simpa [runOps] using ih (step s o) hstep (fun x hx => hall x (by simp [hx]))
  exact key ops _ (init_indexed cap k) h

/-- The commit-point statement extends to histories in which flushes FAIL (`FOp.fail`, any number,
anywhere): a failed flush creates no directory and registers nothing, so every directory is still
named by the index or is the one the flush worker has just written. -/
theorem C01_index_is_commit_point_with_failed_flushes (cap k : Nat) (ops : List FOp)
    (h : ∀ o ∈ ops, o.noKill = true) : Indexed (runF (Shard.init cap k) ops) :=
  runF_indexed ops (init_indexed cap k) h

/-- Non-vacuity / the repaired behaviour: a kill right after the segment files were written
(before the index entry) — the directory exists, the restart does not serve it, the WAL does. -/
example :
    let s := runOps (Shard.init 2 2) [.store ⟨1,0,0⟩, .store ⟨2,0,0⟩, .drain, .store ⟨3,0,0⟩, .store ⟨4,0,0⟩, .flushStep, .crash]
    s.segs.map (·.1) = [0, 1] ∧ s.live = [0] ∧ visibleKeys s = [3, 4, 1, 2] ∧ count s = 4 := by
  decide

/-- PARTIAL durability: in every state whose open WAL file has not been unlinked, a STORE
followed immediately by a crash and restart is visible. The hypothesis is exactly what the
skewed cleanup destroys (`C01_durable_fails`). -/
theorem C01_store_durable_partial (s : Shard) (e : Ev) (h : s.walOrphan = false) :
    e.k ∈ visibleKeys (step (store s e) .crash) := by
  obtain ⟨f, hf, he⟩ := store_in_wal s e h
  exact C01_restart_recovers_durable_state (store s e) e (Or.inr ⟨f, hf, he⟩)

/-- Durability at EVERY crash point, aligned regime (PARTIAL: single process lifetime, no
manual FLUSH): for every history of stores and flush-worker steps — any interleaving, any number
of queued rotations — a process kill at the end (i.e. at any step boundary: between two
commands, after the zone files, after the index entry, after publication, after the release of
the passive buffer, after the WAL cleanup) followed by a restart shows every stored event.
The proof maintains that the WAL log id and the level-0 segment id advance together, so that
`cleanup_up_to(segment_id + 1)` removes only logs whose entries are in segment files and never the
open log. Manual FLUSH and restarts break exactly that alignment (`C01_durable_fails`). -/
theorem C01_durable_partial (cap k : Nat) (ops : List Op) (h : ∀ o ∈ ops, o.auto = true) :
    ∀ e ∈ storedEvents ops, e.k ∈ visibleKeys (step (runOps (Shard.init cap k) ops) .crash) := by
  intro e he
  have hd := (runOps_durable ops (init_inv cap k) (init_aligned cap k) h).2.2.2 e he
  apply C01_restart_recovers_durable_state
  rcases hd with ⟨p, hp, hpe, hr⟩ | hw
  · exact Or.inl ⟨p, hp, hpe, reg_served hr⟩
  · exact Or.inr hw

/-- Non-vacuity: a crash in the middle of a flush (files written, index not yet saved) with a
second rotation queued. -/
example : (∀ o ∈ [Op.store ⟨1,0,0⟩, .store ⟨2,0,0⟩, .flushStep, .store ⟨3,0,0⟩, .store ⟨4,0,0⟩, .store ⟨5,0,0⟩],
      o.auto = true) ∧
    visibleKeys (step (runOps (Shard.init 2 2) [.store ⟨1,0,0⟩, .store ⟨2,0,0⟩, .flushStep, .store ⟨3,0,0⟩,
      .store ⟨4,0,0⟩, .store ⟨5,0,0⟩]) .crash) = [1, 2, 3, 4, 5] := by
  constructor
  · intro o ho; simp at ho; rcases ho with rfl | rfl | rfl | rfl | rfl | rfl <;> rfl
  · decide

/-- Clean-shutdown clause, full strength (and independent of WAL buffering, which the model of
this clause never consults): for EVERY history of stores, manual flushes and single
flush-worker steps whose restarts are all clean shutdowns (`flush_all`, stop, restart) — any
number of them, at any point — every event ever stored is produced by a scan at the end. -/
theorem C01_clean_shutdown (cap k : Nat) (ops : List Op) (h : ∀ o ∈ ops, o.noKill = true) :
    ∀ e ∈ storedEvents ops, e.k ∈ visibleKeys (runOps (Shard.init cap k) ops) := by
  intro e he
  have hc := (runOps_clean ops (init_inv cap k) (init_inv3 cap k) (init_indexed cap k) h).2.2.2 e he
  simp only [visibleKeys, List.mem_eraseDups, List.mem_map]
  exact ⟨e, cover_scan hc, rfl⟩

/-- The flush worker terminates: draining leaves no job (6 hook intervals per job suffice). -/
theorem C01_flush_worker_terminates (s : Shard) : (drainAll s).jobs = [] := drainAll_jobs_nil s

/-- Non-vacuity of `C01_clean_shutdown`: stores, a clean restart, more stores, another one. -/
example : (∀ o ∈ [Op.store ⟨1,0,0⟩, .store ⟨2,0,0⟩, .store ⟨3,0,0⟩, .shutdown, .store ⟨4,0,0⟩, .shutdown],
      o.noKill = true) ∧
    visibleKeys (runOps (Shard.init 2 2) [.store ⟨1,0,0⟩, .store ⟨2,0,0⟩, .store ⟨3,0,0⟩, .shutdown,
      .store ⟨4,0,0⟩, .shutdown]) = [1, 2, 3, 4] := by
  constructor
  · intro o ho; simp at ho; rcases ho with rfl | rfl | rfl | rfl | rfl | rfl <;> rfl
  · decide

/-- The full durability statement fails: three stores (capacity 4), a manual FLUSH, a fourth
acknowledged store, crash: event 4 is gone. The FLUSH consumed segment id 0 while the WAL was
still on log 0, so `cleanup_up_to(1)` unlinked the open log. -/
theorem C01_durable_fails :
    ∃ ops : List Op, 4 ∈ (storedEvents ops).map (·.k) ∧
      4 ∉ visibleKeys (runOps (Shard.init 4 2) (ops ++ [.crash])) := by
  refine ⟨[.store ⟨1,0,0⟩, .store ⟨2,0,0⟩, .store ⟨3,0,0⟩, .flushCmd, .store ⟨4,0,0⟩], by decide, by decide⟩

/-- The exactly-once statement fails: crash after the segment is published and before the WAL
cleanup; restart replays the log next to the segment and COUNT sees every event twice. -/
theorem C01_exactly_once_fails :
    ∃ ops : List Op, count (runOps (Shard.init 2 2) (ops ++ [.crash])) = 2 * (storedEvents ops).length
      ∧ (storedEvents ops).length = 2 := by
  refine ⟨[.store ⟨1,0,0⟩, .store ⟨2,0,0⟩, .flushStep, .flushStep, .flushStep], by decide, by decide⟩

/-- Non-vacuity of `C01_store_durable_partial`: a reachable state with a linked log. -/
example : (runOps (Shard.init 2 2) [.store ⟨1,0,0⟩, .store ⟨2,0,0⟩, .drain]).walOrphan = false := by decide

/-- Beyond the property's quantifier (it lists no I/O error): after a FAILED flush the rows of the
failed job live only in its retained passive buffer and in the WAL; the cleanup of the next
successful flush deletes that log (`cleanup_up_to(segment_id + 1)`, the arithmetic of finding
C01-wal-segment-id-skew), and a crash then loses acknowledged, visible events. Witness
(capacity 2): two stores rotate, the flush fails, two more stores rotate and flush; events 1 and 2
are visible before the kill and gone after the restart. Replayed on the real engine by a witness
of the `crash` stream. -/
theorem C01_failed_flush_then_crash_loses_fails :
    ∃ ops : List FOp,
      1 ∈ visibleKeys (runF (Shard.init 2 2) ops) ∧
      1 ∉ visibleKeys (restart (crash (runF (Shard.init 2 2) ops))) :=
  ⟨[.op (.store ⟨1,0,0⟩), .op (.store ⟨2,0,0⟩), .fail, .op (.store ⟨3,0,0⟩), .op (.store ⟨4,0,0⟩),
    .op .drain], by decide, by decide⟩

/-! ## The WAL file at byte level (`Snel.Model.WalBuf`)

The log file under `BufWriter` for EVERY buffer capacity (0 = unbuffered), with or without
`flush_each_write`, for any number of process lifetimes each ended by a kill at any moment. The
`walbuf` stream compares the bytes the real writer leaves on disk with this model, with entry
lengths placed so that buffer boundaries fall inside, at the end of, and just before the end of
entries. -/
section WalBytes
open Snel.WalBuf

/-- What recovery reads back after any number of killed lifetimes is, per lifetime, a PREFIX of
the entries appended in it — each entry whole, none torn, merged, duplicated or reordered: the
buffered-WAL clause of the property ("per-shard prefix of the applied events, no duplicates, no
corruption"). For every capacity, both flush settings, every kill point (`ms` are the numbers of
entries that reached the disk). -/
theorem C01_wal_bytes_prefix (cap : Nat) (flushEach : Bool) (lts : List (List (List Nat)))
    (hnl : ∀ es ∈ lts, ∀ e ∈ es, nl ∉ e) :
    ∃ ms : List Nat, ms.length = lts.length ∧
      lines (runLifetimes flushEach ⟨cap, [], []⟩ lts).disk = kept ms lts := by
  obtain ⟨ms, hl, hd⟩ := lifetimes_disk flushEach lts ⟨cap, [], []⟩ rfl
  refine ⟨ms, hl, ?_⟩
  rw [hd]
  simp only [List.nil_append]
  apply lines_enc
  intro e he
  obtain ⟨es, hes, hee⟩ := mem_kept he
  exact hnl es hes e hee

/-- With `flush_each_write` (the configuration the crash clause is claimed for) a kill loses no
entry the writer task has processed: the file reads back as every entry of every lifetime. -/
theorem C01_wal_flush_each_write_keeps_all (cap : Nat) (lts : List (List (List Nat)))
    (hnl : ∀ es ∈ lts, ∀ e ∈ es, nl ∉ e) :
    lines (runLifetimes true ⟨cap, [], []⟩ lts).disk = lts.flatten := by
  rw [lifetimes_flush_each lts ⟨cap, [], []⟩ rfl]
  simp only [List.nil_append]
  apply lines_enc
  intro e he
  obtain ⟨es, hes, hee⟩ := List.mem_flatten.mp he
  exact hnl es hes e hee

/-- A clean stop (`flush_and_close`) leaves every entry on disk, buffered or not. -/
theorem C01_wal_clean_stop_keeps_all (cap : Nat) (flushEach : Bool) (es : List (List Nat))
    (hnl : ∀ e ∈ es, nl ∉ e) :
    lines (close (es.foldl (append flushEach) ⟨cap, [], []⟩)).disk = es := by
  rw [close_disk flushEach ⟨cap, [], []⟩ rfl]
  simp only [List.nil_append]
  exact lines_enc es hnl

/-- Non-vacuity: capacity 5, three entries, the kill comes while the third is still buffered. -/
example : lines (runLifetimes false ⟨5, [], []⟩ [[[1, 2], [3], [4]], [[7, 8, 9]]]).disk = [[1, 2], [3]] := by
  decide

/-- The same statement is FALSE of the writer as it was before the repair (`appendTwo`: JSON and
newline in two writes). Witness: capacity 3, one 3-byte entry — the buffer boundary falls between
the JSON and its newline, the kill loses the newline, the next lifetime's first entry is appended
to the same line: neither entry is read back. Replayed on the real engine before the repair
(`fixed:` entry C01 in known_findings.json). -/
theorem C01_wal_two_write_append_fails :
    let w1 := lifetimeTwo false ⟨3, [], []⟩ [[1, 2, 3]]
    let w2 := lifetimeTwo true w1 [[4]]
    lines w1.disk = [[1, 2, 3]] ∧ lines w2.disk = [[1, 2, 3, 4]] := by
  decide

end WalBytes

end Snel.Props.C01
