import Snel.Lemmas.Auth
import Snel.Lemmas.AuthInv
/-!
# C13 — no data command runs without authentication and the required permission

Property theorems only. Model: `Snel.Model.Auth` (gate, `verify_signature`, tokens,
`can_read` / `can_write` / `is_admin`, dispatch table, management commands), tied to the Rust
code by the `scenario`, `bypass` and `expiry` correspondence streams and by the generated
constants / dispatcher-arm table in `Snel.Gen.C13`. Helper lemmas: `Snel.Lemmas.Auth`,
`Snel.Lemmas.AuthInv`.

`mac` (HMAC-SHA256, hex) is an arbitrary function throughout: unforgeability is not provable;
what is proved is *which* key and *which* message an accepted signature was checked against.
-/
namespace Snel.Props.C13
open Snel.Auth Snel.Gen.C13

/-! ## The gate -/

/-- **Gate soundness.** Whenever the TCP gate lets a request through as `(cmd, user)`, then
either authentication is configured off (`bypass_auth`, or no `AuthManager`), or `user` is an
active account and the line carried `mac key cmd` — the MAC, under that user's key, of exactly
the command text that goes on to be executed — in the connection-bound form `sig:cmd` (on a
connection bound to `user`) or the inline form `user:sig:cmd`; or the line ends in
` TOKEN t` where `t` is an unexpired session token owned by the active account `user`, and the
command is the text before the marker. For all states, lines, connection states, clocks. -/
theorem C13_gate_sound (mac : Str → Str → Str) (cfg : Cfg) (st : State) (conn : Option Str)
    (now : Nat) (line cmd user : Str)
    (h : gate mac cfg st conn now line = .pass cmd user) :
    (cfg.bypass = true ∧ user = bypassUserId ∧ cmd = trim line)
    ∨ (cfg.hasManager = false ∧ user = noAuthUserId ∧ cmd = trim line)
    ∨ (∃ u sig, findUser st user = some u ∧ u.active = true ∧ sig = mac u.key cmd ∧
        ((conn = some user ∧ ∃ rest, trim line = sig ++ ':' :: rest ∧ cmd = trim rest)
         ∨ (conn = none ∧ trim line = user ++ ':' :: (sig ++ ':' :: cmd))))
    ∨ (∃ s u before after, s ∈ st.sessions ∧ s.user = user ∧ ¬ s.expiresAt < now ∧
        findUser st user = some u ∧ u.active = true ∧
        trim line = before ++ tokenMarker ++ after ∧ trim after = s.token ∧ cmd = trim before) :=
  gate_sound mac cfg st conn now line cmd user h

/-- The `AUTH user:sig` command binds a connection (and mints a token) only for an active
account whose key signs the user id. -/
theorem C13_auth_command_sound (mac : Str → Str → Str) (cfg : Cfg) (st : State) (conn : Option Str)
    (now : Nat) (line user : Str)
    (h : gate mac cfg st conn now line = .authOk user) :
    cfg.bypass = false ∧ cfg.hasManager = true ∧
    ∃ u, findUser st user = some u ∧ u.active = true ∧
      ∃ sig, trim ((trim line).drop authPrefix.length) = user ++ ':' :: sig ∧ sig = mac u.key user :=
  gate_auth_sound mac cfg st conn now line user h

/-- Non-vacuity: a concrete inline request of an active user is accepted, a wrong signature,
an unknown user and an inactive user are rejected. -/
example :
    let mac : Str → Str → Str := fun k m => k ++ '/' :: m
    let st : State := ⟨[⟨['a'], ['k'], true, [], []⟩, ⟨['z'], ['q'], false, [], []⟩], [], [], [], []⟩
    let cfg : Cfg := ⟨false, true, 300⟩
    gate mac cfg st none 0 " a:k/PING:PING ".toList = .pass "PING".toList ['a']
    ∧ gate mac cfg st none 0 "a:k/PINGX:PING".toList = .reject
    ∧ gate mac cfg st none 0 "b:k/PING:PING".toList = .reject
    ∧ gate mac cfg st none 0 "z:q/PING:PING".toList = .reject
    ∧ gate mac cfg st none 0 "PING".toList = .reject := by decide

/-! ## Per-command authorisation -/

/-- **No account is ever called `bypass`.** In every state reachable from an empty user table
through any sequence of executed commands, token mintings and direct `AuthManager` calls, the
reserved id `bypass` names no account (`validate_user_id` refuses it since fix 8e1fb08). An
account persisted in an auth WAL by a pre-fix server and loaded at start-up is *outside* this
reachable set; for such states only the `_partial` theorems below apply. -/
theorem C13_no_bypass_account_reachable (alnum : Char → Bool) (cfg : Cfg) (later : List Later) :
    NoBypassAccount (applyLater alnum cfg State.empty later) :=
  noBypass_applyLater alnum cfg later State.empty noBypass_empty

/-- **Write — full, on reachable states.** In every state reachable through the API from an
empty user table, for every command kind and every identity that names an account of that state
(which is what the gate hands on when authentication is on, `C13_gate_sound`): if the command
proceeds, the account holds the write right for every event type the command stores into. -/
theorem C13_write_needs_permission (alnum : Char → Bool) (cfg : Cfg) (later : List Later)
    (uid : Option Str) (c : Cmd)
    (hacc : ∀ u, uid = some u → (findUser (applyLater alnum cfg State.empty later) u).isSome = true)
    (h : authorize (applyLater alnum cfg State.empty later) true uid c = .proceed) :
    ∀ et ∈ writesOf c, ∃ u, uid = some u ∧ specWrite (applyLater alnum cfg State.empty later) u et = true :=
  write_needs_permission _ uid c h
    (account_not_bypass (C13_no_bypass_account_reachable alnum cfg later) hacc)

/-- Write, for an **arbitrary** state (also one that contains a `bypass` account loaded from a
pre-fix auth WAL). PARTIAL: needs `uid ≠ some "bypass"`, see `C13_write_needs_permission_fails`. -/
theorem C13_write_needs_permission_partial (st : State) (uid : Option Str) (c : Cmd)
    (h : authorize st true uid c = .proceed) (hby : uid ≠ some bypassUserId) :
    ∀ et ∈ writesOf c, ∃ u, uid = some u ∧ specWrite st u et = true :=
  write_needs_permission st uid c h hby

/-- Over arbitrary states the statement is false: a state holding an account whose id is the
reserved string `bypass` (not creatable any more — `C13_no_bypass_account_reachable` — but
loadable from an auth WAL written before fix 8e1fb08) lets that account, with no role and no
permission, store into any event type; the API refuses to create it now. -/
theorem C13_write_needs_permission_fails :
    ∃ (st : State) (et : Str),
      (∃ u, findUser st bypassUserId = some u ∧ u.active = true) ∧
      authorize st true (some bypassUserId) (.store et true) = .proceed ∧
      specWrite st bypassUserId et = false ∧
      (createUser Char.isAlphanum State.empty bypassUserId ['k'] []).1 = .invalidId :=
  ⟨⟨[⟨bypassUserId, ['k'], true, [], []⟩], [], [], [], []⟩, ['e'], ⟨_, rfl, rfl⟩, by decide, by decide, by decide⟩

/-- **Read.** For the command kinds whose handler is given the identity (QUERY in every
spelling, including sequence queries: head type and every FOLLOWED BY / PRECEDED BY target
since fix 6e1140a), under an identity other than `bypass`: `proceed` implies the read right on
every event type the command returns.
PARTIAL: the handler must receive the identity (`passesIdentity`); on arbitrary states the
identity must not be the reserved id. `C13_read_needs_permission_fails` has the witnesses. -/
theorem C13_read_needs_permission_partial (all : List Str) (st : State) (uid : Option Str) (c : Cmd)
    (h : authorize st true uid c = .proceed) (hid : passesIdentity c = true)
    (hby : uid ≠ some bypassUserId) :
    ∀ et ∈ readsOf all c, ∃ u, uid = some u ∧ specRead st u et = true :=
  read_needs_permission all st uid c h hid hby

/-- Read on reachable states: only the hypothesis `passesIdentity` remains. -/
theorem C13_read_needs_permission_reachable_partial (alnum : Char → Bool) (cfg : Cfg) (later : List Later)
    (all : List Str) (uid : Option Str) (c : Cmd)
    (hacc : ∀ u, uid = some u → (findUser (applyLater alnum cfg State.empty later) u).isSome = true)
    (h : authorize (applyLater alnum cfg State.empty later) true uid c = .proceed)
    (hid : passesIdentity c = true) :
    ∀ et ∈ readsOf all c, ∃ u, uid = some u ∧ specRead (applyLater alnum cfg State.empty later) u et = true :=
  read_needs_permission all _ uid c h hid
    (account_not_bypass (C13_no_bypass_account_reachable alnum cfg later) hacc)

/-- The full statement is false of the code. For an account `u` with no role and no
permission at all (created by an admin through `create_user`), each of REPLAY, a comparison
query and REMEMBER proceeds and returns event types `u` has no read right for — their handlers
never see the identity. (A sequence query is now refused: last conjunct.) -/
theorem C13_read_needs_permission_fails :
    ∃ (st : State) (u e f : Str),
      createUser Char.isAlphanum State.empty u ['k'] [] = (.ok, st) ∧
      specRead st u e = false ∧
      authorize st true (some u) (.replay (some e)) = .proceed ∧
      authorize st true (some u) (.replay none) = .proceed ∧
      authorize st true (some u) (.compare [e, e]) = .proceed ∧
      authorize st true (some u) (.remember ['m'] e []) = .proceed ∧
      -- control: read right on the head `f` only no longer opens a sequence query
      (∃ st', setPermission st u f ⟨true, false⟩ = (.ok, st') ∧
        authorize st' true (some u) (.query f []) = .proceed ∧
        authorize st' true (some u) (.query f [e]) = .forbidden) :=
  ⟨_, ['u'], ['e'], ['f'], rfl, by decide, by decide, by decide, by decide, by decide,
    ⟨_, rfl, by decide, by decide⟩⟩

/-- **Admin — full, on reachable states.** Schema definition and user / permission management
proceed only for an account with the admin role. -/
theorem C13_admin_only (alnum : Char → Bool) (cfg : Cfg) (later : List Later)
    (uid : Option Str) (c : Cmd)
    (hacc : ∀ u, uid = some u → (findUser (applyLater alnum cfg State.empty later) u).isSome = true)
    (h : authorize (applyLater alnum cfg State.empty later) true uid c = .proceed)
    (hadm : needsAdmin c = true) :
    ∃ u, uid = some u ∧ specAdmin (applyLater alnum cfg State.empty later) u = true :=
  admin_only _ uid c h hadm
    (account_not_bypass (C13_no_bypass_account_reachable alnum cfg later) hacc)

/-- Admin, arbitrary state. PARTIAL: hypothesis `uid ≠ some "bypass"`, see `C13_admin_only_fails`. -/
theorem C13_admin_only_partial (st : State) (uid : Option Str) (c : Cmd)
    (h : authorize st true uid c = .proceed) (hadm : needsAdmin c = true)
    (hby : uid ≠ some bypassUserId) :
    ∃ u, uid = some u ∧ specAdmin st u = true :=
  admin_only st uid c h hadm hby

/-- Over arbitrary states false: a (pre-fix, persisted) role-less account `bypass` defines
schemas, creates users and grants permissions. -/
theorem C13_admin_only_fails :
    ∃ (st : State),
      (∃ u, findUser st bypassUserId = some u ∧ u.active = true) ∧
      specAdmin st bypassUserId = false ∧
      authorize st true (some bypassUserId) (.define ['e']) = .proceed ∧
      authorize st true (some bypassUserId) (.createUser ['x'] ['k'] ["admin".toList]) = .proceed ∧
      authorize st true (some bypassUserId) (.grant ["read".toList] [['e']] ['x']) = .proceed :=
  ⟨⟨[⟨bypassUserId, ['k'], true, [], []⟩], [], [], [], []⟩, ⟨_, rfl, rfl⟩, by decide, by decide, by decide, by decide⟩

/-- **Every kind looks at the identity.** An authenticated account without any role and
without any permission entry can make no command proceed, except PING — for the command kinds
whose handler receives the identity.
PARTIAL: hypothesis `passesIdentity c`; `C13_rightless_user_inert_fails` lists the kinds that
break it. -/
theorem C13_rightless_user_inert_partial (st : State) (id : Str) (u : User) (c : Cmd)
    (hu : findUser st id = some u) (hr : u.roles = []) (hp : u.perms = [])
    (hid : passesIdentity c = true) (hby : id ≠ bypassUserId) :
    authorize st true (some id) c ≠ .proceed :=
  rightless_inert st id u c hu hr hp hid hby

/-- REPLAY, SHOW, REMEMBER, comparison queries and FLUSH proceed for an account that holds no
right whatsoever: their handlers are never shown the identity (`dispatcher.rs`). -/
theorem C13_rightless_user_inert_fails :
    ∃ (st : State) (id : Str) (u : User),
      createUser Char.isAlphanum State.empty id ['k'] [] = (.ok, st) ∧
      findUser st id = some u ∧ u.roles = [] ∧ u.perms = [] ∧ id ≠ bypassUserId ∧
      authorize st true (some id) (.replay none) = .proceed ∧
      authorize st true (some id) (.show ['m']) = .proceed ∧
      authorize st true (some id) (.remember ['m'] ['e'] []) = .proceed ∧
      authorize st true (some id) (.compare [['e'], ['f']]) = .proceed ∧
      authorize st true (some id) .flush = .proceed :=
  ⟨_, ['u'], _, rfl, rfl, rfl, rfl, by decide, by decide, by decide, by decide, by decide, by decide⟩

/-- BATCH executes nothing, for every state and identity (also none, also `bypass`): the
dispatcher's own arm answers 400 "BATCH is not supported by this endpoint" before any handler,
and the state is unchanged. (Before the `fix:` commit fbe6de4 the dispatcher panicked here.) -/
theorem C13_batch_never_executes (alnum : Char → Bool) (st : State) (mgr : Bool) (uid : Option Str) :
    authorize st mgr uid .batch = .refused ∧ dispatch alnum st mgr uid .batch = (.s400, st) := by
  have hd : dispatched .batch = true := by decide
  have hp : passesIdentity .batch = false := by decide
  have hr : refused .batch = true := by decide
  have ha : authorize st mgr uid .batch = .refused := by simp [authorize, hd, hp, hr]
  exact ⟨ha, by simp [dispatch, ha]⟩

/-- The dispatcher has an arm for every `Command` variant the parser can produce (so the
`crash` verdict of the model is unreachable on the present code). -/
theorem C13_every_variant_dispatched (c : Cmd) : dispatched c = true := dispatched_all c

/-- Non-vacuity for the partial theorems: an editor may store and query, a viewer may query
but not store, nobody but the admin may define. -/
example :
    let st : State := ⟨[⟨['e'], ['k'], true, ["editor".toList], []⟩, ⟨['v'], ['k'], true, ["viewer".toList], []⟩,
                        ⟨['r'], ['k'], true, ["admin".toList], []⟩], [], [], [], []⟩
    authorize st true (some ['e']) (.store ['t'] true) = .proceed
    ∧ authorize st true (some ['v']) (.store ['t'] true) = .forbidden
    ∧ authorize st true (some ['v']) (.query ['t'] []) = .proceed
    ∧ authorize st true (some ['e']) (.define ['t']) = .forbidden
    ∧ authorize st true (some ['r']) (.define ['t']) = .proceed
    ∧ authorize st true none (.query ['t'] []) = .unauthorized := by decide

/-- **Gate and dispatcher together.** With authentication configured on: if a request line
passes the gate as `(cmd, user)`, `cmd` parses to `c` and the dispatcher answers 200, then
`user` is an active account, and — for the kinds whose handler receives the identity, without
`user ≠ "bypass"` (automatic on reachable states, `C13_no_bypass_account_reachable`) — it holds
the read right for every type read (sequence targets included), the write right for every type
written, and the admin role where the command needs it.
PARTIAL: hypotheses `passesIdentity c` and, for arbitrary states, `user ≠ "bypass"`. -/
theorem C13_end_to_end_partial (mac : Str → Str → Str) (alnum : Char → Bool) (cfg : Cfg) (st st' : State)
    (conn : Option Str) (now : Nat) (line cmd user : Str) (c : Cmd) (all : List Str)
    (hcfg : cfg.bypass = false ∧ cfg.hasManager = true)
    (hg : gate mac cfg st conn now line = .pass cmd user)
    (hd : dispatch alnum st cfg.hasManager (some user) c = (.s200, st'))
    (hid : passesIdentity c = true) (hby : user ≠ bypassUserId) :
    (∃ u, findUser st user = some u ∧ u.active = true) ∧
    (∀ et ∈ readsOf all c, specRead st user et = true) ∧
    (∀ et ∈ writesOf c, specWrite st user et = true) ∧
    (needsAdmin c = true → specAdmin st user = true) := by
  have hp := dispatch_200 alnum st st' cfg.hasManager (some user) c hd
  rw [hcfg.2] at hp
  have hne : (some user : Option Str) ≠ some bypassUserId := fun h => hby (Option.some.inj h)
  refine ⟨?_, ?_, ?_, ?_⟩
  · rcases C13_gate_sound mac cfg st conn now line cmd user hg with h | h | h | h
    · rw [hcfg.1] at h; exact absurd h.1 (by simp)
    · rw [hcfg.2] at h; exact absurd h.1 (by simp)
    · obtain ⟨u, _, h1, h2, _⟩ := h; exact ⟨u, h1, h2⟩
    · obtain ⟨_, u, _, _, _, _, _, h1, h2, _⟩ := h; exact ⟨u, h1, h2⟩
  · intro et het
    obtain ⟨u, hu, hr⟩ := C13_read_needs_permission_partial all st (some user) c hp hid hne et het
    cases hu; exact hr
  · intro et het
    obtain ⟨u, hu, hr⟩ := C13_write_needs_permission_partial st (some user) c hp hne et het
    cases hu; exact hr
  · intro hadm
    obtain ⟨u, hu, hr⟩ := C13_admin_only_partial st (some user) c hp hadm hne
    cases hu; exact hr

/-! ## Revocation -/

/-- **Key revocation takes effect for the next request and for ever after.** Once
`revoke_key` succeeded for `id`, then after any further sequence of executed commands and
token mintings, on every connection (also one that `id` had bound with AUTH), at every clock
value, no request line whatsoever is let through as `id` and no AUTH binds a connection to
`id` — as long as authentication is configured on. -/
theorem C13_revocation_next_request (mac : Str → Str → Str) (alnum : Char → Bool) (cfg : Cfg)
    (st st' : State) (id : Str) (later : List Later)
    (hcfg : cfg.bypass = false ∧ cfg.hasManager = true)
    (hrev : revokeKey st id = (.ok, st')) :
    ∀ conn now line cmd,
      gate mac cfg (applyLater alnum cfg st' later) conn now line ≠ .pass cmd id ∧
      gate mac cfg (applyLater alnum cfg st' later) conn now line ≠ .authOk id :=
  revoked_key_never_accepted mac alnum cfg st st' id later hcfg hrev

/-- … and the sessions of `id` are gone at once (not only unusable). -/
theorem C13_revocation_drops_sessions (st st' : State) (id : Str)
    (hrev : revokeKey st id = (.ok, st')) : ∀ s ∈ st'.sessions, s.user ≠ id :=
  revokeKey_sessions st st' id hrev

/-- **Permission revocation takes effect for the next request.** After `REVOKE READ, WRITE ON
et FROM id` (or `REVOKE ON …` without a list) went through the handler, the very next QUERY
and STORE of `et` under `id` are forbidden unless `id` is an admin, whatever roles `id` has. -/
theorem C13_revoke_permission_next_request (st : State) (id et : Str) (tail : List Str) (ok : Bool)
    (hex : (findUser st id).isSome = true) (hna : isAdmin st id = false) (hby : id ≠ bypassUserId) :
    let st' := (revokeLoop st true true id [et]).2
    authorize st' true (some id) (.query et tail) = .forbidden ∧
    authorize st' true (some id) (.store et ok) = .forbidden :=
  revoke_all_forbids st id et tail ok hex hna hby

/-- … and stays in effect over any later sequence of commands (by whomever), token mintings
and direct `AuthManager` calls, until somebody names `(id, et)` in a GRANT / `grant_permission`
/ `revoke_permission` again (`regrants`; note that the API's `revoke_permission` *removes* the
explicit denial and thereby gives a role holder access back). Invariant by induction over the
operation sequence. -/
theorem C13_revoked_permission_stays (alnum : Char → Bool) (cfg : Cfg) (st : State) (id et : Str)
    (later : List Later) (tail : List Str) (ok : Bool)
    (hex : (findUser st id).isSome = true) (hna : isAdmin st id = false) (hby : id ≠ bypassUserId)
    (hno : ∀ l ∈ later, regrants id et l = false) :
    authorize (applyLater alnum cfg (revokeLoop st true true id [et]).2 later) true (some id) (.query et tail) = .forbidden ∧
    authorize (applyLater alnum cfg (revokeLoop st true true id [et]).2 later) true (some id) (.store et ok) = .forbidden :=
  revoked_permission_stays alnum cfg st id et later tail ok hex hna hby hno

/-- `REVOKE WRITE` alone: the next STORE is forbidden; `REVOKE READ` alone: the next QUERY is
forbidden unless a reading role (read-only / viewer / editor) still lets `id` read — which the
property allows ("read permission or a reading role"). -/
theorem C13_revoke_single_right (st : State) (id et : Str) (tail : List Str) (ok : Bool)
    (hex : (findUser st id).isSome = true) (hna : isAdmin st id = false) (hby : id ≠ bypassUserId) :
    authorize (revokeLoop st false true id [et]).2 true (some id) (.store et ok) = .forbidden ∧
    (authorize (revokeLoop st true false id [et]).2 true (some id) (.query et tail) = .proceed →
      ∃ u, findUser st id = some u ∧ (hasRole u readOnlyRoles = true ∨ hasRole u editorRoles = true)) :=
  revoke_single st id et tail ok hex hna hby

example :
    let st : State := ⟨[⟨['e'], ['k'], true, ["editor".toList], [(['t'], ⟨true, true⟩)]⟩], [], [['t']], [], []⟩
    authorize st true (some ['e']) (.query ['t'] []) = .proceed
    ∧ authorize (revokeLoop st true true ['e'] [['t']]).2 true (some ['e']) (.query ['t'] []) = .forbidden := by
  decide

/-! ## Restart: reload from the auth WAL -/

/-- **A restart changes no decision.** In every state reachable through the API from an empty
user table and an empty auth WAL (any sequence of executed commands, token mintings and direct
`AuthManager` calls), rebuilding the caches from the WAL (`load_from_db`: latest record per user,
taken whole — explicit all-false permission entries included) yields the same authorisation
verdict for every identity and command, the same answer of `verify_signature` for every message,
user and signature, and the same `can_read` / `can_write` / `is_admin`. So a permission or key
revoked before a restart stays revoked after it. (Session tokens do not survive a restart.) -/
theorem C13_reload_keeps_decisions (mac : Str → Str → Str) (alnum : Char → Bool) (cfg : Cfg)
    (later : List Later) :
    let st := applyLater alnum cfg State.empty later
    (∀ mgr uid c, authorize (reload st) mgr uid c = authorize st mgr uid c) ∧
    (∀ msg user sig, verify mac (reload st) msg user sig = verify mac st msg user sig) ∧
    (∀ id et, canRead (reload st) id et = canRead st id et ∧ canWrite (reload st) id et = canWrite st id et ∧
      isAdmin (reload st) id = isAdmin st id) ∧
    (reload st).sessions = [] := by
  intro st
  have h := reload_eq st (walSync_applyLater alnum cfg later State.empty walSync_empty)
  rw [h]
  exact ⟨fun _ _ _ => rfl, fun _ _ _ => rfl, fun _ _ => ⟨rfl, rfl, rfl⟩, rfl⟩

/-- Hence: a full REVOKE issued before a restart still forbids the next QUERY and STORE after
it, whatever role the user holds. -/
theorem C13_revocation_survives_restart (alnum : Char → Bool) (cfg : Cfg) (before : List Later)
    (id et : Str) (tail : List Str) (ok : Bool)
    (hex : (findUser (applyLater alnum cfg State.empty before) id).isSome = true)
    (hna : isAdmin (applyLater alnum cfg State.empty before) id = false) (hby : id ≠ bypassUserId) :
    let st' := reload (applyLater alnum cfg State.empty (before ++ [.cmd (.revoke [] [et] id)]))
    authorize st' true (some id) (.query et tail) = .forbidden ∧
    authorize st' true (some id) (.store et ok) = .forbidden := by
  intro st'
  have hsplit : applyLater alnum cfg State.empty (before ++ [.cmd (.revoke [] [et] id)]) =
      (revokeLoop (applyLater alnum cfg State.empty before) true true id [et]).2 := by
    rw [applyLater_append]
    simp [applyLater, applyOne, exec]
  have hkeep := (C13_reload_keeps_decisions (fun k _ => k) alnum cfg (before ++ [.cmd (.revoke [] [et] id)])).1
  show authorize (reload _) true (some id) (.query et tail) = .forbidden ∧
    authorize (reload _) true (some id) (.store et ok) = .forbidden
  rw [hkeep, hkeep, hsplit]
  exact C13_revoke_permission_next_request _ id et tail ok hex hna hby

/-- Non-vacuity: an editor whose rights on `t` were revoked (explicit all-false entry under a
role) is refused before and after a reload, while the role still opens other types; a reload
that dropped the all-false entry (what `dedupe_latest` must not do) would let the role decide. -/
example :
    let st0 := (createUser Char.isAlphanum State.empty ['e'] ['k'] ["editor".toList]).2
    let st := (revokeLoop st0 true true ['e'] [['t']]).2
    (findUser st ['e']).map (·.perms) = some [(['t'], ⟨false, false⟩)]
    ∧ st.users = loadUsers st.wal   -- `WalInSync st`
    ∧ authorize st true (some ['e']) (.store ['t'] true) = .forbidden
    ∧ authorize (reload st) true (some ['e']) (.store ['t'] true) = .forbidden
    ∧ authorize (reload st) true (some ['e']) (.query ['t'] []) = .forbidden
    ∧ authorize (reload st) true (some ['e']) (.query ['o'] []) = .proceed
    ∧ authorize { st with users := st.users.map (fun u => { u with perms := u.perms.filter (fun p => p.2.read || p.2.write) }) }
        true (some ['e']) (.store ['t'] true) = .proceed := by
  decide

/-! ## Credential-like text inside payloads -/

/-- **A JSON payload cannot smuggle a session token.** If every stored session token consists
of hex digits (which `generate_session_token` guarantees, `TokensHex` is an invariant —
`C13_tokens_hex_invariant`) and the request line ends in `}` (every STORE with an object
payload, whatever the payload contains — ` TOKEN x`, `user:sig:cmd`, `AUTH …`), then the
token branch of the gate is never taken: the decision is that of the gate without it, i.e. it
rests on the signature alone. -/
theorem C13_payload_cannot_spoof_partial (mac : Str → Str → Str) (cfg : Cfg) (st : State)
    (conn : Option Str) (now : Nat) (line : Str)
    (hhex : TokensHex st) (hend : (trim line).reverse.head? = some '}') :
    gate mac cfg st conn now line = gateNoToken mac cfg st conn line :=
  payload_no_token mac cfg st conn now line hhex hend

/-- Session tokens stay hex through every operation when minted tokens are hex. -/
theorem C13_tokens_hex_invariant (alnum : Char → Bool) (cfg : Cfg) (st : State) (later : List Later)
    (h : TokensHex st) (hl : ∀ l ∈ later, LaterHex l) : TokensHex (applyLater alnum cfg st later) :=
  tokensHex_applyLater alnum cfg st later h hl

/-- In general the text of a command *can* change who it runs as: a line that carries a valid
inline signature of `a` but ends in ` TOKEN t`, `t` a live token of `b`, runs as `b`, with
the text before the marker as the command; the signature is not even looked at. (Harmless in
itself — the sender holds `b`'s token — but it is why the statement above needs its
hypothesis.) -/
theorem C13_payload_cannot_spoof_fails :
    ∃ (mac : Str → Str → Str) (st : State) (line cmd : Str),
      (∃ u, findUser st ['a'] = some u ∧ u.active = true ∧
        line = ['a'] ++ ':' :: (mac u.key cmd ++ ':' :: cmd)) ∧
      gate mac ⟨false, true, 300⟩ st none 0 line ≠ .pass cmd ['a'] ∧
      ∃ c', gate mac ⟨false, true, 300⟩ st none 0 line = .pass c' ['b'] :=
  ⟨fun k m => k ++ m,
    ⟨[⟨['a'], ['k'], true, [], []⟩, ⟨['b'], ['q'], true, [], []⟩], [⟨['f'], ['b'], 10⟩], [], [], []⟩,
    "a:kX TOKEN f:X TOKEN f".toList, "X TOKEN f".toList,
    ⟨_, rfl, rfl, by decide⟩, by decide, ⟨"a:kX TOKEN f:X".toList, by decide⟩⟩

/-- Non-vacuity of `C13_payload_cannot_spoof_partial`: a signed STORE whose payload contains
` TOKEN <live token>` keeps the signer's identity. -/
example :
    let mac : Str → Str → Str := fun k _ => k
    let st : State := ⟨[⟨['a'], ['k'], true, [], []⟩, ⟨['b'], ['q'], true, [], []⟩], [⟨['f'], ['b'], 10⟩], [], [], []⟩
    TokensHex st ∧
    gate mac ⟨false, true, 300⟩ st none 0 "a:k:S {\"s\":\"x TOKEN f\"}".toList
      = .pass "S {\"s\":\"x TOKEN f\"}".toList ['a'] := by
  constructor
  · intro s hs c hc
    simp at hs
    subst hs
    simp at hc
    subst hc
    decide
  · decide

/-! ## The other front ends decide the same way -/

/-- Unix socket, HTTP (header or inline form) and WebSocket gates: an accepted identity is
justified exactly as for TCP — configuration off, or a MAC under an active account's key, or
(WebSocket) a live token. -/
theorem C13_other_gates_sound (mac : Str → Str → Str) (cfg : Cfg) (st : State) (line cmd user : Str)
    (hcfg : cfg.bypass = false ∧ cfg.hasManager = true) :
    (gateUnix mac cfg st line = .pass cmd user →
      ∃ u, findUser st user = some u ∧ u.active = true ∧
        trim line = user ++ ':' :: (mac u.key cmd ++ ':' :: cmd)) ∧
    (∀ hdr, gateHttp mac cfg st hdr line = .pass cmd user →
      ∃ u, findUser st user = some u ∧ u.active = true ∧
        ((∃ sig, hdr = some (user, sig) ∧ sig = mac u.key (trim line) ∧ cmd = line) ∨
         (hdr = none ∧ trim line = user ++ ':' :: (mac u.key cmd ++ ':' :: cmd)))) ∧
    (∀ conn now, gateWs mac cfg st conn now line = .pass cmd user →
      ∃ u, findUser st user = some u ∧ u.active = true) :=
  other_gates_sound mac cfg st line cmd user hcfg

end Snel.Props.C13
