import Snel.Lemmas.ShardFresh
import Snel.Lemmas.ShardSpan
/-!
# C11 — published segments are immutable and appear or disappear as a whole

Statements about the shard machine. Directory contents are values (`segs : id ↦ rows`), so
"every byte stays unchanged" is the statement that no step rewrites an existing entry; the
`immutable` stream checks it on the real files (size + content hash of every file of every
listed segment after every command, through flushes, compaction rounds, crashes and restarts).
Compaction hand-over is covered by that stream and by C05's batch theorem, not by a theorem here.
-/
namespace Snel.Props.C11
open Snel.Shard

/-- At every instant of EVERY history of stores, manual flushes, single flush-worker steps,
crashes at any of those step boundaries and restarts (clean or not): every id named by the
live list and every id named by the segment index has its directory. (Files are written before
the index entry, the index entry before publication; a restart lists only directories.) -/
theorem C11_index_and_live_name_existing_segments (cap k : Nat) (ops : List Op) :
    let s := runOps (Shard.init cap k) ops
    (∀ id ∈ s.live, HasDir s id) ∧ (∀ ent ∈ s.index, HasDir s ent.1) := by
  obtain ⟨_, h2⟩ := runOps_inv_all ops (init_inv cap k) (init_inv2 cap k)
  exact ⟨h2.liveDirs, h2.indexDirs⟩

/-- A flush-worker step never rewrites or removes a directory: it leaves the set alone or
appends exactly the directory of one queued job under that job's allocated id. -/
theorem C11_flush_appends_only (s : Shard) :
    (flushStep s).segs = s.segs ∨ ∃ j ∈ s.jobs, (flushStep s).segs = s.segs ++ [(j.seg, j.evs)] :=
  flushStep_segs s

/-- Ids handed to rotations are unused by any job in flight and any passive buffer, in every
state reachable without a crash (and, by `restart_inv`, after any restart). -/
theorem C11_rotation_id_unused (cap k : Nat) (ops : List Op) (h : ∀ o ∈ ops, o.crashFree = true) :
    let s := runOps (Shard.init cap k) ops
    (∀ j ∈ s.jobs, j.seg ≠ s.nextL0) ∧ (∀ p ∈ s.passives, p.1 ≠ s.nextL0) := by
  obtain ⟨hi, _⟩ := runOps_cover ops (init_inv cap k) h
  exact ⟨fun j hj => Nat.ne_of_lt (hi.freshJ j hj), fun p hp => Nat.ne_of_lt (hi.freshP p hp)⟩

/-- After ANY crash and restart the level-0 allocator starts above every level-0 directory
that exists on disk — published or left unpublished by the crash — so the next flush creates a
new directory instead of writing into an existing one. -/
theorem C11_restart_allocates_fresh_l0 (s : Shard) (p : Nat × List Ev) (hp : p ∈ s.segs)
    (hl : p.1 < levelSpan) : p.1 < (restart (crash s)).nextL0 :=
  restart_nextL0_fresh s p hp hl

/-- Directories are only ever created under ids no directory has: in EVERY history of stores,
manual flushes, single flush-worker steps, crashes at any step boundary and restarts (clean or
not), the job the flush worker will write next has an id that names no existing directory —
published or left unpublished by a crash. Together with `C11_flush_appends_only` (the worker's
only effect on the directory set is to append the directory of a job that has not written yet)
this is "a published segment's files never change". PARTIAL only in the side condition that fewer
than 10 000 level-0 ids are handed out per process lifetime (`AllSmall`): beyond that the
level-0 counter runs into the level-1 id range. -/
theorem C11_flush_creates_fresh_directory_partial (cap k : Nat) (ops : List Op)
    (hsmall : AllSmall (Shard.init cap k) ops) :
    let s := runOps (Shard.init cap k) ops
    ∀ j ∈ s.jobs, j.step = 0 → ∀ p ∈ s.segs, p.1 ≠ j.seg :=
  (runOps_fresh ops (init_inv cap k) (init_fresh cap k) hsmall).2.unwritten

/-- … and when the worker does create the directory, it is that job's. -/
theorem C11_created_directory_is_fresh (s : Shard) (h : Inv s) (hf : Fresh s) (j : Job)
    (hcreated : (flushStep s).segs = s.segs ++ [(j.seg, j.evs)]) (hj : j ∈ s.jobs) (h0 : j.step = 0) :
    ∀ p ∈ s.segs, p.1 ≠ j.seg :=
  (flushStep_fresh h hf).2 j hcreated hj h0

/-- Non-vacuity: a crash that leaves an unpublished directory 0, a restart, and the next rotation
is queued under id 1. -/
example :
    let ops := [Op.store ⟨1,0,0⟩, .store ⟨2,0,0⟩, .flushStep, .crash, .store ⟨3,0,0⟩]
    AllSmall (Shard.init 2 2) ops ∧
      ((runOps (Shard.init 2 2) ops).jobs.map (·.seg)) = [1] ∧
      ((runOps (Shard.init 2 2) ops).segs.map (·.1)) = [0] := by
  refine ⟨?_, by decide, by decide⟩
  simp only [AllSmall, Small, levelSpan]
  decide

/-- Ids are fresh with respect to the DISK, not with respect to history: after compaction has
emptied the level-0 range a restart hands out id 0 again (the property's text allows this;
per-label caches inside one process do not, see finding C05-stale-cache-on-segment-id-reuse). -/
theorem C11_l0_id_reused_after_compaction_and_restart :
    (restart (crash { (Shard.init 2 2) with segs := [(10000, [⟨1,0,0⟩])], nextL0 := 7 })).nextL0 = 0 := by
  decide

/-- The side condition of `C11_flush_creates_fresh_directory_partial` is not an artefact: without
it the statement is FALSE of the code as modelled. Every rotation consumes a level-0 id — also the
rotation of an empty memtable by a manual FLUSH — and nothing bounds the counter by the level
span. Witness, for the real id layout (`levelSpan = 10000`): two flushed segments are compacted
into directory 10000; after 9998 further FLUSH commands in the same process lifetime the counter
stands at 10000, and the next flush job is queued under the id of the existing compaction output.
Replayed on the real engine, where the flush then overwrites that directory and the four
compacted events are lost (finding C11-l0-counter-runs-into-l1-range). -/
theorem C11_l0_range_overflow_fails :
    let s1 := compactRound (runOps (Shard.init 2 2)
      [.store ⟨1,0,0⟩, .store ⟨2,0,0⟩, .drain, .store ⟨3,0,0⟩, .store ⟨4,0,0⟩, .drain])
    let s := runOps (runOps s1 (List.replicate 9998 Op.flushCmd)) [.store ⟨5,0,0⟩, .store ⟨6,0,0⟩]
    ∃ j ∈ s.jobs, j.step = 0 ∧ j.seg = 10000 ∧ ∃ p ∈ s.segs, p.1 = j.seg := by
  intro s1
  have hidle : Idle s1 := ⟨by decide, by decide⟩
  have hn1 : s1.nextL0 = 2 := by decide
  have hc1 : s1.cap = 2 := by decide
  have hs1 : s1.segs.map (·.1) = [10000] := by decide
  obtain ⟨hj, hsg⟩ := idle_flushes_then_stores s1 hidle hc1 9998 ⟨5,0,0⟩ ⟨6,0,0⟩
  simp only
  rw [hj, hsg, hn1]
  refine ⟨⟨10000, [⟨5,0,0⟩, ⟨6,0,0⟩], 0⟩, by simp, rfl, rfl, ?_⟩
  have hmem : (10000 : Nat) ∈ s1.segs.map (·.1) := by rw [hs1]; simp
  obtain ⟨p, hp, hpe⟩ := List.mem_map.mp hmem
  exact ⟨p, hp, hpe⟩

/-- After ANY crash and restart, once `segments.idx` exists the live segment list names only
directories the index names — for EVERY durable state. The index entry of a flushed segment is
saved after all its files are written, a compaction replaces the index after its output is
written: so the live list never names a segment whose files are incomplete ("at no instant,
including after a crash"). Before the repair 113ae95 the live list was the directory listing. -/
theorem C11_restart_serves_only_registered (s : Shard) (h : s.indexExists = true) :
    ∀ id ∈ (restart (crash s)).live, ∃ ent ∈ s.index, ent.1 = id := by
  intro id hid
  have hl : (restart (crash s)).live
      = published (crash s) (sortNat (((crash s).segs.map (·.1)).eraseDups)) := by simp [restart]
  rw [hl] at hid
  have := (mem_published.mp hid).2
  simpa [Served, crash, h] using this

/-- A process kill INSIDE a segment write (`crashMid`: the directory exists, its files are
incomplete): the restart does not put that directory in the live list, provided an index file
exists and does not name the id (ids handed to rotations are fresh, `C11_rotation_id_unused`). -/
theorem C11_incomplete_directory_not_served (s : Shard) (j : Job) (rest : List Job)
    (hjobs : s.jobs = j :: rest) (h0 : j.step = 0) (hne : j.evs ≠ [])
    (hidx : s.indexExists = true) (hfresh : ∀ ent ∈ s.index, ent.1 ≠ j.seg) :
    j.seg ∉ (crashMid s).live := by
  have hcm : crashMid s = restart (crash (midWrite s j)) := by
    have hemp : j.evs.isEmpty = false := by
      cases hj : j.evs with
      | nil => exact absurd hj hne
      | cons a as => rfl
    simp [crashMid, hjobs, h0, hemp]
  rw [hcm]
  intro hmem
  obtain ⟨ent, hent, he⟩ := C11_restart_serves_only_registered (midWrite s j) (by simpa [midWrite] using hidx) _ hmem
  exact hfresh ent (by simpa [midWrite] using hent) he

/-- Non-vacuity: second rotation of a shard, killed inside its segment write. -/
example :
    let s := runOps (Shard.init 2 2) [.store ⟨1,0,0⟩, .store ⟨2,0,0⟩, .drain, .store ⟨3,0,0⟩, .store ⟨4,0,0⟩]
    (s.jobs.map (·.seg)) = [1] ∧ s.indexExists = true ∧ (crashMid s).live = [0] ∧
      (crashMid s).segs.map (·.1) = [0, 1] ∧ visibleKeys (crashMid s) = [3, 4, 1, 2] := by
  decide

/-- A shard writes its (empty) index file when it first starts (repair 87bdff9), and nothing ever
removes it: in EVERY history of stores, flushes, worker steps, kills and restarts the index file
exists. Hence the hypothesis `indexExists` of the two theorems above holds at every kill point —
also at a kill inside the very first segment write of a shard — and `crashMid` never sets
`poisoned`. -/
theorem C11_index_file_always_exists (cap k : Nat) (ops : List Op) :
    (runOps (Shard.init cap k) ops).indexExists = true :=
  runOps_indexExists ops rfl

/-- The first segment write of a shard, killed inside: the directory exists and is not served. -/
example :
    let s := runOps (Shard.init 2 2) [.store ⟨1,0,0⟩, .store ⟨2,0,0⟩]
    s.indexExists = true ∧ (crashMid s).live = [] ∧ (crashMid s).segs.map (·.1) = [0] ∧
      (crashMid s).poisoned = false ∧ visibleKeys (crashMid s) = [1, 2] ∧ count (crashMid s) = 2 := by
  decide

/-- What the code does when the index file is missing although directories exist (removed by
hand; not reachable by the machine): it serves every directory, also an incomplete one. Before
the repair 87bdff9 a kill inside the first segment write of a fresh shard ended here
(`fixed:` entry C01 kill-in-first-segment-write). -/
example :
    let s := { runOps (Shard.init 2 2) [.store ⟨1,0,0⟩, .store ⟨2,0,0⟩] with indexExists := false }
    (crashMid s).live = [0] ∧ (crashMid s).poisoned = true := by
  decide

/-- Non-vacuity: a history with a crash in the middle of a flush and a restart. -/
example :
    let s := runOps (Shard.init 2 2) [.store ⟨1,0,0⟩, .store ⟨2,0,0⟩, .flushStep, .crash, .store ⟨3,0,0⟩]
    s.live = [] ∧ s.segs.map (·.1) = [0] ∧ s.index = [] ∧ s.jobs.length = 1 := by
  decide

end Snel.Props.C11
