import Snel.Lemmas.ColumnBlock
import Snel.Lemmas.Value
import Snel.Lemmas.ReturnProjection
import Snel.Model.F64Parse
import Snel.Gen.C07
import Snel.Model.MemRows
/-!
# C07 — stored values come back unchanged from every storage tier

Property theorems only. Models: `Snel.Model.ColumnBlock` (byte-exact typed column block
codec), `Snel.Model.Value` (JSON ↔ scalar, WAL, column strings, row materialisation),
`Snel.Model.ReturnProjection` (RETURN). They are tied to the Rust code by the correspondence
streams `block`, `decode`, `scalar`, `flush`, `project`, `f64parse` of `./check C07`.

External functions (Rust `f64` `Display`/`FromStr`, `serde_json::from_str`, the serde_json float
text round trip) are the components of `x : Ext` and universally quantified; what a theorem
needs from them is an explicit hypothesis.
-/
namespace Snel.Props.C07
open Snel.ColumnBlock Snel.Value Snel.ReturnProjection

/-! ## the block codec -/

/-- The literals of the model are the constants of the Rust source as extracted on this run
(`tools/consts/C07.py`): type codes, `FLAG_HAS_NULLS`, `ColumnBlockHeader::LEN`, the core
field list of `compute_return_projection`. -/
theorem C07_constants_tied :
    [Phys.varBytes, .i64, .u64, .f64, .bool, .i32Date].map Phys.code
        = [Gen.C07.physVarBytes, Gen.C07.physI64, Gen.C07.physU64, Gen.C07.physF64,
           Gen.C07.physBool, Gen.C07.physI32Date]
      ∧ (header .i64 true 0 0).length = Gen.C07.headerLen
      ∧ ((header .i64 true 0 0)[1]?).map UInt8.toNat = some Gen.C07.flagHasNulls
      ∧ padFor 0 = (8 - Gen.C07.headerLen % 8) % 8
      ∧ coreFields = Gen.C07.coreFields := by
  decide

/-- **Round-trip law of the column block codec**, for every physical type and every list of
column strings: decoding the bytes the writer produces yields exactly the column the strings
denote (`canon`: unparsable ⇒ null, var-bytes ⇒ the bytes). Proved byte by byte: header,
null bitset, alignment padding, little-endian payload / bit-packed booleans / length-prefixed
bytes. Bounds: fewer than `2^30` rows and strings shorter than `2^32` bytes (`as u32` casts of
`row_count`, `aux_len = 4·rows` and the per-row lengths). -/
theorem C07_block_roundtrip (pf : Bytes → Option Nat) (hpf : ∀ s b, pf s = some b → b < 2 ^ 64)
    (phys : Phys) (strs : List Bytes) (hn : strs.length < 2 ^ 30)
    (hl : ∀ s ∈ strs, s.length < 2 ^ 32) :
    decodeBlock strs.length (encodeBlock pf phys strs) = some (phys.written, canon pf phys strs) :=
  block_roundtrip pf hpf phys strs hn hl

/-- non-vacuity: a mixed I64 column (value, null, `+7`, overflow) round-trips, and its bytes
are the expected 12-byte header + bitmap + pad + payload. -/
example : decodeBlock 4 (encodeBlock (fun _ => none) .i64 [[53], [], [43, 55], [57, 57, 57, 57, 57, 57, 57, 57, 57, 57, 57, 57, 57, 57, 57, 57, 57, 57, 57, 57]])
    = some (.i64, [.i64 5, .null, .i64 7, .null]) := by decide

/-- A flushed column of scalars reads back cell by cell as `flushedCell`. -/
theorem C07_flushed_column (x : Ext) (hpf : ∀ s b, x.parseF64 s = some b → b < 2 ^ 64)
    (phys : Phys) (vs : List Scalar) (hn : vs.length < 2 ^ 30)
    (hl : ∀ v ∈ vs, (colString x v).length < 2 ^ 32) :
    decodeBlock vs.length (encodeBlock x.parseF64 phys (vs.map (colString x)))
      = some (phys.written, vs.map (flushedCell x phys)) := by
  have := block_roundtrip x.parseF64 hpf phys (vs.map (colString x)) (by simpa using hn)
    (by intro s hs; simp only [List.mem_map] at hs; obtain ⟨v, hv, rfl⟩ := hs; exact hl v hv)
  simp only [List.length_map] at this
  rw [this]
  simp [canon, flushedCell, Function.comp_def]

/-! ## values, tier by tier -/

/-- what a stored scalar is on the four tiers: memtable, WAL-recovered, flushed, compacted -/
def tiers (x : Ext) (phys : Phys) (v : Scalar) : List Scalar :=
  [memTier v, walTier x v, flushedTier x phys v, compactedTier x phys v]

theorem walTier_int (x : Ext) (i : Int) (h : InI64 i) : walTier x (.int i) = .int i := by
  obtain ⟨h1, h2⟩ := h
  unfold walTier walRoundtrip serdeJson intJson
  by_cases hn : i < 0
  · simp only [hn, if_true, jsonText, ofJson]
    congr 1; omega
  · simp only [hn, if_false, jsonText, ofJson]
    have : i.toNat ≤ i64Max := by unfold i64Max; omega
    simp only [this, if_true]
    congr 1; omega

/-- **Integers** (`int`, `datetime`, `date` fields and their optional forms; full signed
64-bit range): the same scalar on every tier, without any assumption. -/
theorem C07_value_roundtrip_int (x : Ext) (i : Int) (h : InI64 i) :
    ∀ t ∈ tiers x .i64 (ofJson (intJson i)), t = .int i := by
  have hof : ofJson (intJson i) = .int i := by
    obtain ⟨h1, h2⟩ := h
    unfold intJson
    by_cases hn : i < 0
    · simp only [hn, if_true, ofJson]; congr 1; omega
    · have : i.toNat ≤ i64Max := by unfold i64Max; omega
      simp only [hn, if_false, ofJson, this, if_true]; congr 1; omega
  have hcell : flushedCell x .i64 (.int i) = .i64 i := by
    simp only [flushedCell, colString, canonCell, parseI64_intDec i h.1 h.2]
  rw [hof]
  intro t ht
  simp only [tiers, List.mem_cons, List.mem_nil_iff, or_false] at ht
  rcases ht with rfl | rfl | rfl | rfl
  · rfl
  · exact walTier_int x i h
  · simp only [flushedTier, hcell, cellToBuilt]
  · simp only [compactedTier, compactCell, hcell, cellToScalar, cellToBuilt]
    have := hcell
    simp only [flushedCell] at this
    simp only [this]

example : InI64 (-9223372036854775808) ∧ InI64 9223372036854775807 := by
  unfold InI64; omega

/-- **Unsigned integers** over the whole `u64` range: every tier holds the scalar
`ScalarValue::from` produced (an `Int64`, or the decimal string above `i64::MAX`). -/
theorem C07_value_roundtrip_u64 (x : Ext) (u : Nat) (h : u < 18446744073709551616) :
    ∀ t ∈ tiers x .u64 (ofJson (.num (.pos u))), t = ofJson (.num (.pos u)) := by
  have hpu := parseU64_natDec u h
  by_cases hs : u ≤ i64Max
  · have hof : ofJson (.num (.pos u)) = .int u := by simp [ofJson, hs]
    have hdec : intDec (u : Int) = natDec u := by
      unfold intDec
      have : ¬ ((u : Int) < 0) := by omega
      simp [this]
    have hcell : flushedCell x .u64 (.int u) = .u64 u := by
      simp only [flushedCell, colString, canonCell, hdec, hpu]
    rw [hof]
    intro t ht
    simp only [tiers, List.mem_cons, List.mem_nil_iff, or_false] at ht
    rcases ht with rfl | rfl | rfl | rfl
    · rfl
    · exact walTier_int x u (by unfold InI64; unfold i64Max at hs; omega)
    · simp only [flushedTier, hcell, cellToBuilt, hs, if_true]
    · have hc2 := hcell
      simp only [flushedCell] at hc2
      simp only [compactedTier, compactCell, hcell, cellToScalar, hs, if_true, hc2, cellToBuilt]
  · have hof : ofJson (.num (.pos u)) = .utf8 (natDec u) := by simp [ofJson, hs]
    have hcell : flushedCell x .u64 (.utf8 (natDec u)) = .u64 u := by
      simp only [flushedCell, colString, canonCell, hpu]
    rw [hof]
    intro t ht
    simp only [tiers, List.mem_cons, List.mem_nil_iff, or_false] at ht
    rcases ht with rfl | rfl | rfl | rfl
    · rfl
    · simp [walTier, walRoundtrip, serdeJson, jsonText, ofJson]
    · simp only [flushedTier, hcell, cellToBuilt, hs, if_false]
    · have hc2 := hcell
      simp only [flushedCell, colString] at hc2
      simp only [compactedTier, compactCell, hcell, cellToScalar, hs, if_false, colString, hc2,
        cellToBuilt]

/-- Rendering of an unsigned integer: equal to the stored JSON number. Above `i64::MAX` this
relies on the output-side re-parse — `serde_json::from_str` must read the decimal digits back
as that number (hypothesis on the external parser). -/
theorem C07_value_render_u64 (x : Ext) (u : Nat)
    (hj : u > i64Max → x.jsonParse (natDec u) = .number (.pos u)) :
    toJson x (ofJson (.num (.pos u))) = .num (.pos u) := by
  by_cases hs : u ≤ i64Max
  · simp only [ofJson, hs, if_true, toJson, intJson]
    have : ¬ ((u : Int) < 0) := by omega
    simp [this]
  · have hgt : u > i64Max := by omega
    simp only [ofJson, hs, if_false, toJson, hj hgt, hgt, if_true]

/-- **Booleans**: identical on every tier. -/
theorem C07_value_roundtrip_bool (x : Ext) (b : Bool) :
    ∀ t ∈ tiers x .bool (ofJson (.bool b)), t = .bool b := by
  intro t ht
  simp only [tiers, List.mem_cons, List.mem_nil_iff, or_false] at ht
  rcases ht with rfl | rfl | rfl | rfl <;> cases b <;> rfl

/-- **Floats** in a float column. PARTIAL: needs (1) Rust's `Display`→`FromStr` round trip for
this value (guaranteed by std for every non-NaN value; checked by the `f64parse` oracle) and
(2) the serde_json text round trip to be exact for this value — which the real crate
configuration does **not** guarantee, see `C07_value_roundtrip_float_wal_fails`. -/
theorem C07_value_roundtrip_float_partial (x : Ext) (b : Nat) (hfin : isFinite b = true)
    (hfmt : x.parseF64 (x.fmtF64 b) = some b) (hwal : x.walFloat b = b) :
    ∀ t ∈ tiers x .f64 (ofJson (.num (.flt b))), t = .float b := by
  have hcell : flushedCell x .f64 (.float b) = .f64 b := by
    simp only [flushedCell, colString, canonCell, hfmt]
  intro t ht
  simp only [tiers, List.mem_cons, List.mem_nil_iff, or_false, ofJson] at ht
  rcases ht with rfl | rfl | rfl | rfl
  · rfl
  · simp [walTier, walRoundtrip, serdeJson, hfin, jsonText, ofJson, hwal]
  · simp only [flushedTier, hcell, cellToBuilt, hfin, if_true]
  · have hc2 := hcell
    simp only [flushedCell, colString] at hc2
    simp only [compactedTier, compactCell, hcell, cellToScalar, colString, hc2, cellToBuilt, hfin,
      if_true]

/-- The full statement for floats is false of the code: whenever the serde_json text round
trip moves a float (observed on the real crate: bits `bd3df375809411cf` come back as
`bd3df375809411d1`; finding `C07-wal-float`), the WAL-recovered value differs from the stored
one. -/
theorem C07_value_roundtrip_float_wal_fails (x : Ext) (b : Nat) (hfin : isFinite b = true)
    (hwal : x.walFloat b ≠ b) : walTier x (ofJson (.num (.flt b))) ≠ .float b := by
  simp [walTier, walRoundtrip, serdeJson, hfin, jsonText, ofJson, hwal]

/-- non-vacuity of both float theorems: an exact and an inexact external text round trip. -/
example : ∃ x : Ext, isFinite 0x3ff8000000000000 = true
    ∧ x.parseF64 (x.fmtF64 0x3ff8000000000000) = some 0x3ff8000000000000
    ∧ x.walFloat 0x3ff8000000000000 = 0x3ff8000000000000 :=
  ⟨⟨fun _ => some 0x3ff8000000000000, fun _ => [49, 46, 53], fun _ => .other, id⟩,
    by decide, rfl, rfl⟩

/-- **Integers stored in a float field** (`type_allows_value` accepts them). PARTIAL: the
flushed column holds the nearest double, so the value survives only if the decimal digits
parse to a double that is exactly that integer. -/
theorem C07_value_roundtrip_int_in_float_partial (x : Ext) (i : Int) (b : Nat)
    (hp : x.parseF64 (intDec i) = some b) (hfin : isFinite b = true) (hex : fltInt? b = some i) :
    jsonSame (toJson x (flushedTier x .f64 (.int i))) (intJson i) = true := by
  have hcell : flushedCell x .f64 (.int i) = .f64 b := by
    simp only [flushedCell, colString, canonCell, hp]
  simp only [flushedTier, hcell, cellToBuilt, hfin, if_true, toJson, intJson]
  by_cases hn : i < 0
  · simp only [hn, if_true, jsonSame, JNum.int?, hex]
    simp; omega
  · simp only [hn, if_false, jsonSame, JNum.int?, hex]
    simp; omega

/-- … and it is lost otherwise: `2^53 + 1` in a float field reads back as `2^53` after flush
(with the correctly rounding parser of Rust std, here the modelled one; finding
`C07-int-in-float`). -/
theorem C07_value_roundtrip_int_in_float_fails :
    let x : Ext := ⟨Snel.F64Parse.parseF64, fun _ => [], fun _ => .other, id⟩
    toJson x (flushedTier x .f64 (.int 9007199254740993)) = .num (.flt 0x4340000000000000)
      ∧ jsonSame (.num (.flt 0x4340000000000000)) (intJson 9007199254740993) = false := by
  decide +kernel

/-- **Strings** (string and enum fields). PARTIAL: the value must be one that neither the
output-side JSON re-parse of `to_json` nor the re-typing of `add_payload_field` touches. Under
exactly these two hypotheses every tier renders the stored string. -/
theorem C07_value_roundtrip_string_partial (x : Ext) (s : Bytes) (hv : validUtf8 s = true)
    (hjson : toJson x (.utf8 s) = .str s) (hkeep : addPayloadField x s = .utf8 s) :
    ∀ t ∈ tiers x .varBytes (ofJson (.str s)), t = .utf8 s ∧ toJson x t = .str s := by
  have hcell : flushedCell x .varBytes (.utf8 s) = .bytes s := by
    simp only [flushedCell, colString, canonCell]
  intro t ht
  simp only [tiers, List.mem_cons, List.mem_nil_iff, or_false, ofJson] at ht
  rcases ht with rfl | rfl | rfl | rfl
  · exact ⟨rfl, hjson⟩
  · simp [walTier, walRoundtrip, serdeJson, jsonText, ofJson, hjson]
  · simp only [flushedTier, hcell, cellToBuilt, hv, if_true, hkeep, hjson, and_self]
  · simp only [compactedTier, compactCell, hcell, cellToScalar, hv, if_true, colString, canonCell,
      cellToBuilt, hkeep, hjson, and_self]

/-- non-vacuity: `"héllo"` meets both hypotheses with a JSON parser that rejects it. -/
example : let x : Ext := ⟨fun _ => none, fun _ => [], fun _ => .invalid, id⟩
    validUtf8 [104, 195, 169, 108, 108, 111] = true
      ∧ toJson x (.utf8 [104, 195, 169, 108, 108, 111]) = .str [104, 195, 169, 108, 108, 111]
      ∧ addPayloadField x [104, 195, 169, 108, 108, 111] = .utf8 [104, 195, 169, 108, 108, 111] := by
  decide

/-- The full statement for strings is false: the string `"true"` in a string (or enum) field
is the boolean `true` after flush — for every behaviour of the external functions (finding
`C07-flushed-string-retyped`). Likewise `" 007 "` becomes the number 7. -/
theorem C07_value_roundtrip_string_retyped_fails (x : Ext) :
    flushedTier x .varBytes (ofJson (.str [116, 114, 117, 101])) = .bool true
      ∧ flushedTier x .varBytes (ofJson (.str [32, 48, 48, 55, 32])) = .int 7 := by
  constructor <;> rfl

/-- … and a string that is the text of a JSON array is rendered as an array, already from the
memtable, given only that `serde_json::from_str` parses `[1,2]` as an array; the string
`18446744073709551615` is rendered as a number (finding `C07-string-reparsed`). -/
theorem C07_value_roundtrip_string_reparsed_fails (x : Ext)
    (h1 : x.jsonParse [91, 49, 44, 50, 93] = .container [91, 49, 44, 50, 93])
    (h2 : x.jsonParse (natDec 18446744073709551615) = .number (.pos 18446744073709551615)) :
    toJson x (memTier (ofJson (.str [91, 49, 44, 50, 93]))) = .nested [91, 49, 44, 50, 93]
      ∧ toJson x (memTier (ofJson (.str (natDec 18446744073709551615))))
          = .num (.pos 18446744073709551615) := by
  constructor
  · simp [memTier, ofJson, toJson, h1]
  · simp only [memTier, ofJson, toJson, h2]
    decide

/-- **Null in an optional field** of a fixed-width or boolean column: null on every tier
(for a float column: given that `"".parse::<f64>()` fails). -/
theorem C07_value_roundtrip_null_partial (x : Ext) (phys : Phys) (hp : phys ≠ .varBytes ∧ phys ≠ .i32Date)
    (hf : x.parseF64 [] = none) :
    ∀ t ∈ tiers x phys (ofJson .null), t = .null := by
  intro t ht
  simp only [tiers, List.mem_cons, List.mem_nil_iff, or_false, ofJson] at ht
  cases phys with
  | varBytes => exact absurd rfl hp.1
  | i32Date => exact absurd rfl hp.2
  | i64 => rcases ht with rfl | rfl | rfl | rfl <;> rfl
  | u64 => rcases ht with rfl | rfl | rfl | rfl <;> rfl
  | bool => rcases ht with rfl | rfl | rfl | rfl <;> rfl
  | f64 =>
    rcases ht with rfl | rfl | rfl | rfl
    · rfl
    · rfl
    · simp [flushedTier, flushedCell, colString, canonCell, hf, cellToBuilt]
    · simp [compactedTier, compactCell, flushedCell, colString, canonCell, hf, cellToScalar,
        cellToBuilt]

/-- The full statement for nulls is false: in a `string | null` field a stored null is the
empty string after flush (given only that `"".parse::<f64>()` fails; finding
`C07-null-as-empty-string`). -/
theorem C07_value_roundtrip_null_fails (x : Ext) (hf : x.parseF64 [] = none) :
    flushedTier x .varBytes (ofJson .null) = .utf8 [] ∧ flushedTier x .varBytes (ofJson .null) ≠ .null := by
  have h : flushedTier x .varBytes (ofJson .null) = .utf8 [] := by
    simp [flushedTier, flushedCell, ofJson, colString, canonCell, cellToBuilt, validUtf8,
      addPayloadField, trim, trimStart, trimEndRev, parseU64, parseI64, parseBody, stripPlus, hf]
  exact ⟨h, by rw [h]; intro h'; cases h'⟩

/-- **Compaction changes no cell**: re-reading a decoded column as scalars
(`values_to_scalar`) and writing it again under the same physical type gives the same cell,
for every cell a column can hold, given (float cells) the std `Display`→`FromStr` round trip
of that value, (var-bytes) that the bytes are UTF-8 as the writer only writes strings. -/
theorem C07_compaction_stable (x : Ext) (phys : Phys) (s : Bytes)
    (hutf : validUtf8 s = true) (hempty : x.parseF64 [] = none)
    (hfmt : ∀ b, x.parseF64 s = some b → x.parseF64 (x.fmtF64 b) = some b) :
    compactCell x phys (canonCell x.parseF64 phys s) = canonCell x.parseF64 phys s := by
  cases phys with
  | i64 =>
    simp only [canonCell]
    cases hp : parseI64 s with
    | none => rfl
    | some v =>
      obtain ⟨h1, h2⟩ := parseI64_range s v hp
      simp only [compactCell, cellToScalar, colString, canonCell, parseI64_intDec v h1 h2]
  | u64 =>
    simp only [canonCell]
    cases hp : parseU64 s with
    | none => rfl
    | some v =>
      have hr := parseU64_range s v hp
      have hpu := parseU64_natDec v hr
      by_cases hs : v ≤ i64Max
      · have hdec : intDec (v : Int) = natDec v := by
          unfold intDec
          have : ¬ ((v : Int) < 0) := by omega
          simp [this]
        simp only [compactCell, cellToScalar, hs, if_true, colString, canonCell, hdec, hpu]
      · simp only [compactCell, cellToScalar, hs, if_false, colString, canonCell, hpu]
  | f64 =>
    simp only [canonCell]
    cases hp : x.parseF64 s with
    | none => simp only [compactCell, cellToScalar, colString, canonCell, hempty]
    | some b => simp only [compactCell, cellToScalar, colString, canonCell, hfmt b hp]
  | bool =>
    simp only [canonCell]
    cases hp : parseBool s with
    | none => rfl
    | some b => cases b <;> rfl
  | varBytes => simp only [canonCell, compactCell, cellToScalar, hutf, if_true, colString]
  | i32Date => simp only [canonCell, compactCell, cellToScalar, hutf, if_true, colString]

/-- **Coverage**: every value `type_allows_value` accepts for a field type DEFINE can produce
is of one of the kinds treated above, and goes to the column type those theorems are about:
null (optional fields), boolean → Bool, integer in i64 range → I64 or F64, unsigned → U64 or
F64, finite float → F64, string / enum variant → VarBytes. -/
theorem C07_conforming_cases (ft : FieldType) (hflat : FlatType ft) (j : Json)
    (hc : conforms ft j = true) : Kinds (physOf ft) j := by
  cases ft with
  | optional t =>
    have hcases : j = .null ∨ conforms t j = true := by
      cases j <;> simp_all [conforms]
    rcases hcases with rfl | hct
    · exact Or.inl rfl
    · have hphys : physOf (.optional t) = physOf t := by
        cases t <;> simp_all [physOf, FlatType]
      rw [hphys]
      apply conforming_base t _ j hct
      intro t' ht'; subst ht'; exact hflat
  | _ => exact conforming_base _ (by intro t h; cases h) j hc

/-- **Value round trip, all field types at once.** For every field type DEFINE can produce and
every value `type_allows_value` accepts for it, every tier (memtable, WAL-recovered, flushed,
recompacted) renders a value equal to the stored one (`jsonSame`: numbers numerically equal,
strings byte-identical, null is null). PARTIAL: `Safe` lists exactly what is needed per value
kind — strings untouched by the two re-typing steps, floats with exact external text round
trips, no integer in a float column, no null in a var-bytes column. Each excluded class has its
`_fails` theorem above and a finding. -/
theorem C07_value_roundtrip_partial (x : Ext) (ft : FieldType) (hflat : FlatType ft) (j : Json)
    (hc : conforms ft j = true) (hs : Safe x (physOf ft) j) :
    ∀ t ∈ tiers x (physOf ft) (ofJson j), jsonSame (toJson x t) j = true := by
  intro t ht
  rcases C07_conforming_cases ft hflat j hc with
    rfl | ⟨b, rfl, hp⟩ | ⟨i, hi, rfl, hp⟩ | ⟨u, hu, rfl, hp⟩ | ⟨b, hfin, rfl, hp⟩ | ⟨s, rfl, hp⟩
  · obtain ⟨h1, h2, h3⟩ := hs
    rw [C07_value_roundtrip_null_partial x _ ⟨h1, h2⟩ h3 t ht]
    rfl
  · rw [hp] at ht
    rw [C07_value_roundtrip_bool x b t ht]
    cases b <;> rfl
  · have hp' : physOf ft = .i64 := by
      rcases hp with h | h
      · exact h
      · exfalso
        unfold intJson at hs
        split at hs
        · exact hs h
        · exact hs.2 h
    rw [hp'] at ht
    rw [C07_value_roundtrip_int x i hi t ht]
    exact jsonSame_intJson i
  · have hp' : physOf ft = .u64 := by
      rcases hp with h | h
      · exact h
      · exact absurd h hs.2
    rw [hp'] at ht
    rw [C07_value_roundtrip_u64 x u hu t ht, C07_value_render_u64 x u hs.1]
    simp [jsonSame, JNum.int?]
  · rw [hp] at ht
    rw [C07_value_roundtrip_float_partial x b hfin hs.1 hs.2 t ht]
    simp [toJson, hfin, jsonSame]
  · rw [hp] at ht
    obtain ⟨h1, h2, h3⟩ := hs
    rw [(C07_value_roundtrip_string_partial x s h1 h2 h3 t ht).2]
    simp [jsonSame]

/-- non-vacuity: an optional integer field with `i64::MIN`, and a string field with `"héllo"`. -/
example : let x : Ext := ⟨fun _ => none, fun _ => [], fun _ => .invalid, id⟩
    FlatType (.optional .i64) ∧ conforms (.optional .i64) (.num (.neg 9223372036854775808)) = true
      ∧ Safe x (physOf (.optional .i64)) (.num (.neg 9223372036854775808))
      ∧ conforms .string (.str [104, 195, 169]) = true
      ∧ Safe x (physOf .string) (.str [104, 195, 169]) := by
  refine ⟨trivial, by decide, ?_, by decide, ?_⟩
  · show physOf (.optional .i64) ≠ .f64
    decide
  · exact ⟨by decide, by decide, by decide⟩

/-! ## rows served from the memtable -/

/-- **A memtable row depends on its own event only.** For any number of events in the scan
(active and passive memtables, any batch boundaries) and any column list: the `i`-th emitted
row is the `i`-th event that passed the filter, materialised by itself; cell `k` is that
event's value for column `k`, and `Null` when the event does not carry the column — never a
value of another row. (Model `Snel.MemRows`, tied to `MemTableSource` row by row by the
`memrows` stream.) -/
theorem C07_memtable_row_local (cols : List Bytes) (keep : MemRows.Ev → Bool)
    (evs : List MemRows.Ev) (i k : Nat) :
    (MemRows.memRows cols keep evs)[i]? = ((evs.filter keep)[i]?).map (MemRows.memRow cols)
      ∧ ∀ e, (MemRows.memRow cols e)[k]?
          = (cols[k]?).map fun c => (MemRows.fieldScalar e c).getD .null := by
  constructor
  · simp [MemRows.memRows]
  · intro e; simp [MemRows.memRow]

/-- An omitted optional key reads as null from the memtable tier, whatever the other rows hold. -/
theorem C07_memtable_absent_is_null (cols : List Bytes) (e : MemRows.Ev) (k : Nat)
    (hk : k < cols.length) (h : MemRows.fieldScalar e cols[k] = none) :
    (MemRows.memRow cols e)[k]? = some .null := by
  simp [MemRows.memRow, List.getElem?_eq_getElem hk, h]

example : MemRows.memRows [[107], [111]] (fun _ => true)
    [⟨[97], [101], 1, 1, [([107], .int 1), ([111], .int 7)]⟩, ⟨[97], [101], 2, 2, [([107], .int 2)]⟩]
    = [[.int 1, .int 7], [.int 2, .null]] := by decide

/-! ## RETURN -/

/-- RETURN never drops a core field: every core column of the input is in the output. -/
theorem C07_projection_core (input : List String) (ret : Option (List String))
    (payload : List String) (c : String) (hc : c ∈ coreFields) (hin : c ∈ input) :
    c ∈ outNames input (projection input ret payload) := by
  obtain ⟨i, hi⟩ := position_of_mem hin
  obtain ⟨hlt, hget⟩ := position_some hi
  rw [outNames_mem]
  refine ⟨i, ?_, by rw [List.getElem?_eq_getElem hlt, hget]⟩
  unfold projection
  split
  · simpa using hlt
  · simpa using hlt
  · have hcore : i ∈ coreFields.filterMap (position input) := by
      rw [List.mem_filterMap]; exact ⟨c, hc, hi⟩
    exact ((addReturn_spec input payload _ _ (core_inBounds input)).2.1 i).mpr (Or.inl hcore)

/-- With a non-empty RETURN list the output columns are exactly: the core fields present in
the input, and the requested fields that are schema fields (and loaded). Nothing else. -/
theorem C07_projection_exact (input : List String) (f : String) (fs payload : List String)
    (name : String) :
    name ∈ outNames input (projection input (some (f :: fs)) payload)
      ↔ name ∈ input ∧ (name ∈ coreFields ∨ (name ∈ f :: fs ∧ name ∈ payload)) := by
  have hspec := (addReturn_spec input payload (f :: fs) _ (core_inBounds input)).2.1
  rw [outNames_mem]
  simp only [projection]
  constructor
  · rintro ⟨i, hi, hget⟩
    obtain ⟨hlt, hget⟩ := List.getElem?_eq_some_iff.mp hget
    refine ⟨by rw [← hget]; exact List.getElem_mem hlt, ?_⟩
    rcases (hspec i).mp hi with hcore | ⟨g, hg, hgp, hgi⟩
    · rw [List.mem_filterMap] at hcore
      obtain ⟨c, hc, hci⟩ := hcore
      obtain ⟨_, hcg⟩ := position_some hci
      left; rw [← hget, hcg]; exact hc
    · obtain ⟨_, hgg⟩ := position_some hgi
      right; rw [← hget, hgg]; exact ⟨hg, hgp⟩
  · rintro ⟨hin, hor⟩
    obtain ⟨i, hi⟩ := position_of_mem hin
    obtain ⟨hlt, hget⟩ := position_some hi
    refine ⟨i, (hspec i).mpr ?_, by rw [List.getElem?_eq_getElem hlt, hget]⟩
    rcases hor with hc | ⟨hf, hp⟩
    · left; rw [List.mem_filterMap]; exact ⟨name, hc, hi⟩
    · right; exact ⟨name, hf, hp, hi⟩

/-- RETURN alters no cell: every (header, cell) pair of a projected row is a (header, cell)
pair of the input row; and no column is emitted twice. -/
theorem C07_projection_cells {α : Type} (input : List String) (ret : Option (List String))
    (payload : List String) (row : List α) (hrow : row.length = input.length) :
    (∀ p ∈ List.zip (outNames input (projection input ret payload))
        (projectRow (projection input ret payload) row), p ∈ List.zip input row) :=
  project_cells input _ row (projection_inBounds input ret payload) hrow

example : outNames ["context_id", "b", "event_type", "a", "timestamp", "event_id"]
      (projection ["context_id", "b", "event_type", "a", "timestamp", "event_id"]
        (some ["a", "zzz", "timestamp", "a"]) ["a", "b"])
    = ["context_id", "event_type", "timestamp", "event_id", "a"] := by decide

end Snel.Props.C07
