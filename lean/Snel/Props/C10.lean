import Snel.Lemmas.Order
import Snel.Lemmas.Rlte
/-!
# C10 — ORDER BY, LIMIT and OFFSET return the right slice in the right order

Property theorems only; the model is `Snel.Model.Order`, the lemmas `Snel.Lemmas.Order`.

Reading guide.

* `TPO cmp P` — `cmp` behaves as a total preorder on the values satisfying `P` (swap law and
  transitivity of `≠ gt`).
* `outLe asc cmp a b` — "a may come before b" in a result ordered by `cmp`, ascending or
  descending.  `Sorted le l` — `l.Pairwise le`.
* `orderedQuery pq shards limit offset` — the two-level execution: per shard the k-way merger
  over the shard's flows with offset 0 and limit `n+m`, then the same merger at the
  coordinator with offset `m`, limit `n`.  Rows are abstract (`α`): the sort key is whatever
  `cmp` looks at, so the statements speak about *rows*, which is stronger than "the multiset of
  keys".
* `pq` is the priority queue the merger uses.  The merger's own logic (heap entries, tie-break on
  the stream index, the skipped / emitted / limit counters, early stop) is modelled exactly; the
  queue is `std::collections::BinaryHeap`, a library, and enters through its contract
  `PQ.Correct` ("`pop` returns a greatest entry").  `selPQ` (selection from a list) is proved to
  satisfy the contract, so the theorems are not vacuous; `heapPQ`, the array heap as std
  implements it, is what the correspondence stream runs against the real merger.
-/
namespace Snel.Props.C10
open Snel.Order Snel.Rlte

variable {α : Type}

/-- **Main theorem.**  If `cmp` is a total preorder on the rows present then, for every split of
the rows into shards and flows, every way the flows are sorted (`srt`: any function returning
a sorted permutation; the code uses `sort_unstable_by`), every per-flow cut `kflow ≥ n + m` (the
code defers the cut, i.e. `kflow = ∞`), every `n`, `m`, ascending and descending: the response is
exactly rows `m .. m+n` of a sorted arrangement `s` of *all* rows.  Ties are broken by the
choice of `s`; the output itself is sorted. -/
theorem C10_merge_topk (cmp : α → α → Ordering) (P : α → Prop) (h : TPO cmp P) (asc : Bool)
    (pq : PQ (Item α)) (hpq : pq.Correct (outLe asc cmp) P)
    (n m kflow : Nat) (hk : n + m ≤ kflow)
    (srt : List α → List α)
    (hsrt : ∀ l, (∀ x ∈ l, P x) → (srt l).Perm l ∧ Sorted (outLe asc cmp) (srt l))
    (shards : List (List (List α))) (hP : ∀ flows ∈ shards, ∀ f ∈ flows, ∀ x ∈ f, P x) :
    ∃ s, s.Perm shards.flatten.flatten ∧ Sorted (outLe asc cmp) s ∧
      orderedQuery pq (shards.map fun flows => flows.map fun f => (srt f).take kflow) (some n) (some m)
        = (s.drop m).take n :=
  orderedQuery_limit (h.leOn asc) hpq n m kflow hk srt hsrt shards hP (some m) rfl

/-- LIMIT without OFFSET. -/
theorem C10_merge_limit_only (cmp : α → α → Ordering) (P : α → Prop) (h : TPO cmp P) (asc : Bool)
    (pq : PQ (Item α)) (hpq : pq.Correct (outLe asc cmp) P)
    (n kflow : Nat) (hk : n ≤ kflow)
    (srt : List α → List α)
    (hsrt : ∀ l, (∀ x ∈ l, P x) → (srt l).Perm l ∧ Sorted (outLe asc cmp) (srt l))
    (shards : List (List (List α))) (hP : ∀ flows ∈ shards, ∀ f ∈ flows, ∀ x ∈ f, P x) :
    ∃ s, s.Perm shards.flatten.flatten ∧ Sorted (outLe asc cmp) s ∧
      orderedQuery pq (shards.map fun flows => flows.map fun f => (srt f).take kflow) (some n) none
        = s.take n := by
  obtain ⟨s, h1, h2, h3⟩ := orderedQuery_limit (h.leOn asc) hpq n 0 kflow (by omega) srt hsrt shards hP none rfl
  exact ⟨s, h1, h2, by simpa using h3⟩

/-- ORDER BY without LIMIT: every row, sorted. -/
theorem C10_merge_all (cmp : α → α → Ordering) (P : α → Prop) (h : TPO cmp P) (asc : Bool)
    (pq : PQ (Item α)) (hpq : pq.Correct (outLe asc cmp) P)
    (srt : List α → List α)
    (hsrt : ∀ l, (∀ x ∈ l, P x) → (srt l).Perm l ∧ Sorted (outLe asc cmp) (srt l))
    (shards : List (List (List α))) (hP : ∀ flows ∈ shards, ∀ f ∈ flows, ∀ x ∈ f, P x) :
    (orderedQuery pq (shards.map fun flows => flows.map srt) none none).Perm shards.flatten.flatten ∧
      Sorted (outLe asc cmp) (orderedQuery pq (shards.map fun flows => flows.map srt) none none) :=
  orderedQuery_nolimit (h.leOn asc) hpq srt hsrt shards hP

/-- **Memtable tier of an ordered query.**  With ORDER BY the memtable source defers the limit
(`lim = none`): its output is a sorted arrangement of ALL matching rows of the active memtable and
of every passive memtable, whatever their sizes — in particular the passive memtables are read
even when the active one alone already holds `LIMIT + OFFSET` matching rows.  It is therefore a flow
in the sense of `C10_merge_topk` (`srt` = this sort, per-flow cut = none), and the first `k` rows
any consumer takes from it are the first `k` of the sorted union. -/
theorem C10_memtable_source_topk (cmp : α → α → Ordering) (P : α → Prop) (h : TPO cmp P) (asc : Bool)
    (active : List α) (passives : List (List α)) (hP : ∀ x ∈ active ++ passives.flatten, P x) (k : Nat) :
    (memtableSourceOrdered (outLe asc cmp) none active passives).Perm (active ++ passives.flatten) ∧
    Sorted (outLe asc cmp) (memtableSourceOrdered (outLe asc cmp) none active passives) ∧
    (memtableSourceOrdered (outLe asc cmp) none active passives).take k
      = (isort (outLe asc cmp) (active ++ passives.flatten)).take k := by
  simp only [memtableSourceOrdered, takeOpt]
  exact ⟨isort_perm _ _, isort_sorted (h.leOn asc) _ hP, trivial⟩

/-- Non-vacuity: the active memtable alone holds LIMIT+OFFSET = 2 rows, yet the page starts with
the passive rows that sort first. -/
example : (memtableSourceOrdered (outLe true fun (a b : Int) => compare a b) none [5, 7, 9] [[1, 8], [6]]).take 2 = [1, 5] := by
  decide

/-- The queue contract is satisfiable: selecting the greatest entry under `HeapItem::cmp` from
an unordered list satisfies it whenever `cmp` is a total preorder. -/
theorem C10_pq_contract_satisfiable (cmp : α → α → Ordering) (P : α → Prop) (h : TPO cmp P) (asc : Bool) :
    (selPQ (itemCmp asc cmp)).Correct (outLe asc cmp) P :=
  selPQ_correct h asc

/-- Non-vacuity of `C10_merge_topk`: integer keys, three shards with one to two flows, the
selection queue, the reference insertion sort, LIMIT 3 OFFSET 2, descending. -/
example :
    orderedQuery (selPQ (itemCmp false (fun (a b : Int) => compare a b)))
      ([[[5, 1, 9], [7]], [[2, 8]], [[3], [6, 4]]].map fun flows =>
        flows.map fun f => (isort (outLe false fun (a b : Int) => compare a b) f).take 5) (some 3) (some 2)
      = [7, 6, 5] := by decide

/-- The array heap (std's algorithm) gives the same answer on the same input. -/
example :
    orderedQuery (heapPQ (itemCmp false (fun (a b : Int) => compare a b)))
      ([[[5, 1, 9], [7]], [[2, 8]], [[3], [6, 4]]].map fun flows =>
        flows.map fun f => (isort (outLe false fun (a b : Int) => compare a b) f).take 5) (some 3) (some 2)
      = [7, 6, 5] := by decide

/-- `ScalarValue::compare` is a total preorder on every homogeneous typed column, missing keys
(Null) included: i64 integers, timestamps, floats without NaN, booleans, and strings that none
of the numeric / boolean conversions accepts. -/
theorem C10_compare_preorder (c : ColKind) : TPO SV.compare (InCol c) :=
  compare_tpo_col c

/-- The merger's wrapper `compare_scalar_values` ("try u64 first") is the same function. -/
theorem C10_compare_wrapper (a b : SV) : SV.compareScalarValues a b = SV.compare a b := by
  unfold SV.compareScalarValues SV.compare
  cases a.asU64 <;> cases b.asU64 <;> rfl

/-- **u64 sort keys are ordered as natural numbers, over the full range.**  A u64 field reaches
the comparators as `Int64` (up to `i64::MAX`) or as `Utf8(decimal digits)` (above: there is no
Int64 form, `ScalarValue::from(json)` and the segment reader both produce the string).  For any
two values that read as u64 the comparison used by every sort and every merger
(`compare_scalar_values`, equal to `compare` by `C10_compare_wrapper`) is `Nat` order of the
readings — in particular NOT the text order of the digit strings — and it is a total preorder
on such a column, so `C10_merge_topk` applies to u64 columns with no bound on the values. -/
theorem C10_u64_order_is_numeric (a b : SV) (x y : Nat) (ha : a.asU64 = some x) (hb : b.asU64 = some y) :
    SV.compareScalarValues a b = compare x y ∧ SV.compare a b = compare x y := by
  rw [C10_compare_wrapper]
  exact ⟨compare_of_asU64 a b x y ha hb, compare_of_asU64 a b x y ha hb⟩

theorem C10_compare_preorder_u64 : TPO SV.compare (fun v => ∃ u, v.asU64 = some u) :=
  compare_tpo_u64

/-- Non-vacuity, and why text order is not an implementation of it: 10^19 against 2^63 (both
above i64::MAX, 20 and 19 digits) compare Greater as u64 keys, while their digit strings compare
Less bytewise; a small Int64 key against a 20-digit key goes through the same branch. -/
example :
    SV.compare (.utf8 [49,48,48,48,48,48,48,48,48,48,48,48,48,48,48,48,48,48,48,48])
               (.utf8 [57,50,50,51,51,55,50,48,51,54,56,53,52,55,55,53,56,48,56]) = .gt ∧
    cmpBytes [49,48,48,48,48,48,48,48,48,48,48,48,48,48,48,48,48,48,48,48]
             [57,50,50,51,51,55,50,48,51,54,56,53,52,55,55,53,56,48,56] = .lt ∧
    SV.compare (.int 17) (.utf8 [49,48,48,48,48,48,48,48,48,48,48,48,48,48,48,48,48,48,48,48]) = .lt := by
  decide

/-- Non-vacuity: a column with a missing key, negative and positive integers. -/
example : InCol .int .null ∧ InCol .int (.int (-3)) ∧ InCol .int (.int 7) ∧
    SV.compare (.int (-3)) (.int 7) = .lt ∧ SV.compare .null (.int (-3)) = .lt := by
  refine ⟨Or.inl rfl, Or.inr ⟨-3, rfl, by unfold InI64; omega⟩, Or.inr ⟨7, rfl, by unfold InI64; omega⟩, by decide, by decide⟩

/-- The full statement "compare is a total preorder on the values of a string column" is FALSE
of the code: strings that look like numbers are compared as numbers, all others bytewise, and
the two orders contradict each other: "9" < "10" (as numbers), "10" < "1a" (bytes), yet
"9" > "1a" (bytes). -/
theorem C10_compare_preorder_fails : ¬ TPO SV.compare (fun v => ∃ s, v = SV.utf8 s) := by
  intro h
  exact h.trans (.utf8 [57]) (.utf8 [49, 48]) (.utf8 [49, 97]) ⟨_, rfl⟩ ⟨_, rfl⟩ ⟨_, rfl⟩
    (by decide) (by decide) (by decide)

/-- A second departure: an integer above 2^53 and a float are compared after rounding the
integer to f64, two integers exactly — 2^53+1 = 2^53 (as floats) = 2^53 yet 2^53+1 > 2^53. A
float field that received integral JSON numbers holds both variants in the memtable. -/
theorem C10_compare_int_float_fails :
    ¬ TPO SV.compare (fun v => (∃ i, v = SV.int i ∧ InI64 i) ∨ ∃ f, v = SV.float f ∧ fIsNaN f = false) := by
  intro h
  exact h.trans (.int (2 ^ 53 + 1)) (.float 0x4340000000000000) (.int (2 ^ 53))
    (Or.inl ⟨_, rfl, by unfold InI64; omega⟩) (Or.inr ⟨_, rfl, by decide⟩) (Or.inl ⟨_, rfl, by unfold InI64; omega⟩)
    (by decide) (by decide) (by decide)

/-- NaN compares Equal to everything (`partial_cmp(..).unwrap_or(Equal)`), which breaks
transitivity: 1.0 = NaN = 2.0 but 1.0 < 2.0. (JSON cannot carry NaN; stated for completeness of
the float hypothesis in `C10_compare_preorder`.) -/
theorem C10_compare_nan_fails : ¬ TPO SV.compare (fun v => ∃ f, v = SV.float f) := by
  intro h
  exact h.trans (.float 0x4000000000000000) (.float 0x7FF8000000000000) (.float 0x3FF0000000000000)
    ⟨_, rfl⟩ ⟨_, rfl⟩ ⟨_, rfl⟩ (by decide) (by decide) (by decide)

/-! ## RLTE zone pre-selection (`plan_with_rlte`) -/

/-- The sizing of the pre-selection: `k = FACTOR · (LIMIT + OFFSET)` with `FACTOR = 10` as read
from `rlte_planner.rs` by `tools/consts/C10.py`, and no plan at all when that is 0. -/
theorem C10_rlte_sizing (limit offset : Option Nat) (zones : List Zone) (asc : Bool) (zs : Nat)
    (wb : Option (WhereKind × Nat)) :
    rlteK limit offset = 10 * (limit.getD 0 + offset.getD 0) ∧
    (limit.getD 0 + offset.getD 0 = 0 → planWithRlte zones asc limit offset zs wb = none) := by
  refine ⟨rfl, fun h => ?_⟩
  simp [planWithRlte, rlteK, h]

/-- The full statement "the pre-selected zones hold the rows at positions m..m+n" (`RlteKeeps`)
is FALSE of the code.  Five zones of two rows, `ORDER BY v ASC LIMIT 1`: the numeric greedy
accumulates only 1 per mixed zone and cannot reach k = 10, the string fallback reaches it at the
fifth zone, takes that zone's *maximum* as cutoff and drops every zone whose maximum lies above it
— including the zone {1, 100} that holds the smallest row.  (Known finding
C10-rlte-preselection-drops-zones; replayed on the real planner by the `rlte` stream.) -/
theorem C10_rlte_keeps_fails : ¬ RlteKeeps witness true 1 0 2 := by
  unfold RlteKeeps
  decide

/-- PARTIAL: what does hold.  If every zone's ladder is a single numeric entry (one row per
zone, i.e. `event_per_zone = 1`, integer / timestamp field), there is no WHERE bound on the field
and a plan is produced, then the kept zones are exactly the zones at or before a cutoff `t` in the
requested direction, and they number at least `10·(LIMIT+OFFSET) / zoneSize`.  Hence every zone
that is not kept is preceded by at least that many kept rows: with `zoneSize ≤ 10` none of the
first `LIMIT+OFFSET` rows is lost.  Missing for the full statement: zones with more than one row
(the ladder minimum is not the zone minimum; the string fallback prunes on the zone maximum),
strings, and any WHERE clause (rows that fail it still count towards k). -/
theorem C10_rlte_keeps_partial (zones : List Zone) (h : ∀ z ∈ zones, SingleNumeric z) (asc : Bool)
    (limit offset : Option Nat) (zs : Nat) (hzs : 0 < zs) (p : Plan)
    (hp : planWithRlte zones asc limit offset zs none = some p) :
    ∃ t, p.kept = zones.filter (fun z => before asc (zval z) t) ∧
      rlteK limit offset ≤ p.kept.length * zs :=
  plan_single_sound zones h asc limit offset zs hzs p hp

/-- Non-vacuity: 25 single-row zones with values 1..25, `ORDER BY v ASC LIMIT 1 OFFSET 1`
(k = 20): a plan exists and keeps exactly the 20 zones with the smallest values. -/
example :
    (planWithRlte ((List.range 25).map fun i => ⟨0, 1, i, [enc (i + 1)]⟩) true (some 1) (some 1) 1 none).map
      (fun p => p.kept.map (·.zone)) = some (List.range 20) := by decide

/-- `try_accept_row` over a whole response (unordered queries): the rows emitted are
`take n (drop m (dedupById rows))`, for every arrival order `rows`, every optional LIMIT and
OFFSET. Rows whose event id does not read as u64 are never treated as duplicates. -/
theorem C10_accept_row {β : Type} (limit offset : Option Nat) (rows : List (Option Nat × β)) :
    acceptRows limit offset {} rows = takeOpt limit ((dedupById [] rows).drop (offset.getD 0)) :=
  acceptRows_spec limit offset rows

example : acceptRows (some 2) (some 1) {} [(some 1, "a"), (some 1, "a'"), (some 2, "b"), (none, "c"), (some 3, "d")]
    = [(some 2, "b"), (none, "c")] := by decide

/-- **Response-writer stage under duplicated input.**  The writer dedupes by event id, THEN
counts OFFSET, THEN LIMIT.  Consequently, for ANY incoming sequence of rows — the same event id
may arrive any number of times and anywhere, as happens while a shard is inside its flush window
(segment published, passive buffer not yet cleared) — the page of `LIMIT n OFFSET m` has pairwise
different ids, consists of rows that arrived, and holds exactly `min n (d - m)` rows
(= `min(n, max(0, d-m))`), where `d` is the number of distinct ids that arrived. -/
theorem C10_accept_page {β : Type} (n m : Nat) (rows : List (Nat × β))
    (dist : List Nat) (hdn : dist.Nodup) (hdist : ∀ i, i ∈ dist ↔ ∃ r ∈ rows, r.1 = i) :
    let out := acceptRows (some n) (some m) {} (rows.map fun r => ((some r.1 : Option Nat), r.2))
    (out.map (·.1)).Nodup ∧
    (∀ r ∈ out, ∃ x ∈ rows, r = (some x.1, x.2)) ∧
    out.length = min n (dist.length - m) :=
  accept_page n m rows dist hdn hdist

/-- The order of the three steps matters: counting OFFSET on the raw sequence before dropping
duplicates gives a different page as soon as an id repeats (ids 1 2 1 2, LIMIT 5 OFFSET 2: the
writer returns nothing — two distinct events, both skipped — whereas offset-first returns both). -/
theorem C10_offset_before_dedup_differs :
    acceptRows (some 5) (some 2) {} [(some 1, "a"), (some 2, "b"), (some 1, "a"), (some 2, "b")] = [] ∧
    offsetFirst 5 2 [(some 1, "a"), (some 2, "b"), (some 1, "a"), (some 2, "b")] ≠ [] := by
  constructor <;> decide

/-- Unordered LIMIT n OFFSET m (no ORDER BY): every flow (memtable tier / segment tier of every
shard) delivers at most `n+m` matching rows, no event twice within one flow; the coordinator
forwards them in ANY arrival order (`arrived` is any permutation); the response writer dedups by
event id, skips `m`, emits `n`.  The response holds exactly `min n (d - m)` rows, `d` = number of
distinct matching events — for `m = 0`: `min n (number of matches)` — all of them matching rows,
no event twice (even if the same event is visible in two flows). -/
theorem C10_unordered_limit {β : Type} (n m : Nat) (flows : List (List (Nat × β)))
    (hnd : ∀ f ∈ flows, (f.map (·.1)).Nodup)
    (arrived : List (Nat × β)) (harr : arrived.Perm (flows.map (·.take (n + m))).flatten)
    (dist : List Nat) (hdn : dist.Nodup) (hdist : ∀ i, i ∈ dist ↔ ∃ r ∈ flows.flatten, r.1 = i) :
    let out := acceptRows (some n) (some m) {} (arrived.map fun r => ((some r.1 : Option Nat), r.2))
    (out.map (·.1)).Nodup ∧
    (∀ r ∈ out, ∃ x ∈ flows.flatten, r = (some x.1, x.2)) ∧
    out.length = min n (dist.length - m) :=
  unordered_limit n m flows hnd arrived harr dist hdn hdist

/-- Non-vacuity: event 2 is visible in both flows; LIMIT 2 OFFSET 1 over 3 distinct events. -/
example :
    (acceptRows (some 2) (some 1) {}
      (([(2, "b"), (1, "a"), (2, "b"), (3, "c")] : List (Nat × String)).map fun r => ((some r.1 : Option Nat), r.2))).length
      = min 2 (3 - 1) := by decide

/-- OFFSET without LIMIT is rejected, whatever else the query says; with LIMIT (or with
neither) the query runs, and the response writer gets `(limit, offset)` exactly when the query
is neither ordered nor a sequence query (otherwise the merger has applied them already). -/
theorem C10_offset_requires_limit (ordered sequence : Bool) (limit offset : Option Nat) :
    (handlerLimits ordered sequence limit offset = .badRequestOffsetNeedsLimit ↔
      (offset.isSome ∧ limit.isNone)) ∧
    (¬ (offset.isSome ∧ limit.isNone) →
      handlerLimits ordered sequence limit offset =
        if ordered || sequence then .run none none else .run limit offset) := by
  cases ordered <;> cases sequence <;> cases limit <;> cases offset <;> simp [handlerLimits]

end Snel.Props.C10
