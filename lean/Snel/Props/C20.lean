import Snel.Lemmas.Response
/-!
# C20 — every response encoding carries the same rows and values

Property theorems only. Model: `Snel.Model.Response` (tied to the Rust renderers and the two
streaming writers by the `table`, `table_rows` and `errors` correspondence streams and by the
generated type table `Snel.Gen.C20`); helper lemmas: `Snel.Lemmas.Response`.

All theorems quantify over every schema, every list of batches (any number, any sizes,
including empty ones), every LIMIT / OFFSET setting, both writers (QUERY and SHOW with any
number of materialised frames), both JSON frame modes, and every behaviour of the external
library functions (`Ext`).
-/
namespace Snel.Props.C20
open Snel.Response Snel.Gen.C20

/-- Every row has one cell per column (`ColumnBatch::new` enforces this). -/
def WellFormed (schema : Schema) (batches : List Batch) : Prop :=
  ∀ b ∈ batches, ∀ r ∈ b, r.length = schema.length

/-- Builders of a schema's columns. -/
def buildersOf (schema : Schema) : List Builder := schema.map fun c => builderOf c.logical

/-- Every cell's runtime type is the declared logical type of its column, floats are finite
and strings are not ones `to_json` re-parses (`conforms`). -/
def AllConform (ext : Ext) (schema : Schema) (batches : List Batch) : Prop :=
  ∀ b ∈ batches, ∀ r ∈ b, ∀ q ∈ List.zip (buildersOf schema) r, conforms ext q.1 q.2 = true

private theorem rows_as_pairs (ext : Ext) (cfg : Settings) (w : Writer) (bm : Bool) (schema : Schema)
    (batches : List Batch) :
    (writeJson ext cfg w bm schema batches).rows
        = (pairs ext (buildersOf schema) (select cfg w (idColOf schema) WState.init 0 batches).1).map Prod.fst
    ∧ (writeArrow ext cfg w schema batches).rows
        = (pairs ext (buildersOf schema) (select cfg w (idColOf schema) WState.init 0 batches).1).map Prod.snd := by
  constructor
  · simp only [writeJson, JStream.rows, jsonFrames_rows, pairs_fst]
  · simp only [writeArrow, AStream.rows, pairs_snd, buildersOf]

private theorem mem_pairs (ext : Ext) (bl : List Builder) (sel : List (Batch × List Row))
    (pr : List Cell × List Cell) (h : pr ∈ pairs ext bl sel) :
    ∃ p ∈ sel, ∃ r ∈ p.2, pr = (jsonRow ext r, arrowRow (encOf ext p) bl r) := by
  simp only [pairs, List.mem_flatMap, List.mem_map] at h
  obtain ⟨p, hp, r, hr, rfl⟩ := h
  exact ⟨p, hp, r, hr, rfl⟩

/-- **Same shape.** The JSON/text frames and the Arrow stream carry the schema's column names
in the schema's order, the same number of rows, and (for well-formed batches) every row has
one cell per column in both. -/
theorem C20_same_shape (ext : Ext) (cfg : Settings) (w : Writer) (bm : Bool) (schema : Schema)
    (batches : List Batch) :
    (writeJson ext cfg w bm schema batches).cols.map Prod.fst = schema.map Column.name
    ∧ (writeArrow ext cfg w schema batches).cols.map Prod.fst = schema.map Column.name
    ∧ (writeJson ext cfg w bm schema batches).rows.length
        = (writeArrow ext cfg w schema batches).rows.length
    ∧ (WellFormed schema batches →
        (∀ r ∈ (writeJson ext cfg w bm schema batches).rows, r.length = schema.length)
        ∧ (∀ r ∈ (writeArrow ext cfg w schema batches).rows, r.length = schema.length)) := by
  obtain ⟨hj, ha⟩ := rows_as_pairs ext cfg w bm schema batches
  refine ⟨by simp [writeJson, Function.comp_def], by simp [writeArrow, Function.comp_def], ?_, ?_⟩
  · rw [hj, ha]; simp
  · intro hwf
    have key : ∀ pr ∈ pairs ext (buildersOf schema)
        (select cfg w (idColOf schema) WState.init 0 batches).1,
        pr.1.length = schema.length ∧ pr.2.length = schema.length := by
      intro pr hpr
      obtain ⟨p, hp, r, hr, rfl⟩ := mem_pairs _ _ _ _ hpr
      obtain ⟨hb, hsub⟩ := select_subset cfg w (idColOf schema) batches _ _ p hp
      have hl := hwf p.1 hb r (hsub r hr)
      simp [jsonRow, arrowRow, buildersOf, hl]
    rw [hj, ha]
    constructor
    · intro r hr
      obtain ⟨pr, hpr, rfl⟩ := List.mem_map.mp hr
      exact (key pr hpr).1
    · intro r hr
      obtain ⟨pr, hpr, rfl⟩ := List.mem_map.mp hr
      exact (key pr hpr).2

/-- **Announced count.** The `row_count` of the end frame equals the number of rows carried by
the data frames, and the number of rows carried by the Arrow record batches — for every
batching of the input and every LIMIT / OFFSET (induction over batches and rows). -/
theorem C20_count_announced (ext : Ext) (cfg : Settings) (w : Writer) (bm : Bool) (schema : Schema)
    (batches : List Batch) :
    (writeJson ext cfg w bm schema batches).endCount
        = (writeJson ext cfg w bm schema batches).rows.length
    ∧ (writeJson ext cfg w bm schema batches).endCount
        = (writeArrow ext cfg w schema batches).rows.length := by
  obtain ⟨hj, ha⟩ := rows_as_pairs ext cfg w bm schema batches
  have he : (writeJson ext cfg w bm schema batches).endCount
      = selCount (select cfg w (idColOf schema) WState.init 0 batches).1 := by
    have := select_emitted cfg w (idColOf schema) batches WState.init 0
    simpa [writeJson, WState.init] using this
  have hl : (pairs ext (buildersOf schema)
      (select cfg w (idColOf schema) WState.init 0 batches).1).length
      = selCount (select cfg w (idColOf schema) WState.init 0 batches).1 := by
    have := congrArg List.length (pairs_fst ext (buildersOf schema)
      (select cfg w (idColOf schema) WState.init 0 batches).1)
    simpa [rowsOf_length] using this
  rw [hj, ha, he]; simp [hl]

/-- **Unix batch frame = JSON batch frame.** For every row list the batch frame of the
line-oriented renderer decodes to the same cell list as the JSON renderer's batch frame. -/
theorem C20_unix_batch_eq_json_batch (ext : Ext) (rows : List Row) :
    unixBatchFrame ext rows = jsonBatchFrame ext rows := rfl

/-- **The JSON-family encodings agree.** JSON batch frame, JSON row frames, Unix batch frame,
Unix row frames and the three buffered table renderings decode every row list to the same
cell lists (all cells, including re-parsed strings and non-finite floats). -/
theorem C20_json_family_agree (ext : Ext) (schema : Schema) (rows : List Row) (count : Nat) :
    unixBatchFrame ext rows = jsonBatchFrame ext rows
    ∧ rows.map (jsonRowFrame ext) = jsonBatchFrame ext rows
    ∧ rows.map (unixRowFrame ext) = jsonBatchFrame ext rows
    ∧ (renderTableJson ext schema rows count).rows = jsonBatchFrame ext rows
    ∧ (renderTableUnix ext schema rows count).rows = jsonBatchFrame ext rows
    ∧ (renderTableArrow ext schema rows count).rows = jsonBatchFrame ext rows
    ∧ (renderTableJson ext schema rows count).cols = (renderTableUnix ext schema rows count).cols
    ∧ (renderTableJson ext schema rows count).cols = (renderTableArrow ext schema rows count).cols :=
  ⟨rfl, rfl, rfl, rfl, rfl, rfl, rfl, rfl⟩

/-- **Text frames = JSON frames.** The stream the writer produces with the line-oriented
renderer decodes to exactly the stream it produces with the JSON renderer (schema, every
frame, announced count), for both writers, both frame modes, every batching and
LIMIT/OFFSET. All theorems below about `writeJson` therefore hold for the text frames. -/
theorem C20_text_frames_eq_json_frames (ext : Ext) (cfg : Settings) (w : Writer) (bm : Bool)
    (schema : Schema) (batches : List Batch) :
    writeUnix ext cfg w bm schema batches = writeJson ext cfg w bm schema batches := rfl

/-- The directly rendered frames of the emitted rows are the rows of the writer's stream. -/
theorem C20_emitted_rows_are_stream_rows (ext : Ext) (cfg : Settings) (w : Writer) (bm : Bool)
    (schema : Schema) (batches : List Batch) :
    jsonBatchFrame ext (emittedRows cfg w schema batches)
      = (writeJson ext cfg w bm schema batches).rows := by
  simp only [writeJson, JStream.rows, jsonFrames_rows, jsonBatchFrame, emittedRows, rowsOf]

/-- **Rows refine the specification.** For the query writer (QUERY, REPLAY, COMPARE) the rows
carried by the JSON/text frames are: first occurrence per event id, then OFFSET, then LIMIT of
the concatenated input — for every way of cutting the input into batches, in both frame
modes. -/
theorem C20_rows_refine_spec (ext : Ext) (cfg : Settings) (bm : Bool) (schema : Schema)
    (batches : List Batch) :
    (writeJson ext cfg .query bm schema batches).rows
      = (specRows cfg (idColOf schema) batches.flatten).map (jsonRow ext) := by
  have h := select_query_flat cfg (idColOf schema) batches WState.init 0 rfl
  have h2 := scan_full_spec cfg (idColOf schema) batches.flatten WState.init rfl
  simp only [writeJson, JStream.rows, jsonFrames_rows, specRows]
  rw [h, h2]
  simp [WState.init]

/-- Hence batch sizes do not matter for the rows and the announced count (query writer). -/
theorem C20_batching_irrelevant (ext : Ext) (cfg : Settings) (bm bm' : Bool) (schema : Schema)
    (b₁ b₂ : List Batch) (h : b₁.flatten = b₂.flatten) :
    (writeJson ext cfg .query bm schema b₁).rows = (writeJson ext cfg .query bm' schema b₂).rows
    ∧ (writeJson ext cfg .query bm schema b₁).endCount = (writeJson ext cfg .query bm' schema b₂).endCount := by
  have hr : (writeJson ext cfg .query bm schema b₁).rows = (writeJson ext cfg .query bm' schema b₂).rows := by
    rw [C20_rows_refine_spec, C20_rows_refine_spec, h]
  refine ⟨hr, ?_⟩
  rw [(C20_count_announced ext cfg .query bm schema b₁).1, (C20_count_announced ext cfg .query bm' schema b₂).1, hr]

/-- The announced count never exceeds LIMIT (both writers). -/
theorem C20_limit_respected (ext : Ext) (cfg : Settings) (w : Writer) (bm : Bool) (schema : Schema)
    (batches : List Batch) (l : Nat) (hl : cfg.limit = some l) :
    (writeJson ext cfg w bm schema batches).endCount ≤ l := by
  have := select_le_limit cfg w (idColOf schema) l hl batches WState.init 0 (Nat.zero_le _)
  simpa [writeJson] using this

/-- **Same cells, partial.** If every cell's runtime type is the declared logical type of its
column, floats are finite and no string is one that `to_json` re-parses, then every cell of
the JSON/text frames equals the corresponding Arrow cell (numbers numerically, nulls as nulls,
strings bytewise) — whichever of the two Arrow encoders a batch went through.
PARTIAL w.r.t. the property text, which also quantifies over mixed runtime types, non-finite
floats, out-of-range integers and numeric-looking strings: see the `_fails` theorems. -/
theorem C20_same_cells_partial (ext : Ext) (cfg : Settings) (w : Writer) (bm : Bool)
    (schema : Schema) (batches : List Batch) (h : AllConform ext schema batches) :
    ∀ p ∈ List.zip (writeJson ext cfg w bm schema batches).rows
                    (writeArrow ext cfg w schema batches).rows,
      ∀ q ∈ List.zip p.1 p.2, cellEq q.1 q.2 = true := by
  obtain ⟨hj, ha⟩ := rows_as_pairs ext cfg w bm schema batches
  rw [hj, ha, zip_map_fst_snd]
  intro pr hpr q hq
  obtain ⟨p, hp, r, hr, rfl⟩ := mem_pairs _ _ _ _ hpr
  obtain ⟨hb, hsub⟩ := select_subset cfg w (idColOf schema) batches _ _ p hp
  obtain ⟨b, v, hbv, rfl⟩ := mem_zip_cells ext _ _ _ _ hq
  have hc := h p.1 hb r (hsub r hr) (b, v) hbv
  unfold encOf
  split
  · exact conforms_whole ext b v hc
  · exact conforms_indexed ext b v hc

/-- Under the same hypothesis the JSON/text cell is the cell's own logical value. -/
def logical : Scalar → Cell
  | .null => .null
  | .bool b => .bool b
  | .int i => .int i
  | .float x => .float x
  | .ts t => .int t
  | .utf8 s => .str s
  | .binary b => .str (base64 b)

theorem C20_json_cells_faithful_partial (ext : Ext) (b : Builder) (v : Scalar)
    (h : conforms ext b v = true) : toJson ext v = logical v := by
  cases b <;> cases v <;> simp [conforms] at h <;> simp_all [toJson, logical]

/-! ### The full statement is false of the code as modelled: witnesses -/

/-- External functions answering "no" everywhere (enough for the witnesses below). -/
def ext0 : Ext := ⟨fun _ => none, fun _ => [], fun _ => none⟩

def colV (ty : Bytes) : Schema := [⟨[118], ty⟩]
def tyInteger : Bytes := [73, 110, 116, 101, 103, 101, 114]
def tyFloat : Bytes := [70, 108, 111, 97, 116]
def tyString : Bytes := [83, 116, 114, 105, 110, 103]
def noLimit : Settings := ⟨none, none⟩

/-- The full statement (all well-formed tables) is false: a numeric-looking string in an
`Integer` column is the string `"5"` in JSON/text and the number 5 in Arrow. -/
theorem C20_same_cells_fails :
    ¬ (∀ (ext : Ext) (cfg : Settings) (w : Writer) (bm : Bool) (schema : Schema) (batches : List Batch),
        WellFormed schema batches →
        ∀ p ∈ List.zip (writeJson ext cfg w bm schema batches).rows
                        (writeArrow ext cfg w schema batches).rows,
          ∀ q ∈ List.zip p.1 p.2, cellEq q.1 q.2 = true) := by
  intro hall
  have := hall ext0 noLimit .query true (colV tyInteger) [[[.utf8 [53]]]]
    (by intro b hb r hr; simp at hb; subst hb; simp at hr; subst hr; rfl)
    ([.str [53]], [.int 5]) (by decide) (.str [53], .int 5) (by decide)
  exact absurd this (by decide)

/-- Numeric-looking string: JSON/text `"5"`, Arrow `5` (whole-batch encoder). -/
theorem C20_same_cells_numeric_string_fails :
    (writeJson ext0 noLimit .query true (colV tyInteger) [[[.utf8 [53]]]]).rows = [[.str [53]]]
    ∧ (writeArrow ext0 noLimit .query (colV tyInteger) [[[.utf8 [53]]]]).rows = [[.int 5]] := by
  decide

/-- Mixed runtime type: an integer cell in a `Float` column is `7` in JSON/text and null in
Arrow (whole-batch encoder). -/
theorem C20_same_cells_mixed_type_fails :
    (writeJson ext0 noLimit .query true (colV tyFloat) [[[.int 7]]]).rows = [[.int 7]]
    ∧ (writeArrow ext0 noLimit .query (colV tyFloat) [[[.int 7]]]).rows = [[.null]] := by
  decide

/-- Non-finite float (here +∞, bits 0x7ff0…0): null in JSON/text, the float in Arrow. -/
theorem C20_same_cells_nonfinite_fails :
    (writeJson ext0 noLimit .query true (colV tyFloat) [[[.float 0x7ff0000000000000]]]).rows = [[.null]]
    ∧ (writeArrow ext0 noLimit .query (colV tyFloat) [[[.float 0x7ff0000000000000]]]).rows
        = [[.float 0x7ff0000000000000]] := by
  decide

/-- Integer beyond the Arrow builder's range: u64::MAX (held as the decimal string, which is
how `ScalarValue::from` stores integers above i64::MAX) is the number 18446744073709551615 in
JSON/text and null in an `Integer` Arrow column. -/
theorem C20_same_cells_out_of_range_fails :
    (writeJson ext0 noLimit .query true (colV tyInteger)
        [[[.utf8 [49,56,52,52,54,55,52,52,48,55,51,55,48,57,53,53,49,54,49,53]]]]).rows
      = [[.int 18446744073709551615]]
    ∧ (writeArrow ext0 noLimit .query (colV tyInteger)
        [[[.utf8 [49,56,52,52,54,55,52,52,48,55,51,55,48,57,53,53,49,54,49,53]]]]).rows = [[.null]] := by
  decide

/-- A string that is JSON text of an array is an array in JSON/text and the string in Arrow
(`ext1`: the JSON parser recognises `[1]`). -/
def ext1 : Ext := ⟨fun _ => none, fun _ => [], fun s => if s = [91, 49, 93] then some [91, 49, 93] else none⟩

theorem C20_same_cells_reparsed_fails :
    (writeJson ext1 noLimit .query true (colV tyString) [[[.utf8 [91, 49, 93]]]]).rows = [[.json [91, 49, 93]]]
    ∧ (writeArrow ext1 noLimit .query (colV tyString) [[[.utf8 [91, 49, 93]]]]).rows = [[.str [91, 49, 93]]] := by
  decide

/-- The Arrow encoding of a cell depends on whether *another* row of its batch was dropped:
the same row `"5"` (Integer column) is `5` when its batch is emitted whole and null when a
LIMIT cuts the batch after it. JSON/text is `"5"` both times. -/
theorem C20_arrow_path_dependent_fails :
    (writeArrow ext0 noLimit .query (colV tyInteger) [[[.utf8 [53]], [.int 1]]]).rows = [[.int 5], [.int 1]]
    ∧ (writeArrow ext0 ⟨some 1, none⟩ .query (colV tyInteger) [[[.utf8 [53]], [.int 1]]]).rows = [[.null]]
    ∧ (writeJson ext0 ⟨some 1, none⟩ .query true (colV tyInteger) [[[.utf8 [53]], [.int 1]]]).rows = [[.str [53]]] := by
  decide

/-- An integer above 2^53 in a `Float` column on the row-index path is rounded: JSON/text
carries 9007199254740993, Arrow 9007199254740992.0. -/
theorem C20_same_cells_int_as_float_fails :
    (writeJson ext0 ⟨some 1, none⟩ .query true (colV tyFloat) [[[.int 9007199254740993], [.null]]]).rows
      = [[.int 9007199254740993]]
    ∧ (writeArrow ext0 ⟨some 1, none⟩ .query (colV tyFloat) [[[.int 9007199254740993], [.null]]]).rows
      = [[.float 0x4340000000000000]]
    ∧ cellEq (.int 9007199254740993) (.float 0x4340000000000000) = false := by
  decide

/-! ### Error responses -/

/-- **Error codes agree.** For every status code of `StatusCode` and every message, a reader
finds the same code in the JSON body, the Arrow renderer's body and the first line of the
text rendering. -/
theorem C20_error_codes_agree (code : Nat) (hc : code ∈ statusCodes) (msg : Bytes) :
    bodyCode .json code msg = some code ∧ bodyCode .arrow code msg = some code
    ∧ bodyCode .unix code msg = some code := by
  refine ⟨rfl, rfl, ?_⟩
  simp only [statusCodes, List.mem_cons, List.mem_nil_iff, or_false] at hc
  rcases hc with rfl | rfl | rfl | rfl | rfl | rfl | rfl <;>
    simp [bodyCode, unixReadCode, unixErrorHeader, decNat, Nat.toDigits, Nat.toDigitsCore,
      Nat.digitChar, List.takeWhile, digitsVal, isDigit]

/-- The text rendering never starts with `{`, so the HTTP front end answers 200 for every
text-rendered error. -/
theorem C20_http_status_text_always_200 (code : Nat) (hc : code ∈ statusCodes) (msg : Bytes)
    (parsed : Option Nat) : httpStatus (errorBytes .unix code msg) parsed = 200 := by
  simp only [statusCodes, List.mem_cons, List.mem_nil_iff, or_false] at hc
  rcases hc with rfl | rfl | rfl | rfl | rfl | rfl | rfl <;>
    simp [errorBytes, unixErrorHeader, decNat, Nat.toDigits, Nat.toDigitsCore, Nat.digitChar, httpStatus]

/-- For the JSON renderer the HTTP status is the response's code as long as the body is
shorter than 500 bytes. PARTIAL: for longer bodies only the first 200 bytes are parsed, which
fails, and the front end answers 200. -/
theorem C20_http_status_json_partial (code : Nat) (hc : code ∈ statusCodes) (msg : Bytes)
    (h : (errorBytes .json code msg).length < httpSmallLimit) :
    httpStatus (errorBytes .json code msg) (some code) = code := by
  have hk : code ∈ httpKnown := hc
  have e : errorBytes .json code msg
      = jsonErrHead ++ (decNat code ++ jsonErrMid ++ jsonString msg ++ jsonErrTail) := by
    simp [errorBytes, jsonErrorBytes, List.append_assoc]
  rw [e] at h ⊢
  have hw := hasStatus_json_head (decNat code ++ jsonErrMid ++ jsonString msg ++ jsonErrTail)
  have hh : (jsonErrHead ++ (decNat code ++ jsonErrMid ++ jsonString msg ++ jsonErrTail)).head?
      = some 123 := by simp [jsonErrHead]
  simp only [httpStatus, hh, hw, h, hk]
  simp

/-- Hence the HTTP status of an error response depends on the encoding: 400 with the JSON
renderer, 200 with the text renderer and with the Arrow renderer (whose body has `"status"`
beyond the first 50 bytes). -/
theorem C20_http_status_agree_fails :
    httpStatus (errorBytes .json 400 [100, 101, 110, 105, 101, 100, 33]) (some 400) = 400
    ∧ httpStatus (errorBytes .unix 400 [100, 101, 110, 105, 101, 100, 33]) (some 400) = 200
    ∧ httpStatus (errorBytes .arrow 400 [100, 101, 110, 105, 101, 100, 33]) (some 400) = 200 := by
  decide

/-! ### Non-vacuity -/

/-- A table with every builder, nulls, a duplicate event id, two batches, LIMIT and OFFSET meets
the hypotheses of `C20_same_cells_partial` and yields a non-trivial stream. -/
example :
    let schema : Schema := [⟨eventIdName, tyInteger⟩, ⟨[102], tyFloat⟩, ⟨[115], tyString⟩]
    let batches : List Batch :=
      [[[.int 1, .float 0x3ff8000000000000, .utf8 [97]], [.int 1, .null, .utf8 [98]]],
       [[.int 2, .float 0, .null], [.int 3, .float 0x4000000000000000, .utf8 [49, 50]]]]
    (∀ b ∈ batches, ∀ r ∈ b, ∀ q ∈ List.zip (buildersOf schema) r, conforms ext0 q.1 q.2 = true)
    ∧ (writeJson ext0 ⟨some 2, some 1⟩ .query true schema batches).endCount = 2
    ∧ (writeArrow ext0 ⟨some 2, some 1⟩ .query schema batches).rows.length = 2 := by
  decide

example : (400 : Nat) ∈ statusCodes := by decide

/-- The specification is not trivial: duplicate id dropped, OFFSET 1, LIMIT 2 over two batches. -/
example :
    specRows ⟨some 2, some 1⟩ (some 0) ([[[.int 1], [.int 1]], [[.int 2], [.int 3], [.int 4]]] : List Batch).flatten
      = [[.int 2], [.int 3]] := by
  decide

end Snel.Props.C20
