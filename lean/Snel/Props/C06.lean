import Snel.Lemmas.Validate
/-!
# C06 — STORE accepts exactly the payloads that conform to the defined schema

Property theorems only. Model: `Snel.Model.Validate` (the code, bug for bug, tied to the Rust by
the `store` / `define` / `alias` / `session` correspondence streams and by the generated alias
table and digit bands in `Snel.Gen.C06`). Declarative reading of the statement:
`Snel.Model.ValidateSpec` (`Conforms`, `HasType`, `IsTime`, with the choices the text leaves open
written down there). Helper lemmas: `Snel.Lemmas.Validate`.

Everything is quantified over *all* schemas (as lists: every `HashMap` iteration order), *all*
JSON payloads (serde_json's data model, any nesting), and *all* behaviours of the external
calendar parser (`lib : TimeLib`).
-/
namespace Snel.Props.C06
open Snel.Validate

/-! ## Payload admission = conformance -/

/-- Main theorem. For every schema DEFINE can produce (every alias, `T | null`, enums, time
types; any field names, any iteration order) and every JSON payload: the handler's admission
(`validate_payload` then `PayloadTimeNormalizer`) succeeds iff the payload conforms. -/
theorem C06_accept_iff (lib : TimeLib) (specs : List (String × FieldSpec)) (payload : Json) :
    accepts lib (schemaOfSpecs specs) payload ↔ Conforms lib (schemaOfSpecs specs) payload :=
  admit_ok_iff lib _ payload (schemaNoDeepTime_ofSpecs specs)

example : accepts ⟨fun _ => none⟩
    (schemaOfSpecs [("k", .prim "Int"), ("s", .prim "string | null"), ("t", .prim "datetime")])
    (.obj [("k", .num (.pos 7)), ("t", .str " 1700000000000 ")]) := by decide +kernel

/-- The same for schemas that hold `FieldType`s DEFINE cannot produce (a registry file written
by other means). PARTIAL: needs every time type to sit where the normaliser's one-level match
can see it — see `C06_accept_iff_anytype_fails`. -/
theorem C06_accept_iff_anytype_partial (lib : TimeLib) (schema : Schema) (payload : Json)
    (h : SchemaNoDeepTime schema) :
    accepts lib schema payload ↔ Conforms lib schema payload :=
  admit_ok_iff lib schema payload h

example : SchemaNoDeepTime [("e", .optional (.enum ["a"])), ("o", .optional (.optional .i64)), ("t", .optional .date)] := by
  intro f ty hm
  simp at hm
  rcases hm with ⟨_, rfl⟩ | ⟨_, rfl⟩ | ⟨_, rfl⟩ <;> simp [NoDeepTime, timeUnder, normalizesField]

/-- Over arbitrary `FieldType`s the statement is false of the code: under
`Optional(Optional(Timestamp))` an unparseable string passes `type_allows_value` and is never
shown to the time parser. Not reachable through DEFINE (`C06_define_shapes`). -/
theorem C06_accept_iff_anytype_fails :
    ∃ (lib : TimeLib) (schema : Schema) (payload : Json),
      accepts lib schema payload ∧ ¬ Conforms lib schema payload := by
  refine ⟨⟨fun _ => none⟩, [("t", .optional (.optional .timestamp))], .obj [("t", .str "x")], by decide +kernel, ?_⟩
  rintro ⟨kvs, hk, hf, _⟩
  cases hk
  have := hf "t" _ (List.mem_cons_self ..)
  simp [List.lookup, HasType, IsTime] at this
  obtain ⟨z, hz⟩ := this
  have : parseTimeStr ⟨fun _ => none⟩ "x" = none := by decide +kernel
  rw [this] at hz
  cases hz

/-- DEFINE produces exactly three shapes: a primitive, `Optional(primitive)`, an enum — never a
nested optional and never an optional enum. -/
theorem C06_define_shapes (spec : FieldSpec) :
    (∃ p, fieldOfSpec spec = primToField p) ∨ (∃ p, fieldOfSpec spec = .optional (primToField p)) ∨
      (∃ vs, fieldOfSpec spec = .enum vs) :=
  fieldOfSpec_shape spec

/-- Every spelling of the source's alias table resolves to its own row (no row shadows another),
alone, as `<alias> | null` and as `NULL|<alias>`. -/
theorem C06_alias_table_sound :
    ∀ a p, (a, p) ∈ Snel.Gen.C06.primAliases →
      fromSpecChars a.toList = some (primToField p) ∧
      fromSpecChars (a ++ " | null").toList = some (.optional (primToField p)) ∧
      fromSpecChars ("NULL|" ++ a).toList = some (.optional (primToField p)) := by
  have h : Snel.Gen.C06.primAliases.all (fun (a, p) =>
      fromSpecChars a.toList == some (primToField p) &&
      fromSpecChars (a ++ " | null").toList == some (.optional (primToField p)) &&
      fromSpecChars ("NULL|" ++ a).toList == some (.optional (primToField p))) = true := by
    decide +kernel
  intro a p hm
  have := List.all_eq_true.mp h (a, p) hm
  simp only [Bool.and_eq_true, beq_iff_eq] at this
  exact ⟨this.1.1, this.1.2, this.2⟩

/-- Alias lookup ignores ASCII letter case. -/
theorem C06_alias_case_insensitive (a b : List Char) (h : eqIgnoreAsciiCase a b = true) :
    fromPrimitiveChars a = fromPrimitiveChars b := by
  unfold eqIgnoreAsciiCase at h
  unfold fromPrimitiveChars
  rw [beq_iff_eq.mp h]

example : eqIgnoreAsciiCase "DateTime".toList "datetime".toList = true := by decide +kernel

/-- Spellings the statement does not mention, as the code resolves them: the first non-null
member of a union wins, anything unresolvable silently becomes `String`. -/
theorem C06_spec_fallbacks :
    fieldOfSpec (.prim "int | string") = .i64 ∧
    fieldOfSpec (.prim "string | int | null") = .optional .string ∧
    fieldOfSpec (.prim "null | null") = .string ∧
    fieldOfSpec (.prim "|int") = .string ∧
    fieldOfSpec (.prim "int|") = .i64 ∧
    fieldOfSpec (.prim "null") = .string ∧
    fieldOfSpec (.prim "integer64") = .string := by decide +kernel

/-- Acceptance does not depend on the order in which the schema's `HashMap` is iterated. -/
theorem C06_accept_order_irrelevant (lib : TimeLib) (s₁ s₂ : Schema) (payload : Json)
    (hperm : s₁.Perm s₂) (h : SchemaNoDeepTime s₁) :
    accepts lib s₁ payload ↔ accepts lib s₂ payload := by
  have h2 : SchemaNoDeepTime s₂ := fun f ty hm => h f ty (hperm.mem_iff.mpr hm)
  unfold accepts
  rw [admit_ok_iff lib s₁ payload h, admit_ok_iff lib s₂ payload h2]
  unfold Conforms
  constructor
  · rintro ⟨kvs, hk, hf, hx⟩
    exact ⟨kvs, hk, fun f ty hm => hf f ty (hperm.mem_iff.mpr hm),
      fun k v hm => (hx k v hm).imp fun ty h => hperm.mem_iff.mp h⟩
  · rintro ⟨kvs, hk, hf, hx⟩
    exact ⟨kvs, hk, fun f ty hm => hf f ty (hperm.mem_iff.mp hm),
      fun k v hm => (hx k v hm).imp fun ty h => hperm.mem_iff.mpr h⟩

/-- A conforming payload is flat: nothing reachable by key is an array or an object. -/
theorem C06_flat (lib : TimeLib) (schema : Schema) (kvs : List (String × Json))
    (h : Conforms lib schema (.obj kvs)) (k : String) (v : Json) (hl : kvs.lookup k = some v) :
    v.isScalar = true := by
  obtain ⟨kvs', hk, hf, hx⟩ := h
  cases hk
  obtain ⟨ty, hty⟩ := hx k v (mem_of_lookup hl)
  have := hf k ty hty
  rw [hl] at this
  exact hasType_scalar lib ty v this

/-! ## The handler's decision -/

/-- Decision logic of `store::handle`, stated outright: OK iff the type is not blank, the
context is not blank, a schema is registered under exactly that name, and the payload is
admitted. (Permission check: C13. Channel failures: not modelled.) -/
theorem C06_store_decision (lib : TimeLib) (st : St) (et ctx : String) (p : Json) :
    (store lib st et ctx p).1 = .ok () ↔
      blank et = false ∧ blank ctx = false ∧
        ∃ schema, st.schemas.lookup et = some schema ∧ accepts lib schema p :=
  store_ok_iff lib st et ctx p

/-- `s.trim().is_empty()` says: every character is Unicode white space. -/
theorem C06_blank_iff (s : String) : blank s = true ↔ ∀ c ∈ s.toList, isWs c = true := by
  unfold blank
  rw [List.isEmpty_iff]
  exact trimChars_nil_iff _

theorem C06_definable_empty : Definable St.empty := by
  intro et schema h; cases h

/-- `define` and `store` keep the registry DEFINE-shaped. -/
theorem C06_definable_define (st : St) (h : Definable st) (et : String)
    (specs : List (String × FieldSpec)) : Definable (define st et specs).2 := by
  unfold define
  split
  · exact h
  · split
    · exact h
    · rename_i hnone _
      intro et' schema hl
      dsimp only at hl
      rw [List.lookup_append] at hl
      cases hs : st.schemas.lookup et' with
      | some s =>
        rw [hs] at hl
        simp at hl
        subst hl
        exact h et' s hs
      | none =>
        rw [hs] at hl
        simp [List.lookup] at hl
        split at hl
        · cases hl
          exact schemaNoDeepTime_ofSpecs specs
        · cases hl

theorem C06_definable_store (lib : TimeLib) (st : St) (h : Definable st) (et ctx : String) (p : Json) :
    Definable (store lib st et ctx p).2 := by
  cases hr : (store lib st et ctx p).1 with
  | error e => rw [store_error_state lib st et ctx p e hr]; exact h
  | ok u =>
    obtain ⟨_, _, _, _, hs⟩ := store_ok_state lib st et ctx p hr
    rw [hs]
    exact h

/-- The statement's wording of the STORE clause, for identifiers as event types (what the
parser yields). PARTIAL: the literal "context id is non-empty" needs the context not to be
white-space-only — the handler (and again the memtable) test `trim().is_empty()`, so a context
id such as `" "` is rejected although it is not empty; see `C06_store_accept_iff_fails`. -/
theorem C06_store_accept_iff_partial (lib : TimeLib) (st : St) (hst : Definable st)
    (et ctx : String) (p : Json) (hty : blank et = false)
    (hctx : blank ctx = true → ctx = "") :
    (store lib st et ctx p).1 = .ok () ↔
      ∃ schema, st.schemas.lookup et = some schema ∧ ctx ≠ "" ∧ Conforms lib schema p := by
  rw [store_ok_iff]
  constructor
  · rintro ⟨_, hc, schema, hl, ha⟩
    refine ⟨schema, hl, ?_, (admit_ok_iff lib schema p (hst et schema hl)).mp ha⟩
    rintro rfl
    revert hc; decide
  · rintro ⟨schema, hl, hne, hc⟩
    refine ⟨hty, ?_, schema, hl, (admit_ok_iff lib schema p (hst et schema hl)).mpr hc⟩
    cases hb : blank ctx
    · rfl
    · exact absurd (hctx hb) hne

example : blank "ev" = false ∧ (blank "c 1" = true → "c 1" = "") := by decide +kernel

/-- The literal statement (defined ∧ context ≠ "" ∧ conforms ⇒ accepted) is false of the code:
context `" "` with a conforming payload for a defined type is answered "context_id cannot be
empty". Reproduced on the real handler by the `store` and `session` streams (class
`blank-context`). -/
theorem C06_store_accept_iff_fails :
    ∃ (lib : TimeLib) (st : St) (et ctx : String) (p : Json) (schema : Schema),
      Definable st ∧ st.schemas.lookup et = some schema ∧ ctx ≠ "" ∧ Conforms lib schema p ∧
        (store lib st et ctx p).1 ≠ .ok () := by
  refine ⟨⟨fun _ => none⟩, (define St.empty "ev" [("k", .prim "int")]).2, "ev", " ",
    .obj [("k", .num (.pos 1))], schemaOfSpecs [("k", .prim "int")],
    C06_definable_define _ C06_definable_empty _ _, by decide +kernel, by decide, ?_, by decide +kernel⟩
  rw [← admit_ok_iff _ _ _ (schemaNoDeepTime_ofSpecs _)]
  decide +kernel

/-- A rejected STORE changes nothing: registry and event log are the old ones … -/
theorem C06_reject_noop (lib : TimeLib) (st : St) (et ctx : String) (p : Json) (e : Err)
    (h : (store lib st et ctx p).1 = .error e) : (store lib st et ctx p).2 = st :=
  store_error_state lib st et ctx p e h

/-- … hence every later read (any function of the state, e.g. `query`) answers as before. -/
theorem C06_reject_invisible {α : Type} (read : St → α) (lib : TimeLib) (st : St)
    (et ctx : String) (p : Json) (e : Err) (h : (store lib st et ctx p).1 = .error e) :
    read (store lib st et ctx p).2 = read st := by
  rw [C06_reject_noop lib st et ctx p e h]

example : (store ⟨fun _ => none⟩ (define St.empty "ev" [("k", .prim "int")]).2 "ev" "c"
    (.obj [("k", .num (.flt 0x4008000000000000))])).1 = .error (.invalid (.mismatch "k")) := by decide +kernel

/-- An accepted STORE appends exactly one event carrying the given type and context; its
payload has the same keys in the same order; fields that are not time-typed are untouched;
every time-typed field is absent, `null`, or an `i64` integer. -/
theorem C06_accept_visible (lib : TimeLib) (st : St) (et ctx : String) (p : Json)
    (h : (store lib st et ctx p).1 = .ok ()) :
    ∃ schema kvs kvs', st.schemas.lookup et = some schema ∧ p = .obj kvs ∧
      (store lib st et ctx p).2 = { st with events := st.events ++ [⟨et, ctx, kvs'⟩] } ∧
      kvs'.map Prod.fst = kvs.map Prod.fst ∧
      (∀ f, (∀ ty, (f, ty) ∈ schema → normalizesField ty = false) → kvs'.lookup f = kvs.lookup f) ∧
      (∀ f ty, (f, ty) ∈ schema → normalizesField ty = true → TimeDone kvs' f) := by
  obtain ⟨schema, kvs', hl, ha, hs⟩ := store_ok_state lib st et ctx p h
  obtain ⟨kvs, hp, hn⟩ := admit_ok_shape lib schema p kvs' ha
  exact ⟨schema, kvs, kvs', hl, hp, hs, normalizeFields_keys lib schema kvs kvs' hn,
    normalizeFields_untouched lib schema kvs kvs' hn,
    fun f ty hm hnf => normalizeFields_done lib schema kvs kvs' hn f (Or.inr ⟨ty, hm, hnf⟩)⟩

/-- The accepted event is returned by the next read of its type and context. -/
theorem C06_accept_queryable (lib : TimeLib) (st : St) (et ctx : String) (p : Json)
    (h : (store lib st et ctx p).1 = .ok ()) :
    ∃ e, e ∈ query (store lib st et ctx p).2 et (some ctx) ∧ e.eventType = et ∧ e.contextId = ctx ∧
      (query (store lib st et ctx p).2 et (some ctx)).length = (query st et (some ctx)).length + 1 := by
  obtain ⟨schema, kvs', _, _, hs⟩ := store_ok_state lib st et ctx p h
  rw [hs]
  refine ⟨⟨et, ctx, kvs'⟩, ?_, rfl, rfl, ?_⟩
  · simp [query]
  · simp [query, List.filter_append]

/-- Value-level face of finding `time-int-above-u64`: a float in a time field is never rejected;
`1.8446744073709552e19` (what the JSON layer makes of the integer literal 2^64) is stored as
`i64::MAX` seconds. -/
theorem C06_float_time_clamped (lib : TimeLib) :
    (∀ b, okB (normalizeJsonValue lib (.num (.flt b))) = true) ∧
    normalizeJsonValue lib (.num (.flt 0x43F0000000000000)) = .ok (.num (.pos 9223372036854775807)) := by
  constructor
  · intro b; rfl
  · show Except.ok (Json.num (numOfI64 (floorToI64 0x43F0000000000000))) = _
    have : numOfI64 (floorToI64 0x43F0000000000000) = .pos 9223372036854775807 := by decide +kernel
    rw [this]

/-- The memtable's own `trim().is_empty()` tests never fire on an event the handler accepted. -/
theorem C06_memtable_check_redundant (lib : TimeLib) (st : St) (et ctx : String) (p : Json)
    (h : (store lib st et ctx p).1 = .ok ()) :
    ∀ e ∈ (store lib st et ctx p).2.events, e ∉ st.events → memtableAccepts e = true := by
  obtain ⟨h1, h2, _⟩ := (store_ok_iff lib st et ctx p).mp h
  obtain ⟨schema, kvs', _, _, hs⟩ := store_ok_state lib st et ctx p h
  rw [hs]
  intro e he hne
  simp at he
  rcases he with he | rfl
  · exact absurd he hne
  · simp [memtableAccepts, h1, h2]

/-! ## The text layer in front of the handler (STORE grammar, `balanced_braces`) -/

/-- A JSON text whose only braces are the outermost pair is taken whole by the grammar.
PARTIAL w.r.t. "every conforming payload is accepted": braces inside string values are
counted by the grammar too — see `C06_text_brace_fails`. -/
theorem C06_text_brace_partial (body : List Char) (hb : ∀ c ∈ body, c ≠ '{' ∧ c ≠ '}') :
    jsonBlockAccepts ('{' :: body ++ ['}']) = true := by
  unfold jsonBlockAccepts
  have hd : List.dropWhile isPegSpace ('{' :: body ++ ['}']) = '{' :: body ++ ['}'] := by
    simp [isPegSpace]
  rw [hd]
  have : pegBalanced (2 * ('{' :: body ++ ['}']).length + 4) ('{' :: body ++ ['}']) = some [] := by
    have hlen : 2 * ('{' :: body ++ ['}']).length + 4 = (2 * body.length + 7) + 1 := by
      simp; omega
    rw [hlen]
    show pegBody (2 * body.length + 7) (body ++ '}' :: []) = some []
    exact pegBody_plain body [] hb _ (by omega)
  rw [this]
  rfl

example : jsonBlockAccepts "{\"k\":1,\"s\":\"plain\"}".toList = true := by decide +kernel

/-- The payload `{"s":"a}b"}` (a string field holding `a}b`) is not taken by the grammar, nor is
`{"s":"a{b"}`: the STORE is answered with a parse error although the payload conforms.
Reproduced on the real parser by the `peg` and `session` streams (class `brace-in-string`). -/
theorem C06_text_brace_fails :
    jsonBlockAccepts "{\"s\":\"a}b\"}".toList = false ∧
    jsonBlockAccepts "{\"s\":\"a{b\"}".toList = false := by decide +kernel

/-! ## DEFINE -/

/-- A DEFINE that is answered with an error (type exists, or no fields) changes nothing. -/
theorem C06_define_error_noop (st : St) (et : String) (specs : List (String × FieldSpec)) (e : Err)
    (h : (define st et specs).1 = .error e) : (define st et specs).2 = st := by
  unfold define at h ⊢
  split
  · rfl
  · split
    · rfl
    · rename_i h1 h2
      simp [h1, h2] at h

/-- Redefinition is always an error: the previously defined schema stays in force. -/
theorem C06_redefine_rejected (st : St) (et : String) (schema : Schema)
    (specs : List (String × FieldSpec)) (h : st.schemas.lookup et = some schema) :
    (define st et specs).1 = .error .alreadyDefined ∧ (define st et specs).2 = st := by
  unfold define
  simp [h]

/-- Schemas are append-only: whatever DEFINE answers, every schema registered before is
registered unchanged afterwards, so every STORE decision for those types is unchanged. -/
theorem C06_define_append_only (st : St) (et : String) (specs : List (String × FieldSpec))
    (et' : String) (schema : Schema) (h : st.schemas.lookup et' = some schema) :
    (define st et specs).2.schemas.lookup et' = some schema := by
  unfold define
  split
  · exact h
  · split
    · exact h
    · dsimp only
      rw [List.lookup_append, h]
      rfl

example : (define (define St.empty "ev" [("k", .prim "int")]).2 "ev" [("k", .prim "string")]).1
    = .error .alreadyDefined := by decide +kernel

/-- A successful DEFINE registers exactly the schema the specs denote. -/
theorem C06_define_ok (st : St) (et : String) (specs : List (String × FieldSpec))
    (h : (define st et specs).1 = .ok ()) :
    st.schemas.lookup et = none ∧ specs ≠ [] ∧
      (define st et specs).2.schemas.lookup et = some (schemaOfSpecs specs) := by
  unfold define at h ⊢
  split at h
  · cases h
  · split at h
    · cases h
    · rename_i h1 h2
      have hn : st.schemas.lookup et = none := by
        cases hl : st.schemas.lookup et <;> simp_all
      refine ⟨hn, ?_, ?_⟩
      · rintro rfl; simp at h2
      · simp [h2, List.lookup_append, hn, List.lookup]

end Snel.Props.C06
