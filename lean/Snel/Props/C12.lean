import Snel.Lemmas.Route
/-!
# C12 — all events of a context live on one shard; unscoped reads cover all shards

Property theorems only. Model: `Snel.Model.Route` (SipHash-1-3 of the context bytes with `str`'s
`0xFF` terminator, `% n`; a system of `n` shards with one id generator each; STORE, restart,
reads as `dispatch/streaming.rs` + `response_writer.rs` do them). Lemmas: `Snel.Lemmas.Route`.
The model is tied to the code by the `route` stream (real `ShardManager::get_shard` for
n = 1…16 in two separate processes, std `DefaultHasher`) and the `sys` stream (real engine
with restarts).

Quantification: every operation sequence `ops` (STOREs with arbitrary contexts, payload keys and
**arbitrary clock readings**, restarts anywhere), every shard count `n`, every arrival order of
the shard answers at the response writer (`Arrival`).
-/
namespace Snel.Props.C12
open Snel.Route Snel.IdGen Snel.Gen

/-- The state reached from `n` fresh shards by `ops`. -/
def reach (n : Nat) (ops : List Op) : System := (System.init n).run ops

/-- Rows may reach the response writer in any order (fan-in of the shard flows). -/
def Arrival (s : System) (q : Option Ctx) (arr : List Ev) : Prop := arr.Perm (s.arrivals q)

/-- `route` is a function of the context's bytes and the shard count alone (the model has no
per-process hashing state: `ctxHash` is SipHash-1-3 with the fixed zero keys), it is a valid
shard index, and therefore two arbitrary histories — different process lifetimes, different
clocks, restarts anywhere — put every event of a context into the shard with the same index. -/
theorem C12_route_function (n : Nat) (hn : 0 < n) (ctx : Ctx) :
    route ctx n < n ∧ route ctx n = (ctxHash ctx).toNat % n ∧
    ∀ (ops₁ ops₂ : List Op) (e₁ e₂ : Ev),
      e₁ ∈ (reach n ops₁).applied → e₂ ∈ (reach n ops₂).applied → e₁.ctx = ctx → e₂.ctx = ctx →
      ∃ sh₁ sh₂, (reach n ops₁).shards[route ctx n]? = some sh₁ ∧ e₁ ∈ sh₁.events ∧
                 (reach n ops₂).shards[route ctx n]? = some sh₂ ∧ e₂ ∈ sh₂.events := by
  refine ⟨route_lt ctx hn, rfl, ?_⟩
  intro ops₁ ops₂ e₁ e₂ h₁ h₂ c₁ c₂
  obtain ⟨sh₁, a₁, b₁⟩ := applied_home (inv_reach n ops₁) h₁
  obtain ⟨sh₂, a₂, b₂⟩ := applied_home (inv_reach n ops₂) h₂
  rw [c₁] at a₁; rw [c₂] at a₂
  exact ⟨sh₁, sh₂, a₁, b₁, a₂, b₂⟩

/-- Locality, as an invariant over all operation sequences: whatever shard `i` holds routes to
`i` and carries the tag of `i` (`(i as u16) & 0x3FF`) in its id — for every clock behaviour. -/
theorem C12_locality (n : Nat) (ops : List Op) (i : Nat) (sh : Shard) (e : Ev)
    (hi : (reach n ops).shards[i]? = some sh) (he : e ∈ sh.events) :
    i = route e.ctx n ∧ tagOf e.id = tagArg (route e.ctx n) % 2 ^ idShardBits := by
  obtain ⟨h1, h2, _⟩ := (inv_reach n ops).home i sh hi e he
  refine ⟨h1.symm, ?_⟩
  rw [h2, h1]; rfl

/-- Every accepted STORE is held by exactly the shard its context routes to; per context the
home shard holds the accepted STOREs in acceptance order. -/
theorem C12_applied_home (n : Nat) (ops : List Op) (c : Ctx) :
    (reach n ops).applied.filter (fun e => e.ctx == c) = homeEvents (reach n ops) c ∧
    ∀ e ∈ (reach n ops).applied, ∃ sh, (reach n ops).shards[route e.ctx n]? = some sh ∧ e ∈ sh.events :=
  ⟨(inv_reach n ops).perCtx c, fun _ he => applied_home (inv_reach n ops) he⟩

/-- What the dispatch code does: every query, with or without `FOR`, is sent to all `n`
shards (the context only filters inside each shard). -/
theorem C12_fanout_all (n : Nat) (ops : List Op) (q : Option Ctx) :
    (reach n ops).asked q = List.range n := by
  have hinv : Inv n (reach n ops) := inv_reach n ops
  show List.range (reach n ops).shards.length = List.range n
  rw [hinv.len]

/-- All ids of one context carry the same shard tag — for **every** shard count, across
restarts, for every clock. -/
theorem C12_tag_constant (n : Nat) (ops : List Op) (e₁ e₂ : Ev)
    (h₁ : e₁ ∈ (reach n ops).applied) (h₂ : e₂ ∈ (reach n ops).applied) (hc : e₁.ctx = e₂.ctx) :
    tagOf e₁.id = tagOf e₂.id ∧ tagOf e₁.id = tagArg (route e₁.ctx n) % 2 ^ idShardBits := by
  obtain ⟨sh₁, a₁, b₁⟩ := applied_home (inv_reach n ops) h₁
  obtain ⟨sh₂, a₂, b₂⟩ := applied_home (inv_reach n ops) h₂
  have t₁ := (C12_locality n ops _ sh₁ e₁ a₁ b₁).2
  have t₂ := (C12_locality n ops _ sh₂ e₂ a₂ b₂).2
  exact ⟨by rw [t₁, t₂, hc], t₁⟩

/-- Up to `2^10` shards the tag *is* the shard index, so the shard bits of an id identify
the shard that holds the event. -/
theorem C12_tag_is_shard (n : Nat) (hn : n ≤ 2 ^ idShardBits) (ops : List Op) (e : Ev)
    (h : e ∈ (reach n ops).applied) : tagOf e.id = route e.ctx n := by
  obtain ⟨sh, a, b⟩ := applied_home (inv_reach n ops) h
  have hlt : route e.ctx n < n := by
    have := (List.getElem?_eq_some_iff.mp a).1
    rwa [(inv_reach n ops).len] at this
  rw [(C12_locality n ops _ sh e a b).2]
  have : (2 : Nat) ^ idShardBits = 1024 := by unfold idShardBits; rfl
  simp only [this, tagArg, Snel.Gen.C12.shardTagCastBits] at hn ⊢
  omega

private def t0 : Nat := idEpochMillis + 5

/-- Beyond `2^10` shards the 10-bit mask aliases: with 1025 shards the contexts `"695"`
(shard 0) and `"198"` (shard 1024) live on different shards, carry the same tag, and — stored
in the same millisecond — receive the **same event id**. (Not reachable in a deployment one
would run; `shard_count` is not validated against the id layout.) -/
theorem C12_tag_is_shard_fails :
    ∃ (ops : List Op) (e₁ e₂ : Ev), e₁ ∈ (reach 1025 ops).applied ∧ e₂ ∈ (reach 1025 ops).applied ∧
      route e₁.ctx 1025 ≠ route e₂.ctx 1025 ∧ tagOf e₁.id = tagOf e₂.id ∧ e₁.id = e₂.id :=
  ⟨[.store [0x36, 0x39, 0x35] 1 [t0], .store [0x31, 0x39, 0x38] 2 [t0]],
   ⟨[0x36, 0x39, 0x35], compose t0 0 0, 1⟩, ⟨[0x31, 0x39, 0x38], compose t0 0 0, 2⟩, by decide +kernel⟩

/-! ## Reads -/

/-- Scoped read, unconditional part. For every arrival order: every row of the response is an
accepted STORE of that context (no foreign shard contributes anything), the id of every
accepted STORE of the context is in the response, and no id appears twice. -/
theorem C12_scoped_complete_ids (n : Nat) (ops : List Op) (c : Ctx) (arr : List Ev)
    (harr : Arrival (reach n ops) (some c) arr) :
    (∀ e ∈ respond arr, e ∈ (reach n ops).applied ∧ e.ctx = c) ∧
    (∀ e ∈ (reach n ops).applied, e.ctx = c → ∃ e' ∈ respond arr, e'.id = e.id) ∧
    ((respond arr).map Ev.id).Nodup := by
  have hinv : Inv n (reach n ops) := inv_reach n ops
  have harr' : arr.Perm ((reach n ops).applied.filter fun e => e.ctx == c) := by
    rw [hinv.perCtx c, ← arrivals_scoped hinv c]; exact harr
  refine ⟨?_, ?_, (dedupIds_nodup arr []).1⟩
  · intro e he
    have := harr'.mem_iff.mp ((dedupIds_sublist arr []).subset he)
    simpa using this
  · intro e he hc
    have : e ∈ arr := harr'.mem_iff.mpr (by simp [he, hc])
    exact dedupIds_ids arr [] e this (by simp)

/-- Scoped read, full completeness: **if the ids given to the accepted STOREs are pairwise
distinct**, a read `FOR c` returns exactly the accepted STOREs of `c` (each once, for every
arrival order; in acceptance order when the home shard answers in order).
PARTIAL w.r.t. the property text: the hypothesis is C18's uniqueness, which the code does not
guarantee across a restart (see `C12_scoped_complete_fails`). -/
theorem C12_scoped_complete_partial (n : Nat) (ops : List Op) (c : Ctx) (arr : List Ev)
    (hids : ((reach n ops).applied.map Ev.id).Nodup)
    (harr : Arrival (reach n ops) (some c) arr) :
    (respond arr).Perm ((reach n ops).applied.filter fun e => e.ctx == c) ∧
    (reach n ops).read (some c) = (reach n ops).applied.filter fun e => e.ctx == c := by
  have hinv : Inv n (reach n ops) := inv_reach n ops
  have hsub : (((reach n ops).applied.filter fun e => e.ctx == c).map Ev.id).Nodup :=
    hids.sublist (List.Sublist.map _ List.filter_sublist)
  have harr' : arr.Perm ((reach n ops).applied.filter fun e => e.ctx == c) := by
    rw [hinv.perCtx c, ← arrivals_scoped hinv c]; exact harr
  constructor
  · have : (arr.map Ev.id).Nodup := (harr'.map Ev.id).nodup_iff.mpr hsub
    unfold respond
    rw [dedupIds_eq_self arr [] this (by simp)]
    exact harr'
  · unfold System.read respond
    rw [arrivals_scoped hinv c, ← hinv.perCtx c, dedupIds_eq_self _ [] hsub (by simp)]

/-- The full statement ("a read FOR c returns all stored events of c") is false of the code as
modelled: one shard, STORE at reading `t`, restart (the generator starts from zero again),
STORE at the same reading `t` ⇒ both events get the same id and the response writer drops the
second. This is C18's restart defect seen through a scoped read. -/
theorem C12_scoped_complete_fails :
    ∃ (n : Nat) (ops : List Op) (c : Ctx) (e : Ev), e ∈ (reach n ops).applied ∧ e.ctx = c ∧
      e ∉ (reach n ops).read (some c) :=
  ⟨1, [.store [0x63] 1 [t0], .restart, .store [0x63] 2 [t0]], [0x63], ⟨[0x63], compose t0 0 0, 2⟩,
    by decide +kernel⟩

/-- Unscoped read, unconditional part. For every arrival order: the response is drawn from
the accepted STOREs; the id of **every event held by any shard** (none omitted; shards holding
nothing contribute nothing and block nothing) is in the response; no id appears twice. -/
theorem C12_unscoped_union_ids (n : Nat) (ops : List Op) (arr : List Ev)
    (harr : Arrival (reach n ops) none arr) :
    (∀ e ∈ respond arr, e ∈ (reach n ops).applied) ∧
    (∀ (i : Nat) (sh : Shard) (e : Ev), (reach n ops).shards[i]? = some sh → e ∈ sh.events →
      ∃ e' ∈ respond arr, e'.id = e.id) ∧
    (∀ e ∈ (reach n ops).applied, ∃ e' ∈ respond arr, e'.id = e.id) ∧
    ((respond arr).map Ev.id).Nodup := by
  have hinv : Inv n (reach n ops) := inv_reach n ops
  have harr' : arr.Perm (allEvents (reach n ops)) := harr
  refine ⟨?_, ?_, ?_, (dedupIds_nodup arr []).1⟩
  · intro e he
    exact hinv.perm.mem_iff.mpr (harr'.mem_iff.mp ((dedupIds_sublist arr []).subset he))
  · intro i sh e hi he
    have : e ∈ allEvents (reach n ops) :=
      List.mem_flatMap.mpr ⟨sh, List.mem_of_getElem? hi, he⟩
    exact dedupIds_ids arr [] e (harr'.mem_iff.mpr this) (by simp)
  · intro e he
    exact dedupIds_ids arr [] e (harr'.mem_iff.mpr (hinv.perm.mem_iff.mp he)) (by simp)

/-- Unscoped read = union over all shards: **if the ids of the accepted STOREs are pairwise
distinct**, the response is, for every arrival order, a permutation of the concatenation of
what every shard holds, which is a permutation of the accepted STOREs; and the scoped read is
the unscoped read filtered by context.
PARTIAL: same hypothesis as `C12_scoped_complete_partial`; see `C12_unscoped_union_fails`. -/
theorem C12_unscoped_union_partial (n : Nat) (ops : List Op) (arr : List Ev)
    (hids : ((reach n ops).applied.map Ev.id).Nodup)
    (harr : Arrival (reach n ops) none arr) :
    (respond arr).Perm ((reach n ops).shards.flatMap Shard.events) ∧
    (respond arr).Perm (reach n ops).applied ∧
    ∀ c, (reach n ops).read (some c) = ((reach n ops).read none).filter fun e => e.ctx == c := by
  have hinv : Inv n (reach n ops) := inv_reach n ops
  have harr' : arr.Perm (allEvents (reach n ops)) := harr
  have hall : ((allEvents (reach n ops)).map Ev.id).Nodup := (hinv.perm.map Ev.id).nodup_iff.mp hids
  have h1 : respond arr = arr := by
    unfold respond
    exact dedupIds_eq_self arr [] ((harr'.map Ev.id).nodup_iff.mpr hall) (by simp)
  refine ⟨by rw [h1]; exact harr', by rw [h1]; exact harr'.trans hinv.perm.symm, ?_⟩
  intro c
  have hnone : (reach n ops).read none = allEvents (reach n ops) := by
    unfold System.read respond
    rw [arrivals_unscoped, dedupIds_eq_self _ [] hall (by simp)]
  rw [(C12_scoped_complete_partial n ops c _ hids (List.Perm.refl _)).2, hnone, hinv.perCtx c,
    ← arrivals_scoped hinv c]
  simp only [System.arrivals, allEvents, List.filter_flatMap]
  rfl

/-- The full statement is false of the code as modelled, in two ways: (a) one lifetime,
1025 shards, two contexts on the aliasing shards 0 and 1024 stored in the same millisecond —
same id, one row dropped (replayed on the real engine: `c12 witness1025`); (b) one shard and a
restart with a repeated clock reading, as in `C12_scoped_complete_fails` (replayed: `c12 witness`
and the `clock` stream; finding C12-dup-id-after-restart). -/
theorem C12_unscoped_union_fails :
    (∃ (ops : List Op) (e : Ev), (∀ op ∈ ops, op ≠ Op.restart) ∧
        e ∈ (reach 1025 ops).applied ∧ e ∉ (reach 1025 ops).read none) ∧
    (∃ (ops : List Op) (e : Ev), e ∈ (reach 1 ops).applied ∧ e ∉ (reach 1 ops).read none) :=
  ⟨⟨[.store [0x36, 0x39, 0x35] 1 [t0], .store [0x31, 0x39, 0x38] 2 [t0]],
      ⟨[0x31, 0x39, 0x38], compose t0 0 0, 2⟩, by decide +kernel⟩,
   ⟨[.store [0x63] 1 [t0], .restart, .store [0x63] 2 [t0]], ⟨[0x63], compose t0 0 0, 2⟩,
      by decide +kernel⟩⟩

/-- A sufficient condition for the hypothesis of the two `_partial` theorems, and what they
give under it: in **one process lifetime**, with clock readings inside the id window (any
order, repeats, backward steps, bursts) and at most `2^10` shards, the ids of the accepted
STOREs are pairwise distinct, so a read `FOR c` returns exactly the accepted STOREs of `c` in
order and an unscoped read returns exactly all accepted STOREs. -/
theorem C12_reads_complete_lifetime (n : Nat) (hn : n ≤ 2 ^ idShardBits) (ops : List Op)
    (hnr : NoRestart ops) (hcr : ClocksInRange ops) :
    ((reach n ops).applied.map Ev.id).Nodup ∧
    (∀ c, (reach n ops).read (some c) = (reach n ops).applied.filter fun e => e.ctx == c) ∧
    ((reach n ops).read none).Perm (reach n ops).applied := by
  have hinv : Inv n (reach n ops) := inv_reach n ops
  have hm : Mono (reach n ops) := mono_run ops (mono_init n) hnr hcr
  have hids : ((reach n ops).applied.map Ev.id).Nodup :=
    (hinv.perm.map Ev.id).nodup_iff.mpr (allEvents_ids_nodup hinv hm hn)
  refine ⟨hids, fun c => (C12_scoped_complete_partial n ops c _ hids (List.Perm.refl _)).2, ?_⟩
  exact (C12_unscoped_union_partial n ops _ hids (List.Perm.refl _)).2.1

/-- Non-vacuity of `C12_reads_complete_lifetime`: a burst in one millisecond, a backward step. -/
example : NoRestart [.store [0x61] 1 [t0], .store [0x61] 2 [t0], .store [0x62] 3 [t0 - 2]] ∧
    ClocksInRange [.store [0x61] 1 [t0], .store [0x61] 2 [t0], .store [0x62] 3 [t0 - 2]] := by
  refine ⟨by unfold NoRestart; decide, ?_⟩
  intro c k clk h r hr
  simp only [List.mem_cons, Op.store.injEq, List.not_mem_nil, or_false] at h
  rcases h with ⟨_, _, rfl⟩ | ⟨_, _, rfl⟩ | ⟨_, _, rfl⟩ <;>
    (simp only [List.mem_singleton] at hr; subst hr
     unfold InRange t0 tsMod idEpochMillis idTimestampBits; decide)

/-! ## Reads planned with a per-shard zone map (`ORDER BY … LIMIT …`)

The top-k planner hands the dispatcher a map shard ↦ picked zones, computed from **flushed**
segments only. The theorems below hold for every reachable state, **every split** of each
shard's events into a flushed prefix and an in-memory suffix (`nfl`), and **every** zone map
`zm` (any subset of the shards, any zone predicate per shard). -/

/-- A query that carries a zone map is still sent to all `n` shards — a shard that the map
does not mention is asked too. -/
theorem C12_plan_fanout_all (n : Nat) (ops : List Op) (nfl : List Nat) (q : Option Ctx)
    (zm : ZoneMap) : (Tiered.mk (reach n ops) nfl).askedPlan q zm = List.range n := by
  have hinv : Inv n (reach n ops) := inv_reach n ops
  show List.range (reach n ops).shards.length = List.range n
  rw [hinv.len]

/-- A shard absent from the zone map contributes exactly its matching in-memory rows (the
"empty picked zones" command removes its segment zones, nothing else); a shard in the map
contributes its matching in-memory rows and the flushed rows inside its picked zones. -/
theorem C12_plan_shard_contribution (q : Option Ctx) (m : List (Nat × (Ev → Bool))) (i f : Nat)
    (sh : Shard) :
    (m.lookup i = none → sh.answerPlan q (some m) i f = (sh.memRows f).filter (qmatches q)) ∧
    (∀ allowed, m.lookup i = some allowed →
      sh.answerPlan q (some m) i f = ((sh.segRows f).filter allowed ++ sh.memRows f).filter (qmatches q)) := by
  constructor
  · intro h; simp only [Shard.answerPlan, h]
  · intro allowed h; simp only [Shard.answerPlan, h]

/-- No shard is omitted under a zone map: every matching **in-memory** row of every shard
reaches the response writer, whatever the map contains (in particular when the row's shard has
no entry), and nothing arrives that an unplanned read would not deliver. -/
theorem C12_plan_memory_covered (n : Nat) (ops : List Op) (nfl : List Nat) (q : Option Ctx)
    (zm : ZoneMap) :
    (∀ (i : Nat) (sh : Shard) (e : Ev), (reach n ops).shards[i]? = some sh →
      e ∈ sh.memRows ((Tiered.mk (reach n ops) nfl).flushedOf i) → qmatches q e = true →
      e ∈ (Tiered.mk (reach n ops) nfl).arrivalsPlan q zm) ∧
    (∀ e ∈ (Tiered.mk (reach n ops) nfl).arrivalsPlan q zm, e ∈ (reach n ops).arrivals q) := by
  constructor
  · intro i sh e hi he hq
    rw [mem_arrivalsPlan_iff]
    exact ⟨i, sh, hi, answerPlan_mem q zm i _ sh e he hq⟩
  · intro e he
    rw [mem_arrivalsPlan_iff] at he
    obtain ⟨i, sh, hi, he⟩ := he
    obtain ⟨h1, h2⟩ := answerPlan_subset q zm i _ sh e he
    exact (mem_arrivals_iff _ q e).mpr ⟨i, sh, hi, h1, h2⟩

/-- Union under a zone map. Let `needed` single out rows (e.g. the true first `n+m` rows in the
requested order). If the map lets every needed **flushed** row through (the planner's own
obligation — C10), then every needed row that an unplanned read over all shards delivers is
delivered under the map as well: in-memory rows need no entry in the map. -/
theorem C12_plan_sound_complete (n : Nat) (ops : List Op) (nfl : List Nat) (q : Option Ctx)
    (zm : ZoneMap) (needed : Ev → Prop)
    (hsound : ∀ (i : Nat) (sh : Shard) (e : Ev), (reach n ops).shards[i]? = some sh →
      e ∈ sh.segRows ((Tiered.mk (reach n ops) nfl).flushedOf i) → needed e → ZoneMapAllows zm i e) :
    ∀ e ∈ (reach n ops).arrivals q, needed e → e ∈ (Tiered.mk (reach n ops) nfl).arrivalsPlan q zm := by
  intro e he hn
  obtain ⟨i, sh, hi, hev, hq⟩ := (mem_arrivals_iff _ q e).mp he
  rw [mem_arrivalsPlan_iff]
  refine ⟨i, sh, hi, ?_⟩
  rcases mem_seg_or_mem sh ((Tiered.mk (reach n ops) nfl).flushedOf i) e hev with h | h
  · exact answerPlan_seg q zm i _ sh e h hq (hsound i sh e hi h hn)
  · exact answerPlan_mem q zm i _ sh e h hq

/-- Non-vacuity: two shards; shard 0 holds a flushed row and is in the map, shard 1 holds an
in-memory row only and is absent from the map — its row still arrives. -/
example :
    let t : Tiered := ⟨reach 2 [.store [0x62] 7 [t0], .store [0x61] 3 [t0]], [1, 0]⟩
    t.sys.shards.map (fun sh => sh.events.map Ev.key) = [[7], [3]] ∧
    (t.arrivalsPlan none (some [(0, fun _ => true)])).map Ev.key = [7, 3] ∧
    (t.arrivalsPlan none (some [(0, fun _ => false)])).map Ev.key = [3] := by
  decide +kernel

/-! ## Non-vacuity -/

/-- A history with three contexts on three shards, a restart between STOREs to the same
context, distinct ids: the hypotheses of the `_partial` theorems hold and the reads are
non-trivial. -/
example :
    let ops : List Op := [.store [0x61] 1 [t0], .store [0x62] 2 [t0], .restart,
      .store [0x61] 3 [t0 + 7], .store [0x6b] 4 [t0 + 7], .store [0x20] 5 [t0 + 8]]
    ((reach 3 ops).applied.map Ev.id).Nodup ∧ (reach 3 ops).applied.length = 4 ∧
    ((reach 3 ops).read (some [0x61])).map Ev.key = [1, 3] ∧
    ((reach 3 ops).read none).length = 4 ∧
    (reach 3 ops).shards.map (fun sh => sh.events.length) = [2, 1, 1] := by
  decide +kernel

/-- Arrival orders exist and need not be the shard order: the reversed order is one. -/
example : Arrival (reach 3 [.store [0x61] 1 [t0], .store [0x62] 2 [t0]]) none
    ((reach 3 [.store [0x61] 1 [t0], .store [0x62] 2 [t0]]).arrivals none).reverse :=
  List.reverse_perm _

end Snel.Props.C12
