import Snel.Lemmas.ParserTotal
import Snel.Lemmas.ParserQuery
/-!
# C17 — parsing and dispatch are total; the parser preserves structure

Model: `Snel.Model.Parser*` (tokenizer, `parse_command`, the PEG grammars of QUERY / REPLAY / STORE as
ordered-choice parsers with eager actions, the dispatcher's variant table). Tied to the Rust code by
the generated tables of `Snel.Gen.C17` and by the `parse`, `tokens`, `f64`, `prec`, `dispatch`
correspondence streams. `S : Sites` says which grammar actions `unwrap()` a failed numeric
conversion — `Sites.current` is generated from the source; `U : Uni` are std's Unicode tables.
-/
namespace Snel.Props.C17
open Snel.Parser

/-- What may follow an expression: end of input, `)`, or a space and a word that is not IN / AND / OR. -/
abbrev ExprEnd (rest : Str) : Prop := Stop [kIN, kAND, kOR] rest

/-- **Round trip, WHERE expressions** (unbounded, by induction on the expression): for every
well-formed expression, every spelling of the keywords and every continuation that cannot extend
the expression, the grammar's `expr()` parses the printed text back to the same tree and stops
exactly where the printed text ends. Holds for every setting of the unwrap sites. -/
theorem C17_roundtrip (S : Sites) (K : Kw) (hK : K.Valid) (e : Expr) (he : WFExpr e) (n : Nat)
    (hn : need e + 1 ≤ n) (rest : Str) (hs : ExprEnd rest) :
    exprF S n (printExpr K e ++ rest) = .ok e rest := by
  obtain ⟨k, rfl⟩ : ∃ k, n = k + 1 := ⟨n - 1, by omega⟩
  rw [exprF_succ]
  exact (rt S K hK e he k k k k (by omega) (by omega) (by omega) (by omega) rest).2.2 hs

/-- non-vacuity: a concrete expression with every node kind -/
def e0 : Expr :=
  .and (.or (.cmp ['a'] .eq (.int 1)) (.not (.inList "b.c".toList [.str ['x'], .int (-2), .float 0x4004000000000000])))
       (.cmp ['d'] .neq (.str ['q']))
def q0 : Query := { eventType := "ev".toList, limit := some 3, whereClause := some e0 }
example : parseCommand Uni.ascii "QUERY ev WHERE (a = 1 OR NOT b.c IN (\"x\", -2, 2.5)) AND d != \"q\" LIMIT 3".toList =
    .ok (.single (.query q0)) := by decide +kernel
example : parseCommand Uni.ascii ("QUERY ev WHERE ".toList ++ printExpr Kw.lower e0 ++ " LIMIT 3".toList) =
    .ok (.single (.query q0)) := by decide +kernel
example : WFValue (.float 0x4004000000000000) := by
  refine ⟨by decide, by decide +kernel, by decide +kernel, by decide +kernel, by decide +kernel, by decide +kernel⟩

/-- **Round trip, QUERY commands** of the fragment event type + WHERE + LIMIT + OFFSET: the QUERY branch
of `parse_command` (`commands::query::parse` on the text, with the fuel the model gives it) returns
exactly the command that was printed — for every spelling of the keywords, every well-formed
expression, every u32 LIMIT / OFFSET. (What `parse_command` does before it reaches that branch —
`trim`, the tokenizer's `<INVALID>` check, the first-word test — is not part of this statement; on
printed text it is checked by evaluation below and by the round-trip oracle on the real code.) -/
theorem C17_roundtrip_query (S : Sites) (K : Kw) (hK : K.Valid) (q : Query) (hq : WFQuery q) :
    (ofP (queryP S (fuelOf (printQuery K q)) (printQuery K q))).map Cmd1.query = .ok (.query q) := by
  obtain ⟨h1, h2⟩ := fuel_printQuery K hK q hq
  rw [queryP_rt S K hK q hq _ h1 h2]
  rfl

example : parseCommand Uni.ascii (printQuery Kw.lower { q0 with offset := some 4294967295 }) =
    .ok (.single (.query { q0 with offset := some 4294967295 })) := by decide +kernel

/-- **Precedence: AND binds tighter than OR** — `x OR y AND z` is `x OR (y AND z)`. -/
theorem C17_precedence_and_over_or (S : Sites) (K : Kw) (hK : K.Valid) (x y z : Expr)
    (hx : WFExpr x) (hy : WFExpr y) (hz : WFExpr z) (n : Nat) (hn : need x + need y + need z + 3 ≤ n)
    (rest : Str) (hs : ExprEnd rest) :
    exprF S n (pr K 1 x ++ ' ' :: (K.or_ ++ ' ' :: (pr K 2 y ++ ' ' :: (K.and_ ++ ' ' :: (pr K 1 z ++ rest)))))
      = .ok (.or x (.and y z)) rest := by
  have := C17_roundtrip S K hK (.or x (.and y z)) ⟨hx, hy, hz⟩ n (by simp [need]; omega) rest hs
  simpa [printExpr, pr, paren] using this

/-- … also on the left: `y AND z OR x` is `(y AND z) OR x`. -/
theorem C17_precedence_and_over_or_left (S : Sites) (K : Kw) (hK : K.Valid) (x y z : Expr)
    (hx : WFExpr x) (hy : WFExpr y) (hz : WFExpr z) (n : Nat) (hn : need x + need y + need z + 3 ≤ n)
    (rest : Str) (hs : ExprEnd rest) :
    exprF S n (pr K 2 y ++ ' ' :: (K.and_ ++ ' ' :: (pr K 1 z ++ ' ' :: (K.or_ ++ ' ' :: (pr K 0 x ++ rest)))))
      = .ok (.or (.and y z) x) rest := by
  have := C17_roundtrip S K hK (.or (.and y z) x) ⟨⟨hy, hz⟩, hx⟩ n (by simp [need]; omega) rest hs
  simpa [printExpr, pr, paren] using this

/-- **NOT binds tighter than AND** — `NOT y AND z` is `(NOT y) AND z`. -/
theorem C17_precedence_not_over_and (S : Sites) (K : Kw) (hK : K.Valid) (y z : Expr)
    (hy : WFExpr y) (hz : WFExpr z) (n : Nat) (hn : need y + need z + 3 ≤ n) (rest : Str) (hs : ExprEnd rest) :
    exprF S n (K.not_ ++ ' ' :: (pr K 2 y ++ ' ' :: (K.and_ ++ ' ' :: (pr K 1 z ++ rest))))
      = .ok (.and (.not y) z) rest := by
  have := C17_roundtrip S K hK (.and (.not y) z) ⟨hy, hz⟩ n (by simp [need]; omega) rest hs
  simpa [printExpr, pr, paren] using this

/-- **Parentheses override precedence** — `(x OR y) AND z` is `(x OR y) AND z`, and `NOT (x AND y)`
negates the conjunction. -/
theorem C17_precedence_parens (S : Sites) (K : Kw) (hK : K.Valid) (x y z : Expr)
    (hx : WFExpr x) (hy : WFExpr y) (hz : WFExpr z) (n : Nat) (hn : need x + need y + need z + 3 ≤ n)
    (rest : Str) (hs : ExprEnd rest) :
    exprF S n ('(' :: (pr K 1 x ++ ' ' :: (K.or_ ++ ' ' :: (pr K 0 y ++ ')' :: ' ' :: (K.and_ ++ ' ' :: (pr K 1 z ++ rest))))))
      = .ok (.and (.or x y) z) rest
    ∧ exprF S n (K.not_ ++ ' ' :: '(' :: (pr K 2 x ++ ' ' :: (K.and_ ++ ' ' :: (pr K 1 y ++ ')' :: rest))))
      = .ok (.not (.and x y)) rest := by
  have h1 := C17_roundtrip S K hK (.and (.or x y) z) ⟨⟨hx, hy⟩, hz⟩ n (by simp [need]; omega) rest hs
  have h2 := C17_roundtrip S K hK (.not (.and x y)) ⟨hx, hy⟩ n (by simp [need]; omega) rest hs
  constructor
  · simpa [printExpr, pr, paren] using h1
  · simpa [printExpr, pr, paren] using h2

/-- non-vacuity of the precedence statements on the real entry point -/
def qa : Query := { eventType := "ev".toList, whereClause := some (.or (.cmp ['a'] .eq (.bool true)) (.and (.cmp ['b'] .eq (.bool true)) (.not (.cmp ['c'] .eq (.bool true))))) }
def qb : Query := { eventType := "ev".toList, whereClause := some (.and (.or (.cmp ['a'] .eq (.bool true)) (.cmp ['b'] .eq (.bool true))) (.not (.cmp ['c'] .eq (.bool true)))) }
example : parseCommand Uni.ascii "QUERY ev WHERE a OR b AND NOT c".toList = .ok (.single (.query qa)) := by decide +kernel
example : parseCommand Uni.ascii "QUERY ev WHERE (a OR b) AND NOT c".toList = .ok (.single (.query qb)) := by decide +kernel

/-- **Keywords are case-insensitive.** (1) The keyword recogniser sees the leading letters only
through `lower`; `lower` identifies 'A'–'Z' with 'a'–'z'. (2) The all-upper and the all-lower spelling are
valid, and any two valid spellings of the keywords give the same parse of the same expression. -/
theorem C17_keywords_ci :
    (∀ (k s s' : Str), (letterRun s).map lower = (letterRun s').map lower →
        s.dropWhile isLetter = s'.dropWhile isLetter → kw k s = kw k s') ∧
    (∀ n, n < 26 → lower (Char.ofNat (65 + n)) = Char.ofNat (97 + n) ∧ lower (Char.ofNat (97 + n)) = Char.ofNat (97 + n)) ∧
    Kw.upper.Valid ∧ Kw.lower.Valid ∧
    (∀ (S : Sites) (K K' : Kw), K.Valid → K'.Valid → ∀ e, WFExpr e → ∀ n, need e + 1 ≤ n → ∀ rest, ExprEnd rest →
        exprF S n (printExpr K e ++ rest) = exprF S n (printExpr K' e ++ rest)) := by
  refine ⟨?_, by decide, by decide, by decide, ?_⟩
  · intro k s s' h1 h2
    unfold letterRun at h1
    have hemp : (s.takeWhile isLetter).isEmpty = (s'.takeWhile isLetter).isEmpty := by
      have := congrArg List.isEmpty h1
      simpa using this
    have heq : eqCi (s.takeWhile isLetter) k = eqCi (s'.takeWhile isLetter) k := by
      unfold eqCi; rw [h1]
    show (if (!(s.takeWhile isLetter).isEmpty && eqCi (s.takeWhile isLetter) k) = true then PRes.ok () (s.dropWhile isLetter) else PRes.fail)
       = (if (!(s'.takeWhile isLetter).isEmpty && eqCi (s'.takeWhile isLetter) k) = true then PRes.ok () (s'.dropWhile isLetter) else PRes.fail)
    rw [hemp, heq, h2]
  · intro S K K' hK hK' e he n hn rest hs
    rw [C17_roundtrip S K hK e he n hn rest hs, C17_roundtrip S K' hK' e he n hn rest hs]

example : parseCommand Uni.ascii "query ev where a Or b aNd nOT c limit 7".toList =
    parseCommand Uni.ascii "QUERY ev WHERE a OR b AND NOT c LIMIT 7".toList := by decide +kernel

/-- **Parsing is total** once no grammar action unwraps a failed conversion: for every input, every
Unicode table, `parse_command` answers `ok`, `error` (or `unmodelled` for DEFINE / PLOT) — never `panic`.
This is the theorem about the code after the proposed fix (`Sites` all `false`). -/
theorem C17_parse_total_fixed (S : Sites) (hS : S.NoPanic) (U : Uni) (s : Str) :
    parseCommandWith S U s ≠ .panic :=
  parseCommandWith_np S hS U s

/-- PARTIAL: the same for the present code under the hypothesis that the generated unwrap sites are
all off. On the present tree the hypothesis is false (`C17_parse_total_fails`); after the fix the
extractor regenerates `Sites.current` and the hypothesis is discharged by `decide`. -/
theorem C17_parse_total_partial (hfix : Sites.current.NoPanic) (U : Uni) (s : Str) :
    parseCommand U s ≠ .panic :=
  parseCommandWith_np Sites.current hfix U s

example : Sites.fixed.NoPanic := by decide

/-- The full statement is false of the code as it is: each of the four unwrap sites is reachable.
Replayed on the real code by the `parse` stream (finding classes limit-offset-unwrap,
int-literal-unwrap, float-literal-unwrap). -/
theorem C17_parse_total_fails :
    parseCommand Uni.ascii "QUERY ev LIMIT 99999999999".toList = .panic ∧
    parseCommand Uni.ascii "QUERY ev LIMIT -1".toList = .panic ∧
    parseCommand Uni.ascii "QUERY ev OFFSET 4294967296".toList = .panic ∧
    parseCommand Uni.ascii "QUERY ev WHERE x = 99999999999999999999".toList = .panic ∧
    parseCommand Uni.ascii ("QUERY ev WHERE x = 1".toList ++ List.replicate 309 '0' ++ ".0".toList) = .panic ∧
    ¬ Sites.current.NoPanic := by
  refine ⟨by decide +kernel, by decide +kernel, by decide +kernel, by decide +kernel, by decide +kernel, by decide⟩

/-- the boundary values do not panic -/
def qc : Query := { eventType := "ev".toList, limit := some 4294967295 }
def qd : Query := { eventType := "ev".toList, whereClause := some (.cmp ['x'] .eq (.int (-9223372036854775808))) }
example : parseCommand Uni.ascii "QUERY ev LIMIT 4294967295".toList = .ok (.single (.query qc)) := by decide +kernel
example : parseCommand Uni.ascii "QUERY ev WHERE x = -9223372036854775808".toList = .ok (.single (.query qd)) := by decide +kernel

/-- **Dispatch**: the variants with an arm in `dispatch_command` are exactly the non-`Batch` ones the
parser can produce. -/
theorem C17_dispatch_total_partial (c : Command) (h : ∀ cs, c ≠ .batch cs) : dispatch c = .handled := by
  cases c with
  | batch cs => exact absurd rfl (h cs)
  | single c1 => cases c1 <;> simp only [dispatch, Command.variant, Cmd1.variant] <;> decide

/-- The full statement (every parsed command is dispatched) is false: `BATCH [ PING ]` parses to a
`Batch`, for which `dispatch_command` has no arm and falls into `unreachable!()`. Replayed on the real
code by the `dispatch` stream (finding class batch-unreachable). -/
theorem C17_dispatch_total_fails :
    ∃ s c, parseCommand Uni.ascii s = .ok c ∧ dispatch c = .unreachable :=
  ⟨"BATCH [ PING ]".toList, .batch [.ping], by decide +kernel, by decide⟩

theorem C17_dispatch_unreachable_iff (c : Command) : dispatch c = .unreachable ↔ ∃ cs, c = .batch cs := by
  constructor
  · intro h
    cases c with
    | batch cs => exact ⟨cs, rfl⟩
    | single c1 =>
      have := C17_dispatch_total_partial (.single c1) (by intro cs; simp)
      rw [this] at h; exact absurd h (by decide)
  · rintro ⟨cs, rfl⟩; simp only [dispatch, Command.variant]; decide

end Snel.Props.C17
