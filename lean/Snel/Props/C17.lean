import Snel.Lemmas.ParserTotal
import Snel.Lemmas.ParserQuery
import Snel.Lemmas.ParserTokenize
/-!
# C17 — parsing and dispatch are total; the parser preserves structure

Model: `Snel.Model.Parser*` (tokenizer, `parse_command`, the PEG grammars of QUERY / REPLAY / STORE as
ordered-choice parsers with eager actions, the dispatcher's variant table). Tied to the Rust code by
the generated tables of `Snel.Gen.C17` and by the `parse`, `tokens`, `f64`, `prec`, `dispatch`
correspondence streams. `S : Sites` says which grammar actions `unwrap()` a failed numeric
conversion — `Sites.current` is generated from the source (all off since the fix commits); `U : Uni` are std's Unicode tables.
-/
namespace Snel.Props.C17
open Snel.Parser

/-- What may follow an expression: end of input, `)`, or a space and a word that is not IN / AND / OR. -/
abbrev ExprEnd (rest : Str) : Prop := Stop [kIN, kAND, kOR] rest

/-- **Round trip, WHERE expressions** (unbounded, by induction on the expression): for every
well-formed expression, every spelling of the keywords and every continuation that cannot extend
the expression, the grammar's `expr()` parses the printed text back to the same tree and stops
exactly where the printed text ends. Holds for every setting of the unwrap sites. -/
theorem C17_roundtrip (S : Sites) (K : Kw) (hK : K.Valid) (e : Expr) (he : WFExpr e) (n : Nat)
    (hn : need e + 1 ≤ n) (rest : Str) (hs : ExprEnd rest) :
    exprF S n (printExpr K e ++ rest) = .ok e rest := by
  obtain ⟨k, rfl⟩ : ∃ k, n = k + 1 := ⟨n - 1, by omega⟩
  rw [exprF_succ]
  exact (rt S K hK e he k k k k (by omega) (by omega) (by omega) (by omega) rest).2.2 hs

/-- non-vacuity: a concrete expression with every node kind -/
def e0 : Expr :=
  .and (.or (.cmp ['a'] .eq (.int 1)) (.not (.inList "b.c".toList [.str ['x'], .int (-2), .float 0x4004000000000000])))
       (.cmp ['d'] .neq (.str ['q']))
def q0 : Query := { eventType := "ev".toList, limit := some 3, whereClause := some e0 }
example : parseCommand Uni.ascii "QUERY ev WHERE (a = 1 OR NOT b.c IN (\"x\", -2, 2.5)) AND d != \"q\" LIMIT 3".toList =
    .ok (.single (.query q0)) := by decide +kernel
example : parseCommand Uni.ascii ("QUERY ev WHERE ".toList ++ printExpr Kw.lower e0 ++ " LIMIT 3".toList) =
    .ok (.single (.query q0)) := by decide +kernel
example : WFValue (.float 0x4004000000000000) := by
  refine ⟨by decide, by decide +kernel, by decide +kernel, by decide +kernel, by decide +kernel, by decide +kernel⟩

/-- **Round trip, QUERY commands** of the fragment event type + WHERE + LIMIT + OFFSET: the QUERY branch
of `parse_command` (`commands::query::parse` on the text, with the fuel the model gives it) returns
exactly the command that was printed — for every spelling of the keywords, every well-formed
expression, every u32 LIMIT / OFFSET. (What `parse_command` does before it reaches that branch —
`trim`, the tokenizer's `<INVALID>` check, the first-word test — is not part of this statement; on
printed text it is checked by evaluation below and by the round-trip oracle on the real code.) -/
theorem C17_roundtrip_query (S : Sites) (K : Kw) (hK : K.Valid) (q : Query) (hq : WFQuery q) :
    (ofP (queryP S (fuelOf (printQuery K q)) (printQuery K q))).map Cmd1.query = .ok (.query q) := by
  obtain ⟨h1, h2⟩ := fuel_printQuery K hK q hq
  rw [queryP_rt S K hK q hq _ h1 h2]
  rfl

example : parseCommand Uni.ascii (printQuery Kw.lower { q0 with offset := some 4294967295 }) =
    .ok (.single (.query { q0 with offset := some 4294967295 })) := by decide +kernel

/-- **Precedence: AND binds tighter than OR** — `x OR y AND z` is `x OR (y AND z)`. -/
theorem C17_precedence_and_over_or (S : Sites) (K : Kw) (hK : K.Valid) (x y z : Expr)
    (hx : WFExpr x) (hy : WFExpr y) (hz : WFExpr z) (n : Nat) (hn : need x + need y + need z + 3 ≤ n)
    (rest : Str) (hs : ExprEnd rest) :
    exprF S n (pr K 1 x ++ ' ' :: (K.or_ ++ ' ' :: (pr K 2 y ++ ' ' :: (K.and_ ++ ' ' :: (pr K 1 z ++ rest)))))
      = .ok (.or x (.and y z)) rest := by
  have := C17_roundtrip S K hK (.or x (.and y z)) ⟨hx, hy, hz⟩ n (by simp [need]; omega) rest hs
  simpa [printExpr, pr, paren] using this

/-- … also on the left: `y AND z OR x` is `(y AND z) OR x`. -/
theorem C17_precedence_and_over_or_left (S : Sites) (K : Kw) (hK : K.Valid) (x y z : Expr)
    (hx : WFExpr x) (hy : WFExpr y) (hz : WFExpr z) (n : Nat) (hn : need x + need y + need z + 3 ≤ n)
    (rest : Str) (hs : ExprEnd rest) :
    exprF S n (pr K 2 y ++ ' ' :: (K.and_ ++ ' ' :: (pr K 1 z ++ ' ' :: (K.or_ ++ ' ' :: (pr K 0 x ++ rest)))))
      = .ok (.or (.and y z) x) rest := by
  have := C17_roundtrip S K hK (.or (.and y z) x) ⟨⟨hy, hz⟩, hx⟩ n (by simp [need]; omega) rest hs
  simpa [printExpr, pr, paren] using this

/-- **NOT binds tighter than AND** — `NOT y AND z` is `(NOT y) AND z`. -/
theorem C17_precedence_not_over_and (S : Sites) (K : Kw) (hK : K.Valid) (y z : Expr)
    (hy : WFExpr y) (hz : WFExpr z) (n : Nat) (hn : need y + need z + 3 ≤ n) (rest : Str) (hs : ExprEnd rest) :
    exprF S n (K.not_ ++ ' ' :: (pr K 2 y ++ ' ' :: (K.and_ ++ ' ' :: (pr K 1 z ++ rest))))
      = .ok (.and (.not y) z) rest := by
  have := C17_roundtrip S K hK (.and (.not y) z) ⟨hy, hz⟩ n (by simp [need]; omega) rest hs
  simpa [printExpr, pr, paren] using this

/-- **Parentheses override precedence** — `(x OR y) AND z` is `(x OR y) AND z`, and `NOT (x AND y)`
negates the conjunction. -/
theorem C17_precedence_parens (S : Sites) (K : Kw) (hK : K.Valid) (x y z : Expr)
    (hx : WFExpr x) (hy : WFExpr y) (hz : WFExpr z) (n : Nat) (hn : need x + need y + need z + 3 ≤ n)
    (rest : Str) (hs : ExprEnd rest) :
    exprF S n ('(' :: (pr K 1 x ++ ' ' :: (K.or_ ++ ' ' :: (pr K 0 y ++ ')' :: ' ' :: (K.and_ ++ ' ' :: (pr K 1 z ++ rest))))))
      = .ok (.and (.or x y) z) rest
    ∧ exprF S n (K.not_ ++ ' ' :: '(' :: (pr K 2 x ++ ' ' :: (K.and_ ++ ' ' :: (pr K 1 y ++ ')' :: rest))))
      = .ok (.not (.and x y)) rest := by
  have h1 := C17_roundtrip S K hK (.and (.or x y) z) ⟨⟨hx, hy⟩, hz⟩ n (by simp [need]; omega) rest hs
  have h2 := C17_roundtrip S K hK (.not (.and x y)) ⟨hx, hy⟩ n (by simp [need]; omega) rest hs
  constructor
  · simpa [printExpr, pr, paren] using h1
  · simpa [printExpr, pr, paren] using h2

/-- non-vacuity of the precedence statements on the real entry point -/
def qa : Query := { eventType := "ev".toList, whereClause := some (.or (.cmp ['a'] .eq (.bool true)) (.and (.cmp ['b'] .eq (.bool true)) (.not (.cmp ['c'] .eq (.bool true))))) }
def qb : Query := { eventType := "ev".toList, whereClause := some (.and (.or (.cmp ['a'] .eq (.bool true)) (.cmp ['b'] .eq (.bool true))) (.not (.cmp ['c'] .eq (.bool true)))) }
example : parseCommand Uni.ascii "QUERY ev WHERE a OR b AND NOT c".toList = .ok (.single (.query qa)) := by decide +kernel
example : parseCommand Uni.ascii "QUERY ev WHERE (a OR b) AND NOT c".toList = .ok (.single (.query qb)) := by decide +kernel

/-- **Keywords are case-insensitive.** (1) The keyword recogniser sees the leading letters only
through `lower`; `lower` identifies 'A'–'Z' with 'a'–'z'. (2) The all-upper and the all-lower spelling are
valid, and any two valid spellings of the keywords give the same parse of the same expression. -/
theorem C17_keywords_ci :
    (∀ (k s s' : Str), (letterRun s).map lower = (letterRun s').map lower →
        s.dropWhile isLetter = s'.dropWhile isLetter → kw k s = kw k s') ∧
    (∀ n, n < 26 → lower (Char.ofNat (65 + n)) = Char.ofNat (97 + n) ∧ lower (Char.ofNat (97 + n)) = Char.ofNat (97 + n)) ∧
    Kw.upper.Valid ∧ Kw.lower.Valid ∧
    (∀ (S : Sites) (K K' : Kw), K.Valid → K'.Valid → ∀ e, WFExpr e → ∀ n, need e + 1 ≤ n → ∀ rest, ExprEnd rest →
        exprF S n (printExpr K e ++ rest) = exprF S n (printExpr K' e ++ rest)) := by
  refine ⟨?_, by decide, by decide, by decide, ?_⟩
  · intro k s s' h1 h2
    unfold letterRun at h1
    have hemp : (s.takeWhile isLetter).isEmpty = (s'.takeWhile isLetter).isEmpty := by
      have := congrArg List.isEmpty h1
      simpa using this
    have heq : eqCi (s.takeWhile isLetter) k = eqCi (s'.takeWhile isLetter) k := by
      unfold eqCi; rw [h1]
    show (if (!(s.takeWhile isLetter).isEmpty && eqCi (s.takeWhile isLetter) k) = true then PRes.ok () (s.dropWhile isLetter) else PRes.fail)
       = (if (!(s'.takeWhile isLetter).isEmpty && eqCi (s'.takeWhile isLetter) k) = true then PRes.ok () (s'.dropWhile isLetter) else PRes.fail)
    rw [hemp, heq, h2]
  · intro S K K' hK hK' e he n hn rest hs
    rw [C17_roundtrip S K hK e he n hn rest hs, C17_roundtrip S K' hK' e he n hn rest hs]

example : parseCommand Uni.ascii "query ev where a Or b aNd nOT c limit 7".toList =
    parseCommand Uni.ascii "QUERY ev WHERE a OR b AND NOT c LIMIT 7".toList := by decide +kernel

/-- **Parsing is total**: for every input and every Unicode table, `parse_command` of the present code
answers `ok`, `error` (or `unmodelled` for DEFINE / PLOT) — never `panic`. The unwrap sites
`Sites.current` are generated from the source (fallible `{? … }` actions since 3a22cf3 / 871e1a6);
`by decide` checks that none of them unwraps. -/
theorem C17_parse_total (U : Uni) (s : Str) : parseCommand U s ≠ .panic :=
  parseCommandWith_np Sites.current (by decide) U s

/-- The general form: whatever the sites, a panic can only come from a site that unwraps. -/
theorem C17_parse_total_of_sites (S : Sites) (hS : S.NoPanic) (U : Uni) (s : Str) :
    parseCommandWith S U s ≠ .panic :=
  parseCommandWith_np S hS U s

/-- the inputs that panicked before the fix are parse errors now; the boundary values parse -/
example : parseCommand Uni.ascii "QUERY ev LIMIT 99999999999".toList = .error := by decide +kernel
example : parseCommand Uni.ascii "QUERY ev LIMIT -1".toList = .error := by decide +kernel
example : parseCommand Uni.ascii "QUERY ev OFFSET 4294967296".toList = .error := by decide +kernel
example : parseCommand Uni.ascii "QUERY ev WHERE x = 99999999999999999999".toList = .error := by decide +kernel
example : parseCommand Uni.ascii ("QUERY ev WHERE x = 1".toList ++ List.replicate 309 '0' ++ ".0".toList) = .error := by
  decide +kernel
def qc : Query := { eventType := "ev".toList, limit := some 4294967295 }
def qd : Query := { eventType := "ev".toList, whereClause := some (.cmp ['x'] .eq (.int (-9223372036854775808))) }
example : parseCommand Uni.ascii "QUERY ev LIMIT 4294967295".toList = .ok (.single (.query qc)) := by decide +kernel
example : parseCommand Uni.ascii "QUERY ev WHERE x = -9223372036854775808".toList = .ok (.single (.query qd)) := by decide +kernel

/-- Historical (findings C17-limit-offset-unwrap, C17-int-literal-unwrap, C17-float-literal-unwrap, status
fixed): with the sites of the code before the fix — `Sites.unwrapping`, no longer `Sites.current` — each
of the four `unwrap()`s was reachable. Kept because it shows that the generated site flags decide the
theorem above: a regression to `unwrap()` flips a flag and `C17_parse_total` stops compiling. -/
theorem C17_unwrapping_sites_panic :
    parseCommandWith Sites.unwrapping Uni.ascii "QUERY ev LIMIT 99999999999".toList = .panic ∧
    parseCommandWith Sites.unwrapping Uni.ascii "QUERY ev LIMIT -1".toList = .panic ∧
    parseCommandWith Sites.unwrapping Uni.ascii "QUERY ev OFFSET 4294967296".toList = .panic ∧
    parseCommandWith Sites.unwrapping Uni.ascii "QUERY ev WHERE x = 99999999999999999999".toList = .panic ∧
    parseCommandWith Sites.unwrapping Uni.ascii ("QUERY ev WHERE x = 1".toList ++ List.replicate 309 '0' ++ ".0".toList) = .panic ∧
    Sites.current ≠ Sites.unwrapping := by
  refine ⟨by decide +kernel, by decide +kernel, by decide +kernel, by decide +kernel, by decide +kernel, by decide⟩

/-- what `validate_tokens` decides: the pre-pass of `parse_command` rejects the text -/
def preRejects (U : Uni) (t : Str) : Bool := (tokenize U t).any (· == .invalid)

/-- **The tokenizer pre-pass is a scan for a non-token character outside the tokenizer's literals.**
For every text: `parse_command`'s pre-pass rejects iff, pairing quotes the tokenizer's way (`\"` is an
escaped quote), some character outside the literals is not a token character. Running out of input
inside a literal is not a rejection (the tokenizer returns the partial literal). -/
theorem C17_pretokenize_scan (U : Uni) (hU : U.Coherent) (t : Str) : preRejects U t = scanBad U .out t :=
  tokenize_invalid_iff U hU t .top

/-- **An unterminated literal is never rejected**: if the pre-pass passes `a` and is outside a literal
after it, then `a` followed by an opening quote and any text without a further quote — backslashes,
non-token characters, anything — is passed too. This is what makes a grammar literal that ends in a
backslash (`"C:\tmp\"`, complete for the grammar, open for the tokenizer) acceptable at the end of a
command. -/
theorem C17_pretokenize_unterminated_ok (U : Uni) (hU : U.Coherent) (a s : Str) (ha : Clean U a)
    (hs : s.all notQuote = true) : preRejects U (a ++ '"' :: s) = false := by
  rw [C17_pretokenize_scan U hU, scanBad_append, ha.1, ha.2]
  simp [scanBad, scanBad_in_literal U s .str (by simp) hs]

/-- PARTIAL: **the pre-pass never rejects a printed command** of the QUERY fragment whose string literals
contain no backslash. (With `C17_roundtrip_query` this covers everything `parse_command` does before and
after routing except `trim`.) The hypothesis on backslashes is needed: see
`C17_pretokenize_accepts_grammar_fails`. -/
theorem C17_pretokenize_accepts_printed_partial (U : Uni) (hU : U.Coherent) (K : Kw) (hK : K.Valid) (q : Query)
    (hq : WFQuery q) (hb : ∀ e, q.whereClause = some e → NoBackslashE e) :
    preRejects U (printQuery K q) = false := by
  rw [C17_pretokenize_scan U hU]
  exact (Clean.printQuery U K hK q hq hb).1

/-- The full statement "the pre-pass never rejects a text the grammar accepts" is false of the code as
it is: the grammars have no escape syntax, the tokenizer reads `\"` as an escaped quote, so after a
literal that ends in a backslash the two disagree about what is inside a literal, and a later literal
with a non-token character is flagged. `query()` accepts the text; `parse_command` answers
"Found invalid character during tokenization". Reproduced on the real code (finding class
tokenizer-escape-desync). A literal ending in a backslash at the END of a command is fine. -/
def qf : Query := { eventType := "ev".toList, whereClause := some (.and (.cmp ['a'] .eq (.str ['x', '\\'])) (.cmp ['b'] .eq (.str ['@']))) }
theorem C17_pretokenize_accepts_grammar_fails :
    ∃ t : Str, (∃ q, ofP (queryP Sites.current (fuelOf t) t) = .ok q) ∧ preRejects Uni.ascii t = true ∧
      parseCommand Uni.ascii t = .error :=
  ⟨"QUERY ev WHERE a = \"x\\\" AND b = \"@\"".toList, ⟨qf, by decide +kernel⟩, by decide +kernel, by decide +kernel⟩

def qe : Query := { eventType := "files".toList, whereClause := some (.cmp "dir".toList .eq (.str "C:\\tmp\\".toList)) }
example : parseCommand Uni.ascii "QUERY files WHERE dir = \"C:\\tmp\\\"".toList = .ok (.single (.query qe)) := by decide +kernel
example : preRejects Uni.ascii "QUERY files WHERE dir = \"C:\\tmp\\\"".toList = false := by decide +kernel
example : Uni.ascii.Coherent := by intro c h; simp [Uni.ascii] at h

/-- **REMEMBER slices on character boundaries.** `remember.rs` looks for the last " AS " in an
ASCII-upper-cased copy and slices the original text at that byte offset (and 4 bytes later).
ASCII upper-casing keeps the UTF-8 length of every character (first two clauses), hence for every text —
any Unicode content — both slices exist: `remainder[..as_idx]` and `remainder[as_idx + 4..]` never
panic, and they are the text before / after that " AS ". (That the copy is made with
`to_ascii_uppercase` is pinned by the constants extractor: `tie_rememberUpperIsAscii`; with a Unicode
case mapping the lengths differ — e.g. U+0390 2→6 bytes — and the statement is false.) -/
theorem C17_remember_split_total :
    (∀ c, utf8Len (upper c) = utf8Len c) ∧ (∀ s, byteLen (s.map upper) = byteLen s) ∧
    (∀ (s : Str) (idx : Nat), rfind " AS ".toList (s.map upper) = some idx →
      ∃ i, splitAtByte s idx = some (s.take i, s.drop i) ∧
           splitAtByte s (idx + 4) = some (s.take (i + 4), s.drop (i + 4)) ∧
           ((s.map upper).drop i).take 4 = " AS ".toList) := by
  refine ⟨utf8Len_upper, byteLen_map_upper, ?_⟩
  intro s idx h
  rcases rfindFrom_spec _ _ 0 none idx h with h0 | ⟨i, hi, hr, hs⟩
  · simp at h0
  · obtain ⟨j, h1, h2⟩ := remember_split s idx h
    -- `remember_split` and this `i` denote the same boundary; restate with the witness of the search
    obtain ⟨r, hr4⟩ := startsWith_as _ hs
    simp only [List.length_map] at hi
    have hidx : idx = byteLen (s.take i) := by
      rw [hr, Nat.zero_add, ← List.map_take, byteLen_map_upper]
    have hlen : i + 4 ≤ s.length := by
      have := congrArg List.length hr4
      simp at this; omega
    have hb : byteLen (s.take (i + 4)) = idx + 4 := by
      have e : s.take (i + 4) = s.take i ++ (s.drop i).take 4 := by rw [List.take_add]
      rw [e, byteLen_append, ← hidx]
      have : byteLen ((s.drop i).take 4) = byteLen (((s.map upper).drop i).take 4) := by
        rw [← List.map_drop, ← List.map_take, byteLen_map_upper]
      rw [this, hr4]
      have t4 : (' ' :: 'A' :: 'S' :: ' ' :: r).take 4 = [' ', 'A', 'S', ' '] := rfl
      rw [t4]
      have b4 : byteLen [' ', 'A', 'S', ' '] = 4 := by decide
      rw [b4]
    refine ⟨i, ?_, ?_, ?_⟩
    · rw [hidx]; exact splitAtByte_take s i hi
    · rw [← hb]; exact splitAtByte_take s (i + 4) hlen
    · rw [hr4]; rfl

/-- non-vacuity with characters whose Unicode upper-case has another UTF-8 length (U+0390, U+FB01, U+0149) -/
def qr : Query := { eventType := "orders".toList, contextId := some [Char.ofNat 0x390, Char.ofNat 0x390, Char.ofNat 0xFB01, Char.ofNat 0x149] }
example : parseCommand Uni.ascii ("REMEMBER QUERY orders FOR \"".toList ++ [Char.ofNat 0x390, Char.ofNat 0x390, Char.ofNat 0xFB01, Char.ofNat 0x149] ++ "\" AS hot".toList) =
    .ok (.single (.remember "hot".toList qr)) := by decide +kernel

/-- **Dispatch is total**: every command `parse_command` can return — including `Batch` — has an arm in
`dispatch_command` (arms generated from the source; `Batch(_)` answers 400 since fbe6de4, and the
`_ => unreachable!()` arm is gone). -/
theorem C17_dispatch_total (c : Command) : dispatch c = .handled := by
  cases c with
  | batch cs => simp only [dispatch, Command.variant]; decide
  | single c1 => cases c1 <;> simp only [dispatch, Command.variant, Cmd1.variant] <;> decide

/-- … stated on the parser's output. -/
theorem C17_dispatch_total_parsed (U : Uni) (s : Str) (c : Command) (_h : parseCommand U s = .ok c) :
    dispatch c ≠ .unreachable := by
  rw [C17_dispatch_total c]; decide

/-- every variant of the Rust `Command` enum (generated list), also the ones the text parser of the
modelled fragment never produces (`Define`, `Compare`), has an arm; there is no fallback arm. -/
theorem C17_dispatch_all_variants :
    (∀ v ∈ Gen.C17.commandVariants, dispatchVariant v = .handled) ∧ Gen.C17.dispatchFallbackUnreachable = false := by
  decide

example : parseCommand Uni.ascii "BATCH [ PING ]".toList = .ok (.batch [.ping]) ∧ dispatch (.batch [.ping]) = .handled := by
  constructor
  · decide +kernel
  · decide

end Snel.Props.C17
